(* C12 — proofs about Model/DisputeTally.v *)
From Coq Require Import ZArith List Bool Lia String.
From Verif Require Import Base.Harness Model.DisputeTally.
Import ListNotations.
Open Scope Z_scope.

(* ======================================================================================= *)
(* LegacyDec                                                                               *)
(* ======================================================================================= *)
Lemma P_pos : 0 < P. Proof. reflexivity. Qed.
Lemma P_val : P = 100 * 10000000000000000. Proof. reflexivity. Qed.
Lemma HALF_val : 2 * HALF = P. Proof. reflexivity. Qed.

Lemma chop_round_nonneg_alt a :
  chop_round_nonneg a =
  (let q := a / P in let r := a mod P in
   if r =? 0 then q else
   match r ?= HALF with Lt => q | Gt => q + 1 | Eq => if Z.even q then q else q + 1 end).
Proof. unfold chop_round_nonneg, Z.div, Z.modulo. destruct (Z.div_eucl a P). reflexivity. Qed.

(* |result * 10^18 - input| <= 10^18 / 2, and the result is the floor or the floor + 1 *)
Lemma chop_round_nonneg_err a :
  0 <= a -> 2 * Z.abs (chop_round_nonneg a * P - a) <= P /\ a / P <= chop_round_nonneg a <= a / P + 1.
Proof.
  intros Ha. rewrite chop_round_nonneg_alt. cbv zeta.
  pose proof (Z.div_mod a P ltac:(unfold P; lia)) as Hdm.
  pose proof (Z.mod_pos_bound a P P_pos) as Hr.
  set (q := a / P) in *. set (r := a mod P) in *.
  destruct (r =? 0) eqn:E0; [apply Z.eqb_eq in E0; unfold P in *; lia|]. apply Z.eqb_neq in E0.
  destruct (Z.compare_spec r HALF) as [E|E|E]; [destruct (Z.even q)| |]; unfold P, HALF in *; lia.
Qed.

Lemma chop_round_of_nonneg a : 0 <= a -> chop_round a = chop_round_nonneg a.
Proof. intros H. unfold chop_round. destruct (a <? 0) eqn:E; [apply Z.ltb_lt in E; lia | reflexivity]. Qed.

Lemma chop_round_err d : 2 * Z.abs (chop_round d * P - d) <= P.
Proof.
  unfold chop_round. destruct (d <? 0) eqn:E; [apply Z.ltb_lt in E | apply Z.ltb_ge in E].
  - destruct (chop_round_nonneg_err (- d) ltac:(lia)) as [H _]. lia.
  - destruct (chop_round_nonneg_err d E) as [H _]. exact H.
Qed.

Lemma chop_round_bounds a : 0 <= a -> a / P <= chop_round a <= a / P + 1 /\ 2 * chop_round a * P <= 2 * a + P.
Proof.
  intros H. rewrite (chop_round_of_nonneg a H).
  destruct (chop_round_nonneg_err a H) as [H1 H2]. split; [exact H2 | lia].
Qed.

Lemma chop_round_exact k : chop_round (k * P) = k.
Proof.
  unfold chop_round. destruct (k * P <? 0) eqn:E; [apply Z.ltb_lt in E | apply Z.ltb_ge in E].
  - rewrite chop_round_nonneg_alt. replace (- (k * P)) with ((- k) * P) by ring.
    rewrite Z.mod_mul, Z.div_mul by (unfold P; lia). cbn. lia.
  - rewrite chop_round_nonneg_alt. rewrite Z.mod_mul, Z.div_mul by (unfold P; lia). reflexivity.
Qed.

Lemma dec_mul_of_int a b : dec_mul (of_int a) (of_int b) = of_int (a * b).
Proof.
  unfold dec_mul, of_int. replace (a * P * (b * P)) with (a * b * P * P) by ring. apply chop_round_exact.
Qed.

Lemma dec_mul_int_r q b : dec_mul q (of_int b) = q * b.
Proof. unfold dec_mul, of_int. replace (q * (b * P)) with (q * b * P) by ring. apply chop_round_exact. Qed.

(* a.Quo(of_int b) for a >= 0, b > 0: banker's rounding of floor(a*10^18 / b) *)
Lemma dec_quo_int a b : 0 <= a -> 0 < b -> dec_quo a (of_int b) = chop_round ((a * P) / b).
Proof.
  intros Ha Hb. unfold dec_quo, of_int. f_equal.
  replace (a * P * P) with (a * P * P) by ring.
  rewrite Z.quot_mul_cancel_r by (unfold P; lia).
  apply Z.quot_div_nonneg; [unfold P; nia | lia].
Qed.

Lemma truncate_nonneg a : 0 <= a -> truncate_int a = a / P.
Proof. intros H. unfold truncate_int. apply Z.quot_div_nonneg; [exact H | exact P_pos]. Qed.

(* ======================================================================================= *)
(* Ratio                                                                                   *)
(* ======================================================================================= *)
Definition E16 : Z := 10000000000000000.

(* the rounded quotient inside Ratio *)
Definition ratio_q (total part : Z) : Z := chop_round ((part * PR * P * P) / (total * 4)).

Lemma ratio_unfold total part :
  0 < total -> 0 <= part -> ratio total part = (ratio_q total part * 100) / P /\ 0 <= ratio_q total part.
Proof.
  intros Ht Hp. unfold ratio, ratio_q.
  destruct (total =? 0) eqn:E; [apply Z.eqb_eq in E; lia|].
  cbv zeta. rewrite dec_mul_of_int.
  assert (H0 : 0 <= part * PR) by (unfold PR; lia).
  rewrite dec_quo_int by (unfold of_int, P; nia).
  unfold of_int at 1. replace (part * PR * P * P) with (part * PR * P * P) by ring.
  assert (Hy : 0 <= (part * PR * P * P) / (total * 4)) by (apply Z.div_pos; [unfold P; nia | lia]).
  pose proof (chop_round_bounds _ Hy) as [[Hlo _] _].
  assert (Hq : 0 <= chop_round ((part * PR * P * P) / (total * 4))).
  { assert (0 <= (part * PR * P * P) / (total * 4) / P) by (apply Z.div_pos; [exact Hy | exact P_pos]). lia. }
  rewrite dec_mul_int_r. split; [|exact Hq].
  apply truncate_nonneg. lia.
Qed.

(* abstract arithmetic core: n = floor(25*PR*part/total) *)
Lemma ratio_core_lower total part y q :
  0 < total -> 0 <= part ->
  y = (part * PR * P * P) / (total * 4) -> y / P <= q ->
  ((25 * PR * part) / total) * P <= q * 100.
Proof.
  intros Ht Hp Hy Hq. set (n := (25 * PR * part) / total).
  assert (Hn : n * total <= 25 * PR * part).
  { unfold n. rewrite Z.mul_comm. apply Z.mul_div_le. exact Ht. }
  assert (Hy1 : n * E16 * P <= y).
  { rewrite Hy. apply Z.div_le_lower_bound; [lia|].
    replace (total * 4 * (n * E16 * P)) with ((n * total) * (4 * E16 * P)) by ring.
    replace (part * PR * P * P) with ((25 * PR * part) * (4 * E16 * P)) by (unfold P, E16; ring).
    apply Z.mul_le_mono_nonneg_r; [unfold E16, P; lia | exact Hn]. }
  assert (Hy2 : n * E16 <= y / P).
  { apply Z.div_le_lower_bound; [exact P_pos | lia]. }
  replace (n * P) with (n * E16 * 100) by (unfold P, E16; ring). lia.
Qed.

Lemma ratio_core_y_upper total part y :
  0 < total -> 0 <= part ->
  y = (part * PR * P * P) / (total * 4) ->
  y * total <= ((25 * PR * part) / total + 1) * (E16 * P) * total - E16 * P.
Proof.
  intros Ht Hp Hy. set (n := (25 * PR * part) / total).
  assert (Hn : 25 * PR * part + 1 <= (n + 1) * total).
  { unfold n. pose proof (Z.mul_succ_div_gt (25 * PR * part) total Ht). lia. }
  assert (Hy1 : y * (total * 4) <= part * PR * P * P).
  { rewrite Hy. rewrite Z.mul_comm. apply Z.mul_div_le. lia. }
  replace (part * PR * P * P) with ((25 * PR * part) * (4 * (E16 * P))) in Hy1 by (unfold P, E16; ring).
  assert (H2 : (25 * PR * part) * (4 * (E16 * P)) <= ((n + 1) * total - 1) * (4 * (E16 * P))).
  { apply Z.mul_le_mono_nonneg_r; [unfold E16, P; lia | lia]. }
  lia.
Qed.

(* Ratio total part = floor(25*10^6 * part / total) for every total below 2*10^16 loya *)
Lemma ratio_exact total part :
  0 < total < 2 * E16 -> 0 <= part -> ratio total part = (25 * PR * part) / total.
Proof.
  intros [Ht Htu] Hp.
  destruct (ratio_unfold total part Ht Hp) as [Hr Hq0]. rewrite Hr.
  set (y := (part * PR * P * P) / (total * 4)).
  assert (Hy : 0 <= y) by (apply Z.div_pos; [unfold P, PR; nia | lia]).
  pose proof (chop_round_bounds y Hy) as [[Hlo _] Hup].
  fold (ratio_q total part) in Hlo, Hup. fold y in Hlo, Hup. unfold ratio_q in *. fold y in Hq0 |- *.
  set (q := chop_round y) in *. set (n := (25 * PR * part) / total).
  pose proof (ratio_core_lower total part y q Ht Hp eq_refl Hlo) as Hlow. fold n in Hlow.
  pose proof (ratio_core_y_upper total part y Ht Hp eq_refl) as Hyu. fold n in Hyu.
  (* q*P <= y + HALF < (n+1)*E16*P *)
  assert (Hup2 : q * 100 < (n + 1) * P).
  { assert (Hh : HALF * total < E16 * P) by (unfold HALF, E16, P in *; lia).
    assert (Hq : 2 * (q * P) * total <= (2 * y + P) * total).
    { apply Z.mul_le_mono_nonneg_r; lia. }
    assert (Hk : q * P * total < (n + 1) * (E16 * P) * total).
    { pose proof HALF_val. nia. }
    assert (Hk2 : q * P < (n + 1) * (E16 * P)).
    { apply Z.mul_lt_mono_pos_r with (p := total); [exact Ht | exact Hk]. }
    replace ((n + 1) * P) with ((n + 1) * E16 * 100) by (unfold P, E16; ring).
    assert (q < (n + 1) * E16); [|lia].
    apply Z.mul_lt_mono_pos_r with (p := P); [exact P_pos | lia]. }
  symmetry. apply Z.div_unique with (r := q * 100 - n * P). lia. lia.
Qed.

(* for every total: between the floor and the floor + 1 *)
Lemma ratio_bounds total part :
  0 < total -> 0 <= part ->
  (25 * PR * part) / total <= ratio total part <= (25 * PR * part) / total + 1.
Proof.
  intros Ht Hp.
  destruct (ratio_unfold total part Ht Hp) as [Hr Hq0]. rewrite Hr.
  set (y := (part * PR * P * P) / (total * 4)).
  assert (Hy : 0 <= y) by (apply Z.div_pos; [unfold P, PR; nia | lia]).
  pose proof (chop_round_bounds y Hy) as [[Hlo Hhi] _].
  unfold ratio_q in *. fold y in Hq0 |- *.
  set (q := chop_round y) in *. set (n := (25 * PR * part) / total).
  pose proof (ratio_core_lower total part y q Ht Hp eq_refl Hlo) as Hlow. fold n in Hlow.
  pose proof (ratio_core_y_upper total part y Ht Hp eq_refl) as Hyu. fold n in Hyu.
  assert (Hy3 : y < (n + 1) * (E16 * P)).
  { apply Z.mul_lt_mono_pos_r with (p := total); [exact Ht|]. unfold E16, P in *. lia. }
  assert (Hy4 : y / P < (n + 1) * E16).
  { apply Z.div_lt_upper_bound; [exact P_pos | lia]. }
  split.
  - apply Z.div_le_lower_bound; [exact P_pos | lia].
  - assert (q * 100 < (n + 2) * P).
    { replace ((n + 2) * P) with ((n + 2) * E16 * 100) by (unfold P, E16; ring). unfold E16 in *. lia. }
    assert (q * 100 / P < n + 2) by (apply Z.div_lt_upper_bound; [exact P_pos | lia]). lia.
Qed.

Lemma ratio_total_zero part : ratio 0 part = 0.
Proof. reflexivity. Qed.

(* beyond 2*10^16 loya the rounding at 10^-18 can add one unit *)
Lemma ratio_exact_bound_tight :
  let total := 2 * E16 + 1 in let part := 800000000 in
  ratio total part = (25 * PR * part) / total + 1.
Proof. vm_compute. reflexivity. Qed.

(* ======================================================================================= *)
(* TallyVote: totality                                                                     *)
(* ======================================================================================= *)
Lemma dstatus_eqb_refl s : dstatus_eqb s s = true.
Proof. destruct s; reflexivity. Qed.
Lemma dstatus_eqb_eq a b : dstatus_eqb a b = true -> a = b.
Proof. destruct a, b; cbn; congruence. Qed.
Lemma err_eqb_eq a b : err_eqb a b = true -> a = b.
Proof. destruct a, b; cbn; congruence. Qed.

Lemma update_dispute_fixed q s a i :
  exists res, update_dispute true q s a i = Some res /\
    (res = result_code q Support /\ a < s /\ i < s \/
     res = result_code q Against /\ s < a /\ i < a \/
     res = result_code q Invalid /\ ~ (a < s /\ i < s) /\ ~ (s < a /\ i < a)).
Proof.
  unfold update_dispute, result_code.
  destruct (Z.ltb_spec a s), (Z.ltb_spec i s), (Z.ltb_spec s a), (Z.ltb_spec i a), (Z.ltb_spec s i), (Z.ltb_spec a i);
    cbn [andb]; eexists; (split; [reflexivity|]); destruct q; lia.
Qed.

Lemma finish_fixed q x st op s a i :
  exists res, finish true q x st op s a i = TO TOk res (ti_now x) st op true /\
              update_dispute true q s a i = Some res /\ (if q then 1 <= res <= 3 else 4 <= res <= 6).
Proof.
  destruct (update_dispute_fixed q s a i) as [res [E H]]. exists res. unfold finish. rewrite E.
  split; [reflexivity|]. split; [reflexivity|]. unfold result_code in H. destruct q; lia.
Qed.

(* the repaired tally is decided for every input: a result, or "still voting" while the
   period runs and quorum is not reached at the code's resolution; never an error *)
Lemma tally_total x :
  ti_prev x = 0 ->
  let o := tally_vote true x in
  (to_err o = TOk /\ 1 <= to_result o <= 6 /\ to_vote_end o = ti_now x /\ to_pending o = true /\
   ((first_quorum x || second_quorum x = true /\ 1 <= to_result o <= 3 /\ to_status o = Resolved /\ to_open o = false) \/
    (first_quorum x || second_quorum x = false /\ ti_vote_end x < ti_now x /\ 4 <= to_result o <= 6)))
  \/ (to_err o = TStillVoting /\ first_quorum x || second_quorum x = false /\ ti_now x <= ti_vote_end x /\
      to_result o = 0 /\ to_vote_end o = ti_vote_end x /\ to_status o = ti_status x /\
      to_open o = ti_open x /\ to_pending o = ti_pending x).
Proof.
  intros Hp o. subst o. unfold tally_vote. rewrite Hp. cbn [Z.eqb negb].
  destruct (first_quorum x) eqn:F1.
  - left. match goal with |- context [finish true true x ?st ?op ?s ?a ?i] =>
      destruct (finish_fixed true x st op s a i) as [res [E [_ R]]]; rewrite E end.
    cbn. repeat split; try lia; try (left; repeat split; lia).
  - destruct (second_quorum x) eqn:F2.
    + left. match goal with |- context [finish true true x ?st ?op ?s ?a ?i] =>
        destruct (finish_fixed true x st op s a i) as [res [E [_ R]]]; rewrite E end.
      cbn. repeat split; try lia; try (left; repeat split; lia).
    + destruct (Z.ltb_spec (ti_vote_end x) (ti_now x)) as [Hv|Hv].
      * left. destruct (ti_voters x =? 0).
        -- cbn. repeat split; try lia; try (right; repeat split; lia).
        -- match goal with |- context [finish true false x ?st ?op ?s ?a ?i] =>
             destruct (finish_fixed false x st op s a i) as [res [E [_ R]]]; rewrite E end.
           cbn. repeat split; try lia; try (right; repeat split; lia).
      * right. cbn. repeat split; try reflexivity; lia.
Qed.

(* F03: the code as found is not total.  Two reporters of equal stake (5 TRB each, total
   reporter power 10 TRB) vote support / against; 49 hours after the start the period is over *)
Definition f03_witness : tally_in :=
  TI 0 None (C3 0 0 0) (C3 5000000 5000000 0) (C3 0 0 0) 0 10000000 100000000
     (1700000000000000000 + 49 * 3600 * 1000000000) (1700000000000000000 + 48 * 3600 * 1000000000)
     (1700000000000000000 + 72 * 3600 * 1000000000) 2 Voting true false.

Lemma tally_total_refuted :
  exists x, ti_prev x = 0 /\ consistent x = true /\ ti_vote_end x < ti_now x /\
            to_err (tally_vote false x) = TNoMajority /\
            to_err (tally_vote true x) = TOk /\ to_result (tally_vote true x) = 6.
Proof. exists f03_witness. vm_compute. repeat split; congruence. Qed.

(* ======================================================================================= *)
(* TallyVote against the exact formula                                                     *)
(* ======================================================================================= *)
Definition nonneg3 (c : counts) : Prop := 0 <= c_s c /\ 0 <= c_a c /\ 0 <= c_i c.
Definition valid (x : tally_in) : Prop :=
  nonneg3 (ti_users x) /\ nonneg3 (ti_reps x) /\ nonneg3 (ti_holders x) /\
  0 <= ti_tips x /\ 0 <= ti_power x /\ 0 <= ti_supply x.

Definition K : Z := PR * P.

Lemma abs_mul_le X c m : Z.abs X <= c -> 0 <= m -> Z.abs (X * m) <= c * m.
Proof.
  intros H Hm. rewrite Z.abs_mul, (Z.abs_eq m) by lia. apply Z.mul_le_mono_nonneg_r; lia.
Qed.

(* three groups with their own denominators brought to the common denominator *)
Lemma combine3 k t g1 g2 g3 v1 v2 v3 c1 c2 c3 :
  0 < c1 -> 0 < c2 -> 0 < c3 ->
  Z.abs (g1 * c1 - k * v1) <= c1 -> Z.abs (g2 * c2 - k * v2) <= c2 -> Z.abs (g3 * c3 - k * v3) <= c3 ->
  Z.abs ((k * t + g1 + g2 + g3) * (c1 * c2 * c3)
         - k * (t * (c1 * c2 * c3) + v1 * (c2 * c3) + v2 * (c1 * c3) + v3 * (c1 * c2))) <= 3 * (c1 * c2 * c3).
Proof.
  intros H1 H2 H3 E1 E2 E3.
  assert (M1 : 0 <= c2 * c3) by nia. assert (M2 : 0 <= c1 * c3) by nia. assert (M3 : 0 <= c1 * c2) by nia.
  pose proof (abs_mul_le _ _ _ E1 M1) as B1. pose proof (abs_mul_le _ _ _ E2 M2) as B2.
  pose proof (abs_mul_le _ _ _ E3 M3) as B3.
  replace ((k * t + g1 + g2 + g3) * (c1 * c2 * c3)
           - k * (t * (c1 * c2 * c3) + v1 * (c2 * c3) + v2 * (c1 * c3) + v3 * (c1 * c2)))
    with ((g1 * c1 - k * v1) * (c2 * c3) + (g2 * c2 - k * v2) * (c1 * c3) + (g3 * c3 - k * v3) * (c1 * c2)) by ring.
  replace (c1 * (c2 * c3)) with (c1 * c2 * c3) in B1 by ring.
  replace (c2 * (c1 * c3)) with (c1 * c2 * c3) in B2 by ring.
  replace (c3 * (c1 * c2)) with (c1 * c2 * c3) in B3 by ring.
  lia.
Qed.

Lemma pos1_pos z : 0 <= z -> 0 < pos1 z.
Proof. intros H. unfold pos1. destruct (Z.eqb_spec z 0); lia. Qed.

(* ---- scores ---------------------------------------------------------------------------- *)
Lemma frac_bound v sum : 0 <= v -> 0 < sum -> 0 <= frac v sum /\ Z.abs (frac v sum * sum - K * v) <= sum.
Proof.
  intros Hv Hs. unfold frac. rewrite dec_mul_of_int.
  assert (H0 : 0 <= of_int (v * PR)) by (unfold of_int, PR, P; lia).
  rewrite dec_quo_int by assumption. unfold of_int.
  set (y := v * PR * P * P / sum).
  assert (Hy : 0 <= y) by (apply Z.div_pos; [unfold PR, P; nia | lia]).
  pose proof (chop_round_bounds y Hy) as [[Hlo _] _].
  pose proof (chop_round_err y) as He.
  assert (Hy0 : 0 <= y / P) by (apply Z.div_pos; [exact Hy | exact P_pos]).
  split; [lia|].
  assert (Hm1 : y * sum <= v * PR * P * P) by (unfold y; rewrite Z.mul_comm; apply Z.mul_div_le; exact Hs).
  assert (Hm2 : v * PR * P * P < (y + 1) * sum).
  { unfold y. pose proof (Z.mul_succ_div_gt (v * PR * P * P) sum Hs). lia. }
  set (f := chop_round y) in *. unfold K.
  assert (Ha : 2 * (f * P - y) <= P /\ 2 * (y - f * P) <= P) by lia.
  destruct Ha as [Ha Hb].
  assert (Hc : 2 * (f * P - y) * sum <= P * sum) by (apply Z.mul_le_mono_nonneg_r; lia).
  assert (Hd : 2 * (y - f * P) * sum <= P * sum) by (apply Z.mul_le_mono_nonneg_r; lia).
  (* P * (f*sum - PR*P*v) is between -(P*sum/2 + sum) and P*sum/2 *)
  assert (He1 : 2 * P * (f * sum - PR * P * v) <= P * sum) by nia.
  assert (He2 : - (P * sum) - 2 * sum < 2 * P * (f * sum - PR * P * v)) by nia.
  unfold P in *. lia.
Qed.

Definition gfrac (v sum : Z) : Z := if 0 <? sum then frac v sum else 0.

Lemma gfrac_bound v sum :
  0 <= v -> 0 <= sum -> (sum = 0 -> v = 0) ->
  0 <= gfrac v sum /\ Z.abs (gfrac v sum * pos1 sum - K * v) <= pos1 sum.
Proof.
  intros Hv Hs H0. unfold gfrac, pos1.
  destruct (Z.ltb_spec 0 sum) as [L|L].
  - destruct (Z.eqb_spec sum 0); [lia|]. apply frac_bound; lia.
  - assert (sum = 0) by lia. subst sum. rewrite (H0 eq_refl). cbn. unfold K, PR, P. lia.
Qed.

(* what a projection of the accumulator has to satisfy (holds for c_s, c_a, c_i) *)
Definition good_sel (sel : counts -> Z) : Prop :=
  (forall acc g, sel (add_frac acc g) = sel acc + frac (sel g) (csum g)) /\
  (forall t, sel (C3 (of_int (c_s (team_scaled t))) (of_int (c_a (team_scaled t))) (of_int (c_i (team_scaled t))))
             = K * sel (team_votes t)) /\
  (forall g, nonneg3 g -> 0 <= sel g <= csum g).

Lemma good_s : good_sel c_s.
Proof. split; [reflexivity|]. split; [intros [[| |]|]; reflexivity|]. unfold nonneg3, csum. intros g; lia. Qed.
Lemma good_a : good_sel c_a.
Proof. split; [reflexivity|]. split; [intros [[| |]|]; reflexivity|]. unfold nonneg3, csum. intros g; lia. Qed.
Lemma good_i : good_sel c_i.
Proof. split; [reflexivity|]. split; [intros [[| |]|]; reflexivity|]. unfold nonneg3, csum. intros g; lia. Qed.

Lemma csum_nonneg g : nonneg3 g -> 0 <= csum g.
Proof. unfold nonneg3, csum. lia. Qed.

Lemma acc_holders_sel sel x :
  valid x -> good_sel sel ->
  sel (acc_holders x) = K * sel (team_votes (ti_team x))
                        + gfrac (sel (ti_users x)) (csum (ti_users x))
                        + gfrac (sel (ti_reps x)) (csum (ti_reps x))
                        + gfrac (sel (ti_holders x)) (csum (ti_holders x))
  /\ sel (acc_reps x) = K * sel (team_votes (ti_team x))
                        + gfrac (sel (ti_users x)) (csum (ti_users x))
                        + gfrac (sel (ti_reps x)) (csum (ti_reps x)).
Proof.
  intros (Vu & Vr & Vh & _) (Hadd & Hteam & _).
  assert (Et : sel (acc_team x) = K * sel (team_votes (ti_team x))) by (unfold acc_team; apply Hteam).
  assert (Eu : sel (acc_users x) = sel (acc_team x) + gfrac (sel (ti_users x)) (csum (ti_users x))).
  { unfold acc_users, gfrac. destruct (0 <? csum (ti_users x)); [apply Hadd | lia]. }
  assert (Er : sel (acc_reps x) = sel (acc_users x) + gfrac (sel (ti_reps x)) (csum (ti_reps x))).
  { unfold acc_reps, gfrac. destruct (0 <? csum (ti_reps x)); [apply Hadd | lia]. }
  assert (Eh : sel (acc_holders x) = sel (acc_reps x) + gfrac (sel (ti_holders x)) (csum (ti_holders x))).
  { unfold acc_holders, gfrac. pose proof (csum_nonneg _ Vh).
    destruct (Z.eqb_spec (csum (ti_holders x)) 0), (Z.ltb_spec 0 (csum (ti_holders x))); cbn [negb]; try lia.
    apply Hadd. }
  lia.
Qed.

Lemma sel_zero_of_sum sel g : good_sel sel -> nonneg3 g -> csum g = 0 -> sel g = 0.
Proof. intros (_ & _ & H) Hg E. specialize (H g Hg). lia. Qed.

Lemma score_den_pos x : valid x -> 0 < score_den x.
Proof.
  intros (Vu & Vr & Vh & _). unfold score_den.
  pose proof (pos1_pos _ (csum_nonneg _ Vu)). pose proof (pos1_pos _ (csum_nonneg _ Vr)).
  pose proof (pos1_pos _ (csum_nonneg _ Vh)). nia.
Qed.

(* the code's accumulated score differs from the exact score by at most 3 * 10^-18 *)
Lemma acc_bound sel x :
  valid x -> good_sel sel ->
  0 <= sel (acc_holders x) /\
  Z.abs (sel (acc_holders x) * score_den x - K * score_num sel x) <= 3 * score_den x.
Proof.
  intros V G. destruct (acc_holders_sel sel x V G) as [E _].
  destruct V as (Vu & Vr & Vh & _). pose proof G as (_ & _ & Hs).
  pose proof (csum_nonneg _ Vu) as Su. pose proof (csum_nonneg _ Vr) as Sr. pose proof (csum_nonneg _ Vh) as Sh.
  destruct (gfrac_bound (sel (ti_users x)) (csum (ti_users x))) as [Gu Bu];
    [apply Hs; exact Vu | exact Su | apply sel_zero_of_sum; assumption |].
  destruct (gfrac_bound (sel (ti_reps x)) (csum (ti_reps x))) as [Gr Br];
    [apply Hs; exact Vr | exact Sr | apply sel_zero_of_sum; assumption |].
  destruct (gfrac_bound (sel (ti_holders x)) (csum (ti_holders x))) as [Gh Bh];
    [apply Hs; exact Vh | exact Sh | apply sel_zero_of_sum; assumption |].
  assert (Tn : 0 <= sel (team_votes (ti_team x))).
  { destruct G as (_ & _ & H). destruct (ti_team x) as [[| |]|];
      match goal with |- 0 <= sel ?g => specialize (H g ltac:(unfold nonneg3; cbn; lia)); lia end. }
  split; [rewrite E; unfold K, PR, P in *; nia|].
  rewrite E. unfold score_den, score_num. cbv zeta.
  apply combine3; try (apply pos1_pos; assumption); assumption.
Qed.

Lemma div_P_lt a b : a + P <= b -> a / P < b / P.
Proof.
  intros H. assert (a / P + 1 <= b / P); [|lia].
  replace (a / P + 1) with ((a + 1 * P) / P) by (apply Z.div_add; unfold P; lia).
  apply Z.div_le_mono; [exact P_pos | lia].
Qed.

(* two choices whose exact scores differ by 5*10^-6: their accumulators differ by > 4.99 *)
Lemma acc_gap sa sb x :
  valid x -> good_sel sa -> good_sel sb ->
  ahead (score_num sa x) (score_num sb x) (score_den x) = true ->
  sb (acc_holders x) + 5 * P - 6 <= sa (acc_holders x).
Proof.
  intros V Ga Gb Hah. unfold ahead, score_tol in Hah. apply Z.leb_le in Hah.
  destruct (acc_bound sa x V Ga) as [_ Ba]. destruct (acc_bound sb x V Gb) as [_ Bb].
  pose proof (score_den_pos x V) as HD.
  set (D := score_den x) in *. set (Na := score_num sa x) in *. set (Nb := score_num sb x) in *.
  set (a := sa (acc_holders x)) in *. set (b := sb (acc_holders x)) in *.
  assert (H1 : (b + 5 * P - 6) * D <= a * D).
  { unfold K in *. assert (P * (Nb * PR + 5 * D) <= P * (Na * PR)) by (apply Z.mul_le_mono_nonneg_l; [unfold P; lia | exact Hah]).
    lia. }
  apply Z.mul_le_mono_pos_r with (p := D); assumption.
Qed.

(* second quorum check / no-quorum branch: TruncateInt of the accumulators *)
Lemma order_trunc sa sb x :
  valid x -> good_sel sa -> good_sel sb ->
  ahead (score_num sa x) (score_num sb x) (score_den x) = true ->
  truncate_int (sb (acc_holders x)) < truncate_int (sa (acc_holders x)).
Proof.
  intros V Ga Gb Hah. pose proof (acc_gap sa sb x V Ga Gb Hah) as Hg.
  destruct (acc_bound sa x V Ga) as [Pa _]. destruct (acc_bound sb x V Gb) as [Pb _].
  rewrite !truncate_nonneg by assumption. apply div_P_lt. unfold P in *. lia.
Qed.

(* first quorum check: Quo(4) then TruncateInt *)
Lemma order_quarter sa sb x :
  valid x -> good_sel sa -> good_sel sb ->
  ahead (score_num sa x) (score_num sb x) (score_den x) = true ->
  truncate_int (dec_quo (sb (acc_holders x)) (of_int 4)) < truncate_int (dec_quo (sa (acc_holders x)) (of_int 4)).
Proof.
  intros V Ga Gb Hah. pose proof (acc_gap sa sb x V Ga Gb Hah) as Hg.
  destruct (acc_bound sa x V Ga) as [Pa _]. destruct (acc_bound sb x V Gb) as [Pb _].
  set (a := sa (acc_holders x)) in *. set (b := sb (acc_holders x)) in *.
  rewrite !dec_quo_int by lia.
  assert (Wa : 0 <= a * P / 4) by (apply Z.div_pos; [unfold P; lia | lia]).
  assert (Wb : 0 <= b * P / 4) by (apply Z.div_pos; [unfold P; lia | lia]).
  pose proof (chop_round_bounds _ Wa) as [[La _] _]. pose proof (chop_round_bounds _ Wb) as [[Lb _] Ub].
  pose proof (chop_round_err (a * P / 4)) as Ea.
  assert (0 <= a * P / 4 / P) by (apply Z.div_pos; [exact Wa | exact P_pos]).
  assert (0 <= b * P / 4 / P) by (apply Z.div_pos; [exact Wb | exact P_pos]).
  rewrite !truncate_nonneg by lia. apply div_P_lt.
  pose proof (Z.mul_div_le (a * P) 4 ltac:(lia)). pose proof (Z.mul_succ_div_gt (a * P) 4 ltac:(lia)).
  pose proof (Z.mul_div_le (b * P) 4 ltac:(lia)). pose proof (Z.mul_succ_div_gt (b * P) 4 ltac:(lia)).
  set (wa := a * P / 4) in *. set (wb := b * P / 4) in *.
  set (qa := chop_round wa) in *. set (qb := chop_round wb) in *.
  unfold P in *. lia.
Qed.

(* ---- participation --------------------------------------------------------------------- *)
Lemma ratio_group total cast :
  0 <= total -> 0 <= cast ->
  0 <= ratio total cast /\
  Z.abs (ratio total cast * pos1 total - 25 * PR * eff total cast) <= pos1 total.
Proof.
  intros Ht Hc. unfold pos1, eff. destruct (Z.eqb_spec total 0) as [E|E].
  - subst total. rewrite ratio_total_zero. lia.
  - assert (Htp : 0 < total) by lia.
    pose proof (ratio_bounds total cast Htp Hc) as [Hlo Hhi].
    set (n := 25 * PR * cast / total) in *.
    assert (0 <= n) by (apply Z.div_pos; [unfold PR; lia | lia]).
    pose proof (Z.mul_div_le (25 * PR * cast) total Htp) as H1.
    pose proof (Z.mul_succ_div_gt (25 * PR * cast) total Htp) as H2. fold n in H1, H2.
    split; [lia|]. nia.
Qed.

Lemma ratio_holders_eq x :
  ratio_holders x = 25 * PR * (match ti_team x with Some _ => 1 | None => 0 end)
                    + (if 0 <? csum (ti_users x) then ratio (ti_tips x) (csum (ti_users x)) else 0)
                    + ratio (ti_power x) (csum (ti_reps x)) + ratio (ti_supply x) (csum (ti_holders x)).
Proof. unfold ratio_holders, ratio_reps, ratio_users, team_ratio. destruct (ti_team x); lia. Qed.

Lemma part_den_pos x : valid x -> 0 < part_den x.
Proof.
  intros (_ & _ & _ & Ht & Hp & Hs). unfold part_den.
  pose proof (pos1_pos _ Ht). pose proof (pos1_pos _ Hp). pose proof (pos1_pos _ Hs). nia.
Qed.

(* the code's participation sum is within 3 units (of 10^-6 percent) of the exact value *)
Lemma part_bound x :
  valid x ->
  Z.abs (ratio_holders x * part_den x - 25 * PR * part_num x) <= 3 * part_den x
  /\ ratio_reps x <= ratio_holders x.
Proof.
  intros (Vu & Vr & Vh & Ht & Hp & Hs).
  pose proof (csum_nonneg _ Vu) as Su. pose proof (csum_nonneg _ Vr) as Sr. pose proof (csum_nonneg _ Vh) as Sh.
  destruct (ratio_group (ti_tips x) (csum (ti_users x)) Ht Su) as [Gu Bu].
  destruct (ratio_group (ti_power x) (csum (ti_reps x)) Hp Sr) as [Gr Br].
  destruct (ratio_group (ti_supply x) (csum (ti_holders x)) Hs Sh) as [Gh Bh].
  split; [|unfold ratio_holders; lia].
  rewrite ratio_holders_eq. unfold part_den, part_num. cbv zeta.
  assert (Bu' : Z.abs ((if 0 <? csum (ti_users x) then ratio (ti_tips x) (csum (ti_users x)) else 0) * pos1 (ti_tips x)
                       - 25 * PR * eff (ti_tips x) (csum (ti_users x))) <= pos1 (ti_tips x)).
  { destruct (Z.ltb_spec 0 (csum (ti_users x))) as [L|L]; [exact Bu|].
    assert (E : csum (ti_users x) = 0) by lia. rewrite E. unfold eff.
    pose proof (pos1_pos _ Ht). destruct (ti_tips x =? 0); lia. }
  apply combine3; try (apply pos1_pos; assumption); assumption.
Qed.

Lemma quorum_code_possible x :
  valid x -> first_quorum x || second_quorum x = true -> quorum_possibly x = true.
Proof.
  intros V H. destruct (part_bound x V) as [B Hm]. pose proof (part_den_pos x V) as HD.
  assert (Hq : quorum_level <= ratio_holders x).
  { apply orb_true_iff in H. unfold first_quorum, second_quorum in H.
    destruct H as [H|H]; apply Z.leb_le in H; lia. }
  unfold quorum_possibly. apply Z.leb_le. unfold quorum_level in *.
  assert (51 * PR * part_den x <= ratio_holders x * part_den x) by (apply Z.mul_le_mono_nonneg_r; lia).
  lia.
Qed.

Lemma quorum_sure_code x :
  valid x -> quorum_surely x = true -> second_quorum x = true.
Proof.
  intros V H. destruct (part_bound x V) as [B _]. pose proof (part_den_pos x V) as HD.
  unfold quorum_surely in H. apply Z.leb_le in H.
  unfold second_quorum, quorum_level. apply Z.leb_le.
  apply Z.mul_le_mono_pos_r with (p := part_den x); [exact HD | lia].
Qed.

(* ---- the result ------------------------------------------------------------------------ *)
Lemma ahead_irrefl n d : 0 < d -> ahead n n d = false.
Proof. intros H. unfold ahead, score_tol. apply Z.leb_gt. lia. Qed.

(* if the scaled values the code compares respect every exact gap of 5*10^-6, the repaired
   UpdateDispute returns a result the formula allows *)
Lemma result_allowed_of_order q x S A I res :
  valid x ->
  (ahead (score_num c_s x) (score_num c_a x) (score_den x) = true -> A < S) ->
  (ahead (score_num c_s x) (score_num c_i x) (score_den x) = true -> I < S) ->
  (ahead (score_num c_a x) (score_num c_s x) (score_den x) = true -> S < A) ->
  (ahead (score_num c_a x) (score_num c_i x) (score_den x) = true -> I < A) ->
  (ahead (score_num c_i x) (score_num c_s x) (score_den x) = true -> S < I) ->
  (ahead (score_num c_i x) (score_num c_a x) (score_den x) = true -> A < I) ->
  update_dispute true q S A I = Some res ->
  result_allowed q x res = true.
Proof.
  intros V Hsa Hsi Has Hai His Hia Hu.
  pose proof (score_den_pos x V) as HD.
  destruct (update_dispute_fixed q S A I) as [res' [E Hres]]. rewrite E in Hu. injection Hu as Hu. subst res'.
  unfold result_allowed, clear_winner, near_max. cbv zeta.
  rewrite !(ahead_irrefl _ _ HD).
  destruct (ahead (score_num c_s x) (score_num c_a x) (score_den x)) eqn:Esa;
  destruct (ahead (score_num c_s x) (score_num c_i x) (score_den x)) eqn:Esi;
  destruct (ahead (score_num c_a x) (score_num c_s x) (score_den x)) eqn:Eas;
  destruct (ahead (score_num c_a x) (score_num c_i x) (score_den x)) eqn:Eai;
  destruct (ahead (score_num c_i x) (score_num c_s x) (score_den x)) eqn:Eis;
  destruct (ahead (score_num c_i x) (score_num c_a x) (score_den x)) eqn:Eia;
  cbn [andb negb orb];
  repeat match goal with
         | H : true = true -> _ |- _ => specialize (H eq_refl)
         | H : false = true -> _ |- _ => clear H
         end;
  destruct Hres as [[-> Hr] | [[-> Hr] | [-> Hr]]]; rewrite ?Z.eqb_refl; cbn [andb orb]; try reflexivity; try lia;
  unfold result_code; destruct q; cbn; try reflexivity; lia.
Qed.

(* two choices with the same votes in every group get the same accumulated score *)
Lemma same_votes_acc sa sb x :
  valid x -> good_sel sa -> good_sel sb -> same_votes sa sb x = true ->
  sa (acc_holders x) = sb (acc_holders x) /\ sa (acc_reps x) = sb (acc_reps x).
Proof.
  intros V Ga Gb H. destruct (acc_holders_sel sa x V Ga) as [A1 A2]. destruct (acc_holders_sel sb x V Gb) as [B1 B2].
  unfold same_votes in H. apply andb_true_iff in H. destruct H as [H Ht]. apply andb_true_iff in H. destruct H as [H Hh].
  apply andb_true_iff in H. destruct H as [Hu Hr]. apply Z.eqb_eq in Hu, Hr, Hh, Ht.
  rewrite A1, A2, B1, B2, Hu, Hr, Hh, Ht. split; reflexivity.
Qed.

Lemma symmetric_of_equal q x S A I res :
  update_dispute true q S A I = Some res ->
  (same_votes c_s c_a x = true -> S = A) -> (same_votes c_s c_i x = true -> S = I) ->
  (same_votes c_a c_i x = true -> A = I) ->
  symmetric_ok q x res = true.
Proof.
  intros Hu Hsa Hsi Hai. destruct (update_dispute_fixed q S A I) as [res' [E Hres]].
  rewrite E in Hu. injection Hu as Hu. subst res'. unfold symmetric_ok.
  destruct (same_votes c_s c_a x); [specialize (Hsa eq_refl) | clear Hsa];
  destruct (same_votes c_s c_i x); [specialize (Hsi eq_refl) | clear Hsi | specialize (Hsi eq_refl) | clear Hsi];
  destruct (same_votes c_a c_i x); try specialize (Hai eq_refl);
  destruct Hres as [[-> Hr] | [[-> Hr] | [-> Hr]]]; destruct q; cbn; try reflexivity; exfalso; lia.
Qed.

(* ---- the repaired tally satisfies the executable specification ------------------------- *)
Lemma spec_ok_shape x res st op :
  ti_prev x = 0 -> consistent x = true -> 1 <= res <= 6 ->
  (if res <=? 3 then quorum_possibly x = true else quorum_surely x = false /\ ti_vote_end x < ti_now x) ->
  result_allowed (res <=? 3) x res = true ->
  symmetric_ok (res <=? 3) x res = true ->
  (if (res <=? 3) || (ti_disp_end x <? ti_now x) then st = Resolved /\ op = false
   else st = Unresolved /\ op = ti_open x) ->
  tally_spec x (TO TOk res (ti_now x) st op true) = [].
Proof.
  intros Hp Hc Hr Hq Hres Hsym Hl. unfold tally_spec. rewrite Hp, Hc. cbn [Z.eqb negb to_err to_result to_vote_end to_status to_open to_pending].
  rewrite Hres, Hsym, Z.eqb_refl.
  replace ((1 <=? res) && (res <=? 6)) with true by (symmetry; apply andb_true_iff; split; apply Z.leb_le; lia).
  destruct (res <=? 3) eqn:E3.
  - rewrite Hq. cbn [orb] in *. destruct Hl as [-> ->]. reflexivity.
  - destruct Hq as [Hq1 Hq2]. rewrite Hq1. cbn [orb negb] in *.
    replace (ti_vote_end x <? ti_now x) with true by (symmetry; apply Z.ltb_lt; exact Hq2).
    destruct (ti_disp_end x <? ti_now x); destruct Hl as [-> ->]; cbn; [reflexivity|].
    rewrite eqb_reflx. reflexivity.
Qed.

Lemma consistent_zero sel x :
  valid x -> good_sel sel -> consistent x = true -> ti_voters x = 0 -> score_num sel x = 0.
Proof.
  intros (Vu & Vr & Vh & _) G Hc Hv. unfold consistent in Hc. rewrite Hv in Hc. cbn in Hc.
  apply andb_true_iff in Hc. destruct Hc as [Hc Ht]. apply andb_true_iff in Hc. destruct Hc as [Hc Hh].
  apply andb_true_iff in Hc. destruct Hc as [Hu Hr]. apply Z.eqb_eq in Hu, Hr, Hh.
  unfold score_num. cbv zeta.
  rewrite (sel_zero_of_sum sel _ G Vu Hu), (sel_zero_of_sum sel _ G Vr Hr), (sel_zero_of_sum sel _ G Vh Hh).
  destruct (ti_team x); [discriminate|].
  assert (sel (team_votes None) = 0).
  { destruct G as (_ & _ & H). specialize (H (C3 0 0 0) ltac:(unfold nonneg3; cbn; lia)). cbn in *. lia. }
  lia.
Qed.

Lemma acc_holders_no_holders x : csum (ti_holders x) = 0 -> acc_holders x = acc_reps x.
Proof. intros E. unfold acc_holders. rewrite E. reflexivity. Qed.

(* For every input outside the class of finding F24 the repaired tally meets the
   specification: quorum decision = 51 % of the four 25 % weights up to 3*10^-6 percent,
   result = the choice with the highest exact sum of group fractions whenever that choice
   leads by 5*10^-6, one of the choices within that resolution (or INVALID) otherwise, and
   the lifecycle fields are set accordingly. *)
Lemma tally_matches_formula x :
  valid x -> consistent x = true -> class_F24 x = false ->
  tally_spec x (tally_vote true x) = [].
Proof.
  intros V Hc H24.
  destruct (Z.eqb_spec (ti_prev x) 0) as [Hp|Hp].
  2:{ unfold tally_spec, tally_vote. apply Z.eqb_neq in Hp. rewrite Hp. cbn.
      unfold unchanged_out. cbn. rewrite !Z.eqb_refl, dstatus_eqb_refl, !eqb_reflx. reflexivity. }
  unfold class_F24 in H24. rewrite Hp in H24. cbn [Z.eqb andb] in H24.
  unfold tally_vote. rewrite Hp. cbn [Z.eqb negb].
  pose proof (good_s) as Gs. pose proof (good_a) as Ga. pose proof (good_i) as Gi.
  destruct (first_quorum x) eqn:F1.
  - (* first quorum check; no token-holder votes in this class *)
    cbn [andb] in H24. apply negb_false_iff in H24. apply Z.eqb_eq in H24.
    rewrite <- (acc_holders_no_holders x H24).
    match goal with |- context [finish true true x ?st ?op ?s ?a ?i] =>
      destruct (finish_fixed true x st op s a i) as [res [E [U R]]]; rewrite E end.
    assert (E3 : res <=? 3 = true) by (apply Z.leb_le; lia).
    apply spec_ok_shape; try assumption; try lia; rewrite ?E3.
    + apply quorum_code_possible; [exact V | rewrite F1; reflexivity].
    + eapply result_allowed_of_order; [exact V | | | | | | | exact U]; intros Hh;
        apply order_quarter; assumption.
    + eapply symmetric_of_equal; [exact U | | | ]; intros Hh;
        [destruct (same_votes_acc c_s c_a x V Gs Ga Hh) as [-> _] | destruct (same_votes_acc c_s c_i x V Gs Gi Hh) as [-> _]
         | destruct (same_votes_acc c_a c_i x V Ga Gi Hh) as [-> _]]; reflexivity.
    + cbn. split; reflexivity.
  - destruct (second_quorum x) eqn:F2.
    + match goal with |- context [finish true true x ?st ?op ?s ?a ?i] =>
        destruct (finish_fixed true x st op s a i) as [res [E [U R]]]; rewrite E end.
      assert (E3 : res <=? 3 = true) by (apply Z.leb_le; lia).
      apply spec_ok_shape; try assumption; try lia; rewrite ?E3.
      * apply quorum_code_possible; [exact V | rewrite F1, F2; reflexivity].
      * eapply result_allowed_of_order; [exact V | | | | | | | exact U]; intros Hh;
          apply order_trunc; assumption.
      * eapply symmetric_of_equal; [exact U | | | ]; intros Hh;
          [destruct (same_votes_acc c_s c_a x V Gs Ga Hh) as [-> _] | destruct (same_votes_acc c_s c_i x V Gs Gi Hh) as [-> _]
           | destruct (same_votes_acc c_a c_i x V Ga Gi Hh) as [-> _]]; reflexivity.
      * cbn. split; reflexivity.
    + assert (Hns : quorum_surely x = false).
      { destruct (quorum_surely x) eqn:Q; [|reflexivity].
        rewrite (quorum_sure_code x V Q) in F2. discriminate. }
      destruct (Z.ltb_spec (ti_vote_end x) (ti_now x)) as [Hv|Hv].
      * destruct (Z.eqb_spec (ti_voters x) 0) as [Hz|Hz].
        -- apply spec_ok_shape; try assumption; try lia; cbn [Z.leb Z.compare Pos.compare Pos.compare_cont orb].
           ++ split; assumption.
           ++ unfold result_allowed, clear_winner. cbv zeta.
              rewrite !(consistent_zero _ x V Gs Hc Hz), !(consistent_zero _ x V Ga Hc Hz),
                      !(consistent_zero _ x V Gi Hc Hz).
              rewrite !(ahead_irrefl _ _ (score_den_pos x V)). reflexivity.
           ++ unfold symmetric_ok. cbn. rewrite !orb_true_r. reflexivity.
           ++ destruct (ti_disp_end x <? ti_now x); split; reflexivity.
        -- match goal with |- context [finish true false x ?st ?op ?s ?a ?i] =>
             destruct (finish_fixed false x st op s a i) as [res [E [U R]]]; rewrite E end.
           assert (E3 : res <=? 3 = false) by (apply Z.leb_gt; lia).
           apply spec_ok_shape; try assumption; try lia; rewrite ?E3.
           ++ split; assumption.
           ++ eapply result_allowed_of_order; [exact V | | | | | | | exact U]; intros Hh;
                apply order_trunc; assumption.
           ++ eapply symmetric_of_equal; [exact U | | | ]; intros Hh;
                [destruct (same_votes_acc c_s c_a x V Gs Ga Hh) as [-> _] | destruct (same_votes_acc c_s c_i x V Gs Gi Hh) as [-> _]
                 | destruct (same_votes_acc c_a c_i x V Ga Gi Hh) as [-> _]]; reflexivity.
           ++ cbn [orb]. destruct (ti_disp_end x <? ti_now x); split; reflexivity.
      * unfold tally_spec. rewrite Hp, Hc. cbn. rewrite Hns. cbn.
        replace (ti_now x <=? ti_vote_end x) with true by (symmetry; apply Z.leb_le; lia).
        unfold unchanged_out. cbn. rewrite ?Z.eqb_refl, ?dstatus_eqb_refl, ?eqb_reflx, ?Hp. reflexivity.
Qed.

(* what an empty issue list means for a successful tally, in Prop *)
Lemma tally_spec_sound x res ve st op pe :
  ti_prev x = 0 -> consistent x = true ->
  tally_spec x (TO TOk res ve st op pe) = [] ->
  1 <= res <= 6 /\
  (res <= 3 -> (51 * PR - 3) * part_den x <= 25 * PR * part_num x) /\
  (3 < res -> 25 * PR * part_num x < (51 * PR + 3) * part_den x /\ ti_vote_end x < ti_now x) /\
  (forall c, clear_winner x = Some c -> res = result_code (res <=? 3) c) /\
  (same_votes c_s c_a x = true ->
     res <> result_code (res <=? 3) Support /\ res <> result_code (res <=? 3) Against) /\
  ve = ti_now x /\ pe = true.
Proof.
  intros Hp Hc H. unfold tally_spec in H. rewrite Hp, Hc in H.
  cbn [Z.eqb negb to_err to_result to_vote_end to_status to_open to_pending] in H.
  apply app_nil_both in H. destruct H as [A1 H]. apply app_nil_both in H. destruct H as [HQ H].
  apply app_nil_both in H. destruct H as [HE H]. apply app_nil_both in H. destruct H as [HR H].
  apply app_nil_both in H. destruct H as [HS H]. apply app_nil_both in H. destruct H as [HV HL].
  apply spec_if_nil in A1, HQ, HE, HR, HS, HV, HL.
  apply andb_true_iff in A1. destruct A1 as [R1 R2].
  apply Z.leb_le in R1, R2. split; [lia|].
  apply Z.eqb_eq in HV.
  split; [|split; [|split; [|split; [|split]]]].
  - intros L. replace (res <=? 3) with true in HQ by (symmetry; apply Z.leb_le; lia).
    unfold quorum_possibly in HQ. apply Z.leb_le in HQ. exact HQ.
  - intros L. replace (res <=? 3) with false in HQ, HE by (symmetry; apply Z.leb_gt; lia).
    cbn [orb] in HE. apply Z.ltb_lt in HE. apply negb_true_iff in HQ. unfold quorum_surely in HQ.
    apply Z.leb_gt in HQ. split; assumption.
  - intros c Ec. unfold result_allowed in HR. rewrite Ec in HR. apply Z.eqb_eq in HR. exact HR.
  - intros Hsym. unfold symmetric_ok in HS. rewrite Hsym in HS. cbn [negb orb] in HS.
    apply andb_true_iff in HS. destruct HS as [HS _]. apply andb_true_iff in HS. destruct HS as [HS _].
    apply andb_true_iff in HS. destruct HS as [H1 H2]. apply negb_true_iff in H1, H2.
    apply Z.eqb_neq in H1, H2. split; assumption.
  - exact HV.
  - cbn in HL. apply andb_true_iff in HL. destruct HL as [HL _]. exact HL.
Qed.

(* F24: when team + users + reporters reach quorum the token holders' votes are ignored.
   Team supports, all users against, reporters 40 % support / 60 % against, all token
   holders support: the four groups give support 2.4 : against 1.6, the code says AGAINST. *)
Definition f24_witness : tally_in :=
  TI 0 (Some Support) (C3 0 100 0) (C3 40 60 0) (C3 1000 0 0) 100 100 1000
     1700000000000000000 1700172800000000000 1700259200000000000 4 Voting true false.

Lemma first_quorum_ignores_tokenholders_refuted :
  exists x, ti_prev x = 0 /\ consistent x = true /\ class_F24 x = true /\
            clear_winner x = Some Support /\
            to_err (tally_vote true x) = TOk /\ to_result (tally_vote true x) = result_code true Against /\
            tally_vote false x = tally_vote true x.
Proof. exists f24_witness. vm_compute. repeat split; congruence. Qed.

(* non-vacuity: a decided vote that meets the specification *)
Example tally_example :
  let x := TI 0 (Some Invalid) (C3 22500000 22500000 15000000) (C3 27500000 22500000 10000000)
              (C3 22500000 27500000 10000000) 60000000 60000000 60000000
              1700000000000000000 1700172800000000000 1700259200000000000 4 Voting true false in
  tally_vote false x = TO TOk 3 1700000000000000000 Resolved false true /\ tally_spec x (tally_vote false x) = [].
Proof. vm_compute. split; reflexivity. Qed.

(* ======================================================================================= *)
(* Lifecycle                                                                               *)
(* ======================================================================================= *)
Lemma update_dispute_range fx q s a i res :
  update_dispute fx q s a i = Some res -> if q then 1 <= res <= 3 else 4 <= res <= 6.
Proof.
  unfold update_dispute.
  destruct ((a <? s) && (i <? s)); [intros H; injection H as <-; destruct q; lia|].
  destruct ((s <? a) && (i <? a)); [intros H; injection H as <-; destruct q; lia|].
  destruct ((s <? i) && (a <? i)); [intros H; injection H as <-; destruct q; lia|].
  destruct fx; [intros H; injection H as <-; destruct q; lia | discriminate].
Qed.

Lemma finish_ok fx q x st op s a i :
  to_err (finish fx q x st op s a i) = TOk ->
  exists res, finish fx q x st op s a i = TO TOk res (ti_now x) st op true /\
              (if q then 1 <= res <= 3 else 4 <= res <= 6).
Proof.
  unfold finish. destruct (update_dispute fx q s a i) as [res|] eqn:E; [|cbn; discriminate].
  intros _. exists res. split; [reflexivity | exact (update_dispute_range _ _ _ _ _ _ E)].
Qed.

(* shape of every successful tally, for both variants *)
Lemma tally_ok_shape fx x :
  ti_prev x = 0 -> to_err (tally_vote fx x) = TOk ->
  let o := tally_vote fx x in
  1 <= to_result o <= 6 /\ to_pending o = true /\ to_vote_end o = ti_now x /\
  ((to_status o = Resolved /\ to_open o = false /\ (to_result o <= 3 \/ ti_disp_end x < ti_now x)) \/
   (to_status o = Unresolved /\ to_open o = ti_open x /\ 4 <= to_result o /\ ti_now x <= ti_disp_end x
    /\ ti_vote_end x < ti_now x)).
Proof.
  intros Hp. unfold tally_vote. rewrite Hp. cbn [Z.eqb negb].
  destruct (first_quorum x).
  - intros H. destruct (finish_ok _ _ _ _ _ _ _ _ H) as [res [E R]]. rewrite E. cbn. repeat split; try lia.
    left. repeat split; lia.
  - destruct (second_quorum x).
    + intros H. destruct (finish_ok _ _ _ _ _ _ _ _ H) as [res [E R]]. rewrite E. cbn. repeat split; try lia.
      left. repeat split; lia.
    + destruct (Z.ltb_spec (ti_vote_end x) (ti_now x)) as [Hv|Hv]; [|cbn; discriminate].
      destruct (ti_voters x =? 0).
      * intros _. cbn. repeat split; try lia.
        destruct (Z.ltb_spec (ti_disp_end x) (ti_now x)); [left | right]; repeat split; lia.
      * intros H. destruct (finish_ok _ _ _ _ _ _ _ _ H) as [res [E R]]. rewrite E. cbn. repeat split; try lia.
        destruct (Z.ltb_spec (ti_disp_end x) (ti_now x)); [left | right]; repeat split; lia.
Qed.

Lemma tally_still_shape fx x :
  to_err (tally_vote fx x) = TStillVoting -> ti_now x <= ti_vote_end x.
Proof.
  unfold tally_vote. destruct (negb (ti_prev x =? 0)); [cbn; discriminate|].
  assert (F : forall q st op s a i, to_err (finish fx q x st op s a i) <> TStillVoting).
  { intros. unfold finish. destruct (update_dispute fx q s a i); cbn; discriminate. }
  destruct (first_quorum x); [intros H; exfalso; exact (F _ _ _ _ _ _ H)|].
  destruct (second_quorum x); [intros H; exfalso; exact (F _ _ _ _ _ _ H)|].
  destruct (Z.ltb_spec (ti_vote_end x) (ti_now x)) as [Hlt|Hge]; [|intros _; lia].
  destruct (ti_voters x =? 0); [cbn; discriminate | intros HH; exfalso; exact (F _ _ _ _ _ _ HH)].
Qed.

Definition dinv (now : Z) (d : dispute) : Prop :=
  1 <= d_slash d /\
  match d_status d with
  | Prevote => d_open d = true /\ d_pending d = false /\ d_result d = 0 /\ d_executed d = false
               /\ d_fee_total d < d_slash d
  | Voting => d_open d = true /\ d_result d = 0 /\ d_executed d = false /\ d_has_vote d = true
              /\ d_vote_end d <= d_end d /\ d_slash d <= d_fee_total d
  | Failed => d_open d = false /\ d_pending d = false /\ d_end d < now /\ d_fee_total d < d_slash d
  | Unresolved => d_result d <> 0 /\ d_executed d = false /\ d_has_vote d = true /\ d_open d = d_pending d
                  /\ d_slash d <= d_fee_total d
  | Resolved => d_result d <> 0 /\ d_has_vote d = true /\ d_pending d = negb (d_executed d)
                /\ d_slash d <= d_fee_total d
  end.

(* the lifecycle-relevant part of a dispute *)
Definition lc (d : dispute) := (d_status d, d_open d, d_pending d, d_result d, d_executed d, d_round d).

(* one dispute before / after an event: along the status graph, rank never decreases, and an
   unchanged rank means no lifecycle field changed (every real transition increases it) *)
Definition dstep (d d' : dispute) : Prop :=
  status_step (d_status d) (d_status d') /\ rank d <= rank d' /\ (rank d = rank d' -> lc d = lc d').

Lemma dstep_refl d : dstep d d.
Proof. unfold dstep, status_step. repeat split; auto; lia. Qed.

Lemma dinv_later now now' d : now <= now' -> dinv now d -> dinv now' d.
Proof. unfold dinv. intros H [S I]. split; [exact S|]. destruct (d_status d); try exact I. destruct I as (A & B & C & D). repeat split; auto; lia. Qed.

Lemma tally_apply_ok fx now d :
  dinv now d -> d_status d = Voting ->
  to_err (tally_vote fx (dispute_ti d now)) = TOk ->
  let d' := apply_tally d (tally_vote fx (dispute_ti d now)) in
  dinv now d' /\ dstep d d' /\ d_status d' <> Voting /\ (d_status d' = Resolved \/ now <= d_end d').
Proof.
  intros [S I] Hs Ht. rewrite Hs in I. destruct I as (Io & Ir & Ie & Iv & Ive & If).
  pose proof (tally_ok_shape fx (dispute_ti d now) Ir Ht) as Sh. cbv zeta in Sh.
  set (o := tally_vote fx (dispute_ti d now)) in *.
  destruct Sh as (R & Pe & Ve & Hcase). cbn [dispute_ti ti_open ti_disp_end ti_now ti_vote_end] in Hcase.
  unfold dinv, dstep, rank, lc, status_step, apply_tally. cbn [d_status d_open d_pending d_result d_executed d_slash d_fee_total d_has_vote d_vote_end d_end d_round].
  rewrite Hs.
  destruct Hcase as [(Es & Eo & _)|(Es & Eo & _ & Hle & _)]; rewrite Es, Eo, Pe, ?Ie; cbn.
  - repeat split; try lia; try congruence; auto 10; try (intros; lia).
  - repeat split; try lia; try congruence; auto 10; try (intros; lia).
Qed.

Lemma block_open_ok fx now now' d d1 :
  now <= now' -> dinv now d -> block_open fx now' d = Some d1 ->
  dinv now' d1 /\ dstep d d1 /\ (d_status d1 = Voting -> d_open d1 = true -> now' <= d_vote_end d1)
  /\ (d_status d1 <> d_status d -> d_pending d1 = false \/ d_status d1 = Resolved \/ now' <= d_end d1).
Proof.
  intros Hn I. pose proof (dinv_later _ _ _ Hn I) as I'. unfold block_open.
  assert (Same : dinv now' d /\ dstep d d /\ (d_status d = Voting -> d_open d = true -> now' <= d_vote_end d) /\
                 (d_status d <> d_status d -> d_pending d = false \/ d_status d = Resolved \/ now' <= d_end d)
                 \/ (d_status d = Voting /\ d_open d = true /\ d_vote_end d < now')).
  { destruct (d_status d) eqn:Es; try (left; split; [exact I'|]; split; [apply dstep_refl|]; split; congruence).
    destruct (d_open d) eqn:Eo; [|left; split; [exact I'|]; split; [apply dstep_refl|]; split; congruence].
    destruct (Z.ltb_spec (d_vote_end d) now'); [right; auto|].
    left; split; [exact I'|]; split; [apply dstep_refl|]; split; [intros; lia | congruence]. }
  destruct (d_open d) eqn:Eo; cbn [negb].
  2:{ intros H; injection H as <-. destruct Same as [Sm|(_ & Sm & _)]; [rewrite Eo; exact Sm | congruence]. }
  assert (Tally : d_status d = Voting -> d_vote_end d < now' ->
          (if negb (d_has_vote d) then None
           else if (d_vote_end d <? now') && (d_result d =? 0)
                then match to_err (tally_vote fx (dispute_ti d now')) with
                     | TOk => Some (apply_tally d (tally_vote fx (dispute_ti d now'))) | _ => None end
                else Some d) = Some d1 ->
          dinv now' d1 /\ dstep d d1 /\ (d_status d1 = Voting -> d_open d1 = true -> now' <= d_vote_end d1)
          /\ (d_status d1 <> d_status d -> d_pending d1 = false \/ d_status d1 = Resolved \/ now' <= d_end d1)).
  { intros Es Hv. destruct I' as [S I2]. pose proof I2 as I3. rewrite Es in I3.
    destruct I3 as (_ & Ir & Ie & Iv & Ive & If).
    rewrite Iv. cbn [negb]. replace (d_vote_end d <? now') with true by (symmetry; apply Z.ltb_lt; lia).
    rewrite Ir. cbn [Z.eqb andb].
    destruct (to_err (tally_vote fx (dispute_ti d now'))) eqn:Et; try discriminate.
    intros H; injection H as <-.
    destruct (tally_apply_ok fx now' d (conj S I2) Es Et) as (A & B & C & D).
    split; [exact A|]. split; [exact B|]. split; [intros Hv'; contradiction|].
    intros _. destruct D as [D|D]; auto. }
  destruct (Z.ltb_spec (d_end d) now') as [He|He]; cbn [andb].
  - destruct (d_status d) eqn:Es; cbn [dstatus_eqb].
    + (* Prevote -> Failed *)
      intros H; injection H as <-. destruct I' as [S I2]. rewrite Es in I2. destruct I2 as (_ & Ip & Ir & Ie & If).
      unfold dinv, dstep, rank, lc, status_step, set_flags. cbn. rewrite Es, Ip. cbn.
      repeat split; try lia; try congruence; auto 10; try (intros; lia).
    + (* Voting, dispute end passed: the vote end passed as well *)
      apply Tally; [reflexivity|]. destruct I' as [_ I2]. rewrite Es in I2. lia.
    + intros H; injection H as <-. destruct Same as [Sm|(Sm & _)]; [rewrite ?Eo, ?Es; exact Sm | congruence].
    + intros H; injection H as <-. destruct Same as [Sm|(Sm & _)]; [rewrite ?Eo, ?Es; exact Sm | congruence].
    + intros H; injection H as <-. destruct Same as [Sm|(Sm & _)]; [rewrite ?Eo, ?Es; exact Sm | congruence].
  - destruct (d_status d) eqn:Es; cbn [dstatus_eqb];
      try (intros H; injection H as <-; destruct Same as [Sm|(Sm & _)]; [rewrite ?Eo, ?Es; exact Sm | congruence]).
    destruct Same as [Sm|(_ & _ & Hv)].
    + (* vote end not passed *)
      destruct Sm as (Sa & Sb & Sc & Sd). specialize (Sc eq_refl eq_refl).
      destruct I' as [S I2]. rewrite Es in I2. destruct I2 as (_ & Ir & Ie & Iv & Ive & If).
      rewrite Iv. cbn [negb]. replace (d_vote_end d <? now') with false by (symmetry; apply Z.ltb_ge; lia).
      cbn [andb]. intros H; injection H as <-.
      split; [exact Sa|]. split; [exact Sb|]. split; [intros; lia | intros Hne; congruence].
    + apply Tally; [reflexivity | exact Hv].
Qed.

Lemma block_pending_cases now d1 d2 :
  block_pending now d1 = Some d2 ->
  d2 = d1 \/ (d_pending d1 = true /\ d_status d2 = Resolved /\ (d_end d1 < now \/ d_status d1 = Resolved)).
Proof.
  unfold block_pending. destruct (d_pending d1); cbn [negb]; [|intros H; injection H as <-; auto].
  destruct (Z.ltb_spec (d_end d1) now) as [He|He]; cbn [orb].
  - destruct (negb (d_has_vote d1)); [discriminate|].
    destruct (negb (dstatus_eqb (if negb (d_result d1 =? 0) && true then Resolved else d_status d1) Resolved)) eqn:E; [discriminate|].
    destruct (d_executed d1); [discriminate|]. destruct (d_result d1 =? 0); [discriminate|].
    intros H; injection H as <-. right. apply negb_false_iff, dstatus_eqb_eq in E. cbn. auto.
  - destruct (dstatus_eqb (d_status d1) Resolved) eqn:Er; [|intros H; injection H as <-; auto].
    apply dstatus_eqb_eq in Er.
    destruct (negb (d_has_vote d1)); [discriminate|].
    destruct (negb (dstatus_eqb (if negb (d_result d1 =? 0) && false then Resolved else d_status d1) Resolved)) eqn:E; [discriminate|].
    destruct (d_executed d1); [discriminate|]. destruct (d_result d1 =? 0); [discriminate|].
    intros H; injection H as <-. right. apply negb_false_iff, dstatus_eqb_eq in E. cbn. auto.
Qed.

Lemma block_pending_ok now d d1 :
  dinv now d -> block_pending now d = Some d1 -> dinv now d1 /\ dstep d d1.
Proof.
  intros I0. pose proof I0 as [S I]. unfold block_pending.
  destruct (d_pending d) eqn:Ep; cbn [negb].
  2:{ intros H; injection H as <-. split; [exact I0 | apply dstep_refl]. }
  destruct ((d_end d <? now) || dstatus_eqb (d_status d) Resolved) eqn:Ec.
  2:{ intros H; injection H as <-. split; [exact I0 | apply dstep_refl]. }
  destruct (d_has_vote d) eqn:Ev; cbn [negb]; [|discriminate].
  destruct (negb (dstatus_eqb (if negb (d_result d =? 0) && (d_end d <? now) then Resolved else d_status d) Resolved)) eqn:E1;
    [discriminate|].
  destruct (d_executed d) eqn:Ee; [discriminate|].
  destruct (Z.eqb_spec (d_result d) 0) as [Er|Er]; [discriminate|].
  intros H; injection H as <-. apply negb_false_iff, dstatus_eqb_eq in E1. cbn [negb andb] in E1.
  unfold dinv, dstep, rank, lc, status_step, set_flags. cbn. rewrite E1.
  destruct (d_status d) eqn:Es; rewrite ?Ep, ?Ee in *; cbn in *.
  - destruct I as (_ & I & _). congruence.
  - destruct I as (_ & I & _). congruence.
  - repeat split; try lia; try tauto; auto 10; try (intros; lia).
  - repeat split; try lia; try tauto; auto 10; try (intros; lia).
  - destruct I as (_ & I & _). congruence.
Qed.

Lemma dstep_trans_rank a b c :
  dstep a b -> dstep b c ->
  rank a <= rank c /\ (rank a = rank c -> lc a = lc c).
Proof.
  intros (_ & R1 & L1) (_ & R2 & L2). split; [lia|]. intros E.
  assert (rank a = rank b) by lia. assert (rank b = rank c) by lia. rewrite L1, L2; auto.
Qed.

Lemma status_step_trans_block a b c :
  status_step a b -> status_step b c -> (a = b \/ b = c) -> status_step a c.
Proof. intros H1 H2 [E|E]; subst; assumption. Qed.

Lemma block_dispute_ok fx now now' d d2 :
  now <= now' -> dinv now d -> block_dispute fx now' d = Some d2 -> dinv now' d2 /\ dstep d d2.
Proof.
  intros Hn I. unfold block_dispute. destruct (block_open fx now' d) as [d1|] eqn:E1; [|discriminate].
  intros E2. destruct (block_open_ok fx now now' d d1 Hn I E1) as (A1 & B1 & _ & D1).
  destruct (block_pending_ok now' d1 d2 A1 E2) as (A2 & B2). split; [exact A2|].
  destruct (dstep_trans_rank _ _ _ B1 B2) as [R L]. split; [|split; assumption].
  destruct B1 as (S1 & _). destruct B2 as (S2 & _).
  destruct (block_pending_cases now' d1 d2 E2) as [->|(Hp & Hr & Hc)]; [exact S1|].
  assert (Hd : d_status d1 = d_status d \/ d_status d1 <> d_status d).
  { destruct (d_status d1), (d_status d); (left; reflexivity) || (right; discriminate). }
  destruct Hd as [Hd|Hd]; [rewrite <- Hd; exact S2|].
  destruct (D1 Hd) as [F|[F|F]]; [congruence | rewrite Hr, <- F; exact S1|].
  destruct Hc as [Hc|Hc]; [lia | rewrite Hr, <- Hc; exact S1].
Qed.

(* with the repair, BeginBlocker cannot fail on a dispute that satisfies the invariant *)
Lemma block_dispute_no_halt now now' d :
  now <= now' -> dinv now d -> block_dispute true now' d <> None.
Proof.
  intros Hn I. unfold block_dispute.
  destruct (block_open true now' d) as [d1|] eqn:E1.
  - destruct (block_open_ok true now now' d d1 Hn I E1) as ([S A1] & _ & C1 & _).
    unfold block_pending. destruct (d_pending d1) eqn:Ep; cbn [negb]; [|discriminate].
    destruct (d_status d1) eqn:Es; cbn [dstatus_eqb orb].
    + destruct A1 as (_ & A & _). congruence.
    + destruct A1 as (Ao & _ & _ & _ & Ave & _). specialize (C1 eq_refl Ao).
      replace (d_end d1 <? now') with false by (symmetry; apply Z.ltb_ge; lia). cbn. discriminate.
    + destruct A1 as (Ar & Av & Ape & _). rewrite ?Ep in Ape. rewrite Av. cbn [negb]. rewrite orb_true_r.
      destruct (d_executed d1); [cbn in Ape; discriminate|].
      destruct (Z.eqb_spec (d_result d1) 0); [contradiction|].
      destruct (d_end d1 <? now'); cbn; discriminate.
    + destruct A1 as (Ar & Ae & Av & _). rewrite orb_false_r.
      destruct (Z.ltb_spec (d_end d1) now'); [|discriminate].
      rewrite Av, Ae. destruct (Z.eqb_spec (d_result d1) 0); [contradiction|]. cbn. discriminate.
    + destruct A1 as (_ & A & _). congruence.
  - exfalso. unfold block_open in E1. pose proof (dinv_later _ _ _ Hn I) as [S I2].
    destruct (d_open d); cbn [negb] in E1; [|discriminate].
    destruct ((d_end d <? now') && dstatus_eqb (d_status d) Prevote); [discriminate|].
    destruct (d_status d) eqn:Es; cbn [dstatus_eqb] in E1; try discriminate.
    destruct I2 as (_ & Ir & _ & Iv & _). rewrite Iv in E1. cbn [negb] in E1.
    destruct (Z.ltb_spec (d_vote_end d) now') as [Hv|Hv]; cbn [andb] in E1; [|discriminate].
    rewrite Ir in E1. cbn [Z.eqb] in E1.
    pose proof (tally_total (dispute_ti d now') Ir) as T. cbv zeta in T.
    destruct T as [(T & _)|(T & _ & T2 & _)]; [rewrite T in E1; discriminate|].
    cbn in T2. lia.
Qed.

(* ---- lists ----------------------------------------------------------------------------- *)
Lemma nth_error_upd_same {A} (v : A) : forall l n d, nth_error l n = Some d -> nth_error (upd_nth n v l) n = Some v.
Proof. induction l as [|x t IH]; intros [|n] d H; cbn in *; try discriminate; [reflexivity | eapply IH; eauto]. Qed.

Lemma nth_error_upd_other {A} (v : A) : forall l n m, n <> m -> nth_error (upd_nth n v l) m = nth_error l m.
Proof.
  induction l as [|x t IH]; intros [|n] [|m] H; cbn; try reflexivity; try congruence. apply IH. congruence.
Qed.

Lemma Forall_upd {A} (Q : A -> Prop) (v : A) : forall l n, Forall Q l -> Q v -> Forall Q (upd_nth n v l).
Proof.
  induction l as [|x t IH]; intros [|n] F Hv; cbn; try constructor; inversion F; subst; auto.
Qed.

Lemma map_opt_nth {A B} (f : A -> option B) : forall l l', map_opt f l = Some l' ->
  forall n d, nth_error l n = Some d -> exists d', nth_error l' n = Some d' /\ f d = Some d'.
Proof.
  induction l as [|x t IH]; intros l' H n d Hn; [destruct n; discriminate|].
  cbn in H. destruct (f x) as [y|] eqn:Ey; [|discriminate]. destruct (map_opt f t) as [r|] eqn:Er; [|discriminate].
  injection H as <-. destruct n as [|n]; cbn in *.
  - injection Hn as <-. eauto.
  - eapply IH; eauto.
Qed.

Lemma map_opt_Forall {A B} (f : A -> option B) (Qa : A -> Prop) (Qb : B -> Prop) :
  (forall a b, Qa a -> f a = Some b -> Qb b) ->
  forall l l', map_opt f l = Some l' -> Forall Qa l -> Forall Qb l'.
Proof.
  intros Hf. induction l as [|x t IH]; intros l' H F; cbn in H.
  - injection H as <-. constructor.
  - destruct (f x) as [y|] eqn:Ey; [|discriminate]. destruct (map_opt f t) as [r|] eqn:Er; [|discriminate].
    injection H as <-. inversion F; subst. constructor; eauto.
Qed.

Lemma map_opt_some {A B} (f : A -> option B) (Qa : A -> Prop) :
  (forall a, Qa a -> f a <> None) -> forall l, Forall Qa l -> map_opt f l <> None.
Proof.
  intros Hf. induction l as [|x t IH]; intros F; cbn; [discriminate|].
  inversion F; subst. destruct (f x) eqn:Ex; [|exfalso; eapply Hf; eauto].
  destruct (map_opt f t) eqn:Et; [discriminate | exfalso; apply IH; auto].
Qed.

Lemma map_opt_length {A B} (f : A -> option B) : forall l l', map_opt f l = Some l' -> List.length l' = List.length l.
Proof.
  induction l as [|x t IH]; intros l' H; cbn in H; [injection H as <-; reflexivity|].
  destruct (f x); [|discriminate]. destruct (map_opt f t) eqn:E; [|discriminate]. injection H as <-. cbn. f_equal. auto.
Qed.

(* ---- the world -------------------------------------------------------------------------- *)
Definition winv (w : world) : Prop := Forall (dinv (w_now w)) (w_ds w).

(* each dispute present before the event is present after it, moved along the lifecycle *)
Definition moved (w w' : world) : Prop :=
  forall id d, nth_error (w_ds w) id = Some d -> exists d', nth_error (w_ds w') id = Some d' /\ dstep d d'.

Lemma moved_refl w : moved w w.
Proof. intros id d H. exists d. split; [exact H | apply dstep_refl]. Qed.

Lemma moved_upd w now id d d' :
  nth_error (w_ds w) id = Some d -> dstep d d' -> moved w (W now (upd_nth id d' (w_ds w))).
Proof.
  intros Hn Hs id' x Hx. cbn. destruct (Nat.eq_dec id id') as [->|Hne].
  - rewrite Hn in Hx. injection Hx as <-. exists d'. split; [eapply nth_error_upd_same; eauto | exact Hs].
  - exists x. split; [rewrite nth_error_upd_other; auto | apply dstep_refl].
Qed.

Lemma moved_app w w1 extra : moved w w1 -> moved w (W (w_now w1) (w_ds w1 ++ extra)).
Proof.
  intros M id d H. destruct (M id d H) as [d' [H1 H2]]. exists d'. split; [|exact H2].
  cbn. rewrite nth_error_app1; [exact H1|]. apply nth_error_Some. congruence.
Qed.

Lemma five_percent_eq slash : 0 <= slash -> five_percent slash = slash / 20.
Proof.
  intros H. unfold five_percent. rewrite dec_mul_of_int, Z.mul_1_r.
  rewrite dec_quo_int by (unfold of_int, P; lia). unfold of_int.
  replace (slash * P * P / 20) with ((slash * P / 20) * P).
  2:{ replace (slash * P * P) with (slash * (50000000000000000 * P) * 20) by (unfold P; ring).
      replace (slash * P) with (slash * 50000000000000000 * 20) by (unfold P; ring).
      rewrite !Z.div_mul by lia. ring. }
  rewrite chop_round_exact.
  assert (0 <= slash * P / 20) by (apply Z.div_pos; [unfold P; lia | lia]).
  rewrite truncate_nonneg by assumption.
  replace (slash * P) with (slash * 50000000000000000 * 20) by (unfold P; ring). rewrite Z.div_mul by lia.
  unfold P. replace 1000000000000000000 with (20 * 50000000000000000) by reflexivity.
  rewrite Z.div_mul_cancel_r by lia. reflexivity.
Qed.

Lemma round_fee_nonneg slash r : 0 <= slash -> 0 <= round_fee slash r.
Proof.
  intros H. unfold round_fee. rewrite five_percent_eq by exact H.
  assert (0 <= slash / 20) by (apply Z.div_pos; lia). assert (0 <= 2 ^ r) by (apply Z.pow_nonneg; lia).
  destruct (slash <? slash / 20 * 2 ^ r); nia.
Qed.

(* the fee of a new round doubles until it reaches the slash amount *)
Lemma round_fee_double slash r :
  0 <= slash -> 0 <= r -> round_fee slash (r + 1) = Z.min (2 * round_fee slash r) slash.
Proof.
  intros H Hr. unfold round_fee. rewrite Z.pow_add_r, Z.pow_1_r by lia.
  set (f := five_percent slash * 2 ^ r).
  replace (five_percent slash * (2 ^ r * 2)) with (2 * f) by (unfold f; ring).
  assert (0 <= f).
  { unfold f. rewrite five_percent_eq by exact H. assert (0 <= slash / 20) by (apply Z.div_pos; lia).
    assert (0 <= 2 ^ r) by (apply Z.pow_nonneg; lia). nia. }
  destruct (Z.ltb_spec slash (2 * f)), (Z.ltb_spec slash f); lia.
Qed.

Lemma dinv_start d now ft burn round pe :
  1 <= d_slash d -> d_slash d <= ft -> dinv now (start_vote d now ft burn round true pe).
Proof. intros S F. unfold dinv, start_vote, TWO_DAYS, THREE_DAYS, ONE_DAY. cbn. repeat split; auto; lia. Qed.

Lemma step_ok fx w e w' :
  winv w -> step fx w e = Some w' -> w_now w <= w_now w' /\ winv w' /\ moved w w'.
Proof.
  intros I. destruct e as [slash fee | id amt | id v | id fee | dt]; cbn [step].
  - (* propose *)
    destruct (Z.ltb_spec slash 1) as [H1|H1]; cbn [orb]; [intros H; injection H as <-; split; [lia|]; split; [exact I | apply moved_refl]|].
    destruct (Z.ltb_spec fee 1) as [H2|H2]; [intros H; injection H as <-; split; [lia|]; split; [exact I | apply moved_refl]|].
    intros H; injection H as <-. cbn. split; [lia|]. split.
    + unfold winv. cbn. apply Forall_app. split; [exact I|]. constructor; [|constructor].
      destruct (Z.ltb_spec slash fee).
      * rewrite Z.eqb_refl. apply dinv_start; cbn; lia.
      * destruct (Z.eqb_spec fee slash); [apply dinv_start; cbn; lia|].
        unfold dinv. cbn. repeat split; auto; lia.
    + apply (moved_app w w). apply moved_refl.
  - (* add fee *)
    destruct (nth_error (w_ds w) id) as [d|] eqn:En; [|intros H; injection H as <-; split; [lia|]; split; [exact I | apply moved_refl]].
    assert (Id : dinv (w_now w) d) by (eapply Forall_forall in I; [exact I | eapply nth_error_In; eauto]).
    destruct (Z.ltb_spec amt 1) as [H1|H1]; cbn [orb]; [intros H; injection H as <-; split; [lia|]; split; [exact I | apply moved_refl]|].
    destruct (Z.ltb_spec (d_end d) (w_now w)) as [H2|H2]; cbn [orb]; [intros H; injection H as <-; split; [lia|]; split; [exact I | apply moved_refl]|].
    destruct (Z.leb_spec (d_slash d) (d_fee_total d)) as [H3|H3]; [intros H; injection H as <-; split; [lia|]; split; [exact I | apply moved_refl]|].
    intros H; injection H as <-. cbn. split; [lia|].
    (* only a Prevote dispute gets here *)
    destruct Id as [S Id]. destruct (d_status d) eqn:Es; try (exfalso; destruct Id as (A & B & C & D); lia);
      try (exfalso; destruct Id as (A & B & C & D & E); lia); try (exfalso; destruct Id as (A & B & C & D & E & F); lia).
    destruct Id as (Io & Ip & Ir & Ie & If).
    set (amt' := if d_slash d <? d_fee_total d + amt then d_slash d - d_fee_total d else amt).
    assert (Ha : 1 <= amt' /\ d_fee_total d + amt' <= d_slash d).
    { unfold amt'. destruct (Z.ltb_spec (d_slash d) (d_fee_total d + amt)); lia. }
    destruct (Z.eqb_spec (d_fee_total d + amt') (d_slash d)) as [Et|Et].
    + rewrite Io. split.
      * apply Forall_upd; [exact I | apply dinv_start; lia].
      * eapply moved_upd; [exact En|]. unfold dstep, status_step, rank, lc, start_vote. cbn. rewrite ?Es.
        repeat split; auto; try lia.
    + split.
      * apply Forall_upd; [exact I|]. unfold dinv. cbn. rewrite ?Es. repeat split; auto; lia.
      * eapply moved_upd; [exact En|]. unfold dstep, status_step, rank, lc. cbn. rewrite ?Es. repeat split; auto; lia.
  - (* vote *)
    destruct (nth_error (w_ds w) id) as [d|] eqn:En; [|intros H; injection H as <-; split; [lia|]; split; [exact I | apply moved_refl]].
    assert (Id : dinv (w_now w) d) by (eapply Forall_forall in I; [exact I | eapply nth_error_In; eauto]).
    destruct (dstatus_eqb (d_status d) Voting) eqn:Es; cbn [negb orb]; [|intros H; injection H as <-; split; [lia|]; split; [exact I | apply moved_refl]].
    apply dstatus_eqb_eq in Es.
    destruct (d_has_vote d); cbn [negb orb]; [|intros H; injection H as <-; split; [lia|]; split; [exact I | apply moved_refl]].
    destruct (d_vote_end d <? w_now w); [intros H; injection H as <-; split; [lia|]; split; [exact I | apply moved_refl]|].
    assert (Id1 : dinv (w_now w) (set_votes d v)) by exact Id.
    assert (Sv : dstep d (set_votes d v)) by (unfold dstep, status_step, rank, lc; cbn; repeat split; auto; lia).
    destruct (to_err (tally_vote fx (dispute_ti (set_votes d v) (w_now w)))) eqn:Et;
      intros H; injection H as <-; cbn; (split; [lia|]);
      try (split; [exact I | apply moved_refl]).
    + destruct (tally_apply_ok fx (w_now w) (set_votes d v) Id1 Es Et) as (A & B & _).
      split; [apply Forall_upd; assumption|]. eapply moved_upd; [exact En|]. exact B.
    + split; [apply Forall_upd; assumption|]. eapply moved_upd; [exact En | exact Sv].
  - (* new round *)
    destruct (nth_error (w_ds w) id) as [d|] eqn:En; [|intros H; injection H as <-; split; [lia|]; split; [exact I | apply moved_refl]].
    assert (Id : dinv (w_now w) d) by (eapply Forall_forall in I; [exact I | eapply nth_error_In; eauto]).
    destruct (dstatus_eqb (d_status d) Unresolved) eqn:Es; cbn [negb orb]; [|intros H; injection H as <-; split; [lia|]; split; [exact I | apply moved_refl]].
    apply dstatus_eqb_eq in Es.
    destruct (d_open d) eqn:Eo; cbn [negb orb]; [|intros H; injection H as <-; split; [lia|]; split; [exact I | apply moved_refl]].
    destruct (d_end d <? w_now w); cbn [orb]; [intros H; injection H as <-; split; [lia|]; split; [exact I | apply moved_refl]|].
    destruct (fee <? round_fee (d_slash d) (d_round d)); [intros H; injection H as <-; split; [lia|]; split; [exact I | apply moved_refl]|].
    intros H; injection H as <-. cbn. split; [lia|].
    destruct Id as [S Id]. rewrite Es in Id. destruct Id as (Ir & Ie & Iv & Iop & If). rewrite Eo in Iop.
    pose proof (round_fee_nonneg (d_slash d) (d_round d) ltac:(lia)) as Hrf.
    split.
    + unfold winv. cbn. apply Forall_app. split.
      * apply Forall_upd; [exact I|]. unfold dinv, set_flags. cbn. rewrite ?Es. repeat split; auto.
      * constructor; [|constructor]. apply dinv_start; lia.
    + apply (moved_app w (W (w_now w) (upd_nth id (set_flags d (d_status d) false false (d_executed d)) (w_ds w)))).
      eapply moved_upd; [exact En|]. unfold dstep, status_step, rank, lc, set_flags. cbn. rewrite ?Es, <- ?Iop. cbn.
      repeat split; auto; try lia.
  - (* block *)
    destruct (Z.ltb_spec dt 0) as [Hd|Hd]; [intros H; injection H as <-; split; [lia|]; split; [exact I | apply moved_refl]|].
    destruct (map_opt (block_dispute fx (w_now w + dt)) (w_ds w)) as [ds|] eqn:Em; [|discriminate].
    intros H; injection H as <-. cbn. split; [lia|]. split.
    + unfold winv. cbn. eapply map_opt_Forall; [|exact Em | exact I].
      intros a b Ia Hb. cbn in Ia. eapply block_dispute_ok; [|exact Ia | exact Hb]. lia.
    + intros id' d Hn. destruct (map_opt_nth _ _ _ Em id' d Hn) as [d' [H1 H2]]. exists d'. split; [exact H1|].
      assert (Id : dinv (w_now w) d) by (eapply Forall_forall in I; [exact I | eapply nth_error_In; eauto]).
      eapply block_dispute_ok; [|exact Id | exact H2]. lia.
Qed.

Lemma step_no_halt w e : winv w -> step true w e <> None.
Proof.
  intros I. destruct e as [slash fee | id amt | id v | id fee | dt]; cbn [step].
  - destruct ((slash <? 1) || (fee <? 1)); discriminate.
  - destruct (nth_error (w_ds w) id); [|discriminate].
    destruct ((amt <? 1) || (d_end d <? w_now w) || (d_slash d <=? d_fee_total d)); discriminate.
  - destruct (nth_error (w_ds w) id); [|discriminate].
    destruct (negb (dstatus_eqb (d_status d) Voting) || negb (d_has_vote d) || (d_vote_end d <? w_now w)); [discriminate|].
    destruct (to_err (tally_vote true (dispute_ti (set_votes d v) (w_now w)))); discriminate.
  - destruct (nth_error (w_ds w) id); [|discriminate].
    destruct (negb (dstatus_eqb (d_status d) Unresolved) || negb (d_open d) || (d_end d <? w_now w)
              || (fee <? round_fee (d_slash d) (d_round d))); discriminate.
  - destruct (Z.ltb_spec dt 0); [discriminate|].
    destruct (map_opt (block_dispute true (w_now w + dt)) (w_ds w)) eqn:Em; [discriminate|].
    exfalso. revert Em. apply (map_opt_some _ (dinv (w_now w))); [|exact I].
    intros a Ia. apply block_dispute_no_halt with (now := w_now w); [lia | exact Ia].
Qed.

(* ---- histories ---------------------------------------------------------------------------- *)
(* transitive closure of the status graph: never backwards *)
Definition status_reach (a b : dstatus) : Prop :=
  a = b \/ a = Prevote \/ (a = Voting /\ (b = Unresolved \/ b = Resolved)) \/ (a = Unresolved /\ b = Resolved).

Lemma status_step_reach a b : status_step a b -> status_reach a b.
Proof. unfold status_step, status_reach. intuition. Qed.

Lemma status_reach_trans a b c : status_reach a b -> status_reach b c -> status_reach a c.
Proof. unfold status_reach. intros H1 H2. destruct a, b, c; intuition congruence. Qed.

Lemma status_reach_not_back a b : status_reach a b -> status_reach b a -> a = b.
Proof. unfold status_reach. destruct a, b; intuition congruence. Qed.

Definition moved_far (w w' : world) : Prop :=
  forall id d, nth_error (w_ds w) id = Some d ->
    exists d', nth_error (w_ds w') id = Some d' /\ status_reach (d_status d) (d_status d') /\
               rank d <= rank d' /\ (rank d = rank d' -> lc d = lc d').

Lemma run_ok fx : forall es w w',
  winv w -> run fx w es = Some w' -> w_now w <= w_now w' /\ winv w' /\ moved_far w w'.
Proof.
  induction es as [|e r IH]; intros w w' I H; cbn in H.
  - injection H as <-. split; [lia|]. split; [exact I|]. intros id d Hn. exists d.
    split; [exact Hn|]. split; [left; reflexivity|]. split; [lia | auto].
  - destruct (step fx w e) as [w1|] eqn:Es; [|discriminate].
    destruct (step_ok fx w e w1 I Es) as (T1 & I1 & M1).
    destruct (IH w1 w' I1 H) as (T2 & I2 & M2). split; [lia|]. split; [exact I2|].
    intros id d Hn. destruct (M1 id d Hn) as [d1 [Hn1 (S1 & R1 & L1)]].
    destruct (M2 id d1 Hn1) as [d2 [Hn2 (S2 & R2 & L2)]]. exists d2. split; [exact Hn2|].
    split; [eapply status_reach_trans; [apply status_step_reach; exact S1 | exact S2]|].
    split; [lia|]. intros E. assert (rank d = rank d1) by lia. assert (rank d1 = rank d2) by lia.
    rewrite L1, L2; auto.
Qed.

Lemma run_no_halt : forall es w, winv w -> run true w es <> None.
Proof.
  induction es as [|e r IH]; intros w I; cbn; [discriminate|].
  destruct (step true w e) as [w1|] eqn:Es; [|exfalso; exact (step_no_halt w e I Es)].
  apply IH. exact (proj1 (proj2 (step_ok true w e w1 I Es))).
Qed.

Lemma winv_empty t : winv (W t []).
Proof. constructor. Qed.

Definition f03_history : list event :=
  [EPropose 1000000 1000000;
   EVote 0 (TD None (C3 0 0 0) (C3 5000000 5000000 0) (C3 0 0 0) 0 10000000 100000000 2);
   EBlock (49 * 3600 * 1000000000)].

(* F03 at the level of the chain: an accepted history after which BeginBlocker fails *)
Lemma lifecycle_halt_refuted :
  run false (W 1700000000000000000 []) f03_history = None /\
  exists w, run true (W 1700000000000000000 []) f03_history = Some w /\
            option_map d_result (nth_error (w_ds w) 0) = Some 6 /\
            option_map d_status (nth_error (w_ds w) 0) = Some Unresolved.
Proof. split; [vm_compute; reflexivity|]. eexists. vm_compute. repeat split. Qed.

(* a new round: the old id is closed for good, the new dispute takes the next free id, starts
   in Voting with round + 1; the round fee is added to the burn amount and the fee total *)
Lemma new_round_ok fx w id fee d :
  nth_error (w_ds w) id = Some d -> d_status d = Unresolved -> d_open d = true ->
  w_now w <= d_end d -> round_fee (d_slash d) (d_round d) <= fee ->
  exists old new,
    step fx w (ENewRound id fee) = Some (W (w_now w) (upd_nth id old (w_ds w) ++ [new])) /\
    d_status old = Unresolved /\ d_open old = false /\ d_pending old = false /\
    nth_error (upd_nth id old (w_ds w) ++ [new]) (List.length (w_ds w)) = Some new /\
    d_status new = Voting /\ d_open new = true /\ d_round new = d_round d + 1 /\ d_result new = 0 /\
    d_burn new = d_burn d + round_fee (d_slash d) (d_round d) /\
    d_fee_total new = d_fee_total d + round_fee (d_slash d) (d_round d) /\
    d_vote_end new = w_now w + TWO_DAYS /\ d_end new = w_now w + THREE_DAYS.
Proof.
  intros Hn Hs Ho He Hf. cbn [step]. rewrite Hn, Hs, Ho. cbn [dstatus_eqb negb orb].
  replace (d_end d <? w_now w) with false by (symmetry; apply Z.ltb_ge; lia).
  replace (fee <? round_fee (d_slash d) (d_round d)) with false by (symmetry; apply Z.ltb_ge; lia).
  cbn [orb]. eexists. eexists. split; [reflexivity|]. cbn. repeat split; try reflexivity.
  assert (L : forall (l : list dispute) n v, List.length (upd_nth n v l) = List.length l).
  { induction l as [|x t IH]; intros [|n] v; cbn; auto. }
  rewrite nth_error_app2; rewrite L; [|lia]. rewrite Nat.sub_diag. reflexivity.
Qed.

Lemma new_round_rejected fx w id fee d :
  nth_error (w_ds w) id = Some d ->
  (d_status d <> Unresolved \/ d_open d = false \/ d_end d < w_now w \/ fee < round_fee (d_slash d) (d_round d)) ->
  step fx w (ENewRound id fee) = Some w.
Proof.
  intros Hn H. cbn [step]. rewrite Hn.
  destruct H as [H|[H|[H|H]]].
  - destruct (d_status d); try congruence; reflexivity.
  - rewrite H. cbn. rewrite orb_true_r. reflexivity.
  - replace (d_end d <? w_now w) with true by (symmetry; apply Z.ltb_lt; lia). rewrite orb_true_r. reflexivity.
  - replace (fee <? round_fee (d_slash d) (d_round d)) with true by (symmetry; apply Z.ltb_lt; lia).
    rewrite orb_true_r. reflexivity.
Qed.

(* ======================================================================================= *)
(* Lifecycle correspondence (LifeCase): amounts of the property text, bookkeeping invariant,  *)
(* the check's machine keeps the lifecycle theorems, soundness of the executable spec         *)
(* ======================================================================================= *)

(* the code's Dec arithmetic gives the property's amounts *)
Lemma round_fee_rfee slash r : 0 <= slash -> round_fee slash r = rfee slash r.
Proof.
  intros H. unfold round_fee, rfee, pct5. rewrite five_percent_eq by exact H.
  destruct (Z.ltb_spec slash (slash / 20 * 2 ^ r)); lia.
Qed.

Lemma rfee_nonneg slash r : 0 <= slash -> 0 <= rfee slash r.
Proof. intros H. rewrite <- round_fee_rfee by exact H. apply round_fee_nonneg. exact H. Qed.

Lemma rfee_le_slash slash r : rfee slash r <= slash.
Proof. unfold rfee. lia. Qed.

Lemma rfee_double slash r : 0 <= slash -> 0 <= r -> rfee slash (r + 1) = Z.min (2 * rfee slash r) slash.
Proof. intros H Hr. rewrite <- !round_fee_rfee by exact H. apply round_fee_double; assumption. Qed.

(* from the sixth round on (five rounds so far) the fee is the whole slash amount *)
Lemma rfee_capped slash r : 40 <= slash -> 5 <= r -> rfee slash r = slash.
Proof.
  intros H Hr. unfold rfee, pct5.
  assert (32 <= 2 ^ r) by (change 32 with (2 ^ 5); apply Z.pow_le_mono_r; lia).
  assert (2 <= slash / 20) by (apply Z.div_le_lower_bound; lia).
  assert (slash < 20 * (slash / 20) + 20) by (pose proof (Z.mod_pos_bound slash 20 ltac:(lia)); pose proof (Z.div_mod slash 20 ltac:(lia)); lia).
  nia.
Qed.

(* 10 %, 20 %, 40 %, 80 %, 100 %, 100 % of a slash amount that is a multiple of 20 *)
Lemma rfee_schedule k : 0 < k ->
  rfee (20 * k) 1 = 2 * k /\ rfee (20 * k) 2 = 4 * k /\ rfee (20 * k) 3 = 8 * k /\ rfee (20 * k) 4 = 16 * k /\
  rfee (20 * k) 5 = 20 * k /\ rfee (20 * k) 6 = 20 * k.
Proof.
  intros H. unfold rfee, pct5. replace (20 * k / 20) with k by (symmetry; rewrite Z.mul_comm; apply Z.div_mul; lia).
  repeat split; match goal with |- context [2 ^ ?n] => let v := eval vm_compute in (2 ^ n) in change (2 ^ n) with v end; lia.
Qed.

(* the base of the round fee is 5 % of the slash amount, not the accumulated burn amount: from the third
   round on the two differ (slash 10^6: burn amount after round 2 = 150000; 150000 * 2^2 = 600000, fee 200000) *)
Example rfee_not_from_burn :
  rfee 1000000 2 = 200000 /\ burn_at 1000000 2 = 150000 /\ Z.min (burn_at 1000000 2 * 2 ^ 2) 1000000 = 600000 /\
  round_fee 1000000 2 = 200000.
Proof. vm_compute. repeat split. Qed.

Lemma burn_at_1 slash : burn_at slash 1 = pct5 slash.
Proof. unfold burn_at. cbn. lia. Qed.

Lemma burn_at_next slash r : 1 <= r -> burn_at slash (r + 1) = burn_at slash r + rfee slash r.
Proof.
  intros H. unfold burn_at. replace (r + 1 - 1) with (Z.succ (r - 1)) by lia.
  rewrite Z2Nat.inj_succ by lia. cbn [fee_sum]. rewrite Nat2Z.inj_succ, Z2Nat.id by lia.
  replace (Z.succ (r - 1)) with r by lia. lia.
Qed.

(* ---- bookkeeping of the amounts in the lifecycle machine ------------------------------------ *)
(* round >= 1; burn amount = 5 % + the fees of all rounds so far; once the fee is complete the fee total is the
   slash amount + those round fees; before, the dispute is in its first round *)
Definition binv (d : dispute) : Prop :=
  0 <= d_slash d /\ 1 <= d_round d /\ d_burn d = burn_at (d_slash d) (d_round d) /\
  (d_slash d <= d_fee_total d -> d_fee_total d = d_slash d + d_burn d - pct5 (d_slash d)) /\
  (d_fee_total d < d_slash d -> d_round d = 1).

Definition amounts (d : dispute) := (d_round d, d_burn d, d_slash d, d_fee_total d).

Lemma binv_amounts d d' : amounts d = amounts d' -> binv d -> binv d'.
Proof. unfold amounts, binv. intros E. injection E as <- <- <- <-. auto. Qed.

Lemma block_dispute_amounts fx now d d' : block_dispute fx now d = Some d' -> amounts d = amounts d'.
Proof.
  unfold block_dispute. destruct (block_open fx now d) as [d1|] eqn:E1; [|discriminate]. intros E2.
  assert (A1 : amounts d = amounts d1).
  { unfold block_open in E1.
    destruct (negb (d_open d)); [injection E1 as <-; reflexivity|].
    destruct ((d_end d <? now) && dstatus_eqb (d_status d) Prevote); [injection E1 as <-; reflexivity|].
    destruct (dstatus_eqb (d_status d) Voting); [|injection E1 as <-; reflexivity].
    destruct (negb (d_has_vote d)); [discriminate|].
    destruct ((d_vote_end d <? now) && (d_result d =? 0)); [|injection E1 as <-; reflexivity].
    destruct (to_err (tally_vote fx (dispute_ti d now))); try discriminate. injection E1 as <-. reflexivity. }
  rewrite A1. unfold block_pending in E2.
  destruct (negb (d_pending d1)); [injection E2 as <-; reflexivity|].
  destruct ((d_end d1 <? now) || dstatus_eqb (d_status d1) Resolved); [|injection E2 as <-; reflexivity].
  destruct (negb (d_has_vote d1)); [discriminate|].
  destruct (negb (dstatus_eqb (if negb (d_result d1 =? 0) && (d_end d1 <? now) then Resolved else d_status d1) Resolved)); [discriminate|].
  destruct (d_executed d1); [discriminate|]. destruct (d_result d1 =? 0); [discriminate|].
  injection E2 as <-. reflexivity.
Qed.

Lemma step_binv fx w e w' :
  winv w -> Forall binv (w_ds w) -> step fx w e = Some w' -> Forall binv (w_ds w').
Proof.
  intros I B. destruct e as [slash fee | id amt | id v | id fee | dt]; cbn [step].
  - (* propose *)
    destruct (Z.ltb_spec slash 1) as [H1|H1]; cbn [orb]; [intros H; injection H as <-; exact B|].
    destruct (Z.ltb_spec fee 1) as [H2|H2]; [intros H; injection H as <-; exact B|].
    intros H; injection H as <-. cbn. apply Forall_app. split; [exact B|]. constructor; [|constructor].
    assert (F5 : five_percent slash = pct5 slash) by (apply five_percent_eq; lia).
    destruct (Z.ltb_spec slash fee).
    + rewrite Z.eqb_refl. unfold binv, start_vote. cbn. rewrite F5, burn_at_1. repeat split; lia.
    + destruct (Z.eqb_spec fee slash); unfold binv, start_vote; cbn; rewrite F5, burn_at_1; repeat split; lia.
  - (* add fee *)
    destruct (nth_error (w_ds w) id) as [d|] eqn:En; [|intros H; injection H as <-; exact B].
    assert (Bd : binv d) by (eapply Forall_forall in B; [exact B | eapply nth_error_In; eauto]).
    destruct (Z.ltb_spec amt 1) as [H1|H1]; cbn [orb]; [intros H; injection H as <-; exact B|].
    destruct (d_end d <? w_now w); cbn [orb]; [intros H; injection H as <-; exact B|].
    destruct (Z.leb_spec (d_slash d) (d_fee_total d)) as [H3|H3]; [intros H; injection H as <-; exact B|].
    intros H; injection H as <-. cbn. apply Forall_upd; [exact B|].
    destruct Bd as (S0 & R1 & Bu & Ft & Rd). specialize (Rd H3).
    assert (Bu1 : d_burn d = pct5 (d_slash d)) by (rewrite Bu, Rd; apply burn_at_1).
    set (amt' := if d_slash d <? d_fee_total d + amt then d_slash d - d_fee_total d else amt).
    assert (Ha : 1 <= amt' /\ d_fee_total d + amt' <= d_slash d).
    { unfold amt'. destruct (Z.ltb_spec (d_slash d) (d_fee_total d + amt)); lia. }
    destruct (Z.eqb_spec (d_fee_total d + amt') (d_slash d)) as [Et|Et]; unfold binv, start_vote; cbn; repeat split; auto; lia.
  - (* vote *)
    destruct (nth_error (w_ds w) id) as [d|] eqn:En; [|intros H; injection H as <-; exact B].
    assert (Bd : binv d) by (eapply Forall_forall in B; [exact B | eapply nth_error_In; eauto]).
    destruct (negb (dstatus_eqb (d_status d) Voting) || negb (d_has_vote d) || (d_vote_end d <? w_now w)); [intros H; injection H as <-; exact B|].
    destruct (to_err (tally_vote fx (dispute_ti (set_votes d v) (w_now w)))); intros H; injection H as <-; try exact B;
      cbn; (apply Forall_upd; [exact B|]); (eapply binv_amounts; [|exact Bd]); reflexivity.
  - (* new round *)
    destruct (nth_error (w_ds w) id) as [d|] eqn:En; [|intros H; injection H as <-; exact B].
    assert (Bd : binv d) by (eapply Forall_forall in B; [exact B | eapply nth_error_In; eauto]).
    assert (Id : dinv (w_now w) d) by (eapply Forall_forall in I; [exact I | eapply nth_error_In; eauto]).
    destruct (dstatus_eqb (d_status d) Unresolved) eqn:Es; cbn [negb orb]; [|intros H; injection H as <-; exact B].
    apply dstatus_eqb_eq in Es.
    destruct (negb (d_open d) || (d_end d <? w_now w) || (fee <? round_fee (d_slash d) (d_round d))); [intros H; injection H as <-; exact B|].
    intros H; injection H as <-. cbn.
    destruct Id as [S Id]. rewrite Es in Id. destruct Id as (_ & _ & _ & _ & If).
    destruct Bd as (S0 & R1 & Bu & Ft & Rd). specialize (Ft If).
    rewrite round_fee_rfee by exact S0. pose proof (rfee_nonneg (d_slash d) (d_round d) S0) as Hrf.
    apply Forall_app. split.
    + apply Forall_upd; [exact B|]. eapply binv_amounts; [|unfold binv; repeat split; eauto]. reflexivity.
    + constructor; [|constructor]. unfold binv, start_vote. cbn. rewrite burn_at_next by exact R1. repeat split; lia.
  - (* block *)
    destruct (dt <? 0); [intros H; injection H as <-; exact B|].
    destruct (map_opt (block_dispute fx (w_now w + dt)) (w_ds w)) as [ds|] eqn:Em; [|discriminate].
    intros H; injection H as <-. cbn. eapply map_opt_Forall; [|exact Em | exact B].
    intros a b Ba Hb. eapply binv_amounts; [eapply block_dispute_amounts; exact Hb | exact Ba].
Qed.

(* ---- the check's machine: [step] after refreshing the tally inputs --------------------------- *)
(* equal up to the vote counters *)
Definition veq (d d' : dispute) : Prop := d' = set_votes d (d_votes d').

Lemma veq_refl d : veq d d.
Proof. unfold veq. destruct d; reflexivity. Qed.
Lemma veq_set d v : veq d (set_votes d v).
Proof. unfold veq. reflexivity. Qed.
Lemma veq_trans a b c : veq a b -> veq b c -> veq a c.
Proof. unfold veq. intros -> ->. reflexivity. Qed.

Lemma Forall2_veq_refl ds : Forall2 veq ds ds.
Proof. induction ds; constructor; [apply veq_refl | assumption]. Qed.

Lemma Forall2_veq_upd : forall ds i d v, nth_error ds i = Some d -> Forall2 veq ds (upd_nth i (set_votes d v) ds).
Proof.
  induction ds as [|x t IH]; intros [|i] d v H; cbn in *; try discriminate.
  - injection H as <-. constructor; [apply veq_set | apply Forall2_veq_refl].
  - constructor; [apply veq_refl | apply IH; exact H].
Qed.

Lemma Forall2_veq_trans a b c : Forall2 veq a b -> Forall2 veq b c -> Forall2 veq a c.
Proof.
  intros H. revert c. induction H as [|x y l l' Hxy H IH]; intros c Hc; inversion Hc; subst; constructor.
  - eapply veq_trans; eauto.
  - apply IH. assumption.
Qed.

Lemma refresh_veq env : forall ds, Forall2 veq ds (refresh env ds).
Proof.
  unfold refresh. induction env as [|kv env IH]; intros ds; cbn [fold_left]; [apply Forall2_veq_refl|].
  eapply Forall2_veq_trans; [|apply IH].
  destruct (idx (fst kv)) as [i|]; [|apply Forall2_veq_refl].
  destruct (nth_error ds i) as [d|] eqn:En; [|apply Forall2_veq_refl].
  apply Forall2_veq_upd. exact En.
Qed.

Lemma veq_dinv now d d' : veq d d' -> dinv now d -> dinv now d'.
Proof. unfold veq. intros -> H. exact H. Qed.
Lemma veq_binv d d' : veq d d' -> binv d -> binv d'.
Proof. unfold veq. intros -> H. exact H. Qed.
Lemma veq_dstep d d' x : veq d d' -> dstep d' x -> dstep d x.
Proof. unfold veq. intros -> H. exact H. Qed.

Lemma Forall2_Forall {A} (R : A -> A -> Prop) (Q : A -> Prop) :
  (forall a b, R a b -> Q a -> Q b) -> forall l l', Forall2 R l l' -> Forall Q l -> Forall Q l'.
Proof. intros H l l' F. induction F; intros G; inversion G; subst; constructor; eauto. Qed.

Lemma Forall2_nth {A} (R : A -> A -> Prop) : forall l l', Forall2 R l l' ->
  forall n a, nth_error l n = Some a -> exists b, nth_error l' n = Some b /\ R a b.
Proof.
  intros l l' F. induction F as [|x y l l' Hxy F IH]; intros [|n] a H; cbn in *; try discriminate.
  - injection H as <-. eauto.
  - apply IH. exact H.
Qed.

(* the invariant of the check's machine *)
Definition linv (w : world) : Prop := winv w /\ Forall binv (w_ds w).

Lemma life_model_step_ok fx w lin e w' lin' ch :
  linv w -> life_model_step fx w lin e = Some (w', lin', ch) ->
  w_now w <= w_now w' /\ linv w' /\ moved w w'.
Proof.
  intros [I B] H.
  assert (K : forall ev w1, step fx w ev = Some w1 -> w_now w <= w_now w1 /\ linv w1 /\ moved w w1).
  { intros ev w1 Hs. destruct (step_ok fx w ev w1 I Hs) as (T & I1 & M).
    split; [exact T|]. split; [split; [exact I1 | eapply step_binv; [exact I | exact B | exact Hs]] | exact M]. }
  assert (R : w_now w <= w_now w /\ linv w /\ moved w w) by (split; [lia|]; split; [split; assumption | apply moved_refl]).
  destruct e as [report slash fee | id amt | id eligible v | dt env]; cbn [life_model_step] in H.
  - destruct (fee <? MIN_FEE); [injection H as <- _ _; exact R|].
    destruct (alookup report lin) as [k|].
    + destruct (idx k) as [i|]; [|injection H as <- _ _; exact R].
      destruct (step fx w (ENewRound i fee)) as [w1|] eqn:Es; [|discriminate].
      destruct (grew w w1); injection H as <- _ _; eapply K; eauto.
    + destruct (step fx w (EPropose slash fee)) as [w1|] eqn:Es; [|discriminate].
      destruct (grew w w1); injection H as <- _ _; eapply K; eauto.
  - destruct (idx id) as [i|]; [|injection H as <- _ _; exact R].
    destruct (step fx w (EAddFee i amt)) as [w1|] eqn:Es; [|discriminate]. injection H as <- _ _. eapply K; eauto.
  - destruct (negb eligible); [injection H as <- _ _; exact R|].
    destruct (idx id) as [i|]; [|injection H as <- _ _; exact R].
    destruct (step fx w (EVote i v)) as [w1|] eqn:Es; [|discriminate]. injection H as <- _ _. eapply K; eauto.
  - destruct (step fx (W (w_now w) (refresh env (w_ds w))) (EBlock dt)) as [w1|] eqn:Es; [|discriminate].
    injection H as <- _ _.
    pose proof (refresh_veq env (w_ds w)) as V.
    assert (I2 : winv (W (w_now w) (refresh env (w_ds w)))).
    { unfold winv. cbn. eapply Forall2_Forall; [|exact V | exact I]. intros a b Hab. apply veq_dinv. exact Hab. }
    assert (B2 : Forall binv (refresh env (w_ds w))).
    { eapply Forall2_Forall; [|exact V | exact B]. intros a b Hab. apply veq_binv. exact Hab. }
    destruct (step_ok fx _ _ w1 I2 Es) as (T & I1 & M). cbn in T.
    split; [exact T|]. split; [split; [exact I1 | eapply step_binv; [exact I2 | exact B2 | exact Es]]|].
    intros id d Hn. destruct (Forall2_nth _ _ _ V id d Hn) as [dr [Hr Vr]].
    destruct (M id dr Hr) as [d' [Hd' Sd]]. exists d'. split; [exact Hd'|]. eapply veq_dstep; eauto.
Qed.

(* a history of the check's events *)
Fixpoint life_model_run (fx : bool) (w : world) (lin : list (Z * Z)) (es : list levent) : option world :=
  match es with
  | [] => Some w
  | e :: r => match life_model_step fx w lin e with
              | Some (w1, lin1, _) => life_model_run fx w1 lin1 r
              | None => None end
  end.

Lemma linv_empty t : linv (W t []).
Proof. split; [apply winv_empty | constructor]. Qed.

Lemma life_model_run_ok fx : forall es w lin w',
  linv w -> life_model_run fx w lin es = Some w' -> w_now w <= w_now w' /\ linv w' /\ moved_far w w'.
Proof.
  induction es as [|e r IH]; intros w lin w' L H; cbn in H.
  - injection H as <-. split; [lia|]. split; [exact L|]. intros id d Hn. exists d.
    split; [exact Hn|]. split; [left; reflexivity|]. split; [lia | auto].
  - destruct (life_model_step fx w lin e) as [[[w1 lin1] ch]|] eqn:Es; [|discriminate].
    destruct (life_model_step_ok fx w lin e w1 lin1 ch L Es) as (T1 & L1 & M1).
    destruct (IH w1 lin1 w' L1 H) as (T2 & L2 & M2). split; [lia|]. split; [exact L2|].
    intros id d Hn. destruct (M1 id d Hn) as [d1 [Hn1 (S1 & R1 & C1)]].
    destruct (M2 id d1 Hn1) as [d2 [Hn2 (S2 & R2 & C2)]]. exists d2. split; [exact Hn2|].
    split; [eapply status_reach_trans; [apply status_step_reach; exact S1 | exact S2]|].
    split; [lia|]. intros E. assert (rank d = rank d1) by lia. assert (rank d1 = rank d2) by lia.
    rewrite C1, C2; auto.
Qed.

(* with the repair of F03 the check's machine never halts *)
Lemma life_model_step_no_halt w lin e : linv w -> life_model_step true w lin e <> None.
Proof.
  intros [I B]. destruct e as [report slash fee | id amt | id eligible v | dt env]; cbn [life_model_step].
  - destruct (fee <? MIN_FEE); [discriminate|]. destruct (alookup report lin) as [k|].
    + destruct (idx k) as [i|]; [|discriminate].
      destruct (step true w (ENewRound i fee)) eqn:Es; [destruct (grew w w0); discriminate | exfalso; eapply step_no_halt; eauto].
    + destruct (step true w (EPropose slash fee)) eqn:Es; [destruct (grew w w0); discriminate | exfalso; eapply step_no_halt; eauto].
  - destruct (idx id) as [i|]; [|discriminate].
    destruct (step true w (EAddFee i amt)) eqn:Es; [discriminate | exfalso; eapply step_no_halt; eauto].
  - destruct (negb eligible); [discriminate|]. destruct (idx id) as [i|]; [|discriminate].
    destruct (step true w (EVote i v)) eqn:Es; [discriminate | exfalso; eapply step_no_halt; eauto].
  - destruct (step true (W (w_now w) (refresh env (w_ds w))) (EBlock dt)) eqn:Es; [discriminate|].
    exfalso. eapply step_no_halt; [|exact Es]. unfold winv. cbn.
    eapply Forall2_Forall; [|apply refresh_veq | exact I]. intros a b Hab. apply veq_dinv. exact Hab.
Qed.

(* ---- soundness of the executable specification on observed records ---------------------------- *)
Lemma status_edge_step a b : status_edge a b = true -> status_step a b.
Proof. unfold status_step. destruct a, b; cbn; intros H; try discriminate; intuition. Qed.

Definition rlc (r : drec) := (r_status r, r_open r, r_pending r, r_result r, r_executed r, r_round r).

Lemma rlc_eqb_eq p n : rlc_eqb p n = true -> rlc p = rlc n.
Proof.
  unfold rlc_eqb, rlc. intros H. repeat (apply andb_prop in H; destruct H as [H ?]).
  apply dstatus_eqb_eq in H. repeat match goal with X : Bool.eqb _ _ = true |- _ => apply Bool.eqb_prop in X end.
  repeat match goal with X : (_ =? _) = true |- _ => apply Z.eqb_eq in X end. congruence.
Qed.

(* one observed record before / after an event: one edge of the status graph or none, the rank never decreases,
   an unchanged rank means no lifecycle field changed; id, slash amount, burn amount and round are fixed *)
Lemma rec_step_sound p n :
  rec_step_ok p n = true ->
  r_id p = r_id n /\ status_step (r_status p) (r_status n) /\ rrank p <= rrank n /\
  (rrank p = rrank n -> rlc p = rlc n) /\
  r_slash p = r_slash n /\ r_round p = r_round n /\ r_burn p = r_burn n /\ r_fee_total p <= r_fee_total n /\
  (r_executed p = true -> r_executed n = true) /\ (r_result p <> 0 -> r_result n = r_result p).
Proof.
  unfold rec_step_ok. intros H. repeat (apply andb_prop in H; destruct H as [H ?]).
  repeat match goal with X : (_ =? _) = true |- _ => apply Z.eqb_eq in X end.
  repeat match goal with X : (_ <=? _) = true |- _ => apply Z.leb_le in X end.
  split; [assumption|]. split; [apply status_edge_step; assumption|]. split; [assumption|].
  split.
  { intros E. apply Z.eqb_eq in E. match goal with X : (if rrank p =? rrank n then _ else _) = true |- _ => rewrite E in X; apply rlc_eqb_eq in X; exact X end. }
  repeat split; try assumption.
  - intros E. match goal with X : (if r_executed p then _ else _) = true |- _ => rewrite E in X; exact X end.
  - intros E. apply Z.eqb_neq in E.
    match goal with X : (if r_result p =? 0 then _ else _) = true |- _ => rewrite E in X; apply andb_prop in X; destruct X as [X _]; apply Z.eqb_eq in X; symmetry; exact X end.
Qed.

Lemma steps_ok_nth : forall P N, steps_ok P N = true ->
  forall i p, nth_error P i = Some p -> exists n, nth_error N i = Some n /\ rec_step_ok p n = true.
Proof.
  induction P as [|x P IH]; intros N H i p Hp; [destruct i; discriminate|].
  destruct N as [|y N]; [discriminate|]. cbn in H. apply andb_prop in H. destruct H as [H1 H2].
  destruct i as [|i]; cbn in *.
  - injection Hp as <-. eauto.
  - eapply IH; eauto.
Qed.

(* the observations of a history on which the specification holds form a chain: every stored record persists
   under its id and moves as [rec_step_sound] says, event after event *)
Fixpoint obs_chain (prev : list drec) (steps : list lstep) : Prop :=
  match steps with
  | [] => True
  | s :: rest => steps_ok prev (ls_recs s) = true /\ obs_chain (ls_recs s) rest
  end.

Lemma life_spec_chain : forall steps now prev lin log,
  life_spec now prev lin log steps = [] -> (forall s, In s steps -> ls_res s < 2) -> obs_chain prev steps.
Proof.
  induction steps as [|s rest IH]; intros now prev lin log H R; cbn [obs_chain]; [exact I|].
  cbn [life_spec] in H.
  assert (Rs : ls_res s < 2) by (apply R; left; reflexivity).
  destruct (Z.eqb_spec (ls_res s) 3); [lia|]. destruct (Z.eqb_spec (ls_res s) 2); [lia|].
  destruct (step_spec now prev lin log s) eqn:Es; [|discriminate].
  split.
  - unfold step_spec in Es. apply app_nil_both in Es. destruct Es as [_ Es].
    apply app_nil_both in Es. destruct Es as [Es _]. apply spec_if_nil in Es. exact Es.
  - eapply IH; [exact H|]. intros x Hx. apply R. right. exact Hx.
Qed.

(* what an accepted further round looks like when the specification holds: the previous round was unresolved, open
   and before its end, the payer is charged the round fee, the new record takes the next id *)
Lemma propose_spec_round now prev lin report slash fee ch N k p :
  alookup report lin = Some k -> rnth prev k = Some p ->
  propose_spec now prev lin report slash fee ch N = [] ->
  exists P' n, split_last N = (P', Some n) /\ r_id n = zlen prev + 1 /\
    r_status p = Unresolved /\ r_open p = true /\ now <= r_end p /\
    ch = rfee (r_slash p) (r_round p) /\ ch <= fee /\
    r_status n = Voting /\ r_round n = r_round p + 1 /\ r_burn n = r_burn p + ch /\ r_fee_total n = r_fee_total p + ch.
Proof.
  intros Hl Hp. unfold propose_spec. destruct (split_last N) as [P' [n|]]; [|discriminate].
  rewrite Hl, Hp. intros H.
  apply app_nil_both in H. destruct H as [_ H]. apply app_nil_both in H. destruct H as [Hid H].
  apply app_nil_both in H. destruct H as [H1 H]. apply app_nil_both in H. destruct H as [H2 H].
  apply app_nil_both in H. destruct H as [H3 H]. apply app_nil_both in H. destruct H as [_ H4].
  apply spec_if_nil in Hid, H1, H2, H3, H4. apply Z.eqb_eq in Hid, H3. apply Z.leb_le in H2.
  apply andb_prop in H1. destruct H1 as [H1 He]. apply andb_prop in H1. destruct H1 as [Hs Ho].
  apply dstatus_eqb_eq in Hs. apply Z.leb_le in He.
  exists P', n. split; [reflexivity|]. split; [exact Hid|]. split; [exact Hs|]. split; [exact Ho|]. split; [exact He|].
  split; [exact H3|]. split; [lia|].
  unfold drec_eqb, rec_voting in H4. cbn in H4. repeat (apply andb_prop in H4; destruct H4 as [H4 ?]).
  repeat match goal with X : (_ =? _) = true |- _ => apply Z.eqb_eq in X end.
  match goal with X : dstatus_eqb (r_status n) Voting = true |- _ => apply dstatus_eqb_eq in X end.
  subst ch. repeat split; assumption.
Qed.

Lemma round_fee_min slash r : 0 <= slash -> round_fee slash r = Z.min (slash / 20 * 2 ^ r) slash.
Proof. exact (round_fee_rfee slash r). Qed.

Lemma round_fee_capped slash r : 40 <= slash -> 5 <= r -> round_fee slash r = slash.
Proof. intros H Hr. rewrite round_fee_rfee by lia. apply rfee_capped; assumption. Qed.

(* the bookkeeping invariant over every history of the lifecycle machine, from the empty chain *)
Lemma run_linv fx : forall es w w', linv w -> run fx w es = Some w' -> linv w'.
Proof.
  induction es as [|e r IH]; intros w w' L H; cbn in H; [injection H as <-; exact L|].
  destruct (step fx w e) as [w1|] eqn:Es; [|discriminate]. destruct L as [I B].
  apply (IH w1 w'); [|exact H]. split; [exact (proj1 (proj2 (step_ok fx w e w1 I Es))) | eapply step_binv; eauto].
Qed.

Lemma life_model_run_no_halt : forall es w lin, linv w -> life_model_run true w lin es <> None.
Proof.
  induction es as [|e r IH]; intros w lin L; cbn; [discriminate|].
  destruct (life_model_step true w lin e) as [[[w1 lin1] ch]|] eqn:Es; [|exfalso; exact (life_model_step_no_halt w lin e L Es)].
  apply IH. exact (proj1 (proj2 (life_model_step_ok true w lin e w1 lin1 ch L Es))).
Qed.

(* what the bookkeeping invariant says in the property's words *)
Lemma binv_unfold d : binv d ->
  d_burn d = d_slash d / 20 + fee_sum (d_slash d) (Z.to_nat (d_round d - 1)) /\
  (d_slash d <= d_fee_total d -> d_fee_total d = d_slash d + fee_sum (d_slash d) (Z.to_nat (d_round d - 1))).
Proof.
  unfold binv, burn_at, pct5. intros (S0 & R1 & Bu & Ft & _). split; [exact Bu|]. intros H. rewrite (Ft H), Bu. lia.
Qed.

Lemma life_spec_history steps now prev lin log :
  life_spec now prev lin log steps = [] -> (forall s, In s steps -> ls_res s < 2) ->
  obs_chain prev steps /\
  (forall s rest, steps = s :: rest ->
     forall i p, nth_error prev i = Some p -> exists n, nth_error (ls_recs s) i = Some n /\ rec_step_ok p n = true).
Proof.
  intros H R. pose proof (life_spec_chain steps now prev lin log H R) as C. split; [exact C|].
  intros s rest ->. cbn in C. destruct C as [C _]. apply steps_ok_nth. exact C.
Qed.

(* non-vacuity: a history recorded from the real application (nobody votes in two rounds: propose, tally without
   quorum after two days, second round for 10 per cent, tally, execution at the dispute end) passes the check ... *)
Definition life_example_case : c12_case :=
  LifeCase 1700000009000000000 [(LS (LPropose 0 75000000 75000000) 0 75000000 [(DR 1 Voting true false 1 1700000009000000000 1700259209000000000 75000000 75000000 3750000 71250000 [1] true 1700000009000000000 1700172809000000000 0 false)]); (LS (LBlock 172800000000001 [(1, (TD None (C3 0 0 0) (C3 0 0 0) (C3 0 0 0) 15680000 18425281680 2087000680000 0))]) 0 0 [(DR 1 Unresolved true true 1 1700000009000000000 1700259209000000000 75000000 75000000 3750000 71250000 [1] true 1700000009000000000 1700172809000000001 6 false)]); (LS (LPropose 0 75000000 75000000) 0 7500000 [(DR 1 Unresolved false false 1 1700000009000000000 1700259209000000000 75000000 75000000 3750000 71250000 [1] true 1700000009000000000 1700172809000000001 6 false); (DR 2 Voting true true 2 1700172809000000001 1700432009000000001 82500000 75000000 11250000 71250000 [1; 2] true 1700172809000000001 1700345609000000001 0 false)]); (LS (LBlock 172800000000001 [(2, (TD None (C3 0 0 0) (C3 0 0 0) (C3 0 0 0) 15680000 18425281680 2087000680000 0))]) 0 0 [(DR 2 Unresolved true true 2 1700172809000000001 1700432009000000001 82500000 75000000 11250000 71250000 [1; 2] true 1700172809000000001 1700345609000000002 6 false)]); (LS (LBlock 86400000000001 []) 0 0 [(DR 2 Resolved true false 2 1700172809000000001 1700432009000000001 82500000 75000000 11250000 71250000 [1; 2] true 1700172809000000001 1700345609000000002 6 true)])].
Example life_example : c12_check life_example_case = [].
Proof. vm_compute. reflexivity. Qed.

(* ... and the same history with the second round charged 20 instead of 10 per cent does not *)
Definition life_example_bad : c12_case :=
  LifeCase 1700000009000000000 [(LS (LPropose 0 75000000 75000000) 0 75000000 [(DR 1 Voting true false 1 1700000009000000000 1700259209000000000 75000000 75000000 3750000 71250000 [1] true 1700000009000000000 1700172809000000000 0 false)]); (LS (LBlock 172800000000001 [(1, (TD None (C3 0 0 0) (C3 0 0 0) (C3 0 0 0) 15680000 18425281680 2087000680000 0))]) 0 0 [(DR 1 Unresolved true true 1 1700000009000000000 1700259209000000000 75000000 75000000 3750000 71250000 [1] true 1700000009000000000 1700172809000000001 6 false)]); (LS (LPropose 0 75000000 75000000) 0 15000000 [(DR 1 Unresolved false false 1 1700000009000000000 1700259209000000000 75000000 75000000 3750000 71250000 [1] true 1700000009000000000 1700172809000000001 6 false); (DR 2 Voting true true 2 1700172809000000001 1700432009000000001 82500000 75000000 11250000 71250000 [1; 2] true 1700172809000000001 1700345609000000001 0 false)]); (LS (LBlock 172800000000001 [(2, (TD None (C3 0 0 0) (C3 0 0 0) (C3 0 0 0) 15680000 18425281680 2087000680000 0))]) 0 0 [(DR 2 Unresolved true true 2 1700172809000000001 1700432009000000001 82500000 75000000 11250000 71250000 [1; 2] true 1700172809000000001 1700345609000000002 6 false)]); (LS (LBlock 86400000000001 []) 0 0 [(DR 2 Resolved true false 2 1700172809000000001 1700432009000000001 82500000 75000000 11250000 71250000 [1; 2] true 1700172809000000001 1700345609000000002 6 true)])].
Example life_example_rejected :
  c12_check life_example_bad =
  [Spec "round-fee: the payer was not charged min(5% of the slash amount * 2^(rounds so far), slash amount)"; Diff "charged fee"].
Proof. vm_compute. reflexivity. Qed.

Lemma life_example_both : c12_check life_example_case = [] /\ c12_check life_example_bad <> [].
Proof. split; [exact life_example | rewrite life_example_rejected; discriminate]. Qed.
