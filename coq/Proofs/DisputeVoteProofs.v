(* C12 — proofs about the vote bookkeeping of Model/DisputeTally.v (msg_server_vote.go, vote.go):
   each address votes at most once per round and only while voting is open; the uint64 group
   counters are, modulo 2^64, the sums of the individual voter records (no stake is counted
   twice: what a selector's own vote adds is removed from its reporter's record and counter). *)
From Coq Require Import ZArith List Bool Lia String.
From Verif Require Import Base.Harness Model.DisputeTally.
Import ListNotations.
Open Scope Z_scope.

Lemma dstatus_eqb_eq' a b : dstatus_eqb a b = true -> a = b.
Proof. destruct a, b; cbn; congruence. Qed.

(* ======================================================================================= *)
(* Votes                                                                                   *)
(* ======================================================================================= *)
Lemma alookup_aset_same {A} k (v : A) : forall l, alookup k (aset k v l) = Some v.
Proof.
  induction l as [|[k' v'] t IH]; cbn; [rewrite Z.eqb_refl; reflexivity|].
  destruct (Z.eqb_spec k k'); cbn; [rewrite Z.eqb_refl; reflexivity|].
  destruct (Z.eqb_spec k k'); [contradiction | exact IH].
Qed.

Lemma alookup_aset_other {A} k k2 (v : A) : k2 <> k -> forall l, alookup k2 (aset k v l) = alookup k2 l.
Proof.
  intros Hne. induction l as [|[k' v'] t IH]; cbn.
  - destruct (Z.eqb_spec k2 k); [contradiction | reflexivity].
  - destruct (Z.eqb_spec k k'); cbn.
    + subst k'. destruct (Z.eqb_spec k2 k); [contradiction | reflexivity].
    + destruct (Z.eqb_spec k2 k'); [reflexivity | exact IH].
Qed.

Lemma alookup_aset_some {A} k k2 (v : A) l : alookup k2 l <> None -> alookup k2 (aset k v l) <> None.
Proof.
  intros H. destruct (Z.eq_dec k2 k) as [->|Hne]; [rewrite alookup_aset_same; discriminate|].
  rewrite alookup_aset_other by exact Hne. exact H.
Qed.

Lemma vote_powers_voters env st who c bal st1 rec k :
  vote_powers env st who c bal = Some (st1, rec) ->
  alookup k (rs_voters st) <> None -> alookup k (rs_voters st1) <> None.
Proof.
  unfold vote_powers. cbv zeta.
  destruct (negb (ac_tips (account_of env who) =? 0) && negb (is_u64 (ac_tips (account_of env who)))); [discriminate|].
  destruct (ac_sel (account_of env who)) as [r|].
  - destruct (who =? r).
    + destruct (is_u64 _); [|discriminate]. destruct (negb (is_u64 _)); [discriminate|].
      intros H; injection H as <- <-. cbn. auto.
    + destruct (negb (is_u64 (ac_sel_tokens (account_of env who)))); [discriminate|].
      destruct (alookup r (rs_voters st)) as [rv|].
      * destruct (negb (is_u64 _)); [discriminate|]. intros H; injection H as <- <-. cbn. apply alookup_aset_some.
      * destruct (negb (is_u64 _)); [discriminate|]. intros H; injection H as <- <-. cbn. auto.
  - destruct (negb (is_u64 _)); [discriminate|]. intros H; injection H as <- <-. cbn. auto.
Qed.

(* one transaction: accepted only for an address without a vote record, in status Voting, not
   after the vote end; afterwards the address has a record; a rejected vote changes nothing *)
Lemma vote_msg_once fx env st now who c bal res st' :
  vote_msg fx env st now who c bal = (res, st') ->
  (res = VAccepted ->
     rs_status st = Voting /\ alookup who (rs_voters st) = None /\ now <= rs_vote_end st /\ rs_result st = rs_result st /\
     alookup who (rs_voters st') <> None /\
     (forall k, alookup k (rs_voters st) <> None -> alookup k (rs_voters st') <> None)) /\
  (res <> VAccepted -> st' = st).
Proof.
  unfold vote_msg.
  destruct (dstatus_eqb (rs_status st) Voting) eqn:Es; cbn [negb];
    [|intros H; injection H as <- <-; split; [discriminate | reflexivity]].
  apply dstatus_eqb_eq' in Es.
  destruct (alookup who (rs_voters st)) eqn:Ea; [intros H; injection H as <- <-; split; [discriminate | reflexivity]|].
  destruct (Z.ltb_spec (rs_vote_end st) now) as [Hv|Hv]; [intros H; injection H as <- <-; split; [discriminate | reflexivity]|].
  destruct (vote_powers env st who c bal) as [[st1 rec]|] eqn:Ep; [|intros H; injection H as <- <-; split; [discriminate | reflexivity]].
  destruct (vr_power rec =? 0); [intros H; injection H as <- <-; split; [discriminate | reflexivity]|].
  assert (G : forall k, alookup k (rs_voters st) <> None -> alookup k (aset who rec (rs_voters st1)) <> None).
  { intros k Hk. apply alookup_aset_some. eapply vote_powers_voters; eauto. }
  destruct (to_err _) eqn:Et; intros H; injection H as <- <-;
    (split; [|try discriminate; try reflexivity; intros Hne; congruence]); try discriminate;
    intros _; cbn; repeat split; auto; rewrite ?alookup_aset_same; try discriminate.
Qed.

Fixpoint accepted (ops : list vote_op) (rs : list vote_res) : list Z :=
  match ops, rs with
  | o :: ot, VAccepted :: rt => vo_who o :: accepted ot rt
  | _ :: ot, _ :: rt => accepted ot rt
  | _, _ => []
  end.

(* over every sequence of vote transactions: no address is accepted twice, and none that
   had a record before *)
Lemma vote_run_once fx env : forall ops st rs st',
  vote_run fx env st ops = (rs, st') ->
  NoDup (accepted ops rs) /\
  (forall k, In k (accepted ops rs) -> alookup k (rs_voters st) = None) /\
  (forall k, alookup k (rs_voters st) <> None -> alookup k (rs_voters st') <> None) /\
  (forall k, In k (accepted ops rs) -> alookup k (rs_voters st') <> None).
Proof.
  induction ops as [|o ot IH]; intros st rs st' H; cbn in H.
  - injection H as <- <-. cbn. repeat split; auto; try constructor; try (intros k Hk; contradiction).
  - destruct (vote_msg fx env st (vo_now o) (vo_who o) (vo_choice o) (vo_bal o)) as [res st1] eqn:Em.
    destruct (vote_run fx env st1 ot) as [rt st2] eqn:Er. injection H as <- <-.
    destruct (IH st1 rt st2 Er) as (N & F & G & K).
    destruct (vote_msg_once _ _ _ _ _ _ _ _ _ Em) as [Ha Hr].
    assert (D : res = VAccepted \/ res <> VAccepted) by (destruct res; (left; reflexivity) || (right; discriminate)).
    destruct D as [->|Hne].
    + destruct (Ha eq_refl) as (_ & A0 & _ & _ & A1 & A2). cbn [accepted]. repeat split.
      * constructor; [|exact N]. intros Hin. apply F in Hin. contradiction.
      * intros k [<-|Hin]; [exact A0|]. specialize (F k Hin).
        destruct (alookup k (rs_voters st)) eqn:E; [|reflexivity]. exfalso. apply (A2 k); [congruence | exact F].
      * intros k Hk. apply G, A2, Hk.
      * intros k [<-|Hin]; [apply G, A1 | apply K, Hin].
    + rewrite (Hr Hne) in *.
      assert (E : accepted (o :: ot) (res :: rt) = accepted ot rt) by (destruct res; try reflexivity; congruence).
      rewrite E. repeat split; auto.
Qed.

(* ======================================================================================= *)
(* Counters and records                                                                    *)
(* ======================================================================================= *)
Definition vval (f : voter_rec -> Z) (c : choice) (r : voter_rec) : Z :=
  if choice_eqb (vr_vote r) c then f r else 0.

Fixpoint vsum (f : voter_rec -> Z) (c : choice) (l : list (Z * voter_rec)) : Z :=
  match l with [] => 0 | kv :: t => vval f c (snd kv) + vsum f c t end.

Lemma vsum_aset_new f c k v : forall l, alookup k l = None -> vsum f c (aset k v l) = vsum f c l + vval f c v.
Proof.
  induction l as [|[k' v'] t IH]; cbn [alookup aset vsum snd]; intros H; [lia|].
  destruct (Z.eqb_spec k k'); [discriminate|]. cbn [vsum snd]. rewrite IH by exact H. lia.
Qed.

Lemma vsum_aset_old f c k v old : forall l, alookup k l = Some old ->
  vsum f c (aset k v l) = vsum f c l - vval f c old + vval f c v.
Proof.
  induction l as [|[k' v'] t IH]; cbn [alookup aset vsum snd]; intros H; [discriminate|].
  destruct (Z.eqb_spec k k').
  - injection H as ->. cbn [vsum snd]. lia.
  - cbn [vsum snd]. rewrite IH by exact H. lia.
Qed.

Lemma wrap_add_l a b : wrap64 (wrap64 a + b) = wrap64 (a + b).
Proof. unfold wrap64. apply Zplus_mod_idemp_l. Qed.
Lemma wrap_sub_l a b : wrap64 (wrap64 a - b) = wrap64 (a - b).
Proof. unfold wrap64. apply Zminus_mod_idemp_l. Qed.
Lemma wrap_wrap a : wrap64 (wrap64 a) = wrap64 a.
Proof. unfold wrap64. apply Z.mod_mod. unfold U64. lia. Qed.

Lemma choice_eqb_spec a b : reflect (a = b) (choice_eqb a b).
Proof. destruct a, b; cbn; constructor; congruence. Qed.

Lemma cget_cset c c' v t : cget c' (cset c v t) = if choice_eqb c c' then v else cget c' t.
Proof. destruct c, c', t; reflexivity. Qed.

(* counters = sums of the records, modulo 2^64 *)
Definition counts_match (st : round_state) : Prop :=
  forall c, cget c (rs_reps st) = wrap64 (vsum vr_rep c (rs_voters st))
            /\ cget c (rs_holders st) = wrap64 (vsum vr_holder c (rs_voters st)).

Lemma cadd_match c amt t S c' :
  cget c' t = wrap64 S -> cget c' (cadd64 c amt t) = wrap64 (S + if choice_eqb c c' then amt else 0).
Proof.
  intros H. unfold cadd64. rewrite cget_cset. destruct (choice_eqb_spec c c') as [->|].
  - rewrite H, wrap_add_l. reflexivity.
  - rewrite H, Z.add_0_r. reflexivity.
Qed.

Lemma csub_match c amt t S c' :
  cget c' t = wrap64 S -> cget c' (csub64 c amt t) = wrap64 (S - if choice_eqb c c' then amt else 0).
Proof.
  intros H. unfold csub64. rewrite cget_cset. destruct (choice_eqb_spec c c') as [->|].
  - rewrite H, wrap_sub_l. reflexivity.
  - rewrite H, Z.sub_0_r. reflexivity.
Qed.

Lemma vote_powers_match env st who c bal st1 rec :
  counts_match st -> alookup who (rs_voters st) = None ->
  vote_powers env st who c bal = Some (st1, rec) ->
  alookup who (rs_voters st1) = None /\
  forall c', cget c' (rs_reps st1) = wrap64 (vsum vr_rep c' (aset who rec (rs_voters st1)))
             /\ cget c' (rs_holders st1) = wrap64 (vsum vr_holder c' (aset who rec (rs_voters st1))).
Proof.
  intros M Hn. unfold vote_powers. cbv zeta.
  destruct (negb (ac_tips (account_of env who) =? 0) && negb (is_u64 (ac_tips (account_of env who)))); [discriminate|].
  destruct (ac_sel (account_of env who)) as [r|].
  - destruct (Z.eqb_spec who r) as [Er|Er].
    + (* the reporter itself *)
      destruct (is_u64 _); [|discriminate]. destruct (negb (is_u64 _)); [discriminate|].
      intros H; injection H as <- <-. cbn [rs_voters rs_reps rs_holders]. split; [exact Hn|].
      intros c'. destruct (M c') as [Mr Mh]. rewrite (vsum_aset_new vr_rep c' who), (vsum_aset_new vr_holder c' who) by exact Hn. unfold vval. cbn [vr_vote vr_rep vr_holder].
      split; [apply cadd_match; exact Mr | apply cadd_match; exact Mh].
    + destruct (negb (is_u64 (ac_sel_tokens (account_of env who)))); [discriminate|].
      destruct (alookup r (rs_voters st)) as [rv|] eqn:Erv.
      * (* selector after its reporter *)
        destruct (negb (is_u64 _)); [discriminate|].
        intros H; injection H as <- <-. cbn [rs_voters rs_reps rs_holders].
        assert (Hn1 : alookup who (aset r (VR (vr_vote rv) (vr_power rv) (vr_rep rv - ac_sel_tokens (account_of env who)) (vr_holder rv)) (rs_voters st)) = None).
        { rewrite alookup_aset_other by exact Er. exact Hn. }
        split; [exact Hn1|]. intros c'. destruct (M c') as [Mr Mh].
        rewrite (vsum_aset_new vr_rep c' who), (vsum_aset_new vr_holder c' who) by exact Hn1.
        rewrite (vsum_aset_old vr_rep c' r _ rv), (vsum_aset_old vr_holder c' r _ rv) by exact Erv.
        unfold vval. cbn [vr_vote vr_rep vr_holder]. split.
        -- rewrite (cadd_match _ _ _ _ _ (csub_match _ _ _ _ _ Mr)). f_equal.
           destruct (choice_eqb (vr_vote rv) c'), (choice_eqb c c'); lia.
        -- rewrite (cadd_match _ _ _ _ _ Mh). f_equal. destruct (choice_eqb (vr_vote rv) c'), (choice_eqb c c'); lia.
      * (* selector before its reporter *)
        destruct (negb (is_u64 _)); [discriminate|].
        intros H; injection H as <- <-. cbn [rs_voters rs_reps rs_holders]. split; [exact Hn|].
        intros c'. destruct (M c') as [Mr Mh]. rewrite (vsum_aset_new vr_rep c' who), (vsum_aset_new vr_holder c' who) by exact Hn. unfold vval. cbn [vr_vote vr_rep vr_holder].
        split; [apply cadd_match; exact Mr | apply cadd_match; exact Mh].
  - (* no selection *)
    destruct (negb (is_u64 _)); [discriminate|].
    intros H; injection H as <- <-. cbn [rs_voters rs_reps rs_holders]. split; [exact Hn|].
    intros c'. destruct (M c') as [Mr Mh]. rewrite (vsum_aset_new vr_rep c' who), (vsum_aset_new vr_holder c' who) by exact Hn. unfold vval. cbn [vr_vote vr_rep vr_holder].
    split; [rewrite Mr; f_equal; destruct (choice_eqb c c'); lia | apply cadd_match; exact Mh].
Qed.

Lemma vote_msg_match fx env st now who c bal res st' :
  counts_match st -> vote_msg fx env st now who c bal = (res, st') -> counts_match st'.
Proof.
  intros M. unfold vote_msg.
  destruct (negb (dstatus_eqb (rs_status st) Voting)); [intros H; injection H as <- <-; exact M|].
  destruct (alookup who (rs_voters st)) eqn:Ea; [intros H; injection H as <- <-; exact M|].
  destruct (rs_vote_end st <? now); [intros H; injection H as <- <-; exact M|].
  destruct (vote_powers env st who c bal) as [[st1 rec]|] eqn:Ep; [|intros H; injection H as <- <-; exact M].
  destruct (vr_power rec =? 0); [intros H; injection H as <- <-; exact M|].
  destruct (vote_powers_match env st who c bal st1 rec M Ea Ep) as [_ M1].
  destruct (to_err _); intros H; injection H as <- <-; try exact M; exact M1.
Qed.

Lemma vote_run_match fx env : forall ops st rs st',
  counts_match st -> vote_run fx env st ops = (rs, st') -> counts_match st'.
Proof.
  induction ops as [|o ot IH]; intros st rs st' M H; cbn in H; [injection H as <- <-; exact M|].
  destruct (vote_msg fx env st (vo_now o) (vo_who o) (vo_choice o) (vo_bal o)) as [res st1] eqn:Em.
  destruct (vote_run fx env st1 ot) as [rt st2] eqn:Er. injection H as <- <-.
  eapply IH; [|exact Er]. eapply vote_msg_match; eauto.
Qed.

Lemma counts_match_start vend : counts_match (round_start vend).
Proof. intros c. destruct c; cbn; split; reflexivity. Qed.

(* without wrap: when the recorded reporter powers are non-negative and their sum fits uint64,
   the counter is exactly the sum *)
Lemma counts_exact st c :
  counts_match st -> 0 <= vsum vr_rep c (rs_voters st) < U64 -> cget c (rs_reps st) = vsum vr_rep c (rs_voters st).
Proof. intros M H. rewrite (proj1 (M c)). unfold wrap64. apply Z.mod_small. exact H. Qed.

(* a selector whose tokens at the dispute block are not part of its reporter's recorded weight
   (mismatching snapshots) wraps the counter: reporter 1 votes with 10, selector 2 claims 40 *)
Lemma counter_wrap_example :
  let env := RE 0 [(1, AC 0 (Some 1) 10 10); (2, AC 0 (Some 1) 0 40)] 0 100 1000 300 in
  let '(rs, st) := vote_run true env (round_start 200) [VO 1 1 Support 0; VO 2 2 Against 0] in
  rs = [VAccepted; VAccepted] /\ cget Support (rs_reps st) = U64 - 30 /\ vsum vr_rep Support (rs_voters st) = -30.
Proof. vm_compute. repeat split; reflexivity. Qed.
