(* C07 / C08 — the store invariant of the oracle round machine holds in every state reachable by
   any sequence of operations (the operations the correspondence driver runs on the real keeper). *)
From Coq Require Import ZArith List Bool Lia String Permutation Sorted.
From Verif Require Import Base.Harness Model.OracleRound Model.OracleRoundCheck Proofs.OracleRoundProofs.
Import ListNotations.
Open Scope Z_scope.

Lemma agg_keq_spec a b : agg_key_eq a b = true <-> (ag_qid a = ag_qid b /\ ag_ts a = ag_ts b).
Proof. unfold agg_key_eq. rewrite andb_true_iff, !Z.eqb_eq. tauto. Qed.
Lemma agg_lt_trans a b c : agg_lt a b = true -> agg_lt b c = true -> agg_lt a c = true.
Proof. order_tac agg_lt_spec agg_keq_spec. Qed.
Lemma agg_total a b : agg_key_eq a b = false -> agg_lt a b = false -> agg_lt b a = true.
Proof. order_tac agg_lt_spec agg_keq_spec. Qed.
Lemma agg_keq_sym a b : agg_key_eq a b = agg_key_eq b a.
Proof. unfold agg_key_eq. rewrite (Z.eqb_sym (ag_qid a)), (Z.eqb_sym (ag_ts a)). reflexivity. Qed.
Lemma agg_keq_lt_l a b c : agg_key_eq a b = true -> agg_lt b c = agg_lt a c.
Proof. intros H. apply agg_keq_spec in H. destruct H as [H1 H2]. unfold agg_lt. rewrite H1, H2. reflexivity. Qed.

Definition aggs_sorted (l : list aggr) : Prop := ssorted _ agg_lt l.
Lemma agg_set_sorted x l : aggs_sorted l -> aggs_sorted (agg_set x l).
Proof. apply sset_sorted; [exact agg_lt_trans | exact agg_total | exact agg_keq_sym | exact agg_keq_lt_l]. Qed.

Record oinv (s : ostate) : Prop := {
  inv_metas : metas_sorted (o_queries s);
  inv_reports : reports_sorted (o_reports s);
  inv_aggs : aggs_sorted (o_aggs s);
  inv_cycle : cycle_ok s
}.

(* ---- single operations ---------------------------------------------------------------------------- *)
Lemma initialize_query_frame s q m s1 : initialize_query s q = Some (m, s1) ->
  o_queries s1 = o_queries s /\ o_reports s1 = o_reports s /\ o_aggs s1 = o_aggs s /\ o_cycle s1 = o_cycle s /\ o_seq s1 = o_seq s.
Proof. unfold initialize_query. destruct (spec_window _ _); [|discriminate]. intros E. injection E as <- <-. cbn. auto. Qed.

Lemma tip_inv s h q a s' : oinv s -> tip s h q a = Some s' -> oinv s'.
Proof.
  intros [H1 H2 H3 H4]. unfold tip. destruct (current_query _ _) as [m|].
  - intros E. injection E as <-. constructor; cbn [with_queries o_queries o_reports o_aggs]; try assumption.
    + apply meta_set_sorted. exact H1.
  - destruct (initialize_query s q) as [[m s1]|] eqn:Ei; [|discriminate].
    destruct (initialize_query_frame _ _ _ _ Ei) as (F1 & F2 & F3 & F4 & F5).
    intros E. injection E as <-. constructor; cbn [with_queries o_queries o_reports o_aggs].
    + apply meta_set_sorted. rewrite F1. exact H1.
    + rewrite F2. exact H2.
    + rewrite F3. exact H3.
    + unfold cycle_ok in *. cbn. rewrite F4, F5. exact H4.
Qed.

Lemma set_value_inv s h m rep pw inc vok s' : oinv s -> set_value s h m rep pw inc vok = inl s' -> oinv s'.
Proof.
  intros [H1 H2 H3 H4]. unfold set_value. destruct vok; cbn [negb]; [|discriminate]. intros E. injection E as <-.
  constructor; cbn; try assumption; [apply meta_set_sorted; exact H1 | apply rep_set_sorted; exact H2].
Qed.

Lemma deposit_reveal_inv s h m rep pw vok s' : oinv s -> deposit_reveal s h m rep pw vok = inl s' -> oinv s'.
Proof.
  intros Hi. unfold deposit_reveal.
  destruct ((m_amount m =? 0) && (m_expiration m <=? h)).
  - destruct (_ <? h); [discriminate|]. apply set_value_inv. destruct Hi as [H1 H2 H3 H4]. constructor; assumption.
  - destruct ((0 <? m_amount m) && (m_expiration m <=? h)); (destruct (_ <? h); [discriminate|]); apply set_value_inv; exact Hi.
Qed.

Lemma submit_inv s h q rep stake mn vok s' : oinv s -> submit_value s h q rep stake mn vok = inl s' -> oinv s'.
Proof.
  intros Hi. unfold submit_value.
  destruct (qi_kind q); try discriminate; (destruct stake as [st|]; [|discriminate]); (destruct (st <? mn); [discriminate|]);
  (destruct (current_query (qi_id q) (o_queries s)) as [m|]); cbn [negb]; try discriminate.
  - destruct (_ && _); [discriminate|]. destruct (_ <? h); [discriminate|]. apply set_value_inv. exact Hi.
  - apply deposit_reveal_inv. exact Hi.
  - apply deposit_reveal_inv. destruct Hi as [H1 H2 H3 H4]. constructor; cbn; try assumption. apply meta_set_sorted. exact H1.
  - destruct (_ && _); [discriminate|]. destruct (_ <? h); discriminate.
Qed.

Lemma agg_fold_aggs_sorted h ts : forall l st, aggs_sorted (o_aggs st) -> aggs_sorted (o_aggs (fold_left (agg_step h ts) l st)).
Proof.
  induction l as [|m t IH]; intros st Hs; cbn [fold_left]; [exact Hs|]. apply IH.
  unfold agg_step. destruct (_ && _); [|exact Hs]. rewrite aggregate_round_aggs. apply agg_set_sorted. exact Hs.
Qed.

Lemma do_rotate_sorted s h k s' : metas_sorted (o_queries s) -> do_rotate s h k = Some s' -> metas_sorted (o_queries s').
Proof.
  intros Hs. unfold do_rotate.
  match goal with |- context [nth_z (o_cycle s) ?n] => destruct (nth_z (o_cycle s) n) as [qid|] end; [|discriminate].
  cbn [o_queries with_queries].
  assert (Hs1 : metas_sorted (clear_old qid h (o_queries s))) by (apply ssorted_filter; exact Hs).
  destruct (current_query qid _) as [m0|].
  - destruct (negb _); intros E; injection E as <-; cbn [o_queries with_queries]; [apply meta_set_sorted|]; exact Hs1.
  - destruct (initialize_query _ _) as [[m1 s2]|] eqn:Ei; [|discriminate].
    destruct (initialize_query_frame _ _ _ _ Ei) as (F1 & _). cbn [o_queries with_queries] in F1.
    intros E. injection E as <-. cbn [o_queries with_queries]. apply meta_set_sorted. rewrite F1. exact Hs1.
Qed.

Lemma end_block_inv s h ts k s' : oinv s -> end_block s h ts k = Some s' -> oinv s'.
Proof.
  intros [H1 H2 H3 H4]. unfold end_block. set (s1 := set_aggregated_report s h ts).
  assert (F : o_reports s1 = o_reports s /\ o_cycle s1 = o_cycle s /\ o_seq s1 = o_seq s).
  { unfold s1. rewrite set_aggregated_report_fold. destruct (agg_fold_frame h ts (o_queries s) s) as (F1 & F2 & F3 & _). auto. }
  destruct F as (F1 & F2 & F3).
  assert (Hc1 : cycle_ok s1) by (unfold cycle_ok; rewrite F2, F3; exact H4).
  intros E. destruct (rotate_frame _ _ _ _ Hc1 E) as (G1 & G2 & G3 & G4).
  constructor; [| rewrite G2, F1; exact H2 | rewrite G3; apply agg_fold_aggs_sorted; exact H3 | exact G4].
  pose proof (set_aggregated_report_sorted s h ts H1) as Hs1. fold s1 in Hs1.
  unfold rotate in E. destruct (nth_z _ _) as [cur|]; [|discriminate].
  destruct (current_query cur _) as [m0|]; [destruct (h <? m_expiration m0)|].
  - injection E as <-. exact Hs1.
  - eapply do_rotate_sorted; eassumption.
  - eapply do_rotate_sorted; eassumption.
Qed.

Lemma insert_sorted_nonempty x l : insert_sorted x l <> [].
Proof. destruct l as [|y t]; cbn; [discriminate|]. destruct (x =? y); [discriminate|]. destruct (x <? y); discriminate. Qed.

Lemma fold_insert_nonempty (qs : list qinfo) : forall acc, (acc <> [] \/ qs <> []) ->
  fold_left (fun acc q => insert_sorted (qi_id q) acc) qs acc <> [].
Proof.
  induction qs as [|q t IH]; intros acc [H|H]; cbn [fold_left]; try assumption; try congruence;
  apply IH; left; apply insert_sorted_nonempty.
Qed.

Lemma update_cyclelist_inv s qs s' : oinv s -> update_cyclelist s qs = Some s' -> oinv s'.
Proof.
  intros [H1 H2 H3 H4]. unfold update_cyclelist. destruct qs as [|q t]; [discriminate|].
  destruct (forallb _ _); [|discriminate]. intros E. injection E as <-. constructor; cbn [o_queries o_reports o_aggs]; try assumption.
  unfold cycle_ok. cbn [o_seq o_cycle].
  assert (Hn : fold_left (fun acc q0 => insert_sorted (qi_id q0) acc) t [qi_id q] <> []).
  { apply fold_insert_nonempty. left. discriminate. }
  destruct (fold_left (fun acc q0 => insert_sorted (qi_id q0) acc) t [qi_id q]) as [|c0 ct]; [congruence|].
  cbn [List.length]. lia.
Qed.

Lemma update_data_spec_inv s b hits w : oinv s -> oinv (update_data_spec s b hits w).
Proof.
  intros [H1 H2 H3 H4]. constructor; cbn; try assumption.
  destruct (b && hits); [|exact H1]. apply ssorted_map_key; [|exact H1].
  intros x y. destruct (m_bridge_type x), (m_bridge_type y); reflexivity.
Qed.

(* ---- all histories ---------------------------------------------------------------------------------- *)
Definition run_step (qinfos : list qinfo) (s : ostate) (hop : Z * rop) : ostate :=
  match model_step qinfos s (fst hop) (snd hop) with Some s' => s' | None => s end.
Definition run (qinfos : list qinfo) (s : ostate) (ops : list (Z * rop)) : ostate := fold_left (run_step qinfos) ops s.

Lemma model_step_inv qinfos s h op s' : oinv s -> model_step qinfos s h op = Some s' -> oinv s'.
Proof.
  intros Hi. destruct op as [q a|q rep stake mn v|ts|qs|b hits w]; cbn [model_step].
  - apply tip_inv. exact Hi.
  - destruct (submit_value _ _ _ _ _ _ _) as [s1|] eqn:E; [|discriminate]. intros E1. injection E1 as <-. eapply submit_inv; eassumption.
  - apply end_block_inv. exact Hi.
  - apply update_cyclelist_inv. exact Hi.
  - intros E. injection E as <-. apply update_data_spec_inv. exact Hi.
Qed.

Theorem run_inv qinfos ops : forall s, oinv s -> oinv (run qinfos s ops).
Proof.
  unfold run. induction ops as [|[h op] t IH]; intros s Hi; cbn [fold_left]; [exact Hi|]. apply IH.
  unfold run_step. cbn [fst snd]. destruct (model_step qinfos s h op) eqn:E; [eapply model_step_inv; eassumption | exact Hi].
Qed.

(* the genesis-like state: empty stores, a non-empty cycle list *)
Definition genesis (cycle : list Z) (sw bw : Z) : ostate :=
  {| o_queries := []; o_reports := []; o_cycle := cycle; o_seq := 0; o_next_meta := 0; o_aggs := []; o_nonces := [];
     o_spot_window := sw; o_bridge_window := bw |}.
Lemma genesis_inv cycle sw bw : cycle <> [] -> oinv (genesis cycle sw bw).
Proof.
  intros Hn. constructor; cbn [genesis o_queries o_reports o_aggs]; try (constructor; fail).
  unfold cycle_ok. cbn [genesis o_seq o_cycle]. destruct cycle; [congruence|]. cbn [List.length]. lia.
Qed.
