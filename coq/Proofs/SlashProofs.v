(* C11 — lemmas about Model/Slash.v *)
From Coq Require Import ZArith List Bool Lia String.
From Verif Require Import Base.Dec Base.Harness Model.Slash.
Import ListNotations.
Open Scope Z_scope.

Ltac Zify.zify_post_hook ::= Z.to_euclidean_division_equations.

Lemma some_inj {A} (a b : A) : Some a = Some b -> a = b.
Proof. intros H. congruence. Qed.

(* ---- amounts ---------------------------------------------------------------------------------- *)
Lemma truncate_of_int k : truncate_int (of_int k) = k.
Proof. unfold truncate_int, of_int. apply Z.quot_mul. unfold P. lia. Qed.

Lemma dec_quo_of_int_exact a i : 0 < i -> dec_quo (of_int (a * i)) (of_int i) = of_int a.
Proof.
  intros Hi. rewrite dec_quo_of_int by exact Hi. unfold of_int.
  replace (a * i * P * P) with (a * P * P * i) by ring. rewrite Z.quot_mul by lia. apply chop_round_exact.
Qed.

Lemma slash_amount_exact power pct : slash_amount power pct = power * pct.
Proof.
  unfold slash_amount. rewrite dec_mul_of_int_r.
  replace (of_int (power * PR) * pct) with (of_int (power * pct * PR)) by (unfold of_int; ring).
  rewrite dec_quo_of_int_exact by reflexivity. apply truncate_of_int.
Qed.

Lemma slash_pct_cases cat pct :
  slash_pct cat = Some pct -> (cat = 1 /\ pct = 10000) \/ (cat = 2 /\ pct = 50000) \/ (cat = 3 /\ pct = 1000000).
Proof.
  unfold slash_pct. destruct (cat =? 1) eqn:E1; [apply Z.eqb_eq in E1; intros H; inversion H; left; split; [exact E1 | reflexivity]|].
  destruct (cat =? 2) eqn:E2; [apply Z.eqb_eq in E2; intros H; inversion H; right; left; split; [exact E2 | reflexivity]|].
  destruct (cat =? 3) eqn:E3; [apply Z.eqb_eq in E3; intros H; inversion H; right; right; split; [exact E3 | reflexivity]|].
  discriminate.
Qed.

(* the fee that completes a dispute is the slash amount: power * 10^6 * {1/100, 1/20, 1} *)
Lemma dispute_fee_is_slash power cat f :
  dispute_fee power cat = Some f -> exists pct, slash_pct cat = Some pct /\ f = power * pct /\ f = slash_amount power pct.
Proof.
  unfold dispute_fee, slash_pct. intros H.
  destruct (cat =? 1) eqn:E1.
  { exists 10000. split; [reflexivity|]. rewrite slash_amount_exact. apply some_inj in H. subst f.
    rewrite dec_mul_of_int_r. replace (of_int (PR * power) * 1) with (of_int (power * 10000 * 100)) by (unfold of_int, PR; ring).
    rewrite dec_quo_of_int_exact by reflexivity. rewrite truncate_of_int. split; reflexivity. }
  destruct (cat =? 2) eqn:E2.
  { exists 50000. split; [reflexivity|]. rewrite slash_amount_exact. apply some_inj in H. subst f.
    rewrite dec_mul_of_int_r. replace (of_int (PR * power) * 5) with (of_int (power * 50000 * 100)) by (unfold of_int, PR; ring).
    rewrite dec_quo_of_int_exact by reflexivity. rewrite truncate_of_int. split; reflexivity. }
  destruct (cat =? 3) eqn:E3; [|discriminate].
  exists 1000000. split; [reflexivity|]. rewrite slash_amount_exact. apply some_inj in H. subst f. unfold PR. split; ring.
Qed.

(* ---- shares ------------------------------------------------------------------------------------- *)
Lemma shares_go_sum vr total amt l leftover :
  l <> [] -> sum_z (shares_go vr total amt l leftover) = leftover.
Proof.
  revert leftover. induction l as [|o t IH]; intros leftover Hne; [congruence|].
  cbn [shares_go]. destruct t as [|o' t'].
  - cbn [sum_z]. lia.
  - cbn [sum_z]. rewrite IH by discriminate. lia.
Qed.

Lemma shares_go_length vr total amt l leftover :
  List.length (shares_go vr total amt l leftover) = List.length l.
Proof.
  revert leftover. induction l as [|o t IH]; intros leftover; [reflexivity|].
  cbn [shares_go]. destruct t as [|o' t']; [reflexivity|]. cbn [List.length]. f_equal. apply IH.
Qed.

Lemma shares_sum vr power amt origins : origins <> [] -> sum_z (shares vr power amt origins) = amt.
Proof. intros H. unfold shares. apply shares_go_sum. exact H. Qed.

(* a rounded pro-rata share is within one unit of the exact share (for amounts below 5*10^17) *)
Lemma share_of_bound a total amt :
  0 <= a -> 0 < total -> 0 <= amt -> 2 * amt <= P ->
  Z.abs (share_of a total amt * total - a * amt) <= total.
Proof.
  intros Ha Ht Hamt Hsmall. unfold share_of, round_int.
  rewrite dec_mul_of_int_r.
  pose proof (dec_quo_of_int_err (of_int a) total ltac:(unfold of_int, P; nia) Ht) as Hq.
  set (q := dec_quo (of_int a) (of_int total)) in *.
  pose proof (chop_round_err (q * amt)) as Hr.
  set (c := chop_round (q * amt)) in *.
  unfold of_int in Hq.
  (* |q*total - a*P| <= total ; 2|c*P - q*amt| <= P *)
  assert (H1 : Z.abs (q * amt * total - a * amt * P) <= total * amt) by nia.
  assert (H2 : 2 * Z.abs (c * P * total - q * amt * total) <= P * total) by nia.
  assert (H3 : 2 * Z.abs (c * total * P - a * amt * P) <= P * total + 2 * total * amt) by lia.
  assert (H4 : 2 * Z.abs (c * total - a * amt) * P <= 2 * total * P).
  { replace (c * total * P - a * amt * P) with ((c * total - a * amt) * P) in H3 by ring.
    rewrite Z.abs_mul in H3. rewrite (Z.abs_eq P) in H3 by (unfold P; lia). nia. }
  unfold P in *. nia.
Qed.

Lemma share_of_nonneg a total amt : 0 <= a -> 0 < total -> 0 <= amt -> 0 <= share_of a total amt.
Proof.
  intros Ha Ht Hamt. unfold share_of, round_int. apply chop_round_nonneg_sign.
  rewrite dec_mul_of_int_r. apply Z.mul_nonneg_nonneg; [|exact Hamt].
  apply dec_quo_nonneg; unfold of_int, P; nia.
Qed.

(* repaired: no share is negative, whatever the origins *)
Lemma shares_go_repaired_nonneg vr total amt l leftover :
  fix39 vr = true -> 0 < total -> 0 <= amt -> 0 <= leftover -> Forall (fun o => 0 <= o_amt o) l ->
  Forall (fun s => 0 <= s) (shares_go vr total amt l leftover).
Proof.
  intros Hv Ht Hamt. revert leftover. induction l as [|o t IH]; intros leftover Hl Hall; [constructor|].
  inversion Hall as [|? ? Ho Hall']; subst. cbn [shares_go]. rewrite Hv.
  pose proof (share_of_nonneg (o_amt o) total amt Ho Ht Hamt) as Hs.
  destruct t as [|o' t'].
  - constructor; [lia | constructor].
  - constructor; [lia|]. apply IH; [lia | exact Hall'].
Qed.

(* ---- coins: whatever the escrow takes out of the staking pools arrives in the dispute escrow ---------- *)
Definition coins (st : stk) : Z := s_bonded st + s_notbonded st + s_escrow st.
Definition conserves (st st' : stk) : Prop := coins st' = coins st /\ s_escrow st <= s_escrow st'.

Lemma conserves_refl st : conserves st st. Proof. split; lia. Qed.
Lemma conserves_trans a b c : conserves a b -> conserves b c -> conserves a c.
Proof. unfold conserves. intros [H1 H2] [H3 H4]. split; lia. Qed.

Lemma unbond_pools st del vl sh st' iss :
  unbond st del vl sh = Some (st', iss) ->
  s_bonded st' = s_bonded st /\ s_notbonded st' = s_notbonded st /\ s_escrow st' = s_escrow st.
Proof.
  unfold unbond. destruct (find_dlg del vl (s_dels st)) as [d|]; [|discriminate].
  destruct (find_val vl (s_vals st)) as [v|]; [|discriminate].
  destruct (d_shares d <? sh); [discriminate|].
  destruct (if v_shares v - sh =? 0 then Some (v_tokens v) else _) as [i|]; [|discriminate].
  destruct (_ <? 0); [discriminate|]. intros H. apply some_inj in H. inversion H. cbn. repeat split; reflexivity.
Qed.

Lemma move_tokens_conserves vr st status amount st' :
  move_tokens vr st status amount = Some st' -> conserves st st' /\ s_escrow st' = s_escrow st + amount.
Proof.
  unfold move_tokens. destruct (amount <? 0) eqn:Ea; [discriminate|]. apply Z.ltb_ge in Ea.
  destruct (status =? 3).
  - destruct (s_bonded st <? amount); [discriminate|]. intros H. apply some_inj in H. subst st'.
    unfold conserves, coins. cbn. repeat split; lia.
  - destruct ((status =? 2) || ((status =? 1) && fix34 vr)); [|discriminate].
    destruct (s_notbonded st <? amount); [discriminate|]. intros H. apply some_inj in H. subst st'.
    unfold conserves, coins. cbn. repeat split; lia.
Qed.

Lemma deduct_from_delegation_conserves vr st del vl dt st' rem :
  deduct_from_delegation vr st del vl dt = Some (st', rem) -> conserves st st'.
Proof.
  unfold deduct_from_delegation. destruct (find_dlg del vl (s_dels st)) as [d|].
  2:{ intros H. apply some_inj in H. inversion H. apply conserves_refl. }
  destruct (find_val vl (s_vals st)) as [v|]; [|discriminate].
  destruct (tokens_from_shares v (d_shares d)) as [cur|]; [|discriminate].
  destruct (if dt <=? cur then _ else _) as [[sh rm]|]; [|discriminate].
  destruct (sh =? 0).
  { intros H. apply some_inj in H. inversion H. apply conserves_refl. }
  destruct (unbond st del vl sh) as [[st1 removed]|] eqn:Eu; [|discriminate].
  destruct (move_tokens vr st1 (v_status v) removed) as [st2|] eqn:Em; [|discriminate].
  intros H. apply some_inj in H. inversion H. subst st' rem.
  apply unbond_pools in Eu. destruct Eu as (Hb & Hn & He).
  apply move_tokens_conserves in Em. destruct Em as [[Hc Hle] _].
  unfold conserves, coins in *. split; lia.
Qed.

Lemma deduct_unbonding_conserves vr st u t st' tl :
  deduct_unbonding vr st u t = Some (st', tl) -> conserves st st'.
Proof.
  unfold deduct_unbonding. destruct (u_entries u); [discriminate|].
  destruct (ubd_loop vr (z :: l) t) as [[[es' ra] tl']|]; [|discriminate].
  destruct ((ra <? 0) || (s_notbonded st <? ra)) eqn:E; [discriminate|].
  apply orb_false_elim in E. destruct E as [E1 E2]. apply Z.ltb_ge in E1.
  intros H. apply some_inj in H. inversion H. unfold conserves, coins. cbn. split; lia.
Qed.

Lemma undelegate_conserves vr st del vl dt st' rem :
  undelegate vr st del vl dt = Some (st', rem) -> conserves st st'.
Proof.
  unfold undelegate. destruct (deduct_from_delegation vr st del vl dt) as [[st1 r]|] eqn:E1; [|discriminate].
  apply deduct_from_delegation_conserves in E1.
  destruct (r =? 0). { intros H. apply some_inj in H. inversion H. subst. exact E1. }
  destruct (find_ubd del vl (s_ubds st1)) as [u|].
  - intros H. apply deduct_unbonding_conserves in H. eapply conserves_trans; eassumption.
  - intros H. apply some_inj in H. inversion H. subst. exact E1.
Qed.

Lemma chase_all_conserves vr del ds : forall st remaining acc st' rec,
  chase_all vr st del ds remaining acc = Some (st', rec) -> conserves st st'.
Proof.
  induction ds as [|d ds IH]; intros st remaining acc st' rec; cbn [chase_all].
  - destruct (remaining =? 0); [|discriminate]. intros H. apply some_inj in H. inversion H. apply conserves_refl.
  - destruct (remaining =? 0). { intros H. apply some_inj in H. inversion H. apply conserves_refl. }
    destruct (undelegate vr st del d (of_int remaining)) as [[st1 lft]|] eqn:E; [|discriminate].
    intros H. apply IH in H. apply undelegate_conserves in E. eapply conserves_trans; eassumption.
Qed.

Lemma escrow_origin_conserves vr reds st del vl share acc st' rec :
  escrow_origin vr reds st del vl share acc = Some (st', rec) -> conserves st st'.
Proof.
  unfold escrow_origin. destruct (undelegate vr st del vl (of_int share)) as [[st1 remaining]|] eqn:E; [|discriminate].
  apply undelegate_conserves in E.
  destruct (remaining =? 0). { intros H. apply some_inj in H. inversion H. subst. exact E. }
  destruct (fix38 vr).
  - intros H. apply chase_all_conserves in H. eapply conserves_trans; eassumption.
  - destruct (dsts reds del vl) as [|d ?]; [discriminate|].
    destruct (undelegate vr st1 del d (of_int remaining)) as [[st2 ?]|] eqn:E2; [|discriminate].
    intros H. apply some_inj in H. inversion H. subst. apply undelegate_conserves in E2.
    eapply conserves_trans; eassumption.
Qed.

Lemma escrow_loop_conserves vr reds os : forall st shs acc st' rec,
  escrow_loop vr reds st os shs acc = Some (st', rec) -> conserves st st'.
Proof.
  induction os as [|o os IH]; intros st shs acc st' rec; cbn [escrow_loop].
  - intros H. apply some_inj in H. inversion H. apply conserves_refl.
  - destruct shs as [|sh shs]. { intros H. apply some_inj in H. inversion H. apply conserves_refl. }
    destruct (escrow_origin vr reds st (o_del o) (o_val o) sh acc) as [[st1 acc1]|] eqn:E; [|discriminate].
    intros H. apply IH in H. apply escrow_origin_conserves in E. eapply conserves_trans; eassumption.
Qed.

Lemma escrow_conserves vr reds st origins power amt st' rec :
  escrow vr reds st origins power amt = Some (st', rec) -> conserves st st'.
Proof.
  unfold escrow. destruct origins as [|o os]. { intros H. apply some_inj in H. inversion H. apply conserves_refl. }
  destruct (_ =? 0); [discriminate|]. destruct (_ && _); [discriminate|]. apply escrow_loop_conserves.
Qed.

(* ---- the unbonding loop ------------------------------------------------------------------------- *)
(* repaired loop: what leaves the entries is what was asked minus what is still missing *)
Lemma ubd_loop_fixed_spec es : forall t es' ra tl,
  Forall (fun e => 0 <= e) es -> 0 <= t -> ubd_loop_fixed es t = (es', ra, tl) ->
  ra = t - tl /\ 0 <= tl /\ sum_z es' = sum_z es - ra /\ Forall (fun e => 0 <= e) es' /\ (0 < tl -> es' = []).
Proof.
  induction es as [|e rest IH]; intros t es' ra tl Hall Ht; cbn [ubd_loop_fixed].
  - intros H. inversion H. subst. cbn. repeat split; try lia. constructor.
  - inversion Hall as [|? ? He Hrest]; subst. destruct (e <? t) eqn:E.
    + apply Z.ltb_lt in E. destruct (ubd_loop_fixed rest (t - e)) as [[k ra'] tl'] eqn:Er.
      assert (Hte : 0 <= t - e) by lia.
      destruct (IH _ _ _ _ Hrest Hte Er) as (H1 & H2 & H3 & H4 & H5).
      intros H. inversion H. subst. cbn [sum_z]. repeat split; try lia; assumption.
    + apply Z.ltb_ge in E. intros H. inversion H. subst. cbn [sum_z]. repeat split; try lia.
      constructor; [lia | exact Hrest].
Qed.

(* ---- jail, flag, record -------------------------------------------------------------------------- *)
Lemma find_set_rep a j u reps : is_some (find_rep a reps) = true -> find_rep a (set_rep (Rps a j u) reps) = Some (Rps a j u).
Proof.
  induction reps as [|r t IH]; cbn; [discriminate|].
  destruct (rs_acct r =? a) eqn:E; cbn; [rewrite Z.eqb_refl; reflexivity|].
  rewrite E. exact IH.
Qed.

Lemma slash_and_jail_inv vr e w id r cat w' :
  slash_and_jail vr e w id r cat = Some w' ->
  exists pct s st' recd,
    slash_pct cat = Some pct /\
    find_snap (rp_qid r) (rp_reporter r) (rp_height r) (e_snaps e) = Some s /\
    escrow vr (e_reds e) (w_stk w) (sn_origins s) (rp_power r) (rp_power r * pct) = Some (st', recd) /\
    w_stk w' = st' /\
    w_rcds w' = insert_rcd (Rcd id recd (rp_power r * pct)) (w_rcds w) /\
    w_aggs w' = flag_agg (rp_qid r) (rp_height r) (rp_reporter r) (w_aggs w) /\
    w_disps w' = w_disps w /\ w_now w' = w_now w /\
    match jail_secs cat with
    | None => w_reps w' = w_reps w
    | Some secs => find_rep (rp_reporter r) (w_reps w') = Some (Rps (rp_reporter r) true (w_now w + secs * 1000000000)) /\
                   exists old, find_rep (rp_reporter r) (w_reps w) = Some old /\ rs_jailed old = false
    end.
Proof.
  unfold slash_and_jail. destruct (slash_pct cat) as [pct|] eqn:Ep; [|discriminate].
  rewrite slash_amount_exact.
  destruct (find_snap _ _ _ _) as [s|] eqn:Es; [|discriminate].
  destruct (escrow _ _ _ _ _ _) as [[st' recd]|] eqn:Ee; [|discriminate].
  destruct (jail_secs cat) as [secs|] eqn:Ej.
  - unfold jail. destruct (find_rep (rp_reporter r) (w_reps w)) as [old|] eqn:Ef; [|discriminate].
    destruct (rs_jailed old) eqn:Eo; [discriminate|].
    intros H. apply some_inj in H. subst w'. exists pct, s, st', recd. cbn.
    repeat split; try reflexivity; try assumption.
    + apply find_set_rep. rewrite Ef. reflexivity.
    + exists old. split; [reflexivity | exact Eo].
  - intros H. apply some_inj in H. subst w'. exists pct, s, st', recd. cbn. repeat split; try reflexivity; assumption.
Qed.

(* the flag: every aggregate keeps its identity; a flag is never cleared; the first aggregate of that query whose
   deciding report is the disputed one (height and reporter) is flagged *)
Lemma flag_agg_spec q h r l :
  List.length (flag_agg q h r l) = List.length l /\
  (forall i a, nth_error l i = Some a -> exists a', nth_error (flag_agg q h r l) i = Some a' /\
      ag_qid a' = ag_qid a /\ ag_height a' = ag_height a /\ ag_reporter a' = ag_reporter a /\
      (ag_flagged a = true -> ag_flagged a' = true) /\
      (ag_flagged a' = true -> ag_flagged a = true \/ (ag_qid a = q /\ ag_height a = h /\ ag_reporter a = r))) /\
  (forall a, In a l -> ag_qid a = q -> ag_height a = h -> ag_reporter a = r ->
      exists a', In a' (flag_agg q h r l) /\ ag_qid a' = q /\ ag_height a' = h /\ ag_reporter a' = r /\ ag_flagged a' = true).
Proof.
  induction l as [|a t IH]; cbn [flag_agg].
  - split; [reflexivity|]. split; [intros [|i] a H; discriminate | intros a []].
  - destruct IH as (IH1 & IH2 & IH3).
    destruct ((ag_qid a =? q) && (ag_height a =? h) && (ag_reporter a =? r)) eqn:E.
    + apply andb_prop in E. destruct E as [E E3]. apply andb_prop in E. destruct E as [E1 E2].
      apply Z.eqb_eq in E1, E2, E3.
      split; [reflexivity|]. split.
      * intros [|i] x Hx; cbn in *.
        -- inversion Hx; subst x. eexists. split; [reflexivity|]. cbn. repeat split; auto.
        -- exists x. split; [exact Hx|]. repeat split; auto.
      * intros x _ _ _ _. eexists. split; [left; reflexivity|]. cbn. repeat split; assumption.
    + split; [cbn; f_equal; exact IH1|]. split.
      * intros [|i] x Hx; cbn in *.
        -- inversion Hx; subst x. exists a. split; [reflexivity|]. repeat split; auto.
        -- apply IH2. exact Hx.
      * intros x [Hx|Hx] Hq Hh Hr.
        -- subst x. rewrite Hq, Hh, Hr, !Z.eqb_refl in E. discriminate.
        -- destruct (IH3 x Hx Hq Hh Hr) as (a' & Hin & Hrest). exists a'. split; [right; exact Hin | exact Hrest].
Qed.

(* ---- lifecycle: a dispute is slashed at most once, and only when its fee is complete ------------------- *)
Definition rcd_ids (w : world) : list Z := map rc_id (w_rcds w).

Definition linv (w : world) : Prop :=
  NoDup (rcd_ids w) /\
  (forall id, In id (rcd_ids w) ->
     exists d, find_disp id (w_disps w) = Some d /\ dp_fee_total d = dp_slash d /\ dp_status d = ST_VOTING) /\
  (forall id d, find_disp id (w_disps w) = Some d -> dp_status d = ST_PREVOTE \/ dp_status d = ST_FAILED ->
     dp_fee_total d < dp_slash d).

Lemma next_id_gt l : forall d, In d l -> dp_id d < next_id l.
Proof. induction l as [|x t IH]; intros d []; cbn [next_id]; [subst; lia | specialize (IH d H); lia]. Qed.

Lemma find_disp_in id l d : find_disp id l = Some d -> In d l /\ dp_id d = id.
Proof.
  induction l as [|x t IH]; cbn; [discriminate|]. destruct (dp_id x =? id) eqn:E.
  - intros H. apply some_inj in H. subst. apply Z.eqb_eq in E. split; [left; reflexivity | exact E].
  - intros H. destruct (IH H). split; [right|]; assumption.
Qed.

Lemma find_disp_next_id l : find_disp (next_id l) l = None.
Proof.
  destruct (find_disp (next_id l) l) as [d|] eqn:E; [|reflexivity].
  apply find_disp_in in E. destruct E as [Hin Hid]. pose proof (next_id_gt l d Hin). lia.
Qed.

Lemma find_disp_app id l x :
  find_disp id (l ++ [x]) = match find_disp id l with Some d => Some d | None => if dp_id x =? id then Some x else None end.
Proof. induction l as [|y t IH]; cbn; [reflexivity|]. destruct (dp_id y =? id); [reflexivity | exact IH]. Qed.

Lemma find_disp_set id n l :
  find_disp id (set_disp n l) =
  if dp_id n =? id then match find_disp id l with Some _ => Some n | None => None end else find_disp id l.
Proof.
  induction l as [|y t IH]; cbn [set_disp find_disp]. { destruct (dp_id n =? id); reflexivity. }
  destruct (dp_id y =? dp_id n) eqn:E1; cbn [find_disp].
  - apply Z.eqb_eq in E1. rewrite E1. destruct (dp_id n =? id); reflexivity.
  - destruct (dp_id y =? id) eqn:E3.
    + destruct (dp_id n =? id) eqn:E2; [|reflexivity]. apply Z.eqb_eq in E2, E3. apply Z.eqb_neq in E1. lia.
    + exact IH.
Qed.

Lemma expire_id now d : dp_id (expire now d) = dp_id d.
Proof. unfold expire. destruct (_ && _); reflexivity. Qed.

Lemma find_disp_expire id now l :
  find_disp id (map (expire now) l) = match find_disp id l with Some d => Some (expire now d) | None => None end.
Proof. induction l as [|y t IH]; cbn; [reflexivity|]. rewrite expire_id. destruct (dp_id y =? id); [reflexivity | exact IH]. Qed.

Lemma insert_rcd_ids n l x : In x (map rc_id (insert_rcd n l)) <-> x = rc_id n \/ In x (map rc_id l).
Proof.
  induction l as [|r t IH]; cbn. { split; intros [H|[]]; left; congruence. }
  destruct (rc_id n <? rc_id r); cbn.
  - split; intros H; [destruct H as [H|H]; [left; congruence | right; exact H] | destruct H as [H|H]; [left; congruence | right; exact H]].
  - rewrite IH. split; intros H; [destruct H as [H|[H|H]] | destruct H as [H|[H|H]]]; auto.
Qed.

Lemma insert_rcd_nodup n l : NoDup (map rc_id l) -> ~ In (rc_id n) (map rc_id l) -> NoDup (map rc_id (insert_rcd n l)).
Proof.
  induction l as [|r t IH]; cbn; intros Hnd Hnot. { constructor; [intros [] | constructor]. }
  destruct (rc_id n <? rc_id r); cbn.
  - constructor; [exact Hnot | exact Hnd].
  - inversion Hnd as [|? ? Hr Ht]; subst. constructor.
    + rewrite insert_rcd_ids. intros [H|H]; [apply Hnot; left; congruence | contradiction].
    + apply IH; [exact Ht | intros H; apply Hnot; right; exact H].
Qed.

Lemma pay_inv w sender amount from_bond w1 :
  pay w sender amount from_bond = Some w1 ->
  w_disps w1 = w_disps w /\ w_rcds w1 = w_rcds w /\ w_now w1 = w_now w /\ w_reps w1 = w_reps w /\ w_aggs w1 = w_aggs w.
Proof.
  unfold pay. destruct from_bond.
  - destruct (_ <? amount); [discriminate|]. destruct (_ <? amount); [discriminate|].
    intros H. apply some_inj in H. subst. cbn. repeat split; reflexivity.
  - destruct (_ <? amount); [discriminate|]. intros H. apply some_inj in H. subst. cbn. repeat split; reflexivity.
Qed.

(* the shape of an accepted proposal *)
Lemma propose_inv vr e w sender r cat fee from_bond w' :
  propose vr e w sender r cat fee from_bond = Some w' ->
  find_disp_report r cat (w_disps w) = None /\ ONE_PERCENT <= fee /\
  exists dfee paid w1, dispute_fee (rp_power r) cat = Some dfee /\ paid = Z.min fee dfee /\
    pay w sender paid from_bond = Some w1 /\
    let id := next_id (w_disps w) in
    ((paid = dfee /\ exists w2, slash_and_jail vr e w1 id r cat = Some w2 /\
        w' = with_disps w2 (w_disps w2 ++ [Dsp id r cat ST_VOTING (w_now w + 3 * DAY) paid dfee true])) \/
     (paid < dfee /\ w' = with_disps w1 (w_disps w1 ++ [Dsp id r cat ST_PREVOTE (w_now w + DAY) paid dfee true]))).
Proof.
  unfold propose. destruct (fee <? ONE_PERCENT) eqn:Ef; [discriminate|]. apply Z.ltb_ge in Ef.
  destruct (find_disp_report r cat (w_disps w)); [discriminate|].
  destruct (_ || _); [discriminate|].
  destruct (dispute_fee (rp_power r) cat) as [dfee|] eqn:Edf; [|discriminate].
  set (paid := if dfee <? fee then dfee else fee).
  assert (Hp : paid = Z.min fee dfee) by (unfold paid; destruct (dfee <? fee) eqn:E; [apply Z.ltb_lt in E | apply Z.ltb_ge in E]; lia).
  destruct (pay w sender paid from_bond) as [w1|] eqn:Epay; [|discriminate].
  intros H. split; [reflexivity|]. split; [exact Ef|]. exists dfee, paid, w1.
  split; [reflexivity|]. split; [exact Hp|]. split; [exact Epay|]. cbv zeta.
  destruct (paid =? dfee) eqn:E.
  - apply Z.eqb_eq in E. left. split; [exact E|].
    destruct (slash_and_jail vr e w1 (next_id (w_disps w)) r cat) as [w2|]; [|discriminate].
    exists w2. split; [reflexivity|]. apply some_inj in H. symmetry. exact H.
  - apply Z.eqb_neq in E. right. split; [lia|]. apply some_inj in H. symmetry. exact H.
Qed.

Lemma add_fee_inv vr e w sender id amount from_bond w' :
  add_fee vr e w sender id amount from_bond = Some w' ->
  exists d amt w1, find_disp id (w_disps w) = Some d /\ 0 < amount /\ w_now w <= dp_end d /\ dp_fee_total d < dp_slash d /\
    negb ((sender =? rp_reporter (dp_report d)) && from_bond) = true /\
    amt = Z.min amount (dp_slash d - dp_fee_total d) /\ pay w sender amt from_bond = Some w1 /\
    let total := dp_fee_total d + amt in
    ((total = dp_slash d /\ exists w2, slash_and_jail vr e w1 id (dp_report d) (dp_cat d) = Some w2 /\
        w' = with_disps w2 (set_disp (Dsp id (dp_report d) (dp_cat d) ST_VOTING (w_now w + 3 * DAY) total (dp_slash d) (dp_open d)) (w_disps w2))) \/
     (total < dp_slash d /\
        w' = with_disps w1 (set_disp (Dsp id (dp_report d) (dp_cat d) (dp_status d) (dp_end d) total (dp_slash d) (dp_open d)) (w_disps w1)))).
Proof.
  unfold add_fee. destruct (amount <=? 0) eqn:Ea; [discriminate|]. apply Z.leb_gt in Ea.
  destruct (find_disp id (w_disps w)) as [d|] eqn:Efd; [|discriminate].
  destruct ((sender =? rp_reporter (dp_report d)) && from_bond) eqn:Es; [discriminate|].
  destruct (dp_end d <? w_now w) eqn:Ee; [discriminate|]. apply Z.ltb_ge in Ee.
  destruct (dp_slash d <=? dp_fee_total d) eqn:Ec; [discriminate|]. apply Z.leb_gt in Ec.
  set (amt := if dp_slash d <? dp_fee_total d + amount then dp_slash d - dp_fee_total d else amount).
  assert (Hamt : amt = Z.min amount (dp_slash d - dp_fee_total d))
    by (unfold amt; destruct (dp_slash d <? dp_fee_total d + amount) eqn:E; [apply Z.ltb_lt in E | apply Z.ltb_ge in E]; lia).
  destruct (pay w sender amt from_bond) as [w1|] eqn:Epay; [|discriminate].
  intros H. exists d, amt, w1.
  split; [reflexivity|]. split; [exact Ea|]. split; [exact Ee|]. split; [exact Ec|].
  split; [rewrite Es; reflexivity|]. split; [exact Hamt|]. split; [exact Epay|]. cbv zeta.
  destruct (dp_fee_total d + amt =? dp_slash d) eqn:E.
  - apply Z.eqb_eq in E. left. split; [exact E|].
    destruct (slash_and_jail vr e w1 id (dp_report d) (dp_cat d)) as [w2|]; [|discriminate].
    exists w2. split; [reflexivity|]. apply some_inj in H. symmetry. exact H.
  - apply Z.eqb_neq in E. right. split; [lia|]. apply some_inj in H. symmetry. exact H.
Qed.

Lemma linv_pay w sender amount from_bond w1 : pay w sender amount from_bond = Some w1 -> linv w -> linv w1.
Proof.
  intros Hp. apply pay_inv in Hp. destruct Hp as (Hd & Hr & _). unfold linv, rcd_ids. rewrite Hd, Hr. tauto.
Qed.

Lemma step_linv vr e w o : linv w -> linv (snd (step vr e w o)).
Proof.
  intros Hinv. destruct o as [sender r cat fee fb | sender id amount fb | now]; cbn [step].
  - (* propose *)
    destruct (propose vr e w sender r cat fee fb) as [w'|] eqn:Ep; [|exact Hinv]. cbn [snd].
    apply propose_inv in Ep. destruct Ep as (_ & _ & dfee & paid & w1 & Hfee & Hpaid & Hpay & Hcase).
    pose proof (linv_pay _ _ _ _ _ Hpay Hinv) as Hinv1.
    pose proof (pay_inv _ _ _ _ _ Hpay) as (Hd1 & Hr1 & _).
    destruct Hinv1 as (Hnd & Hrec & Hpre).
    assert (Hfresh : ~ In (next_id (w_disps w)) (rcd_ids w1)).
    { intros Hin. destruct (Hrec _ Hin) as (d & Hf & _). rewrite Hd1, find_disp_next_id in Hf. discriminate. }
    destruct Hcase as [(Hfull & w2 & Hs & ->) | (Hpart & ->)].
    + apply slash_and_jail_inv in Hs. destruct Hs as (pct & s & st' & recd & _ & _ & _ & _ & Hr2 & _ & Hd2 & _).
      unfold linv, rcd_ids, with_disps. cbn [w_rcds w_disps]. rewrite Hr2, Hd2. repeat split.
      * apply insert_rcd_nodup; [exact Hnd | exact Hfresh].
      * intros id Hin. rewrite insert_rcd_ids in Hin. cbn [rc_id] in Hin. rewrite find_disp_app. destruct Hin as [->|Hin].
        -- rewrite Hd1, find_disp_next_id. cbn [dp_id]. rewrite Z.eqb_refl. eexists. split; [reflexivity|]. cbn. split; [exact Hfull | reflexivity].
        -- destruct (Hrec _ Hin) as (d & Hf & Hrest). rewrite Hf. exists d. split; [reflexivity | exact Hrest].
      * intros id d. rewrite find_disp_app. destruct (find_disp id (w_disps w1)) as [d0|] eqn:Ef.
        -- intros H. apply some_inj in H. subst d0. apply (Hpre id d Ef).
        -- cbn [dp_id]. destruct (_ =? id); [|discriminate]. intros H. apply some_inj in H. subst d. cbn. unfold ST_VOTING, ST_PREVOTE, ST_FAILED. lia.
    + unfold linv, rcd_ids, with_disps. cbn [w_rcds w_disps]. repeat split.
      * exact Hnd.
      * intros id Hin. rewrite find_disp_app. destruct (Hrec _ Hin) as (d & Hf & Hrest). rewrite Hf. exists d. split; [reflexivity | exact Hrest].
      * intros id d. rewrite find_disp_app. destruct (find_disp id (w_disps w1)) as [d0|] eqn:Ef.
        -- intros H. apply some_inj in H. subst d0. apply (Hpre id d Ef).
        -- cbn [dp_id]. destruct (_ =? id); [|discriminate]. intros H. apply some_inj in H. subst d. cbn. intros _. exact Hpart.
  - (* add fee *)
    destruct (add_fee vr e w sender id amount fb) as [w'|] eqn:Ea; [|exact Hinv]. cbn [snd].
    apply add_fee_inv in Ea. destruct Ea as (d & amt & w1 & Hfd & _ & _ & Hlt & _ & _ & Hpay & Hcase).
    pose proof (linv_pay _ _ _ _ _ Hpay Hinv) as Hinv1.
    pose proof (pay_inv _ _ _ _ _ Hpay) as (Hd1 & Hr1 & _).
    destruct Hinv1 as (Hnd & Hrec & Hpre).
    assert (Hid : dp_id d = id) by (apply find_disp_in in Hfd; tauto).
    assert (Hfresh : ~ In id (rcd_ids w1)).
    { intros Hin. destruct (Hrec _ Hin) as (d' & Hf & Heq & _). rewrite Hd1, Hfd in Hf. apply some_inj in Hf. subst d'. lia. }
    destruct Hcase as [(Hfull & w2 & Hs & ->) | (Hpart & ->)].
    + apply slash_and_jail_inv in Hs. destruct Hs as (pct & s & st' & recd & _ & _ & _ & _ & Hr2 & _ & Hd2 & _).
      unfold linv, rcd_ids, with_disps. cbn [w_rcds w_disps]. rewrite Hr2, Hd2, Hd1. repeat split.
      * apply insert_rcd_nodup; [exact Hnd | exact Hfresh].
      * intros i Hin. rewrite insert_rcd_ids in Hin. cbn [rc_id] in Hin. rewrite find_disp_set. cbn [dp_id]. destruct Hin as [->|Hin].
        -- rewrite Z.eqb_refl, Hfd. eexists. split; [reflexivity|]. cbn. split; [exact Hfull | reflexivity].
        -- destruct (id =? i) eqn:Ei; [apply Z.eqb_eq in Ei; subst i; contradiction|].
           destruct (Hrec _ Hin) as (d' & Hf & Hrest). rewrite Hd1 in Hf. exists d'. split; assumption.
      * intros i d'. rewrite find_disp_set. cbn [dp_id]. destruct (id =? i) eqn:Ei.
        -- apply Z.eqb_eq in Ei. subst i. rewrite Hfd. intros H. apply some_inj in H. subst d'. cbn. unfold ST_VOTING, ST_PREVOTE, ST_FAILED. lia.
        -- intros Hf. rewrite <- Hd1 in Hf. apply (Hpre i d' Hf).
    + unfold linv, rcd_ids, with_disps. cbn [w_rcds w_disps]. rewrite Hd1. repeat split.
      * exact Hnd.
      * intros i Hin. rewrite find_disp_set. cbn [dp_id]. destruct (id =? i) eqn:Ei; [apply Z.eqb_eq in Ei; subst i; contradiction|].
        destruct (Hrec _ Hin) as (d' & Hf & Hrest). rewrite Hd1 in Hf. exists d'. split; assumption.
      * intros i d'. rewrite find_disp_set. cbn [dp_id]. destruct (id =? i) eqn:Ei.
        -- apply Z.eqb_eq in Ei. subst i. rewrite Hfd. intros H. apply some_inj in H. subst d'. cbn. intros _. exact Hpart.
        -- intros Hf. rewrite <- Hd1 in Hf. apply (Hpre i d' Hf).
  - (* next block *)
    cbn [snd]. destruct Hinv as (Hnd & Hrec & Hpre). unfold linv, rcd_ids, begin_block. cbn [w_rcds w_disps]. repeat split.
    + exact Hnd.
    + intros id Hin. rewrite find_disp_expire. destruct (Hrec _ Hin) as (d & Hf & Hc & Hs). rewrite Hf.
      exists (expire now d). split; [reflexivity|]. unfold expire. rewrite Hs. replace (ST_VOTING =? ST_PREVOTE) with false by reflexivity.
      rewrite andb_false_r. split; assumption.
    + intros id d. rewrite find_disp_expire. destruct (find_disp id (w_disps w)) as [d0|] eqn:Ef; [|discriminate].
      intros H. apply some_inj in H. subst d. unfold expire.
      destruct (dp_open d0 && (dp_end d0 <? now) && (dp_status d0 =? ST_PREVOTE)) eqn:E.
      * cbn. intros _. apply andb_prop in E. destruct E as [_ E]. apply Z.eqb_eq in E. apply (Hpre id d0 Ef). left. exact E.
      * apply (Hpre id d0 Ef).
Qed.

Lemma run_linv vr e ops : forall w, linv w -> linv (run vr e w ops).
Proof.
  unfold run. induction ops as [|o ops IH]; intros w H; cbn [fold_left]; [exact H|].
  apply IH. apply step_linv. exact H.
Qed.

Lemma linv_fresh st reps aggs bond liq now : linv (W st reps aggs [] [] bond liq now).
Proof. unfold linv, rcd_ids. cbn. repeat split; [constructor | intros id [] | intros id d H; discriminate]. Qed.

(* single steps: what is rejected *)
Lemma add_fee_complete_rejected vr e w sender id amount fb d :
  find_disp id (w_disps w) = Some d -> dp_slash d <= dp_fee_total d -> add_fee vr e w sender id amount fb = None.
Proof.
  intros Hf Hc. destruct (add_fee vr e w sender id amount fb) as [w'|] eqn:E; [|reflexivity].
  apply add_fee_inv in E. destruct E as (d' & ? & ? & Hf' & _ & _ & Hlt & _). rewrite Hf in Hf'. apply some_inj in Hf'. subst d'. lia.
Qed.

Lemma add_fee_late_rejected vr e w sender id amount fb d :
  find_disp id (w_disps w) = Some d -> dp_end d < w_now w -> add_fee vr e w sender id amount fb = None.
Proof.
  intros Hf Hc. destruct (add_fee vr e w sender id amount fb) as [w'|] eqn:E; [|reflexivity].
  apply add_fee_inv in E. destruct E as (d' & ? & ? & Hf' & _ & Hle & _). rewrite Hf in Hf'. apply some_inj in Hf'. subst d'. lia.
Qed.

Lemma propose_repeat_rejected vr e w sender r cat fee fb d :
  find_disp_report r cat (w_disps w) = Some d -> propose vr e w sender r cat fee fb = None.
Proof.
  intros Hf. destruct (propose vr e w sender r cat fee fb) as [w'|] eqn:E; [|reflexivity].
  apply propose_inv in E. destruct E as (Hn & _). rewrite Hf in Hn. discriminate.
Qed.

Lemma expire_spec now d :
  dp_open d = true -> dp_status d = ST_PREVOTE -> dp_end d < now ->
  dp_status (expire now d) = ST_FAILED /\ dp_open (expire now d) = false /\ dp_fee_total (expire now d) = dp_fee_total d.
Proof.
  intros Ho Hs He. unfold expire. rewrite Ho, Hs. apply Z.ltb_lt in He. rewrite He. cbn. repeat split; reflexivity.
Qed.

Lemma expire_not_yet now d : now <= dp_end d -> expire now d = d.
Proof. intros H. unfold expire. apply Z.ltb_ge in H. rewrite H, andb_false_r. reflexivity. Qed.

(* ---- what an empty issue list says ---------------------------------------------------------------------- *)
Lemma escrow_spec_sound st0 st1 origins amt recd rtotal fe fp :
  escrow_spec st0 st1 origins amt recd rtotal fe fp = [] ->
  rtotal = amt /\ sum_amt recd = amt /\
  (forall o, In o recd -> 0 < o_amt o /\ In (o_del o) (backers origins)) /\
  s_escrow st1 - s_escrow st0 = amt + fe /\
  (s_bonded st0 + s_notbonded st0) - (s_bonded st1 + s_notbonded st1) = amt + fp /\
  (forall d, In d (backers origins) ->
     Z.abs (holdings st0 d - holdings st1 d - amt_of d recd) <= inexact_dels st0 d /\
     Z.abs ((holdings st0 d - holdings st1 d) * sum_amt origins - amt_of d origins * amt)
       <= (count_of d origins + (if d =? last_del origins then Z.of_nat (List.length origins) else 0) + inexact_dels st0 d) * sum_amt origins).
Proof.
  unfold escrow_spec. intros H.
  repeat (apply app_nil_both in H; let H1 := fresh "S" in destruct H as [H1 H]).
  apply spec_if_nil in S, S0, S1, S2, S3, S4, S5, S6.
  apply Z.eqb_eq in S, S0, S3, S4.
  rewrite forallb_forall in S1, S2, S5, S6.
  repeat split; try assumption.
  - specialize (S1 o H0). apply Z.ltb_lt in S1. exact S1.
  - specialize (S2 o H0). apply existsb_exists in S2. destruct S2 as (x & Hx & Ex). apply Z.eqb_eq in Ex. subst x. exact Hx.
  - specialize (S5 d H0). apply Z.leb_le in S5. exact S5.
  - specialize (S6 d H0). apply Z.leb_le in S6. exact S6.
Qed.

Lemma escrow_case_sound reds st0 origins power amt st1 recd rtotal :
  c11_check (EscrowCase reds st0 origins power amt true st1 recd rtotal) = [] ->
  Z.quot (sum_amt origins) PR = power /\ escrow_spec st0 st1 origins amt recd rtotal 0 0 = [].
Proof.
  cbn [c11_check]. unfold escrow_case_spec. intros H.
  apply app_nil_both in H. destruct H as [H _]. apply app_nil_both in H. destruct H as [H1 H2].
  apply spec_if_nil in H1. apply Z.eqb_eq in H1. split; assumption.
Qed.

(* with every validator at exchange rate one the loss of a backer is exactly what is recorded for it *)
Lemma inexact_dels_rate_one st d :
  (forall v, In v (s_vals st) -> v_shares v = v_tokens v * P) -> inexact_dels st d = 0.
Proof.
  intros H. unfold inexact_dels.
  replace (filter _ (s_dels st)) with (@nil dlg); [reflexivity|]. symmetry.
  induction (s_dels st) as [|x t IH]; [reflexivity|]. cbn [filter].
  destruct (d_del x =? d); cbn [andb]; [|exact IH].
  destruct (find_val (d_val x) (s_vals st)) as [v|] eqn:E; [|exact IH].
  assert (Hin : In v (s_vals st)).
  { clear -E. induction (s_vals st) as [|y l IHl]; [discriminate|]. cbn [find_val] in E.
    destruct (v_id y =? d_val x); [injection E as <-; left; reflexivity | right; apply IHl; exact E]. }
  rewrite (H v Hin), Z.eqb_refl. cbn [negb]. exact IH.
Qed.

(* ---- witnesses of the defects of the code as found ---------------------------------------------------- *)
Definition wit_vals := [Val 0 5010000000 (sh 5010000000 0) 3; Val 1 5005000000 (sh 5005000000 0) 3; Val 2 5005000000 (sh 5005000000 0) 3].

(* F13: 10 TRB, 4 + 4 undelegated in two blocks, major dispute *)
Definition wit13 : stk := Stk [Val 0 5002000000 (sh 5002000000 0) 3] [Dlg 0 0 (sh 5000000000 0); Dlg 3 0 (sh 2000000 0)]
                              [Ubd 3 0 [4000000; 4000000]] 5002000000 8000000 0.
Lemma wit13_found : escrow as_found [] wit13 [Org 3 0 10000000] 10 10000000 = None.
Proof. vm_compute. reflexivity. Qed.
Lemma wit13_repaired :
  exists st' rec, escrow repaired [] wit13 [Org 3 0 10000000] 10 10000000 = Some (st', rec) /\
                  s_escrow st' = 10000000 /\ holdings st' 3 = 0 /\ rec = [Org 3 0 10000000].
Proof. eexists. eexists. split; [vm_compute; reflexivity|]. vm_compute. repeat split; reflexivity. Qed.

(* F34: the backing validator has completed unbonding *)
Definition wit34 : stk := Stk [Val 0 5010000000 (sh 5010000000 0) 1] [Dlg 0 0 (sh 5000000000 0); Dlg 3 0 (sh 10000000 0)] [] 0 5010000000 0.
Lemma wit34_found : escrow as_found [] wit34 [Org 3 0 10000000] 10 100000 = None.
Proof. vm_compute. reflexivity. Qed.
Lemma wit34_repaired :
  exists st' rec, escrow repaired [] wit34 [Org 3 0 10000000] 10 100000 = Some (st', rec) /\
                  s_escrow st' = 100000 /\ holdings wit34 3 - holdings st' 3 = 100000.
Proof. eexists. eexists. split; [vm_compute; reflexivity|]. vm_compute. split; reflexivity. Qed.

(* F38: 10 TRB redelegated 5 + 5 to two validators, major dispute *)
Definition wit38 : stk := Stk wit_vals [Dlg 3 1 (sh 5000000 0); Dlg 3 2 (sh 5000000 0)] [] 15020000000 0 0.
Definition wit38_reds := [Red 0 3 1; Red 0 3 2].
Lemma wit38_found :
  exists st' rec, escrow as_found wit38_reds wit38 [Org 3 0 10000000] 10 10000000 = Some (st', rec) /\
                  s_escrow st' = 5000000 /\ sum_amt rec = 10000000 /\ holdings st' 3 = 5000000.
Proof. eexists. eexists. split; [vm_compute; reflexivity|]. vm_compute. repeat split; reflexivity. Qed.
Lemma wit38_repaired :
  exists st' rec, escrow repaired wit38_reds wit38 [Org 3 0 10000000] 10 10000000 = Some (st', rec) /\
                  s_escrow st' = 10000000 /\ sum_amt rec = 10000000 /\ holdings st' 3 = 0.
Proof. eexists. eexists. split; [vm_compute; reflexivity|]. vm_compute. repeat split; reflexivity. Qed.

(* F39: 10.5 TRB with one validator and 100 loya with another: power 10, minor dispute *)
Definition wit39 : stk := Stk wit_vals [Dlg 3 0 (sh 10500000 0); Dlg 3 1 (sh 100 0)] [] 15020000000 0 0.
Definition wit39_origins := [Org 3 0 10500000; Org 3 1 100].
Lemma wit39_found :
  Z.quot (sum_amt wit39_origins) PR = 10 /\ shares as_found 10 500000 wit39_origins = [525000; -25000] /\
  escrow as_found [] wit39 wit39_origins 10 500000 = None.
Proof. vm_compute. repeat split; reflexivity. Qed.
Lemma wit39_repaired :
  exists st' rec, escrow repaired [] wit39 wit39_origins 10 500000 = Some (st', rec) /\
                  s_escrow st' = 500000 /\ shares repaired 10 500000 wit39_origins = [499995; 5].
Proof. eexists. eexists. split; [vm_compute; reflexivity|]. vm_compute. split; reflexivity. Qed.
(* the same defect without a failure: 1 499 999 of 10 999 999 loya pays 15 % of a major slash *)
Lemma wit39_proportion :
  shares as_found 10 10000000 [Org 4 1 1499999; Org 3 0 9500000] = [1499999; 8500001] /\
  shares repaired 10 10000000 [Org 4 1 1499999; Org 3 0 9500000] = [1363636; 8636364].
Proof. vm_compute. split; reflexivity. Qed.

(* ---- F15 repaired: rounding the shares up ------------------------------------------------------------- *)
(* nonlinear facts kept out of lia's way *)
Lemma quot_floor_bounds x y : 0 <= x -> 0 < y -> Z.quot x y * y <= x < Z.quot x y * y + y.
Proof.
  intros Hx Hy. rewrite Z.quot_div_nonneg by lia.
  pose proof (Z.div_mod x y ltac:(lia)) as H. pose proof (Z.mod_pos_bound x y Hy) as Hm. lia.
Qed.

Lemma trunc_window k c : 0 <= k -> k * P <= c < k * P + P -> truncate_int c = k.
Proof.
  intros Hk Hc. unfold truncate_int. rewrite Z.quot_div_nonneg by (unfold P in *; lia).
  symmetry. apply Z.div_unique with (r := c - k * P); unfold P in *; lia.
Qed.

(* what [x] raw shares-times-tokens are worth, as a whole number of tokens: k, whenever x*P*P/S lies in [k*P*P, k*P*P + P) *)
Lemma worth_window S x k :
  0 < S -> 0 <= k -> S * k <= x -> x * P < S * k * P + S ->
  truncate_int (dec_quo x S) = k.
Proof.
  intros HS Hk Hlo Hhi. unfold dec_quo.
  assert (Hx : 0 <= x) by nia.
  pose proof (quot_floor_bounds (x * P * P) S ltac:(unfold P; nia) HS) as [Hq1 Hq2].
  set (y := Z.quot (x * P * P) S) in *.
  assert (Hy1 : k * P * P <= y).
  { assert (S * (k * P * P) <= x * P * P) by (unfold P; nia).
    assert (S * (k * P * P) < y * S + S) by lia.
    assert (S * (k * P * P) < S * (y + 1)) by lia. apply Z.mul_lt_mono_pos_l in H1; lia. }
  assert (Hy2 : y < k * P * P + P).
  { assert (y * S <= x * P * P) by lia.
    assert (x * P * P < (S * k * P + S) * P) by (apply Z.mul_lt_mono_pos_r; [reflexivity|exact Hhi]).
    assert (y * S < S * (k * P * P + P)) by lia.
    rewrite (Z.mul_comm y S) in H1. apply Z.mul_lt_mono_pos_l in H1; lia. }
  pose proof (chop_round_err y) as He.
  apply trunc_window; [exact Hk|]. unfold P in *. lia.
Qed.

(* F15 repaired: the smallest number of shares that is worth the whole amount is worth exactly the amount, for every
   exchange rate of at most one token per share *)
Lemma shares_up_worth_amount v a s t :
  0 < v_tokens v -> v_tokens v * P <= v_shares v -> 0 <= a ->
  shares_from_tokens v a = Some s ->
  tokens_from_shares v (if s * v_tokens v <? v_shares v * a then s + 1 else s) = Some t ->
  truncate_int t = a.
Proof.
  intros HT Hrate Ha Hs Ht. unfold shares_from_tokens in Hs. unfold tokens_from_shares in Ht.
  assert (HS : 0 < v_shares v) by (unfold P in *; lia).
  destruct (v_tokens v =? 0) eqn:E0; [apply Z.eqb_eq in E0; lia|].
  destruct (v_shares v =? 0) eqn:E1; [apply Z.eqb_eq in E1; lia|].
  injection Hs as <-. injection Ht as <-.
  set (S := v_shares v) in *. set (T := v_tokens v) in *.
  pose proof (quot_floor_bounds (S * a) T ltac:(nia) HT) as [Hq1 Hq2].
  set (s := Z.quot (S * a) T) in *.
  apply worth_window; try assumption.
  - destruct (s * T <? S * a) eqn:E; [apply Z.ltb_lt in E | apply Z.ltb_ge in E]; lia.
  - destruct (s * T <? S * a) eqn:E; [apply Z.ltb_lt in E | apply Z.ltb_ge in E].
    + assert ((s + 1) * T <= S * a + T - 1) by lia.
      assert ((s + 1) * T * P <= (S * a + T - 1) * P) by (apply Z.mul_le_mono_nonneg_r; [unfold P; lia|lia]).
      unfold P in *. lia.
    + assert (s * T = S * a) by lia. rewrite H. unfold P in *. lia.
Qed.

(* F15: exchange rate 2/3 after an infraction slash; 100000 loya asked, 99999 arrive *)
Definition wit15 : stk := Stk [Val 0 6666673 (sh 10000000 0) 3] [Dlg 3 0 (sh 10000000 0)] [] 6666673 0 0.
Lemma wit15_found :
  exists st' rec, escrow as_found [] wit15 [Org 3 0 6000000] 6 100000 = Some (st', rec) /\
                  s_escrow st' = 99999 /\ sum_amt rec = 100000.
Proof. eexists. eexists. split; [vm_compute; reflexivity|]. vm_compute. repeat split; reflexivity. Qed.
Lemma wit15_repaired :
  exists st' rec, escrow repaired [] wit15 [Org 3 0 6000000] 6 100000 = Some (st', rec) /\
                  escrow current [] wit15 [Org 3 0 6000000] 6 100000 = Some (st', rec) /\
                  s_escrow st' = 100000 /\ sum_amt rec = 100000.
Proof. eexists. eexists. split; [vm_compute; reflexivity|]. vm_compute. repeat split; reflexivity. Qed.

(* F18: the report was submitted with value 1000 and power 10; the dispute states value 77 and power 30 *)
Definition wit18_real := Rep 3 10 0 1000 1700000000000000000 5 true 0.
Definition wit18_fake := Rep 3 30 0 77 1700000000000000000 5 true 0.
Definition wit18_env := Env [] [Snp 0 3 5 [Org 3 0 10000000]] [wit18_real].
Definition wit18_world := W (Stk wit_vals [Dlg 3 0 (sh 10000000 0)] [] 15020000000 0 0) [Rps 3 false 0] [Agg 0 5 3 false] [] [] [] [(7, 100000000)] 1700000100000000000.
Lemma wit18_found :
  existsb (rep_eqb wit18_fake) (e_stored wit18_env) = false /\
  exists w', propose as_found wit18_env wit18_world 7 wit18_fake 2 1500000 false = Some w' /\
             holdings (w_stk wit18_world) 3 - holdings (w_stk w') 3 = 1500000 /\
             map rc_total (w_rcds w') = [1500000] /\ map ag_flagged (w_aggs w') = [true].
Proof. split; [vm_compute; reflexivity|]. eexists. split; [vm_compute; reflexivity|]. vm_compute. repeat split; reflexivity. Qed.

(* non-vacuity: a plain minor dispute of a genuine report, paid in two parts *)
Definition ex_ops := [OPropose 7 wit18_real 2 200000 false; OBegin 1700040000000000000; OAddFee 7 1 400000 false; OAddFee 7 1 1 false;
                      OPropose 7 wit18_real 2 500000 false].
Lemma ex_history :
  let w := run as_found wit18_env wit18_world ex_ops in
  map rc_total (w_rcds w) = [500000] /\ s_escrow (w_stk w) = 1000000 /\
  holdings (w_stk wit18_world) 3 - holdings (w_stk w) 3 = 500000 /\
  w_reps w = [Rps 3 true (1700040000000000000 + 600 * 1000000000)] /\
  map (fun o => fst (step as_found wit18_env (run as_found wit18_env wit18_world (firstn 3 ex_ops)) o)) (skipn 3 ex_ops) = [false; false].
Proof. vm_compute. repeat split; reflexivity. Qed.

(* an underfunded dispute: after one day it has failed and nobody can complete it *)
Definition ex_ops2 := [OPropose 7 wit18_real 3 9999999 false; OBegin (1700000100000000000 + DAY + 1); OAddFee 7 1 1 false].
Lemma ex_expiry :
  let w := run as_found wit18_env wit18_world ex_ops2 in
  map dp_status (w_disps w) = [ST_FAILED] /\ map dp_open (w_disps w) = [false] /\ w_rcds w = [] /\
  holdings (w_stk w) 3 = holdings (w_stk wit18_world) 3.
Proof. vm_compute. repeat split; reflexivity. Qed.

Lemma run_once vr e ops w :
  linv w ->
  let w' := run vr e w ops in
  NoDup (map rc_id (w_rcds w')) /\
  (forall id, In id (map rc_id (w_rcds w')) ->
     exists d, find_disp id (w_disps w') = Some d /\ dp_fee_total d = dp_slash d /\ dp_status d = ST_VOTING) /\
  (forall id d, find_disp id (w_disps w') = Some d -> dp_status d = ST_PREVOTE \/ dp_status d = ST_FAILED ->
     dp_fee_total d < dp_slash d /\ ~ In id (map rc_id (w_rcds w'))).
Proof.
  intros H. cbv zeta. destruct (run_linv vr e ops w H) as (A & B & C). split; [exact A|]. split; [exact B|].
  intros id d Hf Hs. pose proof (C id d Hf Hs) as Hlt. split; [exact Hlt|].
  intros Hin. destruct (B id Hin) as (d' & Hf' & Heq & _). rewrite Hf in Hf'. apply some_inj in Hf'. subst d'. lia.
Qed.
