(* C15 — proofs about Model/BridgeEnc.v *)
From Coq Require Import ZArith List Bool String Ascii Lia.
From Verif Require Import Base.Harness Model.BridgeEnc.
Import ListNotations.
Open Scope Z_scope.

(* ---- big-endian words ------------------------------------------------------------------------ *)
Lemma be_length n x : List.length (be n x) = n.
Proof. revert x; induction n as [|k IH]; intros x; cbn [be]; [reflexivity|]. rewrite app_length, IH. cbn. lia. Qed.

Lemma blen_be n x : blen (be n x) = Z.of_nat n.
Proof. unfold blen. rewrite be_length. reflexivity. Qed.

Lemma blen_word x : blen (word x) = 32.
Proof. unfold word. rewrite blen_be. reflexivity. Qed.

Lemma blen_app a b : blen (a ++ b) = blen a + blen b.
Proof. unfold blen. rewrite app_length. lia. Qed.

Lemma blen_nonneg a : 0 <= blen a.
Proof. unfold blen. lia. Qed.

Lemma fold_left_app_be l b acc :
  fold_left (fun a c => a * 256 + c) (l ++ [b]) acc = fold_left (fun a c => a * 256 + c) l acc * 256 + b.
Proof. rewrite fold_left_app. reflexivity. Qed.

Lemma of_be_app1 l b : of_be (l ++ [b]) = of_be l * 256 + b.
Proof. unfold of_be. apply fold_left_app_be. Qed.

Lemma of_be_be n : forall x, 0 <= x < 256 ^ Z.of_nat n -> of_be (be n x) = x.
Proof.
  induction n as [|k IH]; intros x Hx.
  - cbn in *. lia.
  - cbn [be]. rewrite of_be_app1. rewrite IH.
    + pose proof (Z.div_mod x 256 ltac:(lia)). lia.
    + rewrite Nat2Z.inj_succ, Z.pow_succ_r in Hx by lia.
      split; [apply Z.div_pos; lia|]. apply Z.div_lt_upper_bound; lia.
Qed.

Lemma bytes_ok_app a b : bytes_ok (a ++ b) = bytes_ok a && bytes_ok b.
Proof. unfold bytes_ok. apply forallb_app. Qed.

Lemma byte_ok_range b : byte_ok b = true -> 0 <= b < 256.
Proof. unfold byte_ok. intros H. apply andb_prop in H. destruct H as [H1 H2]. apply Z.leb_le in H1. apply Z.ltb_lt in H2. lia. Qed.

(* induction from the right end *)
Lemma of_be_bound l : bytes_ok l = true -> 0 <= of_be l < 256 ^ Z.of_nat (List.length l).
Proof.
  induction l as [|b l IH] using rev_ind; intros Hok.
  - cbn. lia.
  - rewrite bytes_ok_app in Hok. apply andb_prop in Hok. destruct Hok as [Hl Hb].
    cbn [bytes_ok forallb] in Hb. rewrite andb_true_r in Hb. apply byte_ok_range in Hb.
    specialize (IH Hl). rewrite of_be_app1, app_length. cbn [List.length].
    replace (Z.of_nat (List.length l + 1)) with (Z.succ (Z.of_nat (List.length l))) by lia.
    rewrite Z.pow_succ_r by lia. lia.
Qed.

Lemma be_of_be l : bytes_ok l = true -> be (List.length l) (of_be l) = l.
Proof.
  induction l as [|b l IH] using rev_ind; intros Hok.
  - reflexivity.
  - rewrite bytes_ok_app in Hok. apply andb_prop in Hok. destruct Hok as [Hl Hb].
    cbn [bytes_ok forallb] in Hb. rewrite andb_true_r in Hb. apply byte_ok_range in Hb.
    rewrite app_length. cbn [List.length]. replace (List.length l + 1)%nat with (S (List.length l)) by lia.
    cbn [be]. rewrite of_be_app1.
    replace ((of_be l * 256 + b) / 256) with (of_be l) by (apply Z.div_unique with b; lia).
    replace ((of_be l * 256 + b) mod 256) with b by (apply Z.mod_unique with (of_be l); lia).
    rewrite IH by exact Hl. reflexivity.
Qed.

Lemma zeros_app a b : zeros a ++ zeros b = zeros (a + b).
Proof. unfold zeros. rewrite <- repeat_app. reflexivity. Qed.

Lemma zeros_length n : List.length (zeros n) = n.
Proof. apply repeat_length. Qed.

Lemma be_zero n : be n 0 = zeros n.
Proof.
  induction n as [|k IH]; [reflexivity|]. cbn [be]. rewrite Z.div_0_l, Z.mod_0_l by lia. rewrite IH.
  unfold zeros. change [0] with (repeat 0 1). rewrite <- repeat_app. f_equal. lia.
Qed.

Lemma be_split (k n : nat) x : 0 <= x < 256 ^ Z.of_nat n -> be (k + n) x = zeros k ++ be n x.
Proof.
  revert x. induction n as [|m IH]; intros x Hx.
  - cbn in Hx. assert (x = 0) by lia. subst. rewrite Nat.add_0_r. cbn [be]. rewrite app_nil_r. apply be_zero.
  - rewrite Nat.add_succ_r. cbn [be]. rewrite IH.
    + rewrite app_assoc. reflexivity.
    + rewrite Nat2Z.inj_succ, Z.pow_succ_r in Hx by lia.
      split; [apply Z.div_pos; lia|]. apply Z.div_lt_upper_bound; lia.
Qed.

Lemma word_small x : 0 <= x < 2 ^ 64 -> word x = zeros 24 ++ be 8 x.
Proof.
  intros Hx. unfold word. change 32%nat with (24 + 8)%nat.
  apply be_split. change (256 ^ Z.of_nat 8) with (2 ^ 64). exact Hx.
Qed.

(* a 20-byte address, left-padded, is the 32-byte word of the number it denotes *)
Lemma address_word a : List.length a = 20%nat -> bytes_ok a = true -> zeros 12 ++ a = word (of_be a).
Proof.
  intros Hlen Hok. unfold word. change 32%nat with (12 + 20)%nat.
  rewrite be_split.
  - f_equal. rewrite <- Hlen. symmetry. apply be_of_be. exact Hok.
  - pose proof (of_be_bound a Hok) as Hb. rewrite Hlen in Hb. exact Hb.
Qed.

(* ---- go-ethereum's Pack loop computes the ABI specification's head/tail formula -------------- *)
Lemma geth_fold args : forall ret var off,
  fold_left geth_step args (ret, var, off) =
  (ret ++ spec_heads args off, var ++ spec_tails args, off + blen (spec_tails args)).
Proof.
  induction args as [|a r IH]; intros ret var off.
  - cbn. rewrite !app_nil_r. f_equal. unfold blen. cbn. lia.
  - destruct a as [w|tl]; cbn [fold_left geth_step spec_heads spec_tails].
    + rewrite IH. rewrite <- app_assoc. reflexivity.
    + rewrite IH. rewrite <- !app_assoc. rewrite blen_app. f_equal. lia.
Qed.

Lemma geth_pack_spec args : geth_pack args = abi_encode args.
Proof.
  unfold geth_pack, abi_encode. rewrite geth_fold. cbn [app]. reflexivity.
Qed.

(* ---- element encodings ----------------------------------------------------------------------- *)
Lemma pad_arith (l : nat) : ((l + 31) / 32 * 32 - l = (32 - l mod 32) mod 32)%nat.
Proof.
  pose proof (Nat.div_mod l 32 ltac:(lia)) as Hd.
  pose proof (Nat.mod_upper_bound l 32 ltac:(lia)) as Hm.
  destruct (Nat.eq_dec (l mod 32) 0) as [E|E].
  - rewrite E in *. rewrite Nat.sub_0_r, Nat.mod_same by lia.
    assert (Hq : ((l + 31) / 32 = l / 32)%nat).
    { symmetry. apply Nat.div_unique with 31%nat; lia. }
    rewrite Hq. lia.
  - rewrite (Nat.mod_small (32 - l mod 32) 32) by lia.
    assert (Hq : ((l + 31) / 32 = l / 32 + 1)%nat).
    { symmetry. apply Nat.div_unique with (l mod 32 - 1)%nat; lia. }
    rewrite Hq. lia.
Qed.

Lemma geth_bytes_slice_spec b : geth_pack_bytes_slice b = enc_dyn_bytes b.
Proof. unfold geth_pack_bytes_slice, enc_dyn_bytes, pad32, geth_num, word. rewrite pad_arith. reflexivity. Qed.

Lemma firstn_all_len {A} (l : list A) n : List.length l = n -> firstn n l = l.
Proof. intros <-. apply firstn_all. Qed.

Lemma copy32_id b : List.length b = 32%nat -> copy32 b = b.
Proof. intros H. unfold copy32. rewrite (firstn_all_len b 32 H), H. cbn. apply app_nil_r. Qed.

Lemma bytes_to_address_id a : List.length a = 20%nat -> bytes_to_address a = a.
Proof. intros H. unfold bytes_to_address. rewrite H. cbn [Nat.sub skipn]. rewrite H. reflexivity. Qed.

Lemma geth_address_spec a : List.length a = 20%nat -> bytes_ok a = true -> geth_address a = word (of_be a).
Proof.
  intros Hl Hok. unfold geth_address, left_pad32. rewrite bytes_to_address_id by exact Hl. rewrite Hl.
  change (32 - 20)%nat with 12%nat. apply address_word; assumption.
Qed.

Lemma checkpoint_domain_eq : copy32 (str_bytes "checkpoint") = word VALIDATOR_SET_HASH_DOMAIN_SEPARATOR.
Proof. vm_compute. reflexivity. Qed.

Lemma attest_domain_eq :
  option_map copy32 (hex_decode go_attest_domain_hex) = Some (word NEW_REPORT_ATTESTATION_DOMAIN_SEPARATOR).
Proof. vm_compute. reflexivity. Qed.

(* ---- validator set --------------------------------------------------------------------------- *)
Lemma fold_left_concat {A} (f : A -> bytes) l acc :
  fold_left (fun a v => a ++ f v) l acc = acc ++ List.concat (map f l).
Proof.
  revert acc. induction l as [|x t IH]; intros acc; cbn [fold_left map List.concat].
  - rewrite app_nil_r. reflexivity.
  - rewrite IH, app_assoc. reflexivity.
Qed.

Lemma go_pack_validator_spec v :
  go_validator_ok v = true -> go_pack_validator v = enc_validator (to_sol_validator v).
Proof.
  unfold go_validator_ok. intros H.
  apply andb_prop in H. destruct H as [H Hhi]. apply andb_prop in H. destruct H as [H Hlo].
  apply andb_prop in H. destruct H as [Hlen Hok]. apply Nat.eqb_eq in Hlen.
  unfold go_pack_validator. rewrite geth_pack_spec. unfold abi_encode. cbn [spec_heads spec_tails].
  rewrite !app_nil_r. unfold enc_validator, to_sol_validator. cbn [sv_addr sv_power].
  rewrite geth_address_spec by assumption. reflexivity.
Qed.

Lemma concat_map_ext_in {A} (f g : A -> bytes) l :
  (forall x, In x l -> f x = g x) -> List.concat (map f l) = List.concat (map g l).
Proof.
  induction l as [|x t IH]; intros H; [reflexivity|]. cbn [map List.concat].
  rewrite (H x (or_introl eq_refl)), IH; [reflexivity|]. intros y Hy. apply H. right. exact Hy.
Qed.

Theorem valset_bytes_eq vs :
  Z.of_nat (List.length vs) < 2 ^ 64 ->
  forallb go_validator_ok vs = true ->
  go_valset_bytes vs = sol_valset_bytes (map to_sol_validator vs).
Proof.
  intros Hlen Hok. unfold go_valset_bytes, sol_valset_bytes, abi_encode, enc_array_static.
  cbn [spec_heads spec_tails heads_len fold_right head_len].
  rewrite (fold_left_concat go_pack_validator). cbn [app].
  rewrite map_length, map_map.
  rewrite (word_small (32 + 0)) by lia. rewrite (word_small (Z.of_nat (List.length vs))) by lia.
  rewrite !app_nil_r. rewrite <- !app_assoc. do 4 f_equal.
  apply concat_map_ext_in. intros v Hv. apply go_pack_validator_spec.
  rewrite forallb_forall in Hok. apply Hok. exact Hv.
Qed.

(* ---- checkpoint, attestation digest, query data ------------------------------------------------ *)
Theorem checkpoint_preimage_eq thr ts hash :
  List.length hash = 32%nat -> go_checkpoint_preimage thr ts hash = sol_domain_separate thr ts hash.
Proof.
  intros Hh. unfold go_checkpoint_preimage, sol_domain_separate.
  rewrite geth_pack_spec, checkpoint_domain_eq, (copy32_id hash Hh). reflexivity.
Qed.

Theorem attest_preimage_eq qid value v ts power prev next cp ats :
  List.length qid = 32%nat -> List.length cp = 32%nat -> hex_decode value = Some v ->
  go_attest_preimage qid value ts power prev next cp ats =
  Some (sol_data_digest_preimage qid v ts power prev next cp ats).
Proof.
  intros Hq Hc Hv. unfold go_attest_preimage, sol_data_digest_preimage.
  pose proof attest_domain_eq as Hd. destruct (hex_decode go_attest_domain_hex) as [dom|]; [|discriminate Hd].
  cbn [option_map] in Hd. injection Hd as Hd. rewrite Hv, Hd, geth_pack_spec, geth_bytes_slice_spec.
  rewrite (copy32_id qid Hq), (copy32_id cp Hc). reflexivity.
Qed.

Theorem attest_error_iff qid value ts power prev next cp ats :
  go_attest_preimage qid value ts power prev next cp ats = None <-> hex_decode value = None.
Proof.
  unfold go_attest_preimage. pose proof attest_domain_eq as Hd.
  destruct (hex_decode go_attest_domain_hex) as [dom|]; [|discriminate Hd].
  destruct (hex_decode value); split; intros E; try discriminate E; reflexivity.
Qed.

Theorem query_data_eq to_layer id : go_query_data to_layer id = sol_query_data to_layer id.
Proof.
  unfold go_query_data, sol_query_data. rewrite !geth_pack_spec, !geth_bytes_slice_spec.
  destruct to_layer; reflexivity.
Qed.

(* ---- withdrawal report value -------------------------------------------------------------------- *)
Lemma bytes_ok_zeros n : bytes_ok (zeros n) = true.
Proof. induction n as [|k IH]; [reflexivity|]. cbn. exact IH. Qed.

Lemma bytes_ok_skipn n l : bytes_ok l = true -> bytes_ok (skipn n l) = true.
Proof.
  revert l. induction n as [|k IH]; intros l H; [exact H|]. destruct l as [|x t]; [reflexivity|].
  cbn [skipn]. apply IH. cbn in H. apply andb_prop in H. apply H.
Qed.

Lemma bytes_to_address_length b : List.length (bytes_to_address b) = 20%nat.
Proof. unfold bytes_to_address. rewrite app_length, zeros_length, skipn_length. lia. Qed.

Lemma bytes_to_address_ok b : bytes_ok b = true -> bytes_ok (bytes_to_address b) = true.
Proof.
  intros H. unfold bytes_to_address. rewrite bytes_ok_app, bytes_ok_zeros. cbn [andb].
  apply bytes_ok_skipn. exact H.
Qed.

Lemma geth_address_any raw : bytes_ok raw = true -> geth_address raw = word (of_be (bytes_to_address raw)).
Proof.
  intros H. unfold geth_address, left_pad32. rewrite bytes_to_address_length.
  change (32 - 20)%nat with 12%nat. apply address_word.
  - apply bytes_to_address_length.
  - apply bytes_to_address_ok. exact H.
Qed.

Definition sol_withdraw_value (recipient : Z) (sender : bytes) (amount tip : Z) : bytes :=
  abi_encode [Static (word recipient); Dynamic (enc_dyn_bytes sender); Static (word amount); Static (word tip)].

Theorem withdraw_value_eq amount sender recipient :
  bytes_ok recipient = true ->
  go_withdraw_value amount sender recipient =
  sol_withdraw_value (of_be (bytes_to_address recipient)) sender amount 0.
Proof.
  intros H. unfold go_withdraw_value, sol_withdraw_value.
  rewrite geth_pack_spec, geth_bytes_slice_spec, (geth_address_any recipient H). reflexivity.
Qed.

Lemma address_number_range raw : bytes_ok raw = true -> 0 <= of_be (bytes_to_address raw) < 2 ^ 160.
Proof.
  intros H. pose proof (of_be_bound _ (bytes_to_address_ok raw H)) as Hb.
  rewrite bytes_to_address_length in Hb. exact Hb.
Qed.

Lemma firstn_app_exact {A} (p r : list A) n : List.length p = n -> firstn n (p ++ r) = p.
Proof. intros <-. rewrite firstn_app, Nat.sub_diag, firstn_all. cbn. apply app_nil_r. Qed.

Lemma skipn_app_exact {A} (p r : list A) n : List.length p = n -> skipn n (p ++ r) = r.
Proof. intros <-. rewrite skipn_app, Nat.sub_diag, skipn_all. reflexivity. Qed.

Lemma word_length x : List.length (word x) = 32%nat.
Proof. apply be_length. Qed.

Lemma of_be_word x : 0 <= x < 2 ^ 256 -> of_be (word x) = x.
Proof. intros H. apply of_be_be. change (256 ^ Z.of_nat 32) with (2 ^ 256). exact H. Qed.

Lemma word_at_head w r : List.length w = 32%nat -> word_at (w ++ r) 0 = of_be w.
Proof. intros H. unfold word_at. cbn [Z.to_nat skipn]. rewrite (firstn_app_exact w r 32 H). reflexivity. Qed.

Lemma word_at_skip p r i : Z.of_nat (List.length p) = i -> word_at (p ++ r) i = word_at r 0.
Proof.
  intros H. unfold word_at. rewrite (skipn_app_exact p r (Z.to_nat i)) by lia. reflexivity.
Qed.

Theorem withdraw_value_decodes a s amt tip :
  0 <= a < 2 ^ 160 -> 0 <= amt < 2 ^ 256 -> 0 <= tip < 2 ^ 256 -> blen s < 2 ^ 256 ->
  sol_decode_withdraw_value (sol_withdraw_value a s amt tip) = Some (WF a s amt tip).
Proof.
  intros Ha Hamt Htip Hs. unfold sol_withdraw_value, abi_encode.
  cbn [heads_len fold_right head_len spec_heads spec_tails]. rewrite !blen_word. rewrite !app_nil_r.
  change (32 + (32 + (32 + (32 + 0)))) with 128.
  set (tl := enc_dyn_bytes s).
  set (v := (word a ++ word 128 ++ word amt ++ word tip) ++ tl).
  assert (Hlen_tl : blen tl = 32 + blen (pad32 s)).
  { unfold tl, enc_dyn_bytes. rewrite blen_app, blen_word. reflexivity. }
  assert (Hpad : blen s <= blen (pad32 s)).
  { unfold pad32. rewrite blen_app. pose proof (blen_nonneg (zeros ((32 - List.length s mod 32) mod 32))). lia. }
  assert (Hlen_v : blen v = 128 + blen tl).
  { unfold v. rewrite !blen_app, !blen_word. lia. }
  assert (H0 : word_at v 0 = a).
  { unfold v. rewrite <- !app_assoc. rewrite word_at_head by apply word_length. apply of_be_word. lia. }
  assert (H32 : word_at v 32 = 128).
  { unfold v. rewrite <- !app_assoc. rewrite (word_at_skip (word a)) by (rewrite word_length; reflexivity).
    rewrite word_at_head by apply word_length. apply of_be_word. lia. }
  assert (H64 : word_at v 64 = amt).
  { unfold v. rewrite <- !app_assoc. rewrite (app_assoc (word a)).
    rewrite (word_at_skip (word a ++ word 128)) by (rewrite app_length, !word_length; reflexivity).
    rewrite word_at_head by apply word_length. apply of_be_word. exact Hamt. }
  assert (H96 : word_at v 96 = tip).
  { unfold v. rewrite <- !app_assoc. rewrite (app_assoc (word a)), (app_assoc (word a ++ word 128)).
    rewrite (word_at_skip ((word a ++ word 128) ++ word amt)) by (rewrite !app_length, !word_length; reflexivity).
    rewrite word_at_head by apply word_length. apply of_be_word. exact Htip. }
  assert (H128 : word_at v 128 = blen s).
  { unfold v. rewrite (word_at_skip (word a ++ word 128 ++ word amt ++ word tip)) by (rewrite !app_length, !word_length; reflexivity).
    unfold tl, enc_dyn_bytes. rewrite word_at_head by apply word_length. apply of_be_word.
    pose proof (blen_nonneg s). lia. }
  assert (Hsender : firstn (Z.to_nat (blen s)) (skipn (Z.to_nat (128 + 32)) v) = s).
  { unfold v, tl, enc_dyn_bytes. rewrite (app_assoc _ (word (blen s))).
    rewrite skipn_app_exact by (rewrite !app_length, !word_length; reflexivity).
    unfold pad32. apply firstn_app_exact. unfold blen. lia. }
  unfold sol_decode_withdraw_value. fold v.
  pose proof (blen_nonneg s) as Hs0. pose proof (blen_nonneg (pad32 s)) as Hp0.
  destruct (blen v <? 128) eqn:E1; [apply Z.ltb_lt in E1; lia|].
  rewrite H0. destruct (2 ^ 160 <=? a) eqn:E2; [apply Z.leb_le in E2; lia|].
  rewrite H32. destruct (blen v <? 128 + 32) eqn:E3; [apply Z.ltb_lt in E3; lia|].
  rewrite H128. destruct (blen v <? 128 + 32 + blen s) eqn:E4; [apply Z.ltb_lt in E4; lia|].
  rewrite H64, H96, Hsender. reflexivity.
Qed.

(* what the chain writes is read back by the contract's decoder as the withdrawal's fields *)
Theorem go_withdraw_value_decodes amount sender recipient :
  bytes_ok recipient = true -> 0 <= amount < 2 ^ 64 -> blen sender < 2 ^ 256 ->
  sol_decode_withdraw_value (go_withdraw_value amount sender recipient) =
  Some (WF (of_be (bytes_to_address recipient)) sender amount 0).
Proof.
  intros Hr Ha Hs. rewrite withdraw_value_eq by exact Hr.
  apply withdraw_value_decodes; try lia. apply address_number_range. exact Hr.
Qed.

(* ---- hexadecimal round trip (Aggregate.AggregateValue is hex.EncodeToString of the value and
        CreateSnapshot decodes it again) ------------------------------------------------------------- *)
Lemma hex_val_digit d : 0 <= d < 16 -> hex_val (hex_digit d) = Some d.
Proof.
  intros H.
  assert (E : d = 0 \/ d = 1 \/ d = 2 \/ d = 3 \/ d = 4 \/ d = 5 \/ d = 6 \/ d = 7 \/ d = 8 \/ d = 9 \/
              d = 10 \/ d = 11 \/ d = 12 \/ d = 13 \/ d = 14 \/ d = 15) by lia.
  repeat (destruct E as [E|E]; [subst d; reflexivity|]). subst d. reflexivity.
Qed.

Theorem hex_roundtrip b : bytes_ok b = true -> hex_decode (hex_encode b) = Some b.
Proof.
  induction b as [|x t IH]; intros H; [reflexivity|].
  cbn [bytes_ok forallb] in H. apply andb_prop in H. destruct H as [Hx Ht]. apply byte_ok_range in Hx.
  cbn [hex_encode hex_decode].
  rewrite (hex_val_digit (x / 16)) by (split; [apply Z.div_pos; lia | apply Z.div_lt_upper_bound; lia]).
  rewrite (hex_val_digit (x mod 16)) by (apply Z.mod_pos_bound; lia).
  rewrite (IH Ht). f_equal. f_equal. pose proof (Z.div_mod x 16 ltac:(lia)). lia.
Qed.

(* ---- power threshold ------------------------------------------------------------------------------ *)
Lemma total_power_no_wrap powers : forall acc,
  0 <= acc -> Forall (fun p => 0 <= p) powers -> acc + sum_powers powers < 2 ^ 64 ->
  fold_left (fun a p => wrap64 (a + p)) powers acc = acc + sum_powers powers.
Proof.
  induction powers as [|p r IH]; intros acc Hacc Hall Hsum; cbn [fold_left sum_powers fold_right].
  - lia.
  - inversion Hall as [|? ? Hp Hr]; subst.
    assert (Hr0 : 0 <= sum_powers r).
    { clear -Hr. induction Hr as [|q l Hq Hl IHl]; cbn [sum_powers fold_right]; [lia|]. unfold sum_powers in IHl. lia. }
    cbn [sum_powers fold_right] in Hsum. fold (sum_powers r) in Hsum.
    unfold wrap64 at 2. rewrite Z.mod_small by lia.
    rewrite IH; [fold (sum_powers r); lia | lia | exact Hr | lia].
Qed.

Lemma sum_powers_nonneg powers : Forall (fun p => 0 <= p) powers -> 0 <= sum_powers powers.
Proof. intros H. induction H as [|q l Hq Hl IHl]; cbn [sum_powers fold_right]; [lia|]. unfold sum_powers in IHl. lia. Qed.

(* the code as found: correct while the total stays below 2^63 *)
Theorem threshold_two_thirds powers :
  Forall (fun p => 0 <= p) powers -> sum_powers powers < 2 ^ 63 ->
  go_threshold false powers = Some (spec_threshold powers).
Proof.
  intros Hall Hsum. unfold go_threshold, go_threshold_found, go_total_power, spec_threshold.
  pose proof (sum_powers_nonneg powers Hall) as H0.
  rewrite total_power_no_wrap by (try exact Hall; lia).
  unfold wrap64. rewrite Z.mod_small by lia. do 2 f_equal. lia.
Qed.

Theorem threshold_overflow_refuted :
  exists powers, Forall (fun p => 0 <= p < 2 ^ 64) powers /\ sum_powers powers = 2 ^ 63 /\
                 go_threshold false powers = Some 0 /\ spec_threshold powers = 6148914691236517205.
Proof.
  exists [2 ^ 63]. split; [constructor; [lia | constructor]|].
  split; [reflexivity|]. split; reflexivity.
Qed.

Lemma fold_left_add_sum powers : forall acc, fold_left Z.add powers acc = acc + sum_powers powers.
Proof.
  induction powers as [|p r IH]; intros acc; cbn [fold_left sum_powers fold_right]; [lia|].
  rewrite IH. fold (sum_powers r). lia.
Qed.

(* the repaired variant: whenever it produces a threshold it is two thirds of the total, for every set *)
Theorem threshold_repaired powers :
  match go_threshold true powers with
  | Some thr => thr = spec_threshold powers /\ thr < 2 ^ 64
  | None => 2 ^ 64 <= spec_threshold powers
  end.
Proof.
  unfold go_threshold, go_threshold_fixed, spec_threshold. rewrite fold_left_add_sum. cbn [Z.add].
  destruct (2 * sum_powers powers / 3 <? 2 ^ 64) eqn:E.
  - apply Z.ltb_lt in E. split; [reflexivity | exact E].
  - apply Z.ltb_ge in E. exact E.
Qed.

(* what "two thirds" means for the contract's test `cumulativePower >= powerThreshold` *)
Theorem threshold_meaning powers thr :
  thr = spec_threshold powers -> 3 * thr <= 2 * sum_powers powers < 3 * thr + 3.
Proof.
  intros ->. unfold spec_threshold. pose proof (Z.div_mod (2 * sum_powers powers) 3 ltac:(lia)) as Hd.
  pose proof (Z.mod_pos_bound (2 * sum_powers powers) 3 ltac:(lia)). lia.
Qed.

Lemma bytes_ok_be n : forall x, bytes_ok (be n x) = true.
Proof.
  induction n as [|k IHk]; intros x; [reflexivity|]. cbn [be]. rewrite bytes_ok_app, IHk. cbn.
  pose proof (Z.mod_pos_bound x 256 ltac:(lia)) as Hm. unfold byte_ok.
  destruct (0 <=? x mod 256) eqn:E1; [|apply Z.leb_gt in E1; lia].
  destruct (x mod 256 <? 256) eqn:E2; [reflexivity|apply Z.ltb_ge in E2; lia].
Qed.

(* ---- digests: for ANY hash function ----------------------------------------------------------------- *)
Section AnyHash.
  Variable H : bytes -> bytes.
  Variable sha : bytes -> bytes.

  Theorem valset_hash_eq vs :
    Z.of_nat (List.length vs) < 2 ^ 64 -> forallb go_validator_ok vs = true ->
    H (go_valset_bytes vs) = H (sol_valset_bytes (map to_sol_validator vs)).
  Proof. intros Hl Hok. rewrite valset_bytes_eq by assumption. reflexivity. Qed.

  (* the checkpoint computed by the chain from its own valset hash is the contract's
     _domainSeparateValidatorSetHash(thr, ts, keccak256(abi.encode(valset))) *)
  Theorem checkpoint_chain_eq vs thr ts :
    Z.of_nat (List.length vs) < 2 ^ 64 -> forallb go_validator_ok vs = true ->
    List.length (H (sol_valset_bytes (map to_sol_validator vs))) = 32%nat ->
    H (go_checkpoint_preimage thr ts (H (go_valset_bytes vs))) =
    H (sol_domain_separate thr ts (H (sol_valset_bytes (map to_sol_validator vs)))).
  Proof.
    intros Hl Hok H32. rewrite valset_bytes_eq by assumption. rewrite checkpoint_preimage_eq by exact H32. reflexivity.
  Qed.

  Theorem attest_digest_eq qid value v ts power prev next cp ats :
    List.length qid = 32%nat -> List.length cp = 32%nat -> hex_decode value = Some v ->
    option_map H (go_attest_preimage qid value ts power prev next cp ats) =
    Some (H (sol_data_digest_preimage qid v ts power prev next cp ats)).
  Proof. intros Hq Hc Hv. rewrite (attest_preimage_eq qid value v) by assumption. reflexivity. Qed.

  Theorem query_id_eq to_layer id : H (go_query_data to_layer id) = H (sol_query_data to_layer id).
  Proof. rewrite query_data_eq. reflexivity. Qed.

  (* the value of a withdrawal aggregate travels as hex and reaches the attestation digest as the
     bytes the contract decodes *)
  Theorem withdraw_attest_digest_eq qid amount sender recipient ts power prev next cp ats :
    List.length qid = 32%nat -> List.length cp = 32%nat ->
    bytes_ok recipient = true -> bytes_ok sender = true -> 0 <= amount ->
    option_map H (go_attest_preimage qid (hex_encode (go_withdraw_value amount sender recipient)) ts power prev next cp ats) =
    Some (H (sol_data_digest_preimage qid (sol_withdraw_value (of_be (bytes_to_address recipient)) sender amount 0)
                                      ts power prev next cp ats)).
  Proof.
    intros Hq Hc Hr Hs Ha. apply attest_digest_eq; try assumption.
    rewrite <- withdraw_value_eq by exact Hr. apply hex_roundtrip.
    unfold go_withdraw_value. rewrite geth_pack_spec, geth_bytes_slice_spec, (geth_address_any recipient Hr).
    unfold abi_encode, enc_dyn_bytes, pad32, word. cbn [spec_heads spec_tails heads_len fold_right head_len].
    rewrite !bytes_ok_app. 
    unfold geth_num, word. rewrite !bytes_ok_be, Hs, bytes_ok_zeros. reflexivity.
  Qed.

  (* signing convention: the keyring signs sha(msg); the contract recovers against
     sha(abi.encodePacked(digest)) *)
  Theorem sig_convention digest : go_sign_payload sha digest = sol_verify_payload sha digest.
  Proof. reflexivity. Qed.
End AnyHash.

(* ---- the executable hash functions against the standard test vectors -------------------------------- *)
Example keccak256_empty : hex_encode (keccak256 []) = "c5d2460186f7233c927e7db2dcc703c0e500b653ca82273b7bfad8045d85a470"%string.
Proof. vm_compute. reflexivity. Qed.
Example keccak256_abc : hex_encode (keccak256 (str_bytes "abc")) = "4e03657aea45a94fc7d47ba826c8d667c0d1e6e33a64a036ec44f58fa12d6c45"%string.
Proof. vm_compute. reflexivity. Qed.
(* 200 bytes: more than one block of the sponge *)
Example keccak256_two_blocks :
  hex_encode (keccak256 (repeat 97 200)) = "96ea54061def936c4be90b518992fdc6f12f535068a256229aca54267b4d084d"%string.
Proof. vm_compute. reflexivity. Qed.
Example sha256_empty : hex_encode (sha256 []) = "e3b0c44298fc1c149afbf4c8996fb92427ae41e4649b934ca495991b7852b855"%string.
Proof. vm_compute. reflexivity. Qed.
Example sha256_abc : hex_encode (sha256 (str_bytes "abc")) = "ba7816bf8f01cfea414140de5dae2223b00361a396177a9cb410ff61f20015ad"%string.
Proof. vm_compute. reflexivity. Qed.
Example sha256_two_blocks :
  hex_encode (sha256 (repeat 97 56)) = "b35439a4ac6f0948b6d6f9e3c6af0f5f590ce20f1bde7090ef7970686ec6738a"%string.
Proof. vm_compute. reflexivity. Qed.

(* ---- soundness of the check: an empty issue list is the Prop-level statement about the
        implementation's outputs --------------------------------------------------------------------- *)
Lemma bytes_eqb_eq a b : bytes_eqb a b = true -> a = b.
Proof. apply list_eqb_eq. intros x y E. apply Z.eqb_eq. exact E. Qed.

Lemma bytes_eqb_refl a : bytes_eqb a a = true.
Proof. induction a as [|x t IH]; [reflexivity|]. cbn. rewrite Z.eqb_refl. exact IH. Qed.

Lemma keccak_reuse_spec a b : keccak_reuse a b (keccak256 b) = keccak256 a.
Proof. unfold keccak_reuse. destruct (bytes_eqb a b) eqn:E; [apply bytes_eqb_eq in E; subst; reflexivity | reflexivity]. Qed.

Ltac split_nil H :=
  repeat match type of H with
         | _ ++ _ = [] => let H1 := fresh "Hi" in apply app_nil_both in H; destruct H as [H1 H]
         end.

Theorem check_sound_valset vs ib ih gen :
  c15_check (ValsetCase vs ib ih gen) = [] ->
  unhex ib = sol_valset_bytes (sol_validators vs) /\
  unhex ih = keccak256 (sol_valset_bytes (sol_validators vs)).
Proof.
  intros Hc. unfold c15_check in Hc. cbv zeta in Hc. split_nil Hc.
  split; apply bytes_eqb_eq; eapply spec_if_nil; eassumption.
Qed.

Theorem check_sound_params vs ms thr ts ih icpp icp :
  c15_check (ParamsCase vs ms false thr ts ih icpp icp) = [] ->
  thr = spec_threshold (powers_of vs) /\ ts = ms /\
  unhex ih = keccak256 (sol_valset_bytes (sol_validators vs)) /\
  unhex icp = keccak256 (sol_domain_separate thr ts (unhex ih)).
Proof.
  intros Hc. unfold c15_check in Hc. cbv zeta in Hc. split_nil Hc.
  repeat split.
  - apply Z.eqb_eq. eapply spec_if_nil; eassumption.
  - apply Z.eqb_eq. eapply spec_if_nil; eassumption.
  - apply bytes_eqb_eq. eapply spec_if_nil; eassumption.
  - apply bytes_eqb_eq. eapply spec_if_nil; eassumption.
Qed.

Theorem check_sound_attest qid value ts power prev next cp ats idig gen :
  List.length (unhex qid) = 32%nat -> List.length (unhex cp) = 32%nat ->
  c15_check (AttestCase qid value ts power prev next cp ats false idig gen) = [] ->
  unhex idig = keccak256 (sol_data_digest_preimage (unhex qid) (unhex value) ts power prev next (unhex cp) ats).
Proof.
  intros Hq Hcp Hc. unfold c15_check in Hc. cbv zeta in Hc. rewrite Hq, Hcp in Hc. cbn [Nat.eqb andb negb] in Hc.
  split_nil Hc.
  destruct (go_attest_preimage (unhex qid) value ts power prev next (unhex cp) ats) as [pre|]; [|discriminate Hc].
  split_nil Hc. rewrite keccak_reuse_spec in Hi2.
  apply bytes_eqb_eq. eapply spec_if_nil; eassumption.
Qed.

Theorem check_sound_snapshot qid value power ts prev next cp ms isnap data listed :
  List.length (unhex qid) = 32%nat -> List.length (unhex cp) = 32%nat ->
  c15_check (SnapshotCase qid value power ts prev next cp ms false isnap data listed) = [] ->
  unhex isnap = keccak256 (sol_data_digest_preimage (unhex qid) (unhex value) ts power (opt_ms prev) (opt_ms next) (unhex cp) ms).
Proof.
  intros Hq Hcp Hc. unfold c15_check in Hc. cbv zeta in Hc. rewrite Hq, Hcp in Hc. cbn [Nat.eqb andb negb] in Hc.
  split_nil Hc.
  destruct (go_attest_preimage (unhex qid) value ts power (opt_ms prev) (opt_ms next) (unhex cp) ms) as [pre|]; [|discriminate Hc].
  split_nil Hc. rewrite keccak_reuse_spec in Hi2.
  apply bytes_eqb_eq. eapply spec_if_nil; eassumption.
Qed.

Theorem check_sound_query_id dep id iq gen :
  c15_check (QueryIdCase dep id iq gen) = [] -> unhex iq = keccak256 (sol_query_data dep id).
Proof.
  intros Hc. unfold c15_check in Hc. cbv zeta in Hc. split_nil Hc.
  apply bytes_eqb_eq. eapply spec_if_nil; eassumption.
Qed.

Theorem check_sound_withdraw_value amount sender recipient iv gen :
  c15_check (WithdrawValueCase amount sender recipient iv gen) = [] ->
  sol_decode_withdraw_value (unhex iv) =
  Some (WF (of_be (bytes_to_address (unhex recipient))) (str_bytes sender) amount 0).
Proof.
  intros Hc. unfold c15_check in Hc. cbv zeta in Hc. split_nil Hc.
  apply spec_if_nil in Hi0. unfold withdraw_fields_eqb in Hi0.
  destruct (sol_decode_withdraw_value (unhex iv)) as [f|]; [|discriminate Hi0].
  apply andb_prop in Hi0. destruct Hi0 as [Hi0 Ht]. apply andb_prop in Hi0. destruct Hi0 as [Hi0 Ha].
  apply andb_prop in Hi0. destruct Hi0 as [Hr Hs].
  apply Z.eqb_eq in Ht, Ha, Hr. apply bytes_eqb_eq in Hs. destruct f as [r s a t]. cbn in *. subst. reflexivity.
Qed.

Theorem check_sound_sign digest sig signer payload e27 e28 c0 c1 :
  c15_check (SignCase digest sig signer payload e27 e28 c0 c1) = [] ->
  List.length (unhex sig) = 64%nat /\ (e27 = signer \/ e28 = signer) /\ (c0 = signer \/ c1 = signer) /\
  unhex payload = sol_verify_payload sha256 (unhex digest).
Proof.
  intros Hc. unfold c15_check in Hc. cbv zeta in Hc. split_nil Hc.
  apply spec_if_nil in Hi0, Hi1, Hi2. apply diff_if_nil in Hi3.
  repeat split.
  - apply Nat.eqb_eq. exact Hi0.
  - apply orb_prop in Hi1. destruct Hi1 as [E|E]; apply String.eqb_eq in E; [left | right]; exact E.
  - apply orb_prop in Hi2. destruct Hi2 as [E|E]; apply String.eqb_eq in E; [left | right]; exact E.
  - symmetry. apply bytes_eqb_eq. exact Hi3.
Qed.

(* ---- non-vacuity -------------------------------------------------------------------------------- *)
Definition ex_valset : list go_validator :=
  [GV (repeat 0x11 20) 100; GV (repeat 0x22 20) 200; GV (repeat 0x33 20) 300].

Example ex_valset_regular : forallb go_validator_ok ex_valset = true /\ Z.of_nat (List.length ex_valset) < 2 ^ 64.
Proof. split; vm_compute; reflexivity. Qed.

Example ex_valset_hash :
  hex_encode (keccak256 (go_valset_bytes ex_valset)) = hex_encode (keccak256 (sol_valset_bytes (map to_sol_validator ex_valset))) /\
  blen (go_valset_bytes ex_valset) = 256.
Proof. split; vm_compute; reflexivity. Qed.

Example ex_threshold : go_threshold false [100; 200; 300] = Some 400 /\ go_threshold true [100; 200; 300] = Some 400.
Proof. split; reflexivity. Qed.

Example ex_attest_value_lengths :
  (* value of 0, 1, 32 and 33 bytes: the tail is 1, 2, 2 and 3 words *)
  map (fun v => option_map blen (go_attest_preimage (repeat 1 32) (hex_encode v) 1 2 3 4 (repeat 2 32) 5))
      [[]; [7]; repeat 7 32; repeat 7 33] = [Some 320; Some 352; Some 352; Some 384].
Proof. vm_compute. reflexivity. Qed.

Example ex_withdraw_decode :
  sol_decode_withdraw_value (go_withdraw_value 1000 (str_bytes "tellor1abc") (repeat 0xab 20)) =
  Some (WF (of_be (repeat 0xab 20)) (str_bytes "tellor1abc") 1000 0).
Proof. vm_compute. reflexivity. Qed.
