(* soundness of the executable specifications of Model/Ledger.v that are evaluated on the observed histories *)
From Coq Require Import ZArith List Bool String Lia.
From Verif Require Import Base.Harness Base.Dec Model.Ledger.
Import ListNotations.
Open Scope Z_scope.

Lemma c05_step_sound before op signer res params after decs :
  c05_step before (Step op signer res params after decs) = [] ->
  sp_bonded_ledger after <= sp_bonded after /\ sp_notbonded_ledger after <= sp_notbonded after /\
  sp_shares_pos after = true /\ sp_tokens_nonneg after = true /\ sp_records_sum after = true /\
  pool_slack before <= pool_slack after <= pool_slack before + 64.
Proof.
  unfold c05_step, c05_inv. cbn [st_after st_op]. intros H.
  repeat match type of H with (_ ++ _) = [] => apply app_nil_both in H; destruct H as [? H] end.
  repeat match goal with Hx : (_ ++ _) = [] |- _ => apply app_nil_both in Hx; destruct Hx as [? ?] end.
  repeat match goal with Hx : spec_if _ _ = [] |- _ => apply spec_if_nil in Hx end.
  repeat match goal with Hx : (_ <=? _) = true |- _ => apply Z.leb_le in Hx end.
  repeat split; try assumption; lia.
Qed.
