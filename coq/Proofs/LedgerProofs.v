(* soundness of the executable specifications of Model/Ledger.v that are evaluated on the observed histories *)
From Coq Require Import ZArith List Bool String Lia.
From Verif Require Import Base.Harness Base.Dec Model.Ledger.
Import ListNotations.
Open Scope Z_scope.

Lemma c05_step_sound before op signer res params after decs :
  c05_step before (Step op signer res params after decs) = [] ->
  sp_bonded_ledger after <= sp_bonded after /\ sp_notbonded_ledger after <= sp_notbonded after /\
  sp_shares_pos after = true /\ sp_tokens_nonneg after = true /\ sp_records_sum after = true /\
  pool_slack before <= pool_slack after <= pool_slack before + 64.
Proof.
  unfold c05_step, c05_inv. cbn [st_after st_op]. intros H.
  repeat match type of H with (_ ++ _) = [] => apply app_nil_both in H; destruct H as [? H] end.
  repeat match goal with Hx : (_ ++ _) = [] |- _ => apply app_nil_both in Hx; destruct Hx as [? ?] end.
  repeat match goal with Hx : spec_if _ _ = [] |- _ => apply spec_if_nil in Hx end.
  repeat match goal with Hx : (_ <=? _) = true |- _ => apply Z.leb_le in Hx end.
  repeat split; try assumption; lia.
Qed.

(* ---- C04 ------------------------------------------------------------------------------------------------ *)
Ltac nil_split H :=
  repeat match type of H with (_ ++ _) = [] => let H1 := fresh "N" in apply app_nil_both in H; destruct H as [H1 H] end.
Ltac nil_all :=
  repeat match goal with Hx : (_ ++ _) = [] |- _ => let H1 := fresh "N" in let H2 := fresh "N" in apply app_nil_both in Hx; destruct Hx as [H1 H2] end;
  repeat match goal with Hx : spec_if _ _ = [] |- _ => apply spec_if_nil in Hx end;
  repeat match goal with Hx : (_ && _) = true |- _ => let H1 := fresh "B" in let H2 := fresh "B" in apply andb_prop in Hx; destruct Hx as [H1 H2] end;
  repeat match goal with
         | Hx : (_ <=? _) = true |- _ => apply Z.leb_le in Hx
         | Hx : (_ <? _) = true |- _ => apply Z.ltb_lt in Hx
         | Hx : (_ =? _) = true |- _ => apply Z.eqb_eq in Hx
         end.

(* no withdrawal or claim was refused for lack of funds *)
Lemma c04_step_not_refused before op signer res params after decs :
  c04_step before (Step op signer res params after decs) = [] -> res <> 3.
Proof.
  unfold c04_step. cbn [st_result st_op st_after st_params]. intros H. nil_all.
  match goal with Hx : negb (res =? 3) = true |- _ => apply negb_true_iff in Hx; apply Z.eqb_neq in Hx; exact Hx end.
Qed.

(* at every block boundary: oracle account = unpaid tips, the tips pool covers the whole-unit credits and the
   credits up to sub-unit dust, the bridge account is empty; the end blocker only moved coins into the tips pool *)
Lemma c04_step_sound_endblock before signer params after decs :
  c04_step before (Step "EndBlock" signer 0 params after decs) = [] ->
  sp_oracle after = sp_oracle_owed after /\ sp_tips_floor after <= sp_tips after /\
  sp_tips_scaled after - sp_tips after * P <= 1000000 /\ sp_bridge after = 0 /\
  sp_oracle after + sp_tips after + sp_tbr after = sp_oracle before + sp_tips before + sp_tbr before /\
  sp_oracle after <= sp_oracle before /\ sp_tbr after <= sp_tbr before.
Proof.
  unfold c04_step, c04_boundary. cbn [st_result st_op st_after st_params String.eqb Ascii.eqb Bool.eqb andb Z.eqb]. intros H. nil_all.
  repeat split; assumption.
Qed.

Lemma c04_step_sound_tip before signer a after decs :
  c04_step before (Step "Tip" signer 0 [a] after decs) = [] ->
  sp_oracle after - sp_oracle before = a - Z.quot (a * 2) 100 /\
  sp_oracle_owed after - sp_oracle_owed before = a - Z.quot (a * 2) 100.
Proof.
  unfold c04_step. cbn [st_result st_op st_after st_params String.eqb Ascii.eqb Bool.eqb andb Z.eqb]. intros H. nil_all. split; assumption.
Qed.

Lemma c04_step_sound_withdraw before signer params after decs :
  c04_step before (Step "WithdrawTip" signer 0 params after decs) = [] ->
  sp_tips before - sp_tips after = (sp_bonded after + sp_notbonded after) - (sp_bonded before + sp_notbonded before) /\
  sp_tips after < sp_tips before.
Proof.
  unfold c04_step. cbn [st_result st_op st_after st_params String.eqb Ascii.eqb Bool.eqb andb Z.eqb]. intros H. nil_all. split; assumption.
Qed.

(* no voter reward was paid twice to one account for one dispute *)
Lemma nodup_pairs_sound l : nodup_pairs l = true -> NoDup l.
Proof.
  induction l as [|x t IH]; cbn [nodup_pairs]; intros H; [constructor|].
  apply andb_prop in H. destruct H as [H1 H2]. constructor; [|apply IH; exact H2].
  intros Hin. apply negb_true_iff in H1. assert (existsb (fun y => (fst x =? fst y) && (snd x =? snd y)) t = true); [|congruence].
  apply existsb_exists. exists x. split; [exact Hin|]. rewrite !Z.eqb_refl. reflexivity.
Qed.

Lemma c04_hist_once init steps : c04_hist_check (Hist init steps) = [] -> NoDup (reward_claims steps).
Proof.
  unfold c04_hist_check. intros H. apply app_nil_both in H. destruct H as [_ H]. apply app_nil_both in H. destruct H as [_ H].
  apply spec_if_nil in H. apply nodup_pairs_sound. exact H.
Qed.

(* what was paid as voter rewards of a dispute never exceeds the pot of that dispute *)
Lemma c04_hist_pots init steps :
  c04_hist_check (Hist init steps) = [] ->
  forall id pot paid, In (id, pot, paid) (reward_payments init steps) -> paid_for id (reward_payments init steps) <= pot.
Proof.
  unfold c04_hist_check. intros H id pot paid Hin. apply app_nil_both in H. destruct H as [_ H]. apply app_nil_both in H. destruct H as [H _].
  apply spec_if_nil in H. unfold pots_respected in H. rewrite forallb_forall in H. specialize (H _ Hin). cbn [fst snd] in H.
  apply Z.leb_le in H. exact H.
Qed.

(* a deposit claim leaves the bridge account as it was *)
Lemma c04_step_sound_claim_deposit before signer res params after decs :
  c04_step before (Step "ClaimDeposits" signer res params after decs) = [] -> sp_bridge after = sp_bridge before.
Proof.
  unfold c04_step. cbn [st_result st_op st_after st_params String.eqb Ascii.eqb Bool.eqb andb Z.eqb]. intros H. nil_all. assumption.
Qed.

(* ---- C03 on histories -------------------------------------------------------------------------------------- *)
Lemma nodupZ_sound l : nodupZ l = true -> NoDup l.
Proof.
  induction l as [|x t IH]; cbn [nodupZ]; intros H; [constructor|].
  apply andb_prop in H. destruct H as [H1 H2]. constructor; [|apply IH; exact H2].
  intros Hin. apply negb_true_iff in H1. assert (existsb (Z.eqb x) t = true); [|congruence].
  apply existsb_exists. exists x. split; [exact Hin|apply Z.eqb_refl].
Qed.

(* every dispute is executed (and its burn taken) at most once in a history *)
Lemma c03_hist_executed_once init steps : c03_hist_check (Hist init steps) = [] -> NoDup (executed_ids steps).
Proof.
  unfold c03_hist_check. intros H. apply app_nil_both in H. destruct H as [_ H]. apply app_nil_both in H. destruct H as [_ H].
  apply spec_if_nil in H. apply nodupZ_sound. exact H.
Qed.

(* the sum of all balances is the recorded supply after every step, and a step with a pinned delta has it *)
Lemma c03_step_sound before s d :
  c03_step before s = [] ->
  sp_balsum (st_after s) = sp_supply (st_after s) /\ (expected_supply_delta s = Some d -> sp_supply (st_after s) - sp_supply before = d).
Proof.
  unfold c03_step. intros H. apply app_nil_both in H. destruct H as [H1 H2]. apply spec_if_nil in H1. apply Z.eqb_eq in H1.
  split; [exact H1|]. intros E. rewrite E in H2. apply spec_if_nil in H2. apply Z.eqb_eq in H2. exact H2.
Qed.

(* a completed begin blocker changes the supply by exactly the block provision minus the documented burn of each
   dispute it executed, none of which is a superseded round; the provision is split 3/4 : 1/4 *)
Lemma c03_step_sound_begin_block before signer params after decs :
  c03_step before (Step "BeginBlock" signer 0 params after decs) = [] ->
  let s := Step "BeginBlock" signer 0 params after decs in
  sp_supply after - sp_supply before = begin_block_mint s - zsum (map dispute_burn (begin_block_executed s)) /\ (forall id b f, In (id, b, f) (begin_block_executed s) -> Z.testbit f 1 = false) /\ sp_tbr after - sp_tbr before = begin_block_mint s - Z.quot (begin_block_mint s) 4 /\ sp_feecoll after - sp_feecoll before = Z.quot (begin_block_mint s) 4.
Proof.
  intros H s. unfold c03_step in H. fold s in H.
  assert (E : expected_supply_delta s = None) by reflexivity. rewrite E in H.
  assert (Eo : (st_op s =? "BeginBlock")%string = true) by reflexivity. rewrite Eo in H.
  assert (Er : (st_result s =? 0) = true) by reflexivity. rewrite Er in H.
  change (st_after s) with after in H.
  nil_all.
  repeat split; try assumption.
  intros id b f Hin.
  match goal with Hx : forallb _ _ = true |- _ => rewrite forallb_forall in Hx; specialize (Hx _ Hin); cbn [snd] in Hx; apply negb_true_iff in Hx; exact Hx end.
Qed.

