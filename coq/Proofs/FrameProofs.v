(* C19 — the frame condition ("a message reduces only its signer's holdings, with three exceptions")
   derived from the executable models of the message handlers that the development already has:

     Model/Reporter.v       (C10)  CreateReporter, SelectReporter, SwitchReporter, RemoveSelector, UnjailReporter,
                                   the stake count of SubmitValue, JailReporter
     Model/Slash.v          (C11)  ProposeDispute, AddFeeToDispute (fee payment, slash and jail)
     Model/DisputeSettle.v  (C13)  ProposeDispute, AddFeeToDispute (per-account holdings), WithdrawFeeRefund, ClaimReward
     Model/OracleRound.v    (C07)  Tip, SubmitValue, the oracle end blocker
     Model/Escrow.v         (C04)  Tip (bank part), tip / time-based-reward payout, WithdrawTip

   Every theorem below quantifies over ALL states of the model (no enumeration).  What ties a model to the Go
   code is the correspondence check of its own property (C10 / C11 / C13 / C07 / C04), which replays generated
   histories of the real application through the model on every run of that property.

   The models have clashing names ([step], [op], [state], ...): they are required without being imported and used
   through the module aliases [R], [S], [D], [O], [E]. *)
From Coq Require Import ZArith List Bool Lia String.
From Verif Require Import Base.Dec Base.Harness.
From Verif Require Model.Authority Model.Reporter Model.Slash Model.DisputeSettle Model.OracleRound Model.Escrow.
From Verif Require Proofs.ReporterProofs Proofs.SlashProofs Proofs.DisputeSettleProofs.
Import ListNotations.
Open Scope Z_scope.

Module R := Verif.Model.Reporter.
Module S := Verif.Model.Slash.
Module D := Verif.Model.DisputeSettle.
Module O := Verif.Model.OracleRound.
Module E := Verif.Model.Escrow.
Module A := Verif.Model.Authority.

(* ================================================================================================= *)
(* (a) the reporter module                                                                             *)
(* ================================================================================================= *)
(* What the model records per account: its selection (reporter chosen, delegation count, lock time), its reporter
   record (minimum, jailed, jailed until), and - in the staking view [st_view], the environment - its delegations.

   The account an operation is about.  For OCreate / OSelect / OSwitch / OUnjail / OReport it is the signer of the
   message (MsgCreateReporter.ReporterAddress, MsgSelectReporter.SelectorAddress, MsgSwitchReporter.SelectorAddress,
   MsgUnjailReporter.ReporterAddress, MsgSubmitValue.Creator).  ORemove a can be sent by anybody: a is the selector
   named in the message (third exception).  OJail has no signer: the dispute keeper calls it for the disputed
   reporter of a funded dispute (first exception).  OEnv / OParams / OBlock are not messages of the module. *)
Definition rep_subject (o : R.op) : option Z :=
  match o with
  | R.OCreate a _ _ => Some a
  | R.OSelect a _ => Some a
  | R.OSwitch a _ => Some a
  | R.ORemove a => Some a
  | R.OJail r _ => Some r
  | R.OUnjail r => Some r
  | R.OReport r _ => Some r
  | R.OEnv _ | R.OParams _ | R.OBlock _ _ => None
  end.

(* the signer, where the model knows it *)
Definition rep_signer (o : R.op) : option Z :=
  match o with
  | R.OCreate a _ _ => Some a
  | R.OSelect a _ => Some a
  | R.OSwitch a _ => Some a
  | R.OUnjail r => Some r
  | R.OReport r _ => Some r
  | _ => None
  end.

Lemma rep_signer_subject o a : rep_signer o = Some a -> rep_subject o = Some a.
Proof. destruct o; cbn; intros H; try discriminate; exact H. Qed.

(* the stores are keyed by address: writing or deleting the entry of one address leaves every other address's
   entry as it was - on every list, sorted or not *)
Lemma sel_get_set_frame l n b : b <> R.s_addr n -> R.sel_get (R.sel_set l n) b = R.sel_get l b.
Proof.
  intros Hb. induction l as [|s r IH]; cbn [R.sel_set R.sel_get].
  - destruct (R.s_addr n =? b) eqn:E; [apply Z.eqb_eq in E; congruence | reflexivity].
  - destruct (R.s_addr s =? R.s_addr n) eqn:E1.
    + apply Z.eqb_eq in E1. cbn [R.sel_get].
      destruct (R.s_addr n =? b) eqn:E2; [apply Z.eqb_eq in E2; congruence|].
      rewrite E1, E2. reflexivity.
    + destruct (R.s_addr n <? R.s_addr s); cbn [R.sel_get].
      * destruct (R.s_addr n =? b) eqn:E2; [apply Z.eqb_eq in E2; congruence | reflexivity].
      * rewrite IH. reflexivity.
Qed.

Lemma sel_get_remove_frame l a b : b <> a -> R.sel_get (R.sel_remove l a) b = R.sel_get l b.
Proof.
  intros Hb. unfold R.sel_remove. induction l as [|s r IH]; cbn [filter R.sel_get]; [reflexivity|].
  destruct (R.s_addr s =? a) eqn:E; cbn [negb R.sel_get].
  - apply Z.eqb_eq in E. destruct (R.s_addr s =? b) eqn:E2; [apply Z.eqb_eq in E2; congruence | exact IH].
  - rewrite IH. reflexivity.
Qed.

Lemma rep_get_set_frame l n b : b <> R.r_addr n -> R.rep_get (R.rep_set l n) b = R.rep_get l b.
Proof. intros Hb. apply ReporterProofs.rep_get_set_other. exact Hb. Qed.

(* Every message of the module changes the selection and the reporter record of at most the account it is about,
   and never the staking view (nobody's delegations) or the parameters.
   Not a reduction of anybody's holdings, and therefore not excluded: the stake COUNTED for a reporter r
   ([stake_origins .. r], derived from the selections) changes when an account selects r or leaves it. *)
Theorem reporter_frame fx st o a :
  rep_subject o = Some a ->
  let st' := fst (R.step fx st o) in
  (forall b, b <> a -> R.sel_get (R.st_sel st') b = R.sel_get (R.st_sel st) b) /\
  (forall b, b <> a -> R.rep_get (R.st_rep st') b = R.rep_get (R.st_rep st) b) /\
  R.st_view st' = R.st_view st /\ R.st_par st' = R.st_par st.
Proof.
  intros Hs. cbv zeta.
  destruct o as [a0 minreq comm_ok|a0 r|a0 r|a0|r dur|r|r q|v|p|h now]; cbn [rep_subject] in Hs; try discriminate;
    injection Hs as Hs; subst; cbn [R.step].
  - (* OCreate *)
    destruct (_ <? _); [cbn; auto|]. destruct (_ <? _); [cbn; auto|].
    destruct (R.sel_get (R.st_sel st) a); [cbn; auto|]. destruct (negb comm_ok); [cbn; auto|].
    cbn [fst R.set_sel R.set_rep R.st_sel R.st_rep R.st_view R.st_par].
    split; [intros b Hb; apply sel_get_set_frame; exact Hb|].
    split; [intros b Hb; apply rep_get_set_frame; exact Hb|]. auto.
  - (* OSelect *)
    destruct (R.sel_get (R.st_sel st) a); [cbn; auto|].
    destruct (R.rep_get (R.st_rep st) r) as [rp|]; [|cbn; auto].
    destruct (_ <=? _); [cbn; auto|]. destruct (_ <? _); [cbn; auto|].
    cbn [fst R.set_sel R.st_sel R.st_rep R.st_view R.st_par].
    split; [intros b Hb; apply sel_get_set_frame; exact Hb|]. auto.
  - (* OSwitch *)
    destruct (R.sel_get (R.st_sel st) a) as [s|]; [|cbn; auto].
    destruct (R.s_reporter s =? a); [cbn; auto|].
    destruct (R.rep_get (R.st_rep st) r) as [rp|]; [|cbn; auto].
    destruct (_ <=? _); [cbn; auto|]. destruct (negb _); [cbn; auto|].
    cbn [fst R.set_sel R.st_sel R.st_rep R.st_view R.st_par].
    split; [intros b Hb; apply sel_get_set_frame; exact Hb|]. auto.
  - (* ORemove *)
    destruct (R.sel_get (R.st_sel st) a) as [s|]; [|cbn; auto].
    destruct (R.rep_get (R.st_rep st) (R.s_reporter s)) as [rp|]; [|cbn; auto].
    destruct (R.has_min _ _ _); [cbn; auto|]. destruct (_ <=? _); [cbn; auto|].
    cbn [fst R.set_sel R.st_sel R.st_rep R.st_view R.st_par].
    split; [intros b Hb; apply sel_get_remove_frame; exact Hb|]. auto.
  - (* OJail *)
    destruct (R.rep_get (R.st_rep st) a) as [rp|]; [|cbn; auto].
    destruct (R.r_jailed rp); [cbn; auto|].
    cbn [fst R.set_rep R.st_sel R.st_rep R.st_view R.st_par].
    split; [auto|]. split; [intros b Hb; apply rep_get_set_frame; exact Hb|]. auto.
  - (* OUnjail *)
    destruct (R.rep_get (R.st_rep st) a) as [rp|]; [|cbn; auto].
    destruct (negb _); [cbn; auto|]. destruct (_ <? _); [cbn; auto|].
    cbn [fst R.set_rep R.st_sel R.st_rep R.st_view R.st_par].
    split; [auto|]. split; [intros b Hb; apply rep_get_set_frame; exact Hb|]. auto.
  - (* OReport *)
    destruct (R.rep_get (R.st_rep st) a) as [rp|]; [|cbn; auto].
    destruct (R.r_jailed rp); [cbn; auto|]. destruct (_ <? _); cbn; auto.
Qed.

(* the same for the messages whose signer the model knows: only the signer's own records *)
Theorem reporter_signed_frame fx st o a :
  rep_signer o = Some a ->
  let st' := fst (R.step fx st o) in
  (forall b, b <> a -> R.sel_get (R.st_sel st') b = R.sel_get (R.st_sel st) b) /\
  (forall b, b <> a -> R.rep_get (R.st_rep st') b = R.rep_get (R.st_rep st) b) /\
  R.st_view st' = R.st_view st /\ R.st_par st' = R.st_par st.
Proof. intros H. apply reporter_frame. apply rep_signer_subject. exact H. Qed.

(* a rejected message changes nothing *)
Theorem reporter_rejected_no_change fx st o a :
  rep_subject o = Some a -> R.rs_code (snd (R.step fx st o)) <> R.OK -> fst (R.step fx st o) = st.
Proof.
  intros Hs.
  destruct o as [a0 minreq comm_ok|a0 r|a0 r|a0|r dur|r|r q|v|p|h now]; cbn [rep_subject] in Hs; try discriminate;
    cbn [R.step].
  - destruct (_ <? _); [reflexivity|]. destruct (_ <? _); [reflexivity|].
    destruct (R.sel_get _ _); [reflexivity|]. destruct (negb comm_ok); [reflexivity|]. cbn. congruence.
  - destruct (R.sel_get _ _); [reflexivity|]. destruct (R.rep_get _ _); [|reflexivity].
    destruct (_ <=? _); [reflexivity|]. destruct (_ <? _); [reflexivity|]. cbn. congruence.
  - destruct (R.sel_get _ _) as [s|]; [|reflexivity]. destruct (_ =? _); [reflexivity|].
    destruct (R.rep_get _ _); [|reflexivity].
    destruct (_ <=? _); [reflexivity|]. destruct (negb _); [reflexivity|]. cbn. congruence.
  - destruct (R.sel_get _ _) as [s|]; [|reflexivity]. destruct (R.rep_get _ _); [|reflexivity].
    destruct (R.has_min _ _ _); [reflexivity|]. destruct (_ <=? _); [reflexivity|]. cbn. congruence.
  - destruct (R.rep_get _ _) as [rp|]; [|reflexivity]. destruct (R.r_jailed rp); [reflexivity|]. cbn. congruence.
  - destruct (R.rep_get _ _) as [rp|]; [|reflexivity]. destruct (negb _); [reflexivity|].
    destruct (_ <? _); [reflexivity|]. cbn. congruence.
  - destruct (R.rep_get _ _) as [rp|]; [|reflexivity]. destruct (R.r_jailed rp); [reflexivity|].
    destruct (_ <? _); [reflexivity|]. cbn. congruence.
Qed.

(* the third exception.  RemoveSelector, sent by anybody, is accepted only if HasMin answers false for the selector
   against its reporter's minimum and the reporter has more selectors than the cap; it then deletes that selection
   and nothing else.  [validators_known]: every delegation of the selector points to a validator of the view
   (always so in the staking store); then "HasMin false" is "bonded tokens below the minimum". *)
Definition validators_known (vw : R.sview) (a : Z) : Prop :=
  forall d, In d (R.dels_of (R.sv_dels vw) a) -> R.find_val (R.sv_vals vw) (R.d_val d) <> None.

Definition sel_pairs (l : list R.selection) : list (Z * Z) := map (fun s => (R.s_addr s, R.s_reporter s)) l.

Lemma has_min_false_below vw a m : validators_known vw a -> R.has_min vw a m = false -> R.bonded_tokens vw a < m.
Proof.
  intros Hk Hf. destruct (Z.lt_ge_cases (R.bonded_tokens vw a) m) as [H|H]; [exact H|].
  exfalso. unfold R.has_min in Hf. rewrite (ReporterProofs.has_min_loop_complete vw m _ 0 Hk) in Hf; [discriminate|].
  unfold R.bonded_tokens in H. lia.
Qed.

Lemma sel_pairs_remove l a :
  filter (fun e => negb (fst e =? a)) (sel_pairs l) = sel_pairs (R.sel_remove l a).
Proof.
  unfold sel_pairs, R.sel_remove. induction l as [|x l IH]; cbn [map filter fst]; [reflexivity|].
  destruct (R.s_addr x =? a); cbn [negb map]; [exact IH | rewrite IH; reflexivity].
Qed.

Theorem reporter_remove_only_if fx st a :
  R.rs_code (snd (R.step fx st (R.ORemove a))) = R.OK ->
  exists s rp,
    R.sel_get (R.st_sel st) a = Some s /\ R.rep_get (R.st_rep st) (R.s_reporter s) = Some rp /\
    R.has_min (R.st_view st) a (R.r_min rp) = false /\
    R.p_max_sel (R.st_par st) < R.sel_count (R.st_sel st) (R.s_reporter s) /\
    fst (R.step fx st (R.ORemove a)) = R.set_sel st (R.sel_remove (R.st_sel st) a) /\
    (validators_known (R.st_view st) a ->
       R.bonded_tokens (R.st_view st) a < R.r_min rp /\
       (* the abstract rule of C19_remove_selector_only_if, instantiated *)
       A.remove_selector (sel_pairs (R.st_sel st)) a (R.bonded_tokens (R.st_view st) a) (R.r_min rp)
                         (R.sel_count (R.st_sel st) (R.s_reporter s)) (R.p_max_sel (R.st_par st))
       = Some (sel_pairs (R.st_sel (fst (R.step fx st (R.ORemove a)))))).
Proof.
  cbn [R.step].
  destruct (R.sel_get (R.st_sel st) a) as [s|] eqn:Es; [|cbn; discriminate].
  destruct (R.rep_get (R.st_rep st) (R.s_reporter s)) as [rp|] eqn:Er; [|cbn; discriminate].
  destruct (R.has_min (R.st_view st) a (R.r_min rp)) eqn:Eh; [cbn; discriminate|].
  destruct (R.sel_count (R.st_sel st) (R.s_reporter s) <=? R.p_max_sel (R.st_par st)) eqn:Ec; [cbn; discriminate|].
  apply Z.leb_gt in Ec. intros _. exists s, rp.
  split; [reflexivity|]. split; [exact Er|]. split; [exact Eh|]. split; [exact Ec|]. split; [reflexivity|].
  intros Hk. pose proof (has_min_false_below _ _ _ Hk Eh) as Hlt. split; [exact Hlt|].
  unfold A.remove_selector.
  replace (R.bonded_tokens (R.st_view st) a <? R.r_min rp) with true by (symmetry; apply Z.ltb_lt; exact Hlt).
  replace (R.p_max_sel (R.st_par st) <? R.sel_count (R.st_sel st) (R.s_reporter s)) with true
    by (symmetry; apply Z.ltb_lt; exact Ec).
  cbn [andb fst R.set_sel R.st_sel]. f_equal. apply sel_pairs_remove.
Qed.

(* what is not a message: a change of the staking view, of the parameters, a new block.  Reporter records stay;
   every selection keeps its owner, its reporter and its lock (the staking hooks only recount delegations) *)
Theorem reporter_env_frame fx st o :
  rep_subject o = None ->
  let st' := fst (R.step fx st o) in
  R.st_rep st' = R.st_rep st /\
  map (fun s => (R.s_addr s, R.s_reporter s, R.s_locked s)) (R.st_sel st') =
  map (fun s => (R.s_addr s, R.s_reporter s, R.s_locked s)) (R.st_sel st).
Proof.
  intros Hs. cbv zeta.
  destruct o as [a0 minreq comm_ok|a0 r|a0 r|a0|r dur|r|r q|v|p|h now]; cbn [rep_subject] in Hs; try discriminate;
    cbn [R.step fst R.st_rep R.st_sel]; (split; [reflexivity|]); try reflexivity.
  rewrite map_map. apply map_ext. intros s. reflexivity.
Qed.

(* non-vacuity: account 7 (5 TRB bonded at validator 1) selects reporter 4; account 9 and reporter 4 keep their
   records; then reporter 4 is over a cap lowered to 0 and 7, now unbonded, is removed by a third party *)
Definition ex_view (bonded7 : Z) : R.sview :=
  R.mkView [R.mkVal 1 3 false 100000000 (100000000 * P)]
           [R.mkDel 4 1 (10000000 * P); R.mkDel 7 1 (bonded7 * P); R.mkDel 9 1 (3000000 * P)] [1] 100 1814400000000000.
Definition ex_rep_state : R.state :=
  R.mkState [R.mkSel 4 4 1 0; R.mkSel 9 4 1 0] [R.mkRep 4 2000000 false 0] [] (R.mkPar 1000000 10 1000000)
            (ex_view 5000000) 10 1000.
Example reporter_frame_example :
  let st1 := fst (R.step false ex_rep_state (R.OSelect 7 4)) in
  R.rs_code (snd (R.step false ex_rep_state (R.OSelect 7 4))) = R.OK /\
  R.sel_get (R.st_sel st1) 7 = Some (R.mkSel 7 4 1 0) /\
  R.sel_get (R.st_sel st1) 9 = Some (R.mkSel 9 4 1 0) /\
  let st2 := fst (R.step false (fst (R.step false st1 (R.OParams (R.mkPar 1000000 0 1000000)))) (R.OEnv (ex_view 1000000))) in
  validators_known (R.st_view st2) 7 /\
  R.rs_code (snd (R.step false st2 (R.ORemove 7))) = R.OK /\
  R.rs_code (snd (R.step false st2 (R.ORemove 9))) = R.E_HAS_MIN.
Proof.
  cbv zeta. split; [vm_compute; reflexivity|]. split; [vm_compute; reflexivity|]. split; [vm_compute; reflexivity|].
  split; [|split; vm_compute; reflexivity].
  intros d Hd. vm_compute in Hd. destruct Hd as [<-|[]]. vm_compute. discriminate.
Qed.

(* ================================================================================================= *)
(* (b) ProposeDispute / AddFeeToDispute in the slashing model                                           *)
(* ================================================================================================= *)
(* What the model records per account: the liquid balance [w_liq] and the bonded amount [w_bond] of the fee payers
   (the payer's own stake, held at a bonded validator outside the slice), the delegations [s_dels] and unbonding
   delegations [s_ubds] of the staking slice (the stake behind the disputed reporter), the reporters' jail records.
   The signer of both messages is [sender].
   The model does not split the stake a paying reporter draws on into its selectors' parts (one bonded amount
   per payer): the second exception shows up here as "the sender's own bonded amount". *)
Definition dels_of (st : S.stk) (b : Z) : list S.dlg := filter (fun d => S.d_del d =? b) (S.s_dels st).
Definition ubds_of (st : S.stk) (b : Z) : list S.ubd := filter (fun u => S.u_del u =? b) (S.s_ubds st).

(* delegator b's delegations and unbonding delegations are the same in both states *)
Definition untouched (b : Z) (st st' : S.stk) : Prop := dels_of st' b = dels_of st b /\ ubds_of st' b = ubds_of st b.

Lemma untouched_refl b st : untouched b st st. Proof. split; reflexivity. Qed.
Lemma untouched_trans b x y z : untouched b x y -> untouched b y z -> untouched b x z.
Proof. unfold untouched. intros [H1 H2] [H3 H4]. split; congruence. Qed.

Lemma bond_get_set_frame a v l b : b <> a -> S.bond_get b (S.bond_set a v l) = S.bond_get b l.
Proof.
  intros Hb. induction l as [|x t IH]; cbn [S.bond_set S.bond_get]; [reflexivity|].
  destruct (fst x =? a) eqn:E; cbn [S.bond_get fst].
  - apply Z.eqb_eq in E. rewrite E. destruct (a =? b) eqn:E2; [apply Z.eqb_eq in E2; congruence | reflexivity].
  - destruct (fst x =? b); [reflexivity | exact IH].
Qed.

Lemma filter_remove_dlg del vl l b :
  b <> del -> filter (fun d => S.d_del d =? b) (S.remove_dlg del vl l) = filter (fun d => S.d_del d =? b) l.
Proof.
  intros Hb. induction l as [|d t IH]; cbn [S.remove_dlg filter]; [reflexivity|].
  destruct (S.dlg_is del vl d) eqn:E.
  - unfold S.dlg_is in E. apply andb_prop in E. destruct E as [E _]. apply Z.eqb_eq in E.
    destruct (S.d_del d =? b) eqn:E2; [apply Z.eqb_eq in E2; congruence | reflexivity].
  - cbn [filter]. rewrite IH. reflexivity.
Qed.

Lemma filter_set_dlg n l b :
  b <> S.d_del n -> filter (fun d => S.d_del d =? b) (S.set_dlg n l) = filter (fun d => S.d_del d =? b) l.
Proof.
  intros Hb. induction l as [|d t IH]; cbn [S.set_dlg filter]; [reflexivity|].
  destruct (S.dlg_is (S.d_del n) (S.d_val n) d) eqn:E.
  - unfold S.dlg_is in E. apply andb_prop in E. destruct E as [E _]. apply Z.eqb_eq in E. cbn [filter].
    destruct (S.d_del n =? b) eqn:E1; [apply Z.eqb_eq in E1; congruence|].
    destruct (S.d_del d =? b) eqn:E2; [apply Z.eqb_eq in E2; congruence | reflexivity].
  - cbn [filter]. rewrite IH. reflexivity.
Qed.

Lemma filter_remove_ubd del vl l b :
  b <> del -> filter (fun u => S.u_del u =? b) (S.remove_ubd del vl l) = filter (fun u => S.u_del u =? b) l.
Proof.
  intros Hb. induction l as [|d t IH]; cbn [S.remove_ubd filter]; [reflexivity|].
  destruct (S.ubd_is del vl d) eqn:E.
  - unfold S.ubd_is in E. apply andb_prop in E. destruct E as [E _]. apply Z.eqb_eq in E.
    destruct (S.u_del d =? b) eqn:E2; [apply Z.eqb_eq in E2; congruence | reflexivity].
  - cbn [filter]. rewrite IH. reflexivity.
Qed.

Lemma filter_set_ubd n l b :
  b <> S.u_del n -> filter (fun u => S.u_del u =? b) (S.set_ubd n l) = filter (fun u => S.u_del u =? b) l.
Proof.
  intros Hb. induction l as [|d t IH]; cbn [S.set_ubd filter]; [reflexivity|].
  destruct (S.ubd_is (S.u_del n) (S.u_val n) d) eqn:E.
  - unfold S.ubd_is in E. apply andb_prop in E. destruct E as [E _]. apply Z.eqb_eq in E. cbn [filter].
    destruct (S.u_del n =? b) eqn:E1; [apply Z.eqb_eq in E1; congruence|].
    destruct (S.u_del d =? b) eqn:E2; [apply Z.eqb_eq in E2; congruence | reflexivity].
  - cbn [filter]. rewrite IH. reflexivity.
Qed.

Lemma find_ubd_del del vl l u : S.find_ubd del vl l = Some u -> S.u_del u = del.
Proof.
  induction l as [|x t IH]; cbn [S.find_ubd]; [discriminate|].
  destruct (S.ubd_is del vl x) eqn:E; [|exact IH].
  intros H. injection H as <-. unfold S.ubd_is in E. apply andb_prop in E. destruct E as [E _]. apply Z.eqb_eq in E. exact E.
Qed.

Lemma unbond_frame st del vl sh st' iss b :
  S.unbond st del vl sh = Some (st', iss) -> b <> del -> untouched b st st'.
Proof.
  unfold S.unbond. destruct (S.find_dlg del vl (S.s_dels st)) as [d|]; [|discriminate].
  destruct (S.find_val vl (S.s_vals st)) as [v|]; [|discriminate].
  destruct (S.d_shares d <? sh); [discriminate|].
  destruct (if S.v_shares v - sh =? 0 then Some (S.v_tokens v) else _) as [i|]; [|discriminate].
  destruct (_ <? 0); [discriminate|]. intros H Hb. injection H as <- _.
  unfold untouched, dels_of, ubds_of. cbn [S.s_dels S.s_ubds]. split; [|reflexivity].
  destruct (S.d_shares d - sh =? 0); [apply filter_remove_dlg; exact Hb | apply filter_set_dlg; exact Hb].
Qed.

Lemma move_tokens_frame vr st status amount st' b :
  S.move_tokens vr st status amount = Some st' -> untouched b st st'.
Proof.
  unfold S.move_tokens. destruct (amount <? 0); [discriminate|].
  destruct (status =? 3).
  - destruct (S.s_bonded st <? amount); [discriminate|]. intros H. injection H as <-. split; reflexivity.
  - destruct ((status =? 2) || ((status =? 1) && S.fix34 vr)); [|discriminate].
    destruct (S.s_notbonded st <? amount); [discriminate|]. intros H. injection H as <-. split; reflexivity.
Qed.

Lemma deduct_from_delegation_frame vr st del vl dt st' rem b :
  S.deduct_from_delegation vr st del vl dt = Some (st', rem) -> b <> del -> untouched b st st'.
Proof.
  unfold S.deduct_from_delegation. destruct (S.find_dlg del vl (S.s_dels st)) as [d|].
  2:{ intros H _. injection H as <- _. apply untouched_refl. }
  destruct (S.find_val vl (S.s_vals st)) as [v|]; [|discriminate].
  destruct (S.tokens_from_shares v (S.d_shares d)) as [cur|]; [|discriminate].
  destruct (if dt <=? cur then _ else _) as [[sh rm]|]; [|discriminate].
  destruct (sh =? 0).
  { intros H _. injection H as <- _. apply untouched_refl. }
  destruct (S.unbond st del vl sh) as [[st1 removed]|] eqn:Eu; [|discriminate].
  destruct (S.move_tokens vr st1 (S.v_status v) removed) as [st2|] eqn:Em; [|discriminate].
  intros H Hb. injection H as <- _.
  eapply untouched_trans; [eapply unbond_frame; eassumption | eapply move_tokens_frame; eassumption].
Qed.

Lemma deduct_unbonding_frame vr st u t st' tl b :
  S.deduct_unbonding vr st u t = Some (st', tl) -> b <> S.u_del u -> untouched b st st'.
Proof.
  unfold S.deduct_unbonding. destruct (S.u_entries u); [discriminate|].
  destruct (S.ubd_loop vr (z :: l) t) as [[[es' ra] tl']|]; [|discriminate].
  destruct ((ra <? 0) || (S.s_notbonded st <? ra)); [discriminate|].
  intros H Hb. injection H as <- _. unfold untouched, dels_of, ubds_of. cbn [S.s_dels S.s_ubds]. split; [reflexivity|].
  destruct es'; [apply filter_remove_ubd; exact Hb | apply filter_set_ubd; cbn [S.u_del]; exact Hb].
Qed.

Lemma undelegate_frame vr st del vl dt st' rem b :
  S.undelegate vr st del vl dt = Some (st', rem) -> b <> del -> untouched b st st'.
Proof.
  unfold S.undelegate. destruct (S.deduct_from_delegation vr st del vl dt) as [[st1 r]|] eqn:E1; [|discriminate].
  intros H Hb. pose proof (deduct_from_delegation_frame _ _ _ _ _ _ _ b E1 Hb) as H1.
  destruct (r =? 0). { injection H as <- _. exact H1. }
  destruct (S.find_ubd del vl (S.s_ubds st1)) as [u|] eqn:Eu.
  - apply find_ubd_del in Eu. eapply untouched_trans; [exact H1|].
    eapply deduct_unbonding_frame; [exact H | rewrite Eu; exact Hb].
  - injection H as <- _. exact H1.
Qed.

Lemma chase_all_frame vr del ds b : b <> del -> forall st remaining acc st' rec,
  S.chase_all vr st del ds remaining acc = Some (st', rec) -> untouched b st st'.
Proof.
  intros Hb. induction ds as [|d ds IH]; intros st remaining acc st' rec; cbn [S.chase_all].
  - destruct (remaining =? 0); [|discriminate]. intros H. injection H as <- _. apply untouched_refl.
  - destruct (remaining =? 0). { intros H. injection H as <- _. apply untouched_refl. }
    destruct (S.undelegate vr st del d (of_int remaining)) as [[st1 lft]|] eqn:E; [|discriminate].
    intros H. apply IH in H. eapply untouched_trans; [eapply undelegate_frame; eassumption | exact H].
Qed.

Lemma escrow_origin_frame vr reds st del vl share acc st' rec b :
  S.escrow_origin vr reds st del vl share acc = Some (st', rec) -> b <> del -> untouched b st st'.
Proof.
  unfold S.escrow_origin. destruct (S.undelegate vr st del vl (of_int share)) as [[st1 remaining]|] eqn:E; [|discriminate].
  intros H Hb. pose proof (undelegate_frame _ _ _ _ _ _ _ b E Hb) as H1.
  destruct (remaining =? 0). { injection H as <- _. exact H1. }
  destruct (S.fix38 vr).
  - eapply untouched_trans; [exact H1|]. eapply chase_all_frame; eassumption.
  - destruct (S.dsts reds del vl) as [|d ?]; [discriminate|].
    destruct (S.undelegate vr st1 del d (of_int remaining)) as [[st2 ?]|] eqn:E2; [|discriminate].
    injection H as <- _. eapply untouched_trans; [exact H1|]. eapply undelegate_frame; eassumption.
Qed.

Lemma escrow_loop_frame vr reds b os : ~ In b (map S.o_del os) -> forall st shs acc st' rec,
  S.escrow_loop vr reds st os shs acc = Some (st', rec) -> untouched b st st'.
Proof.
  induction os as [|o os IH]; intros Hb st shs acc st' rec; cbn [S.escrow_loop].
  - intros H. injection H as <- _. apply untouched_refl.
  - destruct shs as [|sh shs]. { intros H. injection H as <- _. apply untouched_refl. }
    destruct (S.escrow_origin vr reds st (S.o_del o) (S.o_val o) sh acc) as [[st1 acc1]|] eqn:E; [|discriminate].
    intros H. cbn [map In] in Hb. apply IH in H; [|tauto].
    eapply untouched_trans; [|exact H]. eapply escrow_origin_frame; [exact E|]. intros Heq. apply Hb. left. congruence.
Qed.

(* EscrowReporterStake takes stake from the delegators named in the snapshot of the disputed report and from nobody
   else: every other delegator keeps its delegations (shares) and its unbonding entries *)
Theorem escrow_frame vr reds st origins power amt st' rec b :
  S.escrow vr reds st origins power amt = Some (st', rec) -> ~ In b (map S.o_del origins) -> untouched b st st'.
Proof.
  unfold S.escrow. destruct origins as [|o os]. { intros H _. injection H as <- _. apply untouched_refl. }
  destruct (_ =? 0); [discriminate|]. destruct (_ && _); [discriminate|].
  intros H Hb. eapply escrow_loop_frame; eassumption.
Qed.

Lemma find_rep_set_frame n l a : a <> S.rs_acct n -> S.find_rep a (S.set_rep n l) = S.find_rep a l.
Proof.
  intros Ha. induction l as [|r t IH]; cbn [S.set_rep S.find_rep]; [reflexivity|].
  destruct (S.rs_acct r =? S.rs_acct n) eqn:E; cbn [S.find_rep].
  - apply Z.eqb_eq in E. rewrite E. destruct (S.rs_acct n =? a) eqn:E2; [apply Z.eqb_eq in E2; congruence | reflexivity].
  - destruct (S.rs_acct r =? a); [reflexivity | exact IH].
Qed.

(* no validator, delegation or unbonding entry of the slice differs, and the not-bonded pool is the same *)
Definition slice_same (a b : S.stk) : Prop :=
  S.s_vals a = S.s_vals b /\ S.s_dels a = S.s_dels b /\ S.s_ubds a = S.s_ubds b /\ S.s_notbonded a = S.s_notbonded b.

Lemma slice_same_untouched a b x : slice_same b a -> untouched x a b.
Proof. intros (_ & Hd & Hu & _). unfold untouched, dels_of, ubds_of. rewrite Hd, Hu. split; reflexivity. Qed.

(* ... hence the token value of everybody's delegations and unbonding entries (C11's [holdings]) is the same *)
Lemma slice_same_holdings a b d : slice_same a b -> S.holdings a d = S.holdings b d.
Proof.
  intros (Hv & Hd & Hu & _). unfold S.holdings. rewrite Hd, Hu. f_equal. f_equal.
  apply map_ext. intros x. unfold S.dlg_value. rewrite Hv. reflexivity.
Qed.

(* PayDisputeFee: the fee leaves the sender's liquid balance, or (from_bond) the sender's own bonded amount together
   with the bonded pool; nobody else's balance or bonded amount changes and no delegation of the slice is touched *)
Theorem pay_frame w sender amount fb w1 :
  S.pay w sender amount fb = Some w1 ->
  slice_same (S.w_stk w1) (S.w_stk w) /\
  S.s_escrow (S.w_stk w1) = S.s_escrow (S.w_stk w) + amount /\
  S.s_bonded (S.w_stk w1) = S.s_bonded (S.w_stk w) - (if fb then amount else 0) /\
  (forall b, b <> sender -> S.bond_get b (S.w_liq w1) = S.bond_get b (S.w_liq w) /\
                            S.bond_get b (S.w_bond w1) = S.bond_get b (S.w_bond w)) /\
  (if fb then S.w_liq w1 = S.w_liq w /\ amount <= S.bond_get sender (S.w_bond w)
   else S.w_bond w1 = S.w_bond w /\ amount <= S.bond_get sender (S.w_liq w)).
Proof.
  unfold S.pay. destruct fb.
  - destruct (S.bond_get sender (S.w_bond w) <? amount) eqn:E1; [discriminate|]. apply Z.ltb_ge in E1.
    destruct (S.s_bonded (S.w_stk w) <? amount); [discriminate|]. intros H. injection H as <-.
    cbn [S.w_stk S.w_liq S.w_bond S.s_vals S.s_dels S.s_ubds S.s_notbonded S.s_escrow S.s_bonded].
    split; [repeat split; reflexivity|]. split; [reflexivity|]. split; [reflexivity|].
    split; [|split; [reflexivity | exact E1]].
    intros b Hb. split; [reflexivity | apply bond_get_set_frame; exact Hb].
  - destruct (S.bond_get sender (S.w_liq w) <? amount) eqn:E1; [discriminate|]. apply Z.ltb_ge in E1.
    intros H. injection H as <-.
    cbn [S.w_stk S.w_liq S.w_bond S.s_vals S.s_dels S.s_ubds S.s_notbonded S.s_escrow S.s_bonded].
    split; [repeat split; reflexivity|]. split; [reflexivity|]. split; [lia|].
    split; [|split; [reflexivity | exact E1]].
    intros b Hb. split; [apply bond_get_set_frame; exact Hb | reflexivity].
Qed.

(* SlashAndJailReporter for dispute [id] about report r: it writes the escrow record of the dispute, takes stake
   only from the delegators of the snapshot taken for (query, reporter, height) of r, changes the jail record of
   the disputed reporter only, and no liquid balance or payer's bonded amount *)
Theorem slash_and_jail_frame vr e w id r cat w' :
  S.slash_and_jail vr e w id r cat = Some w' ->
  S.w_liq w' = S.w_liq w /\ S.w_bond w' = S.w_bond w /\
  In id (map S.rc_id (S.w_rcds w')) /\
  (forall a, a <> S.rp_reporter r -> S.find_rep a (S.w_reps w') = S.find_rep a (S.w_reps w)) /\
  exists s, S.find_snap (S.rp_qid r) (S.rp_reporter r) (S.rp_height r) (S.e_snaps e) = Some s /\
            forall b, ~ In b (map S.o_del (S.sn_origins s)) -> untouched b (S.w_stk w) (S.w_stk w').
Proof.
  unfold S.slash_and_jail. destruct (S.slash_pct cat) as [pct|]; [|discriminate].
  destruct (S.find_snap _ _ _ _) as [s|] eqn:Es; [|discriminate].
  destruct (S.escrow _ _ _ _ _ _) as [[st' recd]|] eqn:Ee; [|discriminate].
  assert (Hrec : forall l, In id (map S.rc_id (S.insert_rcd (S.Rcd id recd (S.slash_amount (S.rp_power r) pct)) l))).
  { intros l. apply SlashProofs.insert_rcd_ids. left. reflexivity. }
  destruct (S.jail_secs cat) as [secs|].
  - unfold S.jail. destruct (S.find_rep (S.rp_reporter r) (S.w_reps w)) as [old|]; [|discriminate].
    destruct (S.rs_jailed old); [discriminate|]. intros H. injection H as <-.
    cbn [S.w_liq S.w_bond S.w_rcds S.w_reps S.w_stk].
    split; [reflexivity|]. split; [reflexivity|]. split; [apply Hrec|].
    split; [intros a Ha; apply find_rep_set_frame; cbn [S.rs_acct]; exact Ha|].
    exists s. split; [reflexivity|]. intros b Hb. eapply escrow_frame; eassumption.
  - intros H. injection H as <-. cbn [S.w_liq S.w_bond S.w_rcds S.w_reps S.w_stk].
    split; [reflexivity|]. split; [reflexivity|]. split; [apply Hrec|]. split; [reflexivity|].
    exists s. split; [reflexivity|]. intros b Hb. eapply escrow_frame; eassumption.
Qed.

(* the three parts of the statement about a dispute message *)
(* only the sender pays, and only from the source named in the message *)
Definition payer_only (sender : Z) (fb : bool) (w w' : S.world) : Prop :=
  (forall b, b <> sender -> S.bond_get b (S.w_liq w') = S.bond_get b (S.w_liq w) /\
                            S.bond_get b (S.w_bond w') = S.bond_get b (S.w_bond w)) /\
  (if fb then S.w_liq w' = S.w_liq w else S.w_bond w' = S.w_bond w).
(* the dispute is not fully funded after the message: the staking slice is what the payment alone [w1] left - no
   delegation, unbonding entry or validator changed -, nobody is jailed, no aggregate flagged, no escrow record *)
Definition no_slash (w w1 w' : S.world) : Prop :=
  S.w_stk w' = S.w_stk w1 /\ slice_same (S.w_stk w') (S.w_stk w) /\
  S.w_reps w' = S.w_reps w /\ S.w_aggs w' = S.w_aggs w /\ S.w_rcds w' = S.w_rcds w.
(* the message completed the fee of dispute [id] about report r (first exception): the escrow record of the dispute
   exists, only the jail record of the disputed reporter changed, only the backers recorded for the report lost stake *)
Definition slashed_backers_only (e : S.env) (id : Z) (r : S.report) (w w' : S.world) : Prop :=
  In id (map S.rc_id (S.w_rcds w')) /\
  (forall a, a <> S.rp_reporter r -> S.find_rep a (S.w_reps w') = S.find_rep a (S.w_reps w)) /\
  exists s, S.find_snap (S.rp_qid r) (S.rp_reporter r) (S.rp_height r) (S.e_snaps e) = Some s /\
            forall b, ~ In b (map S.o_del (S.sn_origins s)) -> untouched b (S.w_stk w) (S.w_stk w').

Lemma after_pay_frame vr e w sender amount fb w1 id r cat :
  S.pay w sender amount fb = Some w1 ->
  (forall w2 ds, S.slash_and_jail vr e w1 id r cat = Some w2 ->
     payer_only sender fb w (S.with_disps w2 ds) /\ slashed_backers_only e id r w (S.with_disps w2 ds)) /\
  (forall ds, payer_only sender fb w (S.with_disps w1 ds) /\ no_slash w w1 (S.with_disps w1 ds)).
Proof.
  intros Hp. pose proof (pay_frame _ _ _ _ _ Hp) as (Hsl & _ & _ & Hoth & Hsrc).
  pose proof (SlashProofs.pay_inv _ _ _ _ _ Hp) as (_ & Hrc & _ & Hrp & Hag).
  split.
  - intros w2 ds Hs. pose proof (slash_and_jail_frame _ _ _ _ _ _ _ Hs) as (Hl & Hb & Hin & Hj & s & Hfs & Hu).
    unfold payer_only, slashed_backers_only, S.with_disps. cbn [S.w_liq S.w_bond S.w_rcds S.w_reps S.w_stk].
    rewrite Hl, Hb. split.
    + split; [exact Hoth|]. destruct fb; tauto.
    + split; [exact Hin|]. split; [intros a Ha; rewrite (Hj a Ha), Hrp; reflexivity|].
      exists s. split; [exact Hfs|]. intros b Hnb.
      eapply untouched_trans; [apply slice_same_untouched; exact Hsl | apply Hu; exact Hnb].
  - intros ds. unfold payer_only, no_slash, S.with_disps. cbn [S.w_liq S.w_bond S.w_rcds S.w_reps S.w_stk S.w_aggs].
    split; [split; [exact Hoth | destruct fb; tauto]|].
    split; [reflexivity|]. split; [exact Hsl|]. split; [exact Hrp|]. split; [exact Hag | exact Hrc].
Qed.

(* ProposeDispute *)
Theorem propose_frame vr e w sender r cat fee fb w' :
  S.propose vr e w sender r cat fee fb = Some w' ->
  exists dfee paid w1,
    S.dispute_fee (S.rp_power r) cat = Some dfee /\ paid = Z.min fee dfee /\ S.pay w sender paid fb = Some w1 /\
    payer_only sender fb w w' /\
    ((paid < dfee /\ no_slash w w1 w') \/
     (paid = dfee /\ slashed_backers_only e (S.next_id (S.w_disps w)) r w w')).
Proof.
  intros H. apply SlashProofs.propose_inv in H. destruct H as (_ & _ & dfee & paid & w1 & Hdf & Hpaid & Hpay & Hcases).
  exists dfee, paid, w1. split; [exact Hdf|]. split; [exact Hpaid|]. split; [exact Hpay|].
  pose proof (after_pay_frame vr e w sender paid fb w1 (S.next_id (S.w_disps w)) r cat Hpay) as [Hfun Hun].
  cbv zeta in Hcases. destruct Hcases as [(Heq & w2 & Hs & ->)|(Hlt & ->)].
  - match goal with |- payer_only _ _ _ (S.with_disps _ ?ds) /\ _ => destruct (Hfun w2 ds Hs) as [H1 H2] end.
    split; [exact H1|]. right. split; [exact Heq | exact H2].
  - match goal with |- payer_only _ _ _ (S.with_disps _ ?ds) /\ _ => destruct (Hun ds) as [H1 H2] end.
    split; [exact H1|]. left. split; [exact Hlt | exact H2].
Qed.

(* AddFeeToDispute *)
Theorem add_fee_frame vr e w sender id amount fb w' :
  S.add_fee vr e w sender id amount fb = Some w' ->
  exists d amt w1,
    S.find_disp id (S.w_disps w) = Some d /\ S.dp_fee_total d < S.dp_slash d /\
    amt = Z.min amount (S.dp_slash d - S.dp_fee_total d) /\ S.pay w sender amt fb = Some w1 /\
    payer_only sender fb w w' /\
    ((S.dp_fee_total d + amt < S.dp_slash d /\ no_slash w w1 w') \/
     (S.dp_fee_total d + amt = S.dp_slash d /\ slashed_backers_only e id (S.dp_report d) w w')).
Proof.
  intros H. apply SlashProofs.add_fee_inv in H.
  destruct H as (d & amt & w1 & Hfd & _ & _ & Hopen & _ & Hamt & Hpay & Hcases).
  exists d, amt, w1. split; [exact Hfd|]. split; [exact Hopen|]. split; [exact Hamt|]. split; [exact Hpay|].
  pose proof (after_pay_frame vr e w sender amt fb w1 id (S.dp_report d) (S.dp_cat d) Hpay) as [Hfun Hun].
  cbv zeta in Hcases. destruct Hcases as [(Heq & w2 & Hs & ->)|(Hlt & ->)].
  - match goal with |- payer_only _ _ _ (S.with_disps _ ?ds) /\ _ => destruct (Hfun w2 ds Hs) as [H1 H2] end.
    split; [exact H1|]. right. split; [exact Heq | exact H2].
  - match goal with |- payer_only _ _ _ (S.with_disps _ ?ds) /\ _ => destruct (Hun ds) as [H1 H2] end.
    split; [exact H1|]. left. split; [exact Hlt | exact H2].
Qed.

(* a begin block (dispute expiry) moves nothing *)
Theorem begin_block_frame w now :
  S.w_stk (S.begin_block w now) = S.w_stk w /\ S.w_liq (S.begin_block w now) = S.w_liq w /\
  S.w_bond (S.begin_block w now) = S.w_bond w /\ S.w_reps (S.begin_block w now) = S.w_reps w.
Proof. repeat split; reflexivity. Qed.

(* non-vacuity: payer 7 (liquid and bonded 100 TRB), bystander 8, reporter 3 backed by delegator 3 (10 TRB).
   A minor dispute (fee 0.5 TRB): paid in part nothing but 7's balance moves; paid in full - from the balance or from
   7's bonded amount - the backer loses the slash amount; 8 never changes *)
Definition ex_world : S.world :=
  S.W (S.w_stk SlashProofs.wit18_world) [S.Rps 3 false 0] [S.Agg 0 5 3 false] [] []
      [(7, 100000000); (8, 5000000)] [(7, 100000000); (8, 6000000)] 1700000100000000000.
Example dispute_frame_example :
  (exists w', S.propose S.current SlashProofs.wit18_env ex_world 7 SlashProofs.wit18_real 2 200000 false = Some w' /\
      S.bond_get 7 (S.w_liq w') = 100000000 - 200000 /\ S.bond_get 8 (S.w_liq w') = 6000000 /\
      S.holdings (S.w_stk w') 3 = S.holdings (S.w_stk ex_world) 3 /\ S.w_rcds w' = [] /\
      exists w'', S.add_fee S.current SlashProofs.wit18_env w' 8 1 300000 true = Some w'' /\
         S.bond_get 8 (S.w_bond w'') = 5000000 - 300000 /\ S.bond_get 7 (S.w_bond w'') = 100000000 /\
         S.w_liq w'' = S.w_liq w' /\ S.holdings (S.w_stk w'') 3 = S.holdings (S.w_stk ex_world) 3 - 500000 /\
         map S.rs_jailed (S.w_reps w'') = [true]) /\
  (exists w', S.propose S.current SlashProofs.wit18_env ex_world 7 SlashProofs.wit18_real 2 500000 true = Some w' /\
      S.bond_get 7 (S.w_bond w') = 100000000 - 500000 /\ S.w_liq w' = S.w_liq ex_world /\
      S.bond_get 8 (S.w_bond w') = 5000000 /\
      S.holdings (S.w_stk w') 3 = S.holdings (S.w_stk ex_world) 3 - 500000 /\ map S.rc_id (S.w_rcds w') = [1]).
Proof.
  split.
  - eexists. split; [vm_compute; reflexivity|]. split; [vm_compute; reflexivity|]. split; [vm_compute; reflexivity|].
    split; [vm_compute; reflexivity|]. split; [vm_compute; reflexivity|].
    eexists. split; [vm_compute; reflexivity|]. vm_compute. repeat split; reflexivity.
  - eexists. split; [vm_compute; reflexivity|]. vm_compute. repeat split; reflexivity.
Qed.

(* ================================================================================================= *)
(* (c) dispute settlement: WithdrawFeeRefund, ClaimReward, and the payments with per-account holdings    *)
(* ================================================================================================= *)
(* What the model records per account (accounts are positions of the vectors): the liquid balance [s_liq], the staked
   holdings [s_stk], the payer records [s_payers] (dispute id, account), the voters' records [s_rounds].
   Shared: the two trackers of the reporter module ([s_feetr]: origins of the fees paid from stake, [s_slashtr]:
   the escrowed stake of the disputed reporter's backers), dust, escrow balance, burnt supply.
   OWithdraw who id can be sent by anybody for the payer [who]; the signer of OClaim who id is [who]. *)
Definition tracker_origins (t : option D.tracker) : list (Z * Z) := match t with Some (os, _) => os | None => [] end.
(* the amounts of a tracker are amounts of coins *)
Definition tracker_nonneg (t : option D.tracker) : Prop :=
  match t with Some (os, tot) => 0 <= tot /\ Forall (fun o => 0 <= snd o) os | None => True end.
(* account b is one of the accounts of the list (accounts are list positions, [Z.to_nat]) *)
Definition acct_in (b : Z) (os : list (Z * Z)) : Prop := exists o, In o os /\ Z.to_nat (fst o) = Z.to_nat b.

Lemma nth_upd_nat_other l : forall i j d, i <> j -> nth j (D.upd_nat l i d) 0 = nth j l 0.
Proof.
  induction l as [|x t IH]; intros i j d Hij; cbn [D.upd_nat]; [reflexivity|].
  destruct i as [|i]; destruct j as [|j]; cbn [nth]; try reflexivity; [congruence|].
  apply IH. congruence.
Qed.

Lemma nth_upd_nat_ge l : forall i j d, 0 <= d -> nth j l 0 <= nth j (D.upd_nat l i d) 0.
Proof.
  induction l as [|x t IH]; intros i j d Hd; cbn [D.upd_nat]; [lia|].
  destruct i as [|i]; destruct j as [|j]; cbn [nth]; try lia. apply IH. exact Hd.
Qed.

Lemma getz_addz_other l i d j : Z.to_nat i <> Z.to_nat j -> D.getz (D.addz l i d) j = D.getz l j.
Proof. intros H. unfold D.getz, D.addz. apply nth_upd_nat_other. exact H. Qed.

Lemma getz_addz_ge l i d j : 0 <= d -> D.getz l j <= D.getz (D.addz l i d) j.
Proof. intros H. unfold D.getz, D.addz. apply nth_upd_nat_ge. exact H. Qed.

Lemma getz_add_all_ge os : Forall (fun o => 0 <= snd o) os -> forall l j, D.getz l j <= D.getz (D.add_all l os) j.
Proof.
  unfold D.add_all. induction os as [|o os IH]; intros Hf l j; cbn [fold_left]; [lia|].
  inversion Hf as [|? ? Ho Hrest]; subst.
  pose proof (getz_addz_ge l (fst o) (snd o) j Ho). pose proof (IH Hrest (D.addz l (fst o) (snd o)) j). lia.
Qed.

Lemma getz_add_all_other os j : ~ acct_in j os -> forall l, D.getz (D.add_all l os) j = D.getz l j.
Proof.
  unfold D.add_all. induction os as [|o os IH]; intros Hn l; cbn [fold_left]; [reflexivity|].
  rewrite IH.
  - apply getz_addz_other. intros Heq. apply Hn. exists o. split; [left; reflexivity | exact Heq].
  - intros (o' & Hin & Heq). apply Hn. exists o'. split; [right; exact Hin | exact Heq].
Qed.

Lemma acct_in_map (f : Z * Z -> Z * Z) os b : (forall o, fst (f o) = fst o) -> acct_in b (map f os) -> acct_in b os.
Proof.
  intros Hf (o & Hin & Heq). apply in_map_iff in Hin. destruct Hin as (o0 & <- & Hin0).
  exists o0. split; [exact Hin0 | rewrite <- Hf; exact Heq].
Qed.

Lemma fee_share_nonneg src amt total : 0 <= src -> 0 <= amt -> 0 < total -> 0 <= D.fee_share src amt total.
Proof.
  intros H1 H2 H3. unfold D.fee_share, truncate_int. apply Z.quot_pos; [|unfold P; lia].
  apply dec_quo_nonneg; [apply dec_mul_nonneg; unfold of_int, P; lia | unfold of_int, P; lia].
Qed.

(* between the two states: no balance and no staked holding went down; only [who]'s balance moved; staked holdings
   moved only for [who] and for the origins of the fee tracker [ft]; voters' records and the slash tracker stayed *)
Definition grows (who : Z) (ft : option D.tracker) (s s' : D.st) : Prop :=
  (forall b, D.getz (D.s_liq s) b <= D.getz (D.s_liq s') b) /\
  (forall b, D.getz (D.s_stk s) b <= D.getz (D.s_stk s') b) /\
  (forall b, Z.to_nat b <> Z.to_nat who -> D.getz (D.s_liq s') b = D.getz (D.s_liq s) b) /\
  (forall b, Z.to_nat b <> Z.to_nat who -> ~ acct_in b (tracker_origins ft) -> D.getz (D.s_stk s') b = D.getz (D.s_stk s) b) /\
  D.s_rounds s' = D.s_rounds s /\ D.s_slashtr s' = D.s_slashtr s.

Lemma grows_same who ft s s' :
  D.s_liq s' = D.s_liq s -> D.s_stk s' = D.s_stk s -> D.s_rounds s' = D.s_rounds s -> D.s_slashtr s' = D.s_slashtr s ->
  grows who ft s s'.
Proof. intros H1 H2 H3 H4. unfold grows. rewrite H1, H2. repeat split; intros; try lia; try reflexivity; assumption. Qed.

Lemma grows_trans who ft a b c : grows who ft a b -> grows who ft b c -> grows who ft a c.
Proof.
  intros (A1 & A2 & A3 & A4 & A5 & A6) (B1 & B2 & B3 & B4 & B5 & B6). unfold grows.
  split; [intros x; specialize (A1 x); specialize (B1 x); lia|].
  split; [intros x; specialize (A2 x); specialize (B2 x); lia|].
  split; [intros x Hx; rewrite (B3 x Hx); apply A3; exact Hx|].
  split; [intros x Hx Hn; rewrite (B4 x Hx Hn); apply A4; assumption|].
  split; congruence.
Qed.

Lemma refund_fee_grows s who p total fmb s1 f :
  D.refund_fee s who p total fmb = (s1, D.OK, f) -> tracker_nonneg (D.s_feetr s) -> grows who (D.s_feetr s) s s1.
Proof.
  unfold D.refund_fee. destruct (D.refund6 (D.p_amt p) fmb total <? 0) eqn:Ea; [intros H; inversion H|]. apply Z.ltb_ge in Ea.
  destruct (negb (D.p_bond p)).
  - destruct (D.s_esc s <? _); intros H Ht; inversion H; subst s1. unfold grows, D.set_money.
    cbn [D.s_liq D.s_stk D.s_rounds D.s_slashtr].
    split; [intros b; apply getz_addz_ge; exact Ea|]. split; [intros b; lia|].
    split; [intros b Hb; apply getz_addz_other; congruence|]. repeat split; reflexivity.
  - destruct (D.s_feetr s) as [[os tot]|] eqn:Eft; [|intros H; inversion H].
    destruct ((tot =? 0) && match os with [] => false | _ => true end) eqn:Ez; [intros H; inversion H|].
    destruct (D.s_esc s <? _); intros H Ht; inversion H; subst s1. unfold grows.
    cbn [D.s_liq D.s_stk D.s_rounds D.s_slashtr tracker_origins].
    split; [intros b; lia|].
    split.
    { intros b. apply getz_add_all_ge. cbn [tracker_nonneg] in Ht. destruct Ht as [Htot Hos].
      destruct os as [|o0 os0]; [constructor|].
      assert (Hpos : 0 < tot).
      { destruct (tot =? 0) eqn:E0; [cbn in Ez; discriminate|]. apply Z.eqb_neq in E0. lia. }
      apply Forall_forall. intros c Hc. apply in_map_iff in Hc. destruct Hc as (o & <- & Ho). cbn [snd].
      rewrite Forall_forall in Hos. apply fee_share_nonneg; [apply Hos; exact Ho | exact Ea | exact Hpos]. }
    split; [intros b _; reflexivity|].
    split; [|split; reflexivity].
    intros b _ Hn. apply getz_add_all_other. intros Hin. apply Hn.
    eapply acct_in_map; [|exact Hin]. intros o. reflexivity.
Qed.

Lemma reward_bond_grows s who p total bnd s2 f ft :
  D.reward_bond s who p total bnd = (s2, D.OK, f) -> grows who ft s s2 /\ D.s_feetr s2 = D.s_feetr s.
Proof.
  unfold D.reward_bond. destruct (D.bond6 (D.p_amt p) bnd total <? 0) eqn:Ea; [intros H; inversion H|]. apply Z.ltb_ge in Ea.
  destruct (D.s_esc s <? _); intros H; inversion H; subst s2. split; [|reflexivity].
  unfold grows, D.set_money. cbn [D.s_liq D.s_stk D.s_rounds D.s_slashtr].
  split; [intros b; lia|]. split; [intros b; apply getz_addz_ge; exact Ea|].
  split; [intros b _; reflexivity|]. split; [|split; reflexivity].
  intros b Hb _. apply getz_addz_other. congruence.
Qed.

Lemma finish_withdraw_grows s who id dust s3 ft :
  D.finish_withdraw s who id dust = (s3, D.OK) -> grows who ft s s3.
Proof.
  unfold D.finish_withdraw. destruct (negb _ && _); intros H; inversion H; subst s3.
  apply grows_same; reflexivity.
Qed.

Lemma find_payer_remove_frame ps id who id' b :
  (id', b) <> (id, who) -> D.find_payer (D.remove_payer ps id who) id' b = D.find_payer ps id' b.
Proof.
  intros Hne. unfold D.find_payer, D.remove_payer. induction ps as [|p ps IH]; cbn [filter find]; [reflexivity|].
  destruct ((D.p_id p =? id) && (D.p_who p =? who)) eqn:E; cbn [negb find].
  - apply andb_prop in E. destruct E as [E1 E2]. apply Z.eqb_eq in E1, E2.
    destruct ((D.p_id p =? id') && (D.p_who p =? b)) eqn:E'; [|exact IH].
    apply andb_prop in E'. destruct E' as [E3 E4]. apply Z.eqb_eq in E3, E4. exfalso. apply Hne. congruence.
  - destruct ((D.p_id p =? id') && (D.p_who p =? b)); [reflexivity | exact IH].
Qed.

(* WithdrawFeeRefund for payer [who] of dispute [id], whoever sends it: nobody's liquid balance or staked holding
   goes down; the only balance that moves is [who]'s; staked holdings move (up) only for [who] and for the accounts
   whose stake paid fees (the origins of the fee tracker); exactly the payer record (id, who) is deleted; voters'
   records are untouched.  [tracker_nonneg]: the amounts recorded in the fee tracker are not negative. *)
Theorem withdraw_frame s who id s' :
  D.withdraw s who id = (s', D.OK) -> tracker_nonneg (D.s_feetr s) ->
  grows who (D.s_feetr s) s s' /\
  D.s_payers s' = D.remove_payer (D.s_payers s) id who /\
  (forall id' b, (id', b) <> (id, who) -> D.find_payer (D.s_payers s') id' b = D.find_payer (D.s_payers s) id' b).
Proof.
  intros H Ht.
  assert (Hgoal : grows who (D.s_feetr s) s s' /\ D.s_payers s' = D.remove_payer (D.s_payers s) id who).
  2:{ destruct Hgoal as [Hg Hp]. split; [exact Hg|]. split; [exact Hp|].
      intros id' b Hne. rewrite Hp. apply find_payer_remove_frame. exact Hne. }
  revert H. unfold D.withdraw.
  destruct ((D.s_id s =? 0) || negb (existsb (Z.eqb id) (D.s_prev s))); [intros H; inversion H|].
  destruct (D.find_payer (D.s_payers s) id who) as [p|]; [|intros H; inversion H].
  destruct (negb (id =? D.s_id s)); [intros H; inversion H|].
  assert (Hsimple : forall fmb,
    match D.refund_fee s who p (D.s_feetotal s) fmb with
    | (s1, 0, f) => match D.finish_withdraw s1 who id (D.s_dust s + f) with (s3, 0) => (s3, D.OK) | (_, e) => (s, e) end
    | (_, e, _) => (s, e)
    end = (s', D.OK) -> grows who (D.s_feetr s) s s' /\ D.s_payers s' = D.remove_payer (D.s_payers s) id who).
  { intros fmb. destruct (D.refund_fee s who p _ _) as [[s1 e] f] eqn:E1. destruct e; try (intros H; inversion H; fail).
    destruct (D.finish_withdraw s1 who id _) as [s3 e3] eqn:E3. destruct e3; try (intros H; inversion H; fail).
    intros H; inversion H; subst s'. split.
    - eapply grows_trans; [eapply refund_fee_grows; eassumption | eapply finish_withdraw_grows; exact E3].
    - apply DisputeSettleProofs.finish_withdraw_payers in E3. rewrite E3.
      apply DisputeSettleProofs.refund_fee_payers in E1. rewrite E1. reflexivity. }
  destruct (D.s_status s =? D.Failed); [apply Hsimple|].
  destruct (D.s_status s =? D.Prevote); [intros H; inversion H|].
  destruct (negb (D.s_executed s)); [intros H; inversion H|].
  destruct (D.is_invalid (D.s_result s)); [apply Hsimple|].
  destruct (D.is_support (D.s_result s)); [|intros H; inversion H].
  destruct (D.refund_fee s who p _ _) as [[s1 e] f] eqn:E1. destruct e; try (intros H; inversion H; fail).
  destruct (D.reward_bond s1 who p _ _) as [[s2 e2] f2] eqn:E2. destruct e2; try (intros H; inversion H; fail).
  destruct (D.finish_withdraw s2 who id _) as [s3 e3] eqn:E3. destruct e3; try (intros H; inversion H; fail).
  intros H; inversion H; subst s'. split.
  - eapply grows_trans; [eapply refund_fee_grows; eassumption|].
    eapply grows_trans; [eapply reward_bond_grows; exact E2 | eapply finish_withdraw_grows; exact E3].
  - apply DisputeSettleProofs.finish_withdraw_payers in E3. rewrite E3.
    apply DisputeSettleProofs.reward_bond_payers in E2. rewrite E2.
    apply DisputeSettleProofs.refund_fee_payers in E1. rewrite E1. reflexivity.
Qed.

(* a refused WithdrawFeeRefund changes nothing *)
Theorem withdraw_refused_no_change s who id : snd (D.withdraw s who id) <> D.OK -> fst (D.withdraw s who id) = s.
Proof.
  unfold D.withdraw.
  destruct ((D.s_id s =? 0) || negb (existsb (Z.eqb id) (D.s_prev s))); [reflexivity|].
  destruct (D.find_payer (D.s_payers s) id who) as [p|]; [|reflexivity].
  destruct (negb (id =? D.s_id s)); [reflexivity|].
  assert (Hsimple : forall fmb x,
    x = match D.refund_fee s who p (D.s_feetotal s) fmb with
    | (s1, 0, f) => match D.finish_withdraw s1 who id (D.s_dust s + f) with (s3, 0) => (s3, D.OK) | (_, e) => (s, e) end
    | (_, e, _) => (s, e)
    end -> snd x <> D.OK -> fst x = s).
  { intros fmb x ->. destruct (D.refund_fee s who p _ _) as [[s1 e] f]. destruct e; try reflexivity.
    destruct (D.finish_withdraw s1 who id _) as [s3 e3]. destruct e3; try reflexivity. cbn. congruence. }
  destruct (D.s_status s =? D.Failed); [eapply Hsimple; reflexivity|].
  destruct (D.s_status s =? D.Prevote); [reflexivity|].
  destruct (negb (D.s_executed s)); [reflexivity|].
  destruct (D.is_invalid (D.s_result s)); [eapply Hsimple; reflexivity|].
  destruct (D.is_support (D.s_result s)); [|reflexivity].
  destruct (D.refund_fee s who p _ _) as [[s1 e] f]. destruct e; try reflexivity.
  destruct (D.reward_bond s1 who p _ _) as [[s2 e2] f2]. destruct e2; try reflexivity.
  destruct (D.finish_withdraw s2 who id _) as [s3 e3]. destruct e3; try reflexivity. cbn. congruence.
Qed.

(* the hypothesis on the tracker cannot be dropped: with a negative amount recorded for account 2 the refund of payer 1
   lowers the staked holdings of account 2 (not a state the reporter module writes: it records unbonded amounts) *)
Example withdraw_frame_needs_tracker_nonneg :
  exists s s', D.withdraw s 1 1 = (s', D.OK) /\ D.getz (D.s_stk s') 2 < D.getz (D.s_stk s) 2.
Proof.
  exists (D.ST 10 1 150000 7500 150000 0 D.Failed false false 0 false 5 1 [1] [D.PY 1 1 150000 true]
               (Some ([(1, 300000); (2, -150000)], 150000)) None [] 0 1000000 0 [0; 0; 0] [5000000; 5000000; 5000000]).
  eexists. split; [vm_compute; reflexivity|]. vm_compute. reflexivity.
Qed.

(* ---- ClaimReward -------------------------------------------------------------------------------------- *)
Lemma find_voters_map_frame who b l :
  b <> who ->
  find (fun v => D.v_who v =? b)
       (map (fun v => if D.v_who v =? who then D.VR (D.v_who v) (D.v_rep v) (D.v_th v) (D.v_tips_blk v) (D.v_tips_id v) true else v) l)
  = find (fun v => D.v_who v =? b) l.
Proof.
  intros Hb. induction l as [|v t IH]; cbn [map find]; [reflexivity|].
  destruct (D.v_who v =? who) eqn:E; cbn [D.v_who].
  - apply Z.eqb_eq in E. destruct (D.v_who v =? b) eqn:E2; [apply Z.eqb_eq in E2; congruence | exact IH].
  - destruct (D.v_who v =? b); [reflexivity | exact IH].
Qed.

Lemma find_voters_app_frame who b l x : b <> who -> D.v_who x = who ->
  find (fun v => D.v_who v =? b) (l ++ [x]) = find (fun v => D.v_who v =? b) l.
Proof.
  intros Hb Hx. induction l as [|v t IH]; cbn [app find].
  - destruct (D.v_who x =? b) eqn:E; [apply Z.eqb_eq in E; congruence | reflexivity].
  - destruct (D.v_who v =? b); [reflexivity | exact IH].
Qed.

Lemma find_voter_set_claimed rs id who i b :
  b <> who -> D.find_voter (D.set_claimed rs id who) i b = D.find_voter rs i b.
Proof.
  intros Hb. unfold D.find_voter, D.find_round, D.set_claimed.
  induction rs as [|r t IH]; cbn [map find]; [reflexivity|].
  destruct (D.r_id r =? id) eqn:E; cbn [D.r_id].
  - destruct (D.r_id r =? i); [|exact IH]. cbn [D.r_voters].
    destruct (existsb _ _); [apply find_voters_map_frame; exact Hb | apply (find_voters_app_frame who b); [exact Hb | reflexivity]].
  - destruct (D.r_id r =? i); [reflexivity | exact IH].
Qed.

Lemma counts_of_set_claimed rs id who i : D.counts_of (D.set_claimed rs id who) i = D.counts_of rs i.
Proof.
  unfold D.counts_of, D.find_round, D.set_claimed.
  induction rs as [|r t IH]; cbn [map find]; [reflexivity|].
  destruct (D.r_id r =? id) eqn:E; cbn [D.r_id].
  - destruct (D.r_id r =? i); [reflexivity | exact IH].
  - destruct (D.r_id r =? i); [reflexivity | exact IH].
Qed.

Lemma find_round_app rs x i :
  D.find_round (rs ++ [x]) i = match D.find_round rs i with Some r => Some r | None => if D.r_id x =? i then Some x else None end.
Proof.
  unfold D.find_round. induction rs as [|r t IH]; cbn [app find]; [reflexivity|].
  destruct (D.r_id r =? i); [reflexivity | exact IH].
Qed.

Lemma find_voter_ensure_round rs id i b : D.find_voter (D.ensure_round rs id) i b = D.find_voter rs i b.
Proof.
  unfold D.ensure_round. destruct (D.find_round rs id); [reflexivity|].
  unfold D.find_voter. rewrite find_round_app. destruct (D.find_round rs i); [reflexivity|].
  cbn [D.r_id]. destruct (id =? i); reflexivity.
Qed.

Lemma counts_of_ensure_round rs id i : D.counts_of (D.ensure_round rs id) i = D.counts_of rs i.
Proof.
  unfold D.ensure_round. destruct (D.find_round rs id); [reflexivity|].
  unfold D.counts_of. rewrite find_round_app. destruct (D.find_round rs i); [reflexivity|].
  cbn [D.r_id]. destruct (id =? i); reflexivity.
Qed.

(* ClaimReward of voter [who]: a positive reward leaves the escrow for [who]'s liquid balance; no other balance, no
   staked holding, no payer record and no other voter's record (claimed flag, recorded powers) changes *)
Theorem claim_frame fx s who id s' :
  D.claim fx s who id = (s', D.OK) ->
  D.s_stk s' = D.s_stk s /\ D.s_payers s' = D.s_payers s /\ D.s_feetr s' = D.s_feetr s /\ D.s_slashtr s' = D.s_slashtr s /\
  (exists r, 0 < r /\ D.s_liq s' = D.addz (D.s_liq s) who r /\ D.s_esc s' = D.s_esc s - r) /\
  (forall b, D.getz (D.s_liq s) b <= D.getz (D.s_liq s') b) /\
  (forall b, Z.to_nat b <> Z.to_nat who -> D.getz (D.s_liq s') b = D.getz (D.s_liq s) b) /\
  (forall i b, b <> who -> D.find_voter (D.s_rounds s') i b = D.find_voter (D.s_rounds s) i b) /\
  (forall i, D.counts_of (D.s_rounds s') i = D.counts_of (D.s_rounds s) i).
Proof.
  unfold D.claim.
  destruct ((D.s_id s =? 0) || negb (existsb (Z.eqb id) (D.s_prev s))); [intros H; inversion H|].
  destruct (negb (id =? D.s_id s)); [intros H; inversion H|].
  destruct (negb (D.s_status s =? D.Resolved)); [intros H; inversion H|].
  destruct (match D.find_voter (D.s_rounds s) id who with Some v => D.v_claimed v | None => false end); [intros H; inversion H|].
  destruct (negb (D.s_executed s)); [intros H; inversion H|].
  destruct (D.acc_powers fx (D.s_rounds s) who (D.s_prev s)) as [pw|]; [|intros H; inversion H].
  destruct (D.groups pw =? 0); [intros H; inversion H|].
  destruct (D.reward_of pw (D.s_reward s) =? 0) eqn:E0; [intros H; inversion H|]. apply Z.eqb_neq in E0.
  destruct (D.reward_of pw (D.s_reward s) <? 0) eqn:E1; [intros H; inversion H|]. apply Z.ltb_ge in E1.
  destruct (D.s_esc s <? _); [intros H; inversion H|].
  intros H. inversion H; subst s'. clear H.
  cbn [D.s_stk D.s_payers D.s_feetr D.s_slashtr D.s_liq D.s_esc D.s_rounds].
  split; [reflexivity|]. split; [reflexivity|]. split; [reflexivity|]. split; [reflexivity|].
  split; [exists (D.reward_of pw (D.s_reward s)); repeat split; try reflexivity; lia|].
  split; [intros b; apply getz_addz_ge; lia|].
  split; [intros b Hb; apply getz_addz_other; congruence|].
  split; [intros i b Hb; rewrite find_voter_set_claimed by exact Hb; apply find_voter_ensure_round|].
  intros i. rewrite counts_of_set_claimed. apply counts_of_ensure_round.
Qed.

(* ---- ProposeDispute / AddFeeToDispute with per-account holdings ------------------------------------------- *)
(* the accounts whose stake pays a fee "from bond": the origins the reporter module added to the fee tracker while
   unbonding for this payment (second exception: the stake selected to the paying reporter) *)
Definition pay_origins (s : D.st) (bond : bool) (ft : option D.tracker) : list (Z * Z) :=
  if bond then D.new_origins (D.s_feetr s) ft else [].

(* the shape of the holdings after an accepted payment: the fee leaves the payer's balance or (from bond) the staked
   holdings of [pay_origins]; the staked holdings of [slashed] - the backers of the disputed reporter in the snapshot
   [sl] - are escrowed only if the payment completed the fee (first exception) *)
Definition payment_shape (s s' : D.st) (who : Z) (bond : bool) (ft sl : option D.tracker) : Prop :=
  exists slashed,
    (slashed = [] \/ (D.s_feetotal s' = D.s_slash s' /\ D.s_status s' = D.Voting /\ exists t, sl = Some (slashed, t))) /\
    D.s_stk s' = D.add_all (D.add_all (D.s_stk s) (D.neg_all (pay_origins s bond ft))) (D.neg_all slashed) /\
    (if bond then D.s_liq s' = D.s_liq s else exists amt, D.s_liq s' = D.addz (D.s_liq s) who (- amt)) /\
    D.s_rounds s' = D.s_rounds s.

Lemma pay_shape s who amt bond ft s1 :
  D.pay s who amt bond ft = Some s1 ->
  D.s_stk s1 = D.add_all (D.s_stk s) (D.neg_all (pay_origins s bond ft)) /\
  (if bond then D.s_liq s1 = D.s_liq s else D.s_liq s1 = D.addz (D.s_liq s) who (- amt)) /\
  D.s_rounds s1 = D.s_rounds s /\ D.s_slash s1 = D.s_slash s.
Proof.
  unfold D.pay, pay_origins. destruct bond.
  - destruct ft as [t|]; [|discriminate]. destruct (D.tracker_same _ _); [discriminate|].
    intros H. injection H as <-. repeat split; reflexivity.
  - destruct (_ <? amt); [discriminate|]. intros H. injection H as <-. repeat split; reflexivity.
Qed.

Lemma funded_shape s1 total payers sl s2 :
  D.funded s1 total payers sl = Some s2 ->
  exists slashed,
    (slashed = [] \/ (D.s_feetotal s2 = D.s_slash s2 /\ D.s_status s2 = D.Voting /\ exists t, sl = Some (slashed, t))) /\
    D.s_stk s2 = D.add_all (D.s_stk s1) (D.neg_all slashed) /\ D.s_liq s2 = D.s_liq s1 /\ D.s_rounds s2 = D.s_rounds s1.
Proof.
  unfold D.funded. destruct (total =? D.s_slash s1) eqn:E.
  - apply Z.eqb_eq in E. destruct sl as [[os t]|]; [|discriminate]. intros H. injection H as <-.
    exists os. cbn. split; [right; split; [exact E|]; split; [reflexivity|]; exists t; reflexivity|]. repeat split; reflexivity.
  - intros H. injection H as <-. exists []. cbn. split; [left; reflexivity|]. repeat split; reflexivity.
Qed.

Lemma pay_funded_shape s0 who amt bond ft s1 total payers sl s2 :
  D.pay s0 who amt bond ft = Some s1 -> D.funded s1 total payers sl = Some s2 ->
  exists slashed,
    (slashed = [] \/ (D.s_feetotal s2 = D.s_slash s2 /\ D.s_status s2 = D.Voting /\ exists t, sl = Some (slashed, t))) /\
    D.s_stk s2 = D.add_all (D.add_all (D.s_stk s0) (D.neg_all (pay_origins s0 bond ft))) (D.neg_all slashed) /\
    (if bond then D.s_liq s2 = D.s_liq s0 else exists a, D.s_liq s2 = D.addz (D.s_liq s0) who (- a)) /\
    D.s_rounds s2 = D.s_rounds s0.
Proof.
  intros Hp Hf. apply pay_shape in Hp. destruct Hp as (P1 & P2 & P3 & _).
  apply funded_shape in Hf. destruct Hf as (slashed & F0 & F1 & F2 & F3).
  exists slashed. split; [exact F0|]. split; [rewrite F1, P1; reflexivity|].
  split; [destruct bond; [congruence | exists amt; congruence]|]. congruence.
Qed.

Theorem propose_payment_shape fx SS s who fee bond ft sl s' :
  D.propose fx SS s who fee bond ft sl = (s', D.OK) -> payment_shape s s' who bond ft sl.
Proof.
  unfold D.propose, payment_shape. destruct (fee <? D.MIN_FEE); [intros H; inversion H|].
  destruct (D.s_id s =? 0).
  - match goal with |- (match D.pay ?s0 _ ?amt _ _ with _ => _ end) = _ -> _ => destruct (D.pay s0 who amt bond ft) as [s1|] eqn:Ep end;
      [|intros H; inversion H].
    destruct (D.funded s1 _ _ sl) as [s2|] eqn:Ef; [|intros H; inversion H].
    intros H. inversion H; subst s'. exact (pay_funded_shape _ _ _ _ _ _ _ _ _ _ Ep Ef).
  - destruct (negb _ || negb _); [intros H; inversion H|]. destruct (D.s_end s <? D.s_now s); [intros H; inversion H|].
    destruct (fee <? _); [intros H; inversion H|].
    destruct (D.pay s who _ bond ft) as [s1|] eqn:Ep; [|intros H; inversion H].
    intros H. inversion H; subst s'. apply pay_shape in Ep. destruct Ep as (P1 & P2 & P3 & _).
    exists []. cbn [D.s_stk D.s_liq D.s_rounds D.neg_all map D.add_all fold_left].
    split; [left; reflexivity|]. split; [exact P1|]. split; [destruct bond; [exact P2 | eexists; exact P2]|]. exact P3.
Qed.

Theorem add_fee_payment_shape fx reporter s who id fee bond ft sl s' :
  D.add_fee fx reporter s who id fee bond ft sl = (s', D.OK) -> payment_shape s s' who bond ft sl.
Proof.
  unfold D.add_fee, payment_shape. destruct (fee <=? 0); [intros H; inversion H|].
  destruct (negb _ || _); [intros H; inversion H|]. destruct ((who =? reporter) && bond); [intros H; inversion H|].
  destruct (D.s_end s <? D.s_now s); [intros H; inversion H|]. destruct (D.s_slash s <=? D.s_feetotal s); [intros H; inversion H|].
  destruct (D.pay s who _ bond ft) as [s1|] eqn:Ep; [|intros H; inversion H].
  destruct (D.funded s1 _ _ sl) as [s2|] eqn:Ef; [|intros H; inversion H].
  intros H. inversion H; subst s'. exact (pay_funded_shape _ _ _ _ _ _ _ _ _ _ Ep Ef).
Qed.

Lemma acct_in_neg_all b os : acct_in b (D.neg_all os) -> acct_in b os.
Proof. unfold D.neg_all. apply acct_in_map. intros o. reflexivity. Qed.

(* read per account: only the payer's balance moves; a staked holding moves only for an origin of the payment from bond
   or - when the payment completed the fee - for a backer of the disputed reporter *)
Lemma acct_in_dec b os : {acct_in b os} + {~ acct_in b os}.
Proof.
  induction os as [|o os IH].
  - right. intros (o & [] & _).
  - destruct (Nat.eq_dec (Z.to_nat (fst o)) (Z.to_nat b)) as [E|E].
    + left. exists o. split; [left; reflexivity | exact E].
    + destruct IH as [IH|IH].
      * left. destruct IH as (o' & Hin & Heq). exists o'. split; [right; exact Hin | exact Heq].
      * right. intros (o' & [<-|Hin] & Heq); [apply E; exact Heq | apply IH; exists o'; split; assumption].
Qed.

Theorem payment_frame s s' who bond ft sl :
  payment_shape s s' who bond ft sl ->
  (forall b, Z.to_nat b <> Z.to_nat who -> D.getz (D.s_liq s') b = D.getz (D.s_liq s) b) /\
  (bond = true -> D.s_liq s' = D.s_liq s) /\
  (forall b, D.getz (D.s_stk s') b <> D.getz (D.s_stk s) b ->
     (bond = true /\ acct_in b (D.new_origins (D.s_feetr s) ft)) \/
     (D.s_feetotal s' = D.s_slash s' /\ D.s_status s' = D.Voting /\ acct_in b (tracker_origins sl))).
Proof.
  intros (slashed & Hsl & Hstk & Hliq & _). split; [|split].
  - intros b Hb. destruct bond; [rewrite Hliq; reflexivity|]. destruct Hliq as [amt ->]. apply getz_addz_other. congruence.
  - intros ->. exact Hliq.
  - intros b Hne.
    destruct (acct_in_dec b (pay_origins s bond ft)) as [Hin1|Hn1].
    + left. unfold pay_origins in Hin1. destruct bond; [split; [reflexivity | exact Hin1]|]. destruct Hin1 as (o & [] & _).
    + destruct (acct_in_dec b slashed) as [Hin2|Hn2].
      * right. destruct Hsl as [->|(H1 & H2 & t & ->)]; [destruct Hin2 as (o & [] & _)|]. cbn [tracker_origins]. auto.
      * exfalso. apply Hne. rewrite Hstk.
        rewrite getz_add_all_other by (intros H; apply Hn2; apply acct_in_neg_all; exact H).
        apply getz_add_all_other. intros H; apply Hn1; apply acct_in_neg_all; exact H.
Qed.

(* non-vacuity, on the history of finding F23 (accounts: 0 disputed reporter, 1 and 2 pay half of the fee each from
   stake; the dispute is funded by the second payment, voted invalid and executed): the payments take stake only from
   the payer's origins and - the second one - from the reporter; the refund of payer 1 raises staked holdings of the
   two tracker origins and removes exactly the record (1, 1); voter 1's reward changes only 1's balance *)
Definition ex_settled : D.st :=
  D.run (DisputeSettleProofs.V true true true) DisputeSettleProofs.cfg0 DisputeSettleProofs.st0
        ([D.OPropose 1 75000 true DisputeSettleProofs.feetr1 None;
          D.OAddFee 2 1 75000 true DisputeSettleProofs.feetr2 DisputeSettleProofs.snap] ++ DisputeSettleProofs.settle_invalid).
Example settlement_frame_example :
  (let '(s1, r1) := D.propose true 150000 DisputeSettleProofs.st0 1 75000 true DisputeSettleProofs.feetr1 None in
   r1 = D.OK /\ D.s_stk s1 = [10000000; 4925000; 5000000] /\ D.s_liq s1 = D.s_liq DisputeSettleProofs.st0 /\
   let '(s2, r2) := D.add_fee true 0 s1 2 1 75000 true DisputeSettleProofs.feetr2 DisputeSettleProofs.snap in
   r2 = D.OK /\ D.s_stk s2 = [9850000; 4925000; 4925000] /\ D.s_feetotal s2 = D.s_slash s2) /\
  tracker_nonneg (D.s_feetr ex_settled) /\
  (exists s', D.withdraw ex_settled 1 1 = (s', D.OK) /\ D.s_liq s' = D.s_liq ex_settled /\
      D.s_stk ex_settled = [10000000; 4925000; 4925000] /\ D.s_stk s' = [10000000; 4960625; 4960625] /\
      D.find_payer (D.s_payers s') 1 1 = None /\ D.find_payer (D.s_payers s') 1 2 = Some (D.PY 1 2 75000 true)) /\
  (exists s', D.claim true ex_settled 1 1 = (s', D.OK) /\ D.s_liq s' = [0; 1003750; 1000000] /\
      D.s_liq ex_settled = [0; 1000000; 1000000]).
Proof.
  split; [vm_compute; repeat split; reflexivity|].
  split; [vm_compute; split; [discriminate | repeat constructor; discriminate]|].
  split; eexists; (split; [vm_compute; reflexivity|]); vm_compute; repeat split; reflexivity.
Qed.

(* ================================================================================================= *)
(* (d) tips, reports, the oracle end blocker, reward credits                                            *)
(* ================================================================================================= *)
(* Model/OracleRound.v records no balance, stake or credit at all (the bank part of a tip and the reporter's stake
   are inputs of its operations).  Per account it has the reports, keyed (query, reporter, round): a tip and the
   end blocker leave every report as it is; SubmitValue, signed by [reporter], writes a report of that reporter only *)
Definition reports_by (l : list O.report) (b : Z) : list O.report := filter (fun r => O.rp_reporter r =? b) l.

Lemma reports_by_set r l b : b <> O.rp_reporter r -> reports_by (O.rep_set r l) b = reports_by l b.
Proof.
  intros Hb. unfold reports_by, O.rep_set. induction l as [|y t IH]; cbn [O.sset filter].
  - destruct (O.rp_reporter r =? b) eqn:E; [apply Z.eqb_eq in E; congruence | reflexivity].
  - destruct (O.rep_key_eq r y) eqn:Ek.
    + unfold O.rep_key_eq in Ek. apply andb_prop in Ek. destruct Ek as [Ek _]. apply andb_prop in Ek. destruct Ek as [_ Ek].
      apply Z.eqb_eq in Ek. cbn [filter].
      destruct (O.rp_reporter r =? b) eqn:E; [apply Z.eqb_eq in E; congruence|].
      destruct (O.rp_reporter y =? b) eqn:E2; [apply Z.eqb_eq in E2; congruence | reflexivity].
    + destruct (O.rep_lt r y); cbn [filter].
      * destruct (O.rp_reporter r =? b) eqn:E; [apply Z.eqb_eq in E; congruence | reflexivity].
      * rewrite IH. reflexivity.
Qed.

Theorem oracle_tip_keeps_reports s h q amt s' : O.tip s h q amt = Some s' -> O.o_reports s' = O.o_reports s.
Proof.
  unfold O.tip. destruct (O.current_query _ _) as [m|].
  - intros H. injection H as <-. reflexivity.
  - unfold O.initialize_query. destruct (O.spec_window s (O.qi_kind q)); [|discriminate].
    intros H. injection H as <-. reflexivity.
Qed.

Lemma set_value_reports s h m reporter power incycle ok s' b :
  O.set_value s h m reporter power incycle ok = inl s' -> b <> reporter ->
  reports_by (O.o_reports s') b = reports_by (O.o_reports s) b.
Proof.
  unfold O.set_value. destruct (negb ok); [discriminate|]. intros H Hb. injection H as <-.
  cbn [O.o_reports]. apply reports_by_set. cbn [O.rp_reporter]. exact Hb.
Qed.

Lemma deposit_reveal_reports s h m reporter power ok s' b :
  O.deposit_reveal s h m reporter power ok = inl s' -> b <> reporter ->
  reports_by (O.o_reports s') b = reports_by (O.o_reports s) b.
Proof.
  unfold O.deposit_reveal.
  destruct ((O.m_amount m =? 0) && (O.m_expiration m <=? h)).
  - destruct (_ <? h); [discriminate|]. intros H Hb. apply (set_value_reports _ _ _ _ _ _ _ _ b) in H; [|exact Hb]. exact H.
  - destruct ((0 <? O.m_amount m) && (O.m_expiration m <=? h)).
    + destruct (_ <? h); [discriminate|]. intros H Hb. apply (set_value_reports _ _ _ _ _ _ _ _ b) in H; [|exact Hb]. exact H.
    + destruct (_ <? h); [discriminate|]. intros H Hb. apply (set_value_reports _ _ _ _ _ _ _ _ b) in H; [|exact Hb]. exact H.
Qed.

Theorem oracle_submit_writes_own_report s h q reporter stake min_stake ok s' b :
  O.submit_value s h q reporter stake min_stake ok = inl s' -> b <> reporter ->
  reports_by (O.o_reports s') b = reports_by (O.o_reports s) b.
Proof.
  unfold O.submit_value. intros H Hb.
  destruct (O.qi_kind q) eqn:Ek; try discriminate.
  - (* spot price *)
    destruct stake as [st|]; [|discriminate]. destruct (st <? min_stake); [discriminate|].
    destruct (O.current_query (O.qi_id q) (O.o_queries s)) as [m|]; cbn [negb] in H; [|discriminate].
    destruct ((O.m_amount m =? 0) && negb (O.m_cycle m)); [discriminate|].
    destruct (O.m_expiration m <? h); [discriminate|].
    apply (set_value_reports _ _ _ _ _ _ _ _ b) in H; [exact H | exact Hb].
  - (* bridge deposit *)
    destruct stake as [st|]; [|discriminate]. destruct (st <? min_stake); [discriminate|].
    destruct (O.current_query (O.qi_id q) (O.o_queries s)) as [m|]; cbn [negb] in H.
    + apply (deposit_reveal_reports _ _ _ _ _ _ _ b) in H; [exact H | exact Hb].
    + apply (deposit_reveal_reports _ _ _ _ _ _ _ b) in H; [exact H | exact Hb].
  - (* no data spec *)
    destruct stake as [st|]; [|discriminate]. destruct (st <? min_stake); [discriminate|].
    destruct (O.current_query (O.qi_id q) (O.o_queries s)) as [m|]; cbn [negb] in H; [|discriminate].
    destruct ((O.m_amount m =? 0) && negb (O.m_cycle m)); [discriminate|].
    destruct (O.m_expiration m <? h); discriminate.
Qed.

Lemma set_aggregated_reports s h ts : O.o_reports (O.set_aggregated_report s h ts) = O.o_reports s.
Proof.
  unfold O.set_aggregated_report. generalize (O.o_queries s) as l. intros l. revert s.
  induction l as [|m t IH]; intros s; cbn [fold_left]; [reflexivity|].
  rewrite IH. destruct (O.m_has_reports m && (O.m_expiration m <=? h)); reflexivity.
Qed.

Lemma do_rotate_reports s h k s' : O.do_rotate s h k = Some s' -> O.o_reports s' = O.o_reports s.
Proof.
  unfold O.do_rotate. destruct (O.nth_z _ _) as [qid|]; [|discriminate]. cbv zeta.
  destruct (O.current_query qid _) as [m|].
  - destruct (negb (O.m_amount m =? 0)); intros H; injection H as <-; reflexivity.
  - unfold O.initialize_query. destruct (O.spec_window _ _); [|discriminate]. intros H. injection H as <-. reflexivity.
Qed.

Theorem oracle_end_block_keeps_reports s h ts k s' : O.end_block s h ts k = Some s' -> O.o_reports s' = O.o_reports s.
Proof.
  unfold O.end_block, O.rotate. intros H. rewrite <- (set_aggregated_reports s h ts).
  destruct (O.nth_z _ _) as [cur|]; [|discriminate].
  destruct (O.current_query cur _) as [m|].
  - destruct (h <? O.m_expiration m); [injection H as <-; reflexivity | apply do_rotate_reports in H; exact H].
  - apply do_rotate_reports in H. exact H.
Qed.

(* Model/Escrow.v keeps everything held outside the module accounts as ONE number [e_users] (it does not tell users
   apart), the selectors' reward credits [e_credits] (10^-18 units) and the bonded pool.
   A tip takes coins from the users' side only - by exactly the tipped amount, which the users' side covers -, and
   touches no credit; no other operation lowers [e_users] *)
Theorem escrow_tip_frame s q a s' :
  E.estep s (E.ETip q a) = Some s' ->
  0 < a <= E.e_users s /\ E.e_users s' = E.e_users s - a /\
  E.e_credits s' = E.e_credits s /\ E.e_bonded s' = E.e_bonded s /\ E.e_tips s' = E.e_tips s.
Proof.
  cbn [E.estep]. destruct ((0 <? a) && (a <=? E.e_users s)) eqn:Ec; [|discriminate].
  apply andb_prop in Ec. destruct Ec as [E1 E2]. apply Z.ltb_lt in E1. apply Z.leb_le in E2.
  intros H. injection H as <-. cbn. repeat split; try reflexivity; lia.
Qed.

Theorem escrow_users_only_by_tip s o s' :
  E.estep s o = Some s' -> (forall q a, o <> E.ETip q a) -> E.e_users s' = E.e_users s.
Proof.
  intros H Hn. destruct o as [q a|q cs|cs|sel|p]; cbn [E.estep] in H.
  - exfalso. apply (Hn q a). reflexivity.
  - destruct (_ && _); [|discriminate]. injection H as <-. reflexivity.
  - destruct (_ && _); [|discriminate]. injection H as <-. reflexivity.
  - destruct (0 <? _); [|discriminate]. injection H as <-. reflexivity.
  - destruct (0 <=? p); [|discriminate]. injection H as <-. reflexivity.
Qed.

Lemma owed_get_set_frame q v l b : b <> q -> E.owed_get b (E.owed_set q v l) = E.owed_get b l.
Proof.
  intros Hb. induction l as [|x t IH]; cbn [E.owed_set E.owed_get fst snd].
  - destruct (q =? b) eqn:E; [apply Z.eqb_eq in E; congruence | reflexivity].
  - destruct (fst x =? q) eqn:E; cbn [E.owed_get fst snd].
    + apply Z.eqb_eq in E. rewrite E. destruct (q =? b) eqn:E2; [apply Z.eqb_eq in E2; congruence | reflexivity].
    + destruct (fst x =? b); [reflexivity | exact IH].
Qed.

Lemma owed_get_set_same q v l : E.owed_get q (E.owed_set q v l) = v.
Proof.
  induction l as [|x t IH]; cbn [E.owed_set E.owed_get fst snd].
  - rewrite Z.eqb_refl. reflexivity.
  - destruct (fst x =? q) eqn:E; cbn [E.owed_get fst snd]; [rewrite Z.eqb_refl; reflexivity | rewrite E; exact IH].
Qed.

Lemma owed_get_credit_add s v l b : E.owed_get b (E.credit_add s v l) = E.owed_get b l + (if s =? b then v else 0).
Proof.
  induction l as [|x t IH]; cbn [E.credit_add E.owed_get fst snd].
  - destruct (s =? b); lia.
  - destruct (fst x =? s) eqn:E; cbn [E.owed_get fst snd].
    + apply Z.eqb_eq in E. rewrite E. destruct (s =? b); lia.
    + destruct (fst x =? b) eqn:E2; [|exact IH].
      destruct (s =? b) eqn:E3; [|lia]. apply Z.eqb_eq in E2, E3. apply Z.eqb_neq in E. lia.
Qed.

Lemma owed_get_credits_add_ge cs : Forall (fun c => 0 <= snd c) cs -> forall l b, E.owed_get b l <= E.owed_get b (E.credits_add cs l).
Proof.
  unfold E.credits_add. induction cs as [|c cs IH]; intros Hf l b; cbn [fold_left]; [lia|].
  inversion Hf as [|? ? Hc Hrest]; subst. specialize (IH Hrest (E.credit_add (fst c) (snd c) l) b).
  rewrite owed_get_credit_add in IH. destruct (fst c =? b); lia.
Qed.

Lemma payout_ok_nonneg m cs : E.payout_ok m cs = true -> Forall (fun c => 0 <= snd c) cs.
Proof.
  unfold E.payout_ok. intros H. apply andb_prop in H. destruct H as [H _]. rewrite forallb_forall in H.
  apply Forall_forall. intros c Hc. apply Z.leb_le. apply H. exact Hc.
Qed.

(* reward credits: whatever the operation (tip, payout of a tip at aggregation, payout of the time-based rewards,
   mint), no selector's credit goes down - except the credit of the selector that signs WithdrawTip *)
Theorem escrow_credits_frame s o s' b :
  E.estep s o = Some s' -> o <> E.EWithdrawTip b -> E.owed_get b (E.e_credits s) <= E.owed_get b (E.e_credits s').
Proof.
  intros H Hn. destruct o as [q a|q cs|cs|sel|p]; cbn [E.estep] in H.
  - destruct (_ && _); [|discriminate]. injection H as <-. cbn. lia.
  - destruct (_ && E.payout_ok _ cs) eqn:Ec; [|discriminate]. apply andb_prop in Ec. destruct Ec as [_ Ec].
    injection H as <-. cbn [E.e_credits]. apply owed_get_credits_add_ge. eapply payout_ok_nonneg. exact Ec.
  - destruct (_ && E.payout_ok _ cs) eqn:Ec; [|discriminate]. apply andb_prop in Ec. destruct Ec as [_ Ec].
    injection H as <-. cbn [E.e_credits]. apply owed_get_credits_add_ge. eapply payout_ok_nonneg. exact Ec.
  - destruct (0 <? _); [|discriminate]. injection H as <-. cbn [E.e_credits].
    rewrite owed_get_set_frame; [lia|]. intros ->. apply Hn. reflexivity.
  - destruct (0 <=? p); [|discriminate]. injection H as <-. cbn. lia.
Qed.

(* WithdrawTip of selector [sel]: the whole units of ITS credit leave the tips pool for the bonded pool (its stake);
   the fraction below one unit stays credited; every other selector's credit and the users' side are untouched *)
Theorem escrow_withdraw_tip_frame s sel s' :
  E.estep s (E.EWithdrawTip sel) = Some s' ->
  let c := E.owed_get sel (E.e_credits s) in
  0 < c / P /\
  E.owed_get sel (E.e_credits s') = c - (c / P) * P /\ 0 <= E.owed_get sel (E.e_credits s') < P /\
  E.e_bonded s' = E.e_bonded s + c / P /\ E.e_tips s' = E.e_tips s - c / P /\ E.e_users s' = E.e_users s /\
  forall b, b <> sel -> E.owed_get b (E.e_credits s') = E.owed_get b (E.e_credits s).
Proof.
  cbn [E.estep]. cbv zeta. destruct (0 <? E.owed_get sel (E.e_credits s) / P) eqn:Ec; [|discriminate].
  apply Z.ltb_lt in Ec. intros H. injection H as <-. cbn [E.e_credits E.e_bonded E.e_tips E.e_users].
  rewrite owed_get_set_same.
  split; [exact Ec|]. split; [reflexivity|].
  split; [pose proof (Z.mod_pos_bound (E.owed_get sel (E.e_credits s)) P P_pos) as Hm;
          rewrite Z.mod_eq in Hm by (unfold P; lia); lia|].
  split; [reflexivity|]. split; [reflexivity|]. split; [reflexivity|].
  intros b Hb. apply owed_get_set_frame. exact Hb.
Qed.

(* non-vacuity: a tip of 100 units, its payout to selectors 5 and 6, selector 5 withdraws one whole unit *)
Example escrow_frame_example :
  exists s1 s2 s3,
    E.estep (E.einit 1000) (E.ETip 1 100) = Some s1 /\ E.e_users s1 = 900 /\
    E.estep s1 (E.EPayTip 1 [(5, 3 * P / 2); (6, 98 * P - 3 * P / 2)]) = Some s2 /\
    E.owed_get 5 (E.e_credits s2) = 3 * P / 2 /\
    E.estep s2 (E.EWithdrawTip 5) = Some s3 /\
    E.owed_get 5 (E.e_credits s3) = P / 2 /\ E.owed_get 6 (E.e_credits s3) = E.owed_get 6 (E.e_credits s2) /\
    E.e_bonded s3 = 1.
Proof.
  eexists. eexists. eexists.
  split; [vm_compute; reflexivity|]. split; [vm_compute; reflexivity|].
  split; [vm_compute; reflexivity|]. split; [vm_compute; reflexivity|].
  split; [vm_compute; reflexivity|]. vm_compute. repeat split; reflexivity.
Qed.
