(* C04 — the dispute clause ("the dispute account holds at least the escrowed stake, fees and unclaimed voter
   rewards of unsettled disputes; no withdrawal or claim the ledger entitles a user to fails for lack of funds")
   proved on the settlement model Model/DisputeSettle.v (owner C13; its tie to the Go code is C13's correspondence
   check, [repo_variant] = the code in /repo).

   What the escrow owes in a state is [liabilities12] (in 10^-6 loya, the unit of the model's dust store) and
   [liabilities] (whole loya, rounded up).  It is stated with the model's OWN refund and reward functions, so it is
   exact for the model, including the open findings F21 (a failed dispute refunds 5 % of the fees only: the rest is
   not a liability of the model because no operation pays it out) and C13a (a pot nobody can claim is not a liability).

   RESTRICTIONS (all explicit in the statements):
   * fees are paid from accounts and the lineage has one round: this is [op_ok] / [env_ok] of NoHaltProofs.Settle.
     With payments from stake the statement is FALSE (open finding C13b, NoHaltProofs.Settle.stake_shortfall_halts_refuted),
     with several rounds the refund ledger of the earlier rounds is never paid (F22) and the escrow facts of [sinv]
     do not hold;
   * [c_S c <= P] (the dispute fee is below 10^18 loya): the Dec quotients are then exact floors;
   * [pot_covers]: when ExecuteVote runs, the recorded votes (owner C12) are such that CalculateReward's shares of the
     recorded, unclaimed voters add up to at most the pot.  This is arithmetic of [reward_of] over consistent vote
     records (banker's rounding at the 18th decimal); it is NOT proved here, it is what C13's spec clause "the rewards
     paid exceed the voters' pot" and C04_check_voter_pot check on the real application. *)
From Coq Require Import ZArith List Bool Lia String.
From Verif Require Import Base.Harness Base.Dec Model.DisputeSettle Proofs.DisputeSettleProofs.
From Verif Require Import Proofs.DisputeBondArith.
From Verif Require Proofs.NoHaltProofs.
Import ListNotations.
Import NoHaltProofs.Settle.
Open Scope Z_scope.

Ltac neq := let Hc := fresh "Hc" in intro Hc; vm_compute in Hc; discriminate Hc.

(* ================================================================================================ *)
(*  definitions                                                                                       *)
(* ================================================================================================ *)
(* what one payout of WithdrawFeeRefund takes out of the escrow for a record, whole loya and fraction together *)
Definition ref12 (f m t : Z) : Z := refund6 f m t * PR6 + refund_rem f m t.
Definition bnd12 (f b t : Z) : Z := bond6 f b t * PR6 + bond_rem f b t.
Definition failed_fmb (s : st) : Z := truncate_int (dec_quo (of_int (s_feetotal s)) (of_int 20)).

(* a payer record's refund, as [withdraw] computes it in this state *)
Definition due12 (s : st) (p : payer) : Z :=
  if s_executed s then
    if is_invalid (s_result s) then ref12 (p_amt p) (s_slash s - s_burn s) (s_feetotal s)
    else if is_support (s_result s)
         then ref12 (p_amt p) (s_slash s - s_burn s) (s_feetotal s) + bnd12 (p_amt p) (s_slash s) (s_feetotal s)
         else 0
  else if s_status s =? Failed then ref12 (p_amt p) (failed_fmb s) (s_feetotal s) else 0.
Definition owed_refunds12 (s : st) : Z := sumz (map (due12 s) (s_payers s)).

(* a voter's reward, as [claim] computes it *)
Definition rew (fx : bool) (rs : list round) (prev : list Z) (pot who : Z) : Z :=
  match acc_powers fx rs who prev with
  | Some pw => if groups pw =? 0 then 0 else Z.max 0 (reward_of pw pot)
  | None => 0
  end.
Definition vterm (fx : bool) (rs : list round) (prev : list Z) (pot : Z) (v : voter) : Z :=
  if v_claimed v then 0 else rew fx rs prev pot (v_who v).
Definition voters_owed_at (fx : bool) (rs : list round) (id : Z) (prev : list Z) (pot : Z) : Z :=
  match find_round rs id with None => 0 | Some r => sumz (map (vterm fx rs prev pot) (r_voters r)) end.
Definition voters_owed (fx : bool) (s : st) : Z := voters_owed_at fx (s_rounds s) (s_id s) (s_prev s) (s_reward s).

(* the liabilities of the dispute escrow towards this lineage, in 10^-6 loya: the dust store (fractions owed to the
   burn), and: nothing before a dispute exists; the fees paid while the dispute is in prevote; the escrowed stake and
   the fees while it is funded and not executed; the refunds of the records left when it failed; after execution the
   refunds of the records left plus the rewards of the recorded voters who have not claimed *)
Definition liabilities12 (fx : bool) (s : st) : Z :=
  s_dust s +
  (if s_id s =? 0 then 0
   else if s_executed s then owed_refunds12 s + voters_owed fx s * PR6
   else if s_status s =? Failed then owed_refunds12 s
   else if s_status s =? Prevote then s_feetotal s * PR6
   else (s_slash s + s_feetotal s) * PR6).
Definition liabilities (v : variant) (s : st) : Z := (liabilities12 (fix35 v) s + (PR6 - 1)) / PR6.

Definition paid (s : st) : Z := sumz (map p_amt (s_payers s)).
Definition payers_ok (s : st) : Prop := Forall (fun p => 0 <= p_amt p /\ p_bond p = false) (s_payers s).

(* the conjuncts added to [sinv] *)
Definition extra (fx : bool) (s : st) : Prop :=
  0 <= s_dust s /\ payers_ok s /\ liabilities12 fx s <= s_esc s * PR6
  /\ (s_id s = 0 -> s_payers s = [])
  /\ (s_id s <> 0 -> 0 < s_feetotal s <= P /\ s_prev s = [s_id s] /\ 0 <= s_burn s <= s_slash s
                    /\ (s_executed s = false -> paid s <= s_feetotal s)).

Definition linv (v : variant) (c : cfg) (s : st) : Prop := sinv c s /\ c_S c <= P /\ extra (fix35 v) s.

(* the environment fact about the votes at the moment ExecuteVote runs (see the header) *)
Definition pot_at (s : st) : Z :=
  if total_voter_power (s_rounds s) (s_id s) (s_prev s) =? 0 then 0 else half_burn (s_burn s).
Definition pot_covers (fx : bool) (s : st) : Prop :=
  voters_owed_at fx (s_rounds s) (s_id s) (s_prev s) (pot_at s) <= pot_at s.
Definition op_ok2 (v : variant) (c : cfg) (s : st) (o : op) : Prop :=
  op_ok c s o /\ match o with OExecBlock | OExecute _ => pot_covers (fix35 v) s | _ => True end.
Fixpoint env_ok2 (v : variant) (c : cfg) (s : st) (ops : list op) : Prop :=
  match ops with
  | [] => True
  | o :: r => op_ok2 v c s o /\ env_ok2 v c (fst (step v c s o)) r
  end.

(* ================================================================================================ *)
(*  arithmetic                                                                                        *)
(* ================================================================================================ *)
Lemma PR6_le_P : 0 < PR6 <= P. Proof. unfold PR6, P. lia. Qed.

Lemma ref12_facts f m t : 0 <= f -> 0 <= m -> 0 < t <= P ->
  ref12 f m t = refund12 f m t /\ 0 <= refund6 f m t /\ 0 <= refund_rem f m t < PR6 /\ 0 <= refund12 f m t.
Proof.
  intros Hf Hm Ht. destruct (refund_split f m t Hf Hm Ht) as (H1 & H2 & H3). unfold ref12.
  repeat split; try lia. rewrite refund12_eq by assumption. apply Z.div_pos; [unfold PR6; nia | lia].
Qed.

Lemma dust_burn_eq d : 0 <= d -> truncate_int (dec_quo (of_int d) (of_int PR6)) = d / PR6.
Proof. intros Hd. apply dec_floor; [assumption | exact PR6_le_P]. Qed.

Lemma failed_fmb_eq s : 0 <= s_feetotal s -> failed_fmb s = s_feetotal s / 20.
Proof. intros H. unfold failed_fmb. apply dec_floor; [assumption | unfold P; lia]. Qed.

(* RewardReporterBondToFeePayers: [bond6_floor] of Proofs/DisputeBondArith.v gives the whole-loya part *)
(* ... so it pays (whole loya + fraction) exactly the floor of fee * bond * 10^6 / total *)
Lemma bond_split f b t : 0 <= f -> 0 <= b -> 0 < t <= P ->
  bnd12 f b t = refund12 f b t /\ 0 <= bond6 f b t /\ 0 <= bond_rem f b t < PR6.
Proof.
  intros Hf Hb Ht.
  assert (E6 : bond6 f b t = refund6 f b t) by (rewrite bond6_floor, refund6_floor by assumption; reflexivity).
  assert (Er : bond_rem f b t = refund_rem f b t) by reflexivity.
  destruct (refund_split f b t Hf Hb Ht) as (H1 & H2 & H3). unfold bnd12. rewrite E6, Er. repeat split; lia.
Qed.

Lemma sumz_map_nonneg {A} (g : A -> Z) l : (forall x, In x l -> 0 <= g x) -> 0 <= sumz (map g l).
Proof.
  induction l as [|a l IH]; intros H; cbn [map]; [cbn; lia|]. rewrite sumz_cons.
  assert (0 <= g a) by (apply H; left; reflexivity).
  assert (0 <= sumz (map g l)) by (apply IH; intros x Hx; apply H; right; exact Hx). lia.
Qed.

Lemma sumz_map_le {A} (g h : A -> Z) l : (forall x, In x l -> g x <= h x) -> sumz (map g l) <= sumz (map h l).
Proof.
  induction l as [|a l IH]; intros H; cbn [map]; [lia|]. rewrite !sumz_cons.
  assert (g a <= h a) by (apply H; left; reflexivity).
  assert (sumz (map g l) <= sumz (map h l)) by (apply IH; intros x Hx; apply H; right; exact Hx). lia.
Qed.

Lemma sumz_map_eq {A} (g h : A -> Z) l : (forall x, In x l -> g x = h x) -> sumz (map g l) = sumz (map h l).
Proof.
  induction l as [|a l IH]; intros H; cbn [map]; [reflexivity|]. rewrite !sumz_cons.
  rewrite (H a) by (left; reflexivity). rewrite IH; [reflexivity|]. intros x Hx; apply H; right; exact Hx.
Qed.

(* all refunds of one kind together stay within the pool *)
Lemma refund_sum_bound ps m t :
  Forall (fun p => 0 <= p_amt p /\ p_bond p = false) ps -> 0 <= m -> 0 < t <= P -> sumz (map p_amt ps) <= t ->
  sumz (map (fun p => refund12 (p_amt p) m t) ps) <= m * PR6.
Proof.
  intros Hp Hm Ht Hs.
  pose proof (refunds_never_exceed_pool (map p_amt ps) m t) as H. unfold refunds12 in H. rewrite map_map in H.
  apply H; try assumption. apply Forall_forall. intros x Hx. apply in_map_iff in Hx. destruct Hx as [p [<- Hin]].
  rewrite Forall_forall in Hp. apply Hp. exact Hin.
Qed.

(* ---- payer records ---- *)
Lemma sum_remove_le (g : payer -> Z) l id who :
  (forall x, In x l -> 0 <= g x) -> sumz (map g (remove_payer l id who)) <= sumz (map g l).
Proof.
  unfold remove_payer. induction l as [|a l IH]; intros Hg; cbn [filter map]; [lia|].
  assert (Ha : 0 <= g a) by (apply Hg; left; reflexivity).
  assert (Hl : forall x, In x l -> 0 <= g x) by (intros x Hx; apply Hg; right; exact Hx).
  specialize (IH Hl).
  destruct (negb ((p_id a =? id) && (p_who a =? who))); cbn [map]; rewrite ?sumz_cons; lia.
Qed.

Lemma sum_remove (g : payer -> Z) l id who p :
  (forall x, In x l -> 0 <= g x) -> find_payer l id who = Some p ->
  sumz (map g (remove_payer l id who)) + g p <= sumz (map g l).
Proof.
  unfold find_payer. induction l as [|a l IH]; intros Hg Hf; cbn [find] in Hf; [discriminate|].
  assert (Ha : 0 <= g a) by (apply Hg; left; reflexivity).
  assert (Hl : forall x, In x l -> 0 <= g x) by (intros x Hx; apply Hg; right; exact Hx).
  unfold remove_payer. cbn [filter map].
  destruct ((p_id a =? id) && (p_who a =? who)) eqn:E; cbn [negb map]; rewrite ?sumz_cons.
  - injection Hf as <-. pose proof (sum_remove_le g l id who Hl) as H. unfold remove_payer in H. lia.
  - specialize (IH Hl Hf). unfold remove_payer in IH. lia.
Qed.

Lemma find_payer_In l id who p : find_payer l id who = Some p -> In p l.
Proof. unfold find_payer. intros H. apply find_some in H. exact (proj1 H). Qed.

Lemma Forall_remove (Q : payer -> Prop) l id who : Forall Q l -> Forall Q (remove_payer l id who).
Proof.
  intros H. apply Forall_forall. intros x Hx. unfold remove_payer in Hx. apply filter_In in Hx.
  rewrite Forall_forall in H. apply H. exact (proj1 Hx).
Qed.

Lemma In_remove l id who x : In x (remove_payer l id who) -> In x l.
Proof. unfold remove_payer. intros H. apply filter_In in H. exact (proj1 H). Qed.

(* ================================================================================================ *)
(*  voters' records                                                                                   *)
(* ================================================================================================ *)
Definition flag (who : Z) (v : voter) : voter :=
  if v_who v =? who then VR (v_who v) (v_rep v) (v_th v) (v_tips_blk v) (v_tips_id v) true else v.

(* the powers CalculateReward collects when the lineage has the single round [r] *)
Definition pw_of (fx : bool) (r : round) (who : Z) : option powers :=
  let pw1 := match find (fun v => v_who v =? who) (r_voters r) with
             | Some v => PW (a_users pw0 + (if fx then v_tips_blk v else v_tips_id v)) (a_reps pw0 + v_rep v)
                            (a_holders pw0 + v_th v) (G_users pw0) (G_reps pw0) (G_holders pw0)
             | None => pw0 end in
  match r_counts r with
  | None => None
  | Some g => Some (PW (a_users pw1) (a_reps pw1) (a_holders pw1)
                       (G_users pw1 + g_users g) (G_reps pw1 + g_reps g) (G_holders pw1 + g_holders g))
  end.

Lemma acc_powers_one fx rs who id r : find_round rs id = Some r -> acc_powers fx rs who [id] = pw_of fx r who.
Proof. intros H. unfold acc_powers, pw_of. cbn [fold_left]. unfold find_voter, counts_of. rewrite H. reflexivity. Qed.

Lemma acc_powers_none fx rs who id : find_round rs id = None -> acc_powers fx rs who [id] = None.
Proof. intros H. unfold acc_powers. cbn [fold_left]. unfold find_voter, counts_of. rewrite H. reflexivity. Qed.

Lemma dec_quo_0 x : dec_quo 0 x = 0.
Proof. unfold dec_quo. change (0 * P * P) with 0. replace (Z.quot 0 x) with 0 by (destruct x; reflexivity). reflexivity. Qed.

(* somebody without a vote record has no reward *)
Lemma reward_zero G1 G2 G3 pot : reward_of (PW 0 0 0 G1 G2 G3) pot = 0.
Proof.
  unfold reward_of, norm. cbn [a_users a_reps a_holders G_users G_reps G_holders].
  replace (dec_mul (of_int 0) (of_int PR6)) with 0 by (rewrite dec_mul_of_int_l; reflexivity).
  rewrite !dec_quo_0. change (0 + 0 + 0) with 0.
  replace (dec_mul 0 (of_int pot)) with 0 by (unfold dec_mul; reflexivity).
  rewrite ?dec_quo_0. reflexivity.
Qed.

Lemma pw_of_absent fx r who pw pot :
  find (fun v => v_who v =? who) (r_voters r) = None -> pw_of fx r who = Some pw -> reward_of pw pot = 0.
Proof.
  intros Hn. unfold pw_of. rewrite Hn. destruct (r_counts r) as [g|]; [|discriminate].
  intros H. injection H as <-. cbn [pw0 a_users a_reps a_holders G_users G_reps G_holders]. apply reward_zero.
Qed.

Lemma find_flag_other who who' l : who' <> who ->
  find (fun v => v_who v =? who') (map (flag who) l) = find (fun v => v_who v =? who') l.
Proof.
  intros Hne. induction l as [|a l IH]; cbn [map find]; [reflexivity|].
  destruct (Z.eqb_spec (v_who a) who) as [E|E].
  - assert (Ef : flag who a = VR (v_who a) (v_rep a) (v_th a) (v_tips_blk a) (v_tips_id a) true).
    { unfold flag. destruct (Z.eqb_spec (v_who a) who); [reflexivity | contradiction]. }
    rewrite Ef. cbn [v_who]. rewrite E. destruct (Z.eqb_spec who who') as [E2|_]; [congruence | exact IH].
  - assert (Ef : flag who a = a) by (unfold flag; destruct (Z.eqb_spec (v_who a) who); [contradiction | reflexivity]).
    rewrite Ef. destruct (v_who a =? who'); [reflexivity | exact IH].
Qed.

Lemma find_round_set_claimed rs id who r0 :
  find_round rs id = Some r0 -> existsb (fun v => v_who v =? who) (r_voters r0) = true ->
  find_round (set_claimed rs id who) id = Some (RD (r_id r0) (r_counts r0) (map (flag who) (r_voters r0))).
Proof.
  unfold find_round, set_claimed. induction rs as [|x rs IH]; cbn [find map]; [discriminate|].
  destruct (r_id x =? id) eqn:E.
  - intros H. injection H as <-. intros Hex. rewrite Hex. cbn [r_id]. rewrite E. reflexivity.
  - rewrite E. exact IH.
Qed.

Lemma find_existsb {A} (f : A -> bool) l x : find f l = Some x -> existsb f l = true.
Proof.
  intros H. apply find_some in H. apply existsb_exists. exists x. exact H.
Qed.

Lemma rew_nonneg fx rs prev pot who : 0 <= rew fx rs prev pot who.
Proof. unfold rew. destruct (acc_powers fx rs who prev) as [pw|]; [|lia]. destruct (groups pw =? 0); lia. Qed.

Lemma vterm_nonneg fx rs prev pot v : 0 <= vterm fx rs prev pot v.
Proof. unfold vterm. destruct (v_claimed v); [lia | apply rew_nonneg]. Qed.

Lemma voters_owed_at_nonneg fx rs id prev pot : 0 <= voters_owed_at fx rs id prev pot.
Proof.
  unfold voters_owed_at. destruct (find_round rs id) as [r|]; [|lia].
  apply sumz_map_nonneg. intros x _. apply vterm_nonneg.
Qed.

(* marking the records of [who]: the other records keep their terms, those of [who] drop out *)
Lemma flagged_sum (t t' : voter -> Z) who l v0 :
  (forall v, 0 <= t v) -> (forall v, v_who v <> who -> t' v = t v) -> (forall v, v_who v = who -> t' (flag who v) = 0) ->
  find (fun v => v_who v =? who) l = Some v0 ->
  sumz (map t' (map (flag who) l)) + t v0 <= sumz (map t l).
Proof.
  intros H0 Hoth Hwho.
  assert (Hle : forall l', sumz (map t' (map (flag who) l')) <= sumz (map t l')).
  { induction l' as [|a l' IH]; cbn [map]; [lia|]. rewrite !sumz_cons.
    destruct (Z.eq_dec (v_who a) who) as [E|E].
    - rewrite (Hwho a E). pose proof (H0 a). lia.
    - assert (Ef : flag who a = a) by (unfold flag; destruct (Z.eqb_spec (v_who a) who); [contradiction | reflexivity]).
      rewrite Ef, (Hoth a E). lia. }
  induction l as [|a l IH]; cbn [find map]; [discriminate|]. rewrite !sumz_cons.
  destruct (Z.eqb_spec (v_who a) who) as [E|E].
  - intros H. injection H as <-. rewrite (Hwho a E). specialize (Hle l). lia.
  - intros H. specialize (IH H).
    assert (Ef : flag who a = a) by (unfold flag; destruct (Z.eqb_spec (v_who a) who); [contradiction | reflexivity]).
    rewrite Ef, (Hoth a E). lia.
Qed.

(* a paid claim takes the claimant's reward off the voters' part of the liabilities *)
Lemma voters_owed_claim fx rs id who pot r0 v0 :
  find_round rs id = Some r0 -> find (fun v => v_who v =? who) (r_voters r0) = Some v0 -> v_claimed v0 = false ->
  voters_owed_at fx (set_claimed (ensure_round rs id) id who) id [id] pot + rew fx rs [id] pot who
  <= voters_owed_at fx rs id [id] pot.
Proof.
  intros Hr Hv Hc.
  assert (Hen : ensure_round rs id = rs) by (unfold ensure_round; rewrite Hr; reflexivity).
  rewrite Hen. pose proof (find_round_set_claimed rs id who r0 Hr (find_existsb _ _ _ Hv)) as Hr'.
  unfold voters_owed_at. rewrite Hr, Hr'. cbn [r_voters].
  assert (Hv0 : vterm fx rs [id] pot v0 = rew fx rs [id] pot who).
  { unfold vterm. rewrite Hc. apply find_some in Hv. destruct Hv as [_ Hw]. apply Z.eqb_eq in Hw. rewrite Hw. reflexivity. }
  rewrite <- Hv0. apply flagged_sum; [intros v; apply vterm_nonneg | | | exact Hv].
  - intros v Hne. unfold vterm. destruct (v_claimed v); [reflexivity|]. unfold rew.
    rewrite (acc_powers_one fx _ (v_who v) id _ Hr'), (acc_powers_one fx rs (v_who v) id r0 Hr).
    unfold pw_of. cbn [r_voters r_counts]. rewrite find_flag_other by exact Hne. reflexivity.
  - intros v Hw. unfold vterm, flag. apply Z.eqb_eq in Hw. rewrite Hw. reflexivity.
Qed.

(* ================================================================================================ *)
(*  bounds on the refunds                                                                             *)
(* ================================================================================================ *)
Lemma sumz_map_plus {A} (g h : A -> Z) l : sumz (map (fun x => g x + h x) l) = sumz (map g l) + sumz (map h l).
Proof. induction l as [|a l IH]; cbn [map]; [reflexivity|]. rewrite !sumz_cons, IH. ring. Qed.

Lemma sumz_map_zero {A} (l : list A) : sumz (map (fun _ => 0) l) = 0.
Proof. induction l as [|a l IH]; cbn [map]; [reflexivity|]. rewrite sumz_cons, IH. reflexivity. Qed.

Lemma due12_nonneg s p : 0 <= p_amt p -> 0 < s_feetotal s <= P -> 0 <= s_burn s <= s_slash s -> 0 <= due12 s p.
Proof.
  intros Hp Hft Hb. unfold due12.
  assert (Hf : 0 <= failed_fmb s) by (rewrite failed_fmb_eq by lia; apply Z.div_pos; lia).
  destruct (ref12_facts (p_amt p) (s_slash s - s_burn s) (s_feetotal s)) as (E1 & _ & _ & N1); try lia.
  destruct (ref12_facts (p_amt p) (failed_fmb s) (s_feetotal s)) as (E2 & _ & _ & N2); try lia.
  destruct (bond_split (p_amt p) (s_slash s) (s_feetotal s)) as (E3 & _ & _); try lia.
  destruct (ref12_facts (p_amt p) (s_slash s) (s_feetotal s)) as (_ & _ & _ & N3); try lia.
  destruct (s_executed s).
  - destruct (is_invalid (s_result s)); [lia|]. destruct (is_support (s_result s)); lia.
  - destruct (s_status s =? Failed); lia.
Qed.

Definition pool (s : st) : Z :=
  if s_executed s then
    if is_invalid (s_result s) then s_slash s - s_burn s
    else if is_support (s_result s) then (s_slash s - s_burn s) + s_slash s else 0
  else if s_status s =? Failed then s_feetotal s / 20 else 0.

Lemma due_sum_bound s : payers_ok s -> 0 < s_feetotal s <= P -> 0 <= s_burn s <= s_slash s -> paid s <= s_feetotal s ->
  owed_refunds12 s <= pool s * PR6.
Proof.
  intros Hp Hft Hb Hpaid. unfold owed_refunds12, pool, paid in *. unfold payers_ok in Hp.
  assert (Hf : failed_fmb s = s_feetotal s / 20) by (apply failed_fmb_eq; lia).
  assert (Hf0 : 0 <= s_feetotal s / 20) by (apply Z.div_pos; lia).
  assert (Hin : forall x, In x (s_payers s) -> 0 <= p_amt x) by (rewrite Forall_forall in Hp; intros x Hx; apply Hp; exact Hx).
  assert (R : forall m, 0 <= m -> sumz (map (fun p => ref12 (p_amt p) m (s_feetotal s)) (s_payers s)) <= m * PR6).
  { intros m Hm. rewrite (sumz_map_eq _ (fun p => refund12 (p_amt p) m (s_feetotal s))).
    - apply refund_sum_bound; assumption.
    - intros x Hx. apply ref12_facts; try lia; try (apply Hin; exact Hx). }
  assert (B : sumz (map (fun p => bnd12 (p_amt p) (s_slash s) (s_feetotal s)) (s_payers s)) <= s_slash s * PR6).
  { rewrite (sumz_map_eq _ (fun p => refund12 (p_amt p) (s_slash s) (s_feetotal s))).
    - apply refund_sum_bound; try assumption; lia.
    - intros x Hx. apply bond_split; try lia; try (apply Hin; exact Hx). }
  unfold due12. destruct (s_executed s).
  - destruct (is_invalid (s_result s)); [apply R; lia|].
    destruct (is_support (s_result s)).
    + rewrite sumz_map_plus. specialize (R (s_slash s - s_burn s)). lia.
    + rewrite sumz_map_zero. lia.
  - destruct (s_status s =? Failed).
    + rewrite Hf. apply R. exact Hf0.
    + rewrite sumz_map_zero. lia.
Qed.

(* ================================================================================================ *)
(*  the payout functions when the escrow suffices                                                     *)
(* ================================================================================================ *)
Lemma refund_fee_eff s who p t m : p_bond p = false -> 0 <= refund6 (p_amt p) m t <= s_esc s ->
  refund_fee s who p t m
  = (set_money s (s_esc s - refund6 (p_amt p) m t) (s_burned s) (addz (s_liq s) who (refund6 (p_amt p) m t)) (s_stk s),
     0, refund_rem (p_amt p) m t).
Proof.
  intros Hb [H0 H1]. unfold refund_fee. cbv zeta. rewrite Hb. cbn [negb].
  destruct (Z.ltb_spec (refund6 (p_amt p) m t) 0); [lia|].
  destruct (Z.ltb_spec (s_esc s) (refund6 (p_amt p) m t)); [lia|]. reflexivity.
Qed.

Lemma reward_bond_eff s who p t b : 0 <= bond6 (p_amt p) b t <= s_esc s ->
  reward_bond s who p t b
  = (set_money s (s_esc s - bond6 (p_amt p) b t) (s_burned s) (s_liq s) (addz (s_stk s) who (bond6 (p_amt p) b t)),
     0, bond_rem (p_amt p) b t).
Proof.
  intros [H0 H1]. unfold reward_bond. cbv zeta.
  destruct (Z.ltb_spec (bond6 (p_amt p) b t) 0); [lia|].
  destruct (Z.ltb_spec (s_esc s) (bond6 (p_amt p) b t)); [lia|]. reflexivity.
Qed.

Lemma finish_eff s who id d : 0 <= d -> d / PR6 <= s_esc s ->
  exists dust', dust' = d - (d / PR6) * PR6 /\ 0 <= dust' /\
  finish_withdraw s who id d
  = (ST (s_now s) (s_id s) (s_slash s) (s_burn s) (s_feetotal s) (s_reward s) (s_status s) (s_open s) (s_pending s)
        (s_result s) (s_executed s) (s_end s) (s_round s) (s_prev s) (remove_payer (s_payers s) id who) (s_feetr s) (s_slashtr s)
        (s_rounds s) dust' (s_esc s - d / PR6) (s_burned s + d / PR6) (s_liq s) (s_stk s), 0).
Proof.
  intros Hd He. unfold finish_withdraw. cbv zeta. rewrite dust_burn_eq by exact Hd.
  pose proof (Z.div_mod d PR6 ltac:(unfold PR6; lia)) as Hdm.
  pose proof (Z.mod_pos_bound d PR6 ltac:(unfold PR6; lia)) as Hmb.
  destruct (Z.eqb_spec (d / PR6) 0) as [E|E]; cbn [negb andb].
  - exists d. split; [lia|]. split; [lia|]. reflexivity.
  - destruct (Z.ltb_spec (s_esc s) (d / PR6)); [lia|].
    exists (d mod PR6). split; [lia|]. split; [lia|]. reflexivity.
Qed.

Lemma payout_arith dust a rem b brem esc rest V :
  0 <= dust -> 0 <= a -> 0 <= rem -> 0 <= b -> 0 <= brem -> 0 <= rest -> 0 <= V ->
  dust + (a * PR6 + rem + (b * PR6 + brem)) + rest + V * PR6 <= esc * PR6 ->
  a <= esc /\ b <= esc - a /\ (dust + rem + brem) / PR6 <= esc - a - b
  /\ ((dust + rem + brem) - (dust + rem + brem) / PR6 * PR6) + rest + V * PR6 <= (esc - a - b - (dust + rem + brem) / PR6) * PR6.
Proof. unfold PR6. intros. Z.div_mod_to_equations. lia. Qed.

(* ================================================================================================ *)
(*  WithdrawFeeRefund and ClaimReward: never short of funds, and the bound is kept                    *)
(* ================================================================================================ *)
Ltac unf := unfold extra, liabilities12, owed_refunds12, voters_owed, paid, payers_ok, due12, failed_fmb in *.
Ltac use_refund Hb :=
  match goal with |- context [refund_fee ?s ?w ?p ?t ?m] =>
    rewrite (refund_fee_eff s w p t m) by (first [exact Hb | (proj; lia)]) end; cbv beta iota.
Ltac use_bond :=
  match goal with |- context [reward_bond ?s ?w ?p ?t ?b] =>
    rewrite (reward_bond_eff s w p t b) by (proj; lia) end; cbv beta iota.
Ltac use_finish Hd0 Ed Efw :=
  match goal with |- context [finish_withdraw ?x ?w ?i ?d] =>
    let dust' := fresh "dust'" in
    destruct (finish_eff x w i d) as (dust' & Ed & Hd0 & Efw); [lia | proj; lia | rewrite Efw; cbv beta iota] end.

Lemma withdraw_extra fx s who id :
  extra fx s -> (s_id s <> 0 -> s_status s = Failed -> s_executed s = false) ->
  extra fx (fst (withdraw s who id)) /\ snd (withdraw s who id) <> EInsufficient.
Proof.
  intros Hex HF. pose proof Hex as (Hd & Hp & HL & Hid0 & Hrest). unfold withdraw.
  destruct ((s_id s =? 0) || negb (existsb (Z.eqb id) (s_prev s))) eqn:G1; [split; [exact Hex | neq]|].
  apply orb_false_iff in G1. destruct G1 as [G1 _]. pose proof G1 as G1b. apply Z.eqb_neq in G1.
  destruct (Hrest G1) as (Hft & Hprev & Hbs & Hpaid).
  destruct (find_payer (s_payers s) id who) as [p|] eqn:Fp; [|split; [exact Hex | neq]].
  destruct (negb (id =? s_id s)); [split; [exact Hex | neq]|].
  assert (Hpin : 0 <= p_amt p /\ p_bond p = false).
  { unfold payers_ok in Hp. rewrite Forall_forall in Hp. apply Hp. eapply find_payer_In; exact Fp. }
  destruct Hpin as [Hp0 Hpb].
  assert (Nn : forall x, In x (s_payers s) -> 0 <= due12 s x).
  { intros x Hx. apply due12_nonneg; try assumption. unfold payers_ok in Hp. rewrite Forall_forall in Hp. apply Hp. exact Hx. }
  pose proof (sum_remove (due12 s) (s_payers s) id who p Nn Fp) as SR.
  assert (Rn : 0 <= sumz (map (due12 s) (remove_payer (s_payers s) id who))).
  { apply sumz_map_nonneg. intros x Hx. apply Nn. eapply In_remove; exact Hx. }
  pose proof (sum_remove_le p_amt (s_payers s) id who) as PR.
  assert (Pn : forall x, In x (s_payers s) -> 0 <= p_amt x).
  { intros x Hx. unfold payers_ok in Hp. rewrite Forall_forall in Hp. apply Hp. exact Hx. }
  specialize (PR Pn).
  pose proof (Forall_remove _ (s_payers s) id who Hp) as FR.
  pose proof (voters_owed_at_nonneg fx (s_rounds s) (s_id s) (s_prev s) (s_reward s)) as Vn.
  assert (Hf0 : 0 <= failed_fmb s) by (rewrite failed_fmb_eq by lia; apply Z.div_pos; lia).
  destruct (ref12_facts (p_amt p) (s_slash s - s_burn s) (s_feetotal s)) as (_ & A1 & A2 & _); try lia.
  destruct (ref12_facts (p_amt p) (failed_fmb s) (s_feetotal s)) as (_ & A3 & A4 & _); try lia.
  destruct (bond_split (p_amt p) (s_slash s) (s_feetotal s)) as (_ & A5 & A6); try lia.
  destruct (Z.eqb_spec (s_status s) Failed) as [EF|EF].
  { (* a failed dispute *)
    specialize (HF G1 EF). specialize (Hpaid HF).
    assert (Dp : due12 s p = ref12 (p_amt p) (failed_fmb s) (s_feetotal s)).
    { unfold due12. rewrite HF, EF. reflexivity. }
    unfold liabilities12 in HL. rewrite G1b, HF, EF in HL. change (Failed =? Failed) with true in HL. cbv iota in HL.
    unfold owed_refunds12 in HL. unfold ref12 in Dp.
    pose proof (payout_arith (s_dust s) _ _ 0 0 (s_esc s) _ 0 Hd A3 (proj1 A4) ltac:(lia) ltac:(lia) Rn ltac:(lia)
                  ltac:(lia)) as (B1 & _ & B3 & B4).
    rewrite !Z.add_0_r, !Z.sub_0_r in B3, B4.
    change (truncate_int (dec_quo (of_int (s_feetotal s)) (of_int 20))) with (failed_fmb s).
    use_refund Hpb. use_finish Hd0 Ed Efw. cbn [fst snd]. split; [|neq].
    unf. proj. rewrite G1b, HF in *. rewrite EF in *. change (Failed =? Failed) with true in *. cbv iota in *.
    repeat split; try assumption; try lia; try (intros; contradiction). }
  destruct (s_status s =? Prevote) eqn:EP; [split; [exact Hex | neq]|].
  destruct (s_executed s) eqn:Eex; cbn [negb]; [|split; [exact Hex | neq]].
  unfold liabilities12 in HL. rewrite G1b, Eex in HL. unfold owed_refunds12, voters_owed in HL.
  destruct (is_invalid (s_result s)) eqn:Ei.
  { assert (Dp : due12 s p = ref12 (p_amt p) (s_slash s - s_burn s) (s_feetotal s)).
    { unfold due12. rewrite Eex, Ei. reflexivity. }
    unfold ref12 in Dp.
    pose proof (payout_arith (s_dust s) _ _ 0 0 (s_esc s) _ _ Hd A1 (proj1 A2) ltac:(lia) ltac:(lia) Rn Vn
                  ltac:(lia)) as (B1 & _ & B3 & B4).
    rewrite !Z.add_0_r, !Z.sub_0_r in B3, B4.
    use_refund Hpb. use_finish Hd0 Ed Efw. cbn [fst snd]. split; [|neq].
    unf. proj. rewrite G1b, Eex in *. rewrite Ei in *.
    repeat split; try assumption; try lia; try (intros; contradiction); try (intros; discriminate). }
  destruct (is_support (s_result s)) eqn:Es; [|split; [exact Hex | neq]].
  assert (Dp : due12 s p = ref12 (p_amt p) (s_slash s - s_burn s) (s_feetotal s) + bnd12 (p_amt p) (s_slash s) (s_feetotal s)).
  { unfold due12. rewrite Eex, Ei, Es. reflexivity. }
  unfold ref12, bnd12 in Dp.
  pose proof (payout_arith (s_dust s) _ _ _ _ (s_esc s) _ _ Hd A1 (proj1 A2) A5 (proj1 A6) Rn Vn
                ltac:(lia)) as (B1 & B2 & B3 & B4).
  use_refund Hpb. use_bond. use_finish Hd0 Ed Efw. cbn [fst snd]. split; [|neq].
  unf. proj. rewrite G1b, Eex in *. rewrite Ei in *. rewrite Es in *.
  repeat split; try assumption; try lia; try (intros; contradiction); try (intros; discriminate).
Qed.

Lemma claim_extra fx s who id :
  extra fx s -> extra fx (fst (claim fx s who id)) /\ snd (claim fx s who id) <> EInsufficient.
Proof.
  intros Hex. pose proof Hex as (Hd & Hp & HL & Hid0 & Hrest). unfold claim.
  destruct ((s_id s =? 0) || negb (existsb (Z.eqb id) (s_prev s))) eqn:G1; [split; [exact Hex | neq]|].
  apply orb_false_iff in G1. destruct G1 as [G1 _]. pose proof G1 as G1b. apply Z.eqb_neq in G1.
  destruct (Hrest G1) as (Hft & Hprev & Hbs & Hpaid).
  destruct (Z.eqb_spec id (s_id s)) as [Eid|Eid]; cbn [negb]; [|split; [exact Hex | neq]].
  destruct (negb (s_status s =? Resolved)); [split; [exact Hex | neq]|].
  destruct (match find_voter (s_rounds s) id who with Some v => v_claimed v | None => false end) eqn:Ec;
    [split; [exact Hex | neq]|].
  destruct (s_executed s) eqn:Eex; cbn [negb]; [|split; [exact Hex | neq]].
  destruct (acc_powers fx (s_rounds s) who (s_prev s)) as [pw|] eqn:Ea; [|split; [exact Hex | neq]].
  destruct (groups pw =? 0) eqn:Eg; [split; [exact Hex | neq]|].
  destruct (Z.eqb_spec (reward_of pw (s_reward s)) 0) as [E0|E0]; [split; [exact Hex | neq]|].
  destruct (Z.ltb_spec (reward_of pw (s_reward s)) 0) as [El|El]; [split; [exact Hex | neq]|].
  rewrite Hprev in Ea. subst id. unfold find_voter in Ec.
  destruct (find_round (s_rounds s) (s_id s)) as [r0|] eqn:Fr; [|rewrite acc_powers_none in Ea by exact Fr; discriminate].
  rewrite (acc_powers_one fx _ who _ r0 Fr) in Ea.
  destruct (find (fun v => v_who v =? who) (r_voters r0)) as [v0|] eqn:Fv;
    [|exfalso; apply E0; eapply pw_of_absent; [exact Fv | exact Ea]].
  pose proof (voters_owed_claim fx (s_rounds s) (s_id s) who (s_reward s) r0 v0 Fr Fv Ec) as VC.
  assert (Hr : rew fx (s_rounds s) [s_id s] (s_reward s) who = reward_of pw (s_reward s)).
  { unfold rew. rewrite (acc_powers_one fx _ who _ r0 Fr), Ea, Eg. lia. }
  rewrite Hr in VC.
  assert (On : 0 <= owed_refunds12 s).
  { unfold owed_refunds12. apply sumz_map_nonneg. intros x Hx. apply due12_nonneg; try assumption.
    unfold payers_ok in Hp. rewrite Forall_forall in Hp. apply Hp. exact Hx. }
  pose proof (voters_owed_at_nonneg fx (set_claimed (ensure_round (s_rounds s) (s_id s)) (s_id s) who) (s_id s) [s_id s] (s_reward s)) as Vn.
  unfold liabilities12 in HL. rewrite G1b, Eex in HL. unfold voters_owed in HL. rewrite Hprev in HL.
  destruct (Z.ltb_spec (s_esc s) (reward_of pw (s_reward s))) as [Hlt|Hge]; [exfalso; unfold PR6 in *; lia|].
  cbn [fst snd]. split; [|neq].
  unfold extra, liabilities12, voters_owed, owed_refunds12, paid, payers_ok, due12, failed_fmb in *. proj.
  rewrite ?G1b, ?Eex, ?Hprev.
  repeat split; try assumption; try lia; try (intros; contradiction); try (intros; discriminate).
  rewrite Eex in HL. cbv iota in HL. unfold PR6 in *. lia.
Qed.

(* ================================================================================================ *)
(*  ExecuteVote                                                                                       *)
(* ================================================================================================ *)
Lemma return_slashed_frame s amt s2 : return_slashed s amt = (s2, OK) ->
  exists stk', s2 = ST (s_now s) (s_id s) (s_slash s) (s_burn s) (s_feetotal s) (s_reward s) (s_status s) (s_open s) (s_pending s)
               (s_result s) (s_executed s) (s_end s) (s_round s) (s_prev s) (s_payers s) (s_feetr s) None (s_rounds s)
               (s_dust s) (s_esc s - amt) (s_burned s) (s_liq s) stk'.
Proof.
  unfold return_slashed. destruct (amt <? 0); [intros H; inversion H|]. destruct (s_esc s <? amt); [intros H; inversion H|].
  destruct (s_slashtr s) as [[os total]|]; [|intros H; inversion H]. intros H. inversion H. eexists. reflexivity.
Qed.

Lemma execute_frame s s' : execute_vote true s = (s', OK) ->
  s_slash s' = s_slash s /\ s_burn s' = s_burn s /\ s_feetotal s' = s_feetotal s /\ s_result s' = s_result s
  /\ s_prev s' = s_prev s /\ s_rounds s' = s_rounds s /\ s_id s' = s_id s /\ s_dust s' = s_dust s /\ s_payers s' = s_payers s
  /\ s_reward s' = pot_at s.
Proof.
  unfold pot_at, execute_vote, execute_vote_gen.
  destruct ((s_status s =? Prevote) || (s_status s =? Failed)); [intros H; inversion H|].
  destruct (negb _); [intros H; inversion H|]. destruct (s_executed s); [intros H; inversion H|].
  destruct (s_result s =? 0); [intros H; inversion H|]. destruct (s_esc s <? _); [intros H; inversion H|].
  destruct (is_invalid (s_result s)).
  { destruct (return_slashed _ _) as [s2 e] eqn:E. destruct e; try (intros H; inversion H; fail).
    apply return_slashed_frame in E. destruct E as [stk' ->]. intros H; inversion H; subst; cbn. repeat split; reflexivity. }
  destruct (is_support (s_result s)); [intros H; inversion H; subst; cbn; repeat split; reflexivity|].
  destruct (is_against (s_result s)); [|intros H; inversion H].
  destruct (return_slashed _ _) as [s2 e] eqn:E. destruct e; try (intros H; inversion H; fail).
  apply return_slashed_frame in E. destruct E as [stk' ->]. intros H; inversion H; subst; cbn. repeat split; reflexivity.
Qed.

Lemma exec_extra fx c s s' : 0 < c_S c -> c_S c <= P -> funded_inv c s -> extra fx s -> pot_covers fx s ->
  execute_vote true s = (s', OK) -> extra fx s'.
Proof.
  intros HS HP Hinv Hex Hpot E. pose proof Hinv as (Hid & Hexe & Hsl & Hb & Hft & Hst & Hesc & Htr & Hpe).
  pose proof Hex as (Hd & Hp & HL & Hid0 & Hrest). destruct (Hrest Hid) as (Hft' & Hprev & Hbs & Hpaid).
  destruct (execute_frame s s' E) as (F1 & F2 & F3 & F4 & F5 & F6 & F7 & F8 & F9 & F10).
  pose proof (execute_vote_amounts true s s' (proj1 Hbs) E) as Am. cbv zeta in Am.
  destruct Am as (_ & Ex' & _ & St' & Bn & Rn & _ & _ & Sum & Out & _).
  assert (Eid : (s_id s =? 0) = false) by (apply Z.eqb_neq; exact Hid).
  assert (EF : (s_status s =? Failed) = false) by (apply Z.eqb_neq; unfold Voting, Resolved, Unresolved, Failed in *; lia).
  assert (EP : (s_status s =? Prevote) = false) by (apply Z.eqb_neq; unfold Voting, Resolved, Unresolved, Prevote in *; lia).
  unfold liabilities12 in HL. rewrite Eid, Hexe, EF, EP in HL.
  assert (HV : voters_owed fx s' <= s_reward s').
  { unfold voters_owed. rewrite F6, F7, F5, F10. exact Hpot. }
  pose proof (due_sum_bound s') as DB. unfold payers_ok, paid, pool in DB. rewrite F9, F3, F2, F1, Ex', F4 in DB.
  specialize (DB Hp Hft' Hbs (Hpaid Hexe)).
  unfold extra, liabilities12, payers_ok, paid. rewrite F8, F9, F7, F3, F5, F2, F1, Ex', Eid.
  repeat split; try assumption; try lia; try (intros; contradiction); try (intros; discriminate).
  destruct (is_invalid (s_result s)); [unfold PR6 in *; lia|].
  destruct (is_support (s_result s)); unfold PR6 in *; lia.
Qed.

(* ================================================================================================ *)
(*  the strengthened invariant is inductive                                                           *)
(* ================================================================================================ *)
Lemma five_percent_bounds S : 0 < S -> 0 <= five_percent S <= S.
Proof.
  intros HS. rewrite five_percent_eq by lia. split; [apply Z.div_pos; lia|]. apply Z.div_le_upper_bound; lia.
Qed.

Lemma execute_extra fx c s : 0 < c_S c -> c_S c <= P -> s_id s <> 0 -> phases c s -> extra fx s -> pot_covers fx s ->
  extra fx (fst (execute_vote true s)).
Proof.
  intros HS HP Hid Hph Hex Hpot.
  destruct (execute_vote_cases true s) as [[s' E]|[e E]]; rewrite E; cbn [fst]; [|exact Hex].
  destruct Hph as [[P0 _]|[P1|[P2|[PF|PX]]]].
  - contradiction.
  - exfalso. destruct P1 as (_ & _ & _ & _ & Hst & _). revert E. unfold_ev. cbv zeta. rewrite Hst. intros H; inversion H.
  - eapply exec_extra; eassumption.
  - exfalso. destruct PF as (_ & _ & Hst & _). revert E. unfold_ev. cbv zeta. rewrite Hst. intros H; inversion H.
  - exfalso. destruct PX as [(He & _) _]. pose proof (execute_vote_refused_when_executed true s He) as [_ R].
    rewrite E in R. apply R. reflexivity.
Qed.

Lemma step_extra v c s o : fixc v = true -> linv v c s -> op_ok2 v c s o -> extra (fix35 v) (fst (step v c s o)).
Proof.
  intros Hfx (Hs & HP & Hex) [Hop Hpot].
  pose proof (step_sinv v c s o Hfx Hs Hop) as Hs'. destruct Hs as [HS Hph]. destruct Hs' as [_ Hph'].
  pose proof (five_percent_bounds (c_S c) HS) as H5.
  destruct o as [who fee bond ft sl|who id fee bond ft sl|now|st' op' pe' r'|rs| |id|who id|who id|]; cbn [step fst] in *.
  - (* propose *)
    destruct Hop as (-> & Hid & (os & t & -> & Hsum)). pose proof Hex as (Hd & Hp & HL & Hid0 & Hrest).
    specialize (Hid0 Hid). unfold liabilities12 in HL. rewrite Hid in HL. cbn [Z.eqb] in HL.
    unfold propose. destruct (Z.ltb_spec fee MIN_FEE) as [Hf|Hf]; [exact Hex|]. rewrite Hid. cbn [Z.eqb]. unfold MIN_FEE in Hf.
    set (amt := if c_S c <? fee then c_S c else fee).
    assert (Ha : 0 < amt <= c_S c) by (unfold amt; destruct (Z.ltb_spec (c_S c) fee); lia).
    unfold pay. proj. destruct (getz (s_liq s) who <? amt); [exact Hex|]. unfold funded. proj. rewrite Hid0.
    cbn [set_payer remove_payer filter app p_id p_who].
    destruct (Z.eqb_spec amt (c_S c)) as [E|E]; cbn [fst]; unf; proj; cbn [map p_amt]; rewrite ?sumz_cons;
      change (sumz []) with 0; change (1 =? 0) with false; change (Voting =? Failed) with false;
      change (Voting =? Prevote) with false; change (Prevote =? Failed) with false; change (Prevote =? Prevote) with true;
      cbv iota; (repeat split; try assumption; try lia; try (intros; discriminate);
                 try (apply Forall_cons; [cbn [p_amt p_bond]; split; [lia | reflexivity] | apply Forall_nil])); unfold PR6 in *; lia.
  - (* add fee *)
    destruct Hop as (-> & (os & t & -> & Hsum)). pose proof Hex as (Hd & Hp & HL & Hid0 & Hrest).
    unfold add_fee. destruct (Z.leb_spec fee 0) as [Hf|Hf]; [exact Hex|].
    destruct (negb (id =? s_id s) || (s_id s =? 0)) eqn:G; [exact Hex|].
    apply orb_false_iff in G. destruct G as [G0 G1]. apply negb_false_iff in G0. apply Z.eqb_eq in G0. pose proof G1 as G1b.
    apply Z.eqb_neq in G1. destruct (Hrest G1) as (Hft & Hprev & Hbs & Hpaid).
    destruct ((who =? c_reporter c) && false); [exact Hex|].
    destruct (Z.ltb_spec (s_end s) (s_now s)) as [Hend|Hend]; [exact Hex|].
    destruct (Z.leb_spec (s_slash s) (s_feetotal s)) as [Hmet|Hmet]; [exact Hex|].
    (* only a dispute in prevote gets here *)
    destruct Hph as [[P0 _]|[P1|[P2|[PF|PX]]]]; [contradiction | | | |].
    2:{ destruct P2 as (_ & _ & A & _ & B & _). lia. }
    2:{ destruct PF as (_ & _ & _ & _ & A). lia. }
    2:{ destruct PX as [(_ & _ & _ & A) _]. lia. }
    destruct P1 as (_ & Hexe & Hsl & Hb & Hst & Hpe & Hft1 & Hesc).
    unfold liabilities12 in HL. rewrite G1b, Hexe, Hst in HL. change (Prevote =? Failed) with false in HL.
    change (Prevote =? Prevote) with true in HL. cbv iota in HL. specialize (Hpaid Hexe).
    set (amt := if s_slash s <? s_feetotal s + fee then s_slash s - s_feetotal s else fee).
    assert (Ha : 0 < amt /\ s_feetotal s + amt <= c_S c).
    { unfold amt. destruct (Z.ltb_spec (s_slash s) (s_feetotal s + fee)); lia. }
    unfold pay. destruct (getz (s_liq s) who <? amt); [exact Hex|]. proj.
    set (rec_amt := match find_payer (s_payers s) id who with
                    | Some p => if fix20 v then p_amt p + amt else amt | None => amt end).
    assert (Pn : forall x, In x (s_payers s) -> 0 <= p_amt x).
    { intros x Hx. unfold payers_ok in Hp. rewrite Forall_forall in Hp. apply Hp. exact Hx. }
    assert (Hrec : 0 <= rec_amt /\ sumz (map p_amt (remove_payer (s_payers s) id who)) + rec_amt <= paid s + amt).
    { unfold rec_amt, paid. destruct (find_payer (s_payers s) id who) as [p|] eqn:Fp.
      - pose proof (sum_remove p_amt (s_payers s) id who p Pn Fp). pose proof (Pn p (find_payer_In _ _ _ _ Fp)).
        destruct (fix20 v); lia.
      - pose proof (sum_remove_le p_amt (s_payers s) id who Pn). lia. }
    pose proof (Forall_remove _ (s_payers s) id who Hp) as FR.
    unfold funded. proj.
    destruct (Z.eqb_spec (s_feetotal s + amt) (s_slash s)) as [E|E]; cbn [fst]; unf; proj;
      unfold set_payer; cbn [p_id p_who]; rewrite ?map_app; cbn [map p_amt]; rewrite ?sumz_app, ?sumz_cons;
      change (sumz []) with 0; rewrite ?G1b, ?Hst, ?Hexe; change (Voting =? Failed) with false;
      change (Voting =? Prevote) with false; change (Prevote =? Failed) with false; change (Prevote =? Prevote) with true;
      cbv iota; (repeat split; try assumption; try lia; try (intros; contradiction);
                 try (apply Forall_app; split; [exact FR | apply Forall_cons; [cbn [p_amt p_bond]; split; [lia | reflexivity] | apply Forall_nil]]));
      unfold PR6 in *; lia.
  - (* time *) unfold set_now. unf. proj. exact Hex.
  - (* tally *)
    unfold tally. destruct ((s_id s =? 0) || s_executed s || negb (tally_allowed (s_status s) st')) eqn:Eg; [exact Hex|].
    apply orb_false_iff in Eg. destruct Eg as [Eg Eg3]. apply orb_false_iff in Eg. destruct Eg as [Eg1 Eg2].
    apply negb_false_iff in Eg3. apply tally_allowed_spec in Eg3.
    match goal with |- extra _ ?x => pose proof (due_sum_bound x) as DB end. unfold pool in DB.
    unf. proj_in DB. proj. rewrite Eg1, Eg2 in *. cbv iota in *.
    destruct Hex as (Hd & Hp & HL & Hid0 & Hrest). apply Z.eqb_neq in Eg1. destruct (Hrest Eg1) as (Hft & Hprev & Hbs & Hpaid).
    specialize (DB Hp Hft Hbs (Hpaid eq_refl)).
    assert (Hq : 0 <= s_feetotal s / 20 <= s_feetotal s).
    { split; [apply Z.div_pos; lia | apply Z.div_le_upper_bound; lia]. }
    assert (Hsf : s_status s = Prevote \/ s_status s = Failed \/ (0 <= s_slash s /\ s_status s <> Prevote /\ s_status s <> Failed)).
    { destruct Hph as [[P0 _]|[P1|[P2|[PF|PX]]]].
      - contradiction.
      - left. apply P1.
      - right. right. destruct P2 as (_ & _ & A & _ & _ & B & _). unfold Voting, Resolved, Unresolved, Prevote, Failed in *. lia.
      - right. left. apply PF.
      - destruct PX as [(A & _) _]. congruence. }
    destruct (Z.eqb_spec st' Failed) as [T1|T1]; destruct (Z.eqb_spec st' Prevote) as [T2|T2];
      destruct (Z.eqb_spec (s_status s) Failed) as [T3|T3]; destruct (Z.eqb_spec (s_status s) Prevote) as [T4|T4];
      repeat split; try assumption; try (intros; contradiction);
      unfold Voting, Resolved, Unresolved, Prevote, Failed, PR6 in *; try lia.
  - (* votes *)
    unfold set_votes. destruct (s_executed s) eqn:Eex; [exact Hex|]. unf. proj. rewrite Eex in *. cbv iota in *. exact Hex.
  - (* begin blocker *)
    unfold_eb. rewrite Hfx. destruct (negb (s_id s =? 0) && s_pending s && _) eqn:G; [|exact Hex].
    apply (execute_extra (fix35 v) c s HS HP); try assumption.
    intros H0. rewrite H0 in G. discriminate G.
  - (* ExecuteVote *)
    rewrite Hfx. destruct ((s_id s =? 0) || negb (id =? s_id s)) eqn:G; [exact Hex|].
    apply (execute_extra (fix35 v) c s HS HP); try assumption.
    intros H0. rewrite H0 in G. discriminate G.
  - (* refund *)
    apply withdraw_extra; [exact Hex|]. intros Hid Hst.
    destruct Hph as [[P0 _]|[P1|[P2|[PF|PX]]]].
    + contradiction.
    + apply P1.
    + apply P2.
    + apply PF.
    + destruct PX as [(_ & A & _) _]. rewrite A in Hst. discriminate Hst.
  - (* reward *) apply claim_extra. exact Hex.
  - exact Hex.
Qed.

Theorem step_linv v c s o : fixc v = true -> linv v c s -> op_ok2 v c s o -> linv v c (fst (step v c s o)).
Proof.
  intros Hfx Hl Hop. pose proof (step_extra v c s o Hfx Hl Hop) as He. destruct Hl as (Hs & HP & _). destruct Hop as [Hop _].
  split; [apply step_sinv; assumption|]. split; assumption.
Qed.

Theorem run_linv v c : fixc v = true -> forall ops s, linv v c s -> env_ok2 v c s ops -> linv v c (run v c s ops).
Proof.
  intros Hfx. unfold run. induction ops as [|o r IH]; intros s Hl He; cbn [fold_left]; [exact Hl|].
  destruct He as [Ho He]. apply IH; [apply step_linv; assumption | exact He].
Qed.

Lemma init_linv v c now liq stk : 0 < c_S c <= P -> linv v c (init_st now liq stk).
Proof.
  intros [HS HP]. split; [apply init_sinv; exact HS|]. split; [exact HP|].
  unfold extra, liabilities12, payers_ok, init_st. proj. cbn [Z.eqb].
  repeat split; try lia; try constructor; try (intros H; exfalso; apply H; reflexivity).
Qed.

(* ---- the statement: the escrow covers the liabilities ---- *)
Theorem liabilities12_covered v c s : linv v c s -> liabilities12 (fix35 v) s <= s_esc s * PR6.
Proof. intros (_ & _ & (_ & _ & H & _)). exact H. Qed.

Theorem liabilities_covered v c s : linv v c s -> liabilities v s <= s_esc s.
Proof.
  intros H. apply liabilities12_covered in H. unfold liabilities. unfold PR6 in *. Z.div_mod_to_equations. lia.
Qed.

Theorem liabilities_covered_histories v c : fixc v = true -> forall ops s,
  linv v c s -> env_ok2 v c s ops -> liabilities v (run v c s ops) <= s_esc (run v c s ops).
Proof. intros Hfx ops s Hl He. apply (liabilities_covered v c). apply run_linv; assumption. Qed.

(* ---- corollaries: no refund, reward claim or begin-block execution fails for lack of funds ---- *)
Lemma linv_failed_not_executed v c s : linv v c s -> s_id s <> 0 -> s_status s = Failed -> s_executed s = false.
Proof.
  intros ([_ Hph] & _) Hid Hst. destruct Hph as [[P0 _]|[P1|[P2|[PF|PX]]]].
  - contradiction.
  - apply P1.
  - apply P2.
  - apply PF.
  - destruct PX as [(_ & A & _) _]. rewrite A in Hst. discriminate Hst.
Qed.

Theorem withdraw_never_insufficient v c s who id : linv v c s -> snd (step v c s (OWithdraw who id)) <> EInsufficient.
Proof.
  intros Hl. cbn [step]. pose proof Hl as (_ & _ & Hex).
  apply (withdraw_extra (fix35 v) s who id Hex). apply (linv_failed_not_executed v c s Hl).
Qed.

Theorem claim_never_insufficient v c s who id : linv v c s -> snd (step v c s (OClaim who id)) <> EInsufficient.
Proof. intros (_ & _ & Hex). cbn [step]. apply (claim_extra (fix35 v) s who id Hex). Qed.

Theorem exec_block_never_insufficient v c s : fixc v = true -> linv v c s -> snd (step v c s OExecBlock) = OK.
Proof. intros Hfx (Hs & _). apply exec_block_never_fails; assumption. Qed.

(* ================================================================================================ *)
(*  non-vacuity and tightness                                                                         *)
(* ================================================================================================ *)
(* a dispute of 150000 loya funded by two payers from their accounts (50000 + 100000), a vote with one tipper,
   INVALID, executed by the begin blocker; then payer 1 withdraws its refund and the voter claims its reward *)
Definition ex2_ops : list op :=
  [OPropose 1 50000 false None snap; OAddFee 2 1 100000 false None snap; OTime (THREE_DAYS + 1);
   OTally Resolved false true 3; OVotes (votes1 500 0); OExecBlock; OWithdraw 1 1; OClaim 1 1].

Example ex2_hypotheses : linv repo_variant cfg0 st0 /\ env_ok2 repo_variant cfg0 st0 ex2_ops.
Proof.
  split; [apply init_linv; unfold P; cbn; lia|].
  cbn [env_ok2 ex2_ops]. repeat match goal with |- _ /\ _ => split end; try exact I.
  - split; [|exact I]. cbn [op_ok]. split; [reflexivity|]. split; [reflexivity|]. exists [(0, 150000)], 150000. split; reflexivity.
  - split; [|exact I]. cbn [op_ok]. split; [reflexivity|]. exists [(0, 150000)], 150000. split; reflexivity.
  - split; [|exact I]. cbn [op_ok]. vm_compute. intros H; discriminate H.
  - split; [|exact I]. cbn [op_ok]. split; [intros _; split; [lia | left; reflexivity] | intros H; discriminate H].
  - split; exact I.
  - split; [exact I|]. vm_compute. intros H; discriminate H.
  - split; exact I.
  - split; exact I.
Qed.

(* every operation is accepted; the bound is tight after the execution (escrow 146250 = refunds 47500 + 95000 + pot 3750)
   and after the first refund and the reward claim (escrow 95000 = the refund still owed) *)
Example ex2_tight :
  codes repo_variant cfg0 st0 ex2_ops = [OK; OK; OK; OK; OK; OK; OK; OK]
  /\ (let s := run repo_variant cfg0 st0 (firstn 5 ex2_ops) in
      (liabilities repo_variant s, s_esc s) = (300000, 300000))
  /\ (let s := run repo_variant cfg0 st0 (firstn 6 ex2_ops) in
      (s_executed s, liabilities12 true s, liabilities repo_variant s, s_esc s) = (true, 146250 * PR6, 146250, 146250))
  /\ (let s := run repo_variant cfg0 st0 ex2_ops in
      (liabilities12 true s, liabilities repo_variant s, s_esc s, s_dust s) = (95000 * PR6, 95000, 95000, 0)).
Proof. vm_compute. repeat split; reflexivity. Qed.
