(* C07 / C08 — no two rounds of one query close in the same block.

   The hypothesis [closing_distinct] of the end-blocker theorems is an invariant of every well-scheduled
   history (operations of height H, then the end blocker of height H, then height H+1, ...) in which
   every report window is at least one block: a second round of a query exists only for a bridge
   deposit whose earlier round closes in the very block in which the new one was opened, and the new
   one closes strictly later. *)
From Coq Require Import ZArith List Bool Lia String Permutation Sorted.
From Verif Require Import Base.Harness Model.OracleRound Model.OracleRoundCheck Proofs.OracleRoundProofs Proofs.OracleRoundInv.
Import ListNotations.
Open Scope Z_scope.

(* ---- current_query returns the round with the greatest id ------------------------------------------ *)
Lemma current_query_app q l x : current_query q (l ++ [x]) = if m_qid x =? q then Some x else current_query q l.
Proof. unfold current_query. rewrite fold_left_app. reflexivity. Qed.

Lemma metas_sorted_app_inv l x : metas_sorted (l ++ [x]) -> metas_sorted l /\ forall y, In y l -> meta_lt y x = true.
Proof.
  unfold metas_sorted, ssorted. induction l as [|z t IH]; cbn [app]; intros H.
  - split; [constructor | intros y []].
  - inversion H as [|a b Hs Hf]; subst. destruct (IH Hs) as [H1 H2]. split.
    + constructor; [exact H1|]. rewrite Forall_forall in *. intros y Hy. apply Hf. apply in_or_app. left. exact Hy.
    + intros y [<-|Hy]; [|apply H2; exact Hy]. rewrite Forall_forall in Hf. apply Hf. apply in_or_app. right. left. reflexivity.
Qed.

Lemma current_query_max q : forall l m, metas_sorted l -> current_query q l = Some m ->
  forall m', In m' l -> m_qid m' = q -> m_id m' <= m_id m.
Proof.
  induction l as [|x l IH] using rev_ind; intros m Hs E m' Hin Hq; [destruct Hin|].
  rewrite current_query_app in E. destruct (metas_sorted_app_inv _ _ Hs) as [Hs1 Hlt].
  apply in_app_or in Hin. destruct (m_qid x =? q) eqn:Ex.
  - injection E as <-. apply Z.eqb_eq in Ex. destruct Hin as [Hin|[<-|[]]]; [|lia].
    specialize (Hlt _ Hin). apply meta_lt_spec in Hlt. lia.
  - apply Z.eqb_neq in Ex. destruct Hin as [Hin|[<-|[]]]; [|congruence]. eapply IH; eassumption.
Qed.

Lemma in_meta_set x l y : metas_sorted l -> (In y (meta_set x l) <-> y = x \/ (In y l /\ meta_key_eq x y = false)).
Proof.
  intros Hs. split.
  - intros H. destruct (meta_key_eq x y) eqn:Ek.
    + left. eapply sset_replaces; try eassumption.
      * exact meta_lt_trans. * exact meta_keq_lt. * exact meta_total. * exact meta_keq_sym. * exact meta_keq_lt_l.
    + apply meta_set_in in H. destruct H as [->|H]; [left; reflexivity | right; split; [exact H | reflexivity]].
  - intros [->|[H1 H2]]; [apply meta_set_has | apply meta_set_keeps; assumption].
Qed.

(* ---- the invariant ------------------------------------------------------------------------------------ *)
(* over the components it speaks about: the Query store, the query sequencer, the two registry windows *)
Record kq (Q : list qmeta) (nm sw bw H : Z) : Prop := {
  k_sorted : metas_sorted Q;
  (* a round with reports has not expired before the current block *)
  k_live : forall m, In m Q -> m_has_reports m = true -> H <= m_expiration m;
  (* an earlier round of a query that holds reports closes in this block, every later round after it *)
  k_pair : forall m1 m2, In m1 Q -> In m2 Q -> m_qid m1 = m_qid m2 -> m_id m1 < m_id m2 ->
             m_has_reports m1 = true -> m_expiration m1 = H /\ H < m_expiration m2;
  k_fresh : forall m, In m Q -> m_id m < nm;
  k_windows : 1 <= sw /\ 1 <= bw /\ forall m, In m Q -> 1 <= m_window m
}.
Definition kinv (s : ostate) (H : Z) : Prop := kq (o_queries s) (o_next_meta s) (o_spot_window s) (o_bridge_window s) H.

Theorem kinv_closing_distinct s H : kinv s H -> closing_distinct H (o_queries s).
Proof.
  intros [Ks Kl Kp _ _]. unfold closing_distinct.
  assert (G : forall l, metas_sorted l -> (forall m, In m l -> In m (o_queries s)) -> NoDup (map m_qid (filter (closing H) l))).
  { unfold metas_sorted, ssorted. induction 1 as [|x t Hs IH Hx]; intros Hsub; cbn [filter map]; [constructor|].
    destruct (closing H x) eqn:Ec; [|apply IH; intros m Hm; apply Hsub; right; exact Hm].
    cbn [map]. constructor; [|apply IH; intros m Hm; apply Hsub; right; exact Hm].
    intros Hin. apply in_map_iff in Hin. destruct Hin as (y & Hq & Hy). apply filter_In in Hy. destruct Hy as [Hy Hcy].
    rewrite Forall_forall in Hx. specialize (Hx _ Hy). apply meta_lt_spec in Hx.
    unfold closing in Ec, Hcy. apply andb_prop in Ec. destruct Ec as [E1 E2]. apply andb_prop in Hcy. destruct Hcy as [E3 E4].
    apply Z.leb_le in E2, E4.
    destruct Hx as [Hx|[_ Hx]]; [lia|].
    destruct (Kp x y (Hsub _ (or_introl eq_refl)) (Hsub _ (or_intror Hy)) (eq_sym Hq) Hx E1) as [_ G2]. lia. }
  apply G; [exact Ks | auto].
Qed.

Lemma keq_false_id x y : m_qid x = m_qid y -> meta_key_eq x y = false -> m_id x <> m_id y.
Proof. intros Hq Hk Hi. assert (meta_key_eq x y = true) by (apply meta_keq_spec; auto). congruence. Qed.

(* ---- three ways the Query store changes ------------------------------------------------------------- *)
(* (1) the current round of a query is rewritten under its key *)
Lemma kq_update Q nm sw bw H m m' :
  kq Q nm sw bw H -> current_query (m_qid m) Q = Some m ->
  m_qid m' = m_qid m -> m_id m' = m_id m -> 1 <= m_window m' ->
  (m_has_reports m' = true -> H <= m_expiration m') ->
  (H < m_expiration m -> H < m_expiration m') ->
  kq (meta_set m' Q) nm sw bw H.
Proof.
  intros [Ks Kl Kp Kf Kw] Ec Eq Ei Hw Hc1 Hc2.
  destruct (current_query_in _ _ _ Ec) as [Hm _].
  assert (Hmax : forall y, In y Q -> m_qid y = m_qid m -> m_id y <= m_id m) by (intros y Hy Hq; eapply current_query_max; eassumption).
  constructor.
  - apply meta_set_sorted. exact Ks.
  - intros y Hy Hr. apply (in_meta_set _ _ _ Ks) in Hy. destruct Hy as [->|[Hy _]]; [apply Hc1; exact Hr | apply Kl; assumption].
  - intros m1 m2 H1 H2 Hq Hlt Hr. apply (in_meta_set _ _ _ Ks) in H1, H2.
    destruct H1 as [->|[H1 K1]]; destruct H2 as [->|[H2 K2]].
    + lia.
    + exfalso. assert (m_id m2 <= m_id m) by (apply Hmax; [exact H2 | congruence]). lia.
    + assert (Hne : m_id m' <> m_id m1) by (apply keq_false_id; [congruence | exact K1]).
      destruct (Kp m1 m H1 Hm) as [G1 G2]; [congruence | lia | exact Hr |]. split; [exact G1 | apply Hc2; exact G2].
    + apply Kp; assumption.
  - intros y Hy. apply (in_meta_set _ _ _ Ks) in Hy. destruct Hy as [->|[Hy _]]; [rewrite Ei; apply Kf; exact Hm | apply Kf; exact Hy].
  - destruct Kw as (W1 & W2 & W3). split; [exact W1|]. split; [exact W2|].
    intros y Hy. apply (in_meta_set _ _ _ Ks) in Hy. destruct Hy as [->|[Hy _]]; [exact Hw | apply W3; exact Hy].
Qed.

(* (2) the first round of a query that has none *)
Lemma kq_insert_first Q nm sw bw H x :
  kq Q nm sw bw H -> current_query (m_qid x) Q = None -> m_id x = nm -> 1 <= m_window x ->
  (m_has_reports x = true -> H <= m_expiration x) ->
  kq (meta_set x Q) (nm + 1) sw bw H.
Proof.
  intros [Ks Kl Kp Kf Kw] Ec Ei Hw Hc1.
  assert (Hnone : forall y, In y Q -> m_qid y <> m_qid x) by (apply current_query_none; exact Ec).
  constructor.
  - apply meta_set_sorted. exact Ks.
  - intros y Hy Hr. apply (in_meta_set _ _ _ Ks) in Hy. destruct Hy as [->|[Hy _]]; [apply Hc1; exact Hr | apply Kl; assumption].
  - intros m1 m2 H1 H2 Hq Hlt Hr. apply (in_meta_set _ _ _ Ks) in H1, H2.
    destruct H1 as [->|[H1 K1]]; destruct H2 as [->|[H2 K2]].
    + lia.
    + exfalso. apply (Hnone _ H2). congruence.
    + exfalso. apply (Hnone _ H1). congruence.
    + apply Kp; assumption.
  - intros y Hy. apply (in_meta_set _ _ _ Ks) in Hy. destruct Hy as [->|[Hy _]]; [lia | specialize (Kf _ Hy); lia].
  - destruct Kw as (W1 & W2 & W3). split; [exact W1|]. split; [exact W2|].
    intros y Hy. apply (in_meta_set _ _ _ Ks) in Hy. destruct Hy as [->|[Hy _]]; [exact Hw | apply W3; exact Hy].
Qed.

(* (3) a further round of a query whose current round (without tip) closes in this block at the latest *)
Lemma kq_insert_round Q nm sw bw H m x :
  kq Q nm sw bw H -> current_query (m_qid m) Q = Some m -> m_expiration m <= H ->
  m_qid x = m_qid m -> m_id x = nm -> 1 <= m_window x -> H < m_expiration x ->
  kq (meta_set x Q) (nm + 1) sw bw H.
Proof.
  intros [Ks Kl Kp Kf Kw] Ec He Eq Ei Hw Hx.
  destruct (current_query_in _ _ _ Ec) as [Hm _].
  assert (Hmax : forall y, In y Q -> m_qid y = m_qid m -> m_id y <= m_id m) by (intros y Hy Hq; eapply current_query_max; eassumption).
  constructor.
  - apply meta_set_sorted. exact Ks.
  - intros y Hy Hr. apply (in_meta_set _ _ _ Ks) in Hy. destruct Hy as [->|[Hy _]]; [lia | apply Kl; assumption].
  - intros m1 m2 H1 H2 Hq Hlt Hr. apply (in_meta_set _ _ _ Ks) in H1, H2.
    destruct H1 as [->|[H1 K1]]; destruct H2 as [->|[H2 K2]].
    + lia.
    + exfalso. specialize (Kf _ H2). lia.
    + split; [|exact Hx].
      destruct (Z.eq_dec (m_id m1) (m_id m)) as [Ee|Ne].
      * assert (m1 = m) by (eapply metas_key_unique; [exact Ks | exact H1 | exact Hm | apply meta_keq_spec; split; congruence]).
        subst m1. specialize (Kl _ Hm Hr). lia.
      * assert (m_id m1 <= m_id m) by (apply Hmax; [exact H1 | congruence]).
        destruct (Kp m1 m H1 Hm) as [_ G2]; [congruence | lia | exact Hr | lia].
    + apply Kp; assumption.
  - intros y Hy. apply (in_meta_set _ _ _ Ks) in Hy. destruct Hy as [->|[Hy _]]; [lia | specialize (Kf _ Hy); lia].
  - destruct Kw as (W1 & W2 & W3). split; [exact W1|]. split; [exact W2|].
    intros y Hy. apply (in_meta_set _ _ _ Ks) in Hy. destruct Hy as [->|[Hy _]]; [exact Hw | apply W3; exact Hy].
Qed.

(* removing rounds keeps the invariant *)
Lemma kq_filter Q nm sw bw H f : kq Q nm sw bw H -> kq (filter f Q) nm sw bw H.
Proof.
  intros [Ks Kl Kp Kf Kw]. constructor.
  - apply ssorted_filter. exact Ks.
  - intros m Hm. apply filter_In in Hm. apply Kl. tauto.
  - intros m1 m2 H1 H2. apply filter_In in H1, H2. apply Kp; tauto.
  - intros m Hm. apply filter_In in Hm. apply Kf. tauto.
  - destruct Kw as (W1 & W2 & W3). split; [exact W1|]. split; [exact W2|]. intros m Hm. apply filter_In in Hm. apply W3. tauto.
Qed.

Lemma kq_next Q nm nm' sw bw H : kq Q nm sw bw H -> nm <= nm' -> kq Q nm' sw bw H.
Proof. intros [Ks Kl Kp Kf Kw] Hn. constructor; try assumption. intros m Hm. specialize (Kf _ Hm). lia. Qed.

Lemma current_query_some_iff Q m : metas_sorted Q -> In m Q ->
  (forall y, In y Q -> m_qid y = m_qid m -> m_id y <= m_id m) -> current_query (m_qid m) Q = Some m.
Proof.
  intros Ks Hm Hmax. destruct (current_query (m_qid m) Q) as [m0|] eqn:E.
  - destruct (current_query_in _ _ _ E) as [H0 Hq]. f_equal.
    eapply metas_key_unique; [exact Ks | exact H0 | exact Hm |]. apply meta_keq_spec. split; [exact Hq|].
    assert (m_id m <= m_id m0) by (eapply current_query_max; [exact Ks | exact E | exact Hm | reflexivity]).
    assert (m_id m0 <= m_id m) by (apply Hmax; assumption). lia.
  - exfalso. eapply current_query_none; [exact E | exact Hm | reflexivity].
Qed.

Lemma kq_map_window Q nm sw bw sw' bw' H (g : qmeta -> qmeta) :
  (forall m, m_qid (g m) = m_qid m /\ m_id (g m) = m_id m /\ m_expiration (g m) = m_expiration m /\ m_has_reports (g m) = m_has_reports m) ->
  (forall m, 1 <= m_window m -> 1 <= m_window (g m)) -> 1 <= sw' -> 1 <= bw' ->
  kq Q nm sw bw H -> kq (map g Q) nm sw' bw' H.
Proof.
  intros Hg Hw Hs' Hb' [Ks Kl Kp Kf Kw].
  assert (Hin : forall y, In y (map g Q) -> exists m, In m Q /\ y = g m) by (intros y Hy; apply in_map_iff in Hy; destruct Hy as (m & <- & Hm); eauto).
  constructor.
  - apply ssorted_map_key; [|exact Ks]. intros a b. unfold meta_lt. destruct (Hg a) as (-> & -> & _). destruct (Hg b) as (-> & -> & _). reflexivity.
  - intros y Hy Hr. destruct (Hin _ Hy) as (m & Hm & ->). destruct (Hg m) as (_ & _ & -> & E). rewrite E in Hr. apply Kl; assumption.
  - intros y1 y2 H1 H2 Hq Hlt Hr. destruct (Hin _ H1) as (m1 & Hm1 & ->). destruct (Hin _ H2) as (m2 & Hm2 & ->).
    destruct (Hg m1) as (Q1 & I1 & E1 & R1). destruct (Hg m2) as (Q2 & I2 & E2 & R2). rewrite E1, E2. rewrite Q1, Q2 in Hq. rewrite I1, I2 in Hlt. rewrite R1 in Hr.
    apply Kp; assumption.
  - intros y Hy. destruct (Hin _ Hy) as (m & Hm & ->). destruct (Hg m) as (_ & -> & _). apply Kf. exact Hm.
  - destruct Kw as (_ & _ & W3). split; [exact Hs'|]. split; [exact Hb'|]. intros y Hy. destruct (Hin _ Hy) as (m & Hm & ->). apply Hw. apply W3. exact Hm.
Qed.

(* after the aggregation pass of block H the invariant holds for block H+1 *)
Lemma kq_after_aggregation Q nm sw bw H :
  kq Q nm sw bw H -> kq (filter (fun y => negb (closing H y)) Q) nm sw bw (H + 1).
Proof.
  intros K. pose proof (kq_filter _ _ _ _ _ (fun y => negb (closing H y)) K) as [Ks Kl Kp Kf Kw].
  assert (Hlive : forall m, In m (filter (fun y => negb (closing H y)) Q) -> m_has_reports m = true -> H + 1 <= m_expiration m).
  { intros m Hm Hr. pose proof (Kl _ Hm Hr). apply filter_In in Hm. destruct Hm as [_ Hc]. apply negb_true_iff in Hc.
    unfold closing in Hc. rewrite Hr in Hc. cbn [andb] in Hc. apply Z.leb_gt in Hc. lia. }
  constructor; try assumption.
  intros m1 m2 H1 H2 Hq Hlt Hr. exfalso. destruct (Kp m1 m2 H1 H2 Hq Hlt Hr) as [G1 _]. specialize (Hlive _ H1 Hr). lia.
Qed.

(* ---- the operations ------------------------------------------------------------------------------------ *)
Lemma spec_window_ge1 s k w : 1 <= o_spot_window s -> 1 <= o_bridge_window s -> spec_window s k = Some w -> 1 <= w.
Proof. intros H1 H2. destruct k; cbn; intros E; try discriminate; injection E as <-; assumption. Qed.

Lemma tip_kinv s H q a s' : kinv s H -> tip s H q a = Some s' -> kinv s' H.
Proof.
  unfold kinv. intros K. pose proof K as [Ks Kl Kp Kf (W1 & W2 & W3)]. unfold tip.
  destruct (current_query (qi_id q) (o_queries s)) as [m|] eqn:Ec.
  - destruct (current_query_in _ _ _ Ec) as [Hm Hq]. rewrite <- Hq in Ec. intros E. injection E as <-. cbn [with_queries o_queries o_next_meta o_spot_window o_bridge_window].
    destruct (m_expiration m <? H) eqn:El.
    + apply Z.ltb_lt in El.
      eapply kq_update; [exact K | exact Ec | reflexivity | reflexivity | cbn; apply W3; exact Hm | |]; cbn [set_amount_exp m_has_reports m_expiration].
      * intros Hr. pose proof (Kl _ Hm Hr). lia.
      * intros Hlt. lia.
    + apply Z.ltb_ge in El.
      eapply kq_update; [exact K | exact Ec | reflexivity | reflexivity | cbn; apply W3; exact Hm | |]; cbn [set_amount_exp m_has_reports m_expiration].
      * intros Hr. apply Kl; assumption.
      * auto.
  - destruct (initialize_query s q) as [[m0 s1]|] eqn:Ei; [|discriminate]. unfold initialize_query in Ei.
    destruct (spec_window s (qi_kind q)) as [w|] eqn:Ew; [|discriminate]. injection Ei as <- <-.
    intros E. injection E as <-. cbn [with_queries o_queries o_next_meta o_spot_window o_bridge_window].
    apply kq_insert_first; [exact K | exact Ec | reflexivity | cbn; eapply spec_window_ge1; eassumption | cbn; discriminate].
Qed.

Lemma set_value_kinv_update s H m rep pw inc vok s' :
  kinv s H -> current_query (m_qid m) (o_queries s) = Some m -> H <= m_expiration m ->
  set_value s H m rep pw inc vok = inl s' -> kinv s' H.
Proof.
  unfold kinv. intros K Ec He. pose proof K as [Ks Kl Kp Kf (W1 & W2 & W3)]. destruct (current_query_in _ _ _ Ec) as [Hm _].
  unfold set_value. destruct vok; cbn [negb]; [|discriminate]. intros E. injection E as <-.
  cbn [o_queries o_next_meta o_spot_window o_bridge_window].
  eapply kq_update; [exact K | exact Ec | reflexivity | reflexivity | cbn; apply W3; exact Hm | cbn; intros _; exact He | cbn; auto].
Qed.

Lemma deposit_reveal_kinv s H m rep pw vok s' :
  kinv s H -> current_query (m_qid m) (o_queries s) = Some m -> deposit_reveal s H m rep pw vok = inl s' -> kinv s' H.
Proof.
  unfold kinv. intros K Ec. pose proof K as [Ks Kl Kp Kf (W1 & W2 & W3)]. destruct (current_query_in _ _ _ Ec) as [Hm _].
  pose proof (W3 _ Hm) as Hw. unfold deposit_reveal.
  destruct ((m_amount m =? 0) && (m_expiration m <=? H)) eqn:E1.
  - apply andb_prop in E1. destruct E1 as [_ E1]. apply Z.leb_le in E1. cbn [m_expiration].
    destruct (H + m_window m <? H); [discriminate|]. unfold set_value. destruct vok; cbn [negb]; [|discriminate].
    intros E. injection E as <-. cbn [o_queries o_next_meta o_spot_window o_bridge_window m_qid m_id m_amount m_expiration m_window m_cycle m_bridge_type].
    eapply kq_insert_round; [exact K | exact Ec | exact E1 | reflexivity | reflexivity | cbn; exact Hw | cbn; lia].
  - destruct ((0 <? m_amount m) && (m_expiration m <=? H)) eqn:E2.
    + unfold set_amount_exp at 1. cbn [m_expiration]. destruct (H + m_window m <? H); [discriminate|].
      unfold set_value. destruct vok; cbn [negb]; [|discriminate]. intros E. injection E as <-.
      cbn [o_queries o_next_meta o_spot_window o_bridge_window set_amount_exp m_qid m_id m_amount m_expiration m_window m_cycle m_bridge_type m_has_reports].
      eapply kq_update; [exact K | exact Ec | reflexivity | reflexivity | cbn; exact Hw | cbn; lia | cbn; lia].
    + destruct (m_expiration m <? H) eqn:E3; [discriminate|]. apply Z.ltb_ge in E3.
      apply set_value_kinv_update; assumption.
Qed.

Lemma submit_kinv s H q rep stake mn vok s' : kinv s H -> submit_value s H q rep stake mn vok = inl s' -> kinv s' H.
Proof.
  intros K. pose proof K as [Ks Kl Kp Kf (W1 & W2 & W3)]. unfold submit_value.
  destruct (qi_kind q); try discriminate; (destruct stake as [st|]; [|discriminate]); (destruct (st <? mn); [discriminate|]);
  (destruct (current_query (qi_id q) (o_queries s)) as [m|] eqn:Ec;
   [destruct (current_query_in _ _ _ Ec) as [Hm Hq]; rewrite <- Hq in Ec|]); cbn [negb]; try discriminate.
  - destruct (_ && _); [discriminate|]. destruct (m_expiration m <? H) eqn:E3; [discriminate|]. apply Z.ltb_ge in E3.
    apply set_value_kinv_update; assumption.
  - apply deposit_reveal_kinv; assumption.
  - (* the first round of a deposit query *)
    match goal with |- deposit_reveal ?s1 H ?m0 _ _ _ = _ -> _ => set (s1v := s1); set (m0v := m0) end.
    assert (K1 : kinv s1v H).
    { unfold kinv, s1v. cbn [o_queries o_next_meta o_spot_window o_bridge_window].
      apply kq_insert_first; [exact K | exact Ec | reflexivity | cbn; lia | cbn; discriminate]. }
    apply deposit_reveal_kinv; [exact K1|].
    apply current_query_some_iff.
    + apply K1.
    + unfold s1v. cbn [o_queries]. apply meta_set_has.
    + intros y Hy Hqy. unfold s1v in Hy. cbn [o_queries] in Hy. apply (in_meta_set _ _ _ Ks) in Hy. destruct Hy as [->|[Hy _]]; [unfold m0v; cbn [m_id]; lia|].
      exfalso. eapply current_query_none; [exact Ec | exact Hy | exact Hqy].
  - destruct (_ && _); [discriminate|]. destruct (_ <? H); discriminate.
Qed.

Lemma agg_fold_windows h ts : forall l st,
  let r := fold_left (agg_step h ts) l st in o_spot_window r = o_spot_window st /\ o_bridge_window r = o_bridge_window st.
Proof.
  induction l as [|m t IH]; intros st; cbn [fold_left]; [auto|].
  destruct (IH (agg_step h ts st m)) as (H1 & H2). cbv zeta. rewrite H1, H2.
  unfold agg_step. destruct (m_has_reports m && (m_expiration m <=? h)); cbn; auto.
Qed.

Lemma do_rotate_kinv s H k s' : kinv s (H + 1) -> do_rotate s H k = Some s' -> kinv s' (H + 1).
Proof.
  unfold kinv. intros K. unfold do_rotate.
  match goal with |- context [nth_z (o_cycle s) ?n] => destruct (nth_z (o_cycle s) n) as [qid|] end; [|discriminate].
  cbn [o_queries with_queries o_next_meta o_spot_window o_bridge_window].
  pose proof (kq_filter _ _ _ _ _ (fun y => negb ((m_qid y =? qid) && (m_expiration y <? H) && negb (m_has_reports y) && (m_amount y =? 0))) K) as K2.
  fold (clear_old qid H (o_queries s)) in K2. set (Q2 := clear_old qid H (o_queries s)) in *.
  pose proof K2 as [Ks Kl Kp Kf (W1 & W2 & W3)].
  destruct (current_query qid Q2) as [m|] eqn:Ec.
  - destruct (current_query_in _ _ _ Ec) as [Hm Hq]. rewrite <- Hq in Ec.
    destruct (negb (m_amount m =? 0)); intros E; injection E as <-; cbn [o_queries with_queries o_next_meta o_spot_window o_bridge_window]; [|exact K2].
    eapply kq_update; [exact K2 | exact Ec | reflexivity | reflexivity | cbn; apply W3; exact Hm | |];
      cbn [set_amount_exp m_has_reports m_expiration]; destruct (m_expiration m <=? H) eqn:El.
    + intros Hr. pose proof (Kl _ Hm Hr). apply Z.leb_le in El. lia.
    + intros Hr. apply Kl; assumption.
    + intros Hlt. apply Z.leb_le in El. lia.
    + auto.
  - match goal with |- context [initialize_query ?a ?b] => destruct (initialize_query a b) as [[m0 s2]|] eqn:Ei end; [|discriminate].
    unfold initialize_query in Ei. cbn [o_spot_window o_bridge_window with_queries qi_kind qi_id o_next_meta o_queries] in Ei.
    match type of Ei with match ?sw with _ => _ end = _ => destruct sw as [w|] eqn:Ew end; [|discriminate].
    injection Ei as <- <-. intros E. injection E as <-. cbn [o_queries with_queries o_next_meta o_spot_window o_bridge_window].
    apply kq_insert_first; [exact K2 | exact Ec | reflexivity | | cbn; discriminate].
    cbn [set_amount_exp m_window]. destruct (k qid); cbn in Ew; try discriminate; injection Ew as <-; assumption.
Qed.

Lemma end_block_kinv s H ts k s' : kinv s H -> end_block s H ts k = Some s' -> kinv s' (H + 1).
Proof.
  intros K. unfold end_block. set (s1 := set_aggregated_report s H ts).
  assert (K1 : kinv s1 (H + 1)).
  { unfold kinv, s1. rewrite set_aggregated_report_fold.
    destruct (agg_fold_frame H ts (o_queries s) s) as (_ & _ & _ & F4). destruct (agg_fold_windows H ts (o_queries s) s) as (F5 & F6).
    rewrite F4, F5, F6, agg_fold_queries, closing_filter_simpl by apply K. apply kq_after_aggregation. exact K. }
  unfold rotate. destruct (nth_z _ _) as [cur|]; [|discriminate].
  destruct (current_query cur _) as [m0|]; [destruct (H <? m_expiration m0)|].
  - intros E. injection E as <-. exact K1.
  - apply do_rotate_kinv. exact K1.
  - apply do_rotate_kinv. exact K1.
Qed.

Lemma update_cyclelist_kinv s qs s' H : kinv s H -> update_cyclelist s qs = Some s' -> kinv s' H.
Proof.
  unfold kinv, update_cyclelist. intros K. destruct qs; [discriminate|]. destruct (forallb _ _); [|discriminate].
  intros E. injection E as <-. exact K.
Qed.

Lemma update_data_spec_kinv s b hits w H : 1 <= w -> kinv s H -> kinv (update_data_spec s b hits w) H.
Proof.
  unfold kinv. intros Hw K. pose proof K as [Ks Kl Kp Kf (W1 & W2 & W3)].
  cbn [update_data_spec o_queries o_next_meta o_spot_window o_bridge_window].
  assert (S1 : 1 <= (if b then o_spot_window s else w)) by (destruct b; assumption).
  assert (S2 : 1 <= (if b then w else o_bridge_window s)) by (destruct b; assumption).
  destruct (b && hits).
  - apply (kq_map_window _ _ (o_spot_window s) (o_bridge_window s)); try assumption.
    + intros m. destruct (m_bridge_type m); cbn; auto.
    + intros m Hm. destruct (m_bridge_type m); cbn; assumption.
  - constructor; try assumption. auto.
Qed.

(* ---- all well-scheduled histories ------------------------------------------------------------------- *)
(* operations carry the height of their block; the end blocker of height H ends block H; every data-spec
   update keeps the report window at least one block *)
Fixpoint sched (H : Z) (ops : list (Z * rop)) : Prop :=
  match ops with
  | [] => True
  | (h, op) :: t =>
      h = H /\ match op with OUpdateSpec _ _ w => 1 <= w | _ => True end
      /\ sched (match op with OEndBlock _ => H + 1 | _ => H end) t
  end.

Definition height_after (H : Z) (ops : list (Z * rop)) : Z :=
  fold_left (fun H o => match snd o with OEndBlock _ => H + 1 | _ => H end) ops H.

(* the run as long as no end blocker fails (a failing end blocker halts the chain: C02) *)
Fixpoint run_opt (qinfos : list qinfo) (s : ostate) (ops : list (Z * rop)) : option ostate :=
  match ops with
  | [] => Some s
  | (h, OEndBlock ts) :: t =>
      match end_block s h ts (kind_of qinfos) with Some s' => run_opt qinfos s' t | None => None end
  | o :: t => run_opt qinfos (run_step qinfos s o) t
  end.

Lemma run_opt_run qinfos : forall ops s s', run_opt qinfos s ops = Some s' -> run qinfos s ops = s'.
Proof.
  induction ops as [|[h op] t IH]; intros s s' E; cbn [run_opt] in E; [injection E as <-; reflexivity|].
  unfold run. cbn [fold_left]. fold (run qinfos (run_step qinfos s (h, op)) t).
  destruct op; try (apply IH; exact E).
  destruct (end_block s h ts (kind_of qinfos)) as [s1|] eqn:Ee; [|discriminate].
  unfold run_step. cbn [fst snd model_step]. rewrite Ee. apply IH. exact E.
Qed.

Lemma run_step_kinv qinfos s h op H : kinv s H -> h = H ->
  match op with OUpdateSpec _ _ w => 1 <= w | OEndBlock _ => False | _ => True end ->
  kinv (run_step qinfos s (h, op)) H.
Proof.
  intros K -> Hop. unfold run_step. cbn [fst snd]. destruct op as [q a|q rep stake mn v|ts|qs|b hits w]; cbn [model_step].
  - destruct (tip s H (qinfo_of qinfos q) a) eqn:E; [eapply tip_kinv; eassumption | exact K].
  - destruct (submit_value _ _ _ _ _ _ _) eqn:E; [eapply submit_kinv; eassumption | exact K].
  - destruct Hop.
  - destruct (update_cyclelist s _) eqn:E; [eapply update_cyclelist_kinv; eassumption | exact K].
  - apply update_data_spec_kinv; assumption.
Qed.

Theorem run_kinv qinfos : forall ops s H s', kinv s H -> sched H ops -> run_opt qinfos s ops = Some s' ->
  kinv s' (height_after H ops).
Proof.
  induction ops as [|[h op] t IH]; intros s H s' K Hs E; cbn [run_opt] in E.
  - injection E as <-. exact K.
  - cbn [sched] in Hs. destruct Hs as (Hh & Hop & Hs). unfold height_after. cbn [fold_left snd]. fold (height_after (match op with OEndBlock _ => H + 1 | _ => H end) t).
    destruct op as [q a|q rep stake mn v|ts|qs|b hits w].
    + eapply IH; [|exact Hs | exact E]. apply run_step_kinv; [exact K | exact Hh | exact I].
    + eapply IH; [|exact Hs | exact E]. apply run_step_kinv; [exact K | exact Hh | exact I].
    + destruct (end_block s h ts (kind_of qinfos)) as [s1|] eqn:Ee; [|discriminate]. subst h.
      eapply IH; [|exact Hs | exact E]. eapply end_block_kinv; eassumption.
    + eapply IH; [|exact Hs | exact E]. apply run_step_kinv; [exact K | exact Hh | exact I].
    + eapply IH; [|exact Hs | exact E]. apply run_step_kinv; [exact K | exact Hh | exact Hop].
Qed.

Lemma genesis_kinv cycle sw bw H : 1 <= sw -> 1 <= bw -> kinv (genesis cycle sw bw) H.
Proof.
  intros H1 H2. unfold kinv. cbn [genesis o_queries o_next_meta o_spot_window o_bridge_window]. constructor.
  - constructor.
  - intros m [].
  - intros m1 m2 [].
  - intros m [].
  - split; [exact H1|]. split; [exact H2|]. intros m [].
Qed.
