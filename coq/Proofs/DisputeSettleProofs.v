(* C13 — proofs about Model/DisputeSettle.v *)
From Coq Require Import ZArith List Bool Lia String.
From Verif Require Import Base.Harness Base.Dec Model.DisputeSettle.
Import ListNotations.
Open Scope Z_scope.

(* ================================================================================================ *)
(*  LegacyDec: truncating an integer quotient computed through Dec gives the floor                    *)
(* ================================================================================================ *)
(* X/t computed as  LegacyNewDecFromInt(X).Quo(LegacyNewDecFromInt(t)).TruncateInt()  is floor(X/t) as long as
   t <= 10^18 (the banker's rounding of the 18th decimal cannot reach the next integer). *)
Lemma dec_floor X t : 0 <= X -> 0 < t <= P -> truncate_int (dec_quo (of_int X) (of_int t)) = X / t.
Proof.
  intros HX Ht. rewrite dec_quo_of_int by lia. unfold of_int, truncate_int.
  set (d := Z.quot (X * P * P) t).
  assert (HP : 0 < P) by reflexivity.
  assert (Hd : d = (X * P * P) / t) by (unfold d; apply Z.quot_div_nonneg; nia).
  set (q := X / t). set (r := X mod t).
  assert (HXq : X = t * q + r) by (unfold q, r; apply Z.div_mod; lia).
  assert (Hr : 0 <= r < t) by (unfold r; apply Z.mod_pos_bound; lia).
  assert (Hq : 0 <= q) by (unfold q; apply Z.div_pos; lia).
  (* d = q*P*P + e with 0 <= e <= P*P - P *)
  set (e := (r * P * P) / t).
  assert (He : d = q * P * P + e).
  { rewrite Hd, HXq. unfold e.
    replace ((t * q + r) * P * P) with (r * P * P + (q * P * P) * t) by ring.
    rewrite Z.div_add by lia. ring. }
  assert (He0 : 0 <= e) by (unfold e; apply Z.div_pos; nia).
  assert (He1 : e <= P * P - P).
  { unfold e. apply Z.div_le_upper_bound; [lia|].
    (* r*P*P <= t*(P*P - P)  since r <= t-1 and t <= P *)
    assert (r * P * P <= (t - 1) * P * P) by nia.
    assert ((t - 1) * P * P <= t * (P * P - P)) by nia.
    lia. }
  assert (Hd0 : 0 <= d) by nia.
  destruct (chop_round_nonneg_err d Hd0) as [Herr Hc0].
  assert (Hcr : chop_round d = chop_round_nonneg d).
  { unfold chop_round. destruct (d <? 0) eqn:E; [apply Z.ltb_lt in E; lia | reflexivity]. }
  rewrite Hcr. set (c := chop_round_nonneg d) in *.
  rewrite Z.quot_div_nonneg by lia.
  (* q*P <= c < q*P + P *)
  assert (Hlo : q * P <= c).
  { destruct (Z_lt_le_dec c (q * P)) as [Hlt|]; [|assumption].
    assert (c * P <= (q * P - 1) * P) by nia. nia. }
  assert (Hhi : c < q * P + P).
  { destruct (Z_lt_le_dec c (q * P + P)) as [|Hge]; [assumption|].
    assert ((q * P + P) * P <= c * P) by nia. nia. }
  symmetry. apply Z.div_unique with (r := c - q * P); lia.
Qed.

Lemma dec_mul_ints a b : dec_mul (of_int a) (of_int b) = of_int (a * b).
Proof. rewrite dec_mul_of_int_r. unfold of_int. ring. Qed.

(* ---- the amounts of ExecuteVote ---------------------------------------------------------------- *)
Lemma half_burn_eq b : 0 <= b -> half_burn b = b / 2.
Proof. intros Hb. unfold half_burn. apply dec_floor; [assumption | unfold P; lia]. Qed.

Lemma five_percent_eq s : 0 <= s -> five_percent s = s / 20.
Proof.
  intros Hs. unfold five_percent. rewrite dec_mul_ints. rewrite Z.mul_1_r.
  apply dec_floor; [assumption | unfold P; lia].
Qed.

(* ---- RefundDisputeFee ---------------------------------------------------------------------------- *)
Lemma refund12_eq fee fmb total :
  0 <= fee -> 0 <= fmb -> 0 < total <= P -> refund12 fee fmb total = (fee * fmb * PR6) / total.
Proof.
  intros Hf Hm Ht. unfold refund12. rewrite !dec_mul_ints. apply dec_floor; [unfold PR6; nia | assumption].
Qed.

Lemma refund_split fee fmb total :
  0 <= fee -> 0 <= fmb -> 0 < total <= P ->
  refund6 fee fmb total * PR6 + refund_rem fee fmb total = refund12 fee fmb total
  /\ 0 <= refund_rem fee fmb total < PR6 /\ 0 <= refund6 fee fmb total.
Proof.
  intros Hf Hm Ht. unfold refund6, refund_rem.
  assert (H12 : 0 <= refund12 fee fmb total).
  { rewrite refund12_eq by assumption. apply Z.div_pos; [unfold PR6; nia | lia]. }
  rewrite Z.quot_div_nonneg by (unfold PR6; lia).
  pose proof (Z.div_mod (refund12 fee fmb total) PR6 ltac:(unfold PR6; lia)).
  pose proof (Z.mod_pos_bound (refund12 fee fmb total) PR6 ltac:(unfold PR6; lia)).
  assert (0 <= refund12 fee fmb total / PR6) by (apply Z.div_pos; [assumption | unfold PR6; lia]).
  split; [lia | split; [assumption | assumption]].
Qed.

(* the refund is the floor of the payer's pro-rata part of the pool *)
Lemma refund6_floor fee fmb total :
  0 <= fee -> 0 <= fmb -> 0 < total <= P -> refund6 fee fmb total = (fee * fmb) / total.
Proof.
  intros Hf Hm Ht. unfold refund6. rewrite refund12_eq by assumption.
  rewrite Z.quot_div_nonneg; [| apply Z.div_pos; [unfold PR6; nia | lia] | unfold PR6; lia].
  rewrite Z.div_div by (unfold PR6; lia).
  replace (total * PR6) with (PR6 * total) by ring.
  replace (fee * fmb * PR6) with (PR6 * (fee * fmb)) by ring.
  rewrite Z.div_mul_cancel_l by (unfold PR6; lia). reflexivity.
Qed.

(* all refunds (whole loya and dust together, in 10^-6 loya) never exceed the pool, whatever the order *)
Definition refunds12 (fees : list Z) (fmb total : Z) : Z := sumz (map (fun f => refund12 f fmb total) fees).

Lemma sumz_cons x l : sumz (x :: l) = x + sumz l.
Proof. reflexivity. Qed.

Lemma sumz_app a b : sumz (a ++ b) = sumz a + sumz b.
Proof. unfold sumz. induction a as [|x a IH]; cbn; [reflexivity | rewrite IH; ring]. Qed.

Lemma refunds_le_pool fees fmb total :
  Forall (fun f => 0 <= f) fees -> 0 <= fmb -> 0 < total <= P ->
  refunds12 fees fmb total * total <= sumz fees * fmb * PR6.
Proof.
  intros Hf Hm Ht. unfold refunds12. induction Hf as [|f fees Hf0 Hfs IH]; [cbn; lia|].
  rewrite map_cons, !sumz_cons. rewrite refund12_eq by assumption.
  pose proof (Z.mul_div_le (f * fmb * PR6) total ltac:(lia)) as Hd.
  set (a := f * fmb * PR6 / total) in *. set (b := sumz (map (fun f0 => refund12 f0 fmb total) fees)) in *.
  set (c := sumz fees) in *. lia.
Qed.

Theorem refunds_never_exceed_pool fees fmb total :
  Forall (fun f => 0 <= f) fees -> 0 <= fmb -> 0 < total <= P -> sumz fees <= total ->
  refunds12 fees fmb total <= fmb * PR6.
Proof.
  intros Hf Hm Ht Hs. pose proof (refunds_le_pool fees fmb total Hf Hm Ht) as H.
  assert (sumz fees * fmb * PR6 <= total * (fmb * PR6)) by (unfold PR6; nia).
  apply Z.mul_le_mono_pos_r with (p := total); lia.
Qed.

(* ... and leave less than one unit of 10^-6 loya per payer when the payers' amounts add up to the total *)
Lemma refunds_ge_pool fees fmb total :
  Forall (fun f => 0 <= f) fees -> 0 <= fmb -> 0 < total <= P ->
  sumz fees * fmb * PR6 - Z.of_nat (List.length fees) * total < refunds12 fees fmb total * total
  \/ fees = [].
Proof.
  intros Hf Hm Ht. unfold refunds12. induction Hf as [|f fees Hf0 Hfs IH]; [right; reflexivity|]. left.
  rewrite map_cons, !sumz_cons. cbn [List.length]. rewrite refund12_eq by assumption.
  pose proof (Z.div_mod (f * fmb * PR6) total ltac:(lia)) as Hdm.
  pose proof (Z.mod_pos_bound (f * fmb * PR6) total ltac:(lia)) as Hmb.
  rewrite Nat2Z.inj_succ.
  set (a := f * fmb * PR6 / total) in *. set (m := (f * fmb * PR6) mod total) in *.
  destruct IH as [IH|IH].
  - set (b := sumz (map (fun f0 => refund12 f0 fmb total) fees)) in *. set (c := sumz fees) in *.
    set (n := Z.of_nat (List.length fees)) in *. lia.
  - subst fees. cbn [map List.length]. change (sumz []) with 0. change (Z.of_nat 0) with 0. lia.
Qed.

(* ================================================================================================ *)
(*  ExecuteVote                                                                                        *)
(* ================================================================================================ *)
Ltac brk :=
  repeat match goal with
         | |- context [if ?b then _ else _] => let E := fresh "E" in destruct b eqn:E
         | |- context [match ?x with (_, _) => _ end] => let E := fresh "E" in destruct x eqn:E
         | |- context [match ?x with Some _ => _ | None => _ end] => let E := fresh "E" in destruct x eqn:E
         end.

(* an executed vote is not executed again: the call is refused and changes nothing *)
Lemma execute_vote_refused_when_executed fx s :
  s_executed s = true -> fst (execute_vote fx s) = s /\ snd (execute_vote fx s) <> OK.
Proof.
  intros He. unfold execute_vote, execute_vote_gen. rewrite He.
  destruct ((s_status s =? Prevote) || (s_status s =? Failed)); [split; [reflexivity | discriminate]|].
  destruct (negb ((if negb (s_result s =? 0) && (s_end s <? s_now s) then Resolved else s_status s) =? Resolved));
    split; try reflexivity; discriminate.
Qed.

Lemma return_slashed_ok s amt s' : return_slashed s amt = (s', OK) ->
  s_esc s' = s_esc s - amt /\ s_burned s' = s_burned s /\ s_liq s' = s_liq s /\ 0 <= amt <= s_esc s
  /\ s_executed s' = s_executed s /\ s_dust s' = s_dust s /\ s_payers s' = s_payers s /\ s_rounds s' = s_rounds s
  /\ s_id s' = s_id s /\ s_feetotal s' = s_feetotal s /\ s_burn s' = s_burn s.
Proof.
  unfold return_slashed. destruct (amt <? 0) eqn:E0; [intros H; inversion H|]. apply Z.ltb_ge in E0.
  destruct (s_esc s <? amt) eqn:E1; [intros H; inversion H|]. apply Z.ltb_ge in E1.
  destruct (s_slashtr s) as [[os total]|]; [|intros H; inversion H].
  intros H. inversion H; subst; cbn. repeat split; lia.
Qed.

(* what a successful execution does to the escrow, the supply and the dispute: the burn and the voters' pot are
   the two halves of the burn amount (the whole of it is burnt when nobody voted), the escrow pays the burn plus the
   stake sent back: the escrowed stake for INVALID, stake + fees - burn amount for AGAINST, nothing for SUPPORT *)
Theorem execute_vote_amounts fx s s' :
  0 <= s_burn s -> execute_vote fx s = (s', OK) ->
  let burnt := s_burned s' - s_burned s in
  s_executed s = false /\ s_executed s' = true /\ s_pending s' = false /\ s_status s' = Resolved
  /\ 0 <= burnt /\ 0 <= s_reward s'
  /\ (total_voter_power (s_rounds s) (s_id s) (s_prev s) = 0 -> burnt = s_burn s /\ s_reward s' = 0)
  /\ (total_voter_power (s_rounds s) (s_id s) (s_prev s) <> 0 -> burnt = s_burn s / 2 /\ s_reward s' = s_burn s / 2)
  /\ s_burn s - 1 <= burnt + s_reward s' <= s_burn s
  /\ s_esc s - s_esc s' = burnt + (if is_invalid (s_result s) then s_slash s
                                   else if is_support (s_result s) then 0
                                   else s_slash s + (s_feetotal s - s_burn s))
  /\ 0 <= s_esc s' /\ s_liq s' = s_liq s /\ s_dust s' = s_dust s /\ s_payers s' = s_payers s.
Proof.
  intros Hb. unfold execute_vote, execute_vote_gen, repo_fix_F12.
  destruct ((s_status s =? Prevote) || (s_status s =? Failed)); [intros H; inversion H|].
  set (status := if negb (s_result s =? 0) && (s_end s <? s_now s) then Resolved else s_status s).
  destruct (status =? Resolved) eqn:Est; cbn [negb]; [|intros H; inversion H]. apply Z.eqb_eq in Est.
  destruct (s_executed s) eqn:Eex; [intros H; inversion H|].
  pose proof (half_burn_eq (s_burn s) Hb) as Hh.
  assert (Hh0 : 0 <= s_burn s / 2) by (apply Z.div_pos; lia).
  assert (Hh1 : s_burn s - 1 <= s_burn s / 2 + s_burn s / 2 <= s_burn s).
  { pose proof (Z.div_mod (s_burn s) 2 ltac:(lia)). pose proof (Z.mod_pos_bound (s_burn s) 2 ltac:(lia)). lia. }
  destruct (s_result s =? 0) eqn:Er0; [intros H; inversion H|].
  set (nov := total_voter_power (s_rounds s) (s_id s) (s_prev s) =? 0).
  destruct (s_esc s <? (if nov then s_burn s else half_burn (s_burn s))) eqn:Eesc; [intros H; inversion H|].
  apply Z.ltb_ge in Eesc.
  assert (Hnov : (nov = true /\ total_voter_power (s_rounds s) (s_id s) (s_prev s) = 0)
                 \/ (nov = false /\ total_voter_power (s_rounds s) (s_id s) (s_prev s) <> 0)).
  { unfold nov. destruct (total_voter_power (s_rounds s) (s_id s) (s_prev s) =? 0) eqn:E;
      [left; split; [reflexivity | apply Z.eqb_eq; exact E] | right; split; [reflexivity | apply Z.eqb_neq; exact E]]. }
  destruct (is_invalid (s_result s)) eqn:Ei.
  - destruct (return_slashed _ (s_slash s)) as [s2 e] eqn:Ers. destruct e; try (intros H; inversion H; fail).
    apply return_slashed_ok in Ers. cbn in Ers. destruct Ers as (R1 & R2 & R3 & R4 & R5 & R6 & R7 & R8 & R9 & R10 & R11).
    intros H; inversion H; subst s'; cbn. rewrite R1, R2, R3, R6, R7.
    destruct Hnov as [[Hn Hz]|[Hn Hz]]; rewrite Hn in *; rewrite ?Hh in *;
      repeat split; try reflexivity; try lia; try (intros; exfalso; lia); try (intros; split; lia).
  - destruct (is_support (s_result s)) eqn:Es.
    + intros H; inversion H; subst s'; cbn.
      destruct Hnov as [[Hn Hz]|[Hn Hz]]; rewrite Hn in *; rewrite ?Hh in *;
        repeat split; try reflexivity; try lia; try (intros; exfalso; lia); try (intros; split; lia).
    + destruct (is_against (s_result s)) eqn:Ea; [|intros H; inversion H].
      destruct (return_slashed _ (s_slash s + (s_feetotal s - s_burn s))) as [s2 e] eqn:Ers.
      destruct e; try (intros H; inversion H; fail).
      apply return_slashed_ok in Ers. cbn in Ers. destruct Ers as (R1 & R2 & R3 & R4 & R5 & R6 & R7 & R8 & R9 & R10 & R11).
      intros H; inversion H; subst s'; cbn. rewrite R1, R2, R3, R6, R7.
      destruct Hnov as [[Hn Hz]|[Hn Hz]]; rewrite Hn in *; rewrite ?Hh in *;
        repeat split; try reflexivity; try lia; try (intros; exfalso; lia); try (intros; split; lia).
Qed.

(* ================================================================================================ *)
(*  refunds and rewards are paid once                                                                  *)
(* ================================================================================================ *)
Lemma find_payer_removed ps id who : find_payer (remove_payer ps id who) id who = None.
Proof.
  unfold find_payer, remove_payer. induction ps as [|p ps IH]; cbn; [reflexivity|].
  destruct ((p_id p =? id) && (p_who p =? who)) eqn:E; cbn; [exact IH | rewrite E; exact IH].
Qed.

Lemma finish_withdraw_payers s who id dust s' :
  finish_withdraw s who id dust = (s', OK) -> s_payers s' = remove_payer (s_payers s) id who.
Proof.
  unfold finish_withdraw. destruct (negb _ && _); intros H; inversion H; reflexivity.
Qed.

Lemma refund_fee_payers s who p total fmb s' f : refund_fee s who p total fmb = (s', OK, f) -> s_payers s' = s_payers s.
Proof.
  unfold refund_fee. destruct (refund6 _ _ _ <? 0); [intros H; inversion H|].
  destruct (negb (p_bond p)).
  - destruct (s_esc s <? _); intros H; inversion H; reflexivity.
  - destruct (s_feetr s) as [[os tot]|]; [|intros H; inversion H].
    destruct ((tot =? 0) && _); [intros H; inversion H|].
    destruct (s_esc s <? _); intros H; inversion H; reflexivity.
Qed.

Lemma reward_bond_payers s who p total b s' f : reward_bond s who p total b = (s', OK, f) -> s_payers s' = s_payers s.
Proof.
  unfold reward_bond. destruct (bond6 _ _ _ <? 0); [intros H; inversion H|].
  destruct (s_esc s <? _); intros H; inversion H; reflexivity.
Qed.

(* a successful refund removes the payer's record ... *)
Theorem withdraw_removes_record s who id s' :
  withdraw s who id = (s', OK) -> find_payer (s_payers s') id who = None.
Proof.
  unfold withdraw.
  destruct ((s_id s =? 0) || negb (existsb (Z.eqb id) (s_prev s))); [intros H; inversion H|].
  destruct (find_payer (s_payers s) id who) as [p|]; [|intros H; inversion H].
  destruct (negb (id =? s_id s)); [intros H; inversion H|].
  destruct (s_status s =? Failed).
  { destruct (refund_fee s who p _ _) as [[s1 e] f] eqn:E1. destruct e; try (intros H; inversion H; fail).
    destruct (finish_withdraw s1 who id _) as [s3 e3] eqn:E3. destruct e3; try (intros H; inversion H; fail).
    intros H; inversion H; subst s'. apply finish_withdraw_payers in E3. rewrite E3.
    apply refund_fee_payers in E1. rewrite E1. apply find_payer_removed. }
  destruct (s_status s =? Prevote); [intros H; inversion H|].
  destruct (negb (s_executed s)); [intros H; inversion H|].
  destruct (is_invalid (s_result s)).
  { destruct (refund_fee s who p _ _) as [[s1 e] f] eqn:E1. destruct e; try (intros H; inversion H; fail).
    destruct (finish_withdraw s1 who id _) as [s3 e3] eqn:E3. destruct e3; try (intros H; inversion H; fail).
    intros H; inversion H; subst s'. apply finish_withdraw_payers in E3. rewrite E3.
    apply refund_fee_payers in E1. rewrite E1. apply find_payer_removed. }
  destruct (is_support (s_result s)); [|intros H; inversion H].
  destruct (refund_fee s who p _ _) as [[s1 e] f] eqn:E1. destruct e; try (intros H; inversion H; fail).
  destruct (reward_bond s1 who p _ _) as [[s2 e2] f2] eqn:E2. destruct e2; try (intros H; inversion H; fail).
  destruct (finish_withdraw s2 who id _) as [s3 e3] eqn:E3. destruct e3; try (intros H; inversion H; fail).
  intros H; inversion H; subst s'. apply finish_withdraw_payers in E3. rewrite E3.
  apply reward_bond_payers in E2. rewrite E2. apply refund_fee_payers in E1. rewrite E1. apply find_payer_removed.
Qed.

(* ... and without a record the refund is refused and nothing changes *)
Theorem withdraw_needs_record s who id :
  find_payer (s_payers s) id who = None -> withdraw s who id = (s, ENotFound).
Proof.
  intros H. unfold withdraw. rewrite H. destruct ((s_id s =? 0) || negb (existsb (Z.eqb id) (s_prev s))); reflexivity.
Qed.

(* operations that are not payments never create a payer record *)
Definition is_payment (o : op) : bool :=
  match o with OPropose _ _ _ _ _ | OAddFee _ _ _ _ _ _ => true | _ => false end.

Lemma find_payer_remove_other ps id who id' who' :
  find_payer ps id who = None -> find_payer (remove_payer ps id' who') id who = None.
Proof.
  unfold find_payer, remove_payer. induction ps as [|p ps IH]; cbn; [reflexivity|].
  destruct ((p_id p =? id) && (p_who p =? who)) eqn:E; [discriminate|]. intros H.
  destruct (negb ((p_id p =? id') && (p_who p =? who'))); cbn; [rewrite E|]; apply IH; exact H.
Qed.

Lemma return_slashed_payers s amt s' e : return_slashed s amt = (s', e) -> s_payers s' = s_payers s.
Proof.
  unfold return_slashed. destruct (amt <? 0); [intros H; inversion H; reflexivity|].
  destruct (s_esc s <? amt); [intros H; inversion H; reflexivity|].
  destruct (s_slashtr s) as [[os t]|]; intros H; inversion H; reflexivity.
Qed.

Lemma execute_vote_payers fx s : s_payers (fst (execute_vote fx s)) = s_payers s.
Proof.
  unfold execute_vote, execute_vote_gen.
  destruct ((s_status s =? Prevote) || (s_status s =? Failed)); [reflexivity|].
  destruct (negb _); [reflexivity|]. destruct (s_executed s); [reflexivity|].
  destruct (s_result s =? 0); [reflexivity|]. destruct (s_esc s <? _); [reflexivity|].
  destruct (is_invalid (s_result s)).
  { destruct (return_slashed _ _) as [s2 e] eqn:E. apply return_slashed_payers in E. destruct e; cbn; try reflexivity. exact E. }
  destruct (is_support (s_result s)); [reflexivity|].
  destruct (is_against (s_result s)); [|reflexivity].
  destruct (return_slashed _ _) as [s2 e] eqn:E. apply return_slashed_payers in E. destruct e; cbn; try reflexivity. exact E.
Qed.

Lemma withdraw_payers_absent s who id id' who' :
  find_payer (s_payers s) id who = None -> find_payer (s_payers (fst (withdraw s who' id'))) id who = None.
Proof.
  intros Habs. unfold withdraw.
  destruct ((s_id s =? 0) || negb (existsb (Z.eqb id') (s_prev s))); [exact Habs|].
  destruct (find_payer (s_payers s) id' who') as [p|]; [|exact Habs].
  destruct (negb (id' =? s_id s)); [exact Habs|].
  destruct (s_status s =? Failed).
  { destruct (refund_fee s who' p _ _) as [[s1 e] f] eqn:E1. destruct e; try exact Habs.
    destruct (finish_withdraw s1 who' id' _) as [s3 e3] eqn:E3. destruct e3; try exact Habs.
    cbn. apply finish_withdraw_payers in E3. rewrite E3. apply refund_fee_payers in E1. rewrite E1.
    apply find_payer_remove_other; exact Habs. }
  destruct (s_status s =? Prevote); [exact Habs|].
  destruct (negb (s_executed s)); [exact Habs|].
  destruct (is_invalid (s_result s)).
  { destruct (refund_fee s who' p _ _) as [[s1 e] f] eqn:E1. destruct e; try exact Habs.
    destruct (finish_withdraw s1 who' id' _) as [s3 e3] eqn:E3. destruct e3; try exact Habs.
    cbn. apply finish_withdraw_payers in E3. rewrite E3. apply refund_fee_payers in E1. rewrite E1.
    apply find_payer_remove_other; exact Habs. }
  destruct (is_support (s_result s)); [|exact Habs].
  destruct (refund_fee s who' p _ _) as [[s1 e] f] eqn:E1. destruct e; try exact Habs.
  destruct (reward_bond s1 who' p _ _) as [[s2 e2] f2] eqn:E2. destruct e2; try exact Habs.
  destruct (finish_withdraw s2 who' id' _) as [s3 e3] eqn:E3. destruct e3; try exact Habs.
  cbn. apply finish_withdraw_payers in E3. rewrite E3. apply reward_bond_payers in E2. rewrite E2.
  apply refund_fee_payers in E1. rewrite E1. apply find_payer_remove_other; exact Habs.
Qed.

Lemma claim_payers fx s who id : s_payers (fst (claim fx s who id)) = s_payers s.
Proof.
  unfold claim.
  destruct ((s_id s =? 0) || negb (existsb (Z.eqb id) (s_prev s))); [reflexivity|].
  destruct (negb (id =? s_id s)); [reflexivity|]. destruct (negb (s_status s =? Resolved)); [reflexivity|].
  destruct (match find_voter (s_rounds s) id who with Some v => v_claimed v | None => false end); [reflexivity|].
  destruct (negb (s_executed s)); [reflexivity|].
  destruct (acc_powers fx (s_rounds s) who (s_prev s)) as [pw|]; [|reflexivity].
  destruct (groups pw =? 0); [reflexivity|]. destruct (reward_of pw (s_reward s) =? 0); [reflexivity|].
  destruct (reward_of pw (s_reward s) <? 0); [reflexivity|]. destruct (s_esc s <? _); reflexivity.
Qed.

Lemma step_no_payment_absent v c s o id who :
  is_payment o = false -> find_payer (s_payers s) id who = None ->
  find_payer (s_payers (fst (step v c s o))) id who = None.
Proof.
  intros Hp Habs. destruct o; cbn [is_payment] in Hp; try discriminate; cbn [step fst].
  - exact Habs.
  - unfold tally. destruct ((s_id s =? 0) || s_executed s || negb (tally_allowed (s_status s) status)); exact Habs.
  - unfold set_votes. destruct (s_executed s); exact Habs.
  - unfold exec_block, exec_block_gen. fold (execute_vote (fixc v) s). destruct (negb (s_id s =? 0) && s_pending s && _); [rewrite execute_vote_payers|]; exact Habs.
  - destruct ((s_id s =? 0) || negb (id0 =? s_id s)); [|rewrite execute_vote_payers]; exact Habs.
  - apply withdraw_payers_absent; exact Habs.
  - rewrite claim_payers; exact Habs.
  - exact Habs.
Qed.

(* over every history without a payment in it: once a payer's refund was paid, each later attempt is refused *)
Theorem refund_once_over_histories v c s who id s1 ops :
  withdraw s who id = (s1, OK) -> forallb (fun o => negb (is_payment o)) ops = true ->
  let s2 := run v c s1 ops in
  withdraw s2 who id = (s2, ENotFound).
Proof.
  intros Hw Hops. cbn zeta. apply withdraw_needs_record.
  pose proof (withdraw_removes_record s who id s1 Hw) as Habs. clear Hw.
  revert s1 Habs. unfold run. induction ops as [|o ops IH]; intros s1 Habs; cbn [fold_left]; [exact Habs|].
  cbn [forallb] in Hops. apply andb_prop in Hops. destruct Hops as [Ho Hops].
  apply IH; [exact Hops|]. apply step_no_payment_absent; [destruct (is_payment o); [discriminate | reflexivity] | exact Habs].
Qed.

(* a voter whose reward was paid is marked, and a marked voter is refused *)
Lemma set_claimed_found rs id who :
  (exists r, find_round rs id = Some r) ->
  match find_voter (set_claimed rs id who) id who with Some v => v_claimed v = true | None => False end.
Proof.
  intros [r Hr]. unfold find_voter, find_round in *. unfold set_claimed.
  induction rs as [|x rs IH]; cbn in *; [discriminate|].
  destruct (r_id x =? id) eqn:E.
  - cbn. rewrite E. clear IH Hr.
    destruct (existsb (fun v => v_who v =? who) (r_voters x)) eqn:Ex.
    + induction (r_voters x) as [|v vs IHv]; cbn in *; [discriminate|].
      destruct (v_who v =? who) eqn:Ev; cbn; [rewrite Ev; reflexivity|]. rewrite Ev. apply IHv. exact Ex.
    + induction (r_voters x) as [|v vs IHv]; cbn in *.
      * rewrite Z.eqb_refl. reflexivity.
      * destruct (v_who v =? who) eqn:Ev; [discriminate|]. apply IHv. exact Ex.
  - rewrite E. apply IH. exact Hr.
Qed.

Lemma ensure_round_found rs id : exists r, find_round (ensure_round rs id) id = Some r.
Proof.
  unfold ensure_round. destruct (find_round rs id) as [r|] eqn:E; [exists r; exact E|].
  unfold find_round in *. induction rs as [|x rs IH]; cbn in *.
  - rewrite Z.eqb_refl. eexists; reflexivity.
  - destruct (r_id x =? id); [discriminate|]. apply IH. exact E.
Qed.

Theorem claim_once fx s who id s' :
  claim fx s who id = (s', OK) -> claim fx s' who id = (s', EClaimed).
Proof.
  unfold claim at 1.
  destruct ((s_id s =? 0) || negb (existsb (Z.eqb id) (s_prev s))) eqn:E1; [intros H; inversion H|].
  destruct (negb (id =? s_id s)) eqn:E2; [intros H; inversion H|].
  destruct (negb (s_status s =? Resolved)) eqn:E3; [intros H; inversion H|].
  destruct (match find_voter (s_rounds s) id who with Some v => v_claimed v | None => false end); [intros H; inversion H|].
  destruct (negb (s_executed s)) eqn:E4; [intros H; inversion H|].
  destruct (acc_powers fx (s_rounds s) who (s_prev s)) as [pw|]; [|intros H; inversion H].
  destruct (groups pw =? 0); [intros H; inversion H|]. destruct (reward_of pw (s_reward s) =? 0); [intros H; inversion H|].
  destruct (reward_of pw (s_reward s) <? 0); [intros H; inversion H|]. destruct (s_esc s <? _); [intros H; inversion H|].
  intros H; inversion H; subst s'. clear H. unfold claim. cbn [s_id s_prev s_status s_rounds s_executed].
  rewrite E1, E2, E3.
  pose proof (set_claimed_found (ensure_round (s_rounds s) id) id who (ensure_round_found (s_rounds s) id)) as Hc.
  destruct (find_voter (set_claimed (ensure_round (s_rounds s) id) id who) id who) as [v|]; [rewrite Hc; reflexivity | contradiction].
Qed.

(* ================================================================================================ *)
(*  execution happens once over every history (repaired variant); the code as found re-opens          *)
(* ================================================================================================ *)
Definition settled (s : st) : Prop :=
  s_executed s = true /\ s_status s = Resolved /\ s_id s <> 0 /\ s_slash s <= s_feetotal s.

Lemma settled_execute fx s : settled s -> fst (execute_vote fx s) = s.
Proof. intros [He _]. apply execute_vote_refused_when_executed. exact He. Qed.

Lemma settled_step v c s o : fixc v = true -> settled s -> settled (fst (step v c s o)).
Proof.
  intros Hfx Hs. pose proof Hs as (He & Hst & Hid & Hsl).
  assert (Hid0 : (s_id s =? 0) = false) by (apply Z.eqb_neq; exact Hid).
  destruct o; cbn [step fst].
  - (* propose: a further round needs an unresolved dispute *)
    unfold propose. destruct (fee <? MIN_FEE); [exact Hs|]. rewrite Hid0. rewrite Hst. cbn. exact Hs.
  - (* add fee: the fee is met *)
    unfold add_fee. destruct (fee <=? 0); [exact Hs|].
    destruct (negb (id =? s_id s) || (s_id s =? 0)); [exact Hs|].
    destruct ((who =? c_reporter c) && bond); [exact Hs|]. destruct (s_end s <? s_now s); [exact Hs|].
    assert (Hm : (s_slash s <=? s_feetotal s) = true) by (apply Z.leb_le; exact Hsl). rewrite Hm. exact Hs.
  - exact Hs.
  - unfold tally. rewrite He. rewrite orb_true_r. exact Hs.
  - unfold set_votes. rewrite He. exact Hs.
  - unfold exec_block, exec_block_gen. fold (execute_vote (fixc v) s). destruct (negb (s_id s =? 0) && s_pending s && _); [rewrite settled_execute by exact Hs|]; exact Hs.
  - destruct ((s_id s =? 0) || negb (id =? s_id s)); [|rewrite settled_execute by exact Hs]; exact Hs.
  - (* withdraw: dispute fields untouched *)
    unfold withdraw.
    destruct ((s_id s =? 0) || negb (existsb (Z.eqb id) (s_prev s))); [exact Hs|].
    destruct (find_payer (s_payers s) id who) as [p|]; [|exact Hs].
    destruct (negb (id =? s_id s)); [exact Hs|].
    assert (Hrf : forall tot fmb s1 f, refund_fee s who p tot fmb = (s1, OK, f) -> settled s1).
    { intros tot fmb s1 f. unfold refund_fee. destruct (refund6 _ _ _ <? 0); [intros H; inversion H|].
      destruct (negb (p_bond p)).
      - destruct (s_esc s <? _); intros H; inversion H; subst; exact Hs.
      - destruct (s_feetr s) as [[os t]|]; [|intros H; inversion H].
        destruct ((t =? 0) && _); [intros H; inversion H|].
        destruct (s_esc s <? _); intros H; inversion H; subst; exact Hs. }
    assert (Hfw : forall s1 d s3, settled s1 -> finish_withdraw s1 who id d = (s3, OK) -> settled s3).
    { intros s1 d s3 H1. unfold finish_withdraw. destruct (negb _ && _); intros H; inversion H; subst; exact H1. }
    assert (Hrb : forall s1 tot b s2 f, settled s1 -> reward_bond s1 who p tot b = (s2, OK, f) -> settled s2).
    { intros s1 tot b s2 f H1. unfold reward_bond. destruct (bond6 _ _ _ <? 0); [intros H; inversion H|].
      destruct (s_esc s1 <? _); intros H; inversion H; subst; exact H1. }
    destruct (s_status s =? Failed).
    { destruct (refund_fee s who p _ _) as [[s1 e] f] eqn:E1. destruct e; try exact Hs.
      destruct (finish_withdraw s1 who id _) as [s3 e3] eqn:E3. destruct e3; try exact Hs.
      cbn. eapply Hfw; [eapply Hrf; exact E1 | exact E3]. }
    destruct (s_status s =? Prevote); [exact Hs|]. destruct (negb (s_executed s)); [exact Hs|].
    destruct (is_invalid (s_result s)).
    { destruct (refund_fee s who p _ _) as [[s1 e] f] eqn:E1. destruct e; try exact Hs.
      destruct (finish_withdraw s1 who id _) as [s3 e3] eqn:E3. destruct e3; try exact Hs.
      cbn. eapply Hfw; [eapply Hrf; exact E1 | exact E3]. }
    destruct (is_support (s_result s)); [|exact Hs].
    destruct (refund_fee s who p _ _) as [[s1 e] f] eqn:E1. destruct e; try exact Hs.
    destruct (reward_bond s1 who p _ _) as [[s2 e2] f2] eqn:E2. destruct e2; try exact Hs.
    destruct (finish_withdraw s2 who id _) as [s3 e3] eqn:E3. destruct e3; try exact Hs.
    cbn. eapply Hfw; [eapply Hrb; [eapply Hrf; exact E1 | exact E2] | exact E3].
  - unfold claim.
    destruct ((s_id s =? 0) || negb (existsb (Z.eqb id) (s_prev s))); [exact Hs|].
    destruct (negb (id =? s_id s)); [exact Hs|]. destruct (negb (s_status s =? Resolved)); [exact Hs|].
    destruct (match find_voter (s_rounds s) id who with Some v0 => v_claimed v0 | None => false end); [exact Hs|].
    destruct (negb (s_executed s)); [exact Hs|].
    destruct (acc_powers (fix35 v) (s_rounds s) who (s_prev s)) as [pw|]; [|exact Hs].
    destruct (groups pw =? 0); [exact Hs|]. destruct (reward_of pw (s_reward s) =? 0); [exact Hs|].
    destruct (reward_of pw (s_reward s) <? 0); [exact Hs|]. destruct (s_esc s <? _); exact Hs.
  - exact Hs.
Qed.

Theorem settled_forever v c s ops : fixc v = true -> settled s -> settled (run v c s ops).
Proof.
  intros Hfx. unfold run. revert s. induction ops as [|o ops IH]; intros s Hs; cbn [fold_left]; [exact Hs|].
  apply IH. apply settled_step; assumption.
Qed.

(* a successful execution of a funded dispute leaves it settled (repaired variant) *)
Lemma execute_makes_settled s s' :
  0 <= s_burn s -> s_id s <> 0 -> s_slash s <= s_feetotal s -> execute_vote true s = (s', OK) -> settled s'.
Proof.
  intros Hb Hid Hsl He. pose proof (execute_vote_amounts true s s' Hb He) as H. cbn zeta in H.
  destruct H as (_ & Hex & _ & Hst & _).
  assert (Hkeep : s_id s' = s_id s /\ s_slash s' = s_slash s /\ s_feetotal s' = s_feetotal s).
  { revert He. unfold execute_vote, execute_vote_gen.
    destruct ((s_status s =? Prevote) || (s_status s =? Failed)); [intros H; inversion H|].
    destruct (negb _); [intros H; inversion H|]. destruct (s_executed s); [intros H; inversion H|].
    destruct (s_result s =? 0); [intros H; inversion H|]. destruct (s_esc s <? _); [intros H; inversion H|].
    destruct (is_invalid (s_result s)).
    { destruct (return_slashed _ _) as [s2 e] eqn:E. destruct e; try (intros H; inversion H; fail).
      apply return_slashed_ok in E. cbn in E. destruct E as (_ & _ & _ & _ & _ & _ & _ & _ & R9 & R10 & _).
      intros H; inversion H; subst; cbn. auto. }
    destruct (is_support (s_result s)); [intros H; inversion H; subst; cbn; auto|].
    destruct (is_against (s_result s)); [|intros H; inversion H].
    destruct (return_slashed _ _) as [s2 e] eqn:E. destruct e; try (intros H; inversion H; fail).
    apply return_slashed_ok in E. cbn in E. destruct E as (_ & _ & _ & _ & _ & _ & _ & _ & R9 & R10 & _).
    intros H; inversion H; subst; cbn. auto. }
  destruct Hkeep as (K1 & K2 & K3). unfold settled. rewrite K1, K2, K3. auto.
Qed.

(* ================================================================================================ *)
(*  witnesses of the defects of the code as found                                                     *)
(* ================================================================================================ *)
Definition V (a b c : bool) : variant := VA a b c.
Definition cfg0 : cfg := CF 0 150000.
(* accounts: 0 reporter, 1 payer A, 2 payer B; the reporter's stake 150000 is escrowed when the fee is met *)
Definition st0 : st := init_st 0 [0; 1000000; 1000000] [10000000; 5000000; 5000000].
Definition snap : option tracker := Some ([(0, 150000)], 150000).
Definition votes1 (tips_blk tips_id : Z) : list round :=
  [RD 1 (Some (GC tips_blk 0 0 0)) [VR 1 0 0 tips_blk tips_id false]].
Definition settle_invalid : list op := [OTime (THREE_DAYS + 1); OTally Resolved false true 3; OVotes (votes1 500 0); OExecBlock].

(* F20: the same payer pays 50000 and 100000; the record keeps 100000 and the refund is 95000, not 142500 *)
Definition ops_F20 : list op :=
  [OPropose 1 50000 false None None; OAddFee 1 1 100000 false None snap] ++ settle_invalid ++ [OWithdraw 1 1].
Lemma F20_witness :
  getz (s_liq (run (V false true true) cfg0 st0 ops_F20)) 1 = 1000000 - 150000 + 95000
  /\ getz (s_liq (run (V true true true) cfg0 st0 ops_F20)) 1 = 1000000 - 150000 + 142500.
Proof. vm_compute. split; reflexivity. Qed.

(* F35: the only tipper's share of the users third of the pot is computed from its tips at block = dispute id *)
Definition ops_F35 : list op := [OPropose 1 150000 false None snap] ++ settle_invalid ++ [OClaim 1 1].
Lemma F35_witness :
  snd (step (V true false true) cfg0 (run (V true false true) cfg0 st0 ([OPropose 1 150000 false None snap] ++ settle_invalid)) (OClaim 1 1)) = EZeroReward
  /\ getz (s_liq (run (V true true true) cfg0 st0 ops_F35)) 1 = 1000000 - 150000 + 3750.
Proof. vm_compute. split; reflexivity. Qed.

(* F21: a dispute that fails for lack of funding pays back 5 %; the rest stays in escrow *)
Definition ops_F21 : list op :=
  [OPropose 1 75000 false None None; OTime (ONE_DAY + 1); OTally Failed false false 0; OWithdraw 1 1].
Lemma F21_witness :
  let s := run (V true true true) cfg0 st0 ops_F21 in
  s_payers s = [] /\ s_esc s = 71250 /\ getz (s_liq s) 1 = 1000000 - 75000 + 3750.
Proof. vm_compute. repeat split; reflexivity. Qed.

(* F22: with a second round the payer's record stays under id 1 (never executed) and is absent under id 2 *)
Definition ops_F22 : list op :=
  [OPropose 1 150000 false None snap; OTime (2 * ONE_DAY + 1); OTally Unresolved true true 6;
   OPropose 2 15000 false None snap; OTime (6 * ONE_DAY); OTally Resolved false true 6; OVotes []; OExecBlock].
Lemma F22_witness :
  let s := run (V true true true) cfg0 st0 ops_F22 in
  s_executed s = true /\ snd (withdraw s 1 1) = ENotExecuted /\ snd (withdraw s 1 2) = ENotFound /\ snd (withdraw s 2 2) = ENotFound
  /\ s_esc s = 142500 /\ s_reward s = 0.
Proof. vm_compute. repeat split; reflexivity. Qed.

(* F12 (part of F22): in the sixth round the burn amount exceeds twice the slash amount; an AGAINST result then asks
   the bank for a negative amount and the begin blocker fails; in the fifth round (slash < burn amount < 2 slash) the
   backers are re-staked with the full snapshot (150000) although only 67500 coins are sent to the bonded pool *)
Definition st_r6 : st :=
  ST 10 6 150000 (7500 + 15000 + 30000 + 60000 + 120000 + 150000) 525000 0 Resolved false true 2 false 5 6 [1;2;3;4;5;6] [] None snap
     [RD 6 None []] 0 675000 0 [0;0;0] [0;0;0].
Definition st_r5 : st :=
  ST 10 5 150000 (7500 + 15000 + 30000 + 60000 + 120000) 375000 0 Resolved false true 2 false 5 5 [1;2;3;4;5] [] None snap
     [RD 5 None []] 0 525000 0 [0;0;0] [0;0;0].
Lemma F12_witness :
  snd (exec_block_gen true false st_r6) = EOther /\ s_slash st_r6 + (s_slash st_r6 - s_burn st_r6) < 0
  /\ (let s := fst (exec_block_gen true false st_r5) in
      s_esc st_r5 - s_esc s - (s_burned s - s_burned st_r5) = 67500 /\ getz (s_stk s) 0 - getz (s_stk st_r5) 0 = 150000).
Proof. vm_compute. repeat split; reflexivity. Qed.
(* repaired (as in /repo now): the sixth round executes, the escrow pays burn + stake + fees - burn amount and is empty;
   in the fifth round the backers get 150000 + 225000 - 232500 = 292500... precisely stake + fee total - burn amount *)
Lemma F12_repaired :
  (let s := fst (exec_block true st_r6) in
   snd (exec_block true st_r6) = OK /\ s_esc s = 0 /\ getz (s_stk s) 0 - getz (s_stk st_r6) 0 = 150000 + (525000 - s_burn st_r6))
  /\ (let s := fst (exec_block true st_r5) in
      snd (exec_block true st_r5) = OK /\ s_esc s = 0 /\ getz (s_stk s) 0 - getz (s_stk st_r5) 0 = 150000 + (375000 - s_burn st_r5)).
Proof. vm_compute. repeat split; reflexivity. Qed.

(* F23: two payers from stake: the first refund pays both trackers' origins and removes the tracker *)
Definition feetr1 : option tracker := Some ([(1, 75000)], 75000).
Definition feetr2 : option tracker := Some ([(2, 75000); (1, 75000)], 150000).
Definition ops_F23 : list op :=
  [OPropose 1 75000 true feetr1 None; OAddFee 2 1 75000 true feetr2 snap] ++ settle_invalid ++ [OWithdraw 1 1].
Lemma F23_witness :
  let s := run (V true true true) cfg0 st0 ops_F23 in
  getz (s_stk s) 1 = 5000000 - 75000 + 35625 /\ getz (s_stk s) 2 = 5000000 - 75000 + 35625
  /\ snd (withdraw s 2 1) = ENotFound /\ find_payer (s_payers s) 1 2 <> None.
Proof. vm_compute. repeat split; try reflexivity. discriminate. Qed.

(* C13a: only the team voted: half the burn amount is kept as pot, nobody can claim it *)
Definition votes_team : list round := [RD 1 (Some (GC 0 0 0 1)) [VR 2 0 0 0 0 false]].
Definition ops_C13a : list op :=
  [OPropose 1 150000 false None snap; OTime (THREE_DAYS + 1); OTally Resolved false true 6; OVotes votes_team; OExecBlock].
Lemma C13a_witness :
  let s := run (V true true true) cfg0 st0 ops_C13a in
  s_reward s = 3750 /\ snd (claim true s 2 1) = ENoVotes /\ snd (claim true s 1 1) = ENoVotes.
Proof. vm_compute. repeat split; reflexivity. Qed.

(* C13c: AGAINST with quorum is executed before the dispute's end; the code as found stores slash + fees - burn as
   the slash amount, so AddFeeToDispute accepts 142500 more, slashes again and restarts the vote *)
Definition ops_C13c : list op :=
  [OPropose 1 150000 false None snap; OTally Resolved false true 2; OVotes (votes1 500 0); OExecBlock;
   OAddFee 1 1 150000 false None snap].
Lemma C13c_witness :
  let s := run (V true true false) cfg0 st0 ops_C13c in
  let r := run (V true true true) cfg0 st0 ops_C13c in
  s_executed s = false /\ s_status s = Voting /\ s_feetotal s = 292500
  /\ s_executed r = true /\ s_feetotal r = 150000.
Proof. vm_compute. repeat split; reflexivity. Qed.

(* non-vacuity: a complete single-round settlement in the model leaves nothing but the voters' unclaimed rounding *)
Definition ops_full : list op :=
  [OPropose 1 50000 false None None; OAddFee 2 1 100000 false None snap] ++ settle_invalid
  ++ [OWithdraw 1 1; OWithdraw 2 1; OClaim 1 1; OWithdraw 1 1; OClaim 1 1; OExecute 1].
Lemma full_example :
  let s := run (V true true true) cfg0 st0 ops_full in
  s_esc s = 0 /\ s_burned s = 3750 /\ s_liq s = [0; 1000000 - 50000 + 47500 + 3750; 1000000 - 100000 + 95000]
  /\ s_stk s = [10000000; 5000000; 5000000] /\ s_payers s = [] /\ settled s.
Proof. vm_compute. repeat split; try reflexivity; try discriminate. Qed.

(* ================================================================================================ *)
(*  soundness of the check: what an empty issue list says about the implementation's observations     *)
(* ================================================================================================ *)
Lemma check_nil_spec c : c13_check c = [] -> c13_spec c = [].
Proof. destruct c as [r SS now init steps]. unfold c13_check. intros H. apply app_nil_both in H. exact (proj1 H). Qed.

Lemma check_nil_model c : c13_check c = [] ->
  match c with Hist r SS now init steps =>
    diff_run repo_variant (CF r SS) (init_st now (o_liq init) (o_stk init)) steps = [] end.
Proof. destruct c as [r SS now init steps]. unfold c13_check. intros H. apply app_nil_both in H. exact (proj2 H). Qed.

(* every step of the specification starts with the clause "no operation failed for lack of funds" *)
Lemma spec_step_funds r SS l prev o nxt : snd (spec_step r SS l prev o nxt) = [] -> o_res nxt <> EInsufficient.
Proof.
  assert (Hb : forall rest : issues,
             (spec_if (negb (o_res nxt =? EInsufficient)) "funds: an operation failed for lack of funds in the dispute escrow" ++ rest) = [] ->
             o_res nxt <> EInsufficient).
  { intros rest H. apply app_nil_both in H. destruct H as [H _]. apply spec_if_nil in H.
    apply negb_true_iff in H. apply Z.eqb_neq in H. exact H. }
  unfold spec_step.
  destruct o; cbn zeta;
    repeat match goal with
           | |- context [if ?b then _ else _] => destruct b
           end; cbn [snd]; rewrite <- ?app_assoc; intros H; eapply Hb; exact H.
Qed.

Lemma spec_run_funds r SS : forall steps l prev,
  snd (spec_run r SS l prev steps) = [] -> Forall (fun x => o_res (snd x) <> EInsufficient) steps.
Proof.
  induction steps as [|[o nxt] rest IH]; intros l prev H; [constructor|].
  cbn [spec_run] in H. destruct (spec_step r SS l prev o nxt) as [l1 i1] eqn:E1.
  destruct (spec_run r SS l1 nxt rest) as [l2 i2] eqn:E2. cbn [snd] in H.
  apply app_nil_both in H. destruct H as [H1 H2]. constructor.
  - cbn [snd]. apply (spec_step_funds r SS l prev o nxt). rewrite E1. exact H1.
  - apply (IH l1 nxt). rewrite E2. exact H2.
Qed.

(* the check passes only if no observed operation failed for lack of funds, and, when the history ends with every
   party having claimed, only if what is left in the dispute escrow is at most the dust store plus one loya per party *)
Theorem check_sound r SS now init steps :
  c13_check (Hist r SS now init steps) = [] ->
  Forall (fun x => o_res (snd x) <> EInsufficient) steps
  /\ (has_end steps = true ->
      let l := fst (spec_run r SS lg0 init steps) in
      let fin := last_obs init steps in
      0 <= o_esc fin /\ (o_esc fin - o_esc init) * PR6 <= (o_dust fin - o_dust init) + parties l * PR6).
Proof.
  intros H. apply check_nil_spec in H. unfold c13_spec in H.
  destruct (spec_run r SS lg0 init steps) as [l is] eqn:E. apply app_nil_both in H. destruct H as [H1 H2]. split.
  - apply (spec_run_funds r SS steps lg0 init). rewrite E. exact H1.
  - intros He. cbn zeta. cbn [fst]. unfold final_spec in H2. rewrite He in H2.
    apply app_nil_both in H2. destruct H2 as [Ha Hb]. apply spec_if_nil in Ha. apply spec_if_nil in Hb.
    apply Z.leb_le in Ha. apply Z.leb_le in Hb. split; assumption.
Qed.

(* F12 repaired, for every number of rounds: when the escrow holds exactly the escrowed stake and the fees of all rounds,
   an AGAINST execution pays all of it out (burn + stake and fees-minus-burn-amount to the backers) except the voters'
   pot and at most the odd unit of the halved burn amount *)
Theorem against_pays_out_everything fx s s' :
  0 <= s_burn s -> is_invalid (s_result s) = false -> is_support (s_result s) = false ->
  execute_vote fx s = (s', OK) -> s_esc s = s_slash s + s_feetotal s ->
  s_reward s' <= s_esc s' <= s_reward s' + 1.
Proof.
  intros Hb Hi Hs He Hesc.
  pose proof (execute_vote_amounts fx s s' Hb He) as H. cbv zeta in H.
  destruct H as (_ & _ & _ & _ & Hb0 & Hr0 & _ & _ & Hsum & Hout & _).
  rewrite Hi, Hs in Hout. lia.
Qed.
