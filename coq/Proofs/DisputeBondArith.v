(* C04 — arithmetic of RewardReporterBondToFeePayers (x/dispute/keeper/execute.go), used by Proofs/DisputeEscrowProofs.v.
   Kept in a file of its own: it needs plain [lia]/[nia] (no euclidean-division post hook). *)
From Coq Require Import ZArith List Bool Lia String.
From Verif Require Import Base.Harness Base.Dec Model.DisputeSettle Proofs.DisputeSettleProofs.
Open Scope Z_scope.

(* the whole-loya part is the floor of fee * bond / total: two Dec quotients with banker's rounding at the 18th decimal
   in between, exact because total <= 10^18 *)
Lemma bond6_floor f b t : 0 <= f -> 0 <= b -> 0 < t <= P -> bond6 f b t = (f * b) / t.
Proof.
  intros Hf Hb Ht. unfold bond6, bond12dec. rewrite !dec_mul_ints.
  assert (HP : 0 < P) by reflexivity. assert (H6 : 0 < PR6) by reflexivity.
  assert (HPK : P = PR6 * 1000000000000) by reflexivity.
  set (N := f * b * PR6). assert (HN : 0 <= N) by (unfold N; nia).
  rewrite (dec_quo_of_int (of_int N) t) by lia.
  set (D := Z.quot (of_int N * P) t).
  assert (HD : D = (N * P * P) / t) by (unfold D, of_int; apply Z.quot_div_nonneg; nia).
  assert (HD0 : 0 <= D) by (rewrite HD; apply Z.div_pos; nia).
  pose proof (chop_round_err D) as HX. pose proof (chop_round_nonneg_sign D HD0) as HX0. set (X := chop_round D) in *.
  rewrite (dec_quo_of_int X PR6) by exact H6.
  set (E := Z.quot (X * P) PR6).
  assert (HE : E = X * 1000000000000).
  { unfold E. rewrite Z.quot_div_nonneg by nia. rewrite HPK.
    replace (X * (PR6 * 1000000000000)) with (X * 1000000000000 * PR6) by ring. apply Z.div_mul. lia. }
  assert (HE0 : 0 <= E) by lia.
  pose proof (chop_round_err E) as HY. pose proof (chop_round_nonneg_sign E HE0) as HY0. set (Y := chop_round E) in *.
  unfold truncate_int. rewrite Z.quot_div_nonneg by lia.
  pose proof (Z.div_mod (f * b) t ltac:(lia)) as Hdm. pose proof (Z.mod_pos_bound (f * b) t ltac:(lia)) as Hmb.
  set (q := f * b / t) in *. set (r := (f * b) mod t) in *.
  assert (Hq : 0 <= q) by (unfold q; apply Z.div_pos; nia).
  assert (HNq : N = (t * q + r) * PR6) by (unfold N; rewrite Hdm; reflexivity).
  assert (HDlo : q * PR6 * P * P <= D).
  { rewrite HD. apply Z.div_le_lower_bound; [lia|]. rewrite HNq.
    replace ((t * q + r) * PR6 * P * P) with (t * (q * PR6 * P * P) + r * (PR6 * P * P)) by ring.
    assert (0 <= r * (PR6 * P * P)) by nia. lia. }
  assert (HDhi : D <= q * PR6 * P * P + (PR6 * P * P - PR6 * P)).
  { rewrite HD. apply Z.div_le_upper_bound; [lia|]. rewrite HNq.
    assert (Hr : r * P <= t * (P - 1)) by nia.
    assert (Hr2 : r * P * (PR6 * P) <= t * (P - 1) * (PR6 * P)) by (apply Z.mul_le_mono_nonneg_r; nia).
    replace ((t * q + r) * PR6 * P * P) with (t * (q * PR6 * P * P) + r * P * (PR6 * P)) by ring.
    replace (t * (q * PR6 * P * P + (PR6 * P * P - PR6 * P))) with (t * (q * PR6 * P * P) + t * (P - 1) * (PR6 * P)) by ring.
    lia. }
  (* X between q*PR6*P and q*PR6*P + PR6*P - PR6 *)
  assert (HXlo : q * PR6 * P <= X).
  { destruct (Z_lt_le_dec X (q * PR6 * P)) as [Hlt|]; [|assumption]. exfalso.
    assert (X * P <= (q * PR6 * P - 1) * P) by (apply Z.mul_le_mono_nonneg_r; lia). lia. }
  assert (HXhi : X <= q * PR6 * P + (PR6 * P - PR6)).
  { destruct (Z_lt_le_dec (q * PR6 * P + (PR6 * P - PR6)) X) as [Hlt|]; [|assumption]. exfalso.
    assert ((q * PR6 * P + (PR6 * P - PR6) + 1) * P <= X * P) by (apply Z.mul_le_mono_nonneg_r; lia). lia. }
  assert (HElo : q * P * P <= E) by (rewrite HE; nia).
  assert (HEhi : E <= q * P * P + (P * P - P)) by (rewrite HE; nia).
  assert (HYlo : q * P <= Y).
  { destruct (Z_lt_le_dec Y (q * P)) as [Hlt|]; [|assumption]. exfalso.
    assert (Y * P <= (q * P - 1) * P) by (apply Z.mul_le_mono_nonneg_r; lia). lia. }
  assert (HYhi : Y < q * P + P).
  { destruct (Z_lt_le_dec Y (q * P + P)) as [|Hge]; [assumption|]. exfalso.
    assert ((q * P + P) * P <= Y * P) by (apply Z.mul_le_mono_nonneg_r; lia). lia. }
  symmetry. apply Z.div_unique with (r := Y - q * P); lia.
Qed.
