From Coq Require Import ZArith List Bool Lia String Permutation.
From Verif Require Import Base.Harness Model.OracleAgg Model.Rewards Model.Determinism
     Proofs.OracleAggProofs Proofs.RewardsProofs.
Import ListNotations.
Open Scope Z_scope.

Lemma pd_delta_acc l : forall d, fold_left (fun d v => d + Z.abs v) l d = d + pd_delta l.
Proof.
  unfold pd_delta. induction l as [|x t IH]; intros d; cbn [fold_left]; [lia|].
  rewrite (IH (d + Z.abs x)), (IH (0 + Z.abs x)). lia.
Qed.

Lemma pd_delta_perm o1 o2 : Permutation o1 o2 -> pd_delta o1 = pd_delta o2.
Proof.
  induction 1 as [|x t t' _ IH|x y t|a b c _ IH1 _ IH2]; unfold pd_delta in *; cbn [fold_left].
  - reflexivity.
  - rewrite !pd_delta_acc. unfold pd_delta. lia.
  - rewrite !pd_delta_acc. lia.
  - lia.
Qed.

Theorem power_diff_order_independent o1 o2 b :
  Permutation o1 o2 -> power_diff_ord o1 b = power_diff_ord o2 b.
Proof. intros H. unfold power_diff_ord. rewrite (pd_delta_perm _ _ H). reflexivity. Qed.

(* every site the scanner finds today is covered (the lists above are what is proved/justified) *)
Example sites_today_covered :
  c01_check (SitesCase
    [ "app:App.AutoCliOpts"; "app:App.ModuleAccountAddrs";
      "daemons/server/types/pricefeed:ExchangeToPrice.GetValidPrices"; "lib:GetSortedKeys";
      "x/bridge/keeper:Keeper.PowerDiff"; "x/oracle/keeper:Keeper.AllocateRewards";
      "x/oracle/keeper:Keeper.WeightedMode" ]%string
    [ "crypto/rand.Read:x/oracle/utils:Salt"; "go:app:New"; "time.Now:lib/time:TimeProviderImpl.Now";
      "time.Now:x/mint:BeginBlocker" ]%string
    [ "field:app:App.DaemonHealthMonitor (pointer to HealthMonitor)"; "field:app:App.PriceFeedClient (pointer to Client)";
      "field:app:App.ReporterClient (pointer to Client)"; "field:app:App.Server (pointer to Server)";
      "field:app:App.TokenBridgeClient (pointer to Client)";
      "field:app:App.keys (map)"; "field:app:App.memKeys (map)"; "field:app:App.tkeys (map)";
      "field:daemons/server/types/pricefeed:ExchangeToPrice.exchangeToPriceTimestamp (map)";
      "field:daemons/server/types/pricefeed:MarketToExchangePrices.Mutex (sync)";
      "field:daemons/server/types/pricefeed:MarketToExchangePrices.marketToExchangePrices (map)";
      "field:x/bridge:BridgeInputs.Config (pointer to Module)"; "field:x/dispute:DisputeInputs.Config (pointer to Module)";
      "field:x/mint:MintInputs.Config (pointer to Module)"; "field:x/oracle:OracleInputs.Config (pointer to Module)";
      "field:x/registry/module:RegistryInputs.Config (pointer to Module)"; "field:x/reporter/module:ModuleInputs.Config (pointer to Module)";
      "var:app:maccPerms (map)"; "var:lib:bigPow10Memo (map)" ]%string) = [].
Proof. vm_compute. reflexivity. Qed.

(* a check that passes means the repeated executions agreed *)
Lemma c01_mode_check_sound rs impls : c01_mode_check (ModeCase rs impls) = [] ->
  forall a b, In a impls -> In b impls -> a = b.
Proof.
  unfold c01_mode_check. intros H. apply app_nil_both in H. destruct H as [H _]. apply spec_if_nil in H.
  apply Nat.leb_le in H. destruct impls as [|x [|y t]]; cbn in H; try lia; intros a b Ha Hb.
  - destruct Ha.
  - destruct Ha as [<-|[]]. destruct Hb as [<-|[]]. reflexivity.
Qed.


(* ---- node-local state ------------------------------------------------------------------------------------- *)
(* a handler whose store and output do not depend on what the node keeps in memory gives every node that holds the
   same store the same stores and outputs for every sequence of blocks, whatever each node has in memory (a node
   that ran from genesis, one that restarted, one that state-synced) *)
Theorem local_free_nodes_agree {L S B O : Type} (h : L -> S -> B -> L * S * O) :
  local_free h -> forall bs l l' s, run_node h l s bs = run_node h l' s bs.
Proof.
  intros Hf bs. induction bs as [|b t IH]; intros l l' s; [reflexivity|].
  cbn [run_node]. destruct (Hf l l' s b) as [Hs Ho].
  destruct (h l s b) as [[l1 s1] o1]. destruct (h l' s b) as [[l2 s2] o2]. cbn [fst snd] in Hs, Ho. subst s2 o2.
  rewrite (IH l1 l2 s1). reflexivity.
Qed.

(* ... and the cached read is not of that kind: after the rolled-back write a node that kept running outputs the
   cached 1, a node restarted on the same store outputs the stored 0 *)
Theorem cached_handler_nodes_disagree :
  ~ local_free cached_handler /\
  run_node cached_handler (Some 1) 0 [false] <> run_node cached_handler None 0 [false].
Proof.
  split.
  - intros H. destruct (H (Some 1) None 0 false) as [_ Ho]. cbn in Ho. discriminate.
  - cbn. discriminate.
Qed.

(* ---- restarted node ------------------------------------------------------------------------------------------ *)
(* restarts at arbitrary block boundaries are invisible when the handler is free of node-local state: the restarted
   node is, at each restart, a node with memory [l0] on the store the running node holds *)
Theorem local_free_restarts_invisible {L S B O : Type} (h : L -> S -> B -> L * S * O) :
  local_free h -> forall bs l0 l s, run_node_restarting h l0 l s bs = run_node h l s (map snd bs).
Proof.
  intros Hf bs. induction bs as [|[r b] t IH]; intros l0 l s; [reflexivity|].
  cbn [run_node_restarting run_node map snd].
  destruct (Hf (if r then l0 else l) l s b) as [Hs Ho].
  destruct (h (if r then l0 else l) s b) as [[l1 s1] o1]. destruct (h l s b) as [[l2 s2] o2].
  cbn [fst snd] in Hs, Ho. subst s2 o2.
  rewrite (IH l0 l1 s1). rewrite (local_free_nodes_agree h Hf (map snd t) l1 l2 s1). reflexivity.
Qed.

(* the cached read again: restarted after the rolled-back write, the node answers from the store *)
Example cached_handler_restart_visible :
  run_node_restarting cached_handler None None 0 [(false, true); (true, false)]
  <> run_node cached_handler None 0 [true; false].
Proof. cbn. discriminate. Qed.

Lemma map_eq_nth {A B} (f : A -> B) (a b : list A) : map f a = map f b ->
  List.length a = List.length b /\ forall n d, f (nth n a d) = f (nth n b d).
Proof.
  revert b. induction a as [|x a IH]; destruct b as [|y b]; cbn [map]; intros E; try discriminate.
  - split; [reflexivity|]. intros n d. destruct n; reflexivity.
  - injection E as E1 E2. destruct (IH b E2) as [Hl Hn]. split; [cbn [List.length]; f_equal; exact Hl|].
    intros n d. destruct n as [|n]; cbn [nth]; [exact E1 | apply Hn].
Qed.

(* a check that passes: the two executions processed the same number of blocks and, after every block, recorded the
   same store digest, event digest and operation results; same projected observations; same failure status *)
Lemma c01_restart_check_sound hs rs k r obs h n e :
  c01_restart_check (RestartCase hs rs k r obs h n e) = [] ->
  List.length k = List.length r /\
  (forall i d, obs_stores (nth i k d) = obs_stores (nth i r d) /\ obs_events (nth i k d) = obs_events (nth i r d)
               /\ obs_results (nth i k d) = obs_results (nth i r d)) /\
  obs = true /\ h = true.
Proof.
  unfold c01_restart_check. intros H.
  apply app_nil_both in H. destruct H as [H1 H]. apply app_nil_both in H. destruct H as [H2 H].
  apply app_nil_both in H. destruct H as [H3 H]. apply app_nil_both in H. destruct H as [H4 H5].
  apply spec_if_nil in H1, H2, H3, H4, H5.
  assert (Hs : forall a b, String.eqb a b = true -> a = b) by (intros a b E; apply String.eqb_eq; exact E).
  apply (list_eqb_eq String.eqb Hs) in H1, H2, H3.
  destruct (map_eq_nth _ _ _ H1) as [Hl N1]. destruct (map_eq_nth _ _ _ H2) as [_ N2]. destruct (map_eq_nth _ _ _ H3) as [_ N3].
  split; [exact Hl|]. split; [|split; assumption].
  intros i d. split; [apply N1 | split; [apply N2 | apply N3]].
Qed.

(* non-vacuity: a differing store digest in the second block is reported *)
Example c01_restart_check_detects :
  c01_restart_check (RestartCase 1 [1] [("a", "e", "o"); ("b", "e", "o")] [("a", "e", "o"); ("c", "e", "o")] true true 0 0)%string
  = [Spec "a node restarted at a block boundary diverges from a node that kept running: the module stores differ after some block"].
Proof. vm_compute. reflexivity. Qed.
