From Coq Require Import ZArith List Bool Lia String Permutation.
From Verif Require Import Base.Harness Model.OracleAgg Model.Rewards Model.Determinism
     Proofs.OracleAggProofs Proofs.RewardsProofs.
Import ListNotations.
Open Scope Z_scope.

Lemma pd_delta_acc l : forall d, fold_left (fun d v => d + Z.abs v) l d = d + pd_delta l.
Proof.
  unfold pd_delta. induction l as [|x t IH]; intros d; cbn [fold_left]; [lia|].
  rewrite (IH (d + Z.abs x)), (IH (0 + Z.abs x)). lia.
Qed.

Lemma pd_delta_perm o1 o2 : Permutation o1 o2 -> pd_delta o1 = pd_delta o2.
Proof.
  induction 1 as [|x t t' _ IH|x y t|a b c _ IH1 _ IH2]; unfold pd_delta in *; cbn [fold_left].
  - reflexivity.
  - rewrite !pd_delta_acc. unfold pd_delta. lia.
  - rewrite !pd_delta_acc. lia.
  - lia.
Qed.

Theorem power_diff_order_independent o1 o2 b :
  Permutation o1 o2 -> power_diff_ord o1 b = power_diff_ord o2 b.
Proof. intros H. unfold power_diff_ord. rewrite (pd_delta_perm _ _ H). reflexivity. Qed.

(* every site the scanner finds today is covered (the lists above are what is proved/justified) *)
Example sites_today_covered :
  c01_check (SitesCase
    [ "app:App.AutoCliOpts"; "app:App.ModuleAccountAddrs";
      "daemons/server/types/pricefeed:ExchangeToPrice.GetValidPrices"; "lib:GetSortedKeys";
      "x/bridge/keeper:Keeper.PowerDiff"; "x/oracle/keeper:Keeper.AllocateRewards";
      "x/oracle/keeper:Keeper.WeightedMode" ]%string
    [ "crypto/rand.Read:x/oracle/utils:Salt"; "go:app:New"; "time.Now:lib/time:TimeProviderImpl.Now";
      "time.Now:x/mint:BeginBlocker" ]%string) = [].
Proof. vm_compute. reflexivity. Qed.

(* a check that passes means the repeated executions agreed *)
Lemma c01_mode_check_sound rs impls : c01_mode_check (ModeCase rs impls) = [] ->
  forall a b, In a impls -> In b impls -> a = b.
Proof.
  unfold c01_mode_check. intros H. apply app_nil_both in H. destruct H as [H _]. apply spec_if_nil in H.
  apply Nat.leb_le in H. destruct impls as [|x [|y t]]; cbn in H; try lia; intros a b Ha Hb.
  - destruct Ha.
  - destruct Ha as [<-|[]]. destruct Hb as [<-|[]]. reflexivity.
Qed.
