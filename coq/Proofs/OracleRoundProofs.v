From Coq Require Import ZArith List Bool Lia String Permutation Sorted.
From Verif Require Import Base.Harness Model.OracleRound.
Import ListNotations.
Open Scope Z_scope.

(* ====================================================================================== *)
(* sorted stores                                                                            *)
(* ====================================================================================== *)
Section SortedStore.
Variable A : Type.
Variables lt keq : A -> A -> bool.
Hypothesis lt_trans : forall a b c, lt a b = true -> lt b c = true -> lt a c = true.
Hypothesis keq_lt : forall a b, keq a b = true -> lt a b = false /\ lt b a = false.
Hypothesis total : forall a b, keq a b = false -> lt a b = false -> lt b a = true.
Hypothesis keq_sym : forall a b, keq a b = keq b a.
Hypothesis keq_lt_l : forall a b c, keq a b = true -> lt b c = lt a c.
Hypothesis keq_lt_r : forall a b c, keq a b = true -> lt c b = lt c a.
Hypothesis keq_trans : forall a b c, keq a b = true -> keq b c = true -> keq a c = true.

Definition ssorted (l : list A) : Prop := StronglySorted (fun a b => lt a b = true) l.

Lemma sset_in x l y : In y (sset lt keq x l) -> y = x \/ In y l.
Proof.
  induction l as [|z t IH]; cbn [sset]; [intros [<-|[]]; auto|].
  destruct (keq x z); [intros [<-|H]; [auto | right; right; exact H]|].
  destruct (lt x z); [intros [<-|H]; auto|].
  intros [<-|H]; [right; left; reflexivity|]. destruct (IH H); [auto | right; right; assumption].
Qed.

Lemma sset_has x l : In x (sset lt keq x l).
Proof.
  induction l as [|z t IH]; cbn [sset]; [left; reflexivity|].
  destruct (keq x z); [left; reflexivity|]. destruct (lt x z); [left; reflexivity | right; exact IH].
Qed.

(* entries with another key survive *)
Lemma sset_keeps x l y : In y l -> keq x y = false -> In y (sset lt keq x l).
Proof.
  induction l as [|z t IH]; cbn [sset In]; [intros []|]. intros [<-|H] Hk.
  - rewrite Hk. destruct (lt x z); [right; left; reflexivity | left; reflexivity].
  - destruct (keq x z); [right; exact H|]. destruct (lt x z); [right; right; exact H | right; apply IH; assumption].
Qed.

Lemma sset_sorted x l : ssorted l -> ssorted (sset lt keq x l).
Proof.
  unfold ssorted. induction 1 as [|z t Hs IH Hz]; cbn [sset].
  - constructor; constructor.
  - destruct (keq x z) eqn:Ek.
    + constructor; [exact Hs|]. eapply Forall_impl; [|exact Hz]. cbn. intros a Ha.
      rewrite keq_sym in Ek. rewrite (keq_lt_l z x a Ek). exact Ha.
    + destruct (lt x z) eqn:El.
      * constructor; [constructor; assumption|]. constructor; [exact El|].
        eapply Forall_impl; [|exact Hz]. cbn. intros a Ha. eapply lt_trans; eassumption.
      * constructor; [exact IH|]. rewrite Forall_forall. intros a Ha.
        destruct (sset_in _ _ _ Ha) as [->|Hin]; [apply total; assumption|].
        rewrite Forall_forall in Hz. apply Hz. exact Hin.
Qed.

(* in a sorted store at most one entry has a given key, and after Set it is the new entry *)
Lemma sorted_key_unique l a b : ssorted l -> In a l -> In b l -> keq a b = true -> a = b.
Proof.
  unfold ssorted. induction 1 as [|z t Hs IH Hz]; [intros []|]. rewrite Forall_forall in Hz.
  intros [<-|Ha] [<-|Hb] Hk; [reflexivity | | | apply IH; assumption].
  - destruct (keq_lt _ _ Hk) as [H1 _]. rewrite (Hz _ Hb) in H1. discriminate.
  - destruct (keq_lt _ _ Hk) as [_ H1]. rewrite (Hz _ Ha) in H1. discriminate.
Qed.

Theorem sset_replaces x l y : ssorted l -> In y (sset lt keq x l) -> keq x y = true -> y = x.
Proof.
  intros Hs Hy Hk. symmetry. eapply sorted_key_unique; [apply sset_sorted; exact Hs | apply sset_has | exact Hy | exact Hk].
Qed.

(* Set with a fresh key is an insertion *)
Lemma sset_fresh_perm x l : (forall y, In y l -> keq x y = false) -> Permutation (sset lt keq x l) (x :: l).
Proof.
  induction l as [|z t IH]; intros Hf; cbn [sset]; [reflexivity|].
  rewrite (Hf z (or_introl eq_refl)). destruct (lt x z); [reflexivity|].
  rewrite perm_swap. constructor. apply IH. intros y Hy. apply Hf. right. exact Hy.
Qed.
End SortedStore.

(* ---- the three key orders are strict total orders ------------------------------------------- *)
Ltac zb := repeat match goal with
  | H : (_ && _) = true |- _ => apply andb_prop in H; destruct H
  | H : (_ || _) = true |- _ => apply orb_prop in H; destruct H
  | H : (_ <? _) = true |- _ => apply Z.ltb_lt in H
  | H : (_ =? _) = true |- _ => apply Z.eqb_eq in H
  | H : (_ <? _) = false |- _ => apply Z.ltb_ge in H
  | H : (_ =? _) = false |- _ => apply Z.eqb_neq in H
  | H : (_ && _) = false |- _ => apply andb_false_iff in H; destruct H
  | H : (_ || _) = false |- _ => apply orb_false_iff in H; destruct H
  end.

Definition lex2 (a1 a2 b1 b2 : Z) : bool := (a1 <? b1) || ((a1 =? b1) && (a2 <? b2)).
Definition lex3 (a1 a2 a3 b1 b2 b3 : Z) : bool :=
  (a1 <? b1) || ((a1 =? b1) && ((a2 <? b2) || ((a2 =? b2) && (a3 <? b3)))).

Lemma lex2_true a1 a2 b1 b2 : lex2 a1 a2 b1 b2 = true <-> (a1 < b1 \/ (a1 = b1 /\ a2 < b2)).
Proof. unfold lex2. rewrite orb_true_iff, andb_true_iff, !Z.ltb_lt, Z.eqb_eq. tauto. Qed.
Lemma lex3_true a1 a2 a3 b1 b2 b3 : lex3 a1 a2 a3 b1 b2 b3 = true <-> (a1 < b1 \/ (a1 = b1 /\ (a2 < b2 \/ (a2 = b2 /\ a3 < b3)))).
Proof. unfold lex3. rewrite !orb_true_iff, !andb_true_iff, !orb_true_iff, !andb_true_iff, !Z.ltb_lt, !Z.eqb_eq. tauto. Qed.

Lemma bool_false_iff (b : bool) (P : Prop) : (b = true <-> P) -> (b = false <-> ~ P).
Proof.
  intros [H1 H2]. destruct b; split; intros H.
  - discriminate.
  - exfalso. apply H. apply H1. reflexivity.
  - intros HP. specialize (H2 HP). discriminate.
  - reflexivity.
Qed.

Section MetaOrder.
Lemma meta_lt_spec a b : meta_lt a b = true <-> (m_qid a < m_qid b \/ (m_qid a = m_qid b /\ m_id a < m_id b)).
Proof. apply lex2_true. Qed.
Lemma meta_keq_spec a b : meta_key_eq a b = true <-> (m_qid a = m_qid b /\ m_id a = m_id b).
Proof. unfold meta_key_eq. rewrite andb_true_iff, !Z.eqb_eq. tauto. Qed.
End MetaOrder.

Ltac order_tac lt_spec keq_spec :=
  intros;
  repeat match goal with
         | H : _ = true |- _ => first [apply lt_spec in H | apply keq_spec in H]
         | H : _ = false |- _ => first [apply (proj1 (bool_false_iff _ _ (lt_spec _ _))) in H
                                       | apply (proj1 (bool_false_iff _ _ (keq_spec _ _))) in H]
         end;
  repeat match goal with
         | |- _ /\ _ => split
         | |- _ = true => first [apply lt_spec | apply keq_spec]
         | |- _ = false => first [apply (proj2 (bool_false_iff _ _ (lt_spec _ _))) | apply (proj2 (bool_false_iff _ _ (keq_spec _ _)))]
         end; try lia.

Lemma meta_lt_trans a b c : meta_lt a b = true -> meta_lt b c = true -> meta_lt a c = true.
Proof. order_tac meta_lt_spec meta_keq_spec. Qed.
Lemma meta_keq_lt a b : meta_key_eq a b = true -> meta_lt a b = false /\ meta_lt b a = false.
Proof. order_tac meta_lt_spec meta_keq_spec. Qed.
Lemma meta_total a b : meta_key_eq a b = false -> meta_lt a b = false -> meta_lt b a = true.
Proof. order_tac meta_lt_spec meta_keq_spec. Qed.
Lemma meta_keq_sym a b : meta_key_eq a b = meta_key_eq b a.
Proof. unfold meta_key_eq. rewrite (Z.eqb_sym (m_qid a)), (Z.eqb_sym (m_id a)). reflexivity. Qed.
Lemma meta_keq_lt_l a b c : meta_key_eq a b = true -> meta_lt b c = meta_lt a c.
Proof. intros H. apply meta_keq_spec in H. destruct H as [H1 H2]. unfold meta_lt. rewrite H1, H2. reflexivity. Qed.

Definition metas_sorted (l : list qmeta) : Prop := ssorted _ meta_lt l.

Lemma meta_set_sorted x l : metas_sorted l -> metas_sorted (meta_set x l).
Proof. apply sset_sorted; [exact meta_lt_trans | exact meta_total | exact meta_keq_sym | exact meta_keq_lt_l]. Qed.

Lemma rep_lt_spec a b : rep_lt a b = true <->
  (rp_qid a < rp_qid b \/ (rp_qid a = rp_qid b /\ (rp_reporter a < rp_reporter b \/ (rp_reporter a = rp_reporter b /\ rp_meta a < rp_meta b)))).
Proof. apply lex3_true. Qed.
Lemma rep_keq_spec a b : rep_key_eq a b = true <-> (rp_qid a = rp_qid b /\ rp_reporter a = rp_reporter b /\ rp_meta a = rp_meta b).
Proof. unfold rep_key_eq. rewrite !andb_true_iff, !Z.eqb_eq. tauto. Qed.
Lemma rep_lt_trans a b c : rep_lt a b = true -> rep_lt b c = true -> rep_lt a c = true.
Proof. order_tac rep_lt_spec rep_keq_spec. Qed.
Lemma rep_keq_lt a b : rep_key_eq a b = true -> rep_lt a b = false /\ rep_lt b a = false.
Proof. order_tac rep_lt_spec rep_keq_spec. Qed.
Lemma rep_total a b : rep_key_eq a b = false -> rep_lt a b = false -> rep_lt b a = true.
Proof. order_tac rep_lt_spec rep_keq_spec. Qed.
Lemma rep_keq_sym a b : rep_key_eq a b = rep_key_eq b a.
Proof. unfold rep_key_eq. rewrite (Z.eqb_sym (rp_qid a)), (Z.eqb_sym (rp_reporter a)), (Z.eqb_sym (rp_meta a)). reflexivity. Qed.
Lemma rep_keq_lt_l a b c : rep_key_eq a b = true -> rep_lt b c = rep_lt a c.
Proof. intros H. apply rep_keq_spec in H. destruct H as (H1 & H2 & H3). unfold rep_lt. rewrite H1, H2, H3. reflexivity. Qed.

Definition reports_sorted (l : list report) : Prop := ssorted _ rep_lt l.

Lemma rep_set_sorted x l : reports_sorted l -> reports_sorted (rep_set x l).
Proof. apply sset_sorted; [exact rep_lt_trans | exact rep_total | exact rep_keq_sym | exact rep_keq_lt_l]. Qed.

(* a reporter's later report in the same round replaces the earlier one: after Set the store holds
   exactly one report with that (query, reporter, round) key, and it is the new one *)
Theorem later_report_replaces x l y :
  reports_sorted l -> In y (rep_set x l) -> rep_key_eq x y = true -> y = x.
Proof.
  intros Hs Hy Hk. eapply sset_replaces; try eassumption.
  - exact rep_lt_trans. - exact rep_keq_lt. - exact rep_total. - exact rep_keq_sym. - exact rep_keq_lt_l.
Qed.

Lemma agg_lt_spec a b : agg_lt a b = true <-> (ag_qid a < ag_qid b \/ (ag_qid a = ag_qid b /\ ag_ts a < ag_ts b)).
Proof. apply lex2_true. Qed.

(* ====================================================================================== *)
(* admission                                                                                *)
(* ====================================================================================== *)
Lemma set_value_ok s h m rep pw inc vok : vok = true -> exists s', set_value s h m rep pw inc vok = inl s'.
Proof. intros ->. unfold set_value. cbn [negb]. eexists. reflexivity. Qed.

Lemma set_value_inl s h m rep pw inc vok s' : set_value s h m rep pw inc vok = inl s' -> vok = true.
Proof. unfold set_value. destruct vok; [reflexivity | cbn; discriminate]. Qed.

Theorem submit_accept_only_if s h q rep stake mn vok s' :
  submit_value s h q rep stake mn vok = inl s' -> accept_spec s h q stake mn = true.
Proof.
  unfold submit_value, accept_spec.
  destruct (qi_kind q) eqn:Ek; try discriminate;
  (destruct stake as [st|]; [|discriminate]);
  (destruct (st <? mn) eqn:Es; [discriminate|]); apply Z.ltb_ge in Es;
  (assert (Hmn : (mn <=? st) = true) by (apply Z.leb_le; lia)); rewrite Hmn; cbn [andb]; try reflexivity.
  - (* spot *) destruct (current_query (qi_id q) (o_queries s)) as [m|]; [|cbn; discriminate].
    cbn [negb]. destruct ((m_amount m =? 0) && negb (m_cycle m)) eqn:E1; [discriminate|].
    destruct (m_expiration m <? h) eqn:E2; [discriminate|]. intros _.
    apply Z.ltb_ge in E2. apply andb_true_intro. split; [|apply Z.leb_le; lia].
    destruct (m_amount m =? 0); destruct (m_cycle m); cbn in *; congruence.
  - (* a query type without spec is rejected by SetValue *)
    destruct (current_query (qi_id q) (o_queries s)) as [m|]; [|cbn; discriminate].
    cbn [negb]. destruct ((m_amount m =? 0) && negb (m_cycle m)); [discriminate|].
    destruct (m_expiration m <? h); discriminate.
Qed.

(* bridge-withdrawal queries (and undecodable query data) are never reportable *)
Theorem withdrawal_never_reportable s h q rep stake mn vok :
  qi_kind q = KWithdraw -> submit_value s h q rep stake mn vok = inr RWithdrawal.
Proof. intros H. unfold submit_value. rewrite H. reflexivity. Qed.

Definition metas_wf (l : list qmeta) : Prop := Forall (fun m => 0 <= m_amount m /\ 0 <= m_window m) l.

Lemma current_query_in qid l m : current_query qid l = Some m -> In m l /\ m_qid m = qid.
Proof.
  unfold current_query.
  assert (G : forall l acc, fold_left (fun acc y => if m_qid y =? qid then Some y else acc) l acc = Some m ->
              (In m l /\ m_qid m = qid) \/ acc = Some m).
  { induction l0 as [|y t IH]; intros acc H; cbn [fold_left] in H; [right; exact H|].
    destruct (IH _ H) as [[H1 H2]|H1]; [left; split; [right|]; assumption|].
    destruct (m_qid y =? qid) eqn:E; [|right; exact H1]. injection H1 as <-. left. split; [left; reflexivity | apply Z.eqb_eq; exact E]. }
  intros H. destruct (G l None H) as [H1|H1]; [exact H1 | discriminate].
Qed.

(* conversely: what the specification admits is accepted (for a well-formed value of a spec'd type) *)
Theorem submit_accept_if s h q rep stake mn :
  metas_wf (o_queries s) -> qi_kind q <> KNoSpec ->
  accept_spec s h q stake mn = true -> exists s', submit_value s h q rep stake mn true = inl s'.
Proof.
  intros Hwf Hk. unfold accept_spec, submit_value.
  destruct (qi_kind q) eqn:Ek; try discriminate; try congruence;
  (destruct stake as [st|]; [|discriminate]); intros H; apply andb_prop in H; destruct H as [H1 H2];
  apply Z.leb_le in H1; (assert (Hs : (st <? mn) = false) by (apply Z.ltb_ge; lia)); rewrite Hs.
  - destruct (current_query (qi_id q) (o_queries s)) as [m|]; [|discriminate].
    apply andb_prop in H2. destruct H2 as [H2 H3]. apply Z.leb_le in H3. cbn [negb].
    assert (E1 : (m_amount m =? 0) && negb (m_cycle m) = false).
    { destruct (m_amount m =? 0); destruct (m_cycle m); cbn in *; congruence. }
    rewrite E1. assert (E2 : (m_expiration m <? h) = false) by (apply Z.ltb_ge; lia). rewrite E2.
    apply set_value_ok. reflexivity.
  - (* deposit *)
    assert (D : forall s0 m, 0 <= m_amount m -> 0 <= m_window m -> exists s', deposit_reveal s0 h m rep (Z.quot st 1000000) true = inl s').
    { intros s0 m Ha Hw. unfold deposit_reveal.
      destruct ((m_amount m =? 0) && (m_expiration m <=? h)) eqn:E1.
      - cbn [m_expiration]. assert ((h + m_window m <? h) = false) as -> by (apply Z.ltb_ge; lia). apply set_value_ok. reflexivity.
      - destruct ((0 <? m_amount m) && (m_expiration m <=? h)) eqn:E2.
        + unfold set_amount_exp. cbn [m_expiration]. assert ((h + m_window m <? h) = false) as -> by (apply Z.ltb_ge; lia). apply set_value_ok. reflexivity.
        + assert ((m_expiration m <? h) = false) as ->; [|apply set_value_ok; reflexivity].
          apply Z.ltb_ge. destruct (m_expiration m <=? h) eqn:E3; [|apply Z.leb_gt in E3; lia].
          rewrite andb_true_r in E1, E2. apply Z.eqb_neq in E1. apply Z.ltb_ge in E2. lia. }
    destruct (current_query (qi_id q) (o_queries s)) as [m|] eqn:Ec.
    + destruct (current_query_in _ _ _ Ec) as [Hin _]. unfold metas_wf in Hwf. rewrite Forall_forall in Hwf.
      destruct (Hwf _ Hin). apply D; assumption.
    + cbn [negb]. apply D; cbn; lia.
Qed.

(* ====================================================================================== *)
(* the end blocker: every closing round aggregates exactly once and disappears             *)
(* ====================================================================================== *)
Definition closing (h : Z) (m : qmeta) : bool := m_has_reports m && (m_expiration m <=? h).

Definition agg_step (h ts : Z) (st : ostate) (m : qmeta) : ostate :=
  if m_has_reports m && (m_expiration m <=? h) then aggregate_round st h ts m else st.

Lemma set_aggregated_report_fold s h ts : set_aggregated_report s h ts = fold_left (agg_step h ts) (o_queries s) s.
Proof. reflexivity. Qed.

(* the fold leaves reports, cycle list, sequencers untouched *)
Lemma agg_fold_frame h ts : forall l st,
  let r := fold_left (agg_step h ts) l st in
  o_reports r = o_reports st /\ o_cycle r = o_cycle st /\ o_seq r = o_seq st /\ o_next_meta r = o_next_meta st.
Proof.
  induction l as [|m t IH]; intros st; cbn [fold_left]; [auto|].
  destruct (IH (agg_step h ts st m)) as (H1 & H2 & H3 & H4). cbv zeta. rewrite H1, H2, H3, H4.
  unfold agg_step. destruct (m_has_reports m && (m_expiration m <=? h)); cbn; auto.
Qed.

Lemma filter_filter_and {A} (f g : A -> bool) l : filter f (filter g l) = filter (fun x => g x && f x) l.
Proof.
  induction l as [|x t IH]; cbn [filter]; [reflexivity|].
  destruct (g x); cbn [andb filter]; [destruct (f x); rewrite IH; reflexivity | exact IH].
Qed.

(* the metas that remain are exactly those whose key is not that of a closing round in [l] *)
Lemma agg_fold_queries h ts : forall l st,
  o_queries (fold_left (agg_step h ts) l st) =
  filter (fun y => negb (existsb (fun m => closing h m && meta_key_eq m y) l)) (o_queries st).
Proof.
  induction l as [|m t IH]; intros st; cbn [fold_left existsb].
  - cbn. induction (o_queries st) as [|y u IHu]; cbn; [reflexivity | f_equal; exact IHu].
  - rewrite IH. unfold agg_step, closing. destruct (m_has_reports m && (m_expiration m <=? h)) eqn:E; cbn [andb orb].
    + cbn [aggregate_round o_queries]. unfold meta_remove. rewrite filter_filter_and.
      apply filter_ext. intros y. unfold meta_key_eq. rewrite negb_orb.
      rewrite (Z.eqb_sym (m_qid y)), (Z.eqb_sym (m_id y)). reflexivity.
    + reflexivity.
Qed.
