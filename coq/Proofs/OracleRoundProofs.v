From Coq Require Import ZArith List Bool Lia String Permutation Sorted.
From Verif Require Import Base.Harness Model.OracleRound.
Import ListNotations.
Open Scope Z_scope.

(* ====================================================================================== *)
(* sorted stores                                                                            *)
(* ====================================================================================== *)
Section SortedStore.
Variable A : Type.
Variables lt keq : A -> A -> bool.
Hypothesis lt_trans : forall a b c, lt a b = true -> lt b c = true -> lt a c = true.
Hypothesis keq_lt : forall a b, keq a b = true -> lt a b = false /\ lt b a = false.
Hypothesis total : forall a b, keq a b = false -> lt a b = false -> lt b a = true.
Hypothesis keq_sym : forall a b, keq a b = keq b a.
Hypothesis keq_lt_l : forall a b c, keq a b = true -> lt b c = lt a c.
Hypothesis keq_lt_r : forall a b c, keq a b = true -> lt c b = lt c a.
Hypothesis keq_trans : forall a b c, keq a b = true -> keq b c = true -> keq a c = true.

Definition ssorted (l : list A) : Prop := StronglySorted (fun a b => lt a b = true) l.

Lemma sset_in x l y : In y (sset lt keq x l) -> y = x \/ In y l.
Proof.
  induction l as [|z t IH]; cbn [sset]; [intros [<-|[]]; auto|].
  destruct (keq x z); [intros [<-|H]; [auto | right; right; exact H]|].
  destruct (lt x z); [intros [<-|H]; auto|].
  intros [<-|H]; [right; left; reflexivity|]. destruct (IH H); [auto | right; right; assumption].
Qed.

Lemma sset_has x l : In x (sset lt keq x l).
Proof.
  induction l as [|z t IH]; cbn [sset]; [left; reflexivity|].
  destruct (keq x z); [left; reflexivity|]. destruct (lt x z); [left; reflexivity | right; exact IH].
Qed.

(* entries with another key survive *)
Lemma sset_keeps x l y : In y l -> keq x y = false -> In y (sset lt keq x l).
Proof.
  induction l as [|z t IH]; cbn [sset In]; [intros []|]. intros [<-|H] Hk.
  - rewrite Hk. destruct (lt x z); [right; left; reflexivity | left; reflexivity].
  - destruct (keq x z); [right; exact H|]. destruct (lt x z); [right; right; exact H | right; apply IH; assumption].
Qed.

Lemma sset_sorted x l : ssorted l -> ssorted (sset lt keq x l).
Proof.
  unfold ssorted. induction 1 as [|z t Hs IH Hz]; cbn [sset].
  - constructor; constructor.
  - destruct (keq x z) eqn:Ek.
    + constructor; [exact Hs|]. eapply Forall_impl; [|exact Hz]. cbn. intros a Ha.
      rewrite keq_sym in Ek. rewrite (keq_lt_l z x a Ek). exact Ha.
    + destruct (lt x z) eqn:El.
      * constructor; [constructor; assumption|]. constructor; [exact El|].
        eapply Forall_impl; [|exact Hz]. cbn. intros a Ha. eapply lt_trans; eassumption.
      * constructor; [exact IH|]. rewrite Forall_forall. intros a Ha.
        destruct (sset_in _ _ _ Ha) as [->|Hin]; [apply total; assumption|].
        rewrite Forall_forall in Hz. apply Hz. exact Hin.
Qed.

(* in a sorted store at most one entry has a given key, and after Set it is the new entry *)
Lemma sorted_key_unique l a b : ssorted l -> In a l -> In b l -> keq a b = true -> a = b.
Proof.
  unfold ssorted. induction 1 as [|z t Hs IH Hz]; [intros []|]. rewrite Forall_forall in Hz.
  intros [<-|Ha] [<-|Hb] Hk; [reflexivity | | | apply IH; assumption].
  - destruct (keq_lt _ _ Hk) as [H1 _]. rewrite (Hz _ Hb) in H1. discriminate.
  - destruct (keq_lt _ _ Hk) as [_ H1]. rewrite (Hz _ Ha) in H1. discriminate.
Qed.

Theorem sset_replaces x l y : ssorted l -> In y (sset lt keq x l) -> keq x y = true -> y = x.
Proof.
  intros Hs Hy Hk. symmetry. eapply sorted_key_unique; [apply sset_sorted; exact Hs | apply sset_has | exact Hy | exact Hk].
Qed.

(* Set with a fresh key is an insertion *)
Lemma sset_fresh_perm x l : (forall y, In y l -> keq x y = false) -> Permutation (sset lt keq x l) (x :: l).
Proof.
  induction l as [|z t IH]; intros Hf; cbn [sset]; [reflexivity|].
  rewrite (Hf z (or_introl eq_refl)). destruct (lt x z); [reflexivity|].
  rewrite perm_swap. constructor. apply IH. intros y Hy. apply Hf. right. exact Hy.
Qed.
End SortedStore.

(* ---- the three key orders are strict total orders ------------------------------------------- *)
Ltac zb := repeat match goal with
  | H : (_ && _) = true |- _ => apply andb_prop in H; destruct H
  | H : (_ || _) = true |- _ => apply orb_prop in H; destruct H
  | H : (_ <? _) = true |- _ => apply Z.ltb_lt in H
  | H : (_ =? _) = true |- _ => apply Z.eqb_eq in H
  | H : (_ <? _) = false |- _ => apply Z.ltb_ge in H
  | H : (_ =? _) = false |- _ => apply Z.eqb_neq in H
  | H : (_ && _) = false |- _ => apply andb_false_iff in H; destruct H
  | H : (_ || _) = false |- _ => apply orb_false_iff in H; destruct H
  end.

Definition lex2 (a1 a2 b1 b2 : Z) : bool := (a1 <? b1) || ((a1 =? b1) && (a2 <? b2)).
Definition lex3 (a1 a2 a3 b1 b2 b3 : Z) : bool :=
  (a1 <? b1) || ((a1 =? b1) && ((a2 <? b2) || ((a2 =? b2) && (a3 <? b3)))).

Lemma lex2_true a1 a2 b1 b2 : lex2 a1 a2 b1 b2 = true <-> (a1 < b1 \/ (a1 = b1 /\ a2 < b2)).
Proof. unfold lex2. rewrite orb_true_iff, andb_true_iff, !Z.ltb_lt, Z.eqb_eq. tauto. Qed.
Lemma lex3_true a1 a2 a3 b1 b2 b3 : lex3 a1 a2 a3 b1 b2 b3 = true <-> (a1 < b1 \/ (a1 = b1 /\ (a2 < b2 \/ (a2 = b2 /\ a3 < b3)))).
Proof. unfold lex3. rewrite !orb_true_iff, !andb_true_iff, !orb_true_iff, !andb_true_iff, !Z.ltb_lt, !Z.eqb_eq. tauto. Qed.

Lemma bool_false_iff (b : bool) (P : Prop) : (b = true <-> P) -> (b = false <-> ~ P).
Proof.
  intros [H1 H2]. destruct b; split; intros H.
  - discriminate.
  - exfalso. apply H. apply H1. reflexivity.
  - intros HP. specialize (H2 HP). discriminate.
  - reflexivity.
Qed.

Section MetaOrder.
Lemma meta_lt_spec a b : meta_lt a b = true <-> (m_qid a < m_qid b \/ (m_qid a = m_qid b /\ m_id a < m_id b)).
Proof. apply lex2_true. Qed.
Lemma meta_keq_spec a b : meta_key_eq a b = true <-> (m_qid a = m_qid b /\ m_id a = m_id b).
Proof. unfold meta_key_eq. rewrite andb_true_iff, !Z.eqb_eq. tauto. Qed.
End MetaOrder.

Ltac order_tac lt_spec keq_spec :=
  intros;
  repeat match goal with
         | H : _ = true |- _ => first [apply lt_spec in H | apply keq_spec in H]
         | H : _ = false |- _ => first [apply (proj1 (bool_false_iff _ _ (lt_spec _ _))) in H
                                       | apply (proj1 (bool_false_iff _ _ (keq_spec _ _))) in H]
         end;
  repeat match goal with
         | |- _ /\ _ => split
         | |- _ = true => first [apply lt_spec | apply keq_spec]
         | |- _ = false => first [apply (proj2 (bool_false_iff _ _ (lt_spec _ _))) | apply (proj2 (bool_false_iff _ _ (keq_spec _ _)))]
         end; try lia.

Lemma meta_lt_trans a b c : meta_lt a b = true -> meta_lt b c = true -> meta_lt a c = true.
Proof. order_tac meta_lt_spec meta_keq_spec. Qed.
Lemma meta_keq_lt a b : meta_key_eq a b = true -> meta_lt a b = false /\ meta_lt b a = false.
Proof. order_tac meta_lt_spec meta_keq_spec. Qed.
Lemma meta_total a b : meta_key_eq a b = false -> meta_lt a b = false -> meta_lt b a = true.
Proof. order_tac meta_lt_spec meta_keq_spec. Qed.
Lemma meta_keq_sym a b : meta_key_eq a b = meta_key_eq b a.
Proof. unfold meta_key_eq. rewrite (Z.eqb_sym (m_qid a)), (Z.eqb_sym (m_id a)). reflexivity. Qed.
Lemma meta_keq_lt_l a b c : meta_key_eq a b = true -> meta_lt b c = meta_lt a c.
Proof. intros H. apply meta_keq_spec in H. destruct H as [H1 H2]. unfold meta_lt. rewrite H1, H2. reflexivity. Qed.

Definition metas_sorted (l : list qmeta) : Prop := ssorted _ meta_lt l.

Lemma meta_set_sorted x l : metas_sorted l -> metas_sorted (meta_set x l).
Proof. apply sset_sorted; [exact meta_lt_trans | exact meta_total | exact meta_keq_sym | exact meta_keq_lt_l]. Qed.

Lemma rep_lt_spec a b : rep_lt a b = true <->
  (rp_qid a < rp_qid b \/ (rp_qid a = rp_qid b /\ (rp_reporter a < rp_reporter b \/ (rp_reporter a = rp_reporter b /\ rp_meta a < rp_meta b)))).
Proof. apply lex3_true. Qed.
Lemma rep_keq_spec a b : rep_key_eq a b = true <-> (rp_qid a = rp_qid b /\ rp_reporter a = rp_reporter b /\ rp_meta a = rp_meta b).
Proof. unfold rep_key_eq. rewrite !andb_true_iff, !Z.eqb_eq. tauto. Qed.
Lemma rep_lt_trans a b c : rep_lt a b = true -> rep_lt b c = true -> rep_lt a c = true.
Proof. order_tac rep_lt_spec rep_keq_spec. Qed.
Lemma rep_keq_lt a b : rep_key_eq a b = true -> rep_lt a b = false /\ rep_lt b a = false.
Proof. order_tac rep_lt_spec rep_keq_spec. Qed.
Lemma rep_total a b : rep_key_eq a b = false -> rep_lt a b = false -> rep_lt b a = true.
Proof. order_tac rep_lt_spec rep_keq_spec. Qed.
Lemma rep_keq_sym a b : rep_key_eq a b = rep_key_eq b a.
Proof. unfold rep_key_eq. rewrite (Z.eqb_sym (rp_qid a)), (Z.eqb_sym (rp_reporter a)), (Z.eqb_sym (rp_meta a)). reflexivity. Qed.
Lemma rep_keq_lt_l a b c : rep_key_eq a b = true -> rep_lt b c = rep_lt a c.
Proof. intros H. apply rep_keq_spec in H. destruct H as (H1 & H2 & H3). unfold rep_lt. rewrite H1, H2, H3. reflexivity. Qed.

Definition reports_sorted (l : list report) : Prop := ssorted _ rep_lt l.

Lemma rep_set_sorted x l : reports_sorted l -> reports_sorted (rep_set x l).
Proof. apply sset_sorted; [exact rep_lt_trans | exact rep_total | exact rep_keq_sym | exact rep_keq_lt_l]. Qed.

(* a reporter's later report in the same round replaces the earlier one: after Set the store holds
   exactly one report with that (query, reporter, round) key, and it is the new one *)
Theorem later_report_replaces x l y :
  reports_sorted l -> In y (rep_set x l) -> rep_key_eq x y = true -> y = x.
Proof.
  intros Hs Hy Hk. eapply sset_replaces; try eassumption.
  - exact rep_lt_trans. - exact rep_keq_lt. - exact rep_total. - exact rep_keq_sym. - exact rep_keq_lt_l.
Qed.

Lemma agg_lt_spec a b : agg_lt a b = true <-> (ag_qid a < ag_qid b \/ (ag_qid a = ag_qid b /\ ag_ts a < ag_ts b)).
Proof. apply lex2_true. Qed.

(* ====================================================================================== *)
(* admission                                                                                *)
(* ====================================================================================== *)
Lemma set_value_ok s h m rep pw inc vok : vok = true -> exists s', set_value s h m rep pw inc vok = inl s'.
Proof. intros ->. unfold set_value. cbn [negb]. eexists. reflexivity. Qed.

Lemma set_value_inl s h m rep pw inc vok s' : set_value s h m rep pw inc vok = inl s' -> vok = true.
Proof. unfold set_value. destruct vok; [reflexivity | cbn; discriminate]. Qed.

Theorem submit_accept_only_if s h q rep stake mn vok s' :
  submit_value s h q rep stake mn vok = inl s' -> accept_spec s h q stake mn = true.
Proof.
  unfold submit_value, accept_spec.
  destruct (qi_kind q) eqn:Ek; try discriminate;
  (destruct stake as [st|]; [|discriminate]);
  (destruct (st <? mn) eqn:Es; [discriminate|]); apply Z.ltb_ge in Es;
  (assert (Hmn : (mn <=? st) = true) by (apply Z.leb_le; lia)); rewrite Hmn; cbn [andb]; try reflexivity.
  - (* spot *) destruct (current_query (qi_id q) (o_queries s)) as [m|]; [|cbn; discriminate].
    cbn [negb]. destruct ((m_amount m =? 0) && negb (m_cycle m)) eqn:E1; [discriminate|].
    destruct (m_expiration m <? h) eqn:E2; [discriminate|]. intros _.
    apply Z.ltb_ge in E2. apply andb_true_intro. split; [|apply Z.leb_le; lia].
    destruct (m_amount m =? 0); destruct (m_cycle m); cbn in *; congruence.
  - (* a query type without spec is rejected by SetValue *)
    destruct (current_query (qi_id q) (o_queries s)) as [m|]; [|cbn; discriminate].
    cbn [negb]. destruct ((m_amount m =? 0) && negb (m_cycle m)); [discriminate|].
    destruct (m_expiration m <? h); discriminate.
Qed.

(* bridge-withdrawal queries (and undecodable query data) are never reportable *)
Theorem withdrawal_never_reportable s h q rep stake mn vok :
  qi_kind q = KWithdraw -> submit_value s h q rep stake mn vok = inr RWithdrawal.
Proof. intros H. unfold submit_value. rewrite H. reflexivity. Qed.

Definition metas_wf (l : list qmeta) : Prop := Forall (fun m => 0 <= m_amount m /\ 0 <= m_window m) l.

Lemma current_query_in qid l m : current_query qid l = Some m -> In m l /\ m_qid m = qid.
Proof.
  unfold current_query.
  assert (G : forall l acc, fold_left (fun acc y => if m_qid y =? qid then Some y else acc) l acc = Some m ->
              (In m l /\ m_qid m = qid) \/ acc = Some m).
  { induction l0 as [|y t IH]; intros acc H; cbn [fold_left] in H; [right; exact H|].
    destruct (IH _ H) as [[H1 H2]|H1]; [left; split; [right|]; assumption|].
    destruct (m_qid y =? qid) eqn:E; [|right; exact H1]. injection H1 as <-. left. split; [left; reflexivity | apply Z.eqb_eq; exact E]. }
  intros H. destruct (G l None H) as [H1|H1]; [exact H1 | discriminate].
Qed.

(* conversely: what the specification admits is accepted (for a well-formed value of a spec'd type) *)
Theorem submit_accept_if s h q rep stake mn :
  metas_wf (o_queries s) -> qi_kind q <> KNoSpec ->
  accept_spec s h q stake mn = true -> exists s', submit_value s h q rep stake mn true = inl s'.
Proof.
  intros Hwf Hk. unfold accept_spec, submit_value.
  destruct (qi_kind q) eqn:Ek; try discriminate; try congruence;
  (destruct stake as [st|]; [|discriminate]); intros H; apply andb_prop in H; destruct H as [H1 H2];
  apply Z.leb_le in H1; (assert (Hs : (st <? mn) = false) by (apply Z.ltb_ge; lia)); rewrite Hs.
  - destruct (current_query (qi_id q) (o_queries s)) as [m|]; [|discriminate].
    apply andb_prop in H2. destruct H2 as [H2 H3]. apply Z.leb_le in H3. cbn [negb].
    assert (E1 : (m_amount m =? 0) && negb (m_cycle m) = false).
    { destruct (m_amount m =? 0); destruct (m_cycle m); cbn in *; congruence. }
    rewrite E1. assert (E2 : (m_expiration m <? h) = false) by (apply Z.ltb_ge; lia). rewrite E2.
    apply set_value_ok. reflexivity.
  - (* deposit *)
    assert (D : forall s0 m, 0 <= m_amount m -> 0 <= m_window m -> exists s', deposit_reveal s0 h m rep (Z.quot st 1000000) true = inl s').
    { intros s0 m Ha Hw. unfold deposit_reveal.
      destruct ((m_amount m =? 0) && (m_expiration m <=? h)) eqn:E1.
      - cbn [m_expiration]. assert ((h + m_window m <? h) = false) as -> by (apply Z.ltb_ge; lia). apply set_value_ok. reflexivity.
      - destruct ((0 <? m_amount m) && (m_expiration m <=? h)) eqn:E2.
        + unfold set_amount_exp. cbn [m_expiration]. assert ((h + m_window m <? h) = false) as -> by (apply Z.ltb_ge; lia). apply set_value_ok. reflexivity.
        + assert ((m_expiration m <? h) = false) as ->; [|apply set_value_ok; reflexivity].
          apply Z.ltb_ge. destruct (m_expiration m <=? h) eqn:E3; [|apply Z.leb_gt in E3; lia].
          rewrite andb_true_r in E1, E2. apply Z.eqb_neq in E1. apply Z.ltb_ge in E2. lia. }
    destruct (current_query (qi_id q) (o_queries s)) as [m|] eqn:Ec.
    + destruct (current_query_in _ _ _ Ec) as [Hin _]. unfold metas_wf in Hwf. rewrite Forall_forall in Hwf.
      destruct (Hwf _ Hin). apply D; assumption.
    + cbn [negb]. apply D; cbn; lia.
Qed.

(* ====================================================================================== *)
(* the end blocker: every closing round aggregates exactly once and disappears             *)
(* ====================================================================================== *)
Definition closing (h : Z) (m : qmeta) : bool := m_has_reports m && (m_expiration m <=? h).

Definition agg_step (h ts : Z) (st : ostate) (m : qmeta) : ostate :=
  if m_has_reports m && (m_expiration m <=? h) then aggregate_round st h ts m else st.

Lemma set_aggregated_report_fold s h ts : set_aggregated_report s h ts = fold_left (agg_step h ts) (o_queries s) s.
Proof. reflexivity. Qed.

(* the fold leaves reports, cycle list, sequencers untouched *)
Lemma agg_fold_frame h ts : forall l st,
  let r := fold_left (agg_step h ts) l st in
  o_reports r = o_reports st /\ o_cycle r = o_cycle st /\ o_seq r = o_seq st /\ o_next_meta r = o_next_meta st.
Proof.
  induction l as [|m t IH]; intros st; cbn [fold_left]; [auto|].
  destruct (IH (agg_step h ts st m)) as (H1 & H2 & H3 & H4). cbv zeta. rewrite H1, H2, H3, H4.
  unfold agg_step. destruct (m_has_reports m && (m_expiration m <=? h)); cbn; auto.
Qed.

Lemma filter_filter_and {A} (f g : A -> bool) l : filter f (filter g l) = filter (fun x => g x && f x) l.
Proof.
  induction l as [|x t IH]; cbn [filter]; [reflexivity|].
  destruct (g x); cbn [andb filter]; [destruct (f x); rewrite IH; reflexivity | exact IH].
Qed.

(* the metas that remain are exactly those whose key is not that of a closing round in [l] *)
Lemma agg_fold_queries h ts : forall l st,
  o_queries (fold_left (agg_step h ts) l st) =
  filter (fun y => negb (existsb (fun m => closing h m && meta_key_eq m y) l)) (o_queries st).
Proof.
  induction l as [|m t IH]; intros st; cbn [fold_left existsb].
  - cbn. induction (o_queries st) as [|y u IHu]; cbn; [reflexivity | f_equal; exact IHu].
  - rewrite IH. unfold agg_step, closing. destruct (m_has_reports m && (m_expiration m <=? h)) eqn:E; cbn [andb orb].
    + cbn [aggregate_round o_queries]. unfold meta_remove. rewrite filter_filter_and.
      apply filter_ext. intros y. unfold meta_key_eq. rewrite negb_orb.
      rewrite (Z.eqb_sym (m_qid y)), (Z.eqb_sym (m_id y)). reflexivity.
    + reflexivity.
Qed.

(* ====================================================================================== *)
(* more on sorted stores: filters and key-preserving maps keep them sorted                  *)
(* ====================================================================================== *)
Lemma ssorted_filter {A} (lt : A -> A -> bool) (f : A -> bool) l : ssorted A lt l -> ssorted A lt (filter f l).
Proof.
  unfold ssorted. induction 1 as [|z t Hs IH Hz]; cbn [filter]; [constructor|].
  destruct (f z); [|exact IH]. constructor; [exact IH|].
  rewrite Forall_forall in *. intros a Ha. apply filter_In in Ha. apply Hz. tauto.
Qed.

Lemma ssorted_map_key {A} (lt : A -> A -> bool) (g : A -> A) l :
  (forall a b, lt (g a) (g b) = lt a b) -> ssorted A lt l -> ssorted A lt (map g l).
Proof.
  intros Hg. unfold ssorted. induction 1 as [|z t Hs IH Hz]; cbn [map]; constructor; [exact IH|].
  rewrite Forall_forall in *. intros a Ha. apply in_map_iff in Ha. destruct Ha as (b & <- & Hb). rewrite Hg. apply Hz. exact Hb.
Qed.

Lemma meta_keq_lt_r a b c : meta_key_eq a b = true -> meta_lt c b = meta_lt c a.
Proof. intros H. apply meta_keq_spec in H. destruct H as [H1 H2]. unfold meta_lt. rewrite H1, H2. reflexivity. Qed.

Lemma metas_key_unique l a b : metas_sorted l -> In a l -> In b l -> meta_key_eq a b = true -> a = b.
Proof. apply sorted_key_unique. exact meta_keq_lt. Qed.

Lemma meta_set_in x l y : In y (meta_set x l) -> y = x \/ In y l.
Proof. apply sset_in. Qed.
Lemma meta_set_keeps x l y : In y l -> meta_key_eq x y = false -> In y (meta_set x l).
Proof. apply sset_keeps. Qed.
Lemma meta_set_has x l : In x (meta_set x l).
Proof. apply sset_has. Qed.

(* ====================================================================================== *)
(* accepted reports: the new Reports store is a Set of one report of this reporter          *)
(* ====================================================================================== *)
Definition frame_eq (s s' : ostate) : Prop :=
  o_seq s' = o_seq s /\ o_cycle s' = o_cycle s /\ o_aggs s' = o_aggs s /\ o_nonces s' = o_nonces s.

Lemma set_value_shape s h m rep pw inc vok s' :
  set_value s h m rep pw inc vok = inl s' ->
  o_reports s' = rep_set {| rp_qid := m_qid m; rp_reporter := rep; rp_meta := m_id m; rp_power := pw; rp_cycle := inc; rp_height := h |} (o_reports s)
  /\ frame_eq s s'.
Proof.
  unfold set_value. destruct vok; cbn [negb]; [|discriminate]. intros E. injection E as <-. cbn. unfold frame_eq. cbn. auto.
Qed.

Lemma deposit_reveal_shape s h m rep pw vok s' :
  deposit_reveal s h m rep pw vok = inl s' ->
  exists meta inc,
    o_reports s' = rep_set {| rp_qid := m_qid m; rp_reporter := rep; rp_meta := meta; rp_power := pw; rp_cycle := inc; rp_height := h |} (o_reports s)
    /\ frame_eq s s'.
Proof.
  unfold deposit_reveal.
  destruct ((m_amount m =? 0) && (m_expiration m <=? h)).
  - cbn [m_expiration]. destruct (h + m_window m <? h); [discriminate|]. intros E.
    apply set_value_shape in E. cbn in E. destruct E as [E1 E2]. do 2 eexists. split; [exact E1|]. exact E2.
  - destruct ((0 <? m_amount m) && (m_expiration m <=? h)).
    + unfold set_amount_exp. cbn [m_expiration]. destruct (h + m_window m <? h); [discriminate|]. intros E.
      apply set_value_shape in E. cbn in E. destruct E as [E1 E2]. do 2 eexists. split; [exact E1|]. exact E2.
    + destruct (m_expiration m <? h); [discriminate|]. intros E.
      apply set_value_shape in E. destruct E as [E1 E2]. do 2 eexists. split; [exact E1|]. exact E2.
Qed.

Lemma submit_value_shape s h q rep stake mn vok s' :
  submit_value s h q rep stake mn vok = inl s' ->
  exists st meta inc, stake = Some st /\
    o_reports s' = rep_set {| rp_qid := qi_id q; rp_reporter := rep; rp_meta := meta; rp_power := Z.quot st 1000000; rp_cycle := inc; rp_height := h |} (o_reports s)
    /\ frame_eq s s'.
Proof.
  unfold submit_value.
  destruct (qi_kind q) eqn:Ek; try discriminate;
  (destruct stake as [st|]; [|discriminate]); (destruct (st <? mn); [discriminate|]);
  (destruct (current_query (qi_id q) (o_queries s)) as [m|] eqn:Ec;
   [destruct (current_query_in _ _ _ Ec) as [_ Hq]|]); cbn [negb]; try discriminate.
  - destruct ((m_amount m =? 0) && negb (m_cycle m)); [discriminate|]. destruct (m_expiration m <? h); [discriminate|].
    intros E. apply set_value_shape in E. rewrite Hq in E. destruct E as [E1 E2]. exists st. do 2 eexists. split; [reflexivity|]. split; [exact E1 | exact E2].
  - intros E. apply deposit_reveal_shape in E. rewrite Hq in E. destruct E as (meta & inc & E1 & E2). exists st, meta, inc. auto.
  - intros E. apply deposit_reveal_shape in E. cbn [m_qid o_reports] in E. destruct E as (meta & inc & E1 & E2).
    exists st, meta, inc. split; [reflexivity|]. split; [exact E1|]. unfold frame_eq in *. cbn in E2. exact E2.
  - destruct ((m_amount m =? 0) && negb (m_cycle m)); [discriminate|]. destruct (m_expiration m <? h); discriminate.
Qed.

(* the property clause: a reporter's later report in the same round replaces the earlier one *)
Theorem submit_replaces s h q rep stake mn vok s' :
  reports_sorted (o_reports s) -> submit_value s h q rep stake mn vok = inl s' ->
  exists r, rp_qid r = qi_id q /\ rp_reporter r = rep /\ rp_height r = h /\
    reports_sorted (o_reports s') /\ In r (o_reports s') /\
    (forall y, In y (o_reports s') -> rep_key_eq r y = true -> y = r) /\
    (forall y, In y (o_reports s) -> rep_key_eq r y = false -> In y (o_reports s')) /\
    (forall y, In y (o_reports s') -> y = r \/ In y (o_reports s)).
Proof.
  intros Hs E. apply submit_value_shape in E. destruct E as (st & meta & inc & _ & E1 & _).
  exists {| rp_qid := qi_id q; rp_reporter := rep; rp_meta := meta; rp_power := Z.quot st 1000000; rp_cycle := inc; rp_height := h |}.
  rewrite E1. cbn [rp_qid rp_reporter rp_height]. split; [reflexivity|]. split; [reflexivity|]. split; [reflexivity|].
  split; [|split; [|split; [|split]]].
  - apply rep_set_sorted. exact Hs.
  - apply sset_has.
  - intros y Hy Hk. eapply later_report_replaces; eassumption.
  - intros y Hy Hk. apply sset_keeps; assumption.
  - intros y Hy. apply sset_in in Hy. exact Hy.
Qed.

(* ====================================================================================== *)
(* the end blocker creates exactly one aggregate per closing round                          *)
(* ====================================================================================== *)
Definition mk_agg (s : ostate) (h ts : Z) (m : qmeta) : aggr :=
  let rs := reports_of (m_id m) (o_reports s) in
  {| ag_qid := m_qid m; ag_ts := ts; ag_height := h; ag_nonce := nonce_get (m_qid m) (o_nonces s) + 1; ag_meta := m_id m;
     ag_reporters := map rp_reporter rs; ag_power := fold_left (fun acc r => acc + rp_power r) rs 0;
     ag_flagged := false; ag_agg_reporter := -1; ag_micro_height := -1 |}.

Lemma aggregate_round_aggs s h ts m : o_aggs (aggregate_round s h ts m) = agg_set (mk_agg s h ts m) (o_aggs s).
Proof. reflexivity. Qed.

Lemma nonce_get_set_other q q' v l : q' <> q -> nonce_get q' (nonce_set q v l) = nonce_get q' l.
Proof.
  intros Hn. induction l as [|x t IH]; cbn [nonce_set nonce_get fst snd].
  - destruct (q =? q') eqn:E; [apply Z.eqb_eq in E; congruence | reflexivity].
  - destruct (fst x =? q) eqn:E; cbn [nonce_get fst snd].
    + apply Z.eqb_eq in E. destruct (q =? q') eqn:E1; [apply Z.eqb_eq in E1; congruence|].
      destruct (fst x =? q') eqn:E2; [apply Z.eqb_eq in E2; congruence | reflexivity].
    + destruct (fst x =? q'); [reflexivity | exact IH].
Qed.

Lemma nonce_get_set_same q v l : nonce_get q (nonce_set q v l) = v.
Proof.
  induction l as [|x t IH]; cbn [nonce_set nonce_get fst snd]; [rewrite Z.eqb_refl; reflexivity|].
  destruct (fst x =? q) eqn:E; cbn [nonce_get fst snd]; [rewrite Z.eqb_refl; reflexivity | rewrite E; exact IH].
Qed.

Lemma agg_keq_lt a b : agg_key_eq a b = true -> agg_lt a b = false /\ agg_lt b a = false.
Proof.
  unfold agg_key_eq. intros H. apply andb_prop in H. destruct H as [H1 H2]. apply Z.eqb_eq in H1, H2.
  split; apply (proj2 (bool_false_iff _ _ (agg_lt_spec _ _))); lia.
Qed.

Definition closing_distinct (h : Z) (l : list qmeta) : Prop := NoDup (map m_qid (filter (closing h) l)).

(* no stored aggregate of a closing round's query carries the block's timestamp yet (block time
   strictly increases and aggregates are stamped with the time of the block that made them) *)
Definition fresh_ts (h ts : Z) (l : list qmeta) (aggs : list aggr) : Prop :=
  forall m a, In m (filter (closing h) l) -> In a aggs -> ag_qid a = m_qid m -> ag_ts a <> ts.

Lemma agg_fold_aggs h ts : forall l st,
  closing_distinct h l -> fresh_ts h ts l (o_aggs st) ->
  Permutation (o_aggs (fold_left (agg_step h ts) l st)) (map (mk_agg st h ts) (filter (closing h) l) ++ o_aggs st).
Proof.
  induction l as [|m t IH]; intros st Hd Hf; cbn [fold_left filter]; [reflexivity|].
  unfold agg_step at 2. unfold closing_distinct in Hd. cbn [filter] in Hd. unfold fresh_ts in Hf. cbn [filter] in Hf.
  fold (closing h m) in *. destruct (closing h m) eqn:Ec.
  - cbn [map] in Hd. apply NoDup_cons_iff in Hd. destruct Hd as [Hnin Hd].
    rewrite IH.
    + cbn [map app]. rewrite aggregate_round_aggs.
      assert (Hx : map (mk_agg (aggregate_round st h ts m) h ts) (filter (closing h) t) = map (mk_agg st h ts) (filter (closing h) t)).
      { apply map_ext_in. intros m' Hm'. unfold mk_agg. cbn [aggregate_round o_reports o_nonces].
        rewrite nonce_get_set_other; [reflexivity|]. intros Heq. apply Hnin. rewrite <- Heq. apply in_map. exact Hm'. }
      rewrite Hx. etransitivity; [|apply Permutation_sym, Permutation_middle]. apply Permutation_app_head.
      apply sset_fresh_perm.
      intros y Hy. unfold agg_key_eq, mk_agg. cbn [ag_qid ag_ts].
      destruct (m_qid m =? ag_qid y) eqn:E1; [|reflexivity]. apply Z.eqb_eq in E1. cbn [andb].
      apply Z.eqb_neq. intros E2. eapply (Hf m y); [left; reflexivity | exact Hy | congruence | congruence].
    + exact Hd.
    + intros m' a Hm' Ha Hq. rewrite aggregate_round_aggs in Ha. apply sset_in in Ha. destruct Ha as [->|Ha].
      * exfalso. apply Hnin. cbn [mk_agg ag_qid] in Hq. rewrite Hq. apply in_map. exact Hm'.
      * eapply Hf; [right; exact Hm' | exact Ha | exact Hq].
  - apply IH; [exact Hd | exact Hf].
Qed.

(* the end blocker's aggregation pass, as a whole *)
Theorem set_aggregated_report_correct s h ts :
  let s' := set_aggregated_report s h ts in
  closing_distinct h (o_queries s) -> fresh_ts h ts (o_queries s) (o_aggs s) ->
  (* every closing round disappears, every other round stays as it is *)
  o_queries s' = filter (fun y => negb (existsb (fun m => closing h m && meta_key_eq m y) (o_queries s))) (o_queries s) /\
  (* exactly one new aggregate per closing round: that round's reports, their summed power, the next sequence number *)
  Permutation (o_aggs s') (map (mk_agg s h ts) (filter (closing h) (o_queries s)) ++ o_aggs s) /\
  o_reports s' = o_reports s /\ o_cycle s' = o_cycle s /\ o_seq s' = o_seq s.
Proof.
  intros s' Hd Hf. unfold s'. rewrite set_aggregated_report_fold.
  split; [apply agg_fold_queries|]. split; [apply agg_fold_aggs; assumption|].
  destruct (agg_fold_frame h ts (o_queries s) s) as (H1 & H2 & H3 & _). auto.
Qed.

(* with sorted (key-unique) metas the filter is simply "not closing" *)
Lemma closing_filter_simpl h l : metas_sorted l ->
  filter (fun y => negb (existsb (fun m => closing h m && meta_key_eq m y) l)) l = filter (fun y => negb (closing h y)) l.
Proof.
  intros Hs. apply filter_ext_in. intros y Hy. f_equal.
  destruct (closing h y) eqn:Ec.
  - apply existsb_exists. exists y. split; [exact Hy|]. rewrite Ec. cbn. apply meta_keq_spec. auto.
  - destruct (existsb (fun m => closing h m && meta_key_eq m y) l) eqn:Ee; [|reflexivity].
    apply existsb_exists in Ee. destruct Ee as (m & Hm & E). apply andb_prop in E. destruct E as [E1 E2].
    assert (m = y) by (eapply metas_key_unique; eassumption). subst m. congruence.
Qed.

Lemma set_aggregated_report_sorted s h ts : metas_sorted (o_queries s) -> metas_sorted (o_queries (set_aggregated_report s h ts)).
Proof. intros Hs. rewrite set_aggregated_report_fold, agg_fold_queries. apply ssorted_filter. exact Hs. Qed.

(* ====================================================================================== *)
(* rotation of the cycle list                                                               *)
(* ====================================================================================== *)
Definition open_window_p (s : ostate) (h : Z) : bool :=
  match nth_z (o_cycle s) (o_seq s) with
  | Some cur => match current_query cur (o_queries s) with Some m => h <? m_expiration m | None => false end
  | None => false
  end.

Definition cycle_ok (s : ostate) : Prop := 0 <= o_seq s < Z.of_nat (List.length (o_cycle s)).

Lemma do_rotate_seq s h k s' : cycle_ok s -> do_rotate s h k = Some s' ->
  o_seq s' = (o_seq s + 1) mod Z.of_nat (List.length (o_cycle s)) /\ o_cycle s' = o_cycle s /\
  o_reports s' = o_reports s /\ o_aggs s' = o_aggs s.
Proof.
  unfold cycle_ok, do_rotate. intros Hc. set (len := Z.of_nat (List.length (o_cycle s))) in *.
  set (n := if len - 1 <=? o_seq s then 0 else o_seq s + 1).
  assert (Hn : n = (o_seq s + 1) mod len).
  { unfold n. destruct (len - 1 <=? o_seq s) eqn:E.
    - apply Z.leb_le in E. assert (o_seq s + 1 = len) as -> by lia. rewrite Z.mod_same; lia.
    - apply Z.leb_gt in E. rewrite Z.mod_small; lia. }
  destruct (nth_z (o_cycle s) n) as [qid|]; [|discriminate]. cbn [o_queries with_queries].
  match goal with |- context [current_query qid ?l] => destruct (current_query qid l) as [m|] end.
  - destruct (negb (m_amount m =? 0)); intros E; injection E as <-; cbn; auto.
  - match goal with |- context [initialize_query ?a ?b] => destruct (initialize_query a b) as [[m s2]|] eqn:Ei end; [|discriminate].
    unfold initialize_query in Ei. destruct (spec_window _ _); [|discriminate]. injection Ei as <- <-.
    intros E; injection E as <-; cbn; auto.
Qed.

(* the cycle list moves only when the current query has no open window, and then to the next
   entry in list order, wrapping around *)
Theorem rotate_spec s h k s' : cycle_ok s -> rotate s h k = Some s' ->
  s' = s \/ (open_window_p s h = false /\ o_seq s' = (o_seq s + 1) mod Z.of_nat (List.length (o_cycle s)) /\ o_cycle s' = o_cycle s).
Proof.
  intros Hc. unfold rotate, open_window_p. destruct (nth_z (o_cycle s) (o_seq s)) as [cur|]; [|discriminate].
  destruct (current_query cur (o_queries s)) as [m|].
  - destruct (h <? m_expiration m); [intros E; injection E as <-; left; reflexivity|].
    intros E. right. destruct (do_rotate_seq _ _ _ _ Hc E) as (H1 & H2 & _). auto.
  - intros E. right. destruct (do_rotate_seq _ _ _ _ Hc E) as (H1 & H2 & _). auto.
Qed.

Lemma rotate_frame s h k s' : cycle_ok s -> rotate s h k = Some s' ->
  o_cycle s' = o_cycle s /\ o_reports s' = o_reports s /\ o_aggs s' = o_aggs s /\ cycle_ok s'.
Proof.
  intros Hc. unfold rotate. destruct (nth_z (o_cycle s) (o_seq s)) as [cur|]; [|discriminate].
  assert (D : forall s', do_rotate s h k = Some s' -> o_cycle s' = o_cycle s /\ o_reports s' = o_reports s /\ o_aggs s' = o_aggs s /\ cycle_ok s').
  { intros s0 E. destruct (do_rotate_seq _ _ _ _ Hc E) as (H1 & H2 & H3 & H4). repeat split; try assumption.
    - rewrite H1. apply Z.mod_pos_bound. unfold cycle_ok in Hc. lia.
    - rewrite H1, H2. apply Z.mod_pos_bound. unfold cycle_ok in Hc. lia. }
  destruct (current_query cur (o_queries s)) as [m|]; [destruct (h <? m_expiration m)|]; try apply D.
  intros E; injection E as <-. auto.
Qed.

(* ====================================================================================== *)
(* a tip on a round that received no report stays with the query                             *)
(* ====================================================================================== *)
Definition tip_kept (m : qmeta) (l : list qmeta) : Prop :=
  exists m', In m' l /\ m_qid m' = m_qid m /\ m_id m' = m_id m /\ m_amount m' = m_amount m /\ m_has_reports m' = m_has_reports m.

Lemma tip_kept_refl m l : In m l -> tip_kept m l.
Proof. intros H. exists m. auto. Qed.

Lemma current_query_none qid l : current_query qid l = None -> forall y, In y l -> m_qid y <> qid.
Proof.
  unfold current_query.
  assert (G : forall l acc, fold_left (fun acc y => if m_qid y =? qid then Some y else acc) l acc = None ->
              acc = None /\ forall y, In y l -> m_qid y <> qid).
  { induction l0 as [|y t IH]; intros acc H; cbn [fold_left] in H; [split; [exact H | intros y []]|].
    destruct (IH _ H) as [H1 H2]. destruct (m_qid y =? qid) eqn:E; [discriminate|]. split; [exact H1|].
    intros z [<-|Hz]; [apply Z.eqb_neq; exact E | apply H2; exact Hz]. }
  intros H. apply (G l None H).
Qed.

Lemma do_rotate_keeps_tip s h k s' m : metas_sorted (o_queries s) -> do_rotate s h k = Some s' ->
  In m (o_queries s) -> m_amount m <> 0 -> tip_kept m (o_queries s').
Proof.
  intros Hs. unfold do_rotate.
  match goal with |- context [nth_z (o_cycle s) ?n] => destruct (nth_z (o_cycle s) n) as [qid|] end; [|discriminate].
  cbn [o_queries with_queries]. set (l1 := clear_old qid h (o_queries s)).
  intros E Hin Ha.
  assert (Hin1 : In m l1).
  { unfold l1, clear_old. apply filter_In. split; [exact Hin|]. apply Z.eqb_neq in Ha. rewrite Ha, andb_false_r. reflexivity. }
  assert (Hs1 : metas_sorted l1) by (apply ssorted_filter; exact Hs).
  destruct (current_query qid l1) as [m0|] eqn:Ec.
  - destruct (negb (m_amount m0 =? 0)); [|injection E as <-; apply tip_kept_refl; exact Hin1].
    injection E as <-. cbn [o_queries with_queries].
    set (x := set_amount_exp m0 (m_amount m0) (if m_expiration m0 <=? h then h + m_window m0 else m_expiration m0) true).
    destruct (meta_key_eq x m) eqn:Ek.
    + destruct (current_query_in _ _ _ Ec) as [Hm0 _].
      assert (m0 = m) by (eapply metas_key_unique; [exact Hs1 | exact Hm0 | exact Hin1 | exact Ek]). subst m0.
      exists x. split; [apply meta_set_has|]. unfold x. cbn. auto.
    + exists m. split; [apply meta_set_keeps; assumption | auto].
  - destruct (initialize_query _ _) as [[m1 s2]|] eqn:Ei; [|discriminate].
    unfold initialize_query in Ei. destruct (spec_window _ _); [|discriminate]. cbn [qi_id] in Ei. injection Ei as <- <-.
    injection E as <-. cbn [o_queries with_queries m_window]. exists m. split; [|auto].
    apply meta_set_keeps; [exact Hin1|]. unfold meta_key_eq, set_amount_exp. cbn [m_qid m_id].
    assert (m_qid m <> qid) by (eapply current_query_none; eassumption).
    destruct (qid =? m_qid m) eqn:E1; [apply Z.eqb_eq in E1; congruence | reflexivity].
Qed.

Theorem end_block_keeps_unreported_tip s h ts k s' m :
  metas_sorted (o_queries s) -> end_block s h ts k = Some s' ->
  In m (o_queries s) -> m_has_reports m = false -> m_amount m <> 0 -> tip_kept m (o_queries s').
Proof.
  intros Hs E Hin Hr Ha. unfold end_block in E.
  assert (Hin1 : In m (o_queries (set_aggregated_report s h ts))).
  { rewrite set_aggregated_report_fold, agg_fold_queries, closing_filter_simpl by exact Hs.
    apply filter_In. split; [exact Hin|]. unfold closing. rewrite Hr. reflexivity. }
  pose proof (set_aggregated_report_sorted s h ts Hs) as Hs1.
  unfold rotate in E. destruct (nth_z _ _) as [cur|]; [|discriminate].
  destruct (current_query cur _) as [m0|]; [destruct (h <? m_expiration m0)|].
  - injection E as <-. apply tip_kept_refl. exact Hin1.
  - eapply do_rotate_keeps_tip; eassumption.
  - eapply do_rotate_keeps_tip; eassumption.
Qed.
