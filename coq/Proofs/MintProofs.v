(* C03 — proofs about Model/Mint.v *)
From Coq Require Import ZArith List Bool Lia String.
From Verif Require Import Base.Harness Model.Mint.
Import ListNotations.
Open Scope Z_scope.

(* ---- int64 / duration arithmetic --------------------------------------------------- *)
Lemma wrap_s64_id x : - two63 <= x < two63 -> wrap_s64 x = x.
Proof. unfold wrap_s64, two63, two64. intros H. rewrite Z.mod_small; lia. Qed.

Lemma sat_s64_id x : - two63 <= x < two63 -> sat_s64 x = x.
Proof.
  unfold sat_s64. intros H.
  destruct (Z.ltb_spec x (- two63)); [lia|]. destruct (Z.ltb_spec (two63 - 1) x); [lia|]. reflexivity.
Qed.

Lemma sat_s64_bounds x : - two63 <= sat_s64 x < two63.
Proof.
  unfold sat_s64.
  destruct (Z.ltb_spec x (- two63)); [unfold two63; lia|].
  destruct (Z.ltb_spec (two63 - 1) x); unfold two63 in *; lia.
Qed.

Lemma sat_s64_mono x y : x <= y -> sat_s64 x <= sat_s64 y.
Proof.
  unfold sat_s64. intros H.
  destruct (Z.ltb_spec x (- two63)); destruct (Z.ltb_spec y (- two63));
  destruct (Z.ltb_spec (two63 - 1) x); destruct (Z.ltb_spec (two63 - 1) y); unfold two63 in *; lia.
Qed.

Lemma in_range_spec ms : in_range ms = true <-> 0 <= ms /\ daily_mint_rate * ms < two63.
Proof.
  unfold in_range. rewrite andb_true_iff, Z.leb_le, Z.ltb_lt. reflexivity.
Qed.

Lemma provision_spec_nonneg ms : 0 <= ms -> 0 <= provision_spec ms.
Proof. intros H. unfold provision_spec, daily_mint_rate, ms_in_day. apply Z.div_pos; lia. Qed.

(* below the int64 range the Go expression is the exact floor *)
Lemma provision_raw_exact ms :
  0 <= ms -> daily_mint_rate * ms < two63 -> provision_raw ms = provision_spec ms.
Proof.
  intros H0 H1. unfold provision_raw, provision_spec.
  rewrite wrap_s64_id by (unfold daily_mint_rate, two63 in *; lia).
  apply Z.quot_div_nonneg; unfold daily_mint_rate, ms_in_day in *; lia.
Qed.

Lemma elapsed_ms_exact cur prev :
  prev <= cur -> cur - prev < two63 -> elapsed_ms cur prev = (cur - prev) / ns_in_ms.
Proof.
  intros H0 H1. unfold elapsed_ms. rewrite sat_s64_id by (unfold two63 in *; lia).
  apply Z.quot_div_nonneg; unfold ns_in_ms; lia.
Qed.

Lemma elapsed_ms_nonneg cur prev : prev <= cur -> 0 <= elapsed_ms cur prev.
Proof.
  intros H. unfold elapsed_ms, ns_in_ms.
  assert (0 <= sat_s64 (cur - prev)).
  { replace 0 with (sat_s64 0) by reflexivity. apply sat_s64_mono. lia. }
  apply Z.quot_pos; lia.
Qed.

Lemma elapsed_ms_self t : elapsed_ms t t = 0.
Proof. unfold elapsed_ms. rewrite Z.sub_diag. reflexivity. Qed.

(* a gap in range is not saturated *)
Lemma in_range_unsat cur prev :
  prev <= cur -> in_range (elapsed_ms cur prev) = true -> cur - prev < two63.
Proof.
  intros H R. apply in_range_spec in R. destruct R as [_ R].
  destruct (Z.lt_ge_cases (cur - prev) two63) as [L|G]; [exact L|exfalso].
  unfold elapsed_ms, sat_s64 in R.
  destruct (Z.ltb_spec (cur - prev) (- two63)); [unfold two63 in *; lia|].
  destruct (Z.ltb_spec (two63 - 1) (cur - prev)); [|lia].
  vm_compute in R. discriminate.
Qed.

Theorem calc_block_provision_exact cur prev :
  prev <= cur -> in_range (elapsed_ms cur prev) = true ->
  calc_block_provision cur prev = PCoin (provision_spec (elapsed_ms cur prev)).
Proof.
  intros H R. pose proof R as R'. apply in_range_spec in R'. destruct R' as [R0 R1].
  unfold calc_block_provision.
  destruct (cur <? prev) eqn:E; [apply Z.ltb_lt in E; lia|].
  rewrite (provision_raw_exact _ R0 R1).
  pose proof (provision_spec_nonneg _ R0) as P.
  destruct (provision_spec (elapsed_ms cur prev) <? 0) eqn:E2; [apply Z.ltb_lt in E2; lia|]. reflexivity.
Qed.

(* in the units of the property text: nanosecond block times, loya *)
Theorem provision_exact_ns cur prev :
  prev <= cur -> cur - prev < 2 ^ 63 ->
  146940000 * ((cur - prev) / 1000000) < 2 ^ 63 ->
  calc_block_provision cur prev = PCoin (146940000 * ((cur - prev) / 1000000) / 86400000).
Proof.
  intros H0 H1 H2. change (2 ^ 63) with two63 in *.
  pose proof (elapsed_ms_exact cur prev H0 H1) as E. unfold ns_in_ms in E.
  rewrite calc_block_provision_exact; [rewrite E; reflexivity | exact H0 |].
  apply in_range_spec. rewrite E. split; [apply Z.div_pos; lia | exact H2].
Qed.

Theorem calc_error_iff cur prev : calc_block_provision cur prev = PErr <-> cur < prev.
Proof.
  unfold calc_block_provision. destruct (cur <? prev) eqn:E.
  - apply Z.ltb_lt in E. tauto.
  - apply Z.ltb_ge in E. destruct (_ <? 0); split; intros; try discriminate; lia.
Qed.

(* ---- the 3/4 : 1/4 split ------------------------------------------------------------------ *)
Lemma split_exact p : 0 <= p -> split p = (p - p / 4, p / 4).
Proof. intros H. unfold split. rewrite Z.quot_div_nonneg by lia. reflexivity. Qed.

Theorem split_props p :
  0 <= p ->
  let t := fst (split p) in let q := snd (split p) in
  q = p / 4 /\ t = p - p / 4 /\ t + q = p /\ 0 <= q <= t /\ 4 * q <= p < 4 * q + 4 /\ 3 * p <= 4 * t <= 3 * p + 3.
Proof.
  intros H. rewrite (split_exact p H). cbn [fst snd].
  pose proof (Z.div_mod p 4 ltac:(lia)). pose proof (Z.mod_pos_bound p 4 ltac:(lia)). lia.
Qed.

Lemma send_inflationary_fixed p :
  0 <= p -> send_inflationary true p = if p =? 0 then SNone else SOk (p - p / 4) (p / 4).
Proof.
  intros H. unfold send_inflationary. rewrite (split_exact p H). cbn [fst snd].
  destruct (p =? 0); [reflexivity|]. destruct ((p / 4 =? 0) || (p - p / 4 =? 0)); reflexivity.
Qed.

Lemma send_inflationary_found p :
  0 <= p ->
  send_inflationary false p =
  if p =? 0 then SNone else if p <=? 3 then SErr else SOk (p - p / 4) (p / 4).
Proof.
  intros H. unfold send_inflationary. rewrite (split_exact p H). cbn [fst snd].
  destruct (p =? 0) eqn:E0; [reflexivity|]. apply Z.eqb_neq in E0.
  pose proof (Z.div_mod p 4 ltac:(lia)). pose proof (Z.mod_pos_bound p 4 ltac:(lia)).
  destruct (p <=? 3) eqn:E3.
  - apply Z.leb_le in E3. assert (p / 4 = 0) as -> by lia. reflexivity.
  - apply Z.leb_gt in E3.
    destruct (p / 4 =? 0) eqn:E4; [apply Z.eqb_eq in E4; lia|].
    destruct (p - p / 4 =? 0) eqn:E5; [apply Z.eqb_eq in E5; lia|]. reflexivity.
Qed.

(* ---- BeginBlocker ------------------------------------------------------------------------- *)
Theorem no_mint_before_init fx m now : m_init m = false -> begin_block fx m now = BBOk 0 0 0 m.
Proof. intros H. unfold begin_block. rewrite H. reflexivity. Qed.

Theorem first_block_records_only fx m now :
  m_init m = true -> m_prev m = None -> now <> zero_time ->
  begin_block fx m now = BBOk 0 0 0 {| m_init := true; m_prev := Some now |}.
Proof.
  intros Hi Hp Hz. unfold begin_block. rewrite Hi, Hp. cbn [negb].
  destruct (now =? zero_time) eqn:E; [apply Z.eqb_eq in E; contradiction|]. reflexivity.
Qed.

Lemma msg_init_some auth m m' :
  msg_init auth m = Some m' -> auth = true /\ m_init m = false /\ m' = {| m_init := true; m_prev := m_prev m |}.
Proof.
  unfold msg_init. destruct auth; cbn [negb]; [|discriminate].
  destruct (m_init m); [discriminate|]. intros H. inversion H. auto.
Qed.

(* nothing is minted for the time before MsgInit: the first block after it only records its time *)
Theorem first_block_after_init fx m m' auth now :
  minter_wf m -> msg_init auth m = Some m' -> now <> zero_time ->
  begin_block fx m' now = BBOk 0 0 0 {| m_init := true; m_prev := Some now |}.
Proof.
  intros W I Hz. apply msg_init_some in I. destruct I as (_ & Hi & ->).
  apply first_block_records_only; [reflexivity | cbn; apply W; exact Hi | exact Hz].
Qed.

Theorem begin_block_exact m prev now :
  m_init m = true -> m_prev m = Some prev -> now <> zero_time ->
  prev <= now -> in_range (elapsed_ms now prev) = true ->
  let p := provision_spec (elapsed_ms now prev) in
  begin_block true m now = BBOk p (p - p / 4) (p / 4) {| m_init := true; m_prev := Some now |}.
Proof.
  intros Hi Hp Hz Hle R p. unfold begin_block. rewrite Hi, Hp. cbn [negb].
  destruct (now =? zero_time) eqn:E; [apply Z.eqb_eq in E; contradiction|].
  rewrite (calc_block_provision_exact now prev Hle R). fold p.
  assert (0 <= p) as P by (apply provision_spec_nonneg; apply in_range_spec in R; tauto).
  rewrite (send_inflationary_fixed p P).
  destruct (p =? 0) eqn:E0; [|reflexivity]. apply Z.eqb_eq in E0. rewrite E0. reflexivity.
Qed.

(* the code as found: the same, except that a provision of 1, 2 or 3 loya is an error *)
Theorem begin_block_as_found m prev now :
  m_init m = true -> m_prev m = Some prev -> now <> zero_time ->
  prev <= now -> in_range (elapsed_ms now prev) = true ->
  let p := provision_spec (elapsed_ms now prev) in
  begin_block false m now =
  if (1 <=? p) && (p <=? 3) then BBErr p
  else BBOk p (p - p / 4) (p / 4) {| m_init := true; m_prev := Some now |}.
Proof.
  intros Hi Hp Hz Hle R p. unfold begin_block. rewrite Hi, Hp. cbn [negb].
  destruct (now =? zero_time) eqn:E; [apply Z.eqb_eq in E; contradiction|].
  rewrite (calc_block_provision_exact now prev Hle R). fold p.
  assert (0 <= p) as P by (apply provision_spec_nonneg; apply in_range_spec in R; tauto).
  rewrite (send_inflationary_found p P).
  destruct (p =? 0) eqn:E0.
  - apply Z.eqb_eq in E0. rewrite E0. reflexivity.
  - apply Z.eqb_neq in E0. destruct (1 <=? p) eqn:E1; [|apply Z.leb_gt in E1; lia].
    cbn [andb]. destruct (p <=? 3); reflexivity.
Qed.

(* minting happens only when switched on, with a recorded earlier time, and is distributed completely *)
Theorem begin_block_mints_only_if fx m now minted t q m' :
  begin_block fx m now = BBOk minted t q m' -> minted <> 0 ->
  m_init m = true /\ (exists prev, m_prev m = Some prev /\ prev <= now) /\
  m' = {| m_init := true; m_prev := Some now |} /\ t + q = minted /\ 0 < minted.
Proof.
  unfold begin_block. destruct (m_init m) eqn:Hi; cbn [negb]; [|intros H; inversion H; congruence].
  destruct (now =? zero_time); [intros H; inversion H; congruence|].
  destruct (m_prev m) as [prev|] eqn:Hp; [|intros H; inversion H; congruence].
  unfold calc_block_provision. destruct (now <? prev) eqn:E; [discriminate|]. apply Z.ltb_ge in E.
  destruct (provision_raw (elapsed_ms now prev) <? 0) eqn:E2; [discriminate|]. apply Z.ltb_ge in E2.
  set (p := provision_raw (elapsed_ms now prev)) in *.
  unfold send_inflationary. rewrite (split_exact p E2). cbn [fst snd].
  destruct (p =? 0) eqn:E0; [intros H; inversion H; congruence|]. apply Z.eqb_neq in E0.
  intros H Hm.
  assert (minted = p /\ t = p - p / 4 /\ q = p / 4 /\ m' = {| m_init := true; m_prev := Some now |}) as (-> & -> & -> & ->).
  { destruct ((p / 4 =? 0) || (p - p / 4 =? 0)); [destruct fx; [|discriminate]|]; inversion H; auto. }
  repeat split; try lia. exists prev. split; [reflexivity | exact E].
Qed.

Lemma minter_wf_after fx m now : minter_wf m -> minter_wf (minter_after m (begin_block fx m now)).
Proof.
  intros W. unfold begin_block. destruct (m_init m) eqn:Hi; cbn [negb]; [|exact W].
  destruct (now =? zero_time); [exact W|].
  assert (minter_wf {| m_init := true; m_prev := Some now |}) as W' by (intros H; discriminate).
  destruct (m_prev m); [|exact W'].
  destruct (calc_block_provision now z); try exact W.
  destruct (send_inflationary fx amount); cbn [minter_after]; assumption.
Qed.

Lemma minter_wf_init auth m m' : minter_wf m -> msg_init auth m = Some m' -> minter_wf m'.
Proof. intros W I. apply msg_init_some in I. destruct I as (_ & _ & ->). intros H. discriminate. Qed.

(* ---- cumulative inflation --------------------------------------------------------------- *)
Lemma provision_spec_superadd a b :
  provision_spec a + provision_spec b <= provision_spec (a + b).
Proof.
  unfold provision_spec, daily_mint_rate, ms_in_day.
  pose proof (Z.div_mod (146940000 * a) 86400000 ltac:(lia)).
  pose proof (Z.mod_pos_bound (146940000 * a) 86400000 ltac:(lia)).
  pose proof (Z.div_mod (146940000 * b) 86400000 ltac:(lia)).
  pose proof (Z.mod_pos_bound (146940000 * b) 86400000 ltac:(lia)).
  apply Z.div_le_lower_bound; lia.
Qed.

Lemma provision_spec_mono a b : a <= b -> provision_spec a <= provision_spec b.
Proof. intros H. unfold provision_spec, daily_mint_rate, ms_in_day. apply Z.div_le_mono; lia. Qed.

Lemma provision_spec_0 : provision_spec 0 = 0.
Proof. reflexivity. Qed.

(* sum of floors <= floor of the sum: rounding loses, never gains *)
Theorem cumulative_bound_gaps (gaps : list Z) :
  sumZ (map provision_spec gaps) <= provision_spec (sumZ gaps).
Proof.
  induction gaps as [|g r IH]; cbn [map sumZ]; [rewrite provision_spec_0; lia|].
  pose proof (provision_spec_superadd g (sumZ r)). lia.
Qed.

(* the statement of DESIGN appendix A, for the Go expression itself *)
Theorem cumulative_bound_gaps_raw (gaps : list Z) :
  Forall (fun g => 0 <= g < 2 ^ 63 / 146940000) gaps ->
  sumZ (map provision_raw gaps) <= 146940000 * sumZ gaps / 86400000.
Proof.
  intros F. assert (map provision_raw gaps = map provision_spec gaps) as ->.
  { induction F as [|g r Hg F IH]; [reflexivity|]. cbn [map]. rewrite IH. f_equal.
    apply provision_raw_exact; [lia|]. unfold daily_mint_rate, two63.
    change (2 ^ 63 / 146940000) with 62769647725 in Hg. lia. }
  exact (cumulative_bound_gaps gaps).
Qed.

(* ... and the loss is below one loya per block *)
Theorem cumulative_loss_gaps (gaps : list Z) :
  daily_mint_rate * sumZ gaps - Z.of_nat (List.length gaps) * (ms_in_day - 1)
  <= ms_in_day * sumZ (map provision_spec gaps).
Proof.
  induction gaps as [|g r IH]; [cbn; lia|].
  cbn [map sumZ List.length]. rewrite Nat2Z.inj_succ.
  unfold provision_spec at 1. unfold daily_mint_rate, ms_in_day in *.
  pose proof (Z.div_mod (146940000 * g) 86400000 ltac:(lia)).
  pose proof (Z.mod_pos_bound (146940000 * g) 86400000 ltac:(lia)). lia.
Qed.

(* truncation of nanoseconds to milliseconds also only loses *)
Lemma elapsed_ms_superadd p t u :
  p <= t -> t <= u -> u - p < two63 -> elapsed_ms t p + elapsed_ms u t <= elapsed_ms u p.
Proof.
  intros H1 H2 H3. rewrite !elapsed_ms_exact by lia. unfold ns_in_ms.
  pose proof (Z.div_mod (t - p) 1000000 ltac:(lia)). pose proof (Z.mod_pos_bound (t - p) 1000000 ltac:(lia)).
  pose proof (Z.div_mod (u - t) 1000000 ltac:(lia)). pose proof (Z.mod_pos_bound (u - t) 1000000 ltac:(lia)).
  apply Z.div_le_lower_bound; lia.
Qed.

Lemma elapsed_ms_mono_l p u u' : u <= u' -> elapsed_ms u p <= elapsed_ms u' p.
Proof.
  intros H. unfold elapsed_ms, ns_in_ms. apply Z.quot_le_mono; [lia|]. apply sat_s64_mono. lia.
Qed.

Lemma elapsed_ms_anti_r p p' u : p <= p' -> elapsed_ms u p' <= elapsed_ms u p.
Proof.
  intros H. unfold elapsed_ms, ns_in_ms. apply Z.quot_le_mono; [lia|]. apply sat_s64_mono. lia.
Qed.

Lemma in_range_mono a b : 0 <= a -> a <= b -> in_range b = true -> in_range a = true.
Proof.
  intros H0 H1 R. apply in_range_spec in R. apply in_range_spec. unfold daily_mint_rate in *. lia.
Qed.

Lemma last_cons_cons {A} (a b : A) r d : last (a :: b :: r) d = last (b :: r) d.
Proof. reflexivity. Qed.

Lemma last_cons_default {A} (t : A) r d : last (t :: r) d = last r t.
Proof.
  revert t d. induction r as [|b r IH]; intros t d; [reflexivity|].
  rewrite last_cons_cons. rewrite (IH b d), (IH b t). reflexivity.
Qed.

Lemma nondecr_last p ts : nondecr p ts -> p <= last ts p.
Proof.
  revert p. induction ts as [|t r IH]; intros p H; [cbn; lia|].
  destruct H as [H1 H2]. rewrite last_cons_default. specialize (IH t H2). lia.
Qed.

Lemma nondecr_weaken p t r : p <= t -> nondecr t r -> nondecr p r.
Proof. destruct r as [|a r]; cbn; [tauto|]. intros H [H1 H2]. split; [lia | exact H2]. Qed.

Lemma last_default_le p t r : p <= t -> nondecr t r -> last r p <= last r t.
Proof.
  intros H N. destruct r as [|a r]; [cbn; exact H|].
  rewrite !last_cons_default. lia.
Qed.

(* one block: either it mints the exact provision and records the time, or it mints nothing and
   leaves the minter alone (zero block time; in the code as found: the failing 1..3 loya case) *)
Lemma begin_block_step fx m p t :
  m_init m = true -> m_prev m = Some p -> p <= t -> in_range (elapsed_ms t p) = true ->
  (minted_of (begin_block fx m t) = provision_spec (elapsed_ms t p) /\
   minter_after m (begin_block fx m t) = {| m_init := true; m_prev := Some t |})
  \/ (minted_of (begin_block fx m t) = 0 /\ minter_after m (begin_block fx m t) = m).
Proof.
  intros Hi Hp Hle R.
  destruct (Z.eq_dec t zero_time) as [Ez|Hz].
  - right. unfold begin_block. rewrite Hi. cbn [negb]. rewrite Ez, Z.eqb_refl. split; reflexivity.
  - destruct fx.
    + left. rewrite (begin_block_exact m p t Hi Hp Hz Hle R). split; reflexivity.
    + rewrite (begin_block_as_found m p t Hi Hp Hz Hle R).
      destruct ((1 <=? _) && (_ <=? 3)); [right | left]; split; reflexivity.
Qed.

Theorem run_blocks_bound fx : forall times m p,
  m_init m = true -> m_prev m = Some p -> nondecr p times ->
  in_range (elapsed_ms (last times p) p) = true ->
  0 <= fst (run_blocks fx m times) <= provision_spec (elapsed_ms (last times p) p).
Proof.
  induction times as [|t r IH]; intros m p Hi Hp N R.
  - cbn. rewrite elapsed_ms_self. rewrite provision_spec_0. lia.
  - destruct N as [Hpt N]. rewrite last_cons_default in *.
    pose proof (nondecr_last t r N) as HtL. set (L := last r t) in *.
    pose proof (in_range_unsat L p ltac:(lia) R) as U.
    assert (in_range (elapsed_ms t p) = true) as Rt.
    { eapply in_range_mono; [apply elapsed_ms_nonneg; lia | apply (elapsed_ms_mono_l p t L); lia | exact R]. }
    cbn [run_blocks].
    destruct (begin_block_step fx m p t Hi Hp Hpt Rt) as [[Hm Ha]|[Hm Ha]]; rewrite Hm, Ha.
    + assert (in_range (elapsed_ms L t) = true) as RL.
      { eapply in_range_mono; [apply elapsed_ms_nonneg; lia | apply (elapsed_ms_anti_r p t L); lia | exact R]. }
      specialize (IH {| m_init := true; m_prev := Some t |} t eq_refl eq_refl N RL). fold L in IH.
      destruct (run_blocks fx _ r) as [s m'']. cbn [fst] in *.
      pose proof (provision_spec_nonneg (elapsed_ms t p) ltac:(apply elapsed_ms_nonneg; lia)).
      pose proof (provision_spec_superadd (elapsed_ms t p) (elapsed_ms L t)).
      pose proof (provision_spec_mono _ _ (elapsed_ms_superadd p t L Hpt HtL U)). lia.
    + pose proof (nondecr_weaken p t r Hpt N) as N'.
      pose proof (last_default_le p t r Hpt N) as LL. fold L in LL.
      pose proof (nondecr_last p r N') as HpL.
      assert (in_range (elapsed_ms (last r p) p) = true) as RL.
      { eapply in_range_mono; [apply elapsed_ms_nonneg; lia | apply (elapsed_ms_mono_l p (last r p) L); lia | exact R]. }
      specialize (IH m p Hi Hp N' RL).
      destruct (run_blocks fx m r) as [s m'']. cbn [fst] in *.
      pose proof (provision_spec_mono _ _ (elapsed_ms_mono_l p (last r p) L LL)). lia.
Qed.

Theorem run_blocks_uninit fx : forall times m, m_init m = false -> run_blocks fx m times = (0, m).
Proof.
  induction times as [|t r IH]; intros m H; [reflexivity|].
  cbn [run_blocks]. rewrite (no_mint_before_init fx m t H). cbn [minter_after minted_of].
  rewrite (IH m H). reflexivity.
Qed.

(* from MsgInit on: the first block only records its time t; afterwards the bound is relative to t *)
Theorem run_blocks_after_init fx m t r :
  m_init m = true -> m_prev m = None -> t <> zero_time -> nondecr t r ->
  in_range (elapsed_ms (last r t) t) = true ->
  0 <= fst (run_blocks fx m (t :: r)) <= provision_spec (elapsed_ms (last r t) t).
Proof.
  intros Hi Hp Hz N R. cbn [run_blocks]. rewrite (first_block_records_only fx m t Hi Hp Hz).
  cbn [minter_after minted_of].
  pose proof (run_blocks_bound fx r {| m_init := true; m_prev := Some t |} t eq_refl eq_refl N R) as B.
  destruct (run_blocks fx _ r) as [s m'']. cbn [fst] in *. lia.
Qed.

(* ---- the int64 boundary ---------------------------------------------------------------------- *)
Theorem in_range_boundary : in_range 62769647725 = true /\ in_range 62769647726 = false.
Proof. split; reflexivity. Qed.

(* one millisecond past 726.5 days the product wraps negative: NewCoin panics inside BeginBlocker *)
Theorem mint_gap_overflow_panics :
  exists prev cur, prev <= cur /\ elapsed_ms cur prev = 62769647726 /\
    calc_block_provision cur prev = PPanic /\ 0 < provision_spec (elapsed_ms cur prev).
Proof. exists 0, 62769647726000000. repeat split; try reflexivity. lia. Qed.

(* past 2^64 the wrapped product is positive again: the block silently mints far too little *)
Theorem mint_gap_overflow_undermints :
  exists prev cur a, prev <= cur /\ calc_block_provision cur prev = PCoin a /\
    a < provision_spec (elapsed_ms cur prev).
Proof. exists 0, 125539295453000000, 1. repeat split; try reflexivity. lia. Qed.

(* ---- finding F37: a provision of 1..3 loya stops the chain (code as found) --------------------- *)
Theorem small_provision_refuted :
  exists m prev now,
    m_init m = true /\ m_prev m = Some prev /\ prev <= now /\ now <> zero_time /\
    in_range (elapsed_ms now prev) = true /\ provision_spec (elapsed_ms now prev) = 1 /\
    begin_block false m now = BBErr 1 /\
    begin_block true m now = BBOk 1 1 0 {| m_init := true; m_prev := Some now |}.
Proof.
  exists {| m_init := true; m_prev := Some 1700000000000000000 |}, 1700000000000000000, 1700000000001000000.
  repeat split; try reflexivity; try lia. intros H. discriminate.
Qed.

Theorem begin_block_found_fails_iff m prev now :
  m_init m = true -> m_prev m = Some prev -> now <> zero_time ->
  prev <= now -> in_range (elapsed_ms now prev) = true ->
  (status_of (begin_block false m now) <> 0 <-> 1 <= provision_spec (elapsed_ms now prev) <= 3).
Proof.
  intros Hi Hp Hz Hle R. rewrite (begin_block_as_found m prev now Hi Hp Hz Hle R).
  set (p := provision_spec (elapsed_ms now prev)).
  destruct (Z.leb_spec 1 p); destruct (Z.leb_spec p 3); cbn [andb status_of]; split; intros; try lia; try congruence.
Qed.

(* non-vacuity: concrete block sequences *)
Example run_blocks_example :
  run_blocks true {| m_init := false; m_prev := None |} [1700000000000000000; 1700000006000000000] = (0, {| m_init := false; m_prev := None |})
  /\ fst (run_blocks true {| m_init := true; m_prev := None |}
            [1700000000000000000; 1700000006000000000; 1700000011999999999; 1700086400000000000]) = 10204 + 10202 + 146919591.
Proof. split; vm_compute; reflexivity. Qed.

Example provision_examples :
  calc_block_provision 86400000000000 0 = PCoin 146940000          (* one day *)
  /\ calc_block_provision 999999 0 = PCoin 0                       (* sub-millisecond gap *)
  /\ calc_block_provision 6000000000 0 = PCoin 10204               (* 6 s *)
  /\ split 10204 = (7653, 2551) /\ split 5 = (4, 1) /\ split 3 = (3, 0).
Proof. repeat split; vm_compute; reflexivity. Qed.

(* ---- the ledger: frame condition and sum of balances ------------------------------------------- *)
Lemma upd_same f a v : upd f a v a = v.
Proof. unfold upd. rewrite Z.eqb_refl. reflexivity. Qed.
Lemma upd_other f a v x : x <> a -> upd f a v x = f x.
Proof. unfold upd. intros H. destruct (Z.eqb_spec x a); [contradiction | reflexivity]. Qed.

Lemma sum_over_upd_notin dom f a v : ~ In a dom -> sum_over dom (upd f a v) = sum_over dom f.
Proof.
  induction dom as [|x dom IH]; intros H; [reflexivity|]. cbn [sum_over fold_right].
  change (fold_right (fun a0 s => upd f a v a0 + s) 0 dom) with (sum_over dom (upd f a v)).
  change (fold_right (fun a0 s => f a0 + s) 0 dom) with (sum_over dom f).
  rewrite IH by (intros C; apply H; right; exact C).
  rewrite upd_other by (intros C; apply H; left; exact C). reflexivity.
Qed.

Lemma sum_over_upd_in dom f a v :
  NoDup dom -> In a dom -> sum_over dom (upd f a v) = sum_over dom f - f a + v.
Proof.
  induction dom as [|x dom IH]; intros N H; [contradiction|].
  inversion N as [|? ? Hx N']; subst. cbn [sum_over fold_right].
  change (fold_right (fun a0 s => upd f a v a0 + s) 0 dom) with (sum_over dom (upd f a v)).
  change (fold_right (fun a0 s => f a0 + s) 0 dom) with (sum_over dom f).
  destruct (Z.eq_dec x a) as [->|Ne].
  - rewrite upd_same. rewrite sum_over_upd_notin by exact Hx. lia.
  - destruct H as [H|H]; [contradiction|]. rewrite upd_other by exact Ne. rewrite (IH N' H). lia.
Qed.

Lemma b_mint_some b a v b' :
  b_mint b a v = Some b' -> 0 <= v /\ supply b' = supply b + v /\ bal b' = upd (bal b) a (bal b a + v).
Proof.
  unfold b_mint. destruct (Z.ltb_spec v 0); [discriminate|]. intros HH. inversion HH. cbn. auto.
Qed.
Lemma b_burn_some b a v b' :
  b_burn b a v = Some b' -> 0 <= v <= bal b a /\ supply b' = supply b - v /\ bal b' = upd (bal b) a (bal b a - v).
Proof.
  unfold b_burn. destruct (Z.ltb_spec v 0); [discriminate|]. destruct (Z.ltb_spec (bal b a) v); [discriminate|].
  cbn [orb]. intros HH. inversion HH. cbn. auto with zarith.
Qed.
Lemma b_send_some b from to v b' :
  b_send b from to v = Some b' ->
  0 <= v <= bal b from /\ supply b' = supply b /\
  bal b' = upd (upd (bal b) from (bal b from - v)) to (upd (bal b) from (bal b from - v) to + v).
Proof.
  unfold b_send. destruct (Z.ltb_spec v 0); [discriminate|]. destruct (Z.ltb_spec (bal b from) v); [discriminate|].
  cbn [orb]. intros HH. inversion HH. cbn. auto with zarith.
Qed.

Lemma b_mint_eq b a v :
  0 <= v -> b_mint b a v = Some {| bal := upd (bal b) a (bal b a + v); supply := supply b + v |}.
Proof. intros H. unfold b_mint. destruct (Z.ltb_spec v 0); [lia | reflexivity]. Qed.
Lemma b_send_eq b from to v :
  0 <= v <= bal b from ->
  b_send b from to v =
  Some {| bal := upd (upd (bal b) from (bal b from - v)) to (upd (bal b) from (bal b from - v) to + v);
          supply := supply b |}.
Proof.
  intros H. unfold b_send. destruct (Z.ltb_spec v 0); [lia|]. destruct (Z.ltb_spec (bal b from) v); [lia|]. reflexivity.
Qed.

Lemma bank_ok_upd dom b a v b' :
  NoDup dom -> In a dom -> bank_ok dom b -> 0 <= v ->
  bal b' = upd (bal b) a v -> supply b' = supply b - bal b a + v -> bank_ok dom b'.
Proof.
  intros N I (S & P & E) Hv Hb Hs. unfold bank_ok. rewrite Hb, Hs. repeat split.
  - intros x Hx. rewrite upd_other; [apply S; exact Hx | intros ->; contradiction].
  - intros x. destruct (Z.eq_dec x a) as [->|Ne]; [rewrite upd_same; exact Hv | rewrite upd_other by exact Ne; apply P].
  - rewrite (sum_over_upd_in dom (bal b) a v N I). lia.
Qed.

Lemma b_mint_ok dom b a v b' :
  NoDup dom -> In a dom -> bank_ok dom b -> b_mint b a v = Some b' -> bank_ok dom b'.
Proof.
  intros N I K H. apply b_mint_some in H. destruct H as (Hv & Hs & Hb).
  pose proof K as (_ & P & _). specialize (P a).
  eapply (bank_ok_upd dom b a (bal b a + v)); eauto; lia.
Qed.
Lemma b_burn_ok dom b a v b' :
  NoDup dom -> In a dom -> bank_ok dom b -> b_burn b a v = Some b' -> bank_ok dom b'.
Proof.
  intros N I K H. apply b_burn_some in H. destruct H as (Hv & Hs & Hb).
  eapply (bank_ok_upd dom b a (bal b a - v)); eauto; lia.
Qed.
Lemma b_send_ok dom b from to v b' :
  NoDup dom -> In from dom -> In to dom -> bank_ok dom b -> b_send b from to v = Some b' -> bank_ok dom b'.
Proof.
  intros N If It K H. apply b_send_some in H. destruct H as (Hv & Hs & Hb).
  set (b1 := {| bal := upd (bal b) from (bal b from - v); supply := supply b - v |}).
  assert (bank_ok dom b1) as K1.
  { eapply (bank_ok_upd dom b from (bal b from - v)); eauto; cbn; lia. }
  pose proof K1 as (_ & P1 & _). specialize (P1 to). cbn in P1.
  eapply (bank_ok_upd dom b1 to (bal b1 to + v)); eauto; cbn; lia.
Qed.

Ltac bank_inv :=
  repeat match goal with
         | H : bind ?o _ = Some _ |- _ =>
             let E := fresh "E" in destruct o eqn:E; cbn [bind] in H; [|discriminate H]
         | H : (if ?c then None else _) = Some _ |- _ =>
             let E := fresh "C" in destruct c eqn:E; [discriminate H|]
         | H : Some _ = Some _ |- _ => inversion H; subst; clear H
         end.

Theorem frame fx l op : lsupply (lstep fx l op) = lsupply l + supply_delta fx l op.
Proof.
  unfold lstep, supply_delta. destruct (lstep_opt fx l op) as [l'|] eqn:E; [|lia].
  unfold lsupply. destruct op; cbn [lstep_opt nominal_delta] in *.
  - destruct (msg_init auth_ok (l_minter l)); [|discriminate]. bank_inv. cbn. lia.
  - destruct (begin_block fx (l_minter l) now) as [minted t q m'| |]; try discriminate. bank_inv. cbn [l_bank minted_of].
    apply b_mint_some in E0. apply b_send_some in E1, E2. lia.
  - bank_inv. cbn [l_bank]. apply b_mint_some in E0. apply b_send_some in E1, E2. lia.
  - bank_inv. cbn [l_bank]. apply b_send_some in E0. apply b_burn_some in E1. lia.
  - bank_inv. cbn [l_bank]. apply b_send_some in E0. apply b_burn_some in E1. lia.
  - bank_inv. cbn [l_bank]. apply b_burn_some in E0. lia.
  - bank_inv. cbn [l_bank]. apply b_burn_some in E0. lia.
  - bank_inv. cbn [l_bank]. apply b_send_some in E0. lia.
  - bank_inv. cbn [l_bank]. apply b_mint_some in E0. apply b_send_some in E1. lia.
Qed.

Theorem frame_history fx : forall ops l,
  lsupply (fold_left (lstep fx) ops l) = lsupply l + sum_deltas fx l ops.
Proof.
  induction ops as [|op r IH]; intros l; cbn [fold_left sum_deltas]; [lia|].
  rewrite IH, frame. lia.
Qed.

(* supply moves only at the documented events, by exactly the documented amounts *)
Theorem delta_only_documented fx l op :
  supply_delta fx l op <> 0 ->
  match op with
  | LBeginBlock now => exists p, 0 < p /\ supply_delta fx l op = p /\ minted_of (begin_block fx (l_minter l) now) = p
  | LClaim _ _ _ w _ => supply_delta fx l op = w / 1000000000000
  | LWithdraw _ a => supply_delta fx l op = - a
  | LTip _ a => supply_delta fx l op = - (2 * a / 100) /\ 0 < a
  | LDisputeBurn v | LDustBurn v => supply_delta fx l op = - v
  | LFund _ v => supply_delta fx l op = v
  | LInit _ | LSend _ _ _ => False
  end.
Proof.
  unfold supply_delta. destruct (lstep_opt fx l op) as [l'|] eqn:E; [|congruence].
  destruct op; cbn [nominal_delta lstep_opt] in *; intros H; try congruence; try reflexivity.
  - destruct (begin_block fx (l_minter l) now) as [minted t q m'| |] eqn:B; try discriminate.
    cbn [minted_of] in *. exists minted.
    destruct (begin_block_mints_only_if fx _ _ _ _ _ _ B H) as (_ & _ & _ & _ & P). auto.
  - bank_inv. apply Z.leb_gt in C. split; [|lia]. unfold tip_burn.
    rewrite Z.quot_div_nonneg by lia. f_equal. f_equal. lia.
Qed.

Theorem lstep_ok fx dom l op :
  NoDup dom -> incl module_addrs dom -> incl (op_addrs op) dom ->
  ledger_ok dom l -> ledger_ok dom (lstep fx l op).
Proof.
  intros N M A [K W]. unfold lstep. destruct (lstep_opt fx l op) as [l'|] eqn:E; [|split; assumption].
  assert (In a_mint dom /\ In a_tbr dom /\ In a_fee dom /\ In a_oracle dom /\ In a_bridge dom /\ In a_dispute dom /\ In a_funder dom)
    as (Im & It & If & Io & Ib & Id & Iu) by (repeat split; apply M; cbn; tauto).
  destruct op; cbn [lstep_opt op_addrs] in *.
  - destruct (msg_init auth_ok (l_minter l)) eqn:I; [|discriminate]. bank_inv. split; [exact K | eapply minter_wf_init; eauto].
  - pose proof (minter_wf_after fx (l_minter l) now W) as W'.
    destruct (begin_block fx (l_minter l) now) as [minted t q m'| |]; try discriminate. bank_inv.
    split; [|exact W']. cbn [l_bank].
    eapply b_send_ok; [..|exact E2]; auto. eapply b_send_ok; [..|exact E1]; auto. eapply b_mint_ok; [..|exact E0]; auto.
  - bank_inv. split; [|exact W]. cbn [l_bank].
    assert (In claimer dom /\ In recipient dom) as [Ic Ir] by (split; apply A; cbn; tauto).
    eapply b_send_ok; [..|exact E2]; auto. eapply b_send_ok; [..|exact E1]; auto. eapply b_mint_ok; [..|exact E0]; auto.
  - bank_inv. split; [|exact W]. cbn [l_bank]. assert (In sender dom) as Is by (apply A; cbn; tauto).
    eapply b_burn_ok; [..|exact E1]; auto. eapply b_send_ok; [..|exact E0]; auto.
  - bank_inv. split; [|exact W]. cbn [l_bank]. assert (In tipper dom) as Is by (apply A; cbn; tauto).
    eapply b_burn_ok; [..|exact E1]; auto. eapply b_send_ok; [..|exact E0]; auto.
  - bank_inv. split; [|exact W]. cbn [l_bank]. eapply b_burn_ok; [..|exact E0]; auto.
  - bank_inv. split; [|exact W]. cbn [l_bank]. eapply b_burn_ok; [..|exact E0]; auto.
  - bank_inv. split; [|exact W]. cbn [l_bank].
    assert (In from dom /\ In to dom) as [I1 I2] by (split; apply A; cbn; tauto).
    eapply b_send_ok; [..|exact E0]; auto.
  - bank_inv. split; [|exact W]. cbn [l_bank]. assert (In to dom) as I1 by (apply A; cbn; tauto).
    eapply b_send_ok; [..|exact E1]; auto. eapply b_mint_ok; [..|exact E0]; auto.
Qed.

Theorem history_ok fx dom : forall ops l,
  NoDup dom -> incl module_addrs dom -> Forall (fun op => incl (op_addrs op) dom) ops ->
  ledger_ok dom l -> ledger_ok dom (fold_left (lstep fx) ops l).
Proof.
  induction ops as [|op r IH]; intros l N M F K; [exact K|].
  inversion F as [|? ? Hop Fr]; subst. cbn [fold_left].
  apply IH; auto. apply lstep_ok; auto.
Qed.

(* what one minting block does to the ledger (repaired variant): the reward pool gets
   total - total/4, the fee collector total/4, the mint account keeps nothing *)
Theorem mint_block_distribution dom l prev now :
  NoDup dom -> incl module_addrs dom -> ledger_ok dom l ->
  m_init (l_minter l) = true -> m_prev (l_minter l) = Some prev -> now <> zero_time ->
  prev <= now -> in_range (elapsed_ms now prev) = true ->
  let p := provision_spec (elapsed_ms now prev) in
  let l' := lstep true l (LBeginBlock now) in
  lsupply l' = lsupply l + p /\
  bal (l_bank l') a_tbr = bal (l_bank l) a_tbr + (p - p / 4) /\
  bal (l_bank l') a_fee = bal (l_bank l) a_fee + p / 4 /\
  bal (l_bank l') a_mint = bal (l_bank l) a_mint /\
  (forall a, a <> a_tbr -> a <> a_fee -> a <> a_mint -> bal (l_bank l') a = bal (l_bank l) a) /\
  l_minter l' = {| m_init := true; m_prev := Some now |}.
Proof.
  intros N M [K W] Hi Hp Hz Hle R p l'.
  assert (0 <= p) as P by (apply provision_spec_nonneg; apply in_range_spec in R; tauto).
  pose proof (Z.div_mod p 4 ltac:(lia)) as D. pose proof (Z.mod_pos_bound p 4 ltac:(lia)) as D'.
  pose proof K as (_ & Pos & _). pose proof (Pos a_mint) as Pm.
  assert (exists b3, l' = {| l_bank := b3; l_minter := {| m_init := true; m_prev := Some now |} |} /\
                     supply b3 = supply (l_bank l) + p /\
                     forall a, bal b3 a =
                       if a =? a_fee then bal (l_bank l) a + p / 4
                       else if a =? a_tbr then bal (l_bank l) a + (p - p / 4)
                       else bal (l_bank l) a) as (b3 & -> & S3 & B3).
  { subst l'. unfold lstep. cbn [lstep_opt].
    rewrite (begin_block_exact (l_minter l) prev now Hi Hp Hz Hle R). fold p.
    set (b := l_bank l) in *.
    rewrite (b_mint_eq b a_mint p P). cbn [bind].
    rewrite b_send_eq by (cbn [bal]; rewrite upd_same; lia). cbn [bind].
    rewrite b_send_eq by (cbn [bal]; unfold upd, a_mint, a_tbr in *; cbn [Z.eqb Pos.eqb]; lia). cbn [bind].
    eexists. split; [reflexivity|]. cbn [bal supply]. split; [reflexivity|].
    intros a. unfold upd, a_mint, a_tbr, a_fee. cbn [Z.eqb Pos.eqb].
    destruct (Z.eqb_spec a 3) as [->|]; [cbn [Z.eqb Pos.eqb]; lia|].
    destruct (Z.eqb_spec a 2) as [->|]; [cbn [Z.eqb Pos.eqb]; lia|].
    destruct (Z.eqb_spec a 1) as [->|]; lia. }
  cbn [lsupply l_bank l_minter]. repeat split.
  - exact S3.
  - rewrite B3. reflexivity.
  - rewrite B3. reflexivity.
  - rewrite B3. reflexivity.
  - intros a H1 H2 H3. rewrite B3.
    destruct (Z.eqb_spec a a_fee); [contradiction|]. destruct (Z.eqb_spec a a_tbr); [contradiction|]. reflexivity.
Qed.

(* non-vacuity of the ledger statements *)
Definition ledger0 : ledger :=
  {| l_bank := {| bal := assoc_bal [100; 101] [1000; 50]; supply := 1050 |};
     l_minter := {| m_init := false; m_prev := None |} |}.
Definition dom0 : list addr := module_addrs ++ [100; 101].
Definition history0 : list lop :=
  [LTip 100 149; LInit true; LBeginBlock 1700000000000000000; LBeginBlock 1700000006000000000;
   LSend 100 101 500; LWithdraw 101 550; LClaim true 100 101 3733177942381231 2392006215341691;
   LTip 101 1000; LDisputeBurn 1].

Lemma ledger0_ok : NoDup dom0 /\ incl module_addrs dom0 /\ ledger_ok dom0 ledger0.
Proof.
  split; [|split].
  - unfold dom0, module_addrs, a_mint, a_tbr, a_fee, a_oracle, a_bridge, a_dispute, a_funder. cbn [app].
    repeat (constructor; [cbn; intros H; repeat (destruct H as [H|H]; [discriminate H|]); exact H|]). constructor.
  - intros x H. unfold dom0. apply in_or_app. left. exact H.
  - split; [|intros _; reflexivity]. split; [|split].
    + intros a H. unfold ledger0. cbn [l_bank bal assoc_bal]. unfold upd.
      destruct (Z.eqb_spec a 100) as [->|]; [exfalso; apply H; unfold dom0; apply in_or_app; right; cbn; tauto|].
      destruct (Z.eqb_spec a 101) as [->|]; [exfalso; apply H; unfold dom0; apply in_or_app; right; cbn; tauto|]. reflexivity.
    + intros a. unfold ledger0. cbn [l_bank bal assoc_bal]. unfold upd.
      destruct (a =? 100); [lia|]. destruct (a =? 101); lia.
    + vm_compute. reflexivity.
Qed.

Example history0_supply :
  lsupply (fold_left (lstep true) history0 ledger0) = 1050 - 2 + 10204 - 550 + 3733 - 20 - 0
  /\ map (bal (l_bank (fold_left (lstep true) history0 ledger0))) [a_tbr; a_fee; a_oracle; a_bridge; 100; 101]
     = [7653; 2551; 147 + 980; 0; 1000 - 149 - 500 + 2392; 50 + 500 - 550 + 1341 - 1000].
Proof. split; vm_compute; reflexivity. Qed.

(* ---- soundness of the executable checks ------------------------------------------------------ *)
Lemma prov_eqb_eq a b : prov_eqb a b = true -> a = b.
Proof.
  destruct a, b; cbn; try discriminate; try reflexivity. intros H. apply Z.eqb_eq in H. congruence.
Qed.

Lemma Zeqb_opt_eq a b : Zeqb_opt a b = true -> a = b.
Proof. destruct a, b; cbn; try discriminate; try reflexivity. intros H. apply Z.eqb_eq in H. congruence. Qed.

Lemma minter_eqb_eq a b : minter_eqb a b = true -> a = b.
Proof.
  unfold minter_eqb. intros H. apply andb_prop in H. destruct H as [H1 H2].
  apply eqb_prop in H1. apply Zeqb_opt_eq in H2. destruct a, b. cbn in *. congruence.
Qed.

Theorem check_sound_prov prev cur impl :
  c03_check (ProvCase prev cur impl) = [] ->
  impl = calc_block_provision cur prev /\
  (prev <= cur -> in_range (elapsed_ms cur prev) = true ->
   impl = PCoin (provision_spec (elapsed_ms cur prev))).
Proof.
  cbn [c03_check]. intros H. apply app_nil_both in H. destruct H as [H1 H2].
  apply diff_if_nil in H2. apply prov_eqb_eq in H2. split; [congruence|].
  intros Hle R. unfold forward_in_range in H1.
  destruct (Z.leb_spec prev cur); [|lia]. rewrite R in H1. cbn [andb] in H1.
  apply spec_if_nil in H1. apply prov_eqb_eq in H1. exact H1.
Qed.

Theorem spec_block_sound pre now status minted tbr fee post :
  spec_block pre now status minted tbr fee post = [] ->
  (m_init pre = false -> status = 0 /\ minted = 0 /\ tbr = 0 /\ fee = 0 /\ post = pre) /\
  (m_init pre = true -> now <> zero_time ->
     (m_prev pre = None -> status = 0 /\ minted = 0 /\ tbr = 0 /\ fee = 0 /\ m_prev post = Some now) /\
     (forall prev, m_prev pre = Some prev -> prev <= now -> in_range (elapsed_ms now prev) = true ->
        status = 0 /\ minted = provision_spec (elapsed_ms now prev) /\
        tbr = minted - minted / 4 /\ fee = minted / 4 /\ m_prev post = Some now)).
Proof.
  unfold spec_block. intros H.
  apply app_nil_both in H. destruct H as [_ H]. apply app_nil_both in H. destruct H as [H _].
  destruct (m_init pre) eqn:Hi; cbn [negb] in H.
  - split; [discriminate|]. intros _ Hz.
    destruct (Z.eqb_spec now zero_time); [contradiction|].
    destruct (m_prev pre) as [prev|] eqn:Hp.
    + split; [discriminate|]. intros prev' E Hle R. inversion E; subst prev'.
      unfold forward_in_range in H. destruct (Z.leb_spec prev now); [|lia]. rewrite R in H. cbn [andb] in H.
      apply app_nil_both in H. destruct H as [H1 H]. apply app_nil_both in H. destruct H as [H2 H3].
      apply spec_if_nil in H1, H2. apply Z.eqb_eq in H1, H2. rewrite H1 in H3. cbn [Z.eqb] in H3.
      apply app_nil_both in H3. destruct H3 as [H3 H4]. apply spec_if_nil in H3, H4.
      apply andb_prop in H3. destruct H3 as [H3 H5]. apply Z.eqb_eq in H3, H5. apply Zeqb_opt_eq in H4.
      subst. auto.
    + split; [|discriminate]. intros _. apply spec_if_nil in H.
      repeat match goal with X : _ && _ = true |- _ => apply andb_prop in X; destruct X end.
      repeat match goal with X : (_ =? _) = true |- _ => apply Z.eqb_eq in X end.
      match goal with X : Zeqb_opt _ _ = true |- _ => apply Zeqb_opt_eq in X end. auto.
  - split; [|discriminate]. intros _. apply spec_if_nil in H.
    repeat match goal with X : _ && _ = true |- _ => apply andb_prop in X; destruct X end.
    repeat match goal with X : (_ =? _) = true |- _ => apply Z.eqb_eq in X end.
    match goal with X : minter_eqb _ _ = true |- _ => apply minter_eqb_eq in X end. auto.
Qed.

Theorem check_sound_block init0 prev0 now status minted tbr fee i p :
  c03_check (BlocksCase init0 prev0 [BBlock now status minted tbr fee i p]) = [] ->
  spec_block {| m_init := init0; m_prev := prev0 |} now status minted tbr fee {| m_init := i; m_prev := p |} = [].
Proof.
  cbn [c03_check check_blocks]. intros H. apply app_nil_both in H. tauto.
Qed.

Theorem check_ledger_sound tracked : forall steps mi sup lm,
  check_ledger tracked mi sup lm steps = [] -> ledger_obs_ok mi sup steps.
Proof.
  induction steps as [|[op err s sum broken bals i p] r IH]; intros mi sup lm H; [exact I|].
  cbn [check_ledger ledger_obs_ok] in *.
  apply app_nil_both in H. destruct H as [H1 H]. apply app_nil_both in H. destruct H as [H2 H].
  repeat (apply app_nil_both in H; destruct H as [_ H]).
  apply spec_if_nil in H1. apply andb_prop in H1. destruct H1 as [H1 H1'].
  apply Z.eqb_eq in H1. apply negb_true_iff in H1'.
  repeat split; auto.
  - intros d E. rewrite E in H2. apply spec_if_nil in H2. apply Z.eqb_eq in H2. lia.
  - eapply IH; exact H.
Qed.

Lemma site_eqb_eq a b : site_eqb a b = true -> a = b.
Proof.
  destruct a as [[a1 a2] a3], b as [[b1 b2] b3]. cbn. intros H.
  apply andb_prop in H. destruct H as [H H3]. apply andb_prop in H. destruct H as [H1 H2].
  apply String.eqb_eq in H1, H2, H3. congruence.
Qed.

Theorem check_sound_sites sites minters burners :
  c03_check (SitesCase sites minters burners) = [] ->
  (forall s, In s sites -> In s modelled_sites) /\
  (forall m, In m minters -> In m allowed_minters) /\
  (forall m, In m burners -> In m allowed_burners).
Proof.
  cbn [c03_check]. intros H.
  apply app_nil_both in H. destruct H as [H1 H]. apply app_nil_both in H. destruct H as [H2 H].
  apply app_nil_both in H. destruct H as [H3 _]. apply spec_if_nil in H1, H2, H3.
  rewrite forallb_forall in H1, H2, H3. repeat split.
  - intros s Hs. specialize (H1 s Hs). unfold site_known in H1. apply existsb_exists in H1.
    destruct H1 as (x & Hx & E). apply site_eqb_eq in E. subst. exact Hx.
  - intros m Hm. specialize (H2 m Hm). unfold str_in in H2. apply existsb_exists in H2.
    destruct H2 as (x & Hx & E). apply String.eqb_eq in E. subst. exact Hx.
  - intros m Hm. specialize (H3 m Hm). unfold str_in in H3. apply existsb_exists in H3.
    destruct H3 as (x & Hx & E). apply String.eqb_eq in E. subst. exact Hx.
Qed.
