(* C05 on the faithful model of Model/Slash.v: the staking pools back the staking ledger while stake is taken for a
   dispute (EscrowReporterStake and everything below it) and along the dispute histories (propose / add fee /
   begin block, fees from the account or from stake).

   The ledgers are the sums x/staking's own invariants compare with the module accounts:
     bonded pool      >= tokens of the bonded validators
     not-bonded pool  >= tokens of the unbonding and unbonded validators + balances of all unbonding-delegation entries
   The tie of Model/Slash.v to the Go code is C11's correspondence check. *)
From Coq Require Import ZArith List Bool Lia String.
From Verif Require Import Base.Dec Base.Harness Model.Slash Proofs.SlashProofs.
Import ListNotations.
Open Scope Z_scope.

(* ---- ledgers, invariant, slack ------------------------------------------------------------------------ *)
Fixpoint sum_map {A : Type} (f : A -> Z) (l : list A) : Z :=
  match l with [] => 0 | x :: t => f x + sum_map f t end.

Definition val_bonded (v : val) : Z := if v_status v =? 3 then v_tokens v else 0.
Definition val_notbonded (v : val) : Z := if (v_status v =? 1) || (v_status v =? 2) then v_tokens v else 0.
Definition ubd_balance (u : ubd) : Z := sum_z (u_entries u).

Definition bonded_ledger (st : stk) : Z := sum_map val_bonded (s_vals st).
Definition notbonded_ledger (st : stk) : Z := sum_map val_notbonded (s_vals st) + sum_map ubd_balance (s_ubds st).

Definition backed (st : stk) : Prop := bonded_ledger st <= s_bonded st /\ notbonded_ledger st <= s_notbonded st.

(* what a pool holds beyond its ledger *)
Definition bonded_gap (st : stk) : Z := s_bonded st - bonded_ledger st.
Definition notbonded_gap (st : stk) : Z := s_notbonded st - notbonded_ledger st.
Definition slack (st : stk) : Z := bonded_gap st + notbonded_gap st.

(* well-formedness: no negative validator tokens, no negative unbonding entry.  None of the backing theorems needs
   it (find / set / remove all act on the first match, so not even distinct keys are needed); it is preserved, and
   with it a backed state has non-negative pools *)
Definition wf_stk (st : stk) : Prop :=
  Forall (fun v => 0 <= v_tokens v) (s_vals st) /\
  Forall (fun u => Forall (fun e => 0 <= e) (u_entries u)) (s_ubds st).

(* [st'] comes from [st] by taking stake: each pool lost exactly what its ledger lost, no pool grew *)
Definition takes (st st' : stk) : Prop :=
  bonded_gap st' = bonded_gap st /\ notbonded_gap st' = notbonded_gap st /\
  s_bonded st' <= s_bonded st /\ s_notbonded st' <= s_notbonded st.

Definition good (st st' : stk) : Prop := takes st st' /\ (wf_stk st -> wf_stk st').

Lemma takes_refl st : takes st st.
Proof. unfold takes. repeat split; lia. Qed.
Lemma takes_trans a b c : takes a b -> takes b c -> takes a c.
Proof. unfold takes. intros (H1 & H2 & H3 & H4) (H5 & H6 & H7 & H8). repeat split; lia. Qed.
Lemma good_refl st : good st st.
Proof. split; [apply takes_refl | intros H; exact H]. Qed.
Lemma good_trans a b c : good a b -> good b c -> good a c.
Proof. intros [T1 W1] [T2 W2]. split; [eapply takes_trans; eassumption | intros H; apply W2, W1, H]. Qed.

Lemma takes_backed st st' : takes st st' -> backed st -> backed st'.
Proof. unfold takes, backed, bonded_gap, notbonded_gap. intros (H1 & H2 & _ & _) [B1 B2]. split; lia. Qed.

Lemma takes_slack st st' : takes st st' -> slack st' = slack st.
Proof. unfold takes, slack. intros (H1 & H2 & _). lia. Qed.

(* executable forms, for the closed examples *)
Definition wf_stkb (st : stk) : bool :=
  forallb (fun v => 0 <=? v_tokens v) (s_vals st) && forallb (fun u => forallb (fun e => 0 <=? e) (u_entries u)) (s_ubds st).
Definition backedb (st : stk) : bool := (bonded_ledger st <=? s_bonded st) && (notbonded_ledger st <=? s_notbonded st).

Lemma wf_stkb_sound st : wf_stkb st = true -> wf_stk st.
Proof.
  unfold wf_stkb, wf_stk. intros H. apply andb_prop in H. destruct H as [H1 H2].
  rewrite forallb_forall in H1, H2. split; apply Forall_forall.
  - intros v Hv. apply Z.leb_le. apply H1. exact Hv.
  - intros u Hu. apply Forall_forall. intros x Hx. apply Z.leb_le.
    specialize (H2 u Hu). rewrite forallb_forall in H2. apply H2. exact Hx.
Qed.

Lemma backedb_iff st : backedb st = true <-> backed st.
Proof. unfold backedb, backed. rewrite andb_true_iff, !Z.leb_le. tauto. Qed.

(* ---- sums over the stores -------------------------------------------------------------------------------- *)
Lemma sum_map_set_val f n l v :
  find_val (v_id n) l = Some v -> sum_map f (set_val n l) = sum_map f l - f v + f n.
Proof.
  induction l as [|x t IH]; cbn [find_val set_val sum_map]; [discriminate|].
  destruct (v_id x =? v_id n).
  - intros H. apply some_inj in H. subst x. cbn [sum_map]. lia.
  - intros H. cbn [sum_map]. rewrite (IH H). lia.
Qed.

Lemma sum_map_remove_val f id l v :
  find_val id l = Some v -> sum_map f (remove_val id l) = sum_map f l - f v.
Proof.
  induction l as [|x t IH]; cbn [find_val remove_val sum_map]; [discriminate|].
  destruct (v_id x =? id).
  - intros H. apply some_inj in H. subst x. lia.
  - intros H. cbn [sum_map]. rewrite (IH H). lia.
Qed.

Lemma sum_map_set_ubd f n l u :
  find_ubd (u_del n) (u_val n) l = Some u -> sum_map f (set_ubd n l) = sum_map f l - f u + f n.
Proof.
  induction l as [|x t IH]; cbn [find_ubd set_ubd sum_map]; [discriminate|].
  destruct (ubd_is (u_del n) (u_val n) x).
  - intros H. apply some_inj in H. subst x. cbn [sum_map]. lia.
  - intros H. cbn [sum_map]. rewrite (IH H). lia.
Qed.

Lemma sum_map_remove_ubd f del vl l u :
  find_ubd del vl l = Some u -> sum_map f (remove_ubd del vl l) = sum_map f l - f u.
Proof.
  induction l as [|x t IH]; cbn [find_ubd remove_ubd sum_map]; [discriminate|].
  destruct (ubd_is del vl x).
  - intros H. apply some_inj in H. subst x. lia.
  - intros H. cbn [sum_map]. rewrite (IH H). lia.
Qed.

Lemma find_val_id id l v : find_val id l = Some v -> v_id v = id /\ In v l.
Proof.
  induction l as [|x t IH]; cbn [find_val]; [discriminate|].
  destruct (v_id x =? id) eqn:E.
  - intros H. apply some_inj in H. subst x. apply Z.eqb_eq in E. split; [exact E | left; reflexivity].
  - intros H. destruct (IH H) as [H1 H2]. split; [exact H1 | right; exact H2].
Qed.

Lemma find_ubd_key del vl l u : find_ubd del vl l = Some u -> u_del u = del /\ u_val u = vl /\ In u l.
Proof.
  induction l as [|x t IH]; cbn [find_ubd]; [discriminate|].
  destruct (ubd_is del vl x) eqn:E.
  - intros H. apply some_inj in H. subst x. unfold ubd_is in E. apply andb_prop in E. destruct E as [E1 E2].
    apply Z.eqb_eq in E1, E2. repeat split; [exact E1 | exact E2 | left; reflexivity].
  - intros H. destruct (IH H) as (H1 & H2 & H3). repeat split; [exact H1 | exact H2 | right; exact H3].
Qed.

Lemma Forall_set_val (Q : val -> Prop) n l : Q n -> Forall Q l -> Forall Q (set_val n l).
Proof.
  intros Hn. induction l as [|x t IH]; intros Hl; cbn [set_val]; [constructor|].
  inversion Hl as [|? ? Hx Ht]; subst. destruct (v_id x =? v_id n); constructor; auto.
Qed.
Lemma Forall_remove_val (Q : val -> Prop) id l : Forall Q l -> Forall Q (remove_val id l).
Proof.
  induction l as [|x t IH]; intros Hl; cbn [remove_val]; [constructor|].
  inversion Hl as [|? ? Hx Ht]; subst. destruct (v_id x =? id); [exact Ht | constructor; auto].
Qed.
Lemma Forall_set_ubd (Q : ubd -> Prop) n l : Q n -> Forall Q l -> Forall Q (set_ubd n l).
Proof.
  intros Hn. induction l as [|x t IH]; intros Hl; cbn [set_ubd]; [constructor|].
  inversion Hl as [|? ? Hx Ht]; subst. destruct (ubd_is (u_del n) (u_val n) x); constructor; auto.
Qed.
Lemma Forall_remove_ubd (Q : ubd -> Prop) del vl l : Forall Q l -> Forall Q (remove_ubd del vl l).
Proof.
  induction l as [|x t IH]; intros Hl; cbn [remove_ubd]; [constructor|].
  inversion Hl as [|? ? Hx Ht]; subst. destruct (ubd_is del vl x); [exact Ht | constructor; auto].
Qed.

(* ---- Keeper.Unbond: the validator's ledger loses the tokens issued; no coin moves -------------------------- *)
Lemma unbond_ledgers st del vl sh st' iss :
  unbond st del vl sh = Some (st', iss) ->
  exists v, find_val vl (s_vals st) = Some v /\
    s_ubds st' = s_ubds st /\ s_bonded st' = s_bonded st /\ s_notbonded st' = s_notbonded st /\ s_escrow st' = s_escrow st /\
    sum_map val_bonded (s_vals st') = sum_map val_bonded (s_vals st) - (if v_status v =? 3 then iss else 0) /\
    sum_map val_notbonded (s_vals st') =
      sum_map val_notbonded (s_vals st) - (if (v_status v =? 1) || (v_status v =? 2) then iss else 0) /\
    (Forall (fun x => 0 <= v_tokens x) (s_vals st) -> Forall (fun x => 0 <= v_tokens x) (s_vals st')).
Proof.
  unfold unbond. destruct (find_dlg del vl (s_dels st)) as [d|]; [|discriminate].
  destruct (find_val vl (s_vals st)) as [v|] eqn:Ev; [|discriminate].
  destruct (d_shares d <? sh); [discriminate|].
  intros H0. exists v. split; [reflexivity|]. revert H0.
  destruct (v_shares v - sh =? 0) eqn:Er.
  - (* the validator's last shares: all its tokens are issued *)
    replace (0 <? 0) with false by reflexivity. cbn [andb].
    intros H. apply some_inj in H. inversion H as [[Hst Hiss]]. clear H. cbn [s_ubds s_bonded s_notbonded s_escrow s_vals].
    destruct (v_status v =? 1) eqn:E1.
    + apply Z.eqb_eq in E1.
      rewrite !(sum_map_remove_val _ vl _ v Ev). unfold val_bonded, val_notbonded. rewrite E1. cbn.
      repeat split; try reflexivity; try lia. apply Forall_remove_val.
    + assert (Hf : find_val (v_id (Val vl 0 (v_shares v - sh) (v_status v))) (s_vals st) = Some v) by exact Ev.
      rewrite !(sum_map_set_val _ _ _ v Hf). unfold val_bonded, val_notbonded. cbn [v_status v_tokens]. rewrite E1.
      repeat split; try reflexivity.
      * destruct (v_status v =? 3); lia.
      * destruct (false || (v_status v =? 2)); lia.
      * apply Forall_set_val. cbn [v_tokens]. lia.
  - destruct (tokens_from_shares v sh) as [t|]; [|discriminate].
    destruct (v_tokens v - truncate_int t <? 0) eqn:En; [discriminate|]. apply Z.ltb_ge in En.
    cbn [andb].
    intros H. apply some_inj in H. inversion H as [[Hst Hiss]]. clear H. cbn [s_ubds s_bonded s_notbonded s_escrow s_vals].
    assert (Hf : find_val (v_id (Val vl (v_tokens v - truncate_int t) (v_shares v - sh) (v_status v))) (s_vals st) = Some v) by exact Ev.
    rewrite !(sum_map_set_val _ _ _ v Hf). unfold val_bonded, val_notbonded. cbn [v_status v_tokens].
    repeat split; try reflexivity.
    + destruct (v_status v =? 3); lia.
    + destruct ((v_status v =? 1) || (v_status v =? 2)); lia.
    + apply Forall_set_val. cbn [v_tokens]. exact En.
Qed.

(* ---- MoveTokensFromValidator: the pool of that status pays the dispute escrow ----------------------------- *)
Lemma move_tokens_pools vr st status amount st' :
  move_tokens vr st status amount = Some st' ->
  0 <= amount /\ s_vals st' = s_vals st /\ s_ubds st' = s_ubds st /\
  s_bonded st' = s_bonded st - (if status =? 3 then amount else 0) /\
  s_notbonded st' = s_notbonded st - (if (status =? 1) || (status =? 2) then amount else 0).
Proof.
  unfold move_tokens. destruct (amount <? 0) eqn:Ea; [discriminate|]. apply Z.ltb_ge in Ea.
  destruct (status =? 3) eqn:E3.
  - apply Z.eqb_eq in E3. subst status. destruct (s_bonded st <? amount); [discriminate|].
    intros H. apply some_inj in H. subst st'. cbn. repeat split; try reflexivity; lia.
  - destruct (status =? 2) eqn:E2.
    + destruct (s_notbonded st <? amount); [discriminate|]. cbn [orb].
      intros H. apply some_inj in H. subst st'. cbn [s_vals s_ubds s_bonded s_notbonded]. rewrite orb_true_r.
      repeat split; try reflexivity; lia.
    + cbn [orb]. destruct (status =? 1) eqn:E1; [|discriminate]. cbn [andb].
      destruct (fix34 vr); [|discriminate]. destruct (s_notbonded st <? amount); [discriminate|].
      intros H. apply some_inj in H. subst st'. cbn. repeat split; try reflexivity; lia.
Qed.

(* ---- deductFromdelegation ------------------------------------------------------------------------------------ *)
Lemma deduct_from_delegation_good vr st del vl dt st' rem :
  deduct_from_delegation vr st del vl dt = Some (st', rem) -> good st st'.
Proof.
  unfold deduct_from_delegation. destruct (find_dlg del vl (s_dels st)) as [d|].
  2:{ intros H. apply some_inj in H. inversion H. apply good_refl. }
  destruct (find_val vl (s_vals st)) as [v|] eqn:Ev; [|discriminate].
  destruct (tokens_from_shares v (d_shares d)) as [cur|]; [|discriminate].
  destruct (if dt <=? cur then _ else _) as [[sh rm]|]; [|discriminate].
  destruct (sh =? 0).
  { intros H. apply some_inj in H. inversion H. apply good_refl. }
  destruct (unbond st del vl sh) as [[st1 removed]|] eqn:Eu; [|discriminate].
  destruct (move_tokens vr st1 (v_status v) removed) as [st2|] eqn:Em; [|discriminate].
  intros H. apply some_inj in H. inversion H. subst st' rem. clear H.
  apply unbond_ledgers in Eu. destruct Eu as (v0 & Ev0 & Hu & Hb & Hn & _ & Lb & Ln & Hwf).
  rewrite Ev in Ev0. apply some_inj in Ev0. subst v0.
  apply move_tokens_pools in Em. destruct Em as (Hpos & Mv & Mu & Mb & Mn).
  split.
  - unfold takes, bonded_gap, notbonded_gap, bonded_ledger, notbonded_ledger. rewrite Mv, Mu, Mb, Mn, Hu, Hb, Hn, Lb, Ln.
    destruct (v_status v =? 3); destruct ((v_status v =? 1) || (v_status v =? 2)); repeat split; lia.
  - unfold wf_stk. rewrite Mv, Mu, Hu. intros [W1 W2]. split; [apply Hwf; exact W1 | exact W2].
Qed.

(* ---- the loop over the unbonding entries: what leaves the entries is what is paid --------------------------- *)
Lemma ubd_loop_fixed_sum es : forall t es' ra tl,
  ubd_loop_fixed es t = (es', ra, tl) ->
  sum_z es' + ra = sum_z es /\ (Forall (fun e => 0 <= e) es -> Forall (fun e => 0 <= e) es').
Proof.
  induction es as [|e rest IH]; intros t es' ra tl; cbn [ubd_loop_fixed].
  - intros H. inversion H. subst. cbn [sum_z]. split; [lia | intros _; constructor].
  - destruct (e <? t) eqn:E.
    + destruct (ubd_loop_fixed rest (t - e)) as [[k ra'] tl'] eqn:Er.
      destruct (IH _ _ _ _ Er) as [H1 H2]. intros H. inversion H. subst. cbn [sum_z]. split; [lia|].
      intros Hall. inversion Hall; subst. apply H2. assumption.
    + apply Z.ltb_ge in E. intros H. inversion H. subst. cbn [sum_z]. split; [lia|].
      intros Hall. inversion Hall as [|? ? He Hrest]; subst. constructor; [lia | exact Hrest].
Qed.

Lemma ubd_loop_found_sum n es :
  (forall t es' ra tl, ubd_loop_found n es t = Some (es', ra, tl) ->
     sum_z es' + ra = sum_z es /\ (Forall (fun e => 0 <= e) es -> Forall (fun e => 0 <= e) es')) /\
  (forall x t es' ra tl, ubd_loop_found n (x :: es) t = Some (es', ra, tl) ->
     sum_z es' + ra = sum_z (x :: es) /\ (Forall (fun e => 0 <= e) (x :: es) -> Forall (fun e => 0 <= e) es')).
Proof.
  induction es as [|e rest [IH1 IH2]].
  - split; [intros t es' ra tl; cbn [ubd_loop_found]; discriminate|].
    intros x t es' ra tl. cbn [ubd_loop_found]. destruct (x <? t) eqn:E.
    + destruct (n =? 1); [|discriminate]. intros H. apply some_inj in H. inversion H. subst. cbn [sum_z].
      split; [lia | intros _; constructor].
    + apply Z.ltb_ge in E. intros H. apply some_inj in H. inversion H. subst. cbn [sum_z]. split; [lia|].
      intros Hall. inversion Hall; subst. constructor; [lia | constructor].
  - split; [exact (IH2 e)|].
    intros x t es' ra tl. cbn [ubd_loop_found]. destruct (x <? t) eqn:E.
    + destruct (ubd_loop_found n rest (t - x)) as [[[k ra'] tl']|] eqn:Er; [|discriminate].
      destruct (IH1 _ _ _ _ Er) as [H1 H2]. intros H. apply some_inj in H. inversion H. subst. cbn [sum_z]. split; [lia|].
      intros Hall. inversion Hall as [|? ? Hx Hall']; subst. inversion Hall' as [|? ? He Hrest]; subst.
      constructor; [exact He | apply H2; exact Hrest].
    + apply Z.ltb_ge in E. intros H. apply some_inj in H. inversion H. subst. cbn [sum_z]. split; [lia|].
      intros Hall. inversion Hall as [|? ? Hx Hall']; subst. constructor; [lia | exact Hall'].
Qed.

Lemma ubd_loop_sum vr es t es' ra tl :
  ubd_loop vr es t = Some (es', ra, tl) ->
  sum_z es' + ra = sum_z es /\ (Forall (fun e => 0 <= e) es -> Forall (fun e => 0 <= e) es').
Proof.
  unfold ubd_loop. destruct (fix13 vr).
  - intros H. apply some_inj in H. apply (ubd_loop_fixed_sum es t es' ra tl H).
  - apply (proj1 (ubd_loop_found_sum (Z.of_nat (List.length es)) es)).
Qed.

(* ---- deductUnbondingDelegation, for the unbonding delegation the store holds under that key ------------------ *)
Lemma deduct_unbonding_good vr st u t st' tl :
  find_ubd (u_del u) (u_val u) (s_ubds st) = Some u ->
  deduct_unbonding vr st u t = Some (st', tl) -> good st st'.
Proof.
  intros Hu. unfold deduct_unbonding. destruct (u_entries u) as [|e0 es0] eqn:Ee; [discriminate|].
  destruct (ubd_loop vr (e0 :: es0) t) as [[[es' ra] tl']|] eqn:El; [|discriminate].
  destruct ((ra <? 0) || (s_notbonded st <? ra)) eqn:E; [discriminate|].
  apply orb_false_elim in E. destruct E as [E1 E2]. apply Z.ltb_ge in E1.
  apply ubd_loop_sum in El. destruct El as [Hsum Hnn].
  intros H. apply some_inj in H. inversion H as [[Hst Htl]]. clear H.
  assert (Hbal : ubd_balance u = sum_z (e0 :: es0)) by (unfold ubd_balance; rewrite Ee; reflexivity).
  rewrite <- Hbal in Hsum.
  split.
  - unfold takes, bonded_gap, notbonded_gap, bonded_ledger, notbonded_ledger. cbn [s_vals s_ubds s_bonded s_notbonded].
    destruct es' as [|e1 es1].
    + rewrite (sum_map_remove_ubd _ _ _ _ u Hu). cbn [sum_z] in Hsum. repeat split; lia.
    + assert (Hk : find_ubd (u_del (Ubd (u_del u) (u_val u) (e1 :: es1))) (u_val (Ubd (u_del u) (u_val u) (e1 :: es1))) (s_ubds st) = Some u)
        by exact Hu.
      rewrite (sum_map_set_ubd _ _ _ u Hk). unfold ubd_balance at 3. cbn [u_entries]. repeat split; lia.
  - unfold wf_stk. cbn [s_vals s_ubds]. intros [W1 W2]. split; [exact W1|].
    assert (Hin : Forall (fun e => 0 <= e) (e0 :: es0)).
    { apply find_ubd_key in Hu. destruct Hu as (_ & _ & Hin). rewrite Forall_forall in W2. rewrite <- Ee. apply W2. exact Hin. }
    destruct es' as [|e1 es1]; [apply Forall_remove_ubd; exact W2|].
    apply Forall_set_ubd; [cbn [u_entries]; apply Hnn; exact Hin | exact W2].
Qed.

(* an unbonding delegation that is not the one stored under its key: the pool pays, no ledger entry shrinks.
   [undelegate] never does this: it passes what [find_ubd] returned *)
Lemma deduct_unbonding_foreign_refuted :
  exists st u t st' tl, backed st /\ wf_stk st /\ deduct_unbonding current st u t = Some (st', tl) /\ ~ backed st'.
Proof.
  exists (Stk [] [] [Ubd 3 0 [5]] 0 5 0), (Ubd 4 0 [5]), 5.
  eexists. eexists. split; [|split; [|split; [vm_compute; reflexivity|]]].
  - apply backedb_iff. vm_compute. reflexivity.
  - apply wf_stkb_sound. vm_compute. reflexivity.
  - rewrite <- backedb_iff. vm_compute. discriminate.
Qed.

(* ---- undelegate, the chase through the redelegation destinations, one origin, all origins --------------------- *)
Lemma undelegate_good vr st del vl dt st' rem :
  undelegate vr st del vl dt = Some (st', rem) -> good st st'.
Proof.
  unfold undelegate. destruct (deduct_from_delegation vr st del vl dt) as [[st1 r]|] eqn:E1; [|discriminate].
  apply deduct_from_delegation_good in E1.
  destruct (r =? 0). { intros H. apply some_inj in H. inversion H. subst. exact E1. }
  destruct (find_ubd del vl (s_ubds st1)) as [u|] eqn:Eu.
  - intros H. destruct (find_ubd_key _ _ _ _ Eu) as (Hd & Hv & _). rewrite <- Hd, <- Hv in Eu.
    apply (deduct_unbonding_good _ _ _ _ _ _ Eu) in H. eapply good_trans; eassumption.
  - intros H. apply some_inj in H. inversion H. subst. exact E1.
Qed.

Lemma chase_all_good vr del ds : forall st remaining acc st' rec,
  chase_all vr st del ds remaining acc = Some (st', rec) -> good st st'.
Proof.
  induction ds as [|d ds IH]; intros st remaining acc st' rec; cbn [chase_all].
  - destruct (remaining =? 0); [|discriminate]. intros H. apply some_inj in H. inversion H. apply good_refl.
  - destruct (remaining =? 0). { intros H. apply some_inj in H. inversion H. apply good_refl. }
    destruct (undelegate vr st del d (of_int remaining)) as [[st1 lft]|] eqn:E; [|discriminate].
    intros H. apply IH in H. apply undelegate_good in E. eapply good_trans; eassumption.
Qed.

Lemma escrow_origin_good vr reds st del vl share acc st' rec :
  escrow_origin vr reds st del vl share acc = Some (st', rec) -> good st st'.
Proof.
  unfold escrow_origin. destruct (undelegate vr st del vl (of_int share)) as [[st1 remaining]|] eqn:E; [|discriminate].
  apply undelegate_good in E.
  destruct (remaining =? 0). { intros H. apply some_inj in H. inversion H. subst. exact E. }
  destruct (fix38 vr).
  - intros H. apply chase_all_good in H. eapply good_trans; eassumption.
  - destruct (dsts reds del vl) as [|d ?]; [discriminate|].
    destruct (undelegate vr st1 del d (of_int remaining)) as [[st2 ?]|] eqn:E2; [|discriminate].
    intros H. apply some_inj in H. inversion H. subst. apply undelegate_good in E2.
    eapply good_trans; eassumption.
Qed.

Lemma escrow_loop_good vr reds os : forall st shs acc st' rec,
  escrow_loop vr reds st os shs acc = Some (st', rec) -> good st st'.
Proof.
  induction os as [|o os IH]; intros st shs acc st' rec; cbn [escrow_loop].
  - intros H. apply some_inj in H. inversion H. apply good_refl.
  - destruct shs as [|sh shs]. { intros H. apply some_inj in H. inversion H. apply good_refl. }
    destruct (escrow_origin vr reds st (o_del o) (o_val o) sh acc) as [[st1 acc1]|] eqn:E; [|discriminate].
    intros H. apply IH in H. apply escrow_origin_good in E. eapply good_trans; eassumption.
Qed.

Lemma escrow_good vr reds st origins power amt st' rec :
  escrow vr reds st origins power amt = Some (st', rec) -> good st st'.
Proof.
  unfold escrow. destruct origins as [|o os]. { intros H. apply some_inj in H. inversion H. apply good_refl. }
  destruct (_ =? 0); [discriminate|]. destruct (_ && _); [discriminate|]. apply escrow_loop_good.
Qed.

(* ---- EscrowReporterStake: the theorems ------------------------------------------------------------------------ *)
(* every variant of the model (as found, current, repaired, anything between): where the code as found knows no pool
   (F34) the transaction fails, so no state is produced *)
Theorem escrow_keeps_gaps vr reds st origins power amt st' rec :
  escrow vr reds st origins power amt = Some (st', rec) ->
  s_bonded st - bonded_ledger st = s_bonded st' - bonded_ledger st' /\
  s_notbonded st - notbonded_ledger st = s_notbonded st' - notbonded_ledger st' /\
  s_bonded st' <= s_bonded st /\ s_notbonded st' <= s_notbonded st.
Proof.
  intros H. apply escrow_good in H. destruct H as [(H1 & H2 & H3 & H4) _].
  unfold bonded_gap, notbonded_gap in *. repeat split; lia.
Qed.

Theorem escrow_backed vr reds st origins power amt st' rec :
  escrow vr reds st origins power amt = Some (st', rec) -> backed st -> backed st'.
Proof. intros H. apply escrow_good in H. destruct H as [H _]. apply takes_backed. exact H. Qed.

Theorem escrow_wf vr reds st origins power amt st' rec :
  escrow vr reds st origins power amt = Some (st', rec) -> wf_stk st -> wf_stk st'.
Proof. intros H. apply escrow_good in H. destruct H as [_ H]. exact H. Qed.

Theorem escrow_slack vr reds st origins power amt st' rec :
  escrow vr reds st origins power amt = Some (st', rec) -> slack st' = slack st.
Proof. intros H. apply escrow_good in H. destruct H as [H _]. apply takes_slack. exact H. Qed.

(* what the two ledgers lose is what arrives in the dispute escrow *)
Theorem escrow_ledger_to_escrow vr reds st origins power amt st' rec :
  escrow vr reds st origins power amt = Some (st', rec) ->
  (bonded_ledger st - bonded_ledger st') + (notbonded_ledger st - notbonded_ledger st') = s_escrow st' - s_escrow st /\
  0 <= bonded_ledger st - bonded_ledger st' /\ 0 <= notbonded_ledger st - notbonded_ledger st'.
Proof.
  intros H. pose proof (escrow_conserves _ _ _ _ _ _ _ _ H) as [Hc _]. unfold coins in Hc.
  apply escrow_good in H. destruct H as [(H1 & H2 & H3 & H4) _]. unfold bonded_gap, notbonded_gap in *. repeat split; lia.
Qed.

Lemma sum_map_nonneg {A : Type} (f : A -> Z) (l : list A) : Forall (fun x => 0 <= f x) l -> 0 <= sum_map f l.
Proof. induction 1 as [|x t Hx Ht IH]; cbn [sum_map]; lia. Qed.

Lemma sum_z_nonneg l : Forall (fun e => 0 <= e) l -> 0 <= sum_z l.
Proof. induction 1 as [|x t Hx Ht IH]; cbn [sum_z]; lia. Qed.

Lemma backed_wf_pools_nonneg st : wf_stk st -> backed st -> 0 <= s_bonded st /\ 0 <= s_notbonded st.
Proof.
  intros [W1 W2] [B1 B2]. unfold bonded_ledger, notbonded_ledger in *.
  assert (H1 : 0 <= sum_map val_bonded (s_vals st)).
  { apply sum_map_nonneg. eapply Forall_impl; [|exact W1]. intros v Hv. cbv beta in *. unfold val_bonded. destruct (v_status v =? 3); lia. }
  assert (H2 : 0 <= sum_map val_notbonded (s_vals st)).
  { apply sum_map_nonneg. eapply Forall_impl; [|exact W1]. intros v Hv. cbv beta in *. unfold val_notbonded.
    destruct ((v_status v =? 1) || (v_status v =? 2)); lia. }
  assert (H3 : 0 <= sum_map ubd_balance (s_ubds st)).
  { apply sum_map_nonneg. eapply Forall_impl; [|exact W2]. intros u Hu. cbv beta in *. apply sum_z_nonneg. exact Hu. }
  lia.
Qed.

(* non-vacuity: a bonded and an unbonding validator, delegations at both, an unbonding delegation; pools with some
   dust beyond the ledgers.  A major slash takes 6 000 000 from the bonded delegation, 1 000 000 from the two unbonding
   entries and 3 000 000 from the unbonding validator *)
Definition ex_stk : stk :=
  Stk [Val 0 5006000000 (sh 5006000000 0) 3; Val 1 1003000000 (sh 1003000000 0) 2]
      [Dlg 0 0 (sh 5000000000 0); Dlg 3 0 (sh 6000000 0); Dlg 1 1 (sh 1000000000 0); Dlg 3 1 (sh 3000000 0)]
      [Ubd 3 0 [600000; 900000]] 5006000007 1004500005 0.
Definition ex_origins : list origin := [Org 3 0 7000000; Org 3 1 3000000].

Example ex_escrow_backed :
  wf_stk ex_stk /\ backed ex_stk /\ bonded_ledger ex_stk = 5006000000 /\ notbonded_ledger ex_stk = 1004500000 /\
  exists st' rec, escrow current [] ex_stk ex_origins 10 10000000 = Some (st', rec) /\
    rec = [Org 3 0 7000000; Org 3 1 3000000] /\ s_ubds st' = [Ubd 3 0 [500000]] /\
    s_bonded st' = 5000000007 /\ bonded_ledger st' = 5000000000 /\
    s_notbonded st' = 1000500005 /\ notbonded_ledger st' = 1000500000 /\ s_escrow st' = 10000000.
Proof.
  split; [apply wf_stkb_sound; vm_compute; reflexivity|].
  split; [apply backedb_iff; vm_compute; reflexivity|].
  split; [vm_compute; reflexivity|]. split; [vm_compute; reflexivity|].
  eexists. eexists. split; [vm_compute; reflexivity|]. vm_compute. repeat split; reflexivity.
Qed.

(* ================================================================================================================ *)
(* the dispute histories: propose / add fee / begin block                                                            *)

(* a fee paid from stake ([pay ... true]) leaves the bonded pool although no validator of the slice loses tokens: the
   payer's stake sits with a bonded validator outside the slice, [w_bond] is its ledger.  The bonded pool has to back
   the slice's bonded validators and that outside stake *)
Definition outside_bond (w : world) : Z := sum_map snd (w_bond w).
Definition world_bonded_gap (w : world) : Z := bonded_gap (w_stk w) - outside_bond w.
Definition world_backed (w : world) : Prop :=
  bonded_ledger (w_stk w) + outside_bond w <= s_bonded (w_stk w) /\ notbonded_ledger (w_stk w) <= s_notbonded (w_stk w).
Definition bonds_nonneg (w : world) : Prop := Forall (fun p => 0 <= snd p) (w_bond w).

Definition wgood (w w' : world) : Prop :=
  world_bonded_gap w' = world_bonded_gap w /\ notbonded_gap (w_stk w') = notbonded_gap (w_stk w) /\
  s_bonded (w_stk w') <= s_bonded (w_stk w) /\ s_notbonded (w_stk w') <= s_notbonded (w_stk w) /\
  (wf_stk (w_stk w) -> wf_stk (w_stk w')) /\ (bonds_nonneg w -> bonds_nonneg w').

Definition world_backedb (w : world) : bool :=
  (bonded_ledger (w_stk w) + outside_bond w <=? s_bonded (w_stk w)) && (notbonded_ledger (w_stk w) <=? s_notbonded (w_stk w)).
Definition bonds_nonnegb (w : world) : bool := forallb (fun p => 0 <=? snd p) (w_bond w).
Lemma world_backedb_iff w : world_backedb w = true <-> world_backed w.
Proof. unfold world_backedb, world_backed. rewrite andb_true_iff, !Z.leb_le. tauto. Qed.
Lemma bonds_nonnegb_sound w : bonds_nonnegb w = true -> bonds_nonneg w.
Proof.
  unfold bonds_nonnegb, bonds_nonneg. intros H. rewrite forallb_forall in H. apply Forall_forall.
  intros p Hp. apply Z.leb_le. apply H. exact Hp.
Qed.

Lemma wgood_refl w : wgood w w.
Proof. unfold wgood. split; [lia|]. split; [lia|]. split; [lia|]. split; [lia|]. split; intros H; exact H. Qed.
Lemma wgood_trans a b c : wgood a b -> wgood b c -> wgood a c.
Proof.
  unfold wgood. intros (A1 & A2 & A3 & A4 & A5 & A6) (B1 & B2 & B3 & B4 & B5 & B6).
  split; [lia|]. split; [lia|]. split; [lia|]. split; [lia|]. split; intros H; [apply B5, A5, H | apply B6, A6, H].
Qed.
Lemma wgood_same w w' : w_stk w' = w_stk w -> w_bond w' = w_bond w -> wgood w w'.
Proof.
  intros Hs Hb. unfold wgood, world_bonded_gap, outside_bond, bonds_nonneg. rewrite Hs, Hb.
  split; [lia|]. split; [lia|]. split; [lia|]. split; [lia|]. split; intros H; exact H.
Qed.

Lemma world_backed_gaps w : world_backed w <-> 0 <= world_bonded_gap w /\ 0 <= notbonded_gap (w_stk w).
Proof. unfold world_backed, world_bonded_gap, bonded_gap, notbonded_gap. lia. Qed.

Lemma wgood_backed w w' : wgood w w' -> world_backed w -> world_backed w'.
Proof. intros (H1 & H2 & _). rewrite !world_backed_gaps. lia. Qed.

Lemma world_backed_stk w : world_backed w -> bonds_nonneg w -> backed (w_stk w).
Proof.
  intros [B1 B2] Hn. pose proof (sum_map_nonneg snd (w_bond w) Hn) as H. unfold outside_bond in B1. split; [lia | exact B2].
Qed.

(* the payer's bond: [bond_get] reads and [bond_set] writes the first entry of the account *)
Lemma bond_pay_sum a amt l :
  ~ bond_get a l < amt ->
  sum_map snd (bond_set a (bond_get a l - amt) l) <= sum_map snd l - amt /\
  (0 <= amt -> sum_map snd (bond_set a (bond_get a l - amt) l) = sum_map snd l - amt).
Proof.
  induction l as [|x t IH]; cbn [bond_get bond_set sum_map]; [lia|].
  destruct (fst x =? a); cbn [sum_map snd]; [lia|]. intros H. specialize (IH H). lia.
Qed.

Lemma bond_pay_nonneg a amt l :
  ~ bond_get a l < amt -> Forall (fun p => 0 <= snd p) l -> Forall (fun p => 0 <= snd p) (bond_set a (bond_get a l - amt) l).
Proof.
  induction l as [|x t IH]; cbn [bond_get bond_set]; intros H Hl; [constructor|].
  inversion Hl as [|? ? Hx Ht]; subst. destruct (fst x =? a).
  - constructor; [cbn [snd]; lia | exact Ht].
  - constructor; [exact Hx | apply IH; assumption].
Qed.

(* PayDisputeFee, whatever the sign of the amount: the pools' gaps do not shrink *)
Lemma pay_gaps_le w sender amount fb w1 :
  pay w sender amount fb = Some w1 ->
  world_bonded_gap w <= world_bonded_gap w1 /\ notbonded_gap (w_stk w1) = notbonded_gap (w_stk w).
Proof.
  unfold pay. destruct fb.
  - destruct (bond_get sender (w_bond w) <? amount) eqn:Eb; [discriminate|]. apply Z.ltb_ge in Eb.
    destruct (s_bonded (w_stk w) <? amount); [discriminate|].
    intros H. apply some_inj in H. subst w1.
    destruct (bond_pay_sum sender amount (w_bond w) ltac:(lia)) as [Hle _].
    unfold world_bonded_gap, outside_bond, bonded_gap, notbonded_gap, bonded_ledger, notbonded_ledger.
    cbn [w_stk w_bond s_vals s_ubds s_bonded s_notbonded]. split; lia.
  - destruct (bond_get sender (w_liq w) <? amount); [discriminate|].
    intros H. apply some_inj in H. subst w1.
    unfold world_bonded_gap, outside_bond, bonded_gap, notbonded_gap, bonded_ledger, notbonded_ledger.
    cbn [w_stk w_bond s_vals s_ubds s_bonded s_notbonded]. split; lia.
Qed.

(* a fee (never negative): from stake, the bonded pool and the payer's bond lose the same amount; from the account,
   neither pool changes *)
Lemma pay_wgood w sender amount fb w1 :
  0 <= amount -> pay w sender amount fb = Some w1 -> wgood w w1.
Proof.
  intros Hpos. unfold pay. destruct fb.
  - destruct (bond_get sender (w_bond w) <? amount) eqn:Eb; [discriminate|]. apply Z.ltb_ge in Eb.
    destruct (s_bonded (w_stk w) <? amount); [discriminate|].
    intros H. apply some_inj in H. subst w1.
    destruct (bond_pay_sum sender amount (w_bond w) ltac:(lia)) as [_ Heq]. specialize (Heq Hpos).
    unfold wgood, world_bonded_gap, outside_bond, bonded_gap, notbonded_gap, bonded_ledger, notbonded_ledger, wf_stk, bonds_nonneg.
    cbn [w_stk w_bond s_vals s_ubds s_bonded s_notbonded].
    split; [lia|]. split; [lia|]. split; [lia|]. split; [lia|]. split; [intros H; exact H|].
    intros Hn. apply bond_pay_nonneg; [lia | exact Hn].
  - destruct (bond_get sender (w_liq w) <? amount); [discriminate|].
    intros H. apply some_inj in H. subst w1.
    unfold wgood, world_bonded_gap, outside_bond, bonded_gap, notbonded_gap, bonded_ledger, notbonded_ledger, wf_stk, bonds_nonneg.
    cbn [w_stk w_bond s_vals s_ubds s_bonded s_notbonded].
    split; [lia|]. split; [lia|]. split; [lia|]. split; [lia|]. split; intros H; exact H.
Qed.

Lemma good_wgood w w' : good (w_stk w) (w_stk w') -> w_bond w' = w_bond w -> wgood w w'.
Proof.
  intros [(H1 & H2 & H3 & H4) Hw] Hb. unfold wgood, world_bonded_gap, outside_bond, bonds_nonneg. rewrite Hb.
  split; [lia|]. split; [lia|]. split; [lia|]. split; [lia|]. split; [exact Hw | intros H; exact H].
Qed.

Lemma slash_and_jail_wgood vr e w id r cat w' : slash_and_jail vr e w id r cat = Some w' -> wgood w w'.
Proof.
  unfold slash_and_jail. destruct (slash_pct cat) as [pct|]; [|discriminate].
  destruct (find_snap _ _ _ _) as [s|]; [|discriminate].
  destruct (escrow _ _ _ _ _ _) as [[st' recd]|] eqn:Ee; [|discriminate].
  apply escrow_good in Ee.
  destruct (jail_secs cat) as [secs|].
  - destruct (jail _ _ _ _) as [reps'|]; [|discriminate].
    intros H. apply some_inj in H. subst w'. apply good_wgood; [exact Ee | reflexivity].
  - intros H. apply some_inj in H. subst w'. apply good_wgood; [exact Ee | reflexivity].
Qed.

Lemma dispute_fee_nonneg power cat f : 0 <= power -> dispute_fee power cat = Some f -> 0 <= f.
Proof.
  intros Hp H. destruct (dispute_fee_is_slash _ _ _ H) as (pct & Hpct & Hf & _).
  apply slash_pct_cases in Hpct. destruct Hpct as [[_ ->] | [[_ ->] | [_ ->]]]; lia.
Qed.

Lemma propose_wgood vr e w sender r cat fee fb w' :
  propose vr e w sender r cat fee fb = Some w' -> wgood w w'.
Proof.
  unfold propose. destruct (fee <? ONE_PERCENT) eqn:Ef; [discriminate|]. apply Z.ltb_ge in Ef.
  destruct (find_disp_report r cat (w_disps w)); [discriminate|].
  destruct ((rp_power r <? 0) || (9223372036854775807 <? rp_power r)) eqn:Epw; [discriminate|].
  apply orb_false_elim in Epw. destruct Epw as [Ep0 _]. apply Z.ltb_ge in Ep0.
  destruct (dispute_fee (rp_power r) cat) as [dfee|] eqn:Edf; [|discriminate].
  pose proof (dispute_fee_nonneg _ _ _ Ep0 Edf) as Hdf.
  set (paid := if dfee <? fee then dfee else fee).
  assert (Hpaid : 0 <= paid) by (unfold paid, ONE_PERCENT in *; destruct (dfee <? fee); lia).
  destruct (pay w sender paid fb) as [w1|] eqn:Epay; [|discriminate].
  apply (pay_wgood _ _ _ _ _ Hpaid) in Epay.
  destruct (paid =? dfee).
  - destruct (slash_and_jail vr e w1 (next_id (w_disps w)) r cat) as [w2|] eqn:Es; [|discriminate].
    intros H. apply some_inj in H. subst w'. apply slash_and_jail_wgood in Es.
    eapply wgood_trans; [exact Epay|]. eapply wgood_trans; [exact Es|]. apply wgood_same; reflexivity.
  - intros H. apply some_inj in H. subst w'. eapply wgood_trans; [exact Epay|]. apply wgood_same; reflexivity.
Qed.

Lemma add_fee_wgood vr e w sender id amount fb w' :
  add_fee vr e w sender id amount fb = Some w' -> wgood w w'.
Proof.
  intros H. apply add_fee_inv in H. destruct H as (d & amt & w1 & _ & Hpos & _ & Hlt & _ & Hamt & Hpay & Hcase).
  assert (Ha : 0 <= amt) by lia.
  apply (pay_wgood _ _ _ _ _ Ha) in Hpay. cbv zeta in Hcase.
  destruct Hcase as [(_ & w2 & Hs & ->) | (_ & ->)].
  - apply slash_and_jail_wgood in Hs.
    eapply wgood_trans; [exact Hpay|]. eapply wgood_trans; [exact Hs|]. apply wgood_same; reflexivity.
  - eapply wgood_trans; [exact Hpay|]. apply wgood_same; reflexivity.
Qed.

Lemma step_wgood vr e w o : wgood w (snd (step vr e w o)).
Proof.
  destruct o as [sender r cat fee fb | sender id amount fb | now]; cbn [step].
  - destruct (propose vr e w sender r cat fee fb) as [w'|] eqn:E; cbn [snd]; [|apply wgood_refl].
    apply propose_wgood in E. exact E.
  - destruct (add_fee vr e w sender id amount fb) as [w'|] eqn:E; cbn [snd]; [|apply wgood_refl].
    apply add_fee_wgood in E. exact E.
  - cbn [snd]. apply wgood_same; reflexivity.
Qed.

Lemma run_wgood vr e ops : forall w, wgood w (run vr e w ops).
Proof.
  unfold run. induction ops as [|o ops IH]; intros w; cbn [fold_left]; [apply wgood_refl|].
  eapply wgood_trans; [apply step_wgood | apply IH].
Qed.

(* ---- the theorems over histories -------------------------------------------------------------------------------- *)
Theorem run_keeps_gaps vr e ops w :
  let w' := run vr e w ops in
  s_bonded (w_stk w') - bonded_ledger (w_stk w') - outside_bond w' = s_bonded (w_stk w) - bonded_ledger (w_stk w) - outside_bond w /\
  s_notbonded (w_stk w') - notbonded_ledger (w_stk w') = s_notbonded (w_stk w) - notbonded_ledger (w_stk w) /\
  s_bonded (w_stk w') <= s_bonded (w_stk w) /\ s_notbonded (w_stk w') <= s_notbonded (w_stk w).
Proof.
  cbv zeta. destruct (run_wgood vr e ops w) as (H1 & H2 & H3 & H4 & _).
  unfold world_bonded_gap, bonded_gap, notbonded_gap in *. repeat split; lia.
Qed.

Theorem run_world_backed vr e ops w : world_backed w -> world_backed (run vr e w ops).
Proof. apply wgood_backed. apply run_wgood. Qed.

Theorem run_backed vr e ops w :
  world_backed w -> bonds_nonneg w -> backed (w_stk (run vr e w ops)).
Proof.
  intros Hb Hn. apply world_backed_stk; [apply run_world_backed; exact Hb|].
  destruct (run_wgood vr e ops w) as (_ & _ & _ & _ & _ & H). apply H. exact Hn.
Qed.

Theorem run_wf vr e ops w : wf_stk (w_stk w) -> wf_stk (w_stk (run vr e w ops)).
Proof. destruct (run_wgood vr e ops w) as (_ & _ & _ & _ & H & _). exact H. Qed.

(* without the stake outside the slice in the hypothesis the statement is false in the model: the bonded pool exactly
   covers the one validator of the slice, the payer's 10 000 bonded elsewhere are not in it; a first payment from that
   stake (1 % of the 1 000 000 fee of a warning dispute over power 100) leaves the pool short *)
Definition naive_env : env := Env [] [] [].
Definition naive_world : world :=
  W (Stk [Val 0 1000000 (sh 1000000 0) 3] [Dlg 0 0 (sh 1000000 0)] [] 1000000 0 0) [] [] [] [] [(7, 10000)] [] 0.
Definition naive_ops : list op := [OPropose 7 (Rep 3 100 0 0 0 5 true 0) 1 10000 true].

Theorem run_backed_without_outside_bond_refuted :
  exists e w ops, backed (w_stk w) /\ wf_stk (w_stk w) /\ bonds_nonneg w /\ ~ backed (w_stk (run current e w ops)).
Proof.
  exists naive_env, naive_world, naive_ops. split; [|split; [|split]].
  - apply backedb_iff. vm_compute. reflexivity.
  - apply wf_stkb_sound. vm_compute. reflexivity.
  - apply bonds_nonnegb_sound. vm_compute. reflexivity.
  - rewrite <- backedb_iff. vm_compute. discriminate.
Qed.

(* non-vacuity over a history: the payer (account 7) has 100 TRB bonded outside the slice; a minor dispute is proposed
   with part of the fee from that stake, completed from the account: the slash of 500 000 is taken, both gaps are
   what they were *)
Definition ex_world : world :=
  W (Stk wit_vals [Dlg 3 0 (sh 10000000 0)] [] 15120000009 4 0) [Rps 3 false 0] [Agg 0 5 3 false] [] []
    [(7, 100000000)] [(7, 100000000)] 1700000100000000000.
Definition ex_world_ops : list op :=
  [OPropose 7 wit18_real 2 200000 true; OBegin 1700040000000000000; OAddFee 7 1 400000 false].

Example ex_run_backed :
  let w := run current wit18_env ex_world ex_world_ops in
  world_backed ex_world /\ bonds_nonneg ex_world /\ wf_stk (w_stk ex_world) /\
  map rc_total (w_rcds w) = [500000] /\ s_escrow (w_stk w) = 1000000 /\ w_bond w = [(7, 99800000)] /\
  s_bonded (w_stk w) = 15119300009 /\ bonded_ledger (w_stk w) = 15019500000 /\ outside_bond w = 99800000 /\
  world_bonded_gap w = 9 /\ world_bonded_gap ex_world = 9 /\ notbonded_gap (w_stk w) = 4.
Proof.
  cbv zeta. split; [apply world_backedb_iff; vm_compute; reflexivity|].
  split; [apply bonds_nonnegb_sound; vm_compute; reflexivity|].
  split; [apply wf_stkb_sound; vm_compute; reflexivity|].
  vm_compute. repeat split; reflexivity.
Qed.
