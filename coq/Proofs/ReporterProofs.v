(* C10 — lemmas about Model/Reporter.v *)
From Coq Require Import ZArith List Bool Lia String Sorted Permutation.
From Verif Require Import Base.Harness Base.Dec Model.Reporter.
Import ListNotations.
Open Scope Z_scope.

Ltac Zify.zify_post_hook ::= Z.to_euclidean_division_equations.

(* ---------------------------------------------------------------------------------------- *)
(* 1. valuation of one delegation                                                            *)
(* ---------------------------------------------------------------------------------------- *)
(* x = sh*T/S exactly; val_trunc = floor x; val_round = floor (round18 x) *)
Lemma quot_nonneg_div a b : 0 <= a -> 0 < b -> Z.quot a b = a / b.
Proof. intros. apply Z.quot_div_nonneg; lia. Qed.

Lemma val_trunc_floor v sh :
  0 <= sh -> 0 <= v_tokens v -> 0 < v_shares v ->
  val_trunc v sh = (sh * v_tokens v) / v_shares v.
Proof.
  intros Hs Ht HS. unfold val_trunc, truncate_int, dec_quo_trunc.
  set (a := sh * v_tokens v). assert (Ha : 0 <= a) by (unfold a; nia).
  assert (HP : 0 < P) by reflexivity.
  rewrite (quot_nonneg_div (a * P * P)) by nia.
  assert (H1 : 0 <= a * P * P / v_shares v) by (apply Z.div_pos; nia).
  rewrite (quot_nonneg_div (a * P * P / v_shares v)) by lia.
  assert (H2 : 0 <= a * P * P / v_shares v / P) by (apply Z.div_pos; lia).
  rewrite quot_nonneg_div by lia.
  rewrite Z.div_div by lia. rewrite Z.div_div by nia.
  replace (v_shares v * (P * P)) with (v_shares v * (P * P)) by ring.
  replace (a * P * P) with (a * (P * P)) by ring.
  rewrite Z.div_mul_cancel_r; nia.
Qed.

Lemma val_round_bounds v sh :
  0 <= sh -> 0 <= v_tokens v -> 0 < v_shares v ->
  val_trunc v sh <= val_round v sh <= val_trunc v sh + 1.
Proof.
  intros Hs Ht HS. rewrite val_trunc_floor by assumption.
  unfold val_round, truncate_int, dec_quo.
  set (a := sh * v_tokens v). assert (Ha : 0 <= a) by (unfold a; nia).
  assert (HP : 0 < P) by reflexivity.
  set (S := v_shares v) in *.
  rewrite (quot_nonneg_div (a * P * P)) by nia.
  set (d := a * P * P / S).
  assert (Hd : 0 <= d) by (apply Z.div_pos; nia).
  pose proof (chop_round_err d) as He.
  pose proof (chop_round_nonneg_sign d Hd) as Hc.
  set (c := chop_round d) in *.
  rewrite quot_nonneg_div by lia.
  (* d = floor (a*P*P/S); c within 1/2 of d/P; result floor(c/P) *)
  assert (Hdd : d * S <= a * P * P < d * S + S).
  { unfold d. pose proof (Z.div_mod (a * P * P) S ltac:(lia)). pose proof (Z.mod_pos_bound (a * P * P) S HS). nia. }
  set (q := a / S).
  assert (Hq : q * S <= a < q * S + S).
  { unfold q. pose proof (Z.div_mod a S ltac:(lia)). pose proof (Z.mod_pos_bound a S HS). nia. }
  assert (Hlo : q * P * P <= d).
  { unfold d. apply Z.div_le_lower_bound; [lia|]. nia. }
  assert (Hhi : d < (q + 1) * P * P).
  { unfold d. apply Z.div_lt_upper_bound; [lia|]. nia. }
  assert (Hc1 : q * P <= c) by (unfold P in *; lia).
  assert (Hc2 : c <= (q + 1) * P) by (unfold P in *; lia).
  split.
  - apply Z.div_le_lower_bound; lia.
  - assert (c / P <= (q + 1) * P / P) by (apply Z.div_le_mono; lia).
    rewrite Z.div_mul in H by lia. lia.
Qed.

Lemma val_round_nonneg v sh : 0 <= sh -> 0 <= v_tokens v -> 0 < v_shares v -> 0 <= val_round v sh.
Proof.
  intros Hs Ht HS. pose proof (val_round_bounds v sh Hs Ht HS) as [H _].
  rewrite val_trunc_floor in H by assumption.
  assert (0 <= sh * v_tokens v / v_shares v) by (apply Z.div_pos; nia). lia.
Qed.

(* exact exchange rate (never slashed: shares = tokens * 10^18): both valuations agree *)
Lemma val_exact_rate v sh :
  0 <= sh -> 0 < v_tokens v -> v_shares v = v_tokens v * P ->
  val_round v sh = val_trunc v sh /\ val_trunc v sh = sh / P.
Proof.
  intros Hs Ht HS. assert (HP : 0 < P) by reflexivity.
  assert (Htr : val_trunc v sh = sh / P).
  { rewrite val_trunc_floor by nia. rewrite HS.
    replace (sh * v_tokens v) with (sh * v_tokens v) by ring.
    rewrite (Z.mul_comm (v_tokens v) P). rewrite Z.div_mul_cancel_r by lia. reflexivity. }
  split; [|exact Htr]. rewrite Htr.
  unfold val_round, truncate_int, dec_quo. rewrite HS.
  replace (sh * v_tokens v * P * P) with ((sh * P) * (v_tokens v * P)) by ring.
  rewrite Z.quot_mul by nia.
  replace (sh * P) with (sh * P) by ring. rewrite chop_round_exact.
  apply quot_nonneg_div; lia.
Qed.

(* ---------------------------------------------------------------------------------------- *)
(* 2. bonded tokens, HasMin                                                                  *)
(* ---------------------------------------------------------------------------------------- *)
Definition view_nonneg (vw : sview) : Prop :=
  (forall v, In v (sv_vals vw) -> 0 <= v_tokens v /\ 0 < v_shares v) /\
  (forall d, In d (sv_dels vw) -> 0 <= d_shares d).

Lemma find_val_in vs id v : find_val vs id = Some v -> In v vs /\ v_id v = id.
Proof.
  induction vs as [|x r IH]; cbn; [discriminate|].
  destruct (v_id x =? id) eqn:E; intros H.
  - inversion H; subst. apply Z.eqb_eq in E. auto.
  - destruct (IH H). auto.
Qed.

Lemma bonded_value_nonneg vw d : view_nonneg vw -> In d (sv_dels vw) -> 0 <= bonded_value vw d.
Proof.
  intros [Hv Hd] Hin. unfold bonded_value.
  destruct (find_val (sv_vals vw) (d_val d)) as [v|] eqn:E; [|lia].
  destruct (bonded v); [|lia]. apply find_val_in in E. destruct E as [E _].
  destruct (Hv v E). apply val_round_nonneg; auto.
Qed.

Lemma dels_of_in ds a d : In d (dels_of ds a) -> In d ds /\ d_del d = a.
Proof. unfold dels_of. rewrite filter_In. intros [H1 H2]. apply Z.eqb_eq in H2. auto. Qed.

Lemma has_min_loop_sound vw m ds : forall acc,
  (forall d, In d ds -> 0 <= bonded_value vw d) ->
  has_min_loop vw m acc ds = true -> m <= acc + zsum (map (bonded_value vw) ds).
Proof.
  induction ds as [|d r IH]; intros acc Hnn; cbn [has_min_loop map zsum].
  - intros H. apply Z.leb_le in H. lia.
  - pose proof (Hnn d (or_introl eq_refl)) as Hd. unfold bonded_value in Hd |- *.
    assert (Hr : 0 <= zsum (map (bonded_value vw) r)).
    { clear - Hnn. induction r as [|x r IH]; cbn; [lia|].
      pose proof (Hnn x (or_intror (or_introl eq_refl))).
      assert (forall d0, In d0 (d :: r) -> 0 <= bonded_value vw d0) by (intros d0 [H0|H0]; apply Hnn; cbn; auto).
      specialize (IH H0). lia. }
    destruct (find_val (sv_vals vw) (d_val d)) as [v|]; [|discriminate].
    destruct (bonded v).
    + destruct (m <=? acc + val_round v (d_shares d)) eqn:E.
      * intros _. apply Z.leb_le in E. unfold bonded_value in Hr. lia.
      * intros H. apply IH in H; [|intros; apply Hnn; cbn; auto]. unfold bonded_value in H. lia.
    + intros H. apply IH in H; [|intros; apply Hnn; cbn; auto]. unfold bonded_value in H. lia.
Qed.

(* HasMin answers true only if the bonded tokens reach the minimum *)
Lemma has_min_sound vw a m : view_nonneg vw -> has_min vw a m = true -> m <= bonded_tokens vw a.
Proof.
  intros Hv H. unfold has_min in H. apply has_min_loop_sound in H; [unfold bonded_tokens; lia|].
  intros d Hd. apply dels_of_in in Hd. apply bonded_value_nonneg; tauto.
Qed.

(* ... and (when every delegation's validator exists) exactly then *)
Lemma has_min_loop_complete vw m ds : forall acc,
  (forall d, In d ds -> find_val (sv_vals vw) (d_val d) <> None) ->
  m <= acc + zsum (map (bonded_value vw) ds) -> has_min_loop vw m acc ds = true.
Proof.
  induction ds as [|d r IH]; intros acc Hf; cbn [has_min_loop map zsum].
  - intros H. apply Z.leb_le. lia.
  - pose proof (Hf d (or_introl eq_refl)) as Hd. unfold bonded_value at 1.
    destruct (find_val (sv_vals vw) (d_val d)) as [v|]; [|congruence].
    destruct (bonded v).
    + destruct (m <=? acc + val_round v (d_shares d)) eqn:E; [reflexivity|].
      intros H. apply IH; [intros; apply Hf; cbn; auto | lia].
    + intros H. apply IH; [intros; apply Hf; cbn; auto | lia].
Qed.

(* ---------------------------------------------------------------------------------------- *)
(* 3. the selection table                                                                    *)
(* ---------------------------------------------------------------------------------------- *)
Definition sorted_sel (l : list selection) : Prop := StronglySorted Z.lt (map s_addr l).

Lemma sel_get_in l a s : sel_get l a = Some s -> In s l /\ s_addr s = a.
Proof.
  induction l as [|x r IH]; cbn; [discriminate|].
  destruct (s_addr x =? a) eqn:E; intros H.
  - inversion H; subst. apply Z.eqb_eq in E. auto.
  - destruct (IH H). auto.
Qed.

Lemma sel_get_none_lt l a : sorted_sel l -> (forall x, In x l -> a < s_addr x) -> sel_get l a = None.
Proof.
  intros _ H. induction l as [|x r IH]; cbn; [reflexivity|].
  pose proof (H x (or_introl eq_refl)). destruct (s_addr x =? a) eqn:E; [apply Z.eqb_eq in E; lia|].
  apply IH. intros; apply H; cbn; auto.
Qed.

Lemma sorted_tail x r : sorted_sel (x :: r) -> sorted_sel r /\ (forall y, In y r -> s_addr x < s_addr y).
Proof.
  unfold sorted_sel. cbn. intros H. inversion H as [|? ? H1 H2]; subst. split; [exact H1|].
  intros y Hy. rewrite Forall_forall in H2. apply H2. apply in_map. exact Hy.
Qed.

Lemma sel_set_sorted l n : sorted_sel l -> sorted_sel (sel_set l n).
Proof.
  induction l as [|x r IH]; intros Hs.
  - cbn. unfold sorted_sel. cbn. constructor; constructor.
  - destruct (sorted_tail x r Hs) as [Hr Hlt]. cbn [sel_set].
    destruct (s_addr x =? s_addr n) eqn:E.
    + apply Z.eqb_eq in E. unfold sorted_sel in *. cbn in *. rewrite <- E.
      inversion Hs; subst. constructor; assumption.
    + apply Z.eqb_neq in E. destruct (s_addr n <? s_addr x) eqn:E2.
      * apply Z.ltb_lt in E2. unfold sorted_sel in *. cbn in *. constructor; [exact Hs|].
        constructor; [exact E2|]. rewrite Forall_forall. intros y Hy. apply in_map_iff in Hy.
        destruct Hy as [z [Hz1 Hz2]]. subst. specialize (Hlt z Hz2). lia.
      * apply Z.ltb_ge in E2. specialize (IH Hr). unfold sorted_sel in *. cbn.
        constructor; [exact IH|]. rewrite Forall_forall. intros y Hy. apply in_map_iff in Hy.
        destruct Hy as [z [Hz1 Hz2]]. subst.
        assert (Hin : forall z, In z (sel_set r n) -> z = n \/ In z r).
        { clear. induction r as [|y r IH]; cbn; intros z.
          - intros [H|[]]; auto.
          - destruct (s_addr y =? s_addr n); [intros [H|H]; auto|].
            destruct (s_addr n <? s_addr y); [intros [H|H]; auto|].
            intros [H|H]; auto. destruct (IH z H); auto. }
        destruct (Hin z Hz2) as [H|H]; [subst; lia | apply Hlt; exact H].
Qed.

Lemma sel_get_set_same l n : sorted_sel l -> sel_get (sel_set l n) (s_addr n) = Some n.
Proof.
  induction l as [|x r IH]; intros Hs; cbn.
  - rewrite Z.eqb_refl. reflexivity.
  - destruct (sorted_tail x r Hs) as [Hr _].
    destruct (s_addr x =? s_addr n) eqn:E; cbn.
    + rewrite Z.eqb_refl. reflexivity.
    + destruct (s_addr n <? s_addr x); cbn; [rewrite Z.eqb_refl; reflexivity|].
      rewrite E. apply IH. exact Hr.
Qed.

Lemma sel_get_set_other l n a : sorted_sel l -> a <> s_addr n -> sel_get (sel_set l n) a = sel_get l a.
Proof.
  induction l as [|x r IH]; intros Hs Ha; cbn.
  - destruct (s_addr n =? a) eqn:E; [apply Z.eqb_eq in E; congruence | reflexivity].
  - destruct (sorted_tail x r Hs) as [Hr _].
    destruct (s_addr x =? s_addr n) eqn:E; cbn.
    + apply Z.eqb_eq in E. destruct (s_addr n =? a) eqn:E1; [apply Z.eqb_eq in E1; congruence|].
      destruct (s_addr x =? a) eqn:E2; [apply Z.eqb_eq in E2; congruence | reflexivity].
    + destruct (s_addr n <? s_addr x); cbn.
      * destruct (s_addr n =? a) eqn:E1; [apply Z.eqb_eq in E1; congruence | reflexivity].
      * destruct (s_addr x =? a); [reflexivity | apply IH; assumption].
Qed.

Definition cnt (b : bool) : Z := if b then 1 else 0.

Lemma sel_count_cons x l r : sel_count (x :: l) r = cnt (s_reporter x =? r) + sel_count l r.
Proof.
  unfold sel_count, selectors_of. cbn [filter]. destruct (s_reporter x =? r); cbn [cnt List.length]; lia.
Qed.

Lemma sel_count_nonneg l r : 0 <= sel_count l r.
Proof. unfold sel_count. lia. Qed.

Lemma sel_count_set l n r : sorted_sel l ->
  sel_count (sel_set l n) r =
  sel_count l r + cnt (s_reporter n =? r)
  - match sel_get l (s_addr n) with Some o => cnt (s_reporter o =? r) | None => 0 end.
Proof.
  induction l as [|x l IH]; intros Hs.
  - cbn [sel_set sel_get]. rewrite sel_count_cons. lia.
  - destruct (sorted_tail x l Hs) as [Hr Hlt]. cbn [sel_set sel_get].
    destruct (s_addr x =? s_addr n) eqn:E.
    + rewrite !sel_count_cons. lia.
    + destruct (s_addr n <? s_addr x) eqn:E2.
      * apply Z.ltb_lt in E2. rewrite (sel_get_none_lt l (s_addr n) Hr).
        -- rewrite !sel_count_cons. lia.
        -- intros y Hy. specialize (Hlt y Hy). lia.
      * rewrite !sel_count_cons. rewrite IH by exact Hr. lia.
Qed.

Lemma sel_count_zero l r : (forall s, In s l -> s_reporter s <> r) -> sel_count l r = 0.
Proof.
  induction l as [|x l IH]; intros H; [reflexivity|]. rewrite sel_count_cons.
  rewrite IH by (intros; apply H; cbn; auto).
  pose proof (H x (or_introl eq_refl)). destruct (s_reporter x =? r) eqn:E; [apply Z.eqb_eq in E; congruence | reflexivity].
Qed.

Lemma sel_in_get l s : sorted_sel l -> In s l -> sel_get l (s_addr s) = Some s.
Proof.
  induction l as [|x l IH]; intros Hs []; cbn.
  - subst. rewrite Z.eqb_refl. reflexivity.
  - destruct (sorted_tail x l Hs) as [Hr Hlt]. specialize (Hlt s H).
    destruct (s_addr x =? s_addr s) eqn:E; [apply Z.eqb_eq in E; lia|]. apply IH; assumption.
Qed.

(* hooks only touch the counter *)
Lemma sel_get_map f l a :
  (forall s, s_addr (f s) = s_addr s) -> sel_get (map f l) a = option_map f (sel_get l a).
Proof.
  intros Hf. induction l as [|x l IH]; cbn; [reflexivity|]. rewrite Hf.
  destruct (s_addr x =? a); [reflexivity | exact IH].
Qed.

Lemma sel_count_map f l r :
  (forall s, s_reporter (f s) = s_reporter s) -> sel_count (map f l) r = sel_count l r.
Proof.
  intros Hf. induction l as [|x l IH]; [reflexivity|]. cbn [map]. rewrite !sel_count_cons, Hf, IH. reflexivity.
Qed.

Lemma sorted_map f l : (forall s, s_addr (f s) = s_addr s) -> sorted_sel l -> sorted_sel (map f l).
Proof.
  intros Hf. unfold sorted_sel. rewrite map_map.
  replace (map (fun x => s_addr (f x)) l) with (map s_addr l); [auto|].
  apply map_ext. intros; symmetry; apply Hf.
Qed.

(* reporters table *)
Lemma rep_get_set_same l n : rep_get (rep_set l n) (r_addr n) <> None.
Proof.
  induction l as [|x l IH]; cbn.
  - rewrite Z.eqb_refl. discriminate.
  - destruct (r_addr x =? r_addr n) eqn:E; cbn.
    + rewrite Z.eqb_refl. discriminate.
    + destruct (r_addr n <? r_addr x); cbn; [rewrite Z.eqb_refl; discriminate|].
      rewrite E. exact IH.
Qed.

Lemma rep_get_set_keeps l n a : rep_get l a <> None -> rep_get (rep_set l n) a <> None.
Proof.
  induction l as [|x l IH]; cbn; [congruence|].
  destruct (r_addr x =? r_addr n) eqn:E; cbn.
  - apply Z.eqb_eq in E. destruct (r_addr x =? a) eqn:E1.
    + apply Z.eqb_eq in E1. replace (r_addr n =? a) with true by (symmetry; apply Z.eqb_eq; lia). discriminate.
    + replace (r_addr n =? a) with false by (symmetry; apply Z.eqb_neq; apply Z.eqb_neq in E1; lia). auto.
  - destruct (r_addr n <? r_addr x); cbn.
    + destruct (r_addr n =? a); [discriminate|]. auto.
    + destruct (r_addr x =? a); [discriminate|]. exact IH.
Qed.

(* rep_set on a sorted table behaves like a map update *)
Definition sorted_rep (l : list reporter) : Prop := StronglySorted Z.lt (map r_addr l).

Lemma rep_sorted_tail x r : sorted_rep (x :: r) -> sorted_rep r /\ (forall y, In y r -> r_addr x < r_addr y).
Proof.
  unfold sorted_rep. cbn. intros H. inversion H as [|? ? H1 H2]; subst. split; [exact H1|].
  intros y Hy. rewrite Forall_forall in H2. apply H2. apply in_map. exact Hy.
Qed.

Lemma rep_set_in l n z : In z (rep_set l n) -> z = n \/ In z l.
Proof.
  induction l as [|y r IH]; cbn.
  - intros [H|[]]; auto.
  - destruct (r_addr y =? r_addr n); [intros [H|H]; auto|].
    destruct (r_addr n <? r_addr y); [intros [H|H]; auto|].
    intros [H|H]; auto. destruct (IH H); auto.
Qed.

Lemma rep_set_sorted l n : sorted_rep l -> sorted_rep (rep_set l n).
Proof.
  induction l as [|x r IH]; intros Hs.
  - cbn. unfold sorted_rep. cbn. constructor; constructor.
  - destruct (rep_sorted_tail x r Hs) as [Hr Hlt]. cbn [rep_set].
    destruct (r_addr x =? r_addr n) eqn:E.
    + apply Z.eqb_eq in E. unfold sorted_rep in *. cbn in *. rewrite <- E.
      inversion Hs; subst. constructor; assumption.
    + apply Z.eqb_neq in E. destruct (r_addr n <? r_addr x) eqn:E2.
      * apply Z.ltb_lt in E2. unfold sorted_rep in *. cbn in *. constructor; [exact Hs|].
        constructor; [exact E2|]. rewrite Forall_forall. intros y Hy. apply in_map_iff in Hy.
        destruct Hy as [z [Hz1 Hz2]]. subst. specialize (Hlt z Hz2). lia.
      * apply Z.ltb_ge in E2. specialize (IH Hr). unfold sorted_rep in *. cbn.
        constructor; [exact IH|]. rewrite Forall_forall. intros y Hy. apply in_map_iff in Hy.
        destruct Hy as [z [Hz1 Hz2]]. subst.
        destruct (rep_set_in r n z Hz2) as [H|H]; [subst; lia | apply Hlt; exact H].
Qed.

Lemma rep_get_set_eq l n : sorted_rep l -> rep_get (rep_set l n) (r_addr n) = Some n.
Proof.
  induction l as [|x r IH]; intros Hs; cbn.
  - rewrite Z.eqb_refl. reflexivity.
  - destruct (rep_sorted_tail x r Hs) as [Hr _].
    destruct (r_addr x =? r_addr n) eqn:E; cbn.
    + rewrite Z.eqb_refl. reflexivity.
    + destruct (r_addr n <? r_addr x); cbn; [rewrite Z.eqb_refl; reflexivity|].
      rewrite E. apply IH. exact Hr.
Qed.

Lemma rep_get_set_other l n a : a <> r_addr n -> rep_get (rep_set l n) a = rep_get l a.
Proof.
  intros Ha. induction l as [|x r IH]; cbn.
  - destruct (r_addr n =? a) eqn:E; [apply Z.eqb_eq in E; congruence | reflexivity].
  - destruct (r_addr x =? r_addr n) eqn:E; cbn.
    + apply Z.eqb_eq in E. destruct (r_addr n =? a) eqn:E1; [apply Z.eqb_eq in E1; congruence|].
      destruct (r_addr x =? a) eqn:E2; [apply Z.eqb_eq in E2; congruence | reflexivity].
    + destruct (r_addr n <? r_addr x); cbn.
      * destruct (r_addr n =? a) eqn:E1; [apply Z.eqb_eq in E1; congruence | reflexivity].
      * destruct (r_addr x =? a); [reflexivity | exact IH].
Qed.

Lemma rep_get_addr l a rp : rep_get l a = Some rp -> r_addr rp = a.
Proof.
  induction l as [|x r IH]; cbn; [discriminate|].
  destruct (r_addr x =? a) eqn:E; [intros H; inversion H; subst; apply Z.eqb_eq; exact E | exact IH].
Qed.

(* ---------------------------------------------------------------------------------------- *)
(* 4. invariant of the module's tables over all histories                                    *)
(* ---------------------------------------------------------------------------------------- *)
Record inv (st : state) : Prop := mkInv {
  inv_sorted : sorted_sel (st_sel st);
  inv_rsorted : sorted_rep (st_rep st);
  (* a reporter keeps its own selection *)
  inv_self : forall a rp, rep_get (st_rep st) a = Some rp ->
                          exists s, sel_get (st_sel st) a = Some s /\ s_reporter s = a;
  (* a selection points to a registered reporter *)
  inv_points : forall a s, sel_get (st_sel st) a = Some s -> rep_get (st_rep st) (s_reporter s) <> None;
  (* no reporter has more selectors than the cap *)
  inv_cap : forall r, sel_count (st_sel st) r <= p_max_sel (st_par st);
  inv_cap1 : 1 <= p_max_sel (st_par st) }.

(* the only assumption on histories for the cap: governance does not lower MaxSelectors *)
Definition cap_kept (st : state) (o : op) : Prop :=
  match o with OParams p => p_max_sel (st_par st) <= p_max_sel p | _ => True end.

Lemma sel_get_some_count l a s : sorted_sel l -> sel_get l a = Some s -> 1 <= sel_count l (s_reporter s).
Proof.
  induction l as [|x l IH]; intros Hs; cbn [sel_get]; [discriminate|].
  destruct (sorted_tail x l Hs) as [Hr _]. rewrite sel_count_cons.
  destruct (s_addr x =? a).
  - intros H; inversion H; subst. rewrite Z.eqb_refl. cbn [cnt]. pose proof (sel_count_nonneg l (s_reporter s)). lia.
  - intros H. specialize (IH Hr H). destruct (s_reporter x =? s_reporter s); cbn [cnt]; lia.
Qed.

Lemma nobody_points_to l reps a :
  sorted_sel l ->
  (forall b s, sel_get l b = Some s -> rep_get reps (s_reporter s) <> None) ->
  rep_get reps a = None -> sel_count l a = 0.
Proof.
  intros Hs Hp Hn. apply sel_count_zero. intros s Hin E.
  apply (Hp (s_addr s) s); [apply sel_in_get; assumption | rewrite E; exact Hn].
Qed.

Lemma step_create_inv fx st a m c : inv st -> inv (fst (step fx st (OCreate a m c))).
Proof.
  intros I. destruct I as [Hs Hrs Hself Hpt Hcap Hc1]. cbn [step].
  destruct (bonded_tokens (st_view st) a <? p_min_trb (st_par st)); [constructor; assumption|].
  destruct (m <? p_min_trb (st_par st)); [constructor; assumption|].
  destruct (sel_get (st_sel st) a) as [s0|] eqn:Eg; [constructor; assumption|].
  destruct (negb c); [constructor; assumption|].
  cbn [fst]. set (n := mkSel a a (del_count (st_view st) a) 0).
  assert (Hra : rep_get (st_rep st) a = None).
  { destruct (rep_get (st_rep st) a) as [rp|] eqn:E; [|reflexivity].
    destruct (Hself a rp E) as [s [H1 _]]. congruence. }
  constructor; cbn [st_sel st_rep st_par set_sel set_rep].
  - apply sel_set_sorted. exact Hs.
  - apply rep_set_sorted. exact Hrs.
  - intros b rp Hb. destruct (Z.eq_dec b a) as [->|Hne].
    + exists n. split; [apply (sel_get_set_same (st_sel st) n Hs) | reflexivity].
    + rewrite rep_get_set_other in Hb by (cbn; exact Hne).
      destruct (Hself b rp Hb) as [s [H1 H2]]. exists s. split; [|exact H2].
      rewrite sel_get_set_other; [exact H1 | exact Hs | cbn; exact Hne].
  - intros b s Hb. destruct (Z.eq_dec b a) as [->|Hne].
    + pose proof (sel_get_set_same (st_sel st) n Hs) as H. cbn [s_addr n] in H. rewrite H in Hb. inversion Hb; subst.
      cbn [s_reporter n]. apply (rep_get_set_same (st_rep st) (mkRep a m false 0)).
    + rewrite sel_get_set_other in Hb; [|exact Hs | cbn; exact Hne].
      apply rep_get_set_keeps. exact (Hpt b s Hb).
  - intros r. rewrite sel_count_set by exact Hs. cbn [s_addr s_reporter n]. rewrite Eg.
    destruct (a =? r) eqn:E; cbn [cnt].
    + apply Z.eqb_eq in E. subst r. rewrite (nobody_points_to (st_sel st) (st_rep st) a Hs Hpt Hra). lia.
    + specialize (Hcap r). lia.
  - exact Hc1.
Qed.

Lemma step_select_inv fx st a r : inv st -> inv (fst (step fx st (OSelect a r))).
Proof.
  intros I. destruct I as [Hs Hrs Hself Hpt Hcap Hc1]. cbn [step].
  destruct (sel_get (st_sel st) a) as [s0|] eqn:Eg; [constructor; assumption|].
  destruct (rep_get (st_rep st) r) as [rp|] eqn:Er; [|constructor; assumption].
  destruct (p_max_sel (st_par st) <=? sel_count (st_sel st) r) eqn:Ec; [constructor; assumption|].
  destruct (bonded_tokens (st_view st) a <? r_min rp); [constructor; assumption|].
  apply Z.leb_gt in Ec. cbn [fst]. set (n := mkSel a r (del_count (st_view st) a) 0).
  constructor; cbn [st_sel st_rep st_par set_sel].
  - apply sel_set_sorted. exact Hs.
  - exact Hrs.
  - intros b rb Hb. destruct (Hself b rb Hb) as [s [H1 H2]]. exists s. split; [|exact H2].
    rewrite sel_get_set_other; [exact H1 | exact Hs |]. cbn. intros ->. congruence.
  - intros b s Hb. destruct (Z.eq_dec b a) as [->|Hne].
    + pose proof (sel_get_set_same (st_sel st) n Hs) as H. cbn [s_addr n] in H. rewrite H in Hb. inversion Hb; subst.
      cbn [s_reporter n]. congruence.
    + rewrite sel_get_set_other in Hb; [|exact Hs | cbn; exact Hne]. exact (Hpt b s Hb).
  - intros r'. rewrite sel_count_set by exact Hs. cbn [s_addr s_reporter n]. rewrite Eg.
    destruct (r =? r') eqn:E; cbn [cnt].
    + apply Z.eqb_eq in E. subst r'. lia.
    + specialize (Hcap r'). lia.
  - exact Hc1.
Qed.

Lemma step_switch_inv fx st a r : inv st -> inv (fst (step fx st (OSwitch a r))).
Proof.
  intros I. destruct I as [Hs Hrs Hself Hpt Hcap Hc1]. cbn [step].
  destruct (sel_get (st_sel st) a) as [s0|] eqn:Eg; [|constructor; assumption].
  destruct (s_reporter s0 =? a) eqn:Eself; [constructor; assumption|].
  destruct (rep_get (st_rep st) r) as [rp|] eqn:Er; [|constructor; assumption].
  destruct (p_max_sel (st_par st) <=? sel_count (st_sel st) r) eqn:Ec; [constructor; assumption|].
  destruct (negb (has_min (st_view st) a (r_min rp))); [constructor; assumption|].
  apply Z.leb_gt in Ec. apply Z.eqb_neq in Eself. cbn [fst].
  match goal with |- inv (set_sel st (sel_set _ ?x)) => set (n := x) end.
  assert (Hna : s_addr n = a) by reflexivity. assert (Hnr : s_reporter n = r) by reflexivity.
  constructor; cbn [st_sel st_rep st_par set_sel].
  - apply sel_set_sorted. exact Hs.
  - exact Hrs.
  - intros b rb Hb. destruct (Hself b rb Hb) as [s [H1 H2]]. exists s. split; [|exact H2].
    rewrite sel_get_set_other; [exact H1 | exact Hs |]. rewrite Hna. intros ->. congruence.
  - intros b s Hb. destruct (Z.eq_dec b a) as [->|Hne].
    + pose proof (sel_get_set_same (st_sel st) n Hs) as H. rewrite Hna in H. rewrite H in Hb. injection Hb as <-.
      rewrite Hnr. congruence.
    + rewrite sel_get_set_other in Hb; [|exact Hs | rewrite Hna; exact Hne]. exact (Hpt b s Hb).
  - intros r'. rewrite sel_count_set by exact Hs. rewrite Hna, Hnr, Eg.
    pose proof (Hcap r'). destruct (r =? r') eqn:E; cbn [cnt].
    + apply Z.eqb_eq in E. subst r'. destruct (s_reporter s0 =? r); cbn [cnt]; lia.
    + destruct (s_reporter s0 =? r'); cbn [cnt]; lia.
  - exact Hc1.
Qed.

(* under the invariant RemoveSelector cannot succeed: it needs a reporter above the cap *)
Lemma step_remove_fails fx st a : inv st -> step fx st (ORemove a) = (st, snd (step fx st (ORemove a))) /\
                                          rs_code (snd (step fx st (ORemove a))) <> OK.
Proof.
  intros I. destruct I as [Hs Hrs Hself Hpt Hcap Hc1]. cbn [step].
  destruct (sel_get (st_sel st) a) as [s0|]; [|split; [reflexivity | discriminate]].
  destruct (rep_get (st_rep st) (s_reporter s0)) as [rp|]; [|split; [reflexivity | discriminate]].
  destruct (has_min (st_view st) a (r_min rp)); [split; [reflexivity | discriminate]|].
  destruct (sel_count (st_sel st) (s_reporter s0) <=? p_max_sel (st_par st)) eqn:E; [split; [reflexivity | discriminate]|].
  apply Z.leb_gt in E. specialize (Hcap (s_reporter s0)). lia.
Qed.

Lemma inv_same_tables st st' :
  st_sel st' = st_sel st -> st_rep st' = st_rep st -> p_max_sel (st_par st) <= p_max_sel (st_par st') ->
  inv st -> inv st'.
Proof.
  intros E1 E2 E3 [Hs Hrs Hself Hpt Hcap Hc1].
  constructor; rewrite ?E1, ?E2; try assumption; [intros r; specialize (Hcap r); lia | lia].
Qed.

Lemma inv_rep_update st rp n :
  rep_get (st_rep st) (r_addr n) = Some rp -> inv st -> inv (set_rep st (rep_set (st_rep st) n)).
Proof.
  intros Hg [Hs Hrs Hself Hpt Hcap Hc1]. constructor; cbn [st_sel st_rep st_par set_rep]; try assumption.
  - apply rep_set_sorted. exact Hrs.
  - intros b rb Hb. destruct (Z.eq_dec b (r_addr n)) as [->|Hne].
    + exact (Hself _ _ Hg).
    + rewrite rep_get_set_other in Hb by exact Hne. exact (Hself _ _ Hb).
  - intros b s Hb. apply rep_get_set_keeps. exact (Hpt b s Hb).
Qed.

Lemma step_inv fx st o : inv st -> cap_kept st o -> inv (fst (step fx st o)).
Proof.
  intros I Hk. destruct o as [a m c|a r|a r|a|r dur|r|r q|v|p|h now].
  - apply step_create_inv. exact I.
  - apply step_select_inv. exact I.
  - apply step_switch_inv. exact I.
  - destruct (step_remove_fails fx st a I) as [E _]. rewrite E. exact I.
  - cbn [step]. destruct (rep_get (st_rep st) r) as [rp|] eqn:Er; [|exact I].
    destruct (r_jailed rp); [exact I|]. cbn [fst].
    apply (inv_rep_update st rp); [cbn [r_addr]; exact Er | exact I].
  - cbn [step]. destruct (rep_get (st_rep st) r) as [rp|] eqn:Er; [|exact I].
    destruct (negb (r_jailed rp)); [exact I|]. destruct (st_now st <? r_until rp); [exact I|]. cbn [fst].
    apply (inv_rep_update st rp); [cbn [r_addr]; exact Er | exact I].
  - cbn [step]. destruct (rep_get (st_rep st) r) as [rp|]; [|exact I].
    destruct (r_jailed rp); [exact I|].
    destruct (total_of _ <? p_min_stake (st_par st)); [exact I|]. cbn [fst].
    apply (inv_same_tables st); [reflexivity | reflexivity | cbn; lia | exact I].
  - cbn [step fst]. destruct I as [Hs Hrs Hself Hpt Hcap Hc1].
    set (f := hook_count (sv_dels (st_view st)) (sv_dels v)).
    assert (Hfa : forall s, s_addr (f s) = s_addr s) by reflexivity.
    assert (Hfr : forall s, s_reporter (f s) = s_reporter s) by reflexivity.
    constructor; cbn [st_sel st_rep st_par]; try assumption.
    + apply sorted_map; assumption.
    + intros b rb Hb. destruct (Hself b rb Hb) as [s [H1 H2]]. exists (f s). split; [|rewrite Hfr; exact H2].
      rewrite sel_get_map by exact Hfa. rewrite H1. reflexivity.
    + intros b s Hb. rewrite sel_get_map in Hb by exact Hfa.
      destruct (sel_get (st_sel st) b) as [s'|] eqn:E; [|discriminate]. inversion Hb; subst.
      rewrite Hfr. exact (Hpt b s' E).
    + intros r. rewrite sel_count_map by exact Hfr. apply Hcap.
  - cbn [step fst]. cbn [cap_kept] in Hk.
    apply (inv_same_tables st); [reflexivity | reflexivity | cbn; exact Hk | exact I].
  - cbn [step fst]. apply (inv_same_tables st); [reflexivity | reflexivity | cbn; lia | exact I].
Qed.

Fixpoint cap_kept_all (fx : bool) (st : state) (ops : list op) : Prop :=
  match ops with
  | [] => True
  | o :: r => cap_kept st o /\ cap_kept_all fx (fst (step fx st o)) r
  end.

Lemma run_inv fx ops : forall st, inv st -> cap_kept_all fx st ops -> inv (run fx st ops).
Proof.
  induction ops as [|o r IH]; intros st I H; [exact I|].
  destruct H as [H1 H2]. unfold run. cbn [fold_left]. apply IH; [apply step_inv; assumption | exact H2].
Qed.

Lemma inv_init p : 1 <= p_max_sel p -> inv (mkState [] [] [] p empty_view 0 0).
Proof.
  intros H. constructor; cbn.
  - constructor.
  - constructor.
  - discriminate.
  - discriminate.
  - intros r. unfold sel_count. cbn. lia.
  - exact H.
Qed.

(* every selector has exactly one reporter: the table is a finite map (strictly ascending
   keys), and the reporter index (= filter of the table) lists a selector under r iff the
   table maps it to r *)
Lemma one_reporter_per_selector st a s1 s2 :
  inv st -> In s1 (st_sel st) -> In s2 (st_sel st) -> s_addr s1 = a -> s_addr s2 = a -> s1 = s2.
Proof.
  intros I H1 H2 E1 E2. pose proof (inv_sorted st I) as Hs.
  pose proof (sel_in_get _ _ Hs H1) as G1. pose proof (sel_in_get _ _ Hs H2) as G2.
  rewrite E1 in G1. rewrite E2 in G2. congruence.
Qed.

Lemma index_is_filter st r s :
  In s (selectors_of (st_sel st) r) <-> In s (st_sel st) /\ s_reporter s = r.
Proof. unfold selectors_of. rewrite filter_In. rewrite Z.eqb_eq. tauto. Qed.

(* ---------------------------------------------------------------------------------------- *)
(* 5. what an accepted operation implies (one clause of the property each)                   *)
(* ---------------------------------------------------------------------------------------- *)
Definition accepted (fx : bool) (st : state) (o : op) : Prop := rs_code (snd (step fx st o)) = OK.

Lemma select_accepted fx st a r : accepted fx st (OSelect a r) ->
  sel_get (st_sel st) a = None /\
  exists rp, rep_get (st_rep st) r = Some rp /\ r_min rp <= bonded_tokens (st_view st) a /\
             sel_count (st_sel st) r < p_max_sel (st_par st).
Proof.
  unfold accepted. cbn [step].
  destruct (sel_get (st_sel st) a); [discriminate|].
  destruct (rep_get (st_rep st) r) as [rp|]; [|discriminate].
  destruct (p_max_sel (st_par st) <=? sel_count (st_sel st) r) eqn:Ec; [discriminate|].
  destruct (bonded_tokens (st_view st) a <? r_min rp) eqn:Em; [discriminate|].
  intros _. apply Z.leb_gt in Ec. apply Z.ltb_ge in Em. split; [reflexivity|]. exists rp. auto.
Qed.

Lemma switch_accepted fx st a r : view_nonneg (st_view st) -> accepted fx st (OSwitch a r) ->
  exists s rp, sel_get (st_sel st) a = Some s /\ s_reporter s <> a /\
               rep_get (st_rep st) r = Some rp /\ r_min rp <= bonded_tokens (st_view st) a /\
               sel_count (st_sel st) r < p_max_sel (st_par st).
Proof.
  intros Hv. unfold accepted. cbn [step].
  destruct (sel_get (st_sel st) a) as [s|]; [|discriminate].
  destruct (s_reporter s =? a) eqn:Es; [discriminate|].
  destruct (rep_get (st_rep st) r) as [rp|]; [|discriminate].
  destruct (p_max_sel (st_par st) <=? sel_count (st_sel st) r) eqn:Ec; [discriminate|].
  destruct (has_min (st_view st) a (r_min rp)) eqn:Em; [|discriminate].
  intros _. apply Z.leb_gt in Ec. apply Z.eqb_neq in Es. exists s, rp.
  repeat split; auto. apply has_min_sound; assumption.
Qed.

Lemma create_accepted fx st a m c : accepted fx st (OCreate a m c) ->
  p_min_trb (st_par st) <= bonded_tokens (st_view st) a /\ p_min_trb (st_par st) <= m /\
  sel_get (st_sel st) a = None /\ c = true.
Proof.
  unfold accepted. cbn [step].
  destruct (bonded_tokens (st_view st) a <? p_min_trb (st_par st)) eqn:E1; [discriminate|].
  destruct (m <? p_min_trb (st_par st)) eqn:E2; [discriminate|].
  destruct (sel_get (st_sel st) a); [discriminate|].
  destruct c; [|discriminate]. intros _. apply Z.ltb_ge in E1. apply Z.ltb_ge in E2. auto.
Qed.

Lemma report_accepted fx st r q : accepted fx st (OReport r q) ->
  let os := stake_origins fx (st_view st) (st_now st) (st_sel st) r in
  (exists rp, rep_get (st_rep st) r = Some rp /\ r_jailed rp = false) /\
  snd (step fx st (OReport r q)) = mkRes OK (total_of os) (wrap_u64 (Z.quot (total_of os) POWER_REDUCTION)) os /\
  p_min_stake (st_par st) <= total_of os /\
  st_snaps (fst (step fx st (OReport r q))) = snap_set (st_snaps st) (mkSnap q r (st_height st) (total_of os)) /\
  st_sel (fst (step fx st (OReport r q))) = st_sel st.
Proof.
  unfold accepted. cbn [step].
  destruct (rep_get (st_rep st) r) as [rp|]; [|discriminate].
  destruct (r_jailed rp) eqn:Ej; [discriminate|].
  destruct (total_of _ <? p_min_stake (st_par st)) eqn:Em; [discriminate|].
  intros _. apply Z.ltb_ge in Em. cbn. repeat split; auto. exists rp. auto.
Qed.

Lemma power_is_whole_tokens total : 0 <= total < two64 * POWER_REDUCTION ->
  wrap_u64 (Z.quot total POWER_REDUCTION) = total / POWER_REDUCTION.
Proof.
  intros H. unfold wrap_u64. rewrite quot_nonneg_div by (unfold POWER_REDUCTION; lia).
  apply Z.mod_small. unfold POWER_REDUCTION, two64 in *. lia.
Qed.

Lemma unjail_accepted fx st r : accepted fx st (OUnjail r) ->
  exists rp, rep_get (st_rep st) r = Some rp /\ r_jailed rp = true /\ r_until rp <= st_now st.
Proof.
  unfold accepted. cbn [step].
  destruct (rep_get (st_rep st) r) as [rp|]; [|discriminate].
  destruct (r_jailed rp) eqn:Ej; cbn [negb]; [|discriminate].
  destruct (st_now st <? r_until rp) eqn:E; [discriminate|].
  intros _. apply Z.ltb_ge in E. exists rp. split; [reflexivity|]. split; [exact Ej | exact E].
Qed.

Lemma jail_accepted fx st r dur : inv st -> accepted fx st (OJail r dur) ->
  exists rp, rep_get (st_rep st) r = Some rp /\ r_jailed rp = false /\
    rep_get (st_rep (fst (step fx st (OJail r dur)))) r = Some (mkRep r (r_min rp) true (st_now st + jail_ns dur)).
Proof.
  intros I. unfold accepted. cbn [step].
  destruct (rep_get (st_rep st) r) as [rp|] eqn:E; [|discriminate].
  destruct (r_jailed rp) eqn:Ej; [discriminate|].
  intros _. exists rp. repeat split; auto. cbn [fst set_rep st_rep].
  exact (rep_get_set_eq (st_rep st) (mkRep r (r_min rp) true (st_now st + jail_ns dur)) (inv_rsorted st I)).
Qed.

Lemma jail_ns_exact dur : 0 <= dur -> dur * 1000000000 < two63 -> jail_ns dur = dur * 1000000000.
Proof. intros. unfold jail_ns, wrap_i64, two63, two64 in *. lia. Qed.

(* a jailed reporter stays jailed until an accepted unjail at or after its jail time *)
Lemma release_only_by_unjail fx st o r rp rp' :
  inv st -> rep_get (st_rep st) r = Some rp -> r_jailed rp = true ->
  rep_get (st_rep (fst (step fx st o))) r = Some rp' -> r_jailed rp' = false ->
  o = OUnjail r /\ r_until rp <= st_now st.
Proof.
  intros I Hg Hj Hg' Hj'.
  assert (Hsame : st_rep (fst (step fx st o)) = st_rep st -> False) by (intros E; rewrite E in Hg'; congruence).
  destruct o as [a m c|a r0|a r0|a|r0 dur|r0|r0 q|v|p|h now]; try (exfalso; apply Hsame; reflexivity).
  - (* create *) cbn [step] in Hg', Hsame.
    destruct (bonded_tokens (st_view st) a <? p_min_trb (st_par st)); [exfalso; apply Hsame; reflexivity|].
    destruct (m <? p_min_trb (st_par st)); [exfalso; apply Hsame; reflexivity|].
    destruct (sel_get (st_sel st) a) eqn:Es; [exfalso; apply Hsame; reflexivity|].
    destruct (negb c); [exfalso; apply Hsame; reflexivity|].
    cbn [fst set_sel set_rep st_rep] in Hg'. destruct (Z.eq_dec r a) as [->|Hne].
    + destruct (inv_self st I a rp Hg) as [s [H1 _]]. congruence.
    + rewrite rep_get_set_other in Hg' by (cbn; exact Hne). congruence.
  - cbn [step] in Hsame. exfalso. apply Hsame.
    destruct (sel_get (st_sel st) a); [reflexivity|]. destruct (rep_get (st_rep st) r0); [|reflexivity].
    destruct (_ <=? _); [reflexivity|]. destruct (_ <? _); reflexivity.
  - cbn [step] in Hsame. exfalso. apply Hsame.
    destruct (sel_get (st_sel st) a); [|reflexivity]. destruct (_ =? _); [reflexivity|].
    destruct (rep_get (st_rep st) r0); [|reflexivity].
    destruct (_ <=? _); [reflexivity|]. destruct (negb _); reflexivity.
  - exfalso. apply Hsame. destruct (step_remove_fails fx st a I) as [E _]. rewrite E. reflexivity.
  - (* jail *) cbn [step] in Hg', Hsame.
    destruct (rep_get (st_rep st) r0) as [rp0|] eqn:E0; [|exfalso; apply Hsame; reflexivity].
    destruct (r_jailed rp0) eqn:Ej0; [exfalso; apply Hsame; reflexivity|].
    cbn [fst set_rep st_rep] in Hg'. destruct (Z.eq_dec r r0) as [->|Hne]; [congruence|].
    rewrite rep_get_set_other in Hg' by (cbn; exact Hne). congruence.
  - (* unjail *) cbn [step] in Hg', Hsame.
    destruct (rep_get (st_rep st) r0) as [rp0|] eqn:E0; [|exfalso; apply Hsame; reflexivity].
    destruct (negb (r_jailed rp0)); [exfalso; apply Hsame; reflexivity|].
    destruct (st_now st <? r_until rp0) eqn:Et; [exfalso; apply Hsame; reflexivity|].
    cbn [fst set_rep st_rep] in Hg'. destruct (Z.eq_dec r r0) as [->|Hne].
    + apply Z.ltb_ge in Et. split; [reflexivity|]. congruence.
    + rewrite rep_get_set_other in Hg' by (cbn; exact Hne). congruence.
  - cbn [step] in Hsame. exfalso. apply Hsame.
    destruct (rep_get (st_rep st) r0) as [rp0|]; [|reflexivity]. destruct (r_jailed rp0); [reflexivity|].
    destruct (_ <? _); reflexivity.
Qed.

(* a registered reporter stays registered (so "jailed" above really is about the same record) *)
Lemma reporter_stays fx st o r : inv st -> rep_get (st_rep st) r <> None -> rep_get (st_rep (fst (step fx st o))) r <> None.
Proof.
  intros I H. destruct o as [a m c|a r0|a r0|a|r0 dur|r0|r0 q|v|p|h now]; cbn [step]; try exact H.
  - destruct (_ <? _); [exact H|]. destruct (_ <? _); [exact H|]. destruct (sel_get _ _); [exact H|].
    destruct (negb c); [exact H|]. cbn [fst set_sel set_rep st_rep]. apply rep_get_set_keeps. exact H.
  - destruct (sel_get _ _); [exact H|]. destruct (rep_get (st_rep st) r0); [|exact H].
    destruct (_ <=? _); [exact H|]. destruct (_ <? _); exact H.
  - destruct (sel_get _ _); [|exact H]. destruct (_ =? _); [exact H|]. destruct (rep_get (st_rep st) r0); [|exact H].
    destruct (_ <=? _); [exact H|]. destruct (negb _); exact H.
  - destruct (step_remove_fails fx st a I) as [E _]. cbn [step] in E. rewrite E. exact H.
  - destruct (rep_get (st_rep st) r0) as [rp0|]; [|exact H]. destruct (r_jailed rp0); [exact H|].
    cbn [fst set_rep st_rep]. apply rep_get_set_keeps. exact H.
  - destruct (rep_get (st_rep st) r0) as [rp0|]; [|exact H]. destruct (negb _); [exact H|]. destruct (_ <? _); [exact H|].
    cbn [fst set_rep st_rep]. apply rep_get_set_keeps. exact H.
  - destruct (rep_get (st_rep st) r0) as [rp0|]; [|exact H]. destruct (r_jailed rp0); [exact H|].
    destruct (_ <? _); exact H.
Qed.

(* ---------------------------------------------------------------------------------------- *)
(* 6. counted once: a selector's stake never backs two reporters within the unbonding period *)
(* ---------------------------------------------------------------------------------------- *)
Definition event := (Z * Z * Z)%type.       (* selector, reporter, time of an accepted report that counted it *)

Definition counted (fx : bool) (st : state) (o : op) : list event :=
  match o with
  | OReport r q =>
      if rs_code (snd (step fx st o)) =? OK
      then map (fun s => (s_addr s, r, st_now st)) (counted_selectors (st_now st) (st_sel st) r)
      else []
  | _ => []
  end.

Fixpoint events (fx : bool) (st : state) (ops : list op) (past : list event) : list event :=
  match ops with
  | [] => past
  | o :: r => events fx (fst (step fx st o)) r (counted fx st o ++ past)
  end.

(* assumptions on a history: the clock and the height do not go back, the staking parameter
   UnbondingTime keeps its value U, MaxSelectors is not lowered, MinStakeAmount stays positive *)
Definition op_ok (U : Z) (st : state) (o : op) : Prop :=
  match o with
  | OBlock h now => st_height st <= h /\ st_now st <= now
  | OEnv v => sv_unbond v = U
  | OParams p => p_max_sel (st_par st) <= p_max_sel p /\ 0 < p_min_stake p
  | _ => True
  end.

Fixpoint hist_ok (fx : bool) (U : Z) (st : state) (ops : list op) : Prop :=
  match ops with
  | [] => True
  | o :: r => op_ok U st o /\ hist_ok fx U (fst (step fx st o)) r
  end.

Record dinv (U : Z) (st : state) (past : list event) : Prop := mkDinv {
  d_inv : inv st;
  d_U : sv_unbond (st_view st) = U;
  d_stake : 0 < p_min_stake (st_par st);
  d_snaps : forall sn, In sn (st_snaps st) -> 0 < sn_total sn /\ sn_h sn <= st_height st;
  d_time : forall s r t, In (s, r, t) past -> t <= st_now st;
  d_rep : forall s r t, In (s, r, t) past -> exists sn, In sn (st_snaps st) /\ sn_r sn = r;
  d_present : forall s r t, In (s, r, t) past -> sel_get (st_sel st) s <> None;
  d_lock : forall s r t x, In (s, r, t) past -> sel_get (st_sel st) s = Some x ->
                           s_reporter x = r \/ t + U <= s_locked x;
  d_pair : forall s r1 t1 r2 t2, In (s, r1, t1) past -> In (s, r2, t2) past -> r1 <> r2 ->
                                 U <= Z.abs (t1 - t2) }.

Lemma latest_snap_spec l r h : forall best,
  match latest_snap l r h best with
  | Some s => Some s = best \/ In s l
  | None => best = None /\ forall s, In s l -> (sn_r s =? r) && (sn_h s <=? h) = false
  end.
Proof.
  induction l as [|x l IH]; intros best; cbn [latest_snap].
  - destruct best; [left; reflexivity | split; [reflexivity | intros s []]].
  - destruct ((sn_r x =? r) && (sn_h x <=? h)) eqn:E.
    + match goal with |- match latest_snap l r h ?b with _ => _ end => specialize (IH b) end.
      destruct (latest_snap l r h _) as [s|].
      * destruct IH as [IH|IH]; [|right; right; exact IH].
        destruct best as [b|]; [destruct (snap_later x b)|]; inversion IH; subst; auto; right; left; reflexivity.
      * destruct IH as [IH _]. destruct best as [b|]; [destruct (snap_later x b)|]; discriminate.
    + specialize (IH best). destruct (latest_snap l r h best) as [s|].
      * destruct IH as [IH|IH]; [left; exact IH | right; right; exact IH].
      * destruct IH as [IH1 IH2]. split; [exact IH1|]. intros s [<-|Hs]; [exact E | apply IH2; exact Hs].
Qed.

Lemma tokens_at_block_pos l r h :
  (forall sn, In sn l -> 0 < sn_total sn /\ sn_h sn <= h) ->
  (exists sn, In sn l /\ sn_r sn = r) -> 0 < tokens_at_block l r h.
Proof.
  intros Hall [sn [Hin Hr]]. unfold tokens_at_block.
  pose proof (latest_snap_spec l r h None) as H.
  destruct (latest_snap l r h None) as [s|].
  - destruct H as [H|H]; [discriminate | apply Hall; exact H].
  - destruct H as [_ H]. specialize (H sn Hin). destruct (Hall sn Hin) as [_ Hh].
    rewrite Hr, Z.eqb_refl in H. cbn in H. apply Z.leb_gt in H. lia.
Qed.

(* a change of one selection (or none) that respects the locks of the past *)
Lemma dinv_update U st past st' :
  dinv U st past -> inv st' ->
  st_snaps st' = st_snaps st -> st_par st' = st_par st -> st_view st' = st_view st ->
  st_height st' = st_height st -> st_now st' = st_now st ->
  (forall s r t, In (s, r, t) past -> exists x', sel_get (st_sel st') s = Some x' /\
       forall x, sel_get (st_sel st) s = Some x -> (s_reporter x = r \/ t + U <= s_locked x) ->
                 (s_reporter x' = r \/ t + U <= s_locked x')) ->
  dinv U st' past.
Proof.
  intros D I Es Ep Ev Eh En Hsel. destruct D as [_ DU Dst Dsn Dt Dr Dp Dl Dpair].
  constructor; rewrite ?Es, ?Ep, ?Ev, ?Eh, ?En; try assumption.
  - intros s r t Hin. destruct (Hsel s r t Hin) as [x' [H _]]. congruence.
  - intros s r t x' Hin Hx'. destruct (Hsel s r t Hin) as [x'' [H1 H2]].
    rewrite H1 in Hx'. injection Hx' as <-.
    destruct (sel_get (st_sel st) s) as [x|] eqn:E; [|exfalso; exact (Dp s r t Hin E)].
    apply (H2 x eq_refl). exact (Dl s r t x Hin E).
Qed.

Lemma dinv_same_sel U st past st' :
  dinv U st past -> inv st' ->
  st_sel st' = st_sel st ->
  st_snaps st' = st_snaps st -> st_par st' = st_par st -> st_view st' = st_view st ->
  st_height st' = st_height st -> st_now st' = st_now st -> dinv U st' past.
Proof.
  intros D I Esel Es Ep Ev Eh En. apply (dinv_update U st past st' D I Es Ep Ev Eh En).
  intros s r t Hin. rewrite Esel.
  destruct (sel_get (st_sel st) s) as [x|] eqn:E; [|exfalso; exact (d_present U st past D s r t Hin E)].
  exists x. split; [reflexivity|]. intros x0 Hx0. injection Hx0 as <-. auto.
Qed.

Lemma counted_nil_app fx st o past : (forall r q, o <> OReport r q) -> counted fx st o ++ past = past.
Proof. intros H. destruct o; try reflexivity. exfalso. exact (H r q eq_refl). Qed.

Lemma dinv_step fx U st past o :
  dinv U st past -> op_ok U st o -> dinv U (fst (step fx st o)) (counted fx st o ++ past).
Proof.
  intros D Hok. pose proof (d_inv U st past D) as I.
  assert (I' : inv (fst (step fx st o))).
  { apply step_inv; [exact I|]. destruct o; cbn; auto. cbn in Hok. tauto. }
  destruct o as [a m c|a r|a r|a|r dur|r|r q|v|p|h now];
    try (rewrite counted_nil_app by (intros; discriminate)).
  - (* create *)
    cbn [step] in *.
    destruct (bonded_tokens (st_view st) a <? p_min_trb (st_par st)); [exact D|].
    destruct (m <? p_min_trb (st_par st)); [exact D|].
    destruct (sel_get (st_sel st) a) eqn:Eg; [exact D|].
    destruct (negb c); [exact D|]. cbn [fst] in *.
    apply (dinv_update U st past _ D I'); try reflexivity.
    intros s r t Hin. cbn [st_sel set_sel set_rep].
    assert (Hne : s <> a) by (intros ->; exact (d_present U st past D a r t Hin Eg)).
    rewrite sel_get_set_other; [|exact (inv_sorted st I) | cbn; exact Hne].
    destruct (sel_get (st_sel st) s) as [x|] eqn:E; [|exfalso; exact (d_present U st past D s r t Hin E)].
    exists x. split; [reflexivity|]. intros x0 Hx0. injection Hx0 as <-. auto.
  - (* select *)
    cbn [step] in *.
    destruct (sel_get (st_sel st) a) eqn:Eg; [exact D|].
    destruct (rep_get (st_rep st) r) as [rp|]; [|exact D].
    destruct (p_max_sel (st_par st) <=? sel_count (st_sel st) r); [exact D|].
    destruct (bonded_tokens (st_view st) a <? r_min rp); [exact D|]. cbn [fst] in *.
    apply (dinv_update U st past _ D I'); try reflexivity.
    intros s r0 t Hin. cbn [st_sel set_sel].
    assert (Hne : s <> a) by (intros ->; exact (d_present U st past D a r0 t Hin Eg)).
    rewrite sel_get_set_other; [|exact (inv_sorted st I) | cbn; exact Hne].
    destruct (sel_get (st_sel st) s) as [x|] eqn:E; [|exfalso; exact (d_present U st past D s r0 t Hin E)].
    exists x. split; [reflexivity|]. intros x0 Hx0. injection Hx0 as <-. auto.
  - (* switch *)
    cbn [step] in *.
    destruct (sel_get (st_sel st) a) as [s0|] eqn:Eg; [|exact D].
    destruct (s_reporter s0 =? a); [exact D|].
    destruct (rep_get (st_rep st) r) as [rp|]; [|exact D].
    destruct (p_max_sel (st_par st) <=? sel_count (st_sel st) r); [exact D|].
    destruct (negb (has_min (st_view st) a (r_min rp))); [exact D|]. cbn [fst] in *.
    apply (dinv_update U st past _ D I'); try reflexivity.
    intros s r0 t Hin. cbn [st_sel set_sel].
    match goal with |- context[sel_set _ ?x] => set (n := x) end.
    destruct (Z.eq_dec s a) as [->|Hne].
    + exists n. split; [exact (sel_get_set_same (st_sel st) n (inv_sorted st I))|].
      intros x Hx Hl. rewrite Eg in Hx. injection Hx as <-. right. cbn [s_locked n].
      destruct (tokens_at_block (st_snaps st) (s_reporter s0) (st_height st) =? 0) eqn:Et.
      * apply Z.eqb_eq in Et. destruct Hl as [Hl|Hl]; [|exact Hl].
        pose proof (tokens_at_block_pos (st_snaps st) r0 (st_height st) (d_snaps U st past D) (d_rep U st past D a r0 t Hin)).
        rewrite <- Hl in H. lia.
      * rewrite (d_U U st past D). pose proof (d_time U st past D a r0 t Hin). lia.
    + rewrite sel_get_set_other; [|exact (inv_sorted st I) | cbn; exact Hne].
      destruct (sel_get (st_sel st) s) as [x|] eqn:E; [|exfalso; exact (d_present U st past D s r0 t Hin E)].
      exists x. split; [reflexivity|]. intros x0 Hx0. injection Hx0 as <-. auto.
  - (* remove: cannot succeed *)
    destruct (step_remove_fails fx st a I) as [E _]. rewrite E. exact D.
  - (* jail *)
    cbn [step] in *. destruct (rep_get (st_rep st) r) as [rp|]; [|exact D].
    destruct (r_jailed rp); [exact D|]. cbn [fst] in *.
    apply (dinv_same_sel U st past _ D I'); reflexivity.
  - (* unjail *)
    cbn [step] in *. destruct (rep_get (st_rep st) r) as [rp|]; [|exact D].
    destruct (negb (r_jailed rp)); [exact D|]. destruct (st_now st <? r_until rp); [exact D|]. cbn [fst] in *.
    apply (dinv_same_sel U st past _ D I'); reflexivity.
  - (* report *)
    unfold counted.
    destruct (rs_code (snd (step fx st (OReport r q))) =? OK) eqn:Eok.
    2:{ cbn [app]. cbn [step] in *. destruct (rep_get (st_rep st) r) as [rp|]; [|exact D].
        destruct (r_jailed rp); [exact D|].
        destruct (total_of _ <? p_min_stake (st_par st)); [exact D | discriminate]. }
    apply Z.eqb_eq in Eok. destruct (report_accepted fx st r q Eok) as [_ [_ [Hmin [Hsn Hsel]]]].
    set (os := stake_origins fx (st_view st) (st_now st) (st_sel st) r) in *.
    set (st' := fst (step fx st (OReport r q))) in *.
    assert (Epar : st_par st' = st_par st).
    { unfold st'. cbn [step]. destruct (rep_get (st_rep st) r) as [rp|]; [|reflexivity].
      destruct (r_jailed rp); [reflexivity|]. destruct (_ <? _); reflexivity. }
    assert (Eview : st_view st' = st_view st).
    { unfold st'. cbn [step]. destruct (rep_get (st_rep st) r) as [rp|]; [|reflexivity].
      destruct (r_jailed rp); [reflexivity|]. destruct (_ <? _); reflexivity. }
    assert (Eh : st_height st' = st_height st).
    { unfold st'. cbn [step]. destruct (rep_get (st_rep st) r) as [rp|]; [|reflexivity].
      destruct (r_jailed rp); [reflexivity|]. destruct (_ <? _); reflexivity. }
    assert (En : st_now st' = st_now st).
    { unfold st'. cbn [step]. destruct (rep_get (st_rep st) r) as [rp|]; [|reflexivity].
      destruct (r_jailed rp); [reflexivity|]. destruct (_ <? _); reflexivity. }
    destruct D as [_ DU Dst Dsn Dt Dr Dp Dl Dpair].
    assert (Hnew : forall s r0 t, In (s, r0, t) (map (fun x => (s_addr x, r, st_now st)) (counted_selectors (st_now st) (st_sel st) r)) ->
                   r0 = r /\ t = st_now st /\ exists x, sel_get (st_sel st) s = Some x /\ s_reporter x = r /\ s_locked x <= st_now st).
    { intros s r0 t Hin. apply in_map_iff in Hin. destruct Hin as [x [Hx1 Hx2]]. injection Hx1 as <- <- <-.
      unfold counted_selectors in Hx2. apply filter_In in Hx2. destruct Hx2 as [Hx2 Hx3].
      apply andb_prop in Hx3. destruct Hx3 as [Hx3 Hx4]. apply Z.eqb_eq in Hx3.
      unfold unlocked in Hx4. apply negb_true_iff in Hx4. apply Z.ltb_ge in Hx4.
      repeat split; auto. exists x. split; [apply sel_in_get; [exact (inv_sorted st I) | exact Hx2] | auto]. }
    constructor; rewrite ?Epar, ?Eview, ?Eh, ?En, ?Hsn, ?Hsel; try assumption.
    + intros sn [<-|Hin]; [cbn; lia|]. unfold snap_set in Hin. apply filter_In in Hin. apply Dsn. tauto.
    + intros s r0 t Hin. apply in_app_or in Hin. destruct Hin as [Hin|Hin]; [|exact (Dt s r0 t Hin)].
      destruct (Hnew s r0 t Hin) as [_ [-> _]]. lia.
    + intros s r0 t Hin. apply in_app_or in Hin. destruct Hin as [Hin|Hin].
      * destruct (Hnew s r0 t Hin) as [-> _]. eexists. split; [left; reflexivity | reflexivity].
      * destruct (Dr s r0 t Hin) as [sn [H1 H2]].
        destruct (snap_same sn (mkSnap q r (st_height st) (total_of os))) eqn:Esame.
        -- eexists. split; [left; reflexivity|]. cbn. unfold snap_same in Esame.
           apply andb_prop in Esame. destruct Esame as [Esame _]. apply andb_prop in Esame. destruct Esame as [_ Esame].
           apply Z.eqb_eq in Esame. cbn in Esame. lia.
        -- exists sn. split; [|exact H2]. right. apply filter_In. rewrite Esame. auto.
    + intros s r0 t Hin. apply in_app_or in Hin. destruct Hin as [Hin|Hin]; [|exact (Dp s r0 t Hin)].
      destruct (Hnew s r0 t Hin) as [_ [_ [x [Hx _]]]]. congruence.
    + intros s r0 t x Hin Hx. apply in_app_or in Hin. destruct Hin as [Hin|Hin]; [|exact (Dl s r0 t x Hin Hx)].
      destruct (Hnew s r0 t Hin) as [-> [_ [x' [Hx' [Hr _]]]]]. left. congruence.
    + intros s r1 t1 r2 t2 H1 H2 Hne. apply in_app_or in H1. apply in_app_or in H2.
      destruct H1 as [H1|H1]; destruct H2 as [H2|H2].
      * destruct (Hnew _ _ _ H1) as [-> _]. destruct (Hnew _ _ _ H2) as [-> _]. congruence.
      * destruct (Hnew _ _ _ H1) as [-> [-> [x [Hx [Hr Hl]]]]].
        destruct (Dl s r2 t2 x H2 Hx) as [H|H]; [congruence|]. pose proof (Dt s r2 t2 H2). lia.
      * destruct (Hnew _ _ _ H2) as [-> [-> [x [Hx [Hr Hl]]]]].
        destruct (Dl s r1 t1 x H1 Hx) as [H|H]; [congruence|]. pose proof (Dt s r1 t1 H1). lia.
      * exact (Dpair s r1 t1 r2 t2 H1 H2 Hne).
  - (* staking changed *)
    cbn [step fst] in *. cbn [op_ok] in Hok.
    set (f := hook_count (sv_dels (st_view st)) (sv_dels v)) in *.
    assert (Hfa : forall s, s_addr (f s) = s_addr s) by reflexivity.
    destruct D as [_ DU Dst Dsn Dt Dr Dp Dl Dpair].
    constructor; cbn [st_sel st_rep st_par st_snaps st_view st_height st_now]; try assumption.
    + intros s r t Hin. rewrite sel_get_map by exact Hfa.
      destruct (sel_get (st_sel st) s) eqn:E; [discriminate | exfalso; exact (Dp s r t Hin E)].
    + intros s r t x Hin Hx. rewrite sel_get_map in Hx by exact Hfa.
      destruct (sel_get (st_sel st) s) as [x0|] eqn:E; [|discriminate]. injection Hx as <-.
      exact (Dl s r t x0 Hin E).
  - (* parameters *)
    cbn [step fst] in *. cbn [op_ok] in Hok. destruct D as [_ DU Dst Dsn Dt Dr Dp Dl Dpair].
    constructor; cbn [st_sel st_rep st_par st_snaps st_view st_height st_now]; try assumption. tauto.
  - (* next block *)
    cbn [step fst] in *. cbn [op_ok] in Hok. destruct D as [_ DU Dst Dsn Dt Dr Dp Dl Dpair].
    constructor; cbn [st_sel st_rep st_par st_snaps st_view st_height st_now]; try assumption.
    + intros sn Hin. specialize (Dsn sn Hin). lia.
    + intros s r t Hin. specialize (Dt s r t Hin). lia.
Qed.

Lemma dinv_run fx U ops : forall st past,
  dinv U st past -> hist_ok fx U st ops -> dinv U (run fx st ops) (events fx st ops past).
Proof.
  induction ops as [|o r IH]; intros st past D H; [exact D|].
  destruct H as [H1 H2]. unfold run. cbn [fold_left events].
  apply IH; [apply dinv_step; assumption | exact H2].
Qed.

Lemma dinv_start U st :
  inv st -> sv_unbond (st_view st) = U -> 0 < p_min_stake (st_par st) ->
  (forall sn, In sn (st_snaps st) -> 0 < sn_total sn /\ sn_h sn <= st_height st) -> dinv U st [].
Proof. intros. constructor; auto; intros; contradiction. Qed.

Theorem no_double_count fx U st ops s r1 t1 r2 t2 :
  inv st -> sv_unbond (st_view st) = U -> 0 < p_min_stake (st_par st) ->
  (forall sn, In sn (st_snaps st) -> 0 < sn_total sn /\ sn_h sn <= st_height st) ->
  hist_ok fx U st ops ->
  In (s, r1, t1) (events fx st ops []) -> In (s, r2, t2) (events fx st ops []) -> r1 <> r2 ->
  U <= Z.abs (t1 - t2).
Proof.
  intros I HU Hst Hsn Hok H1 H2 Hne.
  exact (d_pair U _ _ (dinv_run fx U ops st [] (dinv_start U st I HU Hst Hsn) Hok) s r1 t1 r2 t2 H1 H2 Hne).
Qed.

(* [events] collects exactly the selectors counted by the accepted reports of the history *)
Fixpoint trace (fx : bool) (st : state) (ops : list op) : list event :=
  match ops with
  | [] => []
  | o :: r => counted fx st o ++ trace fx (fst (step fx st o)) r
  end.

Lemma events_trace fx ops : forall st past e, In e (events fx st ops past) <-> In e past \/ In e (trace fx st ops).
Proof.
  induction ops as [|o r IH]; intros st past e; cbn [events trace]; [cbn; tauto|].
  rewrite IH. split.
  - intros [H|H]; [apply in_app_or in H; destruct H as [H|H]|].
    + right. apply in_or_app. left. exact H.
    + left. exact H.
    + right. apply in_or_app. right. exact H.
  - intros [H|H]; [left; apply in_or_app; right; exact H|].
    apply in_app_or in H. destruct H as [H|H]; [left; apply in_or_app; left; exact H | right; exact H].
Qed.

(* ---------------------------------------------------------------------------------------- *)
(* 7. the stake a report carries = bonded whole-loya value of the unlocked selectors         *)
(* ---------------------------------------------------------------------------------------- *)
(* a consistent staking view (what the staking module guarantees at every block boundary):
   validators and delegations are keyed uniquely, the power index has no repetition, and its
   walk reaches every validator with status bonded *)
Definition view_wf (vw : sview) : Prop :=
  NoDup (map v_id (sv_vals vw)) /\
  NoDup (sv_power vw) /\
  NoDup (map (fun d => (d_del d, d_val d)) (sv_dels vw)) /\
  (forall v, In v (sv_vals vw) -> bonded v = true ->
             In v (bonded_by_power (sv_vals vw) (sv_power vw) (Z.to_nat (sv_maxvals vw)))).

Lemma zsum_app a b : zsum (a ++ b) = zsum a + zsum b.
Proof. induction a as [|x a IH]; cbn; lia. Qed.

Lemma total_of_app a b : total_of (a ++ b) = total_of a + total_of b.
Proof. unfold total_of. rewrite map_app. apply zsum_app. Qed.

Lemma total_flat_map {A} (f : A -> list origin) l : total_of (flat_map f l) = zsum (map (fun x => total_of (f x)) l).
Proof. induction l as [|x l IH]; cbn [flat_map map zsum]; [reflexivity|]. rewrite total_of_app, IH. reflexivity. Qed.

Lemma find_val_none vs k : ~ In k (map v_id vs) -> find_val vs k = None.
Proof.
  induction vs as [|x r IH]; cbn; [reflexivity|]. intros H.
  destruct (v_id x =? k) eqn:E; [apply Z.eqb_eq in E; exfalso; apply H; auto | apply IH; auto].
Qed.

Lemma find_val_unique vs v : NoDup (map v_id vs) -> In v vs -> find_val vs (v_id v) = Some v.
Proof.
  induction vs as [|x r IH]; intros Hn []; cbn.
  - subst. rewrite Z.eqb_refl. reflexivity.
  - inversion Hn as [|? ? H1 H2]; subst. destruct (v_id x =? v_id v) eqn:E.
    + apply Z.eqb_eq in E. exfalso. apply H1. rewrite E. apply in_map. exact H.
    + apply IH; assumption.
Qed.

Lemma sum_single L k (f : validator -> Z) : NoDup (map v_id L) ->
  zsum (map (fun v => if v_id v =? k then f v else 0) L) = match find_val L k with Some v => f v | None => 0 end.
Proof.
  induction L as [|x L IH]; intros Hn; cbn; [reflexivity|].
  inversion Hn as [|? ? H1 H2]; subst. specialize (IH H2).
  destruct (v_id x =? k) eqn:E.
  - apply Z.eqb_eq in E. subst k. rewrite (find_val_none L (v_id x) H1) in IH. lia.
  - rewrite IH. lia.
Qed.

Lemma find_del_none ds s k : ~ In (s, k) (map (fun d => (d_del d, d_val d)) ds) -> find_del ds s k = None.
Proof.
  induction ds as [|x r IH]; cbn; [reflexivity|]. intros H.
  destruct ((d_del x =? s) && (d_val x =? k)) eqn:E.
  - apply andb_prop in E. destruct E as [E1 E2]. apply Z.eqb_eq in E1. apply Z.eqb_eq in E2. subst.
    exfalso. apply H. auto.
  - apply IH. auto.
Qed.

(* sum over validators of "value of s's delegation there" = sum over s's delegations of
   "value at its validator if that validator is in the list" *)
Lemma sum_swap L D s : NoDup (map v_id L) -> NoDup (map (fun d => (d_del d, d_val d)) D) ->
  zsum (map (fun v => match find_del D s (v_id v) with Some sh => val_round v sh | None => 0 end) L) =
  zsum (map (fun d => match find_val L (d_val d) with Some v => val_round v (d_shares d) | None => 0 end) (dels_of D s)).
Proof.
  intros HL. induction D as [|d D IH]; intros HD.
  - cbn. induction L as [|x L IHL]; cbn; [reflexivity|]. inversion HL; subst. rewrite IHL by assumption. reflexivity.
  - inversion HD as [|? ? H1 H2]; subst. specialize (IH H2). cbn [dels_of filter find_del].
    destruct (d_del d =? s) eqn:Es.
    + apply Z.eqb_eq in Es. cbn [map zsum]. fold (dels_of D s). rewrite <- IH.
      rewrite <- (sum_single L (d_val d) (fun v => val_round v (d_shares d)) HL).
      assert (Hnone : find_del D s (d_val d) = None) by (apply find_del_none; rewrite <- Es; exact H1).
      clear - Hnone. induction L as [|x L IHL]; cbn [map zsum]; [reflexivity|]. rewrite IHL. cbn [andb].
      rewrite (Z.eqb_sym (d_val d) (v_id x)). destruct (v_id x =? d_val d) eqn:E.
      * apply Z.eqb_eq in E. rewrite E, Hnone. lia.
      * lia.
    + cbn [andb]. fold (dels_of D s). exact IH.
Qed.

Lemma bonded_by_power_props vs : forall order room,
  NoDup order ->
  (forall v, In v (bonded_by_power vs order room) -> find_val vs (v_id v) = Some v /\ bonded v = true /\ In (v_id v) order) /\
  NoDup (map v_id (bonded_by_power vs order room)).
Proof.
  induction order as [|id rest IH]; intros room Hn.
  - cbn. split; [intros v [] | constructor].
  - inversion Hn as [|? ? H1 H2]; subst. destruct room as [|room']; [cbn; split; [intros v [] | constructor]|].
    cbn [bonded_by_power]. destruct (find_val vs id) as [v0|] eqn:E.
    + destruct (bonded v0) eqn:Eb.
      * destruct (IH room' H2) as [IHa IHb]. destruct (find_val_in vs id v0 E) as [_ Hid]. split.
        -- intros v [<-|Hv]; [rewrite Hid; repeat split; auto; left; reflexivity|].
           destruct (IHa v Hv) as [A [B C]]. repeat split; auto. right. exact C.
        -- cbn. constructor; [|exact IHb]. intros Hin. apply in_map_iff in Hin. destruct Hin as [v [Hv1 Hv2]].
           destruct (IHa v Hv2) as [_ [_ C]]. rewrite Hv1, Hid in C. contradiction.
      * destruct (IH (S room') H2) as [IHa IHb]. split; [|exact IHb].
        intros v Hv. destruct (IHa v Hv) as [A [B C]]. repeat split; auto. right. exact C.
    + destruct (IH (S room') H2) as [IHa IHb]. split; [|exact IHb].
      intros v Hv. destruct (IHa v Hv) as [A [B C]]. repeat split; auto. right. exact C.
Qed.

Lemma origins_A_total vw s :
  total_of (origins_A true vw s) =
  zsum (map (fun v => match find_del (sv_dels vw) s (v_id v) with Some sh => val_round v sh | None => 0 end)
            (bonded_by_power (sv_vals vw) (sv_power vw) (Z.to_nat (sv_maxvals vw)))).
Proof.
  unfold origins_A. rewrite total_flat_map. f_equal. apply map_ext. intros v.
  destruct (find_del (sv_dels vw) s (v_id v)); cbn; lia.
Qed.

Lemma origins_B_total vw s : total_of (origins_B vw s) = bonded_tokens vw s.
Proof.
  unfold origins_B, bonded_tokens. rewrite total_flat_map. f_equal. apply map_ext. intros d. unfold bonded_value.
  destruct (find_val (sv_vals vw) (d_val d)) as [v|]; [|reflexivity]. destruct (bonded v); cbn; lia.
Qed.

(* with a uniform valuation the two walks of ReporterStake find the same amount *)
Lemma walks_agree vw s : view_wf vw -> total_of (origins_A true vw s) = total_of (origins_B vw s).
Proof.
  intros [Hv [Hp [Hd Hreach]]]. rewrite origins_A_total, origins_B_total. unfold bonded_tokens.
  set (BP := bonded_by_power (sv_vals vw) (sv_power vw) (Z.to_nat (sv_maxvals vw))) in *.
  destruct (bonded_by_power_props (sv_vals vw) (sv_power vw) (Z.to_nat (sv_maxvals vw)) Hp) as [Ha Hb]. fold BP in Ha, Hb.
  rewrite (sum_swap BP (sv_dels vw) s Hb Hd). f_equal. apply map_ext. intros d. unfold bonded_value.
  destruct (find_val BP (d_val d)) as [v|] eqn:E.
  - destruct (find_val_in BP (d_val d) v E) as [Hin Hid]. destruct (Ha v Hin) as [A [B _]].
    rewrite Hid in A. rewrite A, B. reflexivity.
  - destruct (find_val (sv_vals vw) (d_val d)) as [v|] eqn:E2; [|reflexivity].
    destruct (bonded v) eqn:Eb; [|reflexivity]. exfalso.
    destruct (find_val_in _ _ _ E2) as [Hin Hid]. specialize (Hreach v Hin Eb).
    pose proof (find_val_unique BP v Hb Hreach) as H. rewrite Hid in H. congruence.
Qed.

Lemma spec_stake_sum vw now sels r :
  spec_stake vw now sels r =
  zsum (map (fun s => if (s_reporter s =? r) && unlocked now s then bonded_tokens vw (s_addr s) else 0) sels).
Proof.
  unfold spec_stake, spec_origins. rewrite total_flat_map. f_equal. apply map_ext. intros s.
  destruct ((s_reporter s =? r) && unlocked now s); [apply origins_B_total | reflexivity].
Qed.

(* C10, first sentence (repaired valuation): stake = sum over the reporter's unlocked
   selectors of their delegations to bonded validators, each valued once *)
Theorem stake_is_bonded_stake vw now sels r :
  view_wf vw -> total_of (stake_origins true vw now sels r) = spec_stake vw now sels r.
Proof.
  intros Hwf. unfold stake_origins. rewrite spec_stake_sum, total_flat_map. f_equal. apply map_ext. intros s.
  destruct ((s_reporter s =? r) && unlocked now s); [|reflexivity].
  unfold selector_origins. destruct (by_power vw s); [rewrite walks_agree by exact Hwf|]; apply origins_B_total.
Qed.

(* the code as it is: the by-power walk truncates; it agrees when exchange rates are exact ... *)
Definition rates_exact (vw : sview) : Prop :=
  (forall v, In v (sv_vals vw) -> 0 < v_tokens v /\ v_shares v = v_tokens v * P) /\
  (forall d, In d (sv_dels vw) -> 0 <= d_shares d).

Lemma find_del_in ds s k sh : find_del ds s k = Some sh -> exists d, In d ds /\ d_shares d = sh.
Proof.
  induction ds as [|x r IH]; cbn; [discriminate|].
  destruct ((d_del x =? s) && (d_val x =? k)); [intros H; injection H as <-; exists x; auto|].
  intros H. destruct (IH H) as [d [H1 H2]]. exists d. auto.
Qed.

Lemma origins_A_variant_exact vw s : rates_exact vw -> NoDup (sv_power vw) -> origins_A false vw s = origins_A true vw s.
Proof.
  intros [Hv Hd] Hp. unfold origins_A.
  destruct (bonded_by_power_props (sv_vals vw) (sv_power vw) (Z.to_nat (sv_maxvals vw)) Hp) as [Ha _].
  induction (bonded_by_power (sv_vals vw) (sv_power vw) (Z.to_nat (sv_maxvals vw))) as [|v L IH]; [reflexivity|].
  cbn [flat_map]. rewrite IH by (intros; apply Ha; cbn; auto). f_equal.
  destruct (find_del (sv_dels vw) s (v_id v)) as [sh|] eqn:E; [|reflexivity].
  destruct (Ha v (or_introl eq_refl)) as [A _]. destruct (find_val_in _ _ _ A) as [Hin _].
  destruct (Hv v Hin) as [Ht Hs]. destruct (find_del_in _ _ _ _ E) as [d [Hd1 Hd2]].
  pose proof (Hd d Hd1). destruct (val_exact_rate v sh ltac:(lia) Ht Hs) as [H1 _]. rewrite H1. reflexivity.
Qed.

Theorem stake_is_bonded_stake_partial vw now sels r :
  view_wf vw -> rates_exact vw -> total_of (stake_origins false vw now sels r) = spec_stake vw now sels r.
Proof.
  intros Hwf Hr. rewrite <- stake_is_bonded_stake by exact Hwf. f_equal. unfold stake_origins.
  induction sels as [|s l IH]; [reflexivity|]. cbn [flat_map]. rewrite IH. f_equal.
  destruct ((s_reporter s =? r) && unlocked now s); [|reflexivity]. unfold selector_origins.
  destruct (by_power vw s); [|reflexivity]. apply origins_A_variant_exact; [exact Hr | apply Hwf].
Qed.

(* ... and otherwise loses at most one loya per delegation it visits *)
Lemma le3_add a b n x y m : x <= y <= x + m -> a <= b <= a + n -> x + a <= y + b <= x + a + (m + n).
Proof. lia. Qed.

Lemma origins_A_variant_bound vw s : view_nonneg vw -> NoDup (sv_power vw) ->
  total_of (origins_A false vw s) <= total_of (origins_A true vw s) <= total_of (origins_A false vw s) + Z.of_nat (List.length (origins_A false vw s)).
Proof.
  intros [Hv Hd] Hp. unfold origins_A.
  destruct (bonded_by_power_props (sv_vals vw) (sv_power vw) (Z.to_nat (sv_maxvals vw)) Hp) as [Ha _].
  induction (bonded_by_power (sv_vals vw) (sv_power vw) (Z.to_nat (sv_maxvals vw))) as [|v L IH]; [cbn; lia|].
  cbn [flat_map]. rewrite !total_of_app, app_length, Nat2Z.inj_add.
  specialize (IH ltac:(intros; apply Ha; cbn; auto)).
  apply le3_add; [|exact IH].
  destruct (find_del (sv_dels vw) s (v_id v)) as [sh|] eqn:E; [|cbn; lia].
  destruct (Ha v (or_introl eq_refl)) as [A _]. destruct (find_val_in _ _ _ A) as [Hin _].
  destruct (Hv v Hin) as [Ht Hs]. destruct (find_del_in _ _ _ _ E) as [d [Hd1 Hd2]].
  pose proof (Hd d Hd1). pose proof (val_round_bounds v sh ltac:(lia) Ht Hs).
  unfold total_of. cbn [map zsum o_amount snd List.length Z.of_nat Pos.of_succ_nat]. lia.
Qed.

Theorem stake_variant_bound vw now sels r : view_nonneg vw -> NoDup (sv_power vw) ->
  total_of (stake_origins false vw now sels r) <= total_of (stake_origins true vw now sels r)
  <= total_of (stake_origins false vw now sels r) + Z.of_nat (List.length (stake_origins false vw now sels r)).
Proof.
  intros Hv Hp. unfold stake_origins. induction sels as [|s l IH]; [cbn; lia|].
  cbn [flat_map]. rewrite !total_of_app, app_length, Nat2Z.inj_add.
  apply le3_add; [|exact IH].
  destruct ((s_reporter s =? r) && unlocked now s); [|cbn; lia].
  unfold selector_origins. destruct (by_power vw s); [|lia].
  exact (origins_A_variant_bound vw (s_addr s) Hv Hp).
Qed.

(* ---------------------------------------------------------------------------------------- *)
(* 8. the code as it is violates three clauses: concrete witnesses                           *)
(* ---------------------------------------------------------------------------------------- *)
(* F43: validator 1 was slashed (3334335100 loya for 5001500099.235... shares); account 4
   delegated 10^6 loya to it afterwards, has a second delegation with the unbonded validator 2
   and is its own reporter; MaxValidators = 1 < 2 delegations, so the by-power walk is used:
   it finds 999999, every other valuation 1000000 *)
Definition f40_view : sview :=
  mkView [mkVal 1 3 false 3334335100 5001500099235000405449785111; mkVal 2 1 false 1000000 1000000000000000000000000]
         [mkDel 4 1 1499999235000405449785111; mkDel 4 2 1000000000000000000000000] [1; 2] 1 100.
Definition f40_sels : list selection := [mkSel 4 4 2 0].

Lemma f40_view_wf : view_wf f40_view /\ view_nonneg f40_view.
Proof.
  split; [split; [|split; [|split]]|split].
  - cbn. repeat constructor; cbn; intuition lia.
  - cbn. repeat constructor; cbn; intuition lia.
  - cbn. repeat constructor; cbn; intuition congruence.
  - intros v [<-|[<-|[]]]; [intros _; vm_compute; left; reflexivity | cbn; discriminate].
  - intros v [<-|[<-|[]]]; cbn; lia.
  - intros d [<-|[<-|[]]]; cbn; lia.
Qed.

Lemma strategy_valuation_refuted :
  exists vw now sels r, view_wf vw /\ view_nonneg vw /\
    total_of (stake_origins false vw now sels r) = 999999 /\ spec_stake vw now sels r = 1000000 /\
    total_of (stake_origins true vw now sels r) = 1000000.
Proof.
  exists f40_view, 0, f40_sels, 4. destruct f40_view_wf as [H1 H2].
  split; [exact H1|]. split; [exact H2|]. split; [|split]; vm_compute; reflexivity.
Qed.

(* the same witness through the message: with MinStakeAmount 10^6 the report is refused *)
Lemma strategy_valuation_refuses_report :
  let st := mkState f40_sels [mkRep 4 1000000 false 0] [] (mkPar 1000000 5 1000000) f40_view 10 1000 in
  rs_code (snd (step false st (OReport 4 0))) = E_STAKE /\ rs_code (snd (step true st (OReport 4 0))) = OK /\
  p_min_stake (st_par st) <= spec_stake (st_view st) (st_now st) (st_sel st) 4.
Proof. vm_compute. repeat split; discriminate. Qed.

(* F44: validator 1 was jailed in this block: status still bonded, not in the power index *)
Definition f41_view : sview :=
  mkView [mkVal 1 3 true 10000000 10000000000000000000000000; mkVal 2 3 false 10000000 10000000000000000000000000]
         [mkDel 4 1 5000000000000000000000000; mkDel 4 2 2000000000000000000000000] [2] 1 100.

Lemma strategy_reach_refuted :
  exists vw now sels r,
    NoDup (map v_id (sv_vals vw)) /\ NoDup (sv_power vw) /\ NoDup (map (fun d => (d_del d, d_val d)) (sv_dels vw)) /\
    rates_exact vw /\
    total_of (stake_origins true vw now sels r) = 2000000 /\ spec_stake vw now sels r = 7000000 /\
    (* the same account with one delegation fewer recorded is counted in full *)
    total_of (stake_origins true vw now [mkSel 4 4 1 0] r) = 7000000.
Proof.
  exists f41_view, 0, [mkSel 4 4 2 0], 4.
  split; [cbn; repeat constructor; cbn; intuition lia|].
  split; [cbn; repeat constructor; cbn; intuition lia|].
  split; [cbn; repeat constructor; cbn; intuition congruence|].
  split; [split; cbn; [intros v [<-|[<-|[]]]; cbn; (split; [lia | reflexivity]) | intros d [<-|[<-|[]]]; cbn; lia]|].
  split; [|split]; vm_compute; reflexivity.
Qed.

(* F17: MaxSelectors is lowered from 3 to 2; selector 7 (4 TRB, one loya undelegated) is removed from
   reporter 5, selects reporter 6 and is counted by both at the same instant (unbonding time 100) *)
Definition f17_view (a7 : Z) : sview :=
  mkView [mkVal 1 3 false 100000000 100000000000000000000000000]
         [mkDel 5 1 4000000000000000000000000; mkDel 6 1 4000000000000000000000000;
          mkDel 7 1 a7; mkDel 8 1 4000000000000000000000000] [1] 10 100.
Definition f17_ops : list op :=
  [OParams (mkPar 1000000 3 1000000); OEnv (f17_view 4000000000000000000000000); OBlock 5 1000;
   OCreate 5 4000000 true; OCreate 6 1000000 true; OSelect 7 5; OSelect 8 5; OReport 5 0;
   OParams (mkPar 1000000 2 1000000); OEnv (f17_view 3999999000000000000000000);
   ORemove 7; OSelect 7 6; OReport 6 0].

Lemma remove_reselect_refuted :
  exists ops U s r1 t1 r2 t2,
    In (s, r1, t1) (events false init_state ops []) /\ In (s, r2, t2) (events false init_state ops []) /\
    r1 <> r2 /\ 0 < U /\ Z.abs (t1 - t2) < U /\
    (* every assumption of the theorem holds except that MaxSelectors was lowered once *)
    sv_unbond (st_view (run false init_state ops)) = U.
Proof.
  exists f17_ops, 100, 7, 5, 1000, 6, 1000.
  assert (E : events false init_state f17_ops [] = [(6, 6, 1000); (7, 6, 1000); (5, 5, 1000); (7, 5, 1000); (8, 5, 1000)])
    by (vm_compute; reflexivity).
  rewrite E. split; [cbn; tauto|]. split; [cbn; tauto|]. split; [lia|]. split; [lia|]. split; [cbn; lia|].
  vm_compute. reflexivity.
Qed.

(* a jailed reporter whose own selection was removed registers again and is free *)
Definition f17_jail_ops : list op :=
  [OParams (mkPar 1000000 3 1000000); OEnv (f17_view 4000000000000000000000000); OBlock 5 1000;
   OCreate 7 4000000 true; OSelect 5 7; OSelect 6 7; OJail 7 1000000;
   OParams (mkPar 1000000 2 1000000); OEnv (f17_view 3999999000000000000000000); ORemove 7;
   OEnv (f17_view 4000000000000000000000000); OCreate 7 4000000 true; OReport 7 0].

Lemma recreate_escapes_jail_refuted :
  exists ops1 o ops2,
    let st1 := run false init_state ops1 in
    (exists rp, rep_get (st_rep st1) 7 = Some rp /\ r_jailed rp = true /\ st_now st1 < r_until rp) /\
    o <> OUnjail 7 /\
    accepted false (run false st1 (o :: ops2)) (OReport 7 0).
Proof.
  exists (firstn 11 f17_jail_ops), (OCreate 7 4000000 true), [].
  split; [eexists; vm_compute; repeat split; reflexivity|]. split; [discriminate|]. vm_compute. reflexivity.
Qed.

(* ---- non-vacuity -------------------------------------------------------------------------- *)
Definition good_ops : list op :=
  [OParams (mkPar 1000000 3 1000000); OEnv (f17_view 4000000000000000000000000); OBlock 5 1000;
   OCreate 5 4000000 true; OCreate 6 1000000 true; OSelect 7 5; OSelect 8 5; OReport 5 0;
   OSwitch 7 6; OReport 6 0; OBlock 6 1099; OReport 6 1; OBlock 7 1100; OReport 6 2].

Lemma good_history_example :
  inv (mkState [] [] [] (mkPar 1000000 3 1000000) empty_view 0 0) /\
  hist_ok false 100 (fst (step false (mkState [] [] [] (mkPar 1000000 3 1000000) (f17_view 0) 0 0) (OParams (mkPar 1000000 3 1000000)))) (tl good_ops) /\
  events false init_state good_ops [] =
    [(6, 6, 1100); (7, 6, 1100); (6, 6, 1099); (6, 6, 1000); (5, 5, 1000); (7, 5, 1000); (8, 5, 1000)].
Proof.
  split; [apply inv_init; cbn; lia|]. split; [|vm_compute; reflexivity].
  vm_compute. repeat split; try discriminate; reflexivity.
Qed.

(* ---------------------------------------------------------------------------------------- *)
(* 9. what an empty issue list of the check means                                            *)
(* ---------------------------------------------------------------------------------------- *)
Lemma app_nil3 {A} (a b c : list A) : a ++ b ++ c = [] -> a = [] /\ b = [] /\ c = [].
Proof.
  intros H. apply app_nil_both in H. destruct H as [H1 H2]. apply app_nil_both in H2. tauto.
Qed.

Lemma forallb_counted_ok U now r log l :
  forallb (counted_ok U now r log) l = true ->
  forall s r' t', In s l -> In (s, r', t') log -> r' = r \/ U <= now - t'.
Proof.
  intros H s r' t' Hs Hl. rewrite forallb_forall in H. specialize (H s Hs). unfold counted_ok in H.
  rewrite forallb_forall in H. specialize (H (s, r', t') Hl). cbn in H.
  rewrite Z.eqb_refl in H. cbn in H. apply orb_prop in H. destruct H as [H|H].
  - left. apply Z.eqb_eq. exact H.
  - right. apply Z.leb_le. exact H.
Qed.

Lemma dedup_in x l : In x l -> In x (dedup l).
Proof.
  induction l as [|y l IH]; [intros []|]. intros [<-|H]; cbn.
  - destruct (mem y l) eqn:E; [|left; reflexivity]. apply IH. unfold mem in E. apply existsb_exists in E.
    destruct E as [z [Hz1 Hz2]]. apply Z.eqb_eq in Hz2. subst. exact Hz1.
  - destruct (mem y l); [apply IH; exact H | right; apply IH; exact H].
Qed.

(* the executable specification of an accepted report, as a proposition about what the
   implementation answered ([ob]) in the context it was asked in *)
Lemma spec_step_report_sound vw now par g sels reps r q ob :
  spec_step vw now par g sels reps (OReport r q) ob = [] -> ob_code ob = OK ->
  (exists rp, rep_get reps r = Some rp /\ r_jailed rp = false) /\
  ob_total ob = spec_stake vw now sels r /\
  total_of (ob_origins ob) = ob_total ob /\
  ob_power ob = Z.quot (ob_total ob) POWER_REDUCTION /\
  p_min_stake par <= ob_total ob /\
  (forall s r' t', In s (map o_sel (ob_origins ob)) -> In (s, r', t') (g_counted g) ->
                   r' = r \/ sv_unbond vw <= now - t').
Proof.
  intros H Hok. unfold spec_step in H. rewrite Hok in H. cbn [Z.eqb OK] in H.
  apply app_nil_both in H. destruct H as [_ H]. apply app_nil_both in H. destruct H as [_ H].
  apply app_nil_both in H. destruct H as [_ H].
  apply app_nil_both in H. destruct H as [H1 H]. apply app_nil_both in H. destruct H as [H2 H].
  apply app_nil_both in H. destruct H as [_ H]. apply app_nil_both in H. destruct H as [H4 H].
  apply app_nil_both in H. destruct H as [H5 H]. apply app_nil_both in H. destruct H as [H6 H7].
  apply spec_if_nil in H1, H2, H4, H5, H6, H7.
  split; [destruct (rep_get reps r) as [rp|]; [|discriminate]; exists rp; split; [reflexivity|];
          apply negb_true_iff; exact H1|].
  split; [apply Z.eqb_eq; exact H2|]. split; [apply Z.eqb_eq; exact H4|]. split; [apply Z.eqb_eq; exact H5|].
  split; [apply Z.leb_le; exact H6|].
  intros s r' t' Hs Hl. apply (forallb_counted_ok _ _ _ _ _ H7 s r' t'); [apply dedup_in; exact Hs | exact Hl].
Qed.

Lemma c10_check_sound steps :
  c10_check (Hist steps) = [] -> failing_from init_state ghost0 tables0 steps = None.
Proof.
  unfold c10_check, c10_failing. destruct (failing_from init_state ghost0 tables0 steps) as [[[[[iss st] g] o] ob]|] eqn:E; [|reflexivity].
  intros ->. exfalso. revert E. generalize init_state ghost0 tables0.
  induction steps as [|[c co] rest IH]; intros st0 g0 t0; cbn [failing_from]; [discriminate|].
  destruct (check_step st0 g0 (op_of (st_view st0) c) (obs_of t0 co)) as [[iss' st'] g'].
  destruct iss'; [apply IH | discriminate].
Qed.

(* every operation of a case with an empty issue list satisfied its specification *)
Lemma failing_none_step st g prev c co rest :
  failing_from st g prev ((c, co) :: rest) = None ->
  let o := op_of (st_view st) c in let ob := obs_of prev co in
  fst (fst (check_step st g o ob)) = [] /\
  failing_from (snd (fst (check_step st g o ob))) (snd (check_step st g o ob)) (ob_sel ob, ob_idx ob, ob_rep ob) rest = None.
Proof.
  cbn [failing_from]. destruct (check_step st g (op_of (st_view st) c) (obs_of prev co)) as [[iss st'] g'].
  destruct iss; [intros H; split; [reflexivity | exact H] | discriminate].
Qed.

Lemma jailed_cannot_report fx st r q rp :
  rep_get (st_rep st) r = Some rp -> r_jailed rp = true -> ~ accepted fx st (OReport r q).
Proof.
  intros Hg Hj Ha. destruct (report_accepted fx st r q Ha) as [[rp' [Hg' Hj']] _].
  clear Ha. rewrite Hg in Hg'. injection Hg' as <-. rewrite Hj in Hj'. discriminate.
Qed.
