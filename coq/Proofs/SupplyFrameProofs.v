(* C03 — the frame / exact-delta clauses of the token supply, derived from the executable models of the
   handlers that move coins (each model is tied to the Go code by the correspondence check of the property that
   owns it: Escrow C04, DisputeSettle C13, BridgeTokens C14, Slash C11, Mint C03).

   Every statement is over ALL states and operations of the model; histories by induction over the operation
   list.  New definitions (only what is needed to state the theorems) live here; the models are unchanged.
   One sub-module per model: the models' names clash, so each is imported only inside its own module. *)
From Coq Require Import ZArith List Bool Lia String.
From Verif Require Base.Dec Base.Harness.
From Verif Require Model.Escrow Proofs.EscrowProofs.
From Verif Require Model.BridgeTokens Proofs.BridgeTokensProofs.
From Verif Require Model.DisputeSettle Proofs.DisputeSettleProofs.
From Verif Require Model.Slash Proofs.SlashProofs.
From Verif Require Model.Mint Proofs.MintProofs.
Import ListNotations.
Open Scope Z_scope.

Ltac Zify.zify_post_hook ::= Z.to_euclidean_division_equations.

Fixpoint zsum (l : list Z) : Z := match l with [] => 0 | x :: r => x + zsum r end.

(* ================================================================================================ *)
(*  Model/Escrow.v (C04): tips, reward payouts, tip withdrawals, the block provision                   *)
(* ================================================================================================ *)
Module EscrowFrame.
Import Verif.Model.Escrow Verif.Proofs.EscrowProofs.

(* the per-operation supply changes along a history *)
Fixpoint deltas (s : estate) (ops : list eop) : list Z :=
  match ops with [] => [] | o :: r => supply_delta s o :: deltas (estep_total s o) r end.

(* (i) an accepted tip of a burns floor(2a/100); the tipper pays a, the oracle account receives the rest *)
Lemma tip_exact s q a s' :
  estep s (ETip q a) = Some s' ->
  0 < a <= e_users s /\ supply_delta s (ETip q a) = - (2 * a / 100) /\
  e_supply s' = e_supply s - 2 * a / 100 /\ 0 <= 2 * a / 100 <= a /\
  e_users s' = e_users s - a /\ e_oracle s' = e_oracle s + (a - 2 * a / 100).
Proof.
  intros H. unfold supply_delta. rewrite H. cbn [estep] in H.
  destruct ((0 <? a) && (a <=? e_users s)) eqn:E; [|discriminate]. injection H as <-.
  apply andb_prop in E. destruct E as [E1 E2]. apply Z.ltb_lt in E1. apply Z.leb_le in E2.
  cbn [e_supply e_users e_oracle]. lia.
Qed.

(* (i) an accepted block provision p adds p: p - p/4 to the reward pool, p/4 to the fee collector *)
Lemma mint_exact s p s' :
  estep s (EMint p) = Some s' ->
  0 <= p /\ supply_delta s (EMint p) = p /\ e_supply s' = e_supply s + p /\
  e_tbr s' = e_tbr s + (p - p / 4) /\ e_feecoll s' = e_feecoll s + p / 4.
Proof.
  intros H. unfold supply_delta. rewrite H. cbn [estep] in H.
  destruct (0 <=? p) eqn:E; [|discriminate]. injection H as <-. apply Z.leb_le in E.
  cbn [e_supply e_tbr e_feecoll]. lia.
Qed.

(* (ii) the supply moves only at an accepted tip or provision, by exactly that *)
Lemma delta_only_documented s o :
  supply_delta s o <> 0 ->
  match o with
  | ETip _ a => estep s o <> None /\ 0 < a /\ supply_delta s o = - (2 * a / 100)
  | EMint p => estep s o <> None /\ 0 < p /\ supply_delta s o = p
  | EPayTip _ _ | EPayTbr _ | EWithdrawTip _ => False
  end.
Proof.
  intros Hd. destruct o as [q a | q cs | cs | sel | p].
  - destruct (estep s (ETip q a)) as [s'|] eqn:E.
    + destruct (tip_exact _ _ _ _ E) as (H1 & H2 & _). split; [discriminate|]. split; [lia | exact H2].
    + exfalso. apply Hd. unfold supply_delta. rewrite E. reflexivity.
  - apply Hd. unfold supply_delta. destruct (estep s (EPayTip q cs)); reflexivity.
  - apply Hd. unfold supply_delta. destruct (estep s (EPayTbr cs)); reflexivity.
  - apply Hd. unfold supply_delta. destruct (estep s (EWithdrawTip sel)); reflexivity.
  - destruct (estep s (EMint p)) as [s'|] eqn:E.
    + destruct (mint_exact _ _ _ E) as (H1 & H2 & _). split; [discriminate|]. split; [lia | exact H2].
    + exfalso. apply Hd. unfold supply_delta. rewrite E. reflexivity.
Qed.

(* (ii) payouts of tips and of time based rewards and tip withdrawals never change the supply ... *)
Lemma other_ops_unchanged s o :
  match o with ETip _ _ | EMint _ => False | _ => True end ->
  supply_delta s o = 0 /\ e_supply (estep_total s o) = e_supply s.
Proof.
  intros Ho. assert (Hz : supply_delta s o = 0).
  { unfold supply_delta. destruct o; try contradiction; destruct (estep s _); reflexivity. }
  split; [exact Hz|]. rewrite supply_frame. lia.
Qed.

(* ... and a rejected operation changes nothing at all *)
Lemma rejected_unchanged s o : estep s o = None -> estep_total s o = s /\ supply_delta s o = 0.
Proof. intros H. unfold estep_total, supply_delta. rewrite H. split; [reflexivity | destruct o; reflexivity]. Qed.

(* (iii) over any history: final supply = initial supply + the sum of the per-operation changes *)
Lemma supply_history ops : forall s, e_supply (fold_left estep_total ops s) = e_supply s + zsum (deltas s ops).
Proof.
  induction ops as [|o r IH]; intros s; cbn [fold_left deltas zsum]; [lia|].
  rewrite IH, supply_frame. lia.
Qed.

(* ... and the recorded supply stays the sum of all balances the model tracks *)
Lemma supply_is_balance_sum ops s :
  einv s ->
  let s' := fold_left estep_total ops s in
  e_supply s' = e_users s' + e_oracle s' + e_tips s' + e_tbr s' + e_feecoll s' + e_bonded s'.
Proof. intros H. cbv zeta. pose proof (erun_inv ops s H) as H'. unfold einv in H'. tauto. Qed.

(* the tip burn and the model's tip agree with the ledger of documented events (Model/Mint.v) *)
Lemma tip_is_ledger_event fx l t s q a s' :
  estep s (ETip q a) = Some s' -> supply_delta s (ETip q a) = Mint.nominal_delta fx l (Mint.LTip t a).
Proof. intros H. unfold supply_delta. rewrite H. reflexivity. Qed.

Example escrow_history_example :
  let ops := [ETip 1 1000; ETip 2 51; ETip 3 0; EMint 1000; EPayTip 1 [(7, 490 * Dec.P - 1); (8, 490 * Dec.P)];
              EPayTbr [(7, 750 * Dec.P)]; EWithdrawTip 7; EMint (-5)] in
  deltas (einit 5000) ops = [-20; -1; 0; 1000; 0; 0; 0; 0] /\
  e_supply (fold_left estep_total ops (einit 5000)) = 5979.
Proof. vm_compute. split; reflexivity. Qed.

End EscrowFrame.

(* ================================================================================================ *)
(*  Model/BridgeTokens.v (C14): claims of deposits and withdrawals                                     *)
(* ================================================================================================ *)
Module BridgeFrame.
Import Verif.Model.BridgeTokens Verif.Proofs.BridgeTokensProofs.

(* the uint256 amount word (wei, 18 decimals) of the report stored at index [idx] of deposit [dep] *)
Definition reported_wei (s : state) (dep idx : Z) : Z :=
  match nth_z (aggs_of s dep) idx with
  | Some a => match hex_decode (codes (a_value a)) with
              | Some d => match abi_decode4 d with Some (_, _, x, _) => x | None => 0 end
              | None => 0
              end
  | None => 0
  end.

(* what a batch of claims mints: the reported amount / 10^12 of each claimed deposit *)
Fixpoint batch_loya (s : state) (deps idxs : list Z) : Z :=
  match deps, idxs with
  | d :: ds, i :: is_ => reported_wei s d i / E12 + batch_loya s ds is_
  | _, _ => 0
  end.

Definition supply_delta (v : variant) (cf : cfg) (s : state) (o : op) : Z :=
  match o with
  | OClaim c ds is_ => match claim_deposits v cf s c ds is_ with Some _ => batch_loya s ds is_ | None => 0 end
  | OWithdraw a dn amt r => match withdraw v cf s a dn amt r with Some _ => - amt | None => 0 end
  | _ => 0
  end.

Fixpoint deltas (v : variant) (cf : cfg) (s : state) (ops : list op) : list Z :=
  match ops with [] => [] | o :: r => supply_delta v cf s o :: deltas v cf (hstep v cf s o) r end.

Lemma reported_wei_ext s s' dep idx : s_aggs s' = s_aggs s -> reported_wei s' dep idx = reported_wei s dep idx.
Proof. intros H. unfold reported_wei, aggs_of. rewrite H. reflexivity. Qed.

Lemma batch_loya_ext s s' : s_aggs s' = s_aggs s -> forall ds is_, batch_loya s' ds is_ = batch_loya s ds is_.
Proof.
  intros H. induction ds as [|d ds IH]; intros is_; [reflexivity|].
  destruct is_ as [|i is_]; [reflexivity|]. cbn [batch_loya]. rewrite IH, (reported_wei_ext _ _ _ _ H). reflexivity.
Qed.

(* (i) one claimed deposit mints the reported amount / 10^12 (repaired conversion) *)
Lemma claim_one_exact v cf s claimer dep idx s' :
  v_wide v = true -> claim_deposit v cf s claimer dep idx = Some s' ->
  s_supply s' = s_supply s + reported_wei s dep idx / E12 /\ 0 <= reported_wei s dep idx / E12 /\ s_aggs s' = s_aggs s.
Proof.
  intros Hv H.
  destruct (claim_mint_exact _ _ _ _ _ _ _ Hv H) as (a & d & evm & text & x & y & r & Hn & Hh & Ha & _ & _ & Hs & _).
  destruct (claim_deposit_inv _ _ _ _ _ _ _ H) as (a' & thr & r' & am & tp & F).
  assert (Hx : 0 <= x).
  { pose proof (hex_decode_bytes _ _ _ (le_n _) Hh) as Hb. destruct (abi_decode4_nonneg _ _ _ _ _ Hb Ha) as [Hx _]. exact Hx. }
  unfold reported_wei. rewrite Hn, Hh, Ha. split; [exact Hs|]. split; [|apply F].
  apply Z.div_pos; [exact Hx | reflexivity].
Qed.

Lemma claim_loop_exact v cf claimer : v_wide v = true -> forall ds is_ s s',
  claim_loop v cf s claimer ds is_ = Some s' ->
  s_supply s' = s_supply s + batch_loya s ds is_ /\ 0 <= batch_loya s ds is_ /\ s_aggs s' = s_aggs s.
Proof.
  intros Hv. induction ds as [|d ds IH]; intros is_ s s' H.
  - cbn in H. injection H as <-. cbn [batch_loya]. repeat split; lia.
  - destruct is_ as [|i is_]; [discriminate|]. cbn [claim_loop] in H.
    destruct (claim_deposit v cf s claimer d i) as [s1|] eqn:E1; [|discriminate].
    destruct (claim_one_exact _ _ _ _ _ _ _ Hv E1) as (H1 & H2 & H3).
    destruct (IH _ _ _ H) as (H4 & H5 & H6).
    cbn [batch_loya]. rewrite (batch_loya_ext _ _ H3) in H4, H5. repeat split; [lia | lia | congruence].
Qed.

(* (i) an accepted batch of claims mints the sum of the reported amounts / 10^12, an accepted withdrawal burns the
       withdrawn amount *)
Lemma claim_batch_exact v cf s claimer ds is_ s' :
  v_wide v = true -> claim_deposits v cf s claimer ds is_ = Some s' ->
  s_supply s' = s_supply s + batch_loya s ds is_ /\ 0 <= batch_loya s ds is_ /\
  supply_delta v cf s (OClaim claimer ds is_) = batch_loya s ds is_.
Proof.
  intros Hv H. unfold supply_delta. rewrite H. apply claim_deposits_loop in H.
  destruct (claim_loop_exact v cf claimer Hv _ _ _ _ H) as (H1 & H2 & _). repeat split; assumption.
Qed.

Lemma withdraw_exact v cf s sender dn amount rcpt s' :
  withdraw v cf s sender dn amount rcpt = Some s' ->
  s_supply s' = s_supply s - amount /\ 0 < amount <= bal_get (s_bal s) sender /\
  supply_delta v cf s (OWithdraw sender dn amount rcpt) = - amount.
Proof.
  intros H. unfold supply_delta. rewrite H.
  destruct (withdraw_burns_exact _ _ _ _ _ _ _ _ H) as (_ & H1 & H2 & H3 & _). repeat split; assumption.
Qed.

Lemma step_env_supply s o : s_supply (step_env s o) = s_supply s.
Proof. destruct o; cbn; try reflexivity. destruct ((0 <=? idx) && _); reflexivity. Qed.

(* (i)+(ii) every operation of the model: the supply changes by exactly [supply_delta]; block time, stored
   aggregates, flags, checkpoints and oracle submissions, and every rejected message: by nothing *)
Lemma supply_frame v cf s o : v_wide v = true -> s_supply (hstep v cf s o) = s_supply s + supply_delta v cf s o.
Proof.
  intros Hv. destruct o as [now | dep ts value power fl | dep idx | ts thr | c ds is_ | a dn amt r | qd];
    try (cbn [hstep supply_delta]; rewrite ?step_env_supply; lia).
  - cbn [hstep]. destruct (claim_deposits v cf s c ds is_) as [s'|] eqn:E.
    + destruct (claim_batch_exact _ _ _ _ _ _ _ Hv E) as (H1 & _ & H3). rewrite H3. exact H1.
    + unfold supply_delta. rewrite E. cbn [or_same]. lia.
  - cbn [hstep]. destruct (withdraw v cf s a dn amt r) as [s'|] eqn:E.
    + destruct (withdraw_exact _ _ _ _ _ _ _ _ E) as (H1 & _ & H3). rewrite H3. cbn [or_same]. lia.
    + unfold supply_delta. rewrite E. cbn [or_same]. lia.
Qed.

Lemma delta_only_documented v cf s o :
  supply_delta v cf s o <> 0 ->
  match o with
  | OClaim c ds is_ => claim_deposits v cf s c ds is_ <> None /\ supply_delta v cf s o = batch_loya s ds is_
  | OWithdraw a dn amt r => withdraw v cf s a dn amt r <> None /\ 0 < amt /\ supply_delta v cf s o = - amt
  | _ => False
  end.
Proof.
  intros Hd. destruct o as [now | dep ts value power fl | dep idx | ts thr | c ds is_ | a dn amt r | qd];
    try (apply Hd; reflexivity).
  - unfold supply_delta in *. destruct (claim_deposits v cf s c ds is_); [split; [discriminate | reflexivity] | contradiction].
  - destruct (withdraw v cf s a dn amt r) as [s'|] eqn:E.
    + destruct (withdraw_exact _ _ _ _ _ _ _ _ E) as (_ & H2 & H3). split; [discriminate|]. split; [lia | exact H3].
    + exfalso. apply Hd. unfold supply_delta. rewrite E. reflexivity.
Qed.

Lemma rejected_unchanged v cf s o :
  match o with
  | OClaim c ds is_ => claim_deposits v cf s c ds is_ = None
  | OWithdraw a dn amt r => withdraw v cf s a dn amt r = None
  | _ => False
  end -> hstep v cf s o = s /\ supply_delta v cf s o = 0.
Proof. destruct o; try contradiction; intros H; cbn [hstep supply_delta]; rewrite H; split; reflexivity. Qed.

(* (iii) histories *)
Lemma supply_history v cf ops : v_wide v = true -> forall s,
  s_supply (fold_left (hstep v cf) ops s) = s_supply s + zsum (deltas v cf s ops).
Proof.
  intros Hv. induction ops as [|o r IH]; intros s; cbn [fold_left deltas zsum]; [lia|].
  rewrite IH, (supply_frame _ _ _ _ Hv). lia.
Qed.

(* the claim and the withdrawal agree with the ledger of documented events (Model/Mint.v) *)
Lemma claim_is_ledger_event fx l fresh c r tipw s dep idx :
  reported_wei s dep idx / E12 = Mint.nominal_delta fx l (Mint.LClaim fresh c r (reported_wei s dep idx) tipw).
Proof. reflexivity. Qed.

(* the code as found (finding F26 of C14: the quotient passes through Int64()): the frame is false *)
Lemma supply_frame_as_found_refuted :
  exists cf s o, s_supply (hstep as_found cf s o) <> s_supply s + supply_delta as_found cf s o.
Proof.
  exists wit_cfg, (wit_state ((2 ^ 64 + 5) * E12) 0), (OClaim 0 [7] [0]).
  vm_compute. intros H. discriminate H.
Qed.

Example bridge_history_example :
  let s := wit_state (100 * 10 ^ 18) (10 ^ 18) in
  let ops := [OClaim 0 [7] [0]; OClaim 1 [7] [0]; OWithdraw 0 true 9 wit_rcpt20; OWithdraw 0 true 9 wit_rcpt21; OTime 5] in
  deltas repaired wit_cfg s ops = [100000000; 0; -9; 0; 0] /\
  s_supply (fold_left (hstep repaired wit_cfg) ops s) = 1000 + 100000000 - 9.
Proof. vm_compute. split; reflexivity. Qed.

End BridgeFrame.

(* ================================================================================================ *)
(*  Model/Slash.v (C11): escrow of stake                                                               *)
(* ================================================================================================ *)
Module SlashFrame.
Import Verif.Model.Slash Verif.Proofs.SlashProofs.

(* the model has no mint / burn primitive; the coins of the staking slice sit in the two pools and the dispute
   escrow, and escrowing stake only moves them from the pools into the escrow *)
Lemma escrow_no_supply_change vr reds st origins power amt st' rec :
  escrow vr reds st origins power amt = Some (st', rec) ->
  s_bonded st' + s_notbonded st' + s_escrow st' = s_bonded st + s_notbonded st + s_escrow st /\
  s_escrow st <= s_escrow st'.
Proof. exact (escrow_conserves vr reds st origins power amt st' rec). Qed.

End SlashFrame.

(* ================================================================================================ *)
(*  Model/DisputeSettle.v (C13): fee payments, execution, refunds, rewards                             *)
(* ================================================================================================ *)
Module DisputeFrame.
Import Verif.Base.Dec Verif.Model.DisputeSettle Verif.Proofs.DisputeSettleProofs.

(* what an execution burns: the whole burn amount when no voting power was recorded, else half of it *)
Definition exec_burn (s : st) : Z :=
  if total_voter_power (s_rounds s) (s_id s) (s_prev s) =? 0 then s_burn s else half_burn (s_burn s).

(* the fractions (10^-6 loya) a fee refund adds to the dust store *)
Definition withdraw_fraction (s : st) (who id : Z) : Z :=
  match find_payer (s_payers s) id who with
  | None => 0
  | Some p =>
      if s_status s =? Failed
      then refund_rem (p_amt p) (truncate_int (dec_quo (of_int (s_feetotal s)) (of_int 20))) (s_feetotal s)
      else if is_invalid (s_result s) then refund_rem (p_amt p) (s_slash s - s_burn s) (s_feetotal s)
      else if is_support (s_result s)
      then refund_rem (p_amt p) (s_slash s - s_burn s) (s_feetotal s) + bond_rem (p_amt p) (s_slash s) (s_feetotal s)
      else 0
  end.

(* the whole loya in a dust total, as WithdrawFeeRefund computes them *)
Definition dust_units (d : Z) : Z := truncate_int (dec_quo (of_int d) (of_int PR6)).

(* the step executed the dispute: its executed flag went from false to true *)
Definition executes (v : variant) (c : cfg) (s : st) (o : op) : bool :=
  negb (s_executed s) && s_executed (fst (step v c s o)).

(* coins burnt by one operation *)
Definition burn_delta (v : variant) (c : cfg) (s : st) (o : op) : Z :=
  match o with
  | OExecBlock | OExecute _ => if executes v c s o then exec_burn s else 0
  | OWithdraw who id => if snd (step v c s o) =? OK then dust_units (s_dust s + withdraw_fraction s who id) else 0
  | _ => 0
  end.

Fixpoint deltas (v : variant) (c : cfg) (s : st) (ops : list op) : list Z :=
  match ops with [] => [] | o :: r => burn_delta v c s o :: deltas v c (fst (step v c s o)) r end.

(* ---- operations that neither burn nor touch the dust store --------------------------------------- *)
Definition keeps (s s' : st) : Prop := s_burned s' = s_burned s /\ s_dust s' = s_dust s.
Lemma keeps_refl s : keeps s s. Proof. split; reflexivity. Qed.

Lemma pay_keeps s who amt bond ft s1 : pay s who amt bond ft = Some s1 -> keeps s s1.
Proof.
  unfold pay. destruct bond.
  - destruct ft as [t|]; [|discriminate]. destruct (tracker_same (s_feetr s) (Some t)); [discriminate|].
    intros H. injection H as <-. split; reflexivity.
  - destruct (getz (s_liq s) who <? amt); [discriminate|]. intros H. injection H as <-. split; reflexivity.
Qed.

Lemma funded_keeps s ft ps sl s2 : funded s ft ps sl = Some s2 -> keeps s s2.
Proof.
  unfold funded. cbv zeta. destruct (ft =? s_slash s).
  - destruct sl as [[os t]|]; [|discriminate]. intros H. injection H as <-. split; reflexivity.
  - intros H. injection H as <-. split; reflexivity.
Qed.

Ltac keeps_fin :=
  repeat match goal with
         | H : pay _ _ _ _ _ = Some _ |- _ => apply pay_keeps in H; destruct H as [? ?]
         | H : funded _ _ _ _ = Some _ |- _ => apply funded_keeps in H; destruct H as [? ?]
         end;
  cbn [fst s_burned s_dust] in *; split; congruence.

Lemma propose_keeps f SS s who fee bond ft sl : keeps s (fst (propose f SS s who fee bond ft sl)).
Proof.
  unfold propose, keeps. cbv zeta.
  destruct (fee <? MIN_FEE); [split; reflexivity|].
  destruct (s_id s =? 0).
  - destruct (pay _ who _ bond ft) as [s1|] eqn:Ep; [|split; reflexivity].
    destruct (funded s1 _ _ sl) as [s2|] eqn:Ef; [|split; reflexivity]. keeps_fin.
  - destruct (negb (s_status s =? Unresolved) || negb (s_open s)); [split; reflexivity|].
    destruct (s_end s <? s_now s); [split; reflexivity|].
    destruct (fee <? round_fee (s_slash s) (s_round s)); [split; reflexivity|].
    destruct (pay s who _ bond ft) as [s1|] eqn:Ep; [|split; reflexivity]. keeps_fin.
Qed.

Lemma add_fee_keeps f rep s who id fee bond ft sl : keeps s (fst (add_fee f rep s who id fee bond ft sl)).
Proof.
  unfold add_fee, keeps. cbv zeta.
  destruct (fee <=? 0); [split; reflexivity|].
  destruct (negb (id =? s_id s) || (s_id s =? 0)); [split; reflexivity|].
  destruct ((who =? rep) && bond); [split; reflexivity|].
  destruct (s_end s <? s_now s); [split; reflexivity|].
  destruct (s_slash s <=? s_feetotal s); [split; reflexivity|].
  destruct (pay s who _ bond ft) as [s1|] eqn:Ep; [|split; reflexivity].
  destruct (funded s1 _ _ sl) as [s2|] eqn:Ef; [|split; reflexivity]. keeps_fin.
Qed.

Lemma claim_keeps f s who id : keeps s (fst (claim f s who id)).
Proof.
  unfold claim, keeps.
  repeat match goal with
         | |- context [if ?b then _ else _] => destruct b; try (split; reflexivity)
         | |- context [match ?x with Some _ => _ | None => _ end] => destruct x; try (split; reflexivity)
         end.
Qed.

Lemma tally_keeps s a b c d : keeps s (tally s a b c d).
Proof. unfold tally, keeps. destruct ((s_id s =? 0) || s_executed s || negb (tally_allowed (s_status s) a)); split; reflexivity. Qed.

Lemma set_votes_keeps s rs : keeps s (set_votes s rs).
Proof. unfold set_votes, keeps. destruct (s_executed s); split; reflexivity. Qed.

(* ---- execution ------------------------------------------------------------------------------------ *)
Lemma exec_gen_cases fc f12 s :
  let r := execute_vote_gen fc f12 s in
  fst r = s \/
  (snd r = OK /\ s_executed s = false /\ s_executed (fst r) = true /\
   s_burned (fst r) = s_burned s + exec_burn s /\ s_dust (fst r) = s_dust s).
Proof.
  unfold execute_vote_gen, exec_burn. cbv beta zeta.
  destruct ((s_status s =? Prevote) || (s_status s =? Failed)); [left; reflexivity|].
  set (status := if negb (s_result s =? 0) && (s_end s <? s_now s) then Resolved else s_status s).
  destruct (negb (status =? Resolved)); [left; reflexivity|].
  destruct (s_executed s) eqn:Eex; [left; reflexivity|].
  destruct (s_result s =? 0); [left; reflexivity|].
  set (nov := total_voter_power (s_rounds s) (s_id s) (s_prev s) =? 0).
  destruct (s_esc s <? (if nov then s_burn s else half_burn (s_burn s))); [left; reflexivity|].
  destruct (is_invalid (s_result s)).
  - destruct (return_slashed _ (s_slash s)) as [s2 e] eqn:Ers. destruct e; try (left; reflexivity).
    apply return_slashed_ok in Ers. cbn in Ers. destruct Ers as (R1 & R2 & R3 & R4 & R5 & R6 & _).
    right. cbn [fst snd s_executed s_burned s_dust]. rewrite R2, R6. repeat split; reflexivity.
  - destruct (is_support (s_result s)).
    + right. cbn. repeat split; reflexivity.
    + destruct (is_against (s_result s)); [|left; reflexivity].
      destruct (return_slashed _ (s_slash s + ((if f12 then s_feetotal s else s_slash s) - s_burn s))) as [s2 e] eqn:Ers.
      destruct e; try (left; reflexivity).
      apply return_slashed_ok in Ers. cbn in Ers. destruct Ers as (R1 & R2 & R3 & R4 & R5 & R6 & _).
      right. cbn [fst snd s_executed s_burned s_dust]. rewrite R2, R6. repeat split; reflexivity.
Qed.

Lemma exec_step_cases v c s o :
  match o with OExecBlock | OExecute _ => True | _ => False end ->
  let r := step v c s o in
  fst r = s \/
  (snd r = OK /\ s_executed s = false /\ s_executed (fst r) = true /\
   s_burned (fst r) = s_burned s + exec_burn s /\ s_dust (fst r) = s_dust s).
Proof.
  destruct o; try contradiction; intros _; cbv zeta; cbn [step].
  - unfold exec_block, exec_block_gen.
    destruct (negb (s_id s =? 0) && s_pending s && ((s_end s <? s_now s) || (s_status s =? Resolved)));
      [apply exec_gen_cases | left; reflexivity].
  - destruct ((s_id s =? 0) || negb (id =? s_id s)); [left; reflexivity | apply exec_gen_cases].
Qed.

(* ---- fee refunds ----------------------------------------------------------------------------------- *)
Lemma refund_fee_ok s who p total fmb s1 f :
  refund_fee s who p total fmb = (s1, OK, f) -> f = refund_rem (p_amt p) fmb total /\ keeps s s1.
Proof.
  unfold refund_fee, keeps. cbv zeta.
  destruct (refund6 (p_amt p) fmb total <? 0); [intros H; inversion H|].
  destruct (negb (p_bond p)).
  - destruct (s_esc s <? refund6 (p_amt p) fmb total); intros H; inversion H. subst. repeat split; reflexivity.
  - destruct (s_feetr s) as [[os tot]|]; [|intros H; inversion H].
    destruct ((tot =? 0) && match os with [] => false | _ => true end); [intros H; inversion H|].
    destruct (s_esc s <? refund6 (p_amt p) fmb total); intros H; inversion H. subst. repeat split; reflexivity.
Qed.

Lemma reward_bond_ok s who p total b s1 f :
  reward_bond s who p total b = (s1, OK, f) -> f = bond_rem (p_amt p) b total /\ keeps s s1.
Proof.
  unfold reward_bond, keeps. cbv zeta.
  destruct (bond6 (p_amt p) b total <? 0); [intros H; inversion H|].
  destruct (s_esc s <? bond6 (p_amt p) b total); intros H; inversion H. subst. repeat split; reflexivity.
Qed.

Lemma finish_withdraw_ok s who id dust s3 :
  finish_withdraw s who id dust = (s3, OK) ->
  s_burned s3 = s_burned s + dust_units dust /\
  s_dust s3 = (if dust_units dust =? 0 then dust else dust mod PR6).
Proof.
  unfold finish_withdraw, dust_units. cbv zeta.
  destruct (negb (truncate_int (dec_quo (of_int dust) (of_int PR6)) =? 0) && (s_esc s <? truncate_int (dec_quo (of_int dust) (of_int PR6))));
    intros H; inversion H. subst. split; reflexivity.
Qed.

Definition withdraw_effect (s : st) (who id : Z) (s' : st) : Prop :=
  let D := s_dust s + withdraw_fraction s who id in
  s_burned s' = s_burned s + dust_units D /\ s_dust s' = (if dust_units D =? 0 then D else D mod PR6).

Lemma withdraw_cases s who id :
  let r := withdraw s who id in
  (snd r <> OK /\ fst r = s) \/ (snd r = OK /\ withdraw_effect s who id (fst r)).
Proof.
  cbv zeta. unfold withdraw, withdraw_effect, withdraw_fraction. cbv zeta.
  destruct ((s_id s =? 0) || negb (existsb (Z.eqb id) (s_prev s))); [left; split; [discriminate | reflexivity]|].
  destruct (find_payer (s_payers s) id who) as [p|]; [|left; split; [discriminate | reflexivity]].
  destruct (negb (id =? s_id s)); [left; split; [discriminate | reflexivity]|].
  destruct (s_status s =? Failed).
  { destruct (refund_fee s who p _ _) as [[s1 e1] f1] eqn:E1.
    destruct e1; try (left; split; [discriminate | reflexivity]).
    apply refund_fee_ok in E1. destruct E1 as (-> & K1 & K2).
    destruct (finish_withdraw s1 who id _) as [s3 e3] eqn:E3.
    destruct e3; try (left; split; [discriminate | reflexivity]).
    apply finish_withdraw_ok in E3. destruct E3 as (F1 & F2).
    right. cbn [fst snd]. rewrite F1, F2, K1. repeat split; reflexivity. }
  destruct (s_status s =? Prevote); [left; split; [discriminate | reflexivity]|].
  destruct (negb (s_executed s)); [left; split; [discriminate | reflexivity]|].
  destruct (is_invalid (s_result s)).
  { destruct (refund_fee s who p _ _) as [[s1 e1] f1] eqn:E1.
    destruct e1; try (left; split; [discriminate | reflexivity]).
    apply refund_fee_ok in E1. destruct E1 as (-> & K1 & K2).
    destruct (finish_withdraw s1 who id _) as [s3 e3] eqn:E3.
    destruct e3; try (left; split; [discriminate | reflexivity]).
    apply finish_withdraw_ok in E3. destruct E3 as (F1 & F2).
    right. cbn [fst snd]. rewrite F1, F2, K1. repeat split; reflexivity. }
  destruct (is_support (s_result s)); [|left; split; [discriminate | reflexivity]].
  destruct (refund_fee s who p _ _) as [[s1 e1] f1] eqn:E1.
  destruct e1; try (left; split; [discriminate | reflexivity]).
  apply refund_fee_ok in E1. destruct E1 as (-> & K1 & K2).
  destruct (reward_bond s1 who p _ _) as [[s2 e2] f2] eqn:E2.
  destruct e2; try (left; split; [discriminate | reflexivity]).
  apply reward_bond_ok in E2. destruct E2 as (-> & L1 & L2).
  destruct (finish_withdraw s2 who id _) as [s3 e3] eqn:E3.
  destruct e3; try (left; split; [discriminate | reflexivity]).
  apply finish_withdraw_ok in E3. destruct E3 as (F1 & F2).
  right. cbn [fst snd]. rewrite F1, F2, L1, K1, Z.add_assoc. repeat split; reflexivity.
Qed.

(* ---- (i)+(ii): every operation of the model --------------------------------------------------------- *)
Lemma other_ops_keep v c s o :
  match o with OExecBlock | OExecute _ | OWithdraw _ _ => False | _ => True end -> keeps s (fst (step v c s o)).
Proof.
  destruct o; try contradiction; intros _; cbn [step fst].
  - apply propose_keeps.
  - apply add_fee_keeps.
  - split; reflexivity.
  - apply tally_keeps.
  - apply set_votes_keeps.
  - apply claim_keeps.
  - apply keeps_refl.
Qed.

Lemma burn_frame v c s o : s_burned (fst (step v c s o)) = s_burned s + burn_delta v c s o.
Proof.
  assert (Hexec : match o with OExecBlock | OExecute _ => True | _ => False end ->
                  s_burned (fst (step v c s o)) = s_burned s + (if executes v c s o then exec_burn s else 0)).
  { intros Ho. unfold executes. destruct (exec_step_cases v c s o Ho) as [E | (_ & E1 & E2 & E3 & _)].
    - rewrite E. destruct (s_executed s); cbn [negb andb]; lia.
    - rewrite E1, E2. cbn [negb andb]. exact E3. }
  destruct o as [who fee bond ft sl | who id fee bond ft sl | now | st_ op_ pe re | rs | | id | who id | who id | ];
    try (match goal with |- s_burned (fst (step _ _ _ ?o)) = _ =>
           let K := fresh "K" in pose proof (other_ops_keep v c s o I) as K; destruct K as [K _]; rewrite K; cbn [burn_delta]; lia end).
  - cbn [burn_delta]. apply Hexec. exact I.
  - cbn [burn_delta]. apply Hexec. exact I.
  - cbn [burn_delta step]. destruct (withdraw_cases s who id) as [(E1 & E2) | (E1 & E2 & _)].
    + rewrite E2. destruct (snd (withdraw s who id) =? OK) eqn:E; [apply Z.eqb_eq in E; contradiction | lia].
    + rewrite E1. cbn. exact E2.
Qed.

Lemma delta_only_documented v c s o :
  burn_delta v c s o <> 0 ->
  match o with
  | OExecBlock | OExecute _ =>
      snd (step v c s o) = OK /\ s_executed s = false /\ s_executed (fst (step v c s o)) = true /\
      burn_delta v c s o = exec_burn s
  | OWithdraw who id =>
      snd (step v c s o) = OK /\ burn_delta v c s o = dust_units (s_dust s + withdraw_fraction s who id)
  | _ => False
  end.
Proof.
  intros Hd.
  assert (Hexec : match o with OExecBlock | OExecute _ => True | _ => False end ->
                  (if executes v c s o then exec_burn s else 0) <> 0 ->
                  snd (step v c s o) = OK /\ s_executed s = false /\ s_executed (fst (step v c s o)) = true /\
                  (if executes v c s o then exec_burn s else 0) = exec_burn s).
  { intros Ho. unfold executes. destruct (exec_step_cases v c s o Ho) as [E | (E0 & E1 & E2 & _)].
    - rewrite E. destruct (s_executed s); cbn [negb andb]; intros H; contradiction H; reflexivity.
    - rewrite E1, E2. cbn [negb andb]. intros _. repeat split; assumption. }
  destruct o; try (apply Hd; reflexivity).
  - apply Hexec; [exact I | exact Hd].
  - apply Hexec; [exact I | exact Hd].
  - cbn [burn_delta] in *. destruct (snd (step v c s (OWithdraw who id)) =? OK) eqn:E; [|contradiction Hd; reflexivity].
    apply Z.eqb_eq in E. split; [exact E | reflexivity].
Qed.

(* every refused operation (result class <> OK) burns nothing *)
Lemma rejected_unchanged v c s o : snd (step v c s o) <> OK -> burn_delta v c s o = 0.
Proof.
  intros Hr. destruct (Z.eq_dec (burn_delta v c s o) 0) as [|Hd]; [assumption|]. exfalso.
  pose proof (delta_only_documented v c s o Hd) as H. destruct o; try contradiction; destruct H as [H _]; contradiction.
Qed.

(* (iii) histories: burnt total = initial + the sum of the per-operation burns *)
Lemma burn_history v c ops : forall s, s_burned (run v c s ops) = s_burned s + zsum (deltas v c s ops).
Proof.
  unfold run. induction ops as [|o r IH]; intros s; cbn [fold_left deltas zsum]; [lia|].
  rewrite IH, burn_frame. lia.
Qed.

(* ---- the amounts in plain arithmetic ------------------------------------------------------------------ *)
Lemma PR6_le_P : 0 < PR6 <= P. Proof. unfold PR6, P. lia. Qed.

Lemma dust_units_floor d : 0 <= d -> dust_units d = d / PR6.
Proof. intros Hd. unfold dust_units. apply dec_floor; [exact Hd | exact PR6_le_P]. Qed.

Lemma exec_burn_value s :
  0 <= s_burn s ->
  exec_burn s = (if total_voter_power (s_rounds s) (s_id s) (s_prev s) =? 0 then s_burn s else s_burn s / 2) /\
  0 <= exec_burn s <= s_burn s.
Proof.
  intros Hb. unfold exec_burn. rewrite (half_burn_eq _ Hb).
  destruct (total_voter_power (s_rounds s) (s_id s) (s_prev s) =? 0); split; try reflexivity; lia.
Qed.

Lemma withdraw_fraction_range s who id : 0 <= withdraw_fraction s who id < 2 * PR6.
Proof.
  assert (Hm : forall x, 0 <= x mod PR6 < PR6) by (intros x; apply Z.mod_pos_bound; reflexivity).
  unfold withdraw_fraction, refund_rem, bond_rem.
  destruct (find_payer (s_payers s) id who) as [p|]; [|unfold PR6; lia].
  destruct (s_status s =? Failed).
  { match goal with |- 0 <= ?x mod PR6 < _ => pose proof (Hm x) end. lia. }
  destruct (is_invalid (s_result s)).
  { match goal with |- 0 <= ?x mod PR6 < _ => pose proof (Hm x) end. lia. }
  destruct (is_support (s_result s)); [|unfold PR6; lia].
  match goal with |- 0 <= ?x mod PR6 + ?y mod PR6 < _ => pose proof (Hm x); pose proof (Hm y) end. lia.
Qed.

(* the dust store stays below one loya: invariant of every operation and history *)
Definition dust_ok (s : st) : Prop := 0 <= s_dust s < PR6.

Lemma withdraw_effect_arith s who id s' :
  dust_ok s -> withdraw_effect s who id s' ->
  let D := s_dust s + withdraw_fraction s who id in
  s_burned s' - s_burned s = D / PR6 /\ 0 <= D / PR6 <= 2 /\ s_dust s' = D mod PR6 /\
  s_burned s' * PR6 + s_dust s' = s_burned s * PR6 + s_dust s + withdraw_fraction s who id.
Proof.
  intros Hd (H1 & H2). cbv zeta. pose proof (withdraw_fraction_range s who id) as Hf. unfold dust_ok in Hd.
  set (D := s_dust s + withdraw_fraction s who id) in *.
  assert (HD : 0 <= D < 3 * PR6) by lia.
  rewrite (dust_units_floor D) in H1, H2 by lia.
  assert (Hmod : s_dust s' = D mod PR6).
  { rewrite H2. destruct (D / PR6 =? 0) eqn:E; [|reflexivity]. apply Z.eqb_eq in E.
    symmetry. apply Z.mod_small. unfold PR6 in *. lia. }
  unfold PR6 in *. lia.
Qed.

Lemma dust_step v c s o : dust_ok s -> dust_ok (fst (step v c s o)).
Proof.
  intros Hd. unfold dust_ok.
  destruct o as [who fee bond ft sl | who id fee bond ft sl | now | st_ op_ pe re | rs | | id | who id | who id | ];
    try (match goal with |- 0 <= s_dust (fst (step _ _ _ ?o)) < _ =>
           let K := fresh "K" in pose proof (other_ops_keep v c s o I) as K; destruct K as [_ K]; rewrite K; exact Hd end).
  - destruct (exec_step_cases v c s OExecBlock I) as [E | (_ & _ & _ & _ & E)]; rewrite E; exact Hd.
  - destruct (exec_step_cases v c s (OExecute id) I) as [E | (_ & _ & _ & _ & E)]; rewrite E; exact Hd.
  - cbn [step]. destruct (withdraw_cases s who id) as [(_ & E) | (_ & E)]; [rewrite E; exact Hd|].
    destruct (withdraw_effect_arith _ _ _ _ Hd E) as (_ & _ & E3 & _). rewrite E3. apply Z.mod_pos_bound. reflexivity.
Qed.

Lemma dust_history v c ops : forall s, dust_ok s -> dust_ok (run v c s ops).
Proof.
  unfold run. induction ops as [|o r IH]; intros s H; cbn [fold_left]; [exact H|]. apply IH, dust_step, H.
Qed.

(* (i) a dispute execution burns half the burn amount, all of it without voters *)
Lemma execution_burn_exact v c s o :
  match o with OExecBlock | OExecute _ => True | _ => False end ->
  0 <= s_burn s -> executes v c s o = true ->
  s_burned (fst (step v c s o)) - s_burned s
    = (if total_voter_power (s_rounds s) (s_id s) (s_prev s) =? 0 then s_burn s else s_burn s / 2) /\
  snd (step v c s o) = OK.
Proof.
  intros Ho Hb He. pose proof (burn_frame v c s o) as Hf. destruct (exec_burn_value s Hb) as [Hv _].
  assert (Hd : burn_delta v c s o = exec_burn s) by (destruct o; try contradiction; cbn [burn_delta]; rewrite He; reflexivity).
  split; [lia|].
  unfold executes in He. destruct (exec_step_cases v c s o Ho) as [E | (E & _)]; [|exact E].
  rewrite E in He. destruct (s_executed s); discriminate.
Qed.

(* (i) an accepted fee refund burns the whole loya of the accumulated dust: at most two; nothing of the dust is lost *)
Lemma refund_burn_exact v c s who id :
  dust_ok s -> snd (step v c s (OWithdraw who id)) = OK ->
  let s' := fst (step v c s (OWithdraw who id)) in
  let D := s_dust s + withdraw_fraction s who id in
  s_burned s' - s_burned s = D / PR6 /\ 0 <= D / PR6 <= 2 /\ s_dust s' = D mod PR6 /\
  s_burned s' * PR6 + s_dust s' = s_burned s * PR6 + s_dust s + withdraw_fraction s who id.
Proof.
  intros Hd Hok. cbn [step] in *. destruct (withdraw_cases s who id) as [(E & _) | (_ & E)]; [contradiction|].
  exact (withdraw_effect_arith _ _ _ _ Hd E).
Qed.

(* per operation, from a state whose dust store is in range and whose burn amount is not negative *)
Lemma burn_delta_bounds v c s o :
  dust_ok s -> 0 <= s_burn s -> 0 <= burn_delta v c s o <= Z.max (s_burn s) 2.
Proof.
  intros Hd Hb. destruct (exec_burn_value s Hb) as [_ Hv].
  destruct o; cbn [burn_delta]; try lia.
  - destruct (executes v c s OExecBlock); lia.
  - destruct (executes v c s (OExecute id)); lia.
  - destruct (snd (step v c s (OWithdraw who id)) =? OK); [|lia].
    pose proof (withdraw_fraction_range s who id) as Hf. unfold dust_ok in Hd.
    rewrite dust_units_floor by lia. unfold PR6 in *. lia.
Qed.

(* the dispute burns agree with the ledger of documented events (Model/Mint.v) *)
Lemma burns_are_ledger_events fx l b : - b = Mint.nominal_delta fx l (Mint.LDisputeBurn b) /\ - b = Mint.nominal_delta fx l (Mint.LDustBurn b).
Proof. split; reflexivity. Qed.

(* a complete settlement: one payer, a vote, execution (half of the burn amount 7500), refund, reward *)
Example dispute_history_example :
  let s := run (V true true true) cfg0 st0 ops_full in
  Forall (fun d => 0 <= d) (deltas (V true true true) cfg0 st0 ops_full) /\
  zsum (deltas (V true true true) cfg0 st0 ops_full) = s_burned s - s_burned st0 /\
  0 < s_burned s /\ dust_ok st0.
Proof. vm_compute. repeat split; try discriminate; repeat constructor; discriminate. Qed.

End DisputeFrame.

(* ================================================================================================ *)
(*  Model/Mint.v (C03): what BeginBlocker hands to the bank is what the provision operation of         *)
(*  Model/Escrow.v carries                                                                             *)
(* ================================================================================================ *)
Module MintFrame.
Import Verif.Model.Mint.

Lemma begin_block_split fx m now p t q m' :
  begin_block fx m now = BBOk p t q m' -> t = p - Z.quot p 4 /\ q = Z.quot p 4.
Proof.
  unfold begin_block. destruct (negb (m_init m)); [intros H; inversion H; split; reflexivity|].
  destruct (now =? zero_time); [intros H; inversion H; split; reflexivity|].
  destruct (m_prev m) as [prev|]; [|intros H; inversion H; split; reflexivity].
  destruct (calc_block_provision now prev) as [ | |p0] eqn:E; try discriminate.
  unfold send_inflationary, split. cbn [fst snd].
  destruct (p0 =? 0); [intros H; inversion H; split; reflexivity|].
  destruct ((Z.quot p0 4 =? 0) || (p0 - Z.quot p0 4 =? 0)); [destruct fx|]; intros H; inversion H; split; reflexivity.
Qed.

(* a completed BeginBlocker and the provision operation of the escrow machine move the same amounts *)
Lemma begin_block_is_escrow_mint fx m now p t q m' s s' :
  begin_block fx m now = BBOk p t q m' -> Escrow.estep s (Escrow.EMint p) = Some s' ->
  Escrow.e_supply s' = Escrow.e_supply s + p /\ Escrow.supply_delta s (Escrow.EMint p) = minted_of (begin_block fx m now) /\
  Escrow.e_tbr s' = Escrow.e_tbr s + t /\ Escrow.e_feecoll s' = Escrow.e_feecoll s + q.
Proof.
  intros Hb He. destruct (begin_block_split _ _ _ _ _ _ _ Hb) as [-> ->]. rewrite Hb. cbn [minted_of].
  unfold Escrow.supply_delta. rewrite He. cbn [Escrow.estep] in He.
  destruct (0 <=? p); [|discriminate]. injection He as <-. cbn. repeat split; reflexivity.
Qed.

Example begin_block_is_escrow_mint_example :
  exists m now s', begin_block true m now = BBOk 1700 1275 425 {| m_init := true; m_prev := Some now |} /\
    Escrow.estep (Escrow.einit 10) (Escrow.EMint 1700) = Some s' /\ Escrow.e_supply s' = 1710.
Proof.
  exists {| m_init := true; m_prev := Some 1000000000 |}, (1000000000 + 1000000 * 1000), (Escrow.estep_total (Escrow.einit 10) (Escrow.EMint 1700)).
  vm_compute. repeat split; reflexivity.
Qed.

End MintFrame.
