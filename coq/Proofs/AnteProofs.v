From Coq Require Import ZArith List Bool Lia String.
From Verif Require Import Base.Harness Model.Ante.
Import ListNotations.
Open Scope Z_scope.

Lemma existsb_cons {A} (f : A -> bool) x l : existsb f (x :: l) = f x || existsb f l.
Proof. reflexivity. Qed.

(* invariant of the cumulative loop: when it accepts, the totals (running sums so far plus
   what is still to come) satisfy the bound of every direction that still has a message *)
Lemma ante_loop_cum_sound A cur : forall ms inc dec,
  ante_loop true A cur inc dec ms = true ->
  (has_inc ms = true -> cur + (inc + sum_inc ms) <= upper_bound A) /\
  (has_dec ms = true -> lower_bound A <= cur + (dec - sum_dec ms)).
Proof.
  induction ms as [|m r IH]; intros inc dec H.
  - split; cbn; discriminate.
  - cbn [ante_loop] in H. unfold has_inc, has_dec in *. rewrite !existsb_cons. cbn [sum_inc sum_dec].
    destruct (msg_amount m) as [a|] eqn:Em.
    + destruct (a <? 0) eqn:Ea.
      * destruct (cur + (dec + a) <? lower_bound A) eqn:Eb; [discriminate|].
        apply Z.ltb_ge in Eb. apply Z.ltb_lt in Ea.
        destruct (IH _ _ H) as [I1 I2]. cbn [negb orb]. split.
        -- intros Hi. specialize (I1 Hi). lia.
        -- intros _. destruct (existsb _ r) eqn:Er in I2.
           ++ specialize (I2 eq_refl). lia.
           ++ (* no further decrease: sum_dec r = 0 *)
              assert (sum_dec r = 0) as ->; [|lia].
              clear - Er. induction r as [|x r IHr]; [reflexivity|].
              rewrite existsb_cons in Er. apply orb_false_elim in Er. destruct Er as [E1 E2].
              cbn [sum_dec]. rewrite (IHr E2). destruct (msg_amount x); [rewrite E1|]; reflexivity.
      * destruct (upper_bound A <? cur + (inc + a)) eqn:Eb; [discriminate|].
        apply Z.ltb_ge in Eb. apply Z.ltb_ge in Ea.
        destruct (IH _ _ H) as [I1 I2]. cbn [negb orb]. split.
        -- intros _. destruct (existsb _ r) eqn:Er in I1.
           ++ specialize (I1 eq_refl). lia.
           ++ assert (sum_inc r = 0) as ->; [|lia].
              clear - Er. induction r as [|x r IHr]; [reflexivity|].
              rewrite existsb_cons in Er. apply orb_false_elim in Er. destruct Er as [E1 E2].
              cbn [sum_inc]. rewrite (IHr E2). destruct (msg_amount x) as [b|]; [|reflexivity].
              apply negb_false_iff in E1. rewrite E1. reflexivity.
        -- intros Hd. specialize (I2 Hd). lia.
    + cbn [orb]. destruct (IH _ _ H) as [I1 I2]. split; intros Hx; [specialize (I1 Hx) | specialize (I2 Hx)]; lia.
Qed.

Theorem ante_admission_only_if A cur ms :
  ante true (Some A) cur ms = Next ->
  (has_inc ms = true -> cur + sum_inc ms <= upper_bound A) /\
  (has_dec ms = true -> lower_bound A <= cur - sum_dec ms).
Proof.
  unfold ante. destruct (ante_loop true A cur 0 0 ms) eqn:E; [intros _ | discriminate].
  destruct (ante_loop_cum_sound A cur ms 0 0 E) as [H1 H2]. split; intros Hx;
    [specialize (H1 Hx) | specialize (H2 Hx)]; lia.
Qed.

(* the bound in the words of the property: 105 % / 95 % of the recorded amount *)
Lemma upper_bound_105 A x : 0 <= A -> x <= upper_bound A -> 100 * x <= 105 * A.
Proof.
  unfold upper_bound. intros HA Hx.
  pose proof (Z.quot_rem A 20 ltac:(lia)) as Hq. pose proof (Z.rem_bound_pos A 20 HA ltac:(lia)). lia.
Qed.
Lemma lower_bound_95 A x : 0 <= A -> lower_bound A <= x -> 95 * A <= 100 * x.
Proof.
  unfold lower_bound. intros HA Hx.
  pose proof (Z.quot_rem A 20 ltac:(lia)) as Hq. pose proof (Z.rem_bound_pos A 20 HA ltac:(lia)). lia.
Qed.

Theorem ante_admission_percent A cur ms :
  0 <= A -> ante true (Some A) cur ms = Next ->
  (has_inc ms = true -> 100 * (cur + sum_inc ms) <= 105 * A) /\
  (has_dec ms = true -> 95 * A <= 100 * (cur - sum_dec ms)).
Proof.
  intros HA H. destruct (ante_admission_only_if A cur ms H) as [H1 H2]. split; intros Hx.
  - apply upper_bound_105; auto.
  - apply lower_bound_95; auto.
Qed.

(* the executable spec used on implementation outputs is the same statement *)
Lemma within_bounds_iff A cur ms :
  within_bounds A cur ms = true <->
  (has_inc ms = true -> cur + sum_inc ms <= upper_bound A) /\
  (has_dec ms = true -> lower_bound A <= cur - sum_dec ms).
Proof.
  unfold within_bounds. rewrite andb_true_iff, !orb_true_iff, !negb_true_iff, !Z.leb_le. split.
  - intros [[H1|H1] [H2|H2]]; split; intros Hx; try congruence; assumption.
  - intros [H1 H2]. split.
    + destruct (has_inc ms); [right; auto | left; reflexivity].
    + destruct (has_dec ms); [right; auto | left; reflexivity].
Qed.

Theorem ante_cum_within_bounds A cur ms : ante true (Some A) cur ms = Next -> within_bounds A cur ms = true.
Proof. intros H. apply within_bounds_iff. apply ante_admission_only_if. exact H. Qed.

(* the code as found (each message alone) does not satisfy the property: finding F29 *)
Theorem ante_each_refuted :
  exists A cur ms, amounts_nonneg ms = true /\ 0 <= A /\
    ante false (Some A) cur ms = Next /\ ~ 100 * (cur + sum_inc ms) <= 105 * A.
Proof. exists 1000, 1000, [MDelegate 40; MDelegate 40]. vm_compute. repeat split; try discriminate. intros H; apply H; reflexivity. Qed.

(* on single-message transactions the two variants agree (why the unit tests cannot tell) *)
Lemma ante_single_agree tr cur m : ante true tr cur [m] = ante false tr cur [m].
Proof. destruct tr as [A|]; [|reflexivity]. unfold ante. cbn [ante_loop]. destruct (msg_amount m); reflexivity. Qed.

(* a rejected message can never be rescued by what follows / no tracker => nothing is checked *)
Lemma ante_no_tracker cur ms : ante true None cur ms <> Reject.
Proof. unfold ante. destruct (has_stake_msg ms); discriminate. Qed.

(* ---- the tracker ------------------------------------------------------------------ *)
Theorem track_refresh_only_after_expiry now total t :
  (now < t_expiration t -> track_stake_change now total t = t) /\
  (t_expiration t <= now ->
     track_stake_change now total t = {| t_amount := total; t_expiration := now + twelve_hours_ns |}).
Proof.
  unfold track_stake_change. split; intros H.
  - apply Z.ltb_lt in H. rewrite H. reflexivity.
  - apply Z.ltb_ge in H. rewrite H. reflexivity.
Qed.

(* histories: block ends (time, total bonded at that moment) and admitted/rejected txs *)
Inductive ev :=
| EndBlock (now total : Z)
| Tx (cur : Z) (ms : list stake_msg).

Record hstate := { h_tr : tracker; h_last_refresh : option Z; h_admitted : list (Z * Z * list stake_msg) }.

Definition hstep (s : hstate) (e : ev) : hstate :=
  match e with
  | EndBlock now total =>
      let t' := track_stake_change now total (h_tr s) in
      {| h_tr := t';
         h_last_refresh := if now <? t_expiration (h_tr s) then h_last_refresh s else Some now;
         h_admitted := h_admitted s |}
  | Tx cur ms =>
      match ante true (Some (t_amount (h_tr s))) cur ms with
      | Next => {| h_tr := h_tr s; h_last_refresh := h_last_refresh s;
                   h_admitted := (t_amount (h_tr s), cur, ms) :: h_admitted s |}
      | _ => s
      end
  end.

Definition hinv (s : hstate) : Prop :=
  Forall (fun '(A, cur, ms) => within_bounds A cur ms = true) (h_admitted s) /\
  match h_last_refresh s with
  | Some r => t_expiration (h_tr s) = r + twelve_hours_ns
  | None => True
  end.

Lemma hstep_inv s e : hinv s -> hinv (hstep s e).
Proof.
  intros [H1 H2]. destruct e as [now total | cur ms]; cbn [hstep].
  - unfold hinv, track_stake_change. cbn [h_admitted h_tr h_last_refresh].
    destruct (now <? t_expiration (h_tr s)); split; auto.
  - destruct (ante true (Some (t_amount (h_tr s))) cur ms) eqn:E; try (split; assumption).
    split; cbn [h_admitted h_tr h_last_refresh]; [|exact H2].
    constructor; [|exact H1]. apply ante_cum_within_bounds. exact E.
Qed.

Theorem history_inv s es : hinv s -> hinv (fold_left hstep es s).
Proof. revert s. induction es as [|e es IH]; intros s H; cbn [fold_left]; [exact H|]. apply IH, hstep_inv, H. Qed.

(* the recorded amount changes only in an end-of-block at or after the expiration, and two
   refreshes are at least twelve hours apart *)
Theorem amount_changes_only_at_expiry s e :
  t_amount (h_tr (hstep s e)) <> t_amount (h_tr s) ->
  exists now total, e = EndBlock now total /\ t_expiration (h_tr s) <= now /\
                    t_amount (h_tr (hstep s e)) = total /\
                    t_expiration (h_tr (hstep s e)) = now + twelve_hours_ns.
Proof.
  destruct e as [now total | cur ms]; cbn [hstep].
  - unfold track_stake_change. cbn [h_tr]. destruct (now <? t_expiration (h_tr s)) eqn:E; [congruence|].
    intros _. exists now, total. apply Z.ltb_ge in E. cbn. auto.
  - destruct (ante _ _ _ _); cbn; congruence.
Qed.

(* ---- soundness of the correspondence check's spec part ------------------------------ *)
Theorem c18_check_sound_ante A cur ms nxt :
  c18_check (AnteCase (Some A) cur ms false nxt) = [] ->
  (has_inc ms = true -> cur + sum_inc ms <= upper_bound A) /\
  (has_dec ms = true -> lower_bound A <= cur - sum_dec ms).
Proof.
  unfold c18_check. cbn [negb]. intros H. apply app_nil_both in H. destruct H as [H _].
  apply spec_if_nil in H. apply within_bounds_iff. exact H.
Qed.

(* non-vacuity: an admitted multi-message transaction exists, and one at the exact boundary *)
Example ante_nonvacuous :
  ante true (Some 1000) 1000 [MDelegate 20; MOther; MUndelegate 50; MRedelegate 30] = Next /\
  ante true (Some 1000) 1000 [MDelegate 20; MRedelegate 31] = Reject /\
  ante true (Some 1019) 1000 [MCreate 69] = Next /\ ante true (Some 1019) 1000 [MCreate 70] = Reject.
Proof. vm_compute. auto. Qed.
