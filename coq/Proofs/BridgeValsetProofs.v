(* C16 — proofs about Model/BridgeValset.v *)
From Coq Require Import ZArith List Bool String Lia Permutation Sorted.
From Verif Require Import Base.Harness Model.BridgeValset.
Import ListNotations.
Open Scope Z_scope.

Ltac Zify.zify_post_hook ::= Z.to_euclidean_division_equations.

(* ================================================================================================
   1. The bridge validator set: contents and order
   ================================================================================================ *)
Definition le_bv (x y : bval) : Prop := bv_le x y = true.

Lemma bv_le_total x y : bv_le x y = false -> bv_le y x = true.
Proof.
  destruct x as [a p], y as [b q]; unfold bv_le; cbn.
  intros Hf. apply orb_false_iff in Hf. destruct Hf as [H1 H2].
  apply Z.ltb_ge in H1. apply andb_false_iff in H2.
  destruct (Z.ltb_spec p q) as [Hlt|Hge]; [reflexivity|]. cbn.
  assert (Hpq : p = q) by lia. subst q. rewrite Z.eqb_refl in *. cbn.
  destruct H2 as [H2|H2]; [discriminate|]. apply Z.leb_gt in H2. apply Z.leb_le. lia.
Qed.

Lemma bv_le_trans x y z : le_bv x y -> le_bv y z -> le_bv x z.
Proof.
  destruct x as [a p], y as [b q], z as [c r]; unfold le_bv, bv_le; cbn.
  intros H1 H2. apply orb_true_iff in H1. apply orb_true_iff in H2. apply orb_true_iff.
  destruct H1 as [H1|H1]; destruct H2 as [H2|H2];
    repeat match goal with
           | H : (_ <? _) = true |- _ => apply Z.ltb_lt in H
           | H : (_ && _) = true |- _ => apply andb_true_iff in H; destruct H
           | H : (_ =? _) = true |- _ => apply Z.eqb_eq in H
           | H : (_ <=? _) = true |- _ => apply Z.leb_le in H
           end.
  - left. apply Z.ltb_lt. lia.
  - left. apply Z.ltb_lt. lia.
  - left. apply Z.ltb_lt. lia.
  - right. apply andb_true_iff. split; [apply Z.eqb_eq | apply Z.leb_le]; lia.
Qed.

Lemma bv_le_antisym x y : le_bv x y -> le_bv y x -> x = y.
Proof.
  destruct x as [a p], y as [b q]; unfold le_bv, bv_le; cbn.
  intros H1 H2. apply orb_true_iff in H1. apply orb_true_iff in H2.
  destruct H1 as [H1|H1]; destruct H2 as [H2|H2];
    repeat match goal with
           | H : (_ <? _) = true |- _ => apply Z.ltb_lt in H
           | H : (_ && _) = true |- _ => apply andb_true_iff in H; destruct H
           | H : (_ =? _) = true |- _ => apply Z.eqb_eq in H
           | H : (_ <=? _) = true |- _ => apply Z.leb_le in H
           end; try lia.
  f_equal; lia.
Qed.

Lemma insert_perm x l : Permutation (x :: l) (insert_bv x l).
Proof.
  induction l as [|y l IH]; cbn; [reflexivity|].
  destruct (bv_le x y); [reflexivity|].
  eapply perm_trans; [apply perm_swap | apply perm_skip; exact IH].
Qed.

Lemma sort_perm l : Permutation l (sort_bv l).
Proof.
  induction l as [|x l IH]; cbn; [constructor|].
  eapply perm_trans; [apply perm_skip; exact IH | apply insert_perm].
Qed.

Lemma insert_hdrel a x l : HdRel le_bv a l -> le_bv a x -> HdRel le_bv a (insert_bv x l).
Proof.
  intros Hh Hax. destruct l as [|y l]; cbn; [constructor; exact Hax|].
  destruct (bv_le x y); constructor; [exact Hax | inversion Hh; assumption].
Qed.

Lemma insert_sorted x l : Sorted le_bv l -> Sorted le_bv (insert_bv x l).
Proof.
  induction l as [|y l IH]; cbn; intros Hs; [repeat constructor|].
  destruct (bv_le x y) eqn:E.
  - constructor; [exact Hs | constructor; exact E].
  - inversion Hs as [|? ? Hs' Hh]; subst. constructor; [apply IH; exact Hs'|].
    apply insert_hdrel; [exact Hh | apply bv_le_total; exact E].
Qed.

Lemma sort_sorted l : Sorted le_bv (sort_bv l).
Proof. induction l as [|x l IH]; cbn; [constructor | apply insert_sorted; exact IH]. Qed.

Lemma sorted_strongly l : Sorted le_bv l -> StronglySorted le_bv l.
Proof. apply Sorted_StronglySorted. intros x y z. apply bv_le_trans. Qed.

(* sort.Slice is not stable; but the comparator only ties identical entries, so the sorted
   arrangement is unique: any correct sort returns exactly [sort_bv] *)
Lemma sorted_perm_unique l1 : forall l2,
  StronglySorted le_bv l1 -> StronglySorted le_bv l2 -> Permutation l1 l2 -> l1 = l2.
Proof.
  induction l1 as [|x l1 IH]; intros l2 H1 H2 Hp.
  - apply Permutation_nil in Hp. symmetry; exact Hp.
  - destruct l2 as [|y l2]; [apply Permutation_sym, Permutation_nil in Hp; discriminate|].
    inversion H1 as [|? ? Hs1 Hf1]; subst. inversion H2 as [|? ? Hs2 Hf2]; subst.
    assert (Hxy : x = y).
    { assert (Hin1 : In y (x :: l1)) by (eapply Permutation_in; [apply Permutation_sym; exact Hp | left; reflexivity]).
      assert (Hin2 : In x (y :: l2)) by (eapply Permutation_in; [exact Hp | left; reflexivity]).
      destruct Hin1 as [->|Hin1]; [reflexivity|]. destruct Hin2 as [Heq|Hin2]; [symmetry; exact Heq|].
      rewrite Forall_forall in Hf1, Hf2. apply bv_le_antisym; [apply Hf1; exact Hin1 | apply Hf2; exact Hin2]. }
    subst y. f_equal. apply IH; [exact Hs1 | exact Hs2 | eapply Permutation_cons_inv; exact Hp].
Qed.

Lemma eligible_in r vs a p :
  In (BV a p) (eligible r vs) <->
  exists op b t, In (SV op b t) vs /\ reg_get r op = Some a /\ p = cons_power b t /\ p <> 0.
Proof.
  unfold eligible. rewrite in_flat_map. split.
  - intros [[op b t] [Hin Hel]]. cbn in Hel. destruct (reg_get r op) as [a'|] eqn:Er; [|destruct Hel].
    destruct (Z.eqb_spec (cons_power b t) 0) as [E0|E0]; [destruct Hel|].
    destruct Hel as [Heq|[]]. inversion Heq; subst. exists op, b, t. repeat split; assumption.
  - intros (op & b & t & Hin & Hr & Hp & Hnz). exists (SV op b t). split; [exact Hin|]. cbn. rewrite Hr.
    subst p. destruct (Z.eqb_spec (cons_power b t) 0) as [E0|E0]; [contradiction | left; reflexivity].
Qed.

Lemma current_valset_spec r vs :
  match current_valset r vs with
  | None => eligible r vs = []
  | Some l => l <> [] /\ Permutation (eligible r vs) l /\ Sorted le_bv l /\
              (forall l', Permutation (eligible r vs) l' -> Sorted le_bv l' -> l' = l)
  end.
Proof.
  unfold current_valset. destruct (eligible r vs) as [|x l] eqn:E; [reflexivity|].
  repeat split.
  - intros Hn. pose proof (sort_perm (x :: l)) as Hp. rewrite Hn in Hp. apply Permutation_sym, Permutation_nil in Hp. discriminate.
  - apply sort_perm.
  - apply sort_sorted.
  - intros l' Hp Hs. apply sorted_perm_unique; [apply sorted_strongly; exact Hs | apply sorted_strongly, sort_sorted|].
    eapply perm_trans; [apply Permutation_sym; exact Hp | apply sort_perm].
Qed.

(* consensus power: non-zero exactly for a bonded validator with at least one whole token *)
Lemma cons_power_nonzero b t : 0 <= t -> (cons_power b t <> 0 <-> b = true /\ power_reduction <= t).
Proof.
  unfold cons_power, power_reduction. intros Ht. destruct b.
  - split; [intros H; split; [reflexivity | lia] | intros [_ H]; lia].
  - split; [intros H; lia | intros [H _]; discriminate].
Qed.

(* ================================================================================================
   2. When a checkpoint is recorded
   ================================================================================================ *)
Lemma stale_iff ts now : stale ts now = true <-> two_weeks_ms - one_second_ms < now - ts.
Proof. unfold stale. rewrite Z.ltb_lt. lia. Qed.

Lemma stale_aged ts now : stale ts now = aged ts now.
Proof. unfold stale, aged. apply Bool.eq_true_iff_eq. rewrite !Z.ltb_lt. lia. Qed.

(* the text's "older than two weeks" implies the code's condition; the code fires up to 1 s earlier *)
Lemma older_than_two_weeks_stale ts now : two_weeks_ms < now - ts -> stale ts now = true.
Proof. intros H. apply stale_iff. unfold one_second_ms. lia. Qed.
Lemma stale_within_second ts now : stale ts now = true -> two_weeks_ms - 1000 < now - ts.
Proof. intros H. apply stale_iff in H. unfold one_second_ms in H. exact H. Qed.

Lemma power_diff_threshold b c :
  0 < total_power b -> 0 <= pd_delta b c ->
  ((power_diff b c <? 50000) = false <-> total_power b <= 20 * pd_delta b c).
Proof.
  intros HT Hd. unfold power_diff. destruct (Z.eqb_spec (total_power b) 0) as [E|E]; [lia|].
  rewrite Z.ltb_ge. split; intros H; nia.
Qed.

(* ---- the Go map of PowerDiff computes the L1 distance when addresses are distinct ---- *)
Lemma mget_mset_same m k v : mget (mset m k v) k = Some v.
Proof. induction m as [|[k' v'] m IH]; cbn; [rewrite Z.eqb_refl; reflexivity|].
  destruct (Z.eqb_spec k' k) as [E|E]; cbn; [rewrite Z.eqb_refl; reflexivity|].
  destruct (Z.eqb_spec k' k); [contradiction | exact IH]. Qed.

Lemma mget_mset_other m k v k' : k <> k' -> mget (mset m k v) k' = mget m k'.
Proof. intros Hn. induction m as [|[k0 v0] m IH]; cbn.
  - destruct (Z.eqb_spec k k'); [contradiction | reflexivity].
  - destruct (Z.eqb_spec k0 k) as [E|E]; cbn.
    + subst k0. destruct (Z.eqb_spec k k'); [contradiction | reflexivity].
    + destruct (Z.eqb_spec k0 k'); [reflexivity | exact IH]. Qed.

Lemma sum_abs_mset m k v : sum_abs (mset m k v) = sum_abs m - Z.abs (mget0 m k) + Z.abs v.
Proof.
  induction m as [|[k' v'] m IH]; [unfold mget0; cbn; lia|].
  unfold mget0 in *. cbn [mset mget]. destruct (Z.eqb_spec k' k) as [E|E].
  - unfold sum_abs. cbn [fold_right snd]. lia.
  - unfold sum_abs in *. cbn [fold_right snd]. rewrite IH. lia.
Qed.

Definition sumf (f : bval -> Z) (l : list bval) : Z := fold_right (fun v acc => f v + acc) 0 l.

Lemma sumf_cons f x l : sumf f (x :: l) = f x + sumf f l.
Proof. reflexivity. Qed.
Lemma sumf_nil f : sumf f [] = 0.
Proof. reflexivity. Qed.

Lemma sumf_ext f g l : (forall v, In v l -> f v = g v) -> sumf f l = sumf g l.
Proof.
  induction l as [|x l IH]; intros H; [reflexivity|]. rewrite !sumf_cons, (H x (or_introl eq_refl)), IH; [reflexivity|].
  intros v Hv. apply H. right; exact Hv.
Qed.

Lemma has_addr_false_in l a : has_addr l a = false -> forall v, In v l -> bv_addr v <> a.
Proof. unfold has_addr. intros H v Hin E. assert (Ht : existsb (fun v => bv_addr v =? a) l = true).
  { apply existsb_exists. exists v. split; [exact Hin | apply Z.eqb_eq; exact E]. } congruence. Qed.

Lemma power_of_absent l a : has_addr l a = false -> power_of l a = 0.
Proof. induction l as [|x l IH]; cbn; [reflexivity|]. intros H. apply orb_false_iff in H. destruct H as [H1 H2].
  rewrite H1. apply IH; exact H2. Qed.

(* loading the first set *)
Lemma pd_load_gen b : forall m0,
  nodup_addrs b = true -> (forall v, In v b -> mget m0 (bv_addr v) = None) ->
  let m := fold_left (fun m v => mset m (bv_addr v) (bv_power v)) b m0 in
  sum_abs m = sum_abs m0 + sumf (fun v => Z.abs (bv_power v)) b /\
  (forall a, mget0 m a = if has_addr b a then power_of b a else mget0 m0 a).
Proof.
  induction b as [|x b IH]; intros m0 Hnd Hfresh; cbn [fold_left].
  - split; [rewrite sumf_nil; lia | reflexivity].
  - cbn in Hnd. apply andb_true_iff in Hnd. destruct Hnd as [Hx Hnd]. apply negb_true_iff in Hx.
    specialize (IH (mset m0 (bv_addr x) (bv_power x)) Hnd).
    assert (Hf' : forall v, In v b -> mget (mset m0 (bv_addr x) (bv_power x)) (bv_addr v) = None).
    { intros v Hv. rewrite mget_mset_other; [apply Hfresh; right; exact Hv|].
      intros E. exact (has_addr_false_in _ _ Hx v Hv (eq_sym E)). }
    destruct (IH Hf') as [IH1 IH2]. split.
    + rewrite IH1, sum_abs_mset, sumf_cons. unfold mget0. rewrite (Hfresh x (or_introl eq_refl)). lia.
    + intros a. rewrite IH2. cbn [has_addr existsb power_of]. fold (has_addr b a).
      destruct (Z.eqb_spec (bv_addr x) a) as [E|E]; cbn [orb].
      * subst a. rewrite Hx. unfold mget0. rewrite mget_mset_same. reflexivity.
      * destruct (has_addr b a); [reflexivity|]. unfold mget0. rewrite mget_mset_other; [reflexivity | exact E].
Qed.

Lemma pd_load_spec b : nodup_addrs b = true ->
  sum_abs (pd_load b) = sumf (fun v => Z.abs (bv_power v)) b /\ (forall a, mget0 (pd_load b) a = power_of b a).
Proof.
  intros Hnd. destruct (pd_load_gen b [] Hnd (fun _ _ => eq_refl)) as [H1 H2]. split; [exact H1|].
  intros a. unfold pd_load. rewrite H2. destruct (has_addr b a) eqn:E; [reflexivity|]. cbn. symmetry. apply power_of_absent; exact E.
Qed.

(* subtracting the second set *)
Lemma pd_sub_gen c : forall m,
  nodup_addrs c = true ->
  sum_abs (pd_sub m c) = sum_abs m + sumf (fun v => Z.abs (mget0 m (bv_addr v) - bv_power v) - Z.abs (mget0 m (bv_addr v))) c.
Proof.
  unfold pd_sub. induction c as [|x c IH]; intros m Hnd; cbn [fold_left]; [rewrite sumf_nil; lia|].
  cbn in Hnd. apply andb_true_iff in Hnd. destruct Hnd as [Hx Hnd]. apply negb_true_iff in Hx.
  rewrite (IH _ Hnd), sum_abs_mset, sumf_cons.
  rewrite (sumf_ext _ (fun v => Z.abs (mget0 m (bv_addr v) - bv_power v) - Z.abs (mget0 m (bv_addr v))) c).
  - lia.
  - intros v Hv. unfold mget0. rewrite mget_mset_other; [reflexivity|].
    intros E. exact (has_addr_false_in _ _ Hx v Hv (eq_sym E)).
Qed.

Lemma pd_delta_formula b c : nodup_addrs b = true -> nodup_addrs c = true ->
  pd_delta b c = sumf (fun v => Z.abs (bv_power v)) b
                 + sumf (fun v => Z.abs (power_of b (bv_addr v) - bv_power v) - Z.abs (power_of b (bv_addr v))) c.
Proof.
  intros Hb Hc. unfold pd_delta. rewrite (pd_sub_gen c _ Hc). destruct (pd_load_spec b Hb) as [H1 H2]. rewrite H1. f_equal.
  apply sumf_ext. intros v _. rewrite !H2. reflexivity.
Qed.

Definition nonneg (l : list bval) : Prop := forall v, In v l -> 0 <= bv_power v.

(* a sum over c that changes only at the entries with address a *)
Lemma sumf_single c a (f g : bval -> Z) (F G : Z -> Z) :
  nodup_addrs c = true ->
  (forall v, In v c -> bv_addr v <> a -> f v = g v) ->
  (forall v, In v c -> bv_addr v = a -> f v = F (bv_power v) /\ g v = G (bv_power v)) ->
  sumf f c - sumf g c = if has_addr c a then F (power_of c a) - G (power_of c a) else 0.
Proof.
  induction c as [|x c IH]; intros Hnd Hne He; [reflexivity|].
  cbn in Hnd. apply andb_true_iff in Hnd. destruct Hnd as [Hx Hnd]. apply negb_true_iff in Hx.
  rewrite !sumf_cons. cbn [has_addr existsb power_of]. fold (has_addr c a).
  destruct (Z.eqb_spec (bv_addr x) a) as [E|E]; cbn [orb].
  - destruct (He x (or_introl eq_refl) E) as [Hf Hg]. rewrite Hf, Hg.
    assert (Hrest : sumf f c = sumf g c).
    { apply sumf_ext. intros v Hv. apply Hne; [right; exact Hv|]. subst a. exact (has_addr_false_in _ _ Hx v Hv). }
    rewrite Hrest. lia.
  - rewrite (Hne x (or_introl eq_refl) E).
    specialize (IH Hnd (fun v Hv => Hne v (or_intror Hv)) (fun v Hv => He v (or_intror Hv))). lia.
Qed.

Lemma l1_shift_eq b c : l1_shift b c = sumf (fun v => Z.abs (bv_power v - power_of c (bv_addr v))) b
                                       + sumf (fun v => if has_addr b (bv_addr v) then 0 else bv_power v) c.
Proof. reflexivity. Qed.

Theorem pd_delta_l1 b c : nodup_addrs b = true -> nodup_addrs c = true -> nonneg b -> nonneg c ->
  pd_delta b c = l1_shift b c.
Proof.
  intros Hb Hc Hnb Hnc. rewrite (pd_delta_formula b c Hb Hc), l1_shift_eq.
  revert Hb Hnb. induction b as [|w b IH]; intros Hb Hnb.
  - rewrite !sumf_nil. f_equal. apply sumf_ext. intros v Hv. cbn. specialize (Hnc v Hv). lia.
  - cbn in Hb. apply andb_true_iff in Hb. destruct Hb as [Hw Hb]. apply negb_true_iff in Hw.
    assert (Hnb' : nonneg b) by (intros v Hv; apply Hnb; right; exact Hv).
    specialize (IH Hb Hnb').
    pose proof (Hnb w (or_introl eq_refl)) as Hpw.
    set (aw := bv_addr w) in *. set (pw := bv_power w) in *.
    assert (HL : sumf (fun v => Z.abs (power_of (w :: b) (bv_addr v) - bv_power v) - Z.abs (power_of (w :: b) (bv_addr v))) c
                 - sumf (fun v => Z.abs (power_of b (bv_addr v) - bv_power v) - Z.abs (power_of b (bv_addr v))) c
                 = if has_addr c aw then (Z.abs (pw - power_of c aw) - Z.abs pw) - (Z.abs (0 - power_of c aw) - Z.abs 0) else 0).
    { apply (sumf_single c aw _ _ (fun p => Z.abs (pw - p) - Z.abs pw) (fun p => Z.abs (0 - p) - Z.abs 0) Hc).
      - intros v Hv Hne. cbn [power_of]. fold aw. destruct (Z.eqb_spec aw (bv_addr v)); [congruence | reflexivity].
      - intros v Hv He. cbn [power_of]. fold aw pw. rewrite He, Z.eqb_refl, (power_of_absent b aw Hw). split; reflexivity. }
    assert (HR : sumf (fun v => if has_addr (w :: b) (bv_addr v) then 0 else bv_power v) c
                 - sumf (fun v => if has_addr b (bv_addr v) then 0 else bv_power v) c
                 = if has_addr c aw then 0 - power_of c aw else 0).
    { apply (sumf_single c aw _ _ (fun _ => 0) (fun p => p) Hc).
      - intros v Hv Hne. cbn [has_addr existsb]. fold (has_addr b (bv_addr v)). fold aw.
        destruct (Z.eqb_spec aw (bv_addr v)); [congruence | reflexivity].
      - intros v Hv He. cbn [has_addr existsb]. fold (has_addr b (bv_addr v)). fold aw.
        rewrite He, Z.eqb_refl, Hw. split; reflexivity. }
    rewrite !sumf_cons. fold aw pw.
    destruct (has_addr c aw) eqn:Ec.
    + assert (Hpc : 0 <= power_of c aw).
      { clear - Hnc Ec. induction c as [|x c IHc]; cbn in *; [discriminate|].
        destruct (Z.eqb_spec (bv_addr x) aw); [apply Hnc; left; reflexivity|].
        apply IHc; [intros v Hv; apply Hnc; right; exact Hv | exact Ec]. }
      lia.
    + rewrite (power_of_absent c _ Ec). lia.
Qed.

(* "shifted by at least 5 %": 20 * L1 >= total, in terms of the code's PowerDiff *)
Theorem power_diff_is_five_percent b c :
  nodup_addrs b = true -> nodup_addrs c = true -> nonneg b -> nonneg c -> 0 < total_power b ->
  ((power_diff b c <? 50000) = false <-> shifted b c = true).
Proof.
  intros Hb Hc Hnb Hnc HT. unfold shifted. rewrite Z.leb_le, <- (pd_delta_l1 b c Hb Hc Hnb Hnc).
  apply power_diff_threshold; [exact HT|].
  rewrite (pd_delta_l1 b c Hb Hc Hnb Hnc), l1_shift_eq.
  assert (H1 : forall f l, (forall v, 0 <= f v) -> 0 <= sumf f l).
  { intros f l Hf. induction l as [|x l IHl]; [rewrite sumf_nil; lia | rewrite sumf_cons; specialize (Hf x); lia]. }
  assert (H2 : 0 <= sumf (fun v => if has_addr b (bv_addr v) then 0 else bv_power v) c).
  { clear - Hnc. induction c as [|x c IHc]; [rewrite sumf_nil; lia|]. rewrite sumf_cons.
    assert (0 <= bv_power x) by (apply Hnc; left; reflexivity).
    assert (0 <= sumf (fun v => if has_addr b (bv_addr v) then 0 else bv_power v) c) by (apply IHc; intros v Hv; apply Hnc; right; exact Hv).
    destruct (has_addr b (bv_addr x)); lia. }
  specialize (H1 (fun v => Z.abs (bv_power v - power_of c (bv_addr v))) b (fun v => Z.abs_nonneg _)). lia.
Qed.

Lemma bvals_eqb_eq a b : bvals_eqb a b = true -> a = b.
Proof. apply list_eqb_eq. intros [x p] [y q]. unfold bval_eqb; cbn. intros H. apply andb_true_iff in H. destruct H as [H1 H2].
  apply Z.eqb_eq in H1, H2. subst. reflexivity. Qed.

Lemma mset_self_zero m a p : mget0 m a = p -> True. Proof. trivial. Qed.

(* the decision of CompareAndSetBridgeValidators *)
Theorem decide_iff st cur now :
  decide st cur now = EbNew <->
  match st with
  | [] => True
  | last :: _ => (negb (bvals_eqb (k_set last) cur) && negb (power_diff (k_set last) cur <? 50000)) = true
                 \/ stale (k_ts last) now = true
  end.
Proof.
  unfold decide. destruct st as [|last rest]; [tauto|].
  destruct (stale (k_ts last) now); cbn; rewrite ?andb_false_r, ?andb_true_r.
  - split; [right; reflexivity | reflexivity].
  - destruct (bvals_eqb (k_set last) cur); cbn.
    + split; [discriminate | intros [H|H]; discriminate].
    + destruct (power_diff (k_set last) cur <? 50000); cbn; split; try discriminate; try (intros [H|H]; discriminate); auto.
Qed.

(* equal sets have PowerDiff 0 when addresses are distinct, so the byte comparison is subsumed *)
Lemma l1_shift_self b : nodup_addrs b = true -> l1_shift b b = 0.
Proof.
  intros Hnd. rewrite l1_shift_eq.
  assert (H1 : sumf (fun v => Z.abs (bv_power v - power_of b (bv_addr v))) b = 0).
  { induction b as [|x b IH]; [reflexivity|]. cbn in Hnd. apply andb_true_iff in Hnd. destruct Hnd as [Hx Hnd].
    apply negb_true_iff in Hx. rewrite sumf_cons. cbn [power_of]. rewrite Z.eqb_refl.
    rewrite (sumf_ext _ (fun v => Z.abs (bv_power v - power_of b (bv_addr v))) b).
    - rewrite (IH Hnd). lia.
    - intros v Hv. cbn [power_of]. destruct (Z.eqb_spec (bv_addr x) (bv_addr v)) as [E|E]; [|reflexivity].
      exfalso. exact (has_addr_false_in _ _ Hx v Hv (eq_sym E)). }
  assert (H2 : sumf (fun v => if has_addr b (bv_addr v) then 0 else bv_power v) b = 0).
  { assert (Hall : forall l, (forall v, In v l -> has_addr b (bv_addr v) = true) ->
                             sumf (fun v => if has_addr b (bv_addr v) then 0 else bv_power v) l = 0).
    { induction l as [|x l IHl]; intros H; [reflexivity|]. rewrite sumf_cons, (H x (or_introl eq_refl)).
      rewrite IHl; [reflexivity | intros v Hv; apply H; right; exact Hv]. }
    apply Hall. intros v Hv. unfold has_addr. apply existsb_exists. exists v. split; [exact Hv | apply Z.eqb_refl]. }
  lia.
Qed.

(* the full statement: a block records a checkpoint exactly when none exists, or the power shifted
   by at least 5 % of the last checkpoint's total, or the last checkpoint is older than 14 d - 1 s *)
Theorem end_block_records_iff H st r vs height now cur :
  height <> 1 -> current_valset r vs = Some cur ->
  (forall last rest, st = last :: rest ->
      nodup_addrs (k_set last) = true /\ nonneg (k_set last) /\ 0 < total_power (k_set last)) ->
  nodup_addrs cur = true -> nonneg cur ->
  (fst (end_block H st r vs height now) = EbNew <->
   match st with
   | [] => True
   | last :: _ => shifted (k_set last) cur = true \/ two_weeks_ms - one_second_ms < now - k_ts last
   end).
Proof.
  intros Hh Hcur Hlast Hndc Hnnc.
  assert (HQP : match st with
                | [] => True
                | last :: _ => (negb (bvals_eqb (k_set last) cur) && negb (power_diff (k_set last) cur <? 50000)) = true
                               \/ stale (k_ts last) now = true
                end <->
                match st with
                | [] => True
                | last :: _ => shifted (k_set last) cur = true \/ two_weeks_ms - one_second_ms < now - k_ts last
                end).
  { destruct st as [|last rest]; [tauto|].
    destruct (Hlast last rest eq_refl) as (Hndl & Hnnl & HT).
    rewrite <- stale_iff.
    pose proof (power_diff_is_five_percent (k_set last) cur Hndl Hndc Hnnl Hnnc HT) as H5.
    split; intros [Ha|Hb]; try (right; exact Hb).
    - left. apply andb_true_iff in Ha. destruct Ha as [_ Ha]. apply negb_true_iff in Ha. apply H5; exact Ha.
    - destruct (stale (k_ts last) now) eqn:Es; [right; reflexivity|]. left.
      pose proof Ha as Ha'. apply H5 in Ha'. rewrite Ha'. cbn. rewrite andb_true_r. apply negb_true_iff.
      destruct (bvals_eqb (k_set last) cur) eqn:Eq; [|reflexivity]. exfalso.
      apply bvals_eqb_eq in Eq. rewrite <- Eq in Ha. unfold shifted in Ha. rewrite (l1_shift_self _ Hndl) in Ha.
      apply Z.leb_le in Ha. lia. }
  unfold end_block. destruct (Z.eqb_spec height 1) as [E|_]; [contradiction|]. rewrite Hcur.
  pose proof (decide_iff st cur now) as Hdi.
  destruct (decide st cur now) eqn:Ed; cbn [fst]; rewrite Hdi; exact HQP.
Qed.

(* ================================================================================================
   3. Invariants over all histories
   ================================================================================================ *)
Definition rec_ok (H : hashes) (k : ckpt) : Prop :=
  k_thr k = total_power (k_set k) * 2 / 3 /\ k_hash k = h_set H (k_set k)
  /\ k_ckpt k = h_ckpt H (k_thr k) (k_ts k) (k_hash k).

Fixpoint slots_ok (st : bstate) : Prop :=
  match st with
  | [] => True
  | k :: rest => List.length (k_slots k) = List.length (match rest with [] => k_set k | p :: _ => k_set p end)
                 /\ slots_ok rest
  end.

(* timestamps strictly decrease from the newest record on, and lie below [bound] *)
Fixpoint ts_desc (bound : Z) (st : bstate) : Prop :=
  match st with [] => True | k :: rest => k_ts k < bound /\ ts_desc (k_ts k) rest end.

Definition wf (H : hashes) (bound : Z) (st : bstate) : Prop :=
  ts_desc bound st /\ Forall (rec_ok H) st /\ slots_ok st.

Lemma ts_desc_weaken b b' st : b <= b' -> ts_desc b st -> ts_desc b' st.
Proof. destruct st as [|k rest]; cbn; [trivial|]. intros Hle [H1 H2]. split; [lia | exact H2]. Qed.

Lemma wf_weaken H b b' st : b <= b' -> wf H b st -> wf H b' st.
Proof. intros Hle (H1 & H2 & H3). unfold wf. split; [|split]; [eapply ts_desc_weaken; eassumption | exact H2 | exact H3]. Qed.

Definition same_shape (k k' : ckpt) : Prop :=
  k_ts k' = k_ts k /\ k_set k' = k_set k /\ k_thr k' = k_thr k /\ k_hash k' = k_hash k /\ k_ckpt k' = k_ckpt k
  /\ List.length (k_slots k') = List.length (k_slots k).

Lemma same_shape_refl k : same_shape k k.
Proof. repeat split. Qed.

Lemma set_slots_length prev : forall slots a s, List.length (set_slots prev slots a s) = List.length slots.
Proof. induction prev as [|v prev IH]; intros [|x slots] a s; cbn; try reflexivity. rewrite IH. reflexivity. Qed.

Lemma sign_step_shape st a ts s : Forall2 same_shape st (sign_step st a ts s).
Proof.
  induction st as [|k rest IH]; cbn; [constructor|].
  destruct (k_ts k =? ts).
  - destruct rest as [|p rest'].
    + constructor; [apply same_shape_refl | constructor].
    + constructor.
      * repeat split; cbn. apply set_slots_length.
      * clear. induction (p :: rest') as [|x l IHl]; constructor; [apply same_shape_refl | exact IHl].
  - constructor; [apply same_shape_refl | exact IH].
Qed.

Lemma shape_wf H st st' : Forall2 same_shape st st' -> forall b, wf H b st -> wf H b st'.
Proof.
  induction 1 as [|k k' st st' Hk Hrest IH]; intros b Hwf; [exact Hwf|].
  destruct Hwf as (Ht & Hr & Hs). destruct Hk as (E1 & E2 & E3 & E4 & E5 & E6).
  cbn in Ht. destruct Ht as [Ht1 Ht2]. inversion Hr as [|? ? Hr1 Hr2]; subst. cbn in Hs. destruct Hs as [Hs1 Hs2].
  destruct (IH (k_ts k) (conj Ht2 (conj Hr2 Hs2))) as (It & Ir & Is).
  unfold wf. split; [|split].
  - cbn. rewrite E1. split; [exact Ht1 | exact It].
  - constructor; [|exact Ir]. destruct Hr1 as (R1 & R2 & R3). unfold rec_ok. rewrite E1, E2, E3, E4, E5. repeat split; assumption.
  - cbn. split; [|exact Is]. rewrite E6, Hs1, E2. destruct Hrest as [|p p' ? ? Hp _]; [reflexivity|].
    destruct Hp as (_ & P2 & _). rewrite P2. reflexivity.
Qed.

Lemma sign_op_wf H r b st o : wf H b st -> wf H b (sign_op r st o).
Proof.
  destruct o as [[op ts] s]. unfold sign_op. destruct (reg_get r op); [|trivial].
  apply shape_wf. apply sign_step_shape.
Qed.

Lemma pre_block_wf H b c e : wf H b (c_st c) -> wf H b (snd (pre_block c e)).
Proof.
  unfold pre_block. cbn [snd]. generalize (fold_left reg_step (e_claims e) (c_reg c)). intros r.
  generalize (c_st c). induction (e_signs e) as [|o l IH]; intros st Hwf; cbn; [exact Hwf|].
  apply IH. apply sign_op_wf. exact Hwf.
Qed.

Lemma mk_ckpt_ok H cur now n : rec_ok H (mk_ckpt H cur now n).
Proof. repeat split. Qed.

Lemma end_block_wf H b st r vs height now :
  b <= now -> wf H b st -> wf H (now + 1) (snd (end_block H st r vs height now)).
Proof.
  intros Hb Hwf. assert (Hw : wf H (now + 1) st) by (eapply wf_weaken; [|exact Hwf]; lia).
  unfold end_block. destruct (height =? 1); [exact Hw|].
  destruct (current_valset r vs) as [cur|]; [|exact Hw].
  destruct (decide st cur now); try exact Hw. cbn [snd].
  destruct Hwf as (Ht & Hr & Hs). unfold wf. split; [|split].
  - cbn. split; [lia | eapply ts_desc_weaken; [|exact Ht]; exact Hb].
  - constructor; [apply mk_ckpt_ok | exact Hr].
  - cbn. split; [|exact Hs]. rewrite repeat_length. destruct st; reflexivity.
Qed.

Lemma step_wf H b c e : b <= e_now e -> wf H b (c_st c) -> wf H (e_now e + 1) (c_st (step H c e)).
Proof.
  intros Hb Hwf. unfold step. destruct (c_halted c); [eapply wf_weaken; [|exact Hwf]; lia|].
  pose proof (pre_block_wf H b c e Hwf) as Hp. destruct (pre_block c e) as [r st1]. cbn [snd] in Hp.
  pose proof (end_block_wf H b st1 r (e_vals e) (e_height e) (e_now e) Hb Hp) as He.
  destruct (end_block H st1 r (e_vals e) (e_height e) (e_now e)) as [res st2]. cbn [snd] in He.
  destruct res; cbn [c_st]; [eapply wf_weaken; [|exact Hp]; lia | exact He | exact He].
Qed.

(* block times (unix ms) strictly increase *)
Fixpoint times_ok (t0 : Z) (es : list env_blk) : Prop :=
  match es with [] => True | e :: es' => t0 < e_now e /\ times_ok (e_now e) es' end.

Theorem history_wf H : forall es c t0,
  wf H (t0 + 1) (c_st c) -> times_ok t0 es -> exists t1, wf H (t1 + 1) (c_st (fold_left (step H) es c)).
Proof.
  induction es as [|e es IH]; intros c t0 Hwf Ht; cbn; [exists t0; exact Hwf|].
  destruct Ht as [Ht1 Ht2]. apply (IH (step H c e) (e_now e)); [|exact Ht2].
  apply (step_wf H (t0 + 1)); [lia | exact Hwf].
Qed.

Theorem run_wf H es t0 : times_ok t0 es -> exists t1, wf H (t1 + 1) (c_st (run H es)).
Proof. intros Ht. apply (history_wf H es chain0 t0); [|exact Ht]. unfold wf. cbn. split; [|split]; constructor. Qed.

(* consequences of the invariant *)
Lemma ts_desc_all b st : ts_desc b st -> Forall (fun k => k_ts k < b) st.
Proof.
  revert b. induction st as [|k rest IH]; intros b; cbn; [constructor|]. intros [H1 H2]. constructor; [exact H1|].
  specialize (IH _ H2). eapply Forall_impl; [|exact IH]. cbn. intros x Hx. lia.
Qed.

Lemma ts_desc_sorted b st : ts_desc b st -> StronglySorted (fun newer older => k_ts older < k_ts newer) st.
Proof.
  revert b. induction st as [|k rest IH]; intros b; cbn; [constructor|]. intros [H1 H2].
  constructor; [eapply IH; exact H2 | apply ts_desc_all; exact H2].
Qed.

Lemma index_of_ts_pos b pre k post :
  ts_desc b (pre ++ k :: post) -> index_of_ts (pre ++ k :: post) (k_ts k) = Some (Z.of_nat (List.length post)).
Proof.
  revert b. induction pre as [|x pre IH]; intros b Ht; cbn.
  - rewrite Z.eqb_refl. reflexivity.
  - cbn in Ht. destruct Ht as [_ Ht]. pose proof (ts_desc_all _ _ Ht) as Hall.
    rewrite Forall_forall in Hall. assert (Hlt : k_ts k < k_ts x) by (apply Hall; apply in_or_app; right; left; reflexivity).
    destruct (Z.eqb_spec (k_ts x) (k_ts k)); [lia|]. eapply IH; exact Ht.
Qed.

(* ================================================================================================
   4. The contract follows
   ================================================================================================ *)
Lemma relay_length prev : forall slots d, List.length (relay_sigs prev slots d) = List.length slots.
Proof. induction prev as [|v prev IH]; intros [|s slots] d; cbn; try reflexivity; [rewrite map_length; reflexivity | rewrite IH; reflexivity]. Qed.

Lemma check_sigs_relay prev : forall slots digest thr cum,
  exists c, check_sigs prev (relay_sigs prev slots digest) digest thr cum = Some c
            /\ (thr <= c \/ c = cum + valid_power prev slots digest).
Proof.
  induction prev as [|v prev IH]; intros slots digest thr cum.
  - exists cum. split; [destruct slots; reflexivity | right; cbn; lia].
  - destruct slots as [|s slots]; [exists cum; split; [reflexivity | right; cbn; lia]|].
    cbn [relay_sigs valid_power]. destruct s as [x|].
    + destruct (sig_valid (bv_addr v) digest x) eqn:Ev; cbn [check_sigs].
      * rewrite Ev. destruct (Z.leb_spec thr (cum + bv_power v)) as [Hle|Hgt].
        -- exists (cum + bv_power v). split; [reflexivity | left; exact Hle].
        -- destruct (IH slots digest thr (cum + bv_power v)) as (c & Hc & Hor). exists c. split; [exact Hc|].
           destruct Hor as [Hl|Hr]; [left; exact Hl | right; lia].
      * destruct (IH slots digest thr cum) as (c & Hc & Hor). exists c. split; [exact Hc|].
        destruct Hor as [Hl|Hr]; [left; exact Hl | right; lia].
    + cbn [check_sigs]. destruct (IH slots digest thr cum) as (c & Hc & Hor). exists c. split; [exact Hc|].
      destruct Hor as [Hl|Hr]; [left; exact Hl | right; lia].
Qed.

Theorem follow_accepts H unb evm_now p k :
  rec_ok H p -> rec_ok H k ->
  List.length (k_slots k) = List.length (k_set p) ->
  k_ts p <= k_ts k -> k_thr k <> 0 ->
  2 * total_power (k_set p) < 3 * valid_power (k_set p) (k_slots k) (k_ckpt k) ->
  k_ts p / 1000 <= evm_now -> evm_now - k_ts p / 1000 <= unb ->
  follow H unb evm_now p k = Some (contract_at k unb).
Proof.
  intros (P1 & P2 & P3) (K1 & K2 & K3) Hlen Hts Hthr Hsig Hev1 Hev2.
  unfold follow, update_validator_set, contract_at. cbn [cs_ckpt cs_thr cs_ts cs_unbonding].
  rewrite relay_length, Hlen, Nat.eqb_refl. cbn [negb].
  destruct (Z.ltb_spec (k_ts k) (k_ts p)); [lia|].
  destruct (Z.eqb_spec (k_thr k) 0); [contradiction|].
  rewrite <- P2, <- P3, Z.eqb_refl. cbn [negb].
  destruct (Z.ltb_spec evm_now (k_ts p / 1000)); [lia|].
  destruct (Z.ltb_spec unb (evm_now - k_ts p / 1000)); [lia|].
  rewrite <- K3.
  destruct (check_sigs_relay (k_set p) (k_slots k) (k_ckpt k) (k_thr p) 0) as (c & Hc & Hor). rewrite Hc.
  assert (Hge : k_thr p <= c).
  { destruct Hor as [Hl|Hr]; [exact Hl|]. rewrite Hr, P1. lia. }
  destruct (Z.ltb_spec c (k_thr p)); [lia|]. reflexivity.
Qed.

(* one signature lands exactly in the slots of its sender's address in the previous set *)
Lemma set_slots_nth prev : forall slots a s i,
  (i < List.length prev)%nat -> (i < List.length slots)%nat ->
  nth_error (set_slots prev slots a s) i =
  if bv_addr (nth i prev (BV 0 0)) =? a then Some (Some s) else nth_error slots i.
Proof.
  induction prev as [|v prev IH]; intros [|x slots] a s i Hp Hs; cbn in *; try lia.
  destruct i as [|i]; cbn.
  - destruct (bv_addr v =? a); reflexivity.
  - apply IH; lia.
Qed.

Lemma nodup_addrs_unique l : nodup_addrs l = true ->
  forall i j, (i < List.length l)%nat -> (j < List.length l)%nat ->
  bv_addr (nth i l (BV 0 0)) = bv_addr (nth j l (BV 0 0)) -> i = j.
Proof.
  induction l as [|x l IH]; intros Hnd i j Hi Hj He; cbn in *; [lia|].
  apply andb_true_iff in Hnd. destruct Hnd as [Hx Hnd]. apply negb_true_iff in Hx.
  destruct i as [|i], j as [|j]; cbn in He; try reflexivity.
  - exfalso. apply (has_addr_false_in _ _ Hx (nth j l (BV 0 0))); [apply nth_In; lia | symmetry; exact He].
  - exfalso. apply (has_addr_false_in _ _ Hx (nth i l (BV 0 0))); [apply nth_In; lia | exact He].
  - f_equal. apply IH; [exact Hnd | lia | lia | exact He].
Qed.

Lemma sign_step_at pre k p rest a ts s b :
  ts_desc b (pre ++ k :: p :: rest) -> k_ts k = ts ->
  sign_step (pre ++ k :: p :: rest) a ts s =
  pre ++ {| k_ts := k_ts k; k_set := k_set k; k_thr := k_thr k; k_hash := k_hash k; k_ckpt := k_ckpt k;
            k_slots := set_slots (k_set p) (k_slots k) a s |} :: p :: rest.
Proof.
  revert b. induction pre as [|x pre IH]; intros b Ht Hk; cbn.
  - rewrite Hk, Z.eqb_refl. reflexivity.
  - cbn in Ht. destruct Ht as [_ Ht]. pose proof (ts_desc_all _ _ Ht) as Hall. rewrite Forall_forall in Hall.
    assert (Hlt : k_ts k < k_ts x) by (apply Hall; apply in_or_app; right; left; reflexivity).
    destruct (Z.eqb_spec (k_ts x) ts); [lia|]. f_equal. eapply IH; eassumption.
Qed.

(* ================================================================================================
   5. Refutations (the code as it is)
   ================================================================================================ *)
Definition H0 : hashes := {| h_set := fun l => total_power l; h_ckpt := fun thr ts h => thr + ts + h |}.

(* finding F28: operator 2 replays operator 1's initial signatures, is registered with address 10 as
   well, and overwrites operator 1's slot with garbage *)
Definition f28_history : list env_blk :=
  [ {| e_height := 2; e_now := 1000; e_claims := [(1, Some 10); (3, Some 30)]; e_signs := [];
       e_vals := [SV 1 true 2000000; SV 2 true 1000000; SV 3 true 1000000] |};
    {| e_height := 3; e_now := 2000; e_claims := [(2, Some 10)]; e_signs := [];
       e_vals := [SV 1 true 2000000; SV 2 true 1000000; SV 3 true 1000000] |};
    {| e_height := 4; e_now := 3000; e_claims := []; e_signs := [];
       e_vals := [SV 1 true 3000000; SV 2 true 1000000; SV 3 true 1000000] |};
    {| e_height := 5; e_now := 4000; e_claims := [];
       e_signs := [(1, 3000, Sg 1 10 3008); (3, 3000, Sg 2 30 3008); (2, 3000, Sg 3 0 0)];
       e_vals := [SV 1 true 3000000; SV 2 true 1000000; SV 3 true 1000000] |} ].

Lemma f28_refutes :
  exists es k p rest,
    times_ok 0 es /\ c_st (run H0 es) = k :: p :: rest /\ k_thr k <> 0 /\
    2 * total_power (k_set p) <
      3 * signed_power (c_reg (run H0 es)) (env_subs H0 chain0 es []) (k_set p) (k_ts k) (k_ckpt k) /\
    follow H0 unbonding_s (k_ts k / 1000) p k = None /\
    reg_nodup_addr (c_reg (run H0 es)) = false.
Proof.
  exists f28_history. eexists. eexists. eexists.
  split; [cbn; lia|]. split; [vm_compute; reflexivity|].
  split; [vm_compute; discriminate|]. split; [vm_compute; reflexivity|]. split; vm_compute; reflexivity.
Qed.

(* with a duplicate address PowerDiff no longer measures the shift: one unit moved in a set of total
   1000 (member by member the two sets differ by 1) counts as 50 % *)
Lemma power_diff_duplicate_refutes :
  exists b c, map bv_addr b = map bv_addr c /\ total_power b = 1000 /\
    fold_right Z.add 0 (map (fun p => Z.abs (bv_power (fst p) - bv_power (snd p))) (combine b c)) = 1 /\
    (power_diff b c <? 50000) = false.
Proof. exists [BV 1 10; BV 2 500; BV 2 490], [BV 1 11; BV 2 500; BV 2 490]. vm_compute. repeat split. Qed.

(* the text's "older than two weeks": the code records up to one second earlier *)
Lemma two_weeks_early_refutes :
  exists ts now, now - ts <= two_weeks_ms /\ stale ts now = true.
Proof. exists 0, two_weeks_ms. vm_compute. split; [discriminate | reflexivity]. Qed.

(* ================================================================================================
   6. Soundness of the check (what an empty issue list says about the implementation's outputs)
   ================================================================================================ *)
Lemma recs_chain_ok_sound : forall rs i prev,
  recs_chain_ok i prev rs = true ->
  (forall n r, nth_error rs n = Some r -> r_idx r = i + Z.of_nat n /\ r_back r = r_ts r /\ r_pts r = r_ts r) /\
  (forall n r r', nth_error rs n = Some r -> nth_error rs (S n) = Some r' -> r_ts r < r_ts r') /\
  (forall r t, nth_error rs 0 = Some r -> prev = Some t -> t < r_ts r).
Proof.
  induction rs as [|x rs IH]; intros i prev Hok.
  - split; [|split]; [intros n r Hn; destruct n; discriminate Hn | intros n r r' Hn _; destruct n; discriminate Hn | intros r t Hn _; discriminate Hn].
  - cbn [recs_chain_ok] in Hok.
    apply andb_true_iff in Hok. destruct Hok as [Hok HE].
    apply andb_true_iff in Hok. destruct Hok as [Hok HD].
    apply andb_true_iff in Hok. destruct Hok as [Hok HC].
    apply andb_true_iff in Hok. destruct Hok as [HA HB].
    apply Z.eqb_eq in HA, HB, HC.
    destruct (IH _ _ HE) as (I1 & I2 & I3). split; [|split].
    + intros n r Hn. destruct n as [|n]; cbn in Hn.
      * inversion Hn; subst. repeat split; try assumption. lia.
      * destruct (I1 n r Hn) as (A & B & C). repeat split; try assumption. lia.
    + intros n r r' Hn Hn'. destruct n as [|n]; cbn in Hn, Hn'.
      * inversion Hn; subst. eapply I3; [exact Hn' | reflexivity].
      * eapply I2; eassumption.
    + intros r t Hr Hp. cbn in Hr. inversion Hr; subst. apply Z.ltb_lt in HD. exact HD.
Qed.

Lemma rec_consistent_sound r : rec_consistent r = true ->
  r_thr r = total_power (r_set r) * 2 / 3 /\ r_hash r = r_refhash r /\ r_ck r = r_refckpt r /\ r_set r <> [].
Proof.
  unfold rec_consistent. intros Hc.
  apply andb_true_iff in Hc. destruct Hc as [Hc HN].
  apply andb_true_iff in Hc. destruct Hc as [Hc HS].
  apply andb_true_iff in Hc. destruct Hc as [Hc HC].
  apply andb_true_iff in Hc. destruct Hc as [HA HB].
  apply Z.eqb_eq in HA, HB, HC. repeat split; try assumption.
  intros E. rewrite E in HN. discriminate.
Qed.

Theorem check_sound_final blocks final fl fc :
  c16_check (HistCase blocks final fl fc) = [] ->
  (forall n r, nth_error final n = Some r ->
      r_idx r = Z.of_nat n /\ r_back r = r_ts r /\ r_pts r = r_ts r /\
      r_thr r = total_power (r_set r) * 2 / 3 /\ r_hash r = r_refhash r /\ r_ck r = r_refckpt r) /\
  (forall n r r', nth_error final n = Some r -> nth_error final (S n) = Some r' -> r_ts r < r_ts r').
Proof.
  cbn [c16_check]. destruct (spec_blocks iview0 blocks) as [s_iss v]. destruct (diff_blocks _ chain0 blocks) as [d_iss ch].
  intros Hnil. apply app_nil_both in Hnil. destruct Hnil as [_ Hnil]. apply app_nil_both in Hnil. destruct Hnil as [Hsf _].
  unfold spec_final in Hsf. apply app_nil_both in Hsf. destruct Hsf as [S1 Hsf]. apply app_nil_both in Hsf. destruct Hsf as [S2 _].
  apply spec_if_nil in S1, S2. apply andb_true_iff in S1. destruct S1 as [_ S1].
  destruct (recs_chain_ok_sound _ _ _ S1) as (I1 & I2 & _). rewrite forallb_forall in S2.
  split; [|exact I2]. intros n r Hn. destruct (I1 n r Hn) as (A & B & C).
  destruct (rec_consistent_sound r (S2 r (nth_error_In _ _ Hn))) as (D & E & F & _).
  repeat split; try assumption; try lia.
Qed.

(* ================================================================================================
   7. The statements over histories, as used by Properties/C16.v
   ================================================================================================ *)
Lemma wf_split H b pre k post : wf H b (pre ++ k :: post) -> wf H (k_ts k + 1) (k :: post).
Proof.
  revert b. induction pre as [|x pre IH]; intros b (Ht & Hr & Hs).
  - cbn [app] in *. unfold wf. split; [|split]; [|exact Hr | exact Hs]. cbn in *. split; [lia | tauto].
  - cbn [app] in *. cbn in Ht. destruct Ht as [_ Ht]. inversion Hr; subst. cbn in Hs. destruct Hs as [_ Hs].
    eapply IH. unfold wf. split; [|split]; eassumption.
Qed.

Theorem history_timestamps_strict H es t0 :
  times_ok t0 es -> StronglySorted (fun newer older => k_ts older < k_ts newer) (c_st (run H es)).
Proof. intros Ht. destruct (run_wf H es t0 Ht) as (t1 & Hw & _). eapply ts_desc_sorted; exact Hw. Qed.

Theorem history_indexes_contiguous H es t0 pre k post :
  times_ok t0 es -> c_st (run H es) = pre ++ k :: post ->
  index_of_ts (c_st (run H es)) (k_ts k) = Some (Z.of_nat (List.length post)) /\
  latest_idx (c_st (run H es)) = Some (Z.of_nat (List.length pre + List.length post)) .
Proof.
  intros Ht Hst. destruct (run_wf H es t0 Ht) as (t1 & Hw & _). rewrite Hst in *. split.
  - eapply index_of_ts_pos; exact Hw.
  - unfold latest_idx. destruct (pre ++ k :: post) eqn:E; [destruct pre; discriminate|]. rewrite <- E, app_length. cbn [List.length]. f_equal. lia.
Qed.

Theorem history_maps_consistent H es t0 :
  times_ok t0 es ->
  Forall (fun k => k_thr k = total_power (k_set k) * 2 / 3 /\ k_hash k = h_set H (k_set k)
                   /\ k_ckpt k = h_ckpt H (k_thr k) (k_ts k) (k_hash k)) (c_st (run H es))
  /\ cur_valset (c_st (run H es)) = match c_st (run H es) with [] => None | k :: _ => Some (k_set k) end
  /\ cur_ckpt (c_st (run H es)) = match c_st (run H es) with [] => None | k :: _ => Some (k_ckpt k) end.
Proof. intros Ht. destruct (run_wf H es t0 Ht) as (t1 & _ & Hr & _). split; [exact Hr | split; reflexivity]. Qed.

Theorem history_slots_match_previous_set H es t0 pre k p rest :
  times_ok t0 es -> c_st (run H es) = pre ++ k :: p :: rest ->
  List.length (k_slots k) = List.length (k_set p).
Proof.
  intros Ht Hst. destruct (run_wf H es t0 Ht) as (t1 & Hw). rewrite Hst in Hw.
  apply wf_split in Hw. destruct Hw as (_ & _ & Hs). cbn in Hs. tauto.
Qed.

Theorem history_first_slots H es t0 pre k :
  times_ok t0 es -> c_st (run H es) = pre ++ [k] -> List.length (k_slots k) = List.length (k_set k).
Proof.
  intros Ht Hst. destruct (run_wf H es t0 Ht) as (t1 & Hw). rewrite Hst in Hw.
  apply wf_split in Hw. destruct Hw as (_ & _ & Hs). cbn in Hs. tauto.
Qed.

(* one submission: exactly the slots of the sender's address change; with distinct addresses in the
   previous set that is exactly one slot, the sender's *)
Theorem sign_places_signature H b pre k p rest a s :
  wf H b (pre ++ k :: p :: rest) ->
  exists k',
    sign_step (pre ++ k :: p :: rest) a (k_ts k) s = pre ++ k' :: p :: rest /\
    k_ts k' = k_ts k /\ k_set k' = k_set k /\ k_ckpt k' = k_ckpt k /\
    (forall i, (i < List.length (k_set p))%nat ->
       nth_error (k_slots k') i =
       if bv_addr (nth i (k_set p) (BV 0 0)) =? a then Some (Some s) else nth_error (k_slots k) i) /\
    (nodup_addrs (k_set p) = true ->
     forall i j, (i < List.length (k_set p))%nat -> (j < List.length (k_set p))%nat ->
       bv_addr (nth i (k_set p) (BV 0 0)) = a -> bv_addr (nth j (k_set p) (BV 0 0)) = a -> i = j).
Proof.
  intros Hw. pose proof Hw as (Ht & _ & _).
  rewrite (sign_step_at pre k p rest a (k_ts k) s b Ht eq_refl). eexists. split; [reflexivity|].
  cbn [k_ts k_set k_ckpt k_slots]. repeat split.
  - intros i Hi. apply set_slots_nth; [exact Hi|].
    apply wf_split in Hw. destruct Hw as (_ & _ & Hs). cbn in Hs. destruct Hs as [Hl _]. rewrite Hl. exact Hi.
  - intros Hnd i j Hi Hj Ei Ej. eapply nodup_addrs_unique; try eassumption. congruence.
Qed.

Theorem history_followable H es t0 pre k p rest unb evm_now :
  times_ok t0 es -> c_st (run H es) = pre ++ k :: p :: rest ->
  k_thr k <> 0 ->
  2 * total_power (k_set p) < 3 * valid_power (k_set p) (k_slots k) (k_ckpt k) ->
  k_ts p / 1000 <= evm_now -> evm_now - k_ts p / 1000 <= unb ->
  follow H unb evm_now p k = Some (contract_at k unb).
Proof.
  intros Ht Hst Hthr Hsig He1 He2. destruct (run_wf H es t0 Ht) as (t1 & Hw). rewrite Hst in Hw.
  apply wf_split in Hw. destruct Hw as (Hts & Hr & Hs).
  inversion Hr as [|? ? Rk Hr']; subst. inversion Hr' as [|? ? Rp _]; subst.
  cbn in Hts, Hs. apply follow_accepts; try assumption; [tauto | lia].
Qed.

(* non-vacuity: an honest history in which the contract follows two steps *)
Definition honest_history : list env_blk :=
  [ {| e_height := 2; e_now := 1000; e_claims := [(1, Some 10); (2, Some 20); (3, Some 30)]; e_signs := [];
       e_vals := [SV 1 true 2000000; SV 2 true 1000000; SV 3 true 1000000; SV 4 true 5000000; SV 5 false 9000000] |};
    {| e_height := 3; e_now := 2000; e_claims := []; e_signs := [];
       e_vals := [SV 1 true 3000000; SV 2 true 1000000; SV 3 true 1999999; SV 4 true 5000000] |};
    {| e_height := 4; e_now := 3000; e_claims := [];
       e_signs := [(1, 2000, Sg 1 10 2008); (3, 2000, Sg 2 30 2008)];
       e_vals := [SV 1 true 3000000; SV 2 true 1000000; SV 3 true 1000000; SV 4 true 5000000] |} ].

Lemma honest_history_follows :
  times_ok 0 honest_history /\
  exists k p, c_st (run H0 honest_history) = [k; p] /\
    k_set p = [BV 10 2; BV 20 1; BV 30 1] /\ k_set k = [BV 10 3; BV 20 1; BV 30 1] /\
    follow H0 unbonding_s 2 p k = Some (contract_at k unbonding_s).
Proof. split; [cbn; lia|]. eexists. eexists. split; [vm_compute; reflexivity|]. repeat split. Qed.

Lemma power_diff_is_five_percent_le b c :
  nodup_addrs b = true -> nodup_addrs c = true -> nonneg b -> nonneg c -> 0 < total_power b ->
  ((power_diff b c <? 50000) = false <-> total_power b <= 20 * l1_shift b c).
Proof. intros Hb Hc Hnb Hnc HT. rewrite <- Z.leb_le. exact (power_diff_is_five_percent b c Hb Hc Hnb Hnc HT). Qed.

Lemma end_block_records_iff_le H st r vs height now cur :
  height <> 1 -> current_valset r vs = Some cur ->
  (forall last rest, st = last :: rest ->
      nodup_addrs (k_set last) = true /\ nonneg (k_set last) /\ 0 < total_power (k_set last)) ->
  nodup_addrs cur = true -> nonneg cur ->
  (fst (end_block H st r vs height now) = EbNew <->
   match st with
   | [] => True
   | last :: _ => total_power (k_set last) <= 20 * l1_shift (k_set last) cur
                  \/ two_weeks_ms - one_second_ms < now - k_ts last
   end).
Proof.
  intros Hh Hc Hl Hn Hnn. rewrite (end_block_records_iff H st r vs height now cur Hh Hc Hl Hn Hnn).
  destruct st; [reflexivity|]. unfold shifted. rewrite Z.leb_le. reflexivity.
Qed.
