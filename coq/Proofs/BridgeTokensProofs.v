(* C14 — proofs about Model/BridgeTokens.v *)
From Coq Require Import ZArith List Bool String Lia Sorting.Sorted.
From Verif Require Import Base.Harness Model.BridgeTokens.
Import ListNotations.
Open Scope Z_scope.

(* ================================================================================================ *)
(* bytes                                                                                            *)
(* ================================================================================================ *)
Lemma be_length n x : List.length (be n x) = n.
Proof.
  revert x; induction n as [|k IH]; intros x; cbn [be]; [reflexivity|].
  rewrite app_length, IH. cbn. lia.
Qed.

Lemma of_be_snoc l b : of_be (l ++ [b]) = of_be l * 256 + b.
Proof. unfold of_be. rewrite fold_left_app. reflexivity. Qed.

Lemma of_be_be n : forall x, 0 <= x < 256 ^ Z.of_nat n -> of_be (be n x) = x.
Proof.
  induction n as [|k IH]; intros x Hx.
  - cbn in *. lia.
  - cbn [be]. rewrite of_be_snoc, IH.
    + pose proof (Z.div_mod x 256 ltac:(lia)). lia.
    + rewrite Nat2Z.inj_succ, Z.pow_succ_r in Hx by lia.
      split; [apply Z.div_pos; lia|]. apply Z.div_lt_upper_bound; lia.
Qed.

Lemma word_length x : List.length (word x) = 32%nat.
Proof. apply be_length. Qed.

Lemma of_be_word x : 0 <= x < 2 ^ 256 -> of_be (word x) = x.
Proof. intros H. apply of_be_be. change (256 ^ Z.of_nat 32) with (2 ^ 256). exact H. Qed.

Lemma blen_app a b : blen (a ++ b) = blen a + blen b.
Proof. unfold blen. rewrite app_length. lia. Qed.
Lemma blen_word x : blen (word x) = 32.
Proof. unfold blen. rewrite word_length. reflexivity. Qed.
Lemma blen_nonneg d : 0 <= blen d.
Proof. unfold blen. lia. Qed.

(* slices of concatenations *)
Lemma slice_app_skip a b off n :
  blen a = off -> slice off n (a ++ b) = firstn (Z.to_nat n) b.
Proof.
  intros H. unfold slice. f_equal. unfold blen in H.
  replace (Z.to_nat off) with (List.length a + 0)%nat by lia.
  rewrite skipn_app. replace (List.length a + 0 - List.length a)%nat with 0%nat by lia.
  rewrite Nat.add_0_r, skipn_all. reflexivity.
Qed.

Lemma slice_app_shift a b off n :
  blen a <= off -> slice off n (a ++ b) = slice (off - blen a) n b.
Proof.
  intros H. unfold slice. f_equal. unfold blen in *.
  rewrite skipn_app.
  rewrite (skipn_all2 a) by lia. cbn [app]. f_equal. lia.
Qed.

Lemma slice_head a b n : blen a = n -> slice 0 n (a ++ b) = a.
Proof.
  intros H. unfold slice. cbn [Z.to_nat skipn]. unfold blen in H.
  replace (Z.to_nat n) with (List.length a + 0)%nat by lia.
  rewrite firstn_app_2. cbn. apply app_nil_r.
Qed.

Lemma slice_within a b off n :
  0 <= off -> 0 <= n -> off + n <= blen a -> slice off n (a ++ b) = slice off n a.
Proof.
  intros Ho Hn H. unfold slice, blen in *.
  rewrite skipn_app, firstn_app.
  rewrite skipn_length.
  replace (Z.to_nat n - (List.length a - Z.to_nat off))%nat with 0%nat by lia.
  cbn [firstn]. apply app_nil_r.
Qed.

Lemma firstn_exact {A} (l r : list A) n : List.length l = n -> firstn n (l ++ r) = l.
Proof.
  intros H. replace n with (List.length l + 0)%nat by lia. rewrite firstn_app_2. cbn. apply app_nil_r.
Qed.

(* ================================================================================================ *)
(* hex                                                                                              *)
(* ================================================================================================ *)
Lemma hex_val_digit x : 0 <= x < 16 -> hex_val (hex_digit x) = Some x.
Proof.
  intros H. unfold hex_digit, hex_val.
  destruct (x <? 10) eqn:E.
  - apply Z.ltb_lt in E.
    replace ((48 <=? 48 + x) && (48 + x <=? 57)) with true
      by (symmetry; apply andb_true_intro; split; apply Z.leb_le; lia).
    f_equal. lia.
  - apply Z.ltb_ge in E.
    replace ((48 <=? 87 + x) && (87 + x <=? 57)) with false
      by (symmetry; apply andb_false_intro2; apply Z.leb_gt; lia).
    replace ((97 <=? 87 + x) && (87 + x <=? 102)) with true
      by (symmetry; apply andb_true_intro; split; apply Z.leb_le; lia).
    f_equal. lia.
Qed.

Lemma hex_decode_encode b : Forall (fun x => 0 <= x < 256) b -> hex_decode (hex_encode b) = Some b.
Proof.
  induction 1 as [|x r Hx Hr IH]; [reflexivity|].
  cbn [hex_encode hex_decode].
  rewrite !hex_val_digit, IH.
  - f_equal. f_equal. pose proof (Z.div_mod x 16 ltac:(lia)). lia.
  - apply Z.mod_pos_bound. lia.
  - split; [apply Z.div_pos; lia | apply Z.div_lt_upper_bound; lia].
Qed.

(* ================================================================================================ *)
(* ABI: the withdrawal value decodes to what was encoded                                            *)
(* ================================================================================================ *)
Lemma pad32_prefix s : firstn (List.length s) (pad32 s) = s.
Proof. unfold pad32. apply firstn_exact. reflexivity. Qed.

Lemma abi_decode_encode4 addr s x y :
  0 <= addr < 2 ^ 160 -> 0 <= x < 2 ^ 256 -> 0 <= y < 2 ^ 256 -> blen s < 2 ^ 256 ->
  abi_decode4 (abi_encode4 addr s x y) = Some (addr, s, x, y).
Proof.
  intros Ha Hx Hy Hs. unfold abi_decode4, abi_encode4.
  set (tail := word (blen s) ++ pad32 s).
  assert (Hlen : blen (word addr ++ word 128 ++ word x ++ word y ++ tail) = 160 + blen (pad32 s)).
  { unfold tail. rewrite !blen_app, !blen_word. lia. }
  pose proof (blen_nonneg (pad32 s)) as Hp.
  assert (Hps : blen s <= blen (pad32 s)).
  { unfold pad32. rewrite blen_app. pose proof (blen_nonneg (zeros ((32 - List.length s mod 32) mod 32))). lia. }
  (* the four head words *)
  assert (W0 : word_at 0 (word addr ++ word 128 ++ word x ++ word y ++ tail) = addr).
  { unfold word_at. rewrite slice_head by apply blen_word. apply of_be_word. lia. }
  assert (W1 : word_at 32 (word addr ++ word 128 ++ word x ++ word y ++ tail) = 128).
  { unfold word_at. rewrite slice_app_shift by (rewrite blen_word; lia). rewrite blen_word.
    change (32 - 32) with 0. rewrite slice_head by apply blen_word. apply of_be_word. lia. }
  assert (W2 : word_at 64 (word addr ++ word 128 ++ word x ++ word y ++ tail) = x).
  { unfold word_at. rewrite slice_app_shift by (rewrite blen_word; lia). rewrite blen_word.
    rewrite slice_app_shift by (rewrite blen_word; lia). rewrite blen_word.
    change (64 - 32 - 32) with 0. rewrite slice_head by apply blen_word. apply of_be_word. lia. }
  assert (W3 : word_at 96 (word addr ++ word 128 ++ word x ++ word y ++ tail) = y).
  { unfold word_at. do 3 (rewrite slice_app_shift by (rewrite blen_word; lia); rewrite blen_word).
    change (96 - 32 - 32 - 32) with 0. rewrite slice_head by apply blen_word. apply of_be_word. lia. }
  assert (W4 : word_at 128 (word addr ++ word 128 ++ word x ++ word y ++ tail) = blen s).
  { unfold word_at, tail. do 4 (rewrite slice_app_shift by (rewrite blen_word; lia); rewrite blen_word).
    change (128 - 32 - 32 - 32 - 32) with 0. rewrite slice_head by apply blen_word. apply of_be_word.
    pose proof (blen_nonneg s). lia. }
  assert (S5 : slice 160 (blen s) (word addr ++ word 128 ++ word x ++ word y ++ tail) = s).
  { unfold tail. do 5 (rewrite slice_app_shift by (rewrite blen_word; lia); rewrite blen_word).
    change (160 - 32 - 32 - 32 - 32 - 32) with 0. unfold slice. cbn [Z.to_nat skipn].
    unfold blen. rewrite Nat2Z.id. apply pad32_prefix. }
  unfold abi_word_at, abi_dyn_at. rewrite Hlen.
  replace (160 + blen (pad32 s) <? 0 + 32) with false by (symmetry; apply Z.ltb_ge; lia).
  replace (160 + blen (pad32 s) <? 32 + 32) with false by (symmetry; apply Z.ltb_ge; lia).
  replace (160 + blen (pad32 s) <? 64 + 32) with false by (symmetry; apply Z.ltb_ge; lia).
  replace (160 + blen (pad32 s) <? 96 + 32) with false by (symmetry; apply Z.ltb_ge; lia).
  rewrite W0, W1, W2, W3.
  replace (160 + blen (pad32 s) <? 128 + 32) with false by (symmetry; apply Z.ltb_ge; lia).
  change (128 + 32 - 32) with 128. rewrite W4.
  replace (160 + blen (pad32 s) <? 128 + 32 + blen s) with false by (symmetry; apply Z.ltb_ge; lia).
  change (128 + 32) with 160. rewrite S5.
  rewrite Z.mod_small by lia. reflexivity.
Qed.

(* ================================================================================================ *)
(* association lists, balances                                                                      *)
(* ================================================================================================ *)
Lemma assoc_set_assoc {A} k k' (x : A) l :
  assoc k' (set_assoc k x l) = if k =? k' then Some x else assoc k' l.
Proof.
  induction l as [|[k0 y] r IH]; cbn [set_assoc assoc].
  - destruct (k =? k'); reflexivity.
  - destruct (k0 =? k) eqn:E0.
    + apply Z.eqb_eq in E0. subst k0. cbn [assoc]. destruct (k =? k'); reflexivity.
    + cbn [assoc]. rewrite IH. destruct (k0 =? k') eqn:E1; [|reflexivity].
      apply Z.eqb_eq in E1. subst k0. rewrite Z.eqb_sym, E0. reflexivity.
Qed.

Lemma bal_get_add b a x a' :
  bal_get (bal_add b a x) a' = if a =? a' then bal_get b a + x else bal_get b a'.
Proof.
  unfold bal_add, bal_get at 1. rewrite assoc_set_assoc.
  destruct (a =? a') eqn:E; [reflexivity|]. reflexivity.
Qed.

Lemma zmem_In x l : zmem x l = true <-> In x l.
Proof.
  unfold zmem. rewrite existsb_exists. split.
  - intros [y [Hy E]]. apply Z.eqb_eq in E. subst. exact Hy.
  - intros H. exists x. split; [exact H | apply Z.eqb_refl].
Qed.

Lemma nth_z_In {A} (l : list A) i a : nth_z l i = Some a -> In a l.
Proof.
  unfold nth_z. destruct ((0 <=? i) && (i <? Z.of_nat (List.length l))); [|discriminate].
  apply nth_error_In.
Qed.

(* ================================================================================================ *)
(* bytes produced by hex decoding are bytes; numbers read from them are non-negative                *)
(* ================================================================================================ *)
Definition is_bytes (d : bytes) : Prop := Forall (fun x => 0 <= x < 256) d.

Lemma hex_val_range c x : hex_val c = Some x -> 0 <= x < 16.
Proof.
  unfold hex_val.
  destruct ((48 <=? c) && (c <=? 57)) eqn:E1.
  { apply andb_prop in E1. destruct E1 as [A B]. apply Z.leb_le in A, B. intros H. inversion H. lia. }
  destruct ((97 <=? c) && (c <=? 102)) eqn:E2.
  { apply andb_prop in E2. destruct E2 as [A B]. apply Z.leb_le in A, B. intros H. inversion H. lia. }
  destruct ((65 <=? c) && (c <=? 70)) eqn:E3; [|discriminate].
  apply andb_prop in E3. destruct E3 as [A B]. apply Z.leb_le in A, B. intros H. inversion H. lia.
Qed.

Lemma hex_decode_cons2 a b r :
  hex_decode (a :: b :: r) =
  match hex_val a, hex_val b, hex_decode r with
  | Some x, Some y, Some t => Some (16 * x + y :: t)
  | _, _, _ => None
  end.
Proof. reflexivity. Qed.

Lemma hex_decode_bytes : forall n l d, (List.length l <= n)%nat -> hex_decode l = Some d -> is_bytes d.
Proof.
  induction n as [|n IH]; intros l d Hn H.
  - destruct l; [|cbn in Hn; lia]. cbn in H. inversion H. constructor.
  - destruct l as [|a [|b r]].
    + cbn in H. inversion H. constructor.
    + cbn in H. discriminate.
    + rewrite hex_decode_cons2 in H. destruct (hex_val a) as [x|] eqn:Ea; [|discriminate].
      destruct (hex_val b) as [y|] eqn:Eb; [|discriminate].
      destruct (hex_decode r) as [t|] eqn:Er; [|discriminate].
      injection H as Hd. subst d. constructor.
      * apply hex_val_range in Ea. apply hex_val_range in Eb. change (0 <= 16 * x + y < 256). lia.
      * apply (IH r t); [cbn in Hn; lia | exact Er].
Qed.

Lemma of_be_nonneg l : Forall (fun x => 0 <= x) l -> 0 <= of_be l.
Proof.
  induction l as [|b l IH] using rev_ind; intros H; [cbn; lia|].
  rewrite of_be_snoc. apply Forall_app in H. destruct H as [H1 H2]. inversion H2. specialize (IH H1). lia.
Qed.

Lemma of_be_bound l : is_bytes l -> 0 <= of_be l < 256 ^ Z.of_nat (List.length l).
Proof.
  induction l as [|b l IH] using rev_ind; intros H; [cbn; lia|].
  rewrite of_be_snoc. apply Forall_app in H. destruct H as [H1 H2]. inversion H2 as [|? ? Hb ?]. subst.
  specialize (IH H1). rewrite app_length. cbn [List.length].
  replace (Z.of_nat (List.length l + 1)) with (Z.succ (Z.of_nat (List.length l))) by lia.
  rewrite Z.pow_succ_r by lia. lia.
Qed.

Lemma my_firstn_In {A} n : forall (l : list A) x, In x (firstn n l) -> In x l.
Proof.
  induction n as [|n IH]; intros [|y l] x H; cbn in *; try contradiction.
  destruct H as [H|H]; [left; exact H | right; apply IH; exact H].
Qed.
Lemma my_skipn_In {A} n : forall (l : list A) x, In x (skipn n l) -> In x l.
Proof.
  induction n as [|n IH]; intros [|y l] x H; cbn in *; try contradiction; try assumption.
  right. apply IH. exact H.
Qed.

Lemma is_bytes_slice off n d : is_bytes d -> is_bytes (slice off n d).
Proof.
  intros H. unfold slice, is_bytes in *. rewrite Forall_forall in *. intros x Hx.
  apply H. apply my_firstn_In in Hx. eapply my_skipn_In. exact Hx.
Qed.

Lemma word_at_nonneg off d : is_bytes d -> 0 <= word_at off d.
Proof.
  intros H. unfold word_at. apply of_be_nonneg. apply (is_bytes_slice off 32) in H.
  unfold is_bytes in H. rewrite Forall_forall in *. intros x Hx. specialize (H x Hx). lia.
Qed.

Lemma abi_decode4_nonneg d a s x y : is_bytes d -> abi_decode4 d = Some (a, s, x, y) -> 0 <= x /\ 0 <= y.
Proof.
  intros Hd. unfold abi_decode4, abi_word_at.
  destruct (blen d <? 0 + 32); [discriminate|].
  destruct (abi_dyn_at 32 d); [|discriminate].
  destruct (blen d <? 64 + 32); [discriminate|].
  destruct (blen d <? 96 + 32); [discriminate|].
  intros H. inversion H. split; apply word_at_nonneg; exact Hd.
Qed.

(* ================================================================================================ *)
(* the checkpoint in force at report time                                                           *)
(* ================================================================================================ *)
(* declaratively: the threshold of the latest checkpoint strictly before the aggregate's timestamp *)
Definition in_force (cs : list (Z * Z)) (ts thr : Z) : Prop :=
  exists t, In (t, thr) cs /\ 0 < t < ts /\ forall t' thr', In (t', thr') cs -> t' < ts -> t' <= t.

Lemma assoc_In {A} k (x : A) l : assoc k l = Some x -> In (k, x) l.
Proof.
  induction l as [|[k0 y] r IH]; cbn [assoc]; [discriminate|].
  destruct (k0 =? k) eqn:E.
  - apply Z.eqb_eq in E. subst. intros H. inversion H. left. reflexivity.
  - intros H. right. apply IH. exact H.
Qed.

Lemma ckpt_fold_spec ts : forall (cs : list (Z * Z)) acc,
  let b := fold_left (fun acc (kv : Z * Z) => if (fst kv <? ts) && (acc <? fst kv) then fst kv else acc) cs acc in
  acc <= b /\ (b = acc \/ b < ts) /\ (forall kv, In kv cs -> fst kv < ts -> fst kv <= b).
Proof.
  induction cs as [|kv r IH]; intros acc; cbn [fold_left].
  - split; [lia|]. split; [left; reflexivity|]. intros kv [].
  - specialize (IH (if (fst kv <? ts) && (acc <? fst kv) then fst kv else acc)).
    cbn zeta in IH. destruct IH as [I1 [I2 I3]].
    destruct ((fst kv <? ts) && (acc <? fst kv)) eqn:E.
    + apply andb_prop in E. destruct E as [E1 E2]. apply Z.ltb_lt in E1, E2.
      split; [lia|]. split; [right; destruct I2; lia|].
      intros kv' [->|Hin] Hlt; [lia | apply I3; assumption].
    + split; [lia|]. split; [exact I2|].
      intros kv' [<-|Hin] Hlt; [|apply I3; assumption].
      apply andb_false_iff in E. destruct E as [E|E]; [apply Z.ltb_ge in E; lia | apply Z.ltb_ge in E; lia].
Qed.

Lemma ckpt_before_in_force cs ts thr : ckpt_before cs ts = Some thr -> in_force cs ts thr.
Proof.
  unfold ckpt_before, ckpt_best. pose proof (ckpt_fold_spec ts cs 0) as H. cbn zeta in H.
  set (b := fold_left _ cs 0) in *. destruct H as [H1 [H2 H3]].
  destruct (b =? 0) eqn:E; [discriminate|]. apply Z.eqb_neq in E.
  intros Ha. exists b. split; [apply assoc_In; exact Ha|]. split; [destruct H2; lia|].
  intros t' thr' Hin Hlt. apply (H3 (t', thr') Hin Hlt).
Qed.

(* ================================================================================================ *)
(* ClaimDeposit                                                                                     *)
(* ================================================================================================ *)
(* what a decoded value is, in terms of the bytes of the report *)
Definition decodes_to (v : variant) (cf : cfg) (value : string) (r am tp : Z) : Prop :=
  exists d evm s x y,
    hex_decode (codes value) = Some d /\ abi_decode4 d = Some (evm, s, x, y) /\
    tbl_lookup (c_tbl cf) s = Some (Some r) /\ conv v x = Some am /\ conv v y = Some tp /\ 0 <= x /\ 0 <= y.

Lemma decode_deposit_inv v cf value r am tp :
  decode_deposit v cf value = DOk r am tp -> decodes_to v cf value r am tp.
Proof.
  unfold decode_deposit.
  destruct (hex_decode (codes value)) as [d|] eqn:Eh; [|discriminate].
  destruct (abi_decode4 d) as [[[[evm s] x] y]|] eqn:Ea; [|discriminate].
  destruct (tbl_lookup (c_tbl cf) s) as [[r'|]|] eqn:Et; try discriminate.
  destruct (conv v x) as [am'|] eqn:Ex; [|discriminate].
  destruct (conv v y) as [tp'|] eqn:Ey; [|discriminate].
  intros H. inversion H. subst.
  pose proof (hex_decode_bytes _ _ _ (le_n _) Eh) as Hb.
  destruct (abi_decode4_nonneg _ _ _ _ _ Hb Ea) as [Hx Hy].
  exists d, evm, s, x, y. repeat split; assumption.
Qed.

Lemma conv_repaired v x am : v_wide v = true -> conv v x = Some am -> am = x / E12.
Proof. unfold conv. intros ->. intros H. inversion H. reflexivity. Qed.

Lemma E12_pos : 0 < E12. Proof. reflexivity. Qed.

Lemma conv_as_found_small v x am : v_wide v = false -> 0 <= x -> x / E12 < 2 ^ 63 -> conv v x = Some am -> am = x / E12.
Proof.
  unfold conv, swrap64. intros -> Hx Hs.
  assert (0 <= x / E12) by (apply Z.div_pos; [exact Hx | reflexivity]).
  rewrite Z.mod_small by lia.
  replace (x / E12 + 2 ^ 63 - 2 ^ 63) with (x / E12) by lia.
  destruct (x / E12 <? 0); [discriminate|]. intros H'. inversion H'. reflexivity.
Qed.

Lemma conv_nonneg v x am : 0 <= x -> conv v x = Some am -> 0 <= am.
Proof.
  unfold conv. intros Hx. destruct (v_wide v).
  - intros H. inversion H. apply Z.div_pos; [exact Hx | reflexivity].
  - destruct (swrap64 (x / E12) <? 0) eqn:E; [discriminate|]. apply Z.ltb_ge in E. intros H. inversion H. subst. exact E.
Qed.

Record claim_facts (v : variant) (cf : cfg) (s : state) (claimer dep idx : Z) (s' : state)
       (cf_agg : agg) (cf_thr cf_r cf_am cf_tp : Z) : Prop := {
  cf_nth : nth_z (aggs_of s dep) idx = Some cf_agg;
  cf_unflagged : a_flagged cf_agg = false;
  cf_fresh : ~ In dep (s_claimed s);
  cf_ckpt : ckpt_before (s_ckpts s) (a_ts cf_agg) = Some cf_thr;
  cf_power : cf_thr <= a_power cf_agg;
  cf_age : TWELVE_H <= s_now s - a_ts cf_agg * MS;
  cf_dec : decodes_to v cf (a_value cf_agg) cf_r cf_am cf_tp;
  cf_tip_le : 0 <= cf_tp <= cf_am;
  cf_claimed : s_claimed s' = dep :: s_claimed s;
  cf_supply : s_supply s' = s_supply s + cf_am;
  cf_bridge : s_bridge s' = s_bridge s;
  cf_bal : forall a, bal_get (s_bal s') a =
                     bal_get (s_bal s) a + (if claimer =? a then cf_tp else 0) + (if cf_r =? a then cf_am - cf_tp else 0);
  cf_env : s_now s' = s_now s /\ s_aggs s' = s_aggs s /\ s_ckpts s' = s_ckpts s /\ s_bonded s' = s_bonded s /\
           s_wid s' = s_wid s /\ s_wpub s' = s_wpub s
}.

Lemma claim_deposit_inv v cf s claimer dep idx s' :
  claim_deposit v cf s claimer dep idx = Some s' ->
  exists a thr r am tp, claim_facts v cf s claimer dep idx s' a thr r am tp.
Proof.
  unfold claim_deposit.
  destruct (nth_z (aggs_of s dep) idx) as [a|] eqn:En; [|discriminate].
  destruct (a_flagged a) eqn:Ef; [discriminate|].
  destruct (zmem dep (s_claimed s)) eqn:Ec; [discriminate|].
  destruct (ckpt_before (s_ckpts s) (a_ts a)) as [thr|] eqn:Ek; [|discriminate].
  destruct (a_power a <? thr) eqn:Ep; [discriminate|]. apply Z.ltb_ge in Ep.
  destruct (s_now s - a_ts a * MS <? TWELVE_H) eqn:Ea; [discriminate|]. apply Z.ltb_ge in Ea.
  destruct (decode_deposit v cf (a_value a)) as [| |r am tp] eqn:Ed; try discriminate.
  assert (Hfresh : ~ In dep (s_claimed s)).
  { intros Hin. apply zmem_In in Hin. congruence. }
  pose proof (decode_deposit_inv _ _ _ _ _ _ Ed) as Hdec.
  assert (Htp0 : 0 <= tp).
  { destruct Hdec as [d [evm [str [x [y [_ [_ [_ [_ [Hy [_ Hy0]]]]]]]]]]]. eapply conv_nonneg; eassumption. }
  destruct (0 <? tp) eqn:Et.
  - apply Z.ltb_lt in Et. destruct (am <? tp) eqn:Eam; [discriminate|]. apply Z.ltb_ge in Eam.
    intros H. inversion H. subst s'. clear H.
    exists a, thr, r, am, tp. constructor; cbn; try assumption; try reflexivity; try lia.
    + intros a0. rewrite bal_get_add. destruct (r =? a0) eqn:E1; [apply Z.eqb_eq in E1; subst a0|];
        rewrite ?bal_get_add; destruct (claimer =? _) eqn:E2; try (apply Z.eqb_eq in E2; subst claimer); lia.
    + repeat split.
  - apply Z.ltb_ge in Et. assert (tp = 0) by lia. subst tp.
    intros H. inversion H. subst s'. clear H.
    assert (Ham : 0 <= am).
    { destruct Hdec as [d [evm [str [x [y [_ [_ [_ [Hx [_ [Hx0 _]]]]]]]]]]]. eapply conv_nonneg; eassumption. }
    exists a, thr, r, am, 0. constructor; cbn; try assumption; try reflexivity; try lia.
    + intros a0. rewrite bal_get_add. destruct (r =? a0) eqn:E1; [apply Z.eqb_eq in E1; subst a0|];
        rewrite ?bal_get_add; destruct (claimer =? _) eqn:E2; try (apply Z.eqb_eq in E2; subst claimer); lia.
    + repeat split.
Qed.

(* ---- what the property says about one successful claim -------------------------------------------- *)
(* only if: unflagged aggregate of that deposit's query, 12 h old, power >= threshold in force *)
Lemma claim_only_if v cf s claimer dep idx s' :
  claim_deposit v cf s claimer dep idx = Some s' ->
  exists a, nth_z (aggs_of s dep) idx = Some a /\ In a (aggs_of s dep) /\ a_flagged a = false /\
            ~ In dep (s_claimed s) /\
            TWELVE_H <= s_now s - a_ts a * MS /\
            exists thr, in_force (s_ckpts s) (a_ts a) thr /\ thr <= a_power a.
Proof.
  intros H. destruct (claim_deposit_inv _ _ _ _ _ _ _ H) as [a [thr [r [am [tp F]]]]].
  exists a. split; [apply F|]. split; [eapply nth_z_In; apply F|]. split; [apply F|]. split; [apply F|].
  split; [apply F|]. exists thr. split; [apply ckpt_before_in_force; apply F | apply F].
Qed.

(* exact amounts (repaired conversion): minted = amount / 10^12, claimer gets tip / 10^12, the
   recipient the difference; the bridge account is back where it was *)
Lemma claim_mint_exact v cf s claimer dep idx s' :
  v_wide v = true ->
  claim_deposit v cf s claimer dep idx = Some s' ->
  exists a d evm text x y r,
    nth_z (aggs_of s dep) idx = Some a /\
    hex_decode (codes (a_value a)) = Some d /\ abi_decode4 d = Some (evm, text, x, y) /\
    tbl_lookup (c_tbl cf) text = Some (Some r) /\
    y / E12 <= x / E12 /\
    s_supply s' = s_supply s + x / E12 /\
    s_bridge s' = s_bridge s /\
    forall acct, bal_get (s_bal s') acct =
                 bal_get (s_bal s) acct + (if claimer =? acct then y / E12 else 0)
                 + (if r =? acct then x / E12 - y / E12 else 0).
Proof.
  intros Hv H. destruct (claim_deposit_inv _ _ _ _ _ _ _ H) as [a [thr [r [am [tp F]]]]].
  destruct (cf_dec _ _ _ _ _ _ _ _ _ _ _ _ F) as [d [evm [text [x [y [Hh [Ha [Ht [Hx [Hy _]]]]]]]]]].
  apply (conv_repaired _ _ _ Hv) in Hx. apply (conv_repaired _ _ _ Hv) in Hy. subst am tp.
  exists a, d, evm, text, x, y, r.
  split; [apply F|]. split; [exact Hh|]. split; [exact Ha|]. split; [exact Ht|].
  split; [apply F|]. split; [apply F|]. split; [apply F|]. apply F.
Qed.

(* the code as found: the same under the side condition that both quotients fit int64 *)
Lemma claim_mint_exact_partial v cf s claimer dep idx s' :
  v_wide v = false ->
  claim_deposit v cf s claimer dep idx = Some s' ->
  exists a d evm text x y r,
    nth_z (aggs_of s dep) idx = Some a /\
    hex_decode (codes (a_value a)) = Some d /\ abi_decode4 d = Some (evm, text, x, y) /\
    tbl_lookup (c_tbl cf) text = Some (Some r) /\
    (x / E12 < 2 ^ 63 -> y / E12 < 2 ^ 63 ->
     y / E12 <= x / E12 /\
     s_supply s' = s_supply s + x / E12 /\
     s_bridge s' = s_bridge s /\
     forall acct, bal_get (s_bal s') acct =
                  bal_get (s_bal s) acct + (if claimer =? acct then y / E12 else 0)
                  + (if r =? acct then x / E12 - y / E12 else 0)).
Proof.
  intros Hv H. destruct (claim_deposit_inv _ _ _ _ _ _ _ H) as [a [thr [r [am [tp F]]]]].
  destruct (cf_dec _ _ _ _ _ _ _ _ _ _ _ _ F) as [d [evm [text [x [y [Hh [Ha [Ht [Hx [Hy [Hx0 Hy0]]]]]]]]]]].
  exists a, d, evm, text, x, y, r.
  split; [apply F|]. split; [exact Hh|]. split; [exact Ha|]. split; [exact Ht|].
  intros Sx Sy.
  apply (conv_as_found_small _ _ _ Hv Hx0 Sx) in Hx. apply (conv_as_found_small _ _ _ Hv Hy0 Sy) in Hy. subst am tp.
  split; [apply F|]. split; [apply F|]. split; [apply F|]. apply F.
Qed.

(* tip greater than amount: the transaction fails (Coins.Sub panics), nothing is minted *)
Lemma claim_tip_gt_amount_rejected v cf s claimer dep idx a r am tp :
  nth_z (aggs_of s dep) idx = Some a ->
  decode_deposit v cf (a_value a) = DOk r am tp -> am < tp ->
  claim_deposit v cf s claimer dep idx = None.
Proof.
  intros Hn Hd Hlt. unfold claim_deposit. rewrite Hn.
  destruct (a_flagged a); [reflexivity|]. destruct (zmem dep (s_claimed s)); [reflexivity|].
  destruct (ckpt_before (s_ckpts s) (a_ts a)); [|reflexivity].
  destruct (a_power a <? z); [reflexivity|]. destruct (s_now s - a_ts a * MS <? TWELVE_H); [reflexivity|].
  rewrite Hd.
  destruct (0 <? tp) eqn:E.
  - replace (am <? tp) with true by (symmetry; apply Z.ltb_lt; exact Hlt). reflexivity.
  - apply Z.ltb_ge in E.
    destruct (decode_deposit_inv _ _ _ _ _ _ Hd) as [d [evm [str [x [y [_ [_ [_ [Hx [_ [Hx0 _]]]]]]]]]]].
    pose proof (conv_nonneg _ _ _ Hx0 Hx). lia.
Qed.

(* ---- the batch ------------------------------------------------------------------------------------- *)
Lemma claim_loop_claimed v cf claimer : forall ds is_ s s',
  claim_loop v cf s claimer ds is_ = Some s' ->
  NoDup ds /\ (forall d, In d ds -> ~ In d (s_claimed s)) /\
  (forall d, In d (s_claimed s') <-> In d ds \/ In d (s_claimed s)) /\
  s_wid s' = s_wid s /\ s_wpub s' = s_wpub s /\ s_aggs s' = s_aggs s /\ s_ckpts s' = s_ckpts s /\ s_now s' = s_now s.
Proof.
  induction ds as [|d ds IH]; intros is_ s s' H.
  - cbn in H. inversion H. subst. split; [constructor|]. split; [intros d []|]. split; [intros d; cbn [In]; tauto|]. repeat split.
  - destruct is_ as [|i is_]; [discriminate|]. cbn [claim_loop] in H.
    destruct (claim_deposit v cf s claimer d i) as [s1|] eqn:E1; [|discriminate].
    destruct (claim_deposit_inv _ _ _ _ _ _ _ E1) as [a [thr [r [am [tp F]]]]].
    destruct (IH _ _ _ H) as [N [D [C [W1 [W2 [W3 [W4 W5]]]]]]].
    pose proof (cf_claimed _ _ _ _ _ _ _ _ _ _ _ _ F) as Hc.
    pose proof (cf_fresh _ _ _ _ _ _ _ _ _ _ _ _ F) as Hf.
    destruct (cf_env _ _ _ _ _ _ _ _ _ _ _ _ F) as [E_now [E_aggs [E_ck [_ [E_wid E_wpub]]]]].
    split.
    { constructor; [|exact N]. intros Hin. apply (D d Hin). rewrite Hc. left. reflexivity. }
    split.
    { intros d' [<-|Hin]; [exact Hf|]. intros Hin'. apply (D d' Hin). rewrite Hc. right. exact Hin'. }
    split.
    { intros d'. rewrite C, Hc. cbn [In]. tauto. }
    repeat split; congruence.
Qed.

Lemma claim_deposits_loop v cf s claimer ds is_ s' :
  claim_deposits v cf s claimer ds is_ = Some s' -> claim_loop v cf s claimer ds is_ = Some s'.
Proof. unfold claim_deposits. destruct (negb _); [discriminate | trivial]. Qed.

(* ---- WithdrawTokens -------------------------------------------------------------------------------- *)
Record withdraw_facts (v : variant) (cf : cfg) (s : state) (sender amount : Z) (rcpt : string) (s' : state)
       (rb text : bytes) : Prop := {
  wf_rcpt : hex_decode (codes rcpt) = Some rb;
  wf_rcpt20 : v_rcpt20 v = true -> blen rb = 20;
  wf_text : nth_z (c_addrs cf) sender = Some text;
  wf_pos : 0 < amount < 2 ^ 64;
  wf_funds : amount <= bal_get (s_bal s) sender;
  wf_supply : s_supply s' = s_supply s - amount;
  wf_bridge : s_bridge s' = s_bridge s;
  wf_bal : forall a, bal_get (s_bal s') a = bal_get (s_bal s) a - (if sender =? a then amount else 0);
  wf_id : s_wid s' = s_wid s + 1;
  wf_pub : s_wpub s' = {| w_id := s_wid s + 1; w_value := withdraw_value rb text amount;
                          w_power := s_bonded s; w_ts := s_now s / MS |} :: s_wpub s;
  wf_rest : s_claimed s' = s_claimed s /\ s_aggs s' = s_aggs s /\ s_ckpts s' = s_ckpts s /\ s_now s' = s_now s /\
            s_bonded s' = s_bonded s
}.

Lemma withdraw_inv v cf s sender dn amount rcpt s' :
  withdraw v cf s sender dn amount rcpt = Some s' ->
  dn = true /\ exists rb text, withdraw_facts v cf s sender amount rcpt s' rb text.
Proof.
  unfold withdraw.
  destruct dn; cbn [negb orb]; [|discriminate].
  destruct (amount <=? 0) eqn:E0; [discriminate|]. apply Z.leb_gt in E0.
  destruct (hex_decode (codes rcpt)) as [rb|] eqn:Eh; [|discriminate].
  destruct (v_rcpt20 v && negb (blen rb =? 20)) eqn:E20; [discriminate|].
  destruct (bal_get (s_bal s) sender <? amount) eqn:Eb; [discriminate|]. apply Z.ltb_ge in Eb.
  destruct (2 ^ 64 <=? amount) eqn:E64; [discriminate|]. apply Z.leb_gt in E64.
  destruct (2 ^ 64 <=? s_bonded s); [discriminate|].
  destruct (nth_z (c_addrs cf) sender) as [text|] eqn:Et; [|discriminate].
  intros H. inversion H. subst s'. clear H. split; [reflexivity|]. exists rb, text.
  constructor; cbn; try assumption; try reflexivity; try lia.
  - intros Hv. rewrite Hv in E20. cbn in E20. apply negb_false_iff in E20. apply Z.eqb_eq in E20. exact E20.
  - intros a. rewrite bal_get_add. destruct (sender =? a) eqn:E; [apply Z.eqb_eq in E; subst a|]; lia.
  - repeat split.
Qed.

(* the published value decodes to (recipient, sender text, amount, 0) *)
Lemma withdraw_value_decodes rb text amount :
  0 <= amount < 2 ^ 256 -> blen text < 2 ^ 256 ->
  abi_decode4 (withdraw_value rb text amount) = Some (addr_of rb, text, amount, 0).
Proof.
  intros Ha Ht. unfold withdraw_value. apply abi_decode_encode4; try lia.
  unfold addr_of. apply Z.mod_pos_bound. lia.
Qed.

Lemma addr_of_20 rb : is_bytes rb -> blen rb <= 20 -> addr_of rb = of_be rb.
Proof.
  intros Hb Hl. unfold addr_of. apply Z.mod_small.
  pose proof (of_be_bound rb Hb) as [H0 H1]. split; [exact H0|].
  eapply Z.lt_le_trans; [exact H1|].
  change (2 ^ 160) with (256 ^ 20). apply Z.pow_le_mono_r; [lia|]. unfold blen in Hl. lia.
Qed.

Lemma withdraw_encodes v cf s sender dn amount rcpt s' :
  v_rcpt20 v = true ->
  withdraw v cf s sender dn amount rcpt = Some s' ->
  exists rb text w rest,
    hex_decode (codes rcpt) = Some rb /\ blen rb = 20 /\ nth_z (c_addrs cf) sender = Some text /\
    s_wpub s' = w :: rest /\ rest = s_wpub s /\ w_id w = s_wid s + 1 /\
    (blen text < 2 ^ 256 -> abi_decode4 (w_value w) = Some (of_be rb, text, amount, 0)).
Proof.
  intros Hv H. destruct (withdraw_inv _ _ _ _ _ _ _ _ H) as [_ [rb [text F]]].
  exists rb, text, {| w_id := s_wid s + 1; w_value := withdraw_value rb text amount; w_power := s_bonded s; w_ts := s_now s / MS |}, (s_wpub s).
  split; [apply F|]. split; [apply F; exact Hv|]. split; [apply F|]. split; [apply F|]. split; [reflexivity|].
  split; [reflexivity|]. intros Ht. cbn [w_value].
  rewrite withdraw_value_decodes; [|pose proof (wf_pos _ _ _ _ _ _ _ _ _ F); lia | exact Ht].
  rewrite addr_of_20; [reflexivity | | pose proof (wf_rcpt20 _ _ _ _ _ _ _ _ _ F Hv); lia].
  eapply hex_decode_bytes; [apply le_n | apply F].
Qed.

(* ---- histories ------------------------------------------------------------------------------------- *)
Definition run (v : variant) (cf : cfg) (s : state) (ops : list op) : state := fold_left (hstep v cf) ops s.

(* the deposit ids minted for, in order, along a history *)
Definition minted_by (v : variant) (cf : cfg) (s : state) (o : op) : list Z :=
  match o with
  | OClaim c ds is_ => match claim_deposits v cf s c ds is_ with Some _ => ds | None => [] end
  | _ => []
  end.
Fixpoint trace (v : variant) (cf : cfg) (s : state) (ops : list op) : list Z :=
  match ops with
  | [] => []
  | o :: r => minted_by v cf s o ++ trace v cf (hstep v cf s o) r
  end.

Lemma step_env_claimed s o : s_claimed (step_env s o) = s_claimed s.
Proof. destruct o; cbn; try reflexivity. destruct ((0 <=? idx) && _); reflexivity. Qed.

Lemma withdraw_claimed v cf s a dn amt rc s' : withdraw v cf s a dn amt rc = Some s' -> s_claimed s' = s_claimed s.
Proof. intros H. destruct (withdraw_inv _ _ _ _ _ _ _ _ H) as [_ [rb [text F]]]. apply F. Qed.

Lemma NoDup_app_disjoint {A} (a b : list A) :
  NoDup a -> NoDup b -> (forall x, In x a -> ~ In x b) -> NoDup (a ++ b).
Proof.
  induction a as [|x a IH]; intros Ha Hb Hd; cbn [app]; [exact Hb|].
  inversion Ha as [|? ? Hx Ha']. subst. constructor.
  - intros Hin. apply in_app_or in Hin. destruct Hin as [Hin|Hin]; [exact (Hx Hin)|].
    apply (Hd x); [left; reflexivity | exact Hin].
  - apply IH; [exact Ha' | exact Hb |]. intros y Hy. apply Hd. right. exact Hy.
Qed.

Lemma trace_once v cf : forall ops s,
  NoDup (trace v cf s ops) /\ forall d, In d (s_claimed s) -> ~ In d (trace v cf s ops).
Proof.
  induction ops as [|o r IH]; intros s; cbn [trace].
  - split; [constructor | intros d _ []].
  - destruct (IH (hstep v cf s o)) as [N D].
    destruct o; cbn [minted_by app];
      try (split; [exact N | intros d Hd; apply D; cbn [hstep]; rewrite ?step_env_claimed; exact Hd]).
    + (* claim *)
      cbn [hstep] in *. destruct (claim_deposits v cf s claimer deps idxs) as [s'|] eqn:E; cbn [or_same app] in *.
      * apply claim_deposits_loop in E.
        destruct (claim_loop_claimed _ _ _ _ _ _ _ E) as [Nd [Fr [Cl _]]].
        split.
        { apply NoDup_app_disjoint; [exact Nd | exact N |].
          intros d Hd Ht. apply (D d); [apply Cl; left; exact Hd | exact Ht]. }
        { intros d Hd Hin. apply in_app_or in Hin. destruct Hin as [Hin|Hin].
          - apply (Fr d Hin Hd).
          - apply (D d); [apply Cl; right; exact Hd | exact Hin]. }
      * split; [exact N | intros d Hd; apply D; exact Hd].
    + (* withdraw *)
      cbn [hstep] in *. destruct (withdraw v cf s sender denom_ok amount rcpt) as [s'|] eqn:E; cbn [or_same] in *.
      * split; [exact N | intros d Hd; apply D; rewrite (withdraw_claimed _ _ _ _ _ _ _ _ E); exact Hd].
      * split; [exact N | intros d Hd; apply D; exact Hd].
Qed.

(* ---- withdrawal ids: fresh and strictly increasing over every history -------------------------------- *)
Definition wids_ok (s : state) : Prop :=
  StronglySorted (fun a b => w_id b < w_id a) (s_wpub s) /\ Forall (fun w => w_id w <= s_wid s) (s_wpub s).

Lemma step_env_w s o : s_wid (step_env s o) = s_wid s /\ s_wpub (step_env s o) = s_wpub s.
Proof. destruct o; cbn; try (split; reflexivity). destruct ((0 <=? idx) && _); split; reflexivity. Qed.

Lemma hstep_wids_ok v cf s o : wids_ok s -> wids_ok (hstep v cf s o).
Proof.
  intros [Hs Hf]. destruct o; cbn [hstep];
    try (unfold wids_ok; destruct (step_env_w s ltac:(eassumption || idtac)); fail).
  - unfold wids_ok. destruct (step_env_w s (OTime now)) as [-> ->]. split; assumption.
  - unfold wids_ok. destruct (step_env_w s (OAgg dep ts value power flagged)) as [-> ->]. split; assumption.
  - unfold wids_ok. destruct (step_env_w s (OFlag dep idx)) as [-> ->]. split; assumption.
  - unfold wids_ok. destruct (step_env_w s (OCkpt ts thr)) as [-> ->]. split; assumption.
  - destruct (claim_deposits v cf s claimer deps idxs) as [s'|] eqn:E; cbn [or_same]; [|split; assumption].
    apply claim_deposits_loop in E. destruct (claim_loop_claimed _ _ _ _ _ _ _ E) as [_ [_ [_ [W1 [W2 _]]]]].
    unfold wids_ok. rewrite W1, W2. split; assumption.
  - destruct (withdraw v cf s sender denom_ok amount rcpt) as [s'|] eqn:E; cbn [or_same]; [|split; assumption].
    destruct (withdraw_inv _ _ _ _ _ _ _ _ E) as [_ [rb [text F]]].
    unfold wids_ok. rewrite (wf_pub _ _ _ _ _ _ _ _ _ F), (wf_id _ _ _ _ _ _ _ _ _ F). split.
    + constructor; [exact Hs|]. rewrite Forall_forall in *. intros w Hw. cbn [w_id]. specialize (Hf w Hw). cbn beta in Hf. lia.
    + constructor; [cbn [w_id]; lia|]. rewrite Forall_forall in *. intros w Hw. specialize (Hf w Hw). cbn beta in *. lia.
  - split; assumption.
Qed.

Lemma run_wids_ok v cf ops : forall s, wids_ok s -> wids_ok (run v cf s ops).
Proof.
  unfold run. induction ops as [|o r IH]; intros s H; cbn [fold_left]; [exact H|].
  apply IH. apply hstep_wids_ok. exact H.
Qed.

(* an accepted withdrawal takes an id above every id handed out before *)
Lemma withdraw_id_fresh v cf s sender dn amount rcpt s' :
  wids_ok s -> withdraw v cf s sender dn amount rcpt = Some s' ->
  exists w, s_wpub s' = w :: s_wpub s /\ w_id w = s_wid s + 1 /\ s_wid s' = w_id w /\
            forall w', In w' (s_wpub s) -> w_id w' < w_id w.
Proof.
  intros [_ Hf] H. destruct (withdraw_inv _ _ _ _ _ _ _ _ H) as [_ [rb [text F]]].
  eexists. split; [apply F|]. cbn [w_id]. split; [reflexivity|]. split; [apply F|].
  intros w' Hw. rewrite Forall_forall in Hf. specialize (Hf w' Hw). cbn beta in Hf. lia.
Qed.

(* ---- the withdrawal blocker ------------------------------------------------------------------------------ *)
Definition qprefix (tl : bool) : bytes :=
  word 64 ++ word 128 ++ word 9 ++ pad32 TRBBridge ++ word 64 ++ word (if tl then 1 else 0).

Lemma bridge_qdata_split tl id : bridge_qdata tl id = qprefix tl ++ word id.
Proof. unfold bridge_qdata, qprefix. rewrite <- !app_assoc. reflexivity. Qed.

Lemma qprefix_len tl : blen (qprefix tl) = 192.
Proof. destruct tl; reflexivity. Qed.

Lemma slice_span a b off n :
  0 <= off <= blen a -> n = blen a - off + blen b -> slice off n (a ++ b) = skipn (Z.to_nat off) a ++ b.
Proof.
  intros Ho Hn. unfold slice, blen in *. rewrite skipn_app.
  replace (Z.to_nat off - List.length a)%nat with 0%nat by lia. cbn [skipn].
  apply firstn_all2. rewrite app_length, skipn_length. lia.
Qed.

Lemma word_at_prefix tl id off : 0 <= off -> off + 32 <= 192 ->
  word_at off (qprefix tl ++ word id) = word_at off (qprefix tl).
Proof. intros H0 H1. unfold word_at. rewrite slice_within; [reflexivity | lia | lia | rewrite qprefix_len; lia]. Qed.

Lemma dyn_name tl id : abi_dyn_at 0 (qprefix tl ++ word id) = Some TRBBridge.
Proof.
  unfold abi_dyn_at. rewrite blen_app, blen_word, qprefix_len.
  change (192 + 32 <? 0 + 32) with false. cbn iota.
  rewrite word_at_prefix by lia.
  replace (word_at 0 (qprefix tl)) with 64 by (destruct tl; reflexivity).
  change (192 + 32 <? 64 + 32) with false. cbn iota. change (64 + 32 - 32) with 64.
  rewrite word_at_prefix by lia.
  replace (word_at 64 (qprefix tl)) with 9 by (destruct tl; reflexivity).
  change (192 + 32 <? 64 + 32 + 9) with false. cbn iota.
  rewrite slice_within by (rewrite ?qprefix_len; lia).
  destruct tl; reflexivity.
Qed.

Lemma dyn_args tl id :
  abi_dyn_at 32 (qprefix tl ++ word id) = Some (word (if tl then 1 else 0) ++ word id).
Proof.
  unfold abi_dyn_at. rewrite blen_app, blen_word, qprefix_len.
  change (192 + 32 <? 32 + 32) with false. cbn iota.
  rewrite word_at_prefix by lia.
  replace (word_at 32 (qprefix tl)) with 128 by (destruct tl; reflexivity).
  change (192 + 32 <? 128 + 32) with false. cbn iota. change (128 + 32 - 32) with 128.
  rewrite word_at_prefix by lia.
  replace (word_at 128 (qprefix tl)) with 64 by (destruct tl; reflexivity).
  change (192 + 32 <? 128 + 32 + 64) with false. cbn iota.
  rewrite slice_span by (rewrite ?qprefix_len, ?blen_word; lia).
  f_equal; try (destruct tl; reflexivity).
Qed.

Lemma blocker_canonical tl id : blocker (bridge_qdata tl id) = if tl then BDeposit else BReject.
Proof.
  rewrite bridge_qdata_split. unfold blocker. rewrite dyn_name, dyn_args.
  change (bytes_eqb TRBBridge TRBBridge) with true. cbn [negb].
  unfold abi_bool_at, abi_word_at. rewrite blen_app, !blen_word.
  change (32 + 32 <? 0 + 32) with false. change (32 + 32 <? 32 + 32) with false. cbn iota.
  unfold word_at. rewrite slice_head by apply blen_word.
  destruct tl.
  - replace (of_be (word 1)) with 1 by reflexivity. reflexivity.
  - replace (of_be (word 0)) with 0 by reflexivity. reflexivity.
Qed.

(* what the oracle's SubmitValue does with the blocker's answer: an error is a rejection *)
Definition submit_passes_blocker (qd : bytes) : bool :=
  match blocker qd with BReject => false | _ => true end.

Lemma no_report_for_withdrawal_query id : submit_passes_blocker (bridge_qdata false id) = false.
Proof. unfold submit_passes_blocker. rewrite blocker_canonical. reflexivity. Qed.

Lemma deposit_query_passes id : submit_passes_blocker (bridge_qdata true id) = true.
Proof. unfold submit_passes_blocker. rewrite blocker_canonical. reflexivity. Qed.

(* submissions never touch the bridge-token state; withdrawal aggregates come from withdrawals only *)
Lemma wpub_only_by_withdraw v cf s o :
  s_wpub (hstep v cf s o) <> s_wpub s ->
  exists sender dn amount rcpt s', o = OWithdraw sender dn amount rcpt /\ withdraw v cf s sender dn amount rcpt = Some s'.
Proof.
  destruct o; cbn [hstep]; intros H;
    try (exfalso; apply H; apply (step_env_w s); fail).
  - exfalso. apply H. destruct (claim_deposits v cf s claimer deps idxs) as [s'|] eqn:E; cbn [or_same]; [|reflexivity].
    apply claim_deposits_loop in E. destruct (claim_loop_claimed _ _ _ _ _ _ _ E) as [_ [_ [_ [_ [W2 _]]]]]. exact W2.
  - destruct (withdraw v cf s sender denom_ok amount rcpt) as [s'|] eqn:E; cbn [or_same] in H; [|exfalso; apply H; reflexivity].
    exists sender, denom_ok, amount, rcpt, s'. split; [reflexivity | exact E].
  - exfalso. apply H. reflexivity.
Qed.

(* ================================================================================================ *)
(* concrete witnesses: non-vacuity and the two refuted clauses of the code as found                 *)
(* ================================================================================================ *)
Definition str_of (l : list Z) : string :=
  string_of_list_ascii (map (fun c => Ascii.ascii_of_N (Z.to_N c)) l).

Definition wit_text : bytes := [116; 49].                               (* the recipient string "t1" *)
Definition wit_cfg : cfg := {| c_tbl := [(wit_text, Some 1)]; c_addrs := [[116; 48]; wit_text]; c_deps := [7] |}.
Definition wit_value (amount tip : Z) : string := str_of (hex_encode (abi_encode4 225 wit_text amount tip)).
Definition wit_state (amount tip : Z) : state :=
  {| s_now := 1000 * MS + TWELVE_H;
     s_aggs := [(7, [{| a_ts := 1000; a_value := wit_value amount tip; a_power := 10; a_flagged := false |}])];
     s_ckpts := [(400, 99); (500, 10); (1000, 11)];
     s_claimed := []; s_bal := [(0, 50); (1, 3)]; s_supply := 1000; s_bridge := 0; s_bonded := 77; s_wid := 4; s_wpub := [] |}.

(* 100 TRB with 1 TRB tip (in wei): 10^8 loya minted, 10^6 to the claimer 0, the rest to account 1 *)
Example claim_example :
  exists s', claim_deposit repaired wit_cfg (wit_state (100 * 10 ^ 18) (10 ^ 18)) 0 7 0 = Some s' /\
             s_supply s' = 1000 + 100000000 /\ bal_get (s_bal s') 0 = 50 + 1000000 /\
             bal_get (s_bal s') 1 = 3 + 99000000 /\ s_claimed s' = [7].
Proof. eexists. split; [vm_compute; reflexivity|]. vm_compute. repeat split. Qed.

Example claim_twice_example :
  trace repaired wit_cfg (wit_state (100 * 10 ^ 18) (10 ^ 18)) [OClaim 0 [7] [0]; OClaim 1 [7] [0]; OClaim 0 [7; 7] [0; 0]] = [7].
Proof. vm_compute. reflexivity. Qed.

(* one nanosecond too young; power one below the threshold in force (checkpoint 500 -> 11 needs a_power >= 11) *)
Example claim_boundaries :
  claim_deposit repaired wit_cfg (set_env (wit_state (10 ^ 18) 0) (1000 * MS + TWELVE_H - 1) (s_aggs (wit_state (10 ^ 18) 0)) (s_ckpts (wit_state (10 ^ 18) 0))) 0 7 0 = None /\
  claim_deposit repaired wit_cfg (set_env (wit_state (10 ^ 18) 0) (s_now (wit_state (10 ^ 18) 0)) (s_aggs (wit_state (10 ^ 18) 0)) [(400, 99); (500, 10); (999, 11); (1000, 1)]) 0 7 0 = None /\
  (exists s', claim_deposit repaired wit_cfg (wit_state (10 ^ 18) 0) 0 7 0 = Some s').
Proof. split; [vm_compute; reflexivity|]. split; [vm_compute; reflexivity|]. eexists. vm_compute. reflexivity. Qed.

(* F26: amount = (2^64 + 5) * 10^12 wei; the code as found mints 5 loya *)
Lemma huge_amount_refuted :
  exists cf s claimer dep idx s' a d evm text x y,
    claim_deposit as_found cf s claimer dep idx = Some s' /\
    nth_z (aggs_of s dep) idx = Some a /\ hex_decode (codes (a_value a)) = Some d /\
    abi_decode4 d = Some (evm, text, x, y) /\
    s_supply s' <> s_supply s + x / E12.
Proof.
  exists wit_cfg, (wit_state ((2 ^ 64 + 5) * E12) 0), 0, 7, 0.
  eexists. eexists. eexists. eexists. eexists. eexists. eexists.
  split; [vm_compute; reflexivity|]. split; [vm_compute; reflexivity|].
  split; [vm_compute; reflexivity|]. split; [vm_compute; reflexivity|].
  vm_compute. intros H. discriminate H.
Qed.

(* the repaired conversion mints the full amount on the same input *)
Example huge_amount_repaired :
  exists s', claim_deposit repaired wit_cfg (wit_state ((2 ^ 64 + 5) * E12) 0) 0 7 0 = Some s' /\
             s_supply s' = 1000 + 2 ^ 64 + 5.
Proof. eexists. split; vm_compute; reflexivity. Qed.

(* F45: a 21-byte recipient aa 00..00 e1 is accepted by the code as found and attested as 00..00 e1 *)
Definition wit_rcpt21 : string := "aa00000000000000000000000000000000000000e1".
Definition wit_rcpt20 : string := "00000000000000000000000000000000000000e1".

Lemma long_recipient_refuted :
  exists cf s sender amount rcpt s' rb w evm text x y,
    withdraw as_found cf s sender true amount rcpt = Some s' /\
    hex_decode (codes rcpt) = Some rb /\ head (s_wpub s') = Some w /\
    abi_decode4 (w_value w) = Some (evm, text, x, y) /\ evm <> of_be rb.
Proof.
  exists wit_cfg, (wit_state 0 0), 0, 9, wit_rcpt21.
  eexists. eexists. eexists. eexists. eexists. eexists. eexists.
  split; [vm_compute; reflexivity|]. split; [vm_compute; reflexivity|].
  split; [vm_compute; reflexivity|]. split; [vm_compute; reflexivity|].
  vm_compute. intros H. discriminate H.
Qed.

Example withdraw_example :
  withdraw repaired wit_cfg (wit_state 0 0) 0 true 9 wit_rcpt21 = None /\
  exists s' w, withdraw repaired wit_cfg (wit_state 0 0) 0 true 9 wit_rcpt20 = Some s' /\
               s_wpub s' = [w] /\ w_id w = 5 /\ s_supply s' = 991 /\ bal_get (s_bal s') 0 = 41 /\
               abi_decode4 (w_value w) = Some (225, [116; 48], 9, 0).
Proof.
  split; [vm_compute; reflexivity|]. eexists. eexists. split; [vm_compute; reflexivity|].
  split; [vm_compute; reflexivity|]. vm_compute. repeat split.
Qed.

(* ================================================================================================ *)
(* soundness of the executable specification used by c14_check                                      *)
(* ================================================================================================ *)
Definition grant_ok (cf : cfg) (s : state) (dep idx : Z) (g : grant) : Prop :=
  exists a thr d evm text x y,
    nth_z (aggs_of s dep) idx = Some a /\ a_flagged a = false /\
    in_force (s_ckpts s) (a_ts a) thr /\ thr <= a_power a /\ TWELVE_H <= s_now s - a_ts a * MS /\
    hex_decode (codes (a_value a)) = Some d /\ abi_decode4 d = Some (evm, text, x, y) /\
    tbl_lookup (c_tbl cf) text = Some (Some (g_rcpt g)) /\
    g_amount g = x / E12 /\ g_tip g = y / E12 /\ g_tip g <= g_amount g.

Lemma claim_grant_sound cf s dep idx g : claim_grant cf s dep idx = Some g -> grant_ok cf s dep idx g.
Proof.
  unfold claim_grant, in_force_ok.
  destruct (nth_z (aggs_of s dep) idx) as [a|] eqn:En; [|discriminate].
  destruct (a_flagged a) eqn:Ef; cbn [negb andb]; [discriminate|].
  destruct (ckpt_before (s_ckpts s) (a_ts a)) as [thr|] eqn:Ek; cbn [andb]; [|discriminate].
  destruct (thr <=? a_power a) eqn:Ep; cbn [andb]; [|discriminate]. apply Z.leb_le in Ep.
  destruct (TWELVE_H <=? s_now s - a_ts a * MS) eqn:Ea; [|discriminate]. apply Z.leb_le in Ea.
  destruct (decode_deposit repaired cf (a_value a)) as [| |r am tp] eqn:Ed; try discriminate.
  destruct (tp <=? am) eqn:Et; [|discriminate]. apply Z.leb_le in Et.
  intros H. inversion H. subst g. clear H.
  destruct (decode_deposit_inv _ _ _ _ _ _ Ed) as [d [evm [text [x [y [Hh [Ha [Htb [Hx [Hy _]]]]]]]]]].
  apply (conv_repaired repaired) in Hx; [|reflexivity]. apply (conv_repaired repaired) in Hy; [|reflexivity].
  exists a, thr, d, evm, text, x, y. cbn [g_rcpt g_amount g_tip].
  repeat split; try assumption. apply ckpt_before_in_force. exact Ek.
Qed.

Lemma grants_sound cf s : forall ds is_ gs,
  grants cf s ds is_ = Some gs ->
  List.length ds = List.length is_ /\
  Forall2 (fun di g => grant_ok cf s (fst di) (snd di) g) (combine ds is_) gs.
Proof.
  induction ds as [|d ds IH]; intros [|i is_] gs H; cbn [grants] in H; try discriminate.
  - inversion H. split; [reflexivity | constructor].
  - destruct (claim_grant cf s d i) as [g|] eqn:Eg; [|discriminate].
    destruct (grants cf s ds is_) as [gs'|] eqn:Egs; [|discriminate].
    inversion H. subst gs. destruct (IH _ _ Egs) as [Hl Hf].
    split; [cbn; lia|]. cbn [combine]. constructor; [apply claim_grant_sound; exact Eg | exact Hf].
Qed.

Lemma nodup_z_sound l : nodup_z l = true -> NoDup l.
Proof.
  induction l as [|x r IH]; intros H; [constructor|]. cbn [nodup_z] in H. apply andb_prop in H. destruct H as [H1 H2].
  constructor; [|apply IH; exact H2]. intros Hin. apply zmem_In in Hin. rewrite Hin in H1. discriminate.
Qed.

(* an accepted ClaimDeposits message on which the check is silent: what it establishes about the
   implementation's own observation [o] (pre = the implementation's state before the message) *)
Lemma claim_spec_sound cf pre minted claimer ds is_ o :
  claim_spec cf pre minted claimer ds is_ o = [] ->
  NoDup ds /\ (forall d, In d ds -> ~ In d minted) /\
  exists gs, List.length ds = List.length is_ /\
             Forall2 (fun di g => grant_ok cf pre (fst di) (snd di) g) (combine ds is_) gs /\
             o_supply o = s_supply pre + sum_amount gs /\
             o_bridge o = s_bridge pre /\
             forall a, In a (accounts o) -> bal_get (bals_of 0 (o_bals o)) a = bal_get (s_bal pre) a + credit claimer a gs.
Proof.
  unfold claim_spec. intros H. apply app_nil_both in H. destruct H as [H1 H2].
  apply spec_if_nil in H1. apply andb_prop in H1. destruct H1 as [Hn Hm].
  split; [apply nodup_z_sound; exact Hn|]. split.
  { intros d Hd Hin. rewrite forallb_forall in Hm. specialize (Hm d Hd). apply negb_true_iff in Hm.
    apply zmem_In in Hin. congruence. }
  destruct (grants cf pre ds is_) as [gs|] eqn:Eg; [|discriminate].
  apply app_nil_both in H2. destruct H2 as [Hs H2]. apply app_nil_both in H2. destruct H2 as [Hb Hbr].
  apply spec_if_nil in Hs, Hb, Hbr. apply Z.eqb_eq in Hs, Hbr.
  destruct (grants_sound _ _ _ _ _ Eg) as [Hl Hf].
  exists gs. split; [exact Hl|]. split; [exact Hf|]. split; [exact Hs|]. split; [exact Hbr|].
  intros a Ha. rewrite forallb_forall in Hb. specialize (Hb a Ha). apply Z.eqb_eq in Hb. exact Hb.
Qed.

Lemma withdraw_spec_sound cf pre pre_o maxid sender dn amount rcpt o :
  withdraw_spec cf pre pre_o maxid sender dn amount rcpt o = [] ->
  dn = true /\ 0 < amount /\
  o_supply o = s_supply pre - amount /\ o_bridge o = s_bridge pre /\
  (forall a, In a (accounts o) -> bal_get (bals_of 0 (o_bals o)) a = bal_get (s_bal pre) a - (if a =? sender then amount else 0)) /\
  exists id value power ts nrep rb d text,
    o_w o = WPub id value power ts false nrep /\ maxid < id /\ o_wid o = id /\ o_naggs o = o_naggs pre_o + 1 /\
    hex_decode (codes rcpt) = Some rb /\ hex_decode (codes value) = Some d /\ nth_z (c_addrs cf) sender = Some text /\
    abi_decode4 d = Some (of_be rb, text, amount, 0).
Proof.
  unfold withdraw_spec. intros H.
  apply app_nil_both in H. destruct H as [H1 H]. apply app_nil_both in H. destruct H as [H2 H3].
  apply spec_if_nil in H1, H2. apply andb_prop in H1. destruct H1 as [Hd Hp]. apply Z.ltb_lt in Hp.
  apply andb_prop in H2. destruct H2 as [H2 Hbr]. apply andb_prop in H2. destruct H2 as [Hb Hs].
  apply Z.eqb_eq in Hs, Hbr.
  split; [exact Hd|]. split; [exact Hp|]. split; [exact Hs|]. split; [exact Hbr|].
  split. { intros a Ha. rewrite forallb_forall in Hb. specialize (Hb a Ha). apply Z.eqb_eq in Hb. exact Hb. }
  destruct (o_w o) as [|id value power ts fl nrep] eqn:Ew; [discriminate|].
  apply app_nil_both in H3. destruct H3 as [Hid H3]. apply app_nil_both in H3. destruct H3 as [Hone H3].
  apply spec_if_nil in Hid, Hone. apply andb_prop in Hid. destruct Hid as [Hi1 Hi2]. apply Z.ltb_lt in Hi1. apply Z.eqb_eq in Hi2.
  apply andb_prop in Hone. destruct Hone as [Hn Hfl]. apply Z.eqb_eq in Hn. apply negb_true_iff in Hfl. subst fl.
  destruct (hex_decode (codes rcpt)) as [rb|] eqn:Er; [|discriminate].
  destruct (hex_decode (codes value)) as [d|] eqn:Ev; [|discriminate].
  destruct (nth_z (c_addrs cf) sender) as [text|] eqn:Et; [|discriminate].
  destruct (abi_decode4 d) as [[[[a s] x] y]|] eqn:Ea; [|discriminate].
  apply app_nil_both in H3. destruct H3 as [Ha H3]. apply app_nil_both in H3. destruct H3 as [Hse Ham].
  apply spec_if_nil in Ha, Hse, Ham. apply Z.eqb_eq in Ha. apply andb_prop in Ham. destruct Ham as [Hx Hy].
  apply Z.eqb_eq in Hx, Hy.
  assert (s = text).
  { symmetry. apply (list_eqb_eq Z.eqb); [intros p q Hpq; apply Z.eqb_eq; exact Hpq|].
    unfold bytes_eqb in Hse. revert Hse. clear. revert text. induction s as [|c s IH]; intros [|t text]; cbn; intros H; try discriminate; [reflexivity|].
    apply andb_prop in H. destruct H as [H1 H2]. rewrite Z.eqb_sym, H1. cbn. apply IH. exact H2. }
  subst a x y s. exists id, value, power, ts, nrep, rb, d, text.
  repeat split; try assumption; try reflexivity.
Qed.

Lemma withdraw_burns_exact v cf s sender dn amount rcpt s' :
  withdraw v cf s sender dn amount rcpt = Some s' ->
  dn = true /\ 0 < amount /\ amount <= bal_get (s_bal s) sender /\
  s_supply s' = s_supply s - amount /\ s_bridge s' = s_bridge s /\
  forall a, bal_get (s_bal s') a = bal_get (s_bal s) a - (if sender =? a then amount else 0).
Proof.
  intros H. destruct (withdraw_inv _ _ _ _ _ _ _ _ H) as [Hd [rb [text F]]].
  split; [exact Hd|]. split; [pose proof (wf_pos _ _ _ _ _ _ _ _ _ F); lia|].
  split; [apply F|]. split; [apply F|]. split; [apply F|]. apply F.
Qed.

Lemma claim_batch v cf s claimer ds is_ s' :
  claim_deposits v cf s claimer ds is_ = Some s' ->
  NoDup ds /\ (forall d, In d ds -> ~ In d (s_claimed s)) /\
  (forall d, In d (s_claimed s') <-> In d ds \/ In d (s_claimed s)).
Proof.
  intros H. apply claim_deposits_loop in H. destruct (claim_loop_claimed _ _ _ _ _ _ _ H) as [A [B [C _]]].
  split; [exact A|]. split; [exact B | exact C].
Qed.

(* a rejected message leaves the state untouched: by construction of hstep *)
Lemma rejected_is_noop v cf s o :
  (forall c ds is_, o = OClaim c ds is_ -> claim_deposits v cf s c ds is_ = None) ->
  (forall a dn amt rc, o = OWithdraw a dn amt rc -> withdraw v cf s a dn amt rc = None) ->
  is_env o = false -> hstep v cf s o = s.
Proof.
  intros Hc Hw He. destruct o; cbn in He; try discriminate; cbn [hstep].
  - rewrite (Hc _ _ _ eq_refl). reflexivity.
  - rewrite (Hw _ _ _ _ eq_refl). reflexivity.
  - reflexivity.
Qed.

(* the check on a history whose next step is an accepted claim / withdrawal contains the specification *)
Lemma check_steps_claim v cf pre pre_o minted maxid c ds is_ o r :
  check_steps v cf pre pre_o minted maxid (SClaim c ds is_ o :: r) = [] -> o_ok o = true ->
  claim_spec cf pre minted c ds is_ o = [].
Proof.
  cbn [check_steps]. intros H Hok. rewrite Hok in H. apply app_nil_both in H. destruct H as [H _]. exact H.
Qed.

Lemma check_steps_withdraw v cf pre pre_o minted maxid a dn amt rc o r :
  check_steps v cf pre pre_o minted maxid (SWithdraw a dn amt rc o :: r) = [] -> o_ok o = true ->
  withdraw_spec cf pre pre_o maxid a dn amt rc o = [].
Proof.
  cbn [check_steps]. intros H Hok. rewrite Hok in H. apply app_nil_both in H. destruct H as [H _]. exact H.
Qed.

Lemma check_steps_submit v cf pre pre_o minted maxid id o r :
  check_steps v cf pre pre_o minted maxid (SSubmit true id o :: r) = [] -> o_ok o = false.
Proof.
  cbn [check_steps]. intros H. apply app_nil_both in H. destruct H as [H _].
  apply app_nil_both in H. destruct H as [H _]. apply spec_if_nil in H. apply negb_true_iff in H. exact H.
Qed.
