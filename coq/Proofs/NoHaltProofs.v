(* C02 — "block processing never fails", proved over the executable models of the block-processing
   code paths.  Each model is tied to the Go code by the correspondence check of the property that
   owns it (C07 oracle rounds, C16 bridge validator sets, C17 proposal handlers, C03 mint, C12 dispute
   lifecycle, C11 slashing, C13 dispute settlement); in the models a failing Begin/End/PreBlocker is
   [None] / an error constructor / an error code.

   One sub-module per model: the models share names ([step], [run], [op], [state] ...), so each
   sub-module imports its own model locally and nothing is imported at top level.  New definitions are
   only those needed to state the theorems (invariants, schedules, "every block step succeeds"). *)
From Coq Require Import ZArith List Bool Lia String.
From Verif Require Import Base.Harness.
From Verif Require Model.OracleRound Model.OracleRoundCheck Proofs.OracleRoundProofs Proofs.OracleRoundInv
                   Proofs.OracleRoundDistinct.
From Verif Require Model.BridgeValset Proofs.BridgeValsetProofs.
From Verif Require Model.Proposal Proofs.ProposalProofs.
From Verif Require Model.Mint Proofs.MintProofs.
From Verif Require Model.DisputeTally Proofs.DisputeTallyProofs.
From Verif Require Model.Slash.
From Verif Require Base.Dec Model.DisputeSettle Proofs.DisputeSettleProofs.
Import ListNotations.
Open Scope Z_scope.

(* ============================================================================================== *)
(*  x/oracle EndBlocker (SetAggregatedReport, RotateQueries) — Model/OracleRound.v, owner C07      *)
(* ============================================================================================== *)
Module Oracle.
Import Model.OracleRound Model.OracleRoundCheck Proofs.OracleRoundProofs Proofs.OracleRoundInv
       Proofs.OracleRoundDistinct.

(* the query has a registered data spec: InitializeQuery finds its report window *)
Definition specd (qinfos : list qinfo) (q : Z) : bool :=
  match kind_of qinfos q with KGarbage | KNoSpec => false | _ => true end.

(* every entry of the cycle list decodes and has a registered spec (what MsgUpdateCyclelist checks
   since the repair of F04; the genesis list consists of three spot-price queries) *)
Definition cycle_specd (qinfos : list qinfo) (s : ostate) : Prop :=
  Forall (fun q => specd qinfos q = true) (o_cycle s).

Lemma nth_z_some (l : list Z) i : 0 <= i < Z.of_nat (List.length l) -> exists q, nth_z l i = Some q /\ In q l.
Proof.
  intros Hi. unfold nth_z. destruct (Z.ltb_spec i 0) as [Hn|_]; [lia|].
  destruct (nth_error l (Z.to_nat i)) as [q|] eqn:En.
  - exists q. split; [reflexivity|]. eapply nth_error_In; exact En.
  - apply nth_error_None in En. lia.
Qed.

Lemma specd_window qinfos s q : specd qinfos q = true -> spec_window s (kind_of qinfos q) <> None.
Proof. unfold specd, spec_window. destruct (kind_of qinfos q); discriminate. Qed.

Lemma do_rotate_never_fails qinfos s h :
  cycle_ok s -> cycle_specd qinfos s -> do_rotate s h (kind_of qinfos) <> None.
Proof.
  unfold cycle_ok, cycle_specd, do_rotate. intros Hc Hs.
  set (len := Z.of_nat (List.length (o_cycle s))) in *.
  set (n := if len - 1 <=? o_seq s then 0 else o_seq s + 1).
  assert (Hn : 0 <= n < len).
  { unfold n. destruct (Z.leb_spec (len - 1) (o_seq s)); lia. }
  destruct (nth_z_some (o_cycle s) n Hn) as (qid & -> & Hin).
  rewrite Forall_forall in Hs. specialize (Hs qid Hin).
  cbn [o_queries with_queries].
  match goal with |- context [current_query qid ?l] => destruct (current_query qid l) as [m|] end.
  - destruct (negb (m_amount m =? 0)); discriminate.
  - unfold initialize_query. cbn [qi_kind qi_id].
    match goal with |- context [spec_window ?a ?k] => destruct (spec_window a k) as [w|] eqn:Ew end; [discriminate|].
    exfalso. exact (specd_window qinfos _ qid Hs Ew).
Qed.

Lemma rotate_never_fails qinfos s h :
  cycle_ok s -> cycle_specd qinfos s -> rotate s h (kind_of qinfos) <> None.
Proof.
  intros Hc Hs. unfold rotate. destruct (nth_z_some (o_cycle s) (o_seq s) Hc) as (cur & -> & _).
  destruct (current_query cur (o_queries s)) as [m|]; [destruct (h <? m_expiration m); [discriminate|]|];
    apply do_rotate_never_fails; assumption.
Qed.

(* the end blocker of any block, in any state that satisfies the store invariant of C07 *)
Theorem end_block_never_fails qinfos s h ts :
  oinv s -> cycle_specd qinfos s -> end_block s h ts (kind_of qinfos) <> None.
Proof.
  intros [_ _ _ Hc] Hs. unfold end_block. set (s1 := set_aggregated_report s h ts).
  assert (F : o_cycle s1 = o_cycle s /\ o_seq s1 = o_seq s).
  { unfold s1. rewrite set_aggregated_report_fold. destruct (agg_fold_frame h ts (o_queries s) s) as (_ & F2 & F3 & _). auto. }
  destruct F as (F2 & F3).
  apply rotate_never_fails; [unfold cycle_ok; rewrite F2, F3; exact Hc | unfold cycle_specd; rewrite F2; exact Hs].
Qed.

(* ---- the spec'd cycle list is kept by every operation ------------------------------------------ *)
Lemma tip_cycle s h q a s' : tip s h q a = Some s' -> o_cycle s' = o_cycle s.
Proof.
  unfold tip. destruct (current_query _ _) as [m|].
  - intros E. injection E as <-. reflexivity.
  - destruct (initialize_query s q) as [[m s1]|] eqn:Ei; [|discriminate].
    destruct (initialize_query_frame _ _ _ _ Ei) as (_ & _ & _ & F4 & _).
    intros E. injection E as <-. cbn [with_queries o_cycle]. exact F4.
Qed.

Lemma end_block_cycle s h ts k s' : oinv s -> end_block s h ts k = Some s' -> o_cycle s' = o_cycle s.
Proof.
  intros [_ _ _ Hc]. unfold end_block. set (s1 := set_aggregated_report s h ts).
  assert (F : o_cycle s1 = o_cycle s /\ o_seq s1 = o_seq s).
  { unfold s1. rewrite set_aggregated_report_fold. destruct (agg_fold_frame h ts (o_queries s) s) as (_ & F2 & F3 & _). auto. }
  destruct F as (F2 & F3). intros E.
  assert (Hc1 : cycle_ok s1) by (unfold cycle_ok; rewrite F2, F3; exact Hc).
  destruct (rotate_frame _ _ _ _ Hc1 E) as (G1 & _). rewrite G1. exact F2.
Qed.

Lemma insert_sorted_in x l y : In y (insert_sorted x l) -> y = x \/ In y l.
Proof.
  induction l as [|z t IH]; cbn [insert_sorted]; [intros [<-|[]]; left; reflexivity|].
  destruct (x =? z); [intros H; right; exact H|].
  destruct (x <? z); [intros [<-|H]; [left; reflexivity | right; exact H]|].
  intros [<-|H]; [right; left; reflexivity|]. destruct (IH H) as [->|H1]; [left; reflexivity | right; right; exact H1].
Qed.

Lemma fold_insert_in (qs : list qinfo) : forall acc y,
  In y (fold_left (fun acc q => insert_sorted (qi_id q) acc) qs acc) -> In y acc \/ In y (map qi_id qs).
Proof.
  induction qs as [|q t IH]; intros acc y; cbn [fold_left map]; [intros H; left; exact H|].
  intros H. destruct (IH _ _ H) as [H1|H1].
  - destruct (insert_sorted_in _ _ _ H1) as [->|H2]; [right; left; reflexivity | left; exact H2].
  - right. right. exact H1.
Qed.

Lemma qinfo_of_kind qinfos q :
  match qi_kind (qinfo_of qinfos q) with KGarbage | KNoSpec => false | _ => true end = true ->
  qi_id (qinfo_of qinfos q) = q /\ specd qinfos q = true.
Proof.
  unfold specd, kind_of, qinfo_of. destruct (find (fun x => qi_id x =? q) qinfos) as [x|] eqn:Ef.
  - apply find_some in Ef. destruct Ef as [_ Ef]. apply Z.eqb_eq in Ef. intros H. split; [exact Ef | exact H].
  - cbn. discriminate.
Qed.

Lemma update_cyclelist_specd qinfos s qs s' :
  update_cyclelist s (map (qinfo_of qinfos) qs) = Some s' -> cycle_specd qinfos s'.
Proof.
  unfold update_cyclelist. destruct (map (qinfo_of qinfos) qs) as [|q0 t0] eqn:Em; [discriminate|]. rewrite <- Em. clear Em q0 t0.
  destruct (forallb _ _) eqn:Ef; [|discriminate]. intros E. injection E as <-.
  unfold cycle_specd. cbn [o_cycle]. apply Forall_forall. intros y Hy.
  destruct (fold_insert_in _ _ _ Hy) as [[]|Hy1].
  rewrite map_map in Hy1. apply in_map_iff in Hy1. destruct Hy1 as (q & Hq & Hin).
  rewrite forallb_forall in Ef. specialize (Ef (qinfo_of qinfos q) (in_map _ _ _ Hin)).
  destruct (qinfo_of_kind qinfos q Ef) as [E1 E2]. rewrite <- Hq, E1. exact E2.
Qed.

Lemma model_step_specd qinfos s h op s' :
  oinv s -> cycle_specd qinfos s -> model_step qinfos s h op = Some s' -> cycle_specd qinfos s'.
Proof.
  intros Hi Hs. unfold cycle_specd in *. destruct op as [q a|q rep stake mn v|ts|qs|b hits w]; cbn [model_step].
  - intros E. rewrite (tip_cycle _ _ _ _ _ E). exact Hs.
  - destruct (submit_value _ _ _ _ _ _ _) as [s1|] eqn:E; [|discriminate]. intros E1. injection E1 as <-.
    destruct (submit_value_shape _ _ _ _ _ _ _ _ E) as (_ & _ & _ & _ & _ & (_ & F & _)). rewrite F. exact Hs.
  - intros E. rewrite (end_block_cycle _ _ _ _ _ Hi E). exact Hs.
  - apply update_cyclelist_specd.
  - intros E. injection E as <-. exact Hs.
Qed.

(* ---- all histories -------------------------------------------------------------------------------- *)
(* every end-block step of the history succeeds ([run_step] is C07's total step: a rejected message
   leaves the state as it was) *)
Fixpoint blocks_succeed (qinfos : list qinfo) (s : ostate) (ops : list (Z * rop)) : Prop :=
  match ops with
  | [] => True
  | (h, op) :: t =>
      match op with OEndBlock ts => end_block s h ts (kind_of qinfos) <> None | _ => True end
      /\ blocks_succeed qinfos (run_step qinfos s (h, op)) t
  end.

Lemma run_step_keeps qinfos s hop :
  oinv s -> cycle_specd qinfos s -> oinv (run_step qinfos s hop) /\ cycle_specd qinfos (run_step qinfos s hop).
Proof.
  intros Hi Hs. destruct hop as [h op]. unfold run_step. cbn [fst snd].
  destruct (model_step qinfos s h op) as [s1|] eqn:E; [|split; assumption].
  split; [eapply model_step_inv; eassumption | eapply model_step_specd; eassumption].
Qed.

Theorem every_end_block_succeeds qinfos : forall ops s,
  oinv s -> cycle_specd qinfos s -> blocks_succeed qinfos s ops.
Proof.
  induction ops as [|[h op] t IH]; intros s Hi Hs; cbn [blocks_succeed]; [exact I|].
  split.
  - destruct op; try exact I. apply end_block_never_fails; assumption.
  - destruct (run_step_keeps qinfos s (h, op) Hi Hs) as [Hi1 Hs1]. apply IH; assumption.
Qed.

(* C07/C08's [run_opt] ("the run as long as no end blocker fails") never stops *)
Theorem run_opt_never_halts qinfos : forall ops s,
  oinv s -> cycle_specd qinfos s -> run_opt qinfos s ops <> None.
Proof.
  induction ops as [|[h op] t IH]; intros s Hi Hs; cbn [run_opt]; [discriminate|].
  destruct (run_step_keeps qinfos s (h, op) Hi Hs) as [Hi1 Hs1].
  destruct op as [q a|q rep stake mn v|ts|qs|b hits w]; try (apply IH; assumption).
  destruct (end_block s h ts (kind_of qinfos)) as [s1|] eqn:Ee.
  - unfold run_step in Hi1, Hs1. cbn [fst snd model_step] in Hi1, Hs1. rewrite Ee in Hi1, Hs1. apply IH; assumption.
  - exfalso. exact (end_block_never_fails qinfos s h ts Hi Hs Ee).
Qed.

(* the genesis-like state with a spec'd cycle list satisfies both hypotheses *)
Lemma genesis_ok qinfos cycle sw bw :
  cycle <> [] -> Forall (fun q => specd qinfos q = true) cycle ->
  oinv (genesis cycle sw bw) /\ cycle_specd qinfos (genesis cycle sw bw).
Proof. intros Hn Hf. split; [apply genesis_inv; exact Hn | exact Hf]. Qed.

(* from genesis: every history of tips, reports, cycle-list and data-spec updates and blocks *)
Theorem genesis_run_never_halts qinfos cycle sw bw ops :
  cycle <> [] -> Forall (fun q => specd qinfos q = true) cycle ->
  run_opt qinfos (genesis cycle sw bw) ops <> None /\ blocks_succeed qinfos (genesis cycle sw bw) ops.
Proof.
  intros Hn Hf. destruct (genesis_ok qinfos cycle sw bw Hn Hf) as [H1 H2].
  split; [apply run_opt_never_halts | apply every_end_block_succeeds]; assumption.
Qed.

(* without the spec'd list the end blocker does fail: a cycle-list entry without data spec *)
Lemma unspecd_cycle_refuted :
  exists qinfos s h ts, oinv s /\ end_block s h ts (kind_of qinfos) = None.
Proof.
  exists [{| qi_id := 1; qi_kind := KNoSpec |}], (genesis [1] 10 10), 5, 5000.
  split; [apply genesis_inv; discriminate | vm_compute; reflexivity].
Qed.

(* ---- the inputs of aggregation and reward allocation ------------------------------------------------ *)
(* SetAggregatedReport reads microReports[0] of every closing round and AllocateRewards divides by the total
   power of the aggregates' reporters: a round flagged as having reports has one in the Reports store, and
   every stored report has at least one unit of power *)
Definition rq (Q : list qmeta) (R : list report) : Prop :=
  (forall m, In m Q -> m_has_reports m = true -> exists r, In r R /\ rp_meta r = m_id m)
  /\ (forall r, In r R -> 1 <= rp_power r).
Definition rinv (s : ostate) : Prop := rq (o_queries s) (o_reports s).

Lemma rq_sub Q Q' R : (forall m, In m Q' -> In m Q) -> rq Q R -> rq Q' R.
Proof. intros Hs [H1 H2]. split; [|exact H2]. intros m Hm. apply H1. apply Hs. exact Hm. Qed.

Lemma rq_meta_set Q R x :
  rq Q R -> (m_has_reports x = true -> exists r, In r R /\ rp_meta r = m_id x) -> rq (meta_set x Q) R.
Proof.
  intros [H1 H2] Hx. split; [|exact H2]. intros m Hm Hh. apply meta_set_in in Hm. destruct Hm as [->|Hm]; [exact (Hx Hh) | exact (H1 m Hm Hh)].
Qed.

Lemma rq_rep_set Q R r : rq Q R -> 1 <= rp_power r -> rq Q (rep_set r R).
Proof.
  intros [H1 H2] Hr. split.
  - intros m Hm Hh. destruct (H1 m Hm Hh) as (r0 & Hin & Hmeta).
    destruct (rep_key_eq r r0) eqn:Ek.
    + exists r. split; [apply sset_has|]. apply rep_keq_spec in Ek. destruct Ek as (_ & _ & Ek). congruence.
    + exists r0. split; [apply sset_keeps; assumption | exact Hmeta].
  - intros y Hy. apply sset_in in Hy. destruct Hy as [->|Hy]; [exact Hr | exact (H2 y Hy)].
Qed.

Lemma rq_same_meta Q R m x :
  rq Q R -> In m Q -> m_id x = m_id m -> m_has_reports x = m_has_reports m ->
  m_has_reports x = true -> exists r, In r R /\ rp_meta r = m_id x.
Proof. intros [H1 _] Hm Hi Hh Hx. rewrite Hi. apply (H1 m Hm). congruence. Qed.

Lemma tip_rinv s h q a s' : rinv s -> tip s h q a = Some s' -> rinv s'.
Proof.
  unfold rinv, tip. intros Hr. destruct (current_query _ _) as [m|] eqn:Ec.
  - destruct (current_query_in _ _ _ Ec) as [Hm _]. intros E. injection E as <-. cbn [with_queries o_queries o_reports].
    apply rq_meta_set; [exact Hr|]. destruct (m_expiration m <? h); (eapply (rq_same_meta _ _ m); [exact Hr | exact Hm | reflexivity | reflexivity]).
  - destruct (initialize_query s q) as [[m s1]|] eqn:Ei; [|discriminate].
    destruct (initialize_query_frame _ _ _ _ Ei) as (F1 & F2 & _).
    unfold initialize_query in Ei. destruct (spec_window _ _); [|discriminate]. injection Ei as <- <-.
    intros E. injection E as <-. cbn [with_queries o_queries o_reports].
    apply rq_meta_set; [exact Hr|]. cbn. discriminate.
Qed.

Lemma set_value_rinv s h m rep pw inc vok s' :
  rq (o_queries s) (o_reports s) -> 1 <= pw -> set_value s h m rep pw inc vok = inl s' -> rinv s'.
Proof.
  intros Hr Hp. unfold set_value. destruct vok; cbn [negb]; [|discriminate]. intros E. injection E as <-.
  unfold rinv. cbn [o_queries o_reports].
  apply rq_meta_set; [apply rq_rep_set; [exact Hr | exact Hp]|].
  intros _. eexists. split; [apply sset_has | reflexivity].
Qed.

Lemma deposit_reveal_rinv s h m rep pw vok s' :
  rq (o_queries s) (o_reports s) -> 1 <= pw -> deposit_reveal s h m rep pw vok = inl s' -> rinv s'.
Proof.
  intros Hr Hp. unfold deposit_reveal.
  destruct ((m_amount m =? 0) && (m_expiration m <=? h)).
  - destruct (_ <? h); [discriminate|]. apply set_value_rinv; [exact Hr | exact Hp].
  - destruct ((0 <? m_amount m) && (m_expiration m <=? h)); (destruct (_ <? h); [discriminate|]); apply set_value_rinv; assumption.
Qed.

Lemma submit_rinv s h q rep stake mn vok s' :
  rinv s -> 1000000 <= mn -> submit_value s h q rep stake mn vok = inl s' -> rinv s'.
Proof.
  intros Hr Hmn. unfold submit_value.
  destruct (qi_kind q); try discriminate; (destruct stake as [st|]; [|discriminate]);
  (destruct (Z.ltb_spec st mn) as [Hlt|Hge]; [discriminate|]);
  assert (Hp : 1 <= Z.quot st 1000000) by (apply Z.quot_le_lower_bound; lia);
  (destruct (current_query (qi_id q) (o_queries s)) as [m|]); cbn [negb]; try discriminate.
  - destruct (_ && _); [discriminate|]. destruct (_ <? h); [discriminate|]. apply set_value_rinv; assumption.
  - apply deposit_reveal_rinv; assumption.
  - apply deposit_reveal_rinv; [|exact Hp]. cbn [o_queries o_reports]. apply rq_meta_set; [exact Hr|]. cbn. discriminate.
  - destruct (_ && _); [discriminate|]. destruct (_ <? h); discriminate.
Qed.

Lemma do_rotate_rinv s h k s' : rinv s -> do_rotate s h k = Some s' -> rinv s'.
Proof.
  unfold rinv. intros Hr. unfold do_rotate.
  match goal with |- context [nth_z (o_cycle s) ?n] => destruct (nth_z (o_cycle s) n) as [qid|] end; [|discriminate].
  cbn [o_queries with_queries].
  assert (Hr1 : rq (clear_old qid h (o_queries s)) (o_reports s)).
  { eapply rq_sub; [|exact Hr]. intros m Hm. unfold clear_old in Hm. apply filter_In in Hm. tauto. }
  destruct (current_query qid _) as [m0|] eqn:Ec.
  - destruct (current_query_in _ _ _ Ec) as [Hm _].
    destruct (negb _); intros E; injection E as <-; cbn [o_queries o_reports with_queries]; [|exact Hr1].
    apply rq_meta_set; [exact Hr1|]. eapply (rq_same_meta _ _ m0); [exact Hr1 | exact Hm | reflexivity | reflexivity].
  - destruct (initialize_query _ _) as [[m1 s2]|] eqn:Ei; [|discriminate].
    unfold initialize_query in Ei. destruct (spec_window _ _); [|discriminate]. injection Ei as <- <-.
    intros E. injection E as <-. cbn [o_queries o_reports with_queries]. apply rq_meta_set; [exact Hr1|]. cbn. discriminate.
Qed.

Lemma end_block_rinv s h ts k s' : rinv s -> end_block s h ts k = Some s' -> rinv s'.
Proof.
  intros Hr. unfold end_block. set (s1 := set_aggregated_report s h ts).
  assert (Hr1 : rinv s1).
  { unfold rinv, s1. rewrite set_aggregated_report_fold. rewrite agg_fold_queries.
    destruct (agg_fold_frame h ts (o_queries s) s) as (F1 & _). cbv zeta in F1. rewrite F1.
    eapply rq_sub; [|exact Hr]. intros m Hm. apply filter_In in Hm. tauto. }
  unfold rotate. destruct (nth_z _ _) as [cur|]; [|discriminate].
  destruct (current_query cur _) as [m0|]; [destruct (h <? m_expiration m0)|].
  - intros E. injection E as <-. exact Hr1.
  - apply do_rotate_rinv. exact Hr1.
  - apply do_rotate_rinv. exact Hr1.
Qed.

Lemma update_data_spec_rinv s b hits w : rinv s -> rinv (update_data_spec s b hits w).
Proof.
  unfold rinv. intros Hr. cbn [update_data_spec o_queries o_reports]. destruct (b && hits); [|exact Hr].
  destruct Hr as [H1 H2]. split; [|exact H2]. intros m Hm Hh. apply in_map_iff in Hm. destruct Hm as (y & <- & Hy).
  destruct (m_bridge_type y); [|exact (H1 y Hy Hh)]. cbn [m_id m_has_reports] in *. exact (H1 y Hy Hh).
Qed.

(* reporters need at least one whole token of stake (the chain's MinStakeAmount is 10^6 loya) *)
Definition min_stake_ok (op : rop) : Prop := match op with OSubmit _ _ _ mn _ => 1000000 <= mn | _ => True end.

Lemma model_step_rinv qinfos s h op s' : rinv s -> min_stake_ok op -> model_step qinfos s h op = Some s' -> rinv s'.
Proof.
  intros Hr Hm. destruct op as [q a|q rep stake mn v|ts|qs|b hits w]; cbn [model_step].
  - apply tip_rinv. exact Hr.
  - destruct (submit_value _ _ _ _ _ _ _) as [s1|] eqn:E; [|discriminate]. intros E1. injection E1 as <-. eapply submit_rinv; eassumption.
  - apply end_block_rinv. exact Hr.
  - unfold update_cyclelist. destruct (map _ qs); [discriminate|]. destruct (forallb _ _); [|discriminate].
    intros E. injection E as <-. exact Hr.
  - intros E. injection E as <-. apply update_data_spec_rinv. exact Hr.
Qed.

Theorem run_rinv qinfos : forall ops s, rinv s -> Forall (fun hop => min_stake_ok (snd hop)) ops -> rinv (run qinfos s ops).
Proof.
  unfold run. induction ops as [|[h op] t IH]; intros s Hr Hf; cbn [fold_left]; [exact Hr|].
  inversion Hf as [|x l Hx Hl]; subst. apply IH; [|exact Hl].
  unfold run_step. cbn [fst snd] in *. destruct (model_step qinfos s h op) eqn:E; [eapply model_step_rinv; eassumption | exact Hr].
Qed.

Lemma power_sum_ge rs : (forall r, In r rs -> 1 <= rp_power r) -> forall a,
  a + Z.of_nat (List.length rs) <= fold_left (fun acc r => acc + rp_power r) rs a.
Proof.
  induction rs as [|r t IH]; intros Hp a; cbn [fold_left List.length]; [lia|].
  specialize (IH (fun y Hy => Hp y (or_intror Hy)) (a + rp_power r)). pose proof (Hp r (or_introl eq_refl)). lia.
Qed.

(* what the end blocker aggregates for a round flagged as having reports: a non-empty report list of
   positive total power ([mk_agg] is C07's description of the aggregate the block creates for round m) *)
Theorem closing_round_inputs s h ts m :
  rinv s -> In m (o_queries s) -> m_has_reports m = true ->
  reports_of (m_id m) (o_reports s) <> [] /\ ag_reporters (mk_agg s h ts m) <> [] /\ 1 <= ag_power (mk_agg s h ts m).
Proof.
  intros [H1 H2] Hm Hh. destruct (H1 m Hm Hh) as (r & Hr & Hmeta).
  assert (Hin : In r (reports_of (m_id m) (o_reports s))).
  { unfold reports_of. apply filter_In. split; [exact Hr | apply Z.eqb_eq; exact Hmeta]. }
  assert (Hne : reports_of (m_id m) (o_reports s) <> []) by (intros E; rewrite E in Hin; destruct Hin).
  split; [exact Hne|]. unfold mk_agg. cbn [ag_reporters ag_power]. split.
  - intros E. apply map_eq_nil in E. contradiction.
  - assert (Hp : forall y, In y (reports_of (m_id m) (o_reports s)) -> 1 <= rp_power y).
    { intros y Hy. apply H2. unfold reports_of in Hy. apply filter_In in Hy. tauto. }
    pose proof (power_sum_ge _ Hp 0) as Hs.
    destruct (reports_of (m_id m) (o_reports s)) as [|y t]; [contradiction|]. cbn [List.length] in Hs. lia.
Qed.

Lemma genesis_rinv cycle sw bw : rinv (genesis cycle sw bw).
Proof. split; intros x []. Qed.

(* ... in every state reached by a history in which reporters need at least one whole token of stake *)
Theorem closing_round_inputs_run qinfos ops s h ts m :
  rinv s -> Forall (fun hop => min_stake_ok (snd hop)) ops ->
  In m (o_queries (run qinfos s ops)) -> m_has_reports m = true ->
  reports_of (m_id m) (o_reports (run qinfos s ops)) <> []
  /\ ag_reporters (mk_agg (run qinfos s ops) h ts m) <> [] /\ 1 <= ag_power (mk_agg (run qinfos s ops) h ts m).
Proof. intros Hr Hf. apply closing_round_inputs. apply run_rinv; assumption. Qed.

(* non-vacuity: three spot queries, a tip, two reports, and blocks that aggregate and rotate *)
Definition ex_qinfos : list qinfo :=
  [{| qi_id := 1; qi_kind := KSpot |}; {| qi_id := 2; qi_kind := KSpot |}; {| qi_id := 3; qi_kind := KSpot |};
   {| qi_id := 7; qi_kind := KDeposit |}].
Definition ex_value : string := "000000000000000000000000000000000000000000000000000000000000002a".
Definition ex_ops : list (Z * rop) :=
  [(1, OEndBlock 1000); (2, OSubmit 2 11 (Some 5000000) 1000000 ("0x" ++ ex_value)%string); (2, OTip 3 500);
   (2, OEndBlock 2000); (3, OSubmit 2 12 (Some 7000000) 1000000 ex_value); (3, OEndBlock 3000); (4, OEndBlock 4000);
   (5, OSubmit 3 11 (Some 5000000) 1000000 ex_value); (5, OUpdateCycle [2; 7]); (5, OEndBlock 5000); (6, OEndBlock 6000); (7, OEndBlock 7000)].
Definition ex_genesis : ostate := genesis [1; 2; 3] 2 2000.
Definition ex_state : ostate := run ex_qinfos ex_genesis ex_ops.

Example ex_hypotheses :
  oinv ex_genesis /\ cycle_specd ex_qinfos ex_genesis /\ rinv ex_genesis /\ Forall (fun hop => min_stake_ok (snd hop)) ex_ops.
Proof.
  destruct (genesis_ok ex_qinfos [1; 2; 3] 2 2000) as [H1 H2]; [discriminate | repeat constructor|].
  split; [exact H1|]. split; [exact H2|]. split; [apply genesis_rinv|]. repeat constructor; cbn; lia.
Qed.

(* before the end blocker of block 3 the round of query 2 holds two reports and closes in that block *)
Example ex_closing_round :
  map (fun m => (m_qid m, m_has_reports m, m_expiration m)) (o_queries (run ex_qinfos ex_genesis (firstn 5 ex_ops)))
  = [(2, true, 3); (3, false, 4)].
Proof. vm_compute. reflexivity. Qed.

(* the history aggregates a round with two reports, replaces the cycle list by a spot and a bridge deposit
   query and rotates on; all seven end blockers succeed *)
Example ex_nontrivial :
  run_opt ex_qinfos ex_genesis ex_ops = Some ex_state
  /\ map (fun a => (ag_qid a, ag_reporters a, ag_power a)) (o_aggs ex_state) = [(2, [11; 12], 12)]
  /\ o_cycle ex_state = [2; 7] /\ o_seq ex_state = 1 /\ List.length (o_queries ex_state) = 3%nat.
Proof. vm_compute. repeat split; reflexivity. Qed.
End Oracle.

(* ============================================================================================== *)
(*  x/bridge EndBlock (CompareAndSetBridgeValidators) — Model/BridgeValset.v, owner C16             *)
(* ============================================================================================== *)
Module Bridge.
Import Model.BridgeValset Proofs.BridgeValsetProofs.

(* the environment condition of GetCurrentValidatorsEVMCompatible: some bonded validator with at least
   one unit of consensus power has a registered EVM address *)
Definition served (r : registry) (vs : list sval) : Prop :=
  exists op t a, In (SV op true t) vs /\ reg_get r op = Some a /\ power_reduction <= t.

Lemma served_eligible r vs : served r vs -> eligible r vs <> [].
Proof.
  intros (op & t & a & Hin & Hr & Ht) E.
  assert (Hp : cons_power true t <> 0).
  { unfold cons_power, power_reduction in *. pose proof (Z.div_le_mono 1000000 t 1000000 ltac:(lia) Ht) as Hd.
    change (1000000 / 1000000) with 1 in Hd. lia. }
  assert (Hi : In (BV a (cons_power true t)) (eligible r vs)).
  { apply eligible_in. exists op, true, t. repeat split; assumption. }
  rewrite E in Hi. destruct Hi.
Qed.

Lemma decide_not_err st cur now : decide st cur now <> EbErr.
Proof.
  unfold decide. destruct st as [|last rest]; [discriminate|].
  destruct (bvals_eqb (k_set last) cur && negb (stale (k_ts last) now)); [discriminate|].
  destruct ((power_diff (k_set last) cur <? 50000) && negb (stale (k_ts last) now)); discriminate.
Qed.

(* exactly when the end blocker fails: after block 1, no eligible validator *)
Theorem end_block_fails_iff H st r vs height now :
  fst (end_block H st r vs height now) = EbErr <-> height <> 1 /\ eligible r vs = [].
Proof.
  unfold end_block, current_valset. destruct (Z.eqb_spec height 1) as [E1|E1].
  - cbn [fst]. split; [discriminate | intros [Hn _]; contradiction].
  - destruct (eligible r vs) as [|x l] eqn:El.
    + cbn [fst]. split; [intros _; split; [exact E1 | reflexivity] | reflexivity].
    + pose proof (decide_not_err st (sort_bv (x :: l)) now) as Hd.
      destruct (decide st (sort_bv (x :: l)) now); cbn [fst];
        (split; [intros E; try discriminate; contradiction | intros [_ E]; discriminate]).
Qed.

Theorem end_block_never_fails H st r vs height now :
  height = 1 \/ served r vs -> fst (end_block H st r vs height now) <> EbErr.
Proof.
  intros Hs E. apply end_block_fails_iff in E. destruct E as [E1 E2].
  destruct Hs as [Hs|Hs]; [contradiction | exact (served_eligible r vs Hs E2)].
Qed.

(* ---- histories of blocks --------------------------------------------------------------------------- *)
Lemma reg_get_app r op a x : reg_get r op = Some a -> reg_get (r ++ x) op = Some a.
Proof.
  induction r as [|[o b] t IH]; cbn [reg_get app]; [discriminate|]. destruct (o =? op); [trivial | exact IH].
Qed.

Lemma reg_step_keeps r c op a : reg_get r op = Some a -> reg_get (reg_step r c) op = Some a.
Proof.
  destruct c as [o [b|]]; cbn [reg_step]; [|trivial]. destruct (reg_get r o); [trivial|]. apply reg_get_app.
Qed.

Lemma reg_fold_keeps cs : forall r op a, reg_get r op = Some a -> reg_get (fold_left reg_step cs r) op = Some a.
Proof. induction cs as [|c t IH]; intros r op a Hr; cbn [fold_left]; [exact Hr|]. apply IH. apply reg_step_keeps. exact Hr. Qed.

Lemma step_reg H c e : c_reg (step H c e) = if c_halted c then c_reg c else fst (pre_block c e).
Proof.
  unfold step. destruct (c_halted c); [reflexivity|]. unfold pre_block. cbn [fst].
  destruct (end_block H _ _ _ _ _) as [[| |] st2]; reflexivity.
Qed.

Lemma step_halted H c e :
  c_halted c = false ->
  c_halted (step H c e) = false <->
  fst (end_block H (snd (pre_block c e)) (fst (pre_block c e)) (e_vals e) (e_height e) (e_now e)) <> EbErr.
Proof.
  intros Hc. unfold step. rewrite Hc. unfold pre_block. cbn [fst snd].
  destruct (end_block H _ _ _ _ _) as [[| |] st2]; cbn [fst c_halted]; split; try discriminate; try reflexivity; intros E; congruence.
Qed.

(* block by block: the registry after the block's own registrations serves the block's validators *)
Fixpoint served_run (H : hashes) (c : chain) (es : list env_blk) : Prop :=
  match es with
  | [] => True
  | e :: t => (e_height e = 1 \/ served (fst (pre_block c e)) (e_vals e)) /\ served_run H (step H c e) t
  end.

Theorem chain_never_halts H : forall es c,
  c_halted c = false -> served_run H c es -> c_halted (fold_left (step H) es c) = false.
Proof.
  induction es as [|e t IH]; intros c Hc Hs; cbn [fold_left]; [exact Hc|].
  destruct Hs as [Hs1 Hs2]. apply IH; [|exact Hs2].
  apply (step_halted H c e Hc). apply end_block_never_fails. exact Hs1.
Qed.

(* in particular: one registered validator that stays bonded with at least one unit of power *)
Theorem chain_never_halts_anchor H op a : forall es c,
  c_halted c = false -> reg_get (c_reg c) op = Some a ->
  Forall (fun e => e_height e = 1 \/ exists t, In (SV op true t) (e_vals e) /\ power_reduction <= t) es ->
  c_halted (fold_left (step H) es c) = false.
Proof.
  intros es c Hc Hr Hf. apply chain_never_halts; [exact Hc|].
  revert c Hc Hr. induction Hf as [|e t He Hf IH]; intros c Hc Hr; cbn [served_run]; [exact I|].
  assert (Hr1 : reg_get (fst (pre_block c e)) op = Some a).
  { unfold pre_block. cbn [fst]. apply reg_fold_keeps. exact Hr. }
  assert (Hs : e_height e = 1 \/ served (fst (pre_block c e)) (e_vals e)).
  { destruct He as [He|(t0 & Hin & Ht)]; [left; exact He | right; exists op, t0, a; auto]. }
  split; [exact Hs|].
  assert (Hh : c_halted (step H c e) = false) by (apply (step_halted H c e Hc); apply end_block_never_fails; exact Hs).
  apply IH; [exact Hh|]. rewrite step_reg, Hc. exact Hr1.
Qed.

(* the environment condition is needed (F07): a second block without registered bonded validator halts *)
Lemma no_validator_halts_refuted :
  exists H es, c_halted (run H es) = true.
Proof.
  exists {| h_set := fun _ => 0; h_ckpt := fun _ _ _ => 0 |},
         [{| e_height := 2; e_now := 1000; e_claims := []; e_signs := []; e_vals := [SV 1 true 5000000] |}].
  vm_compute. reflexivity.
Qed.

(* non-vacuity: operator 1 registers in block 2 and is bonded throughout, the set changes in block 4 *)
Definition ex_hashes : hashes := {| h_set := fun l => total_power l; h_ckpt := fun thr ts h => thr + ts + h |}.
Definition ex_blocks : list env_blk :=
  [{| e_height := 1; e_now := 1000; e_claims := []; e_signs := []; e_vals := [SV 1 true 5000000] |};
   {| e_height := 2; e_now := 2000; e_claims := [(1, Some 77)]; e_signs := []; e_vals := [SV 1 true 5000000] |};
   {| e_height := 3; e_now := 3000; e_claims := [(2, Some 88)]; e_signs := []; e_vals := [SV 1 true 5000000; SV 2 false 9000000] |};
   {| e_height := 4; e_now := 4000; e_claims := []; e_signs := [(1, 4000, Sg 1 77 0)]; e_vals := [SV 1 true 5000000; SV 2 true 9000000] |}].

Example ex_served : served_run ex_hashes chain0 ex_blocks.
Proof.
  cbn [served_run ex_blocks]. split; [left; reflexivity|].
  split; [right; exists 1, 5000000, 77; vm_compute; repeat split; try (left; reflexivity); discriminate|].
  split; [right; exists 1, 5000000, 77; vm_compute; repeat split; try (left; reflexivity); discriminate|].
  split; [right; exists 1, 5000000, 77; vm_compute; repeat split; try (left; reflexivity); discriminate | exact I].
Qed.

Example ex_nontrivial :
  c_halted (run ex_hashes ex_blocks) = false
  /\ map k_set (c_st (run ex_hashes ex_blocks)) = [[BV 88 9; BV 77 5]; [BV 77 5]]
  /\ c_reg (run ex_hashes ex_blocks) = [(1, 77); (2, 88)].
Proof. vm_compute. repeat split; reflexivity. Qed.
End Bridge.

(* ============================================================================================== *)
(*  app PreBlocker on the injected vote-extension transaction — Model/Proposal.v, owner C17         *)
(* ============================================================================================== *)
Module Proposal.
Import Model.Proposal Proofs.ProposalProofs.

(* in every variant, with vote extensions enabled or not: a proposal that ProcessProposalHandler accepted
   makes the PreBlocker neither panic ([PHalt]) nor return an error ([PErr]) *)
Theorem preblock_ok_on_accepted g tbl en st p :
  process g en st p = ACCEPT -> exists st', pre_block g tbl en st p = POk st'.
Proof.
  destruct en.
  - destruct p as [| |l c]; cbn [process negb].
    + destruct (g_len g); discriminate.
    + discriminate.
    + intros H. pose proof (accepted_aligned g st l c H) as A. unfold pre_block. cbn [negb].
      rewrite A, (aligned_not_short l A). destruct (g_len g); eexists; reflexivity.
  - intros _. destruct p as [| |l c]; cbn [pre_block negb]; eexists; reflexivity.
Qed.

(* the block of an honest proposer: what PrepareProposalHandler builds from a valid commit passes
   ProcessProposalHandler (C17 coherence) and then the PreBlocker *)
Theorem preblock_ok_on_prepared g tbl st c l :
  c_valid c = true -> prepare g true st c = PInj l -> exists st', pre_block g tbl true st (Tx l c) = POk st'.
Proof. intros Hv Hp. apply preblock_ok_on_accepted. exact (coherence g st c l Hv Hp). Qed.

(* the PreBlocker does fail on proposals that are not accepted: undecodable first transaction *)
Lemma preblock_fails_on_rejected_refuted :
  exists g tbl st p, pre_block g tbl true st p = PErr /\ process g true st p = REJECT.
Proof. exists repaired, [], st0, BadTx. split; reflexivity. Qed.

Example ex_accepted :
  exists l st', process repaired true st42 (Tx l c42) = ACCEPT /\ pre_block repaired [] true st42 (Tx l c42) = POk st'
                /\ lookup Z.eqb snapS (s_atts st') = Some [0x01a0; 0x01b1].
Proof. destruct pipeline_example as (l & st' & _ & H2 & H3 & H4). exists l, st'. auto. Qed.
End Proposal.

(* ============================================================================================== *)
(*  x/mint BeginBlocker — Model/Mint.v, owner C03                                                   *)
(* ============================================================================================== *)
Module Mint.
Import Model.Mint Proofs.MintProofs.

Definition bb_ok (r : bb_result) : Prop := match r with BBOk _ _ _ _ => True | _ => False end.

(* one block, any minter: the block time is not before the recorded one and the gap is inside the int64
   range of DailyMintRate * milliseconds (726 days) *)
Theorem begin_block_never_fails m now :
  (forall prev, m_prev m = Some prev -> prev <= now /\ in_range (elapsed_ms now prev) = true) ->
  bb_ok (begin_block true m now).
Proof.
  intros Hp. destruct (m_init m) eqn:Hi; [|rewrite (no_mint_before_init true m now Hi); exact I].
  destruct (Z.eq_dec now zero_time) as [Ez|Hz].
  - unfold begin_block. rewrite Hi. cbn [negb]. rewrite Ez, Z.eqb_refl. exact I.
  - destruct (m_prev m) as [prev|] eqn:Ep.
    + destruct (Hp prev eq_refl) as [Hle R]. rewrite (begin_block_exact m prev now Hi Ep Hz Hle R). exact I.
    + rewrite (first_block_records_only true m now Hi Ep Hz). exact I.
Qed.

(* histories: blocks and MsgInit in any order *)
Inductive mop := MBlock (now : Z) | MInit (auth_ok : bool).
Definition mstep (m : minter) (o : mop) : minter :=
  match o with
  | MBlock now => minter_after m (begin_block true m now)
  | MInit a => match msg_init a m with Some m' => m' | None => m end
  end.

(* the block times of the history: never time.Time{}, not before the previous block's, gap in range *)
Fixpoint times_ok (last : option Z) (ops : list mop) : Prop :=
  match ops with
  | [] => True
  | MInit _ :: r => times_ok last r
  | MBlock t :: r =>
      t <> zero_time /\ (forall p, last = Some p -> p <= t /\ in_range (elapsed_ms t p) = true) /\ times_ok (Some t) r
  end.

Fixpoint blocks_succeed (m : minter) (ops : list mop) : Prop :=
  match ops with
  | [] => True
  | o :: r => match o with MBlock t => bb_ok (begin_block true m t) | MInit _ => True end /\ blocks_succeed (mstep m o) r
  end.

Theorem every_begin_block_succeeds : forall ops m last,
  minter_wf m -> (m_prev m = None \/ m_prev m = last) -> times_ok last ops -> blocks_succeed m ops.
Proof.
  induction ops as [|o r IH]; intros m last W L T; cbn [blocks_succeed]; [exact I|].
  destruct o as [t|a]; cbn [times_ok] in T.
  - destruct T as (Hz & Hg & T).
    assert (Hp : forall prev, m_prev m = Some prev -> prev <= t /\ in_range (elapsed_ms t prev) = true).
    { intros prev E. apply Hg. destruct L as [L|L]; congruence. }
    split; [apply begin_block_never_fails; exact Hp|].
    apply (IH _ (Some t)); [apply minter_wf_after; exact W | | exact T].
    cbn [mstep]. destruct (m_init m) eqn:Hi.
    + destruct (m_prev m) as [prev|] eqn:Ep.
      * destruct (Hp prev eq_refl) as [Hle R]. rewrite (begin_block_exact m prev t Hi Ep Hz Hle R). right. reflexivity.
      * rewrite (first_block_records_only true m t Hi Ep Hz). right. reflexivity.
    + rewrite (no_mint_before_init true m t Hi). left. cbn [minter_after]. apply W. exact Hi.
  - split; [exact I|]. cbn [mstep]. destruct (msg_init a m) as [m'|] eqn:Ei.
    + apply msg_init_some in Ei. destruct Ei as (_ & _ & ->).
      apply (IH _ last); [intros Hf; discriminate Hf | exact L | exact T].
    + apply (IH _ last); assumption.
Qed.

(* the hypothesis on the block times is needed: a block dated before its predecessor *)
Lemma time_backwards_refuted :
  exists m now, minter_wf m /\ begin_block true m now = BBErr 0.
Proof.
  exists {| m_init := true; m_prev := Some 2000000000 |}, 1000000000. split; [intros H; discriminate H | vm_compute; reflexivity].
Qed.

(* non-vacuity: blocks before and after MsgInit, gaps of 1 s, 1 ms and 30 days *)
Definition ex_ops : list mop :=
  [MBlock 1000000000; MInit true; MBlock 2000000000; MBlock 3000000000; MBlock 3001000000; MBlock (3001000000 + 30 * 86400 * 1000000000)].
Definition ex_minter : minter := {| m_init := false; m_prev := None |}.

Example ex_hypotheses : minter_wf ex_minter /\ times_ok None ex_ops.
Proof.
  split; [intros _; reflexivity|]. cbn [times_ok ex_ops].
  repeat match goal with |- _ /\ _ => split end; try exact I; try (unfold zero_time; lia);
    intros q E; try discriminate E; injection E as <-; (split; [lia | vm_compute; reflexivity]).
Qed.

Example ex_nontrivial :
  map (fun o => match o with
                | (m, MBlock t) => minted_of (begin_block true m t)
                | _ => -1 end)
      (combine [ex_minter; ex_minter; {| m_init := true; m_prev := None |}; {| m_init := true; m_prev := Some 2000000000 |};
                {| m_init := true; m_prev := Some 3000000000 |}; {| m_init := true; m_prev := Some 3001000000 |}] ex_ops)
  = [0; -1; 0; 1700; 1; 4408200000]
  /\ fold_left mstep ex_ops ex_minter = {| m_init := true; m_prev := Some (3001000000 + 30 * 86400 * 1000000000) |}.
Proof. vm_compute. split; reflexivity. Qed.
End Mint.

(* ============================================================================================== *)
(*  x/dispute BeginBlocker: expiry, tally, execution flags — Model/DisputeTally.v, owner C12        *)
(* ============================================================================================== *)
Module Tally.
Import Model.DisputeTally Proofs.DisputeTallyProofs.

(* one block on any world whose disputes satisfy C12's record invariant (repair of F03 in place) *)
Theorem begin_block_never_fails w dt : winv w -> step true w (EBlock dt) <> None.
Proof. intros I. exact (step_no_halt w (EBlock dt) I). Qed.

(* [run] stops with [None] exactly when a begin blocker fails: it never does, over every history of
   proposals, fee payments, votes, new rounds and blocks from a world satisfying the invariant *)
Theorem every_begin_block_succeeds es w : winv w -> run true w es <> None.
Proof. exact (run_no_halt es w). Qed.

(* the lifecycle machine the correspondence case [LifeCase] runs on the observed events *)
Theorem life_machine_never_halts es w lin : linv w -> life_model_run true w lin es <> None.
Proof. exact (life_model_run_no_halt es w lin). Qed.

(* non-vacuity: a funded dispute with two equal opposite reporter votes (the F03 history) satisfies the
   invariant; the block 49 hours later tallies it to "invalid, no quorum", the next one executes it *)
Example ex_nontrivial :
  exists w1 w2,
    run true (W 0 []) [EPropose 1000000 1000000;
                       EVote 0 (TD None (C3 0 0 0) (C3 5000000 5000000 0) (C3 0 0 0) 0 10000000 100000000 2)] = Some w1
    /\ winv w1 /\ map d_status (w_ds w1) = [Voting]
    /\ run true w1 [EBlock (49 * 3600 * 1000000000); EBlock (30 * 3600 * 1000000000)] = Some w2
    /\ map (fun d => (d_status d, d_pending d, d_result d, d_executed d)) (w_ds w2) = [(Resolved, false, 6, true)].
Proof.
  eexists. eexists. split; [vm_compute; reflexivity|].
  split; [|split; [vm_compute; reflexivity | split; vm_compute; reflexivity]].
  match goal with |- winv ?w => assert (R : run true (W 0 []) [EPropose 1000000 1000000;
                       EVote 0 (TD None (C3 0 0 0) (C3 5000000 5000000 0) (C3 0 0 0) 0 10000000 100000000 2)] = Some w)
    by (vm_compute; reflexivity) end.
  exact (proj1 (proj2 (run_ok true _ _ _ (winv_empty 0) R))).
Qed.
End Tally.

(* ============================================================================================== *)
(*  x/dispute BeginBlocker, prevote expiry — Model/Slash.v, owner C11                               *)
(* ============================================================================================== *)
Module SlashBlock.
Import Model.Slash.

(* the begin-block step of C11's dispute world (expiry of unfunded disputes) has no failing branch:
   it is accepted in every variant, every environment, every world, and touches only dispute records *)
Theorem begin_block_total vr e w now :
  fst (step vr e w (OBegin now)) = true
  /\ w_stk (snd (step vr e w (OBegin now))) = w_stk w /\ w_rcds (snd (step vr e w (OBegin now))) = w_rcds w
  /\ List.length (w_disps (snd (step vr e w (OBegin now)))) = List.length (w_disps w).
Proof. cbn [step fst snd begin_block w_stk w_rcds w_disps]. rewrite map_length. auto. Qed.
End SlashBlock.

(* ============================================================================================== *)
(*  x/dispute BeginBlocker, CheckClosedDisputesForExecution / ExecuteVote —                         *)
(*  Model/DisputeSettle.v, owner C13                                                                *)
(* ============================================================================================== *)
Module Settle.
Import Base.Dec Model.DisputeSettle Proofs.DisputeSettleProofs.

(* the result codes of a history, in order *)
Definition codes (v : variant) (c : cfg) (s : st) (ops : list op) : list Z :=
  snd (fold_left (fun acc o => let '(s', e) := step v c (fst acc) o in (s', snd acc ++ [e])) ops (s, [])).
Definition all_accepted (v : variant) (c : cfg) (s : st) (ops : list op) : bool := forallb (Z.eqb OK) (codes v c s ops).

(* ---- the begin blocker CAN fail in states reached through accepted operations ------------------- *)
(* (1) consequence of C13b.  Dispute fee 20000 (burn amount 1000).  19499 loya are paid from accounts,
   then 501 payments of 1 loya are made from the stake of account 2: each is credited in full but moves
   nothing into the escrow (the tracker gains an origin of amount 0).  The last one completes the fee, the
   reporter's 20000 are escrowed: escrow 39499 for a fee total of 20000.  Three days later the vote is
   AGAINST with voters: ExecuteVote burns 500 and then has to send 20000 + (20000 - 1000) = 39000 out of
   38999: "insufficient funds" inside BeginBlocker.  With 500 such payments the execution succeeds. *)
Definition cfg1 : cfg := CF 0 20000.
Definition snap1 : option tracker := Some ([(0, 20000)], 20000).
Definition zero_pay (i : nat) : op := OAddFee 2 1 1 true (Some (repeat (2, 0) (S i), 0)) snap1.
Definition ops_short (k : nat) : list op :=
  [OPropose 1 10000 false None snap1; OAddFee 1 1 (10000 - Z.of_nat k) false None snap1]
  ++ map zero_pay (seq 0 k)
  ++ [OTime (THREE_DAYS + 1); OTally Resolved false true 2; OVotes (votes1 500 0)].

Lemma stake_shortfall_halts_refuted :
  exists c s ops,
    all_accepted repo_variant c s ops = true
    /\ s_feetotal (run repo_variant c s ops) = s_slash (run repo_variant c s ops)
    /\ s_esc (run repo_variant c s ops) = 39499
    /\ snd (step repo_variant c (run repo_variant c s ops) OExecBlock) = EInsufficient.
Proof. exists cfg1, st0, (ops_short 501). vm_compute. repeat split; reflexivity. Qed.

Lemma stake_shortfall_threshold :
  all_accepted repo_variant cfg1 st0 (ops_short 500) = true
  /\ snd (step repo_variant cfg1 (run repo_variant cfg1 st0 (ops_short 500)) OExecBlock) = OK.
Proof. vm_compute. split; reflexivity. Qed.

(* (2) F22/F12 as a history: five further rounds (fees 15000, 30000, 60000, 120000, 150000 enter the burn
   amount: 382500 > 2 * 150000), then AGAINST: ExecuteVote asks the bank for 150000 + (150000 - 382500) < 0 *)
Definition new_round (t fee : Z) : list op := [OTime t; OTally Unresolved true true 6; OPropose 2 fee false None snap].
Definition ops_six : list op :=
  [OPropose 1 150000 false None snap] ++ new_round (2 * ONE_DAY + 1) 15000 ++ new_round (4 * ONE_DAY + 2) 30000
  ++ new_round (6 * ONE_DAY + 3) 60000 ++ new_round (8 * ONE_DAY + 4) 120000 ++ new_round (10 * ONE_DAY + 5) 150000
  ++ [OTime (12 * ONE_DAY + 6); OTally Resolved false true 2; OVotes [RD 6 None []]].

(* with the code as found ([exec_block_gen _ false]: reporter's part = SlashAmount - BurnAmount) the begin blocker failed;
   with the repair that is in /repo now (FeeTotal - BurnAmount, [step] uses it) the same history executes *)
Lemma sixth_round_halts_refuted :
  exists c s ops,
    all_accepted repo_variant c s ops = true
    /\ s_id (run repo_variant c s ops) = 6 /\ s_burn (run repo_variant c s ops) = 382500
    /\ snd (exec_block_gen true false (run repo_variant c s ops)) = EOther
    /\ snd (step repo_variant c (run repo_variant c s ops) OExecBlock) = OK.
Proof. exists cfg0, st0, ops_six. vm_compute. repeat split; reflexivity. Qed.

(* ---- ... and cannot fail when fees are paid from accounts, in a single round ---------------------- *)
Ltac proj :=
  cbn [fst snd set_money slash_reporter set_now s_now s_id s_slash s_burn s_feetotal s_reward s_status s_open s_pending
       s_result s_executed s_end s_round s_prev s_payers s_feetr s_slashtr s_rounds s_dust s_esc s_burned s_liq s_stk].
Ltac proj_in H :=
  cbn [fst snd set_money slash_reporter set_now s_now s_id s_slash s_burn s_feetotal s_reward s_status s_open s_pending
       s_result s_executed s_end s_round s_prev s_payers s_feetr s_slashtr s_rounds s_dust s_esc s_burned s_liq s_stk] in H.

(* [exec_block] / [execute_vote] are the repaired instances of the generic functions *)
Ltac unfold_eb :=
  unfold exec_block, exec_block_gen;
  repeat match goal with
         | |- context [execute_vote_gen ?a repo_fix_F12 ?b] => change (execute_vote_gen a repo_fix_F12 b) with (execute_vote a b)
         end.
Ltac unfold_ev := unfold execute_vote, execute_vote_gen, repo_fix_F12.

(* the reporter's whole slash amount reaches the escrow when the fee is complete (C11, after its repairs) *)
Definition snapshot_full (c : cfg) (sl : option tracker) : Prop :=
  exists os t, sl = Some (os, t) /\ sum_snd os = c_S c.

(* what the other modules hand to this one, operation by operation (relative to the state it meets):
   fees are paid from accounts; the lineage has one round; time does not run backwards; the tally (C12's
   record invariant) marks a dispute as pending execution only with a result and status resolved or
   unresolved, and as failed only after its end *)
Definition op_ok (c : cfg) (s : st) (o : op) : Prop :=
  match o with
  | OPropose _ _ bond _ sl => bond = false /\ s_id s = 0 /\ snapshot_full c sl
  | OAddFee _ _ _ bond _ sl => bond = false /\ snapshot_full c sl
  | OTime now => s_now s <= now
  | OTally status _ pending result =>
      (pending = true -> 1 <= result <= 6 /\ (status = Resolved \/ status = Unresolved))
      /\ (status = Failed -> s_end s < s_now s)
  | _ => True
  end.

Fixpoint env_ok (v : variant) (c : cfg) (s : st) (ops : list op) : Prop :=
  match ops with
  | [] => True
  | o :: r => op_ok c s o /\ env_ok v c (fst (step v c s o)) r
  end.

Fixpoint exec_blocks_succeed (v : variant) (c : cfg) (s : st) (ops : list op) : Prop :=
  match ops with
  | [] => True
  | o :: r => match o with OExecBlock => snd (step v c s OExecBlock) = OK | _ => True end
              /\ exec_blocks_succeed v c (fst (step v c s o)) r
  end.

Definition prevote_inv (c : cfg) (s : st) : Prop :=
  s_id s <> 0 /\ s_executed s = false /\ s_slash s = c_S c /\ s_burn s = five_percent (c_S c)
  /\ s_status s = Prevote /\ s_pending s = false /\ 0 <= s_feetotal s < c_S c /\ s_feetotal s <= s_esc s.
Definition funded_inv (c : cfg) (s : st) : Prop :=
  s_id s <> 0 /\ s_executed s = false /\ s_slash s = c_S c /\ s_burn s = five_percent (c_S c)
  /\ s_feetotal s = c_S c
  /\ (s_status s = Voting \/ s_status s = Resolved \/ s_status s = Unresolved)
  /\ 2 * c_S c <= s_esc s /\ s_slashtr s <> None
  /\ (s_pending s = true -> 1 <= s_result s <= 6 /\ s_status s <> Voting).
Definition failed_inv (s : st) : Prop :=
  s_id s <> 0 /\ s_executed s = false /\ s_status s = Failed /\ s_pending s = false /\ s_end s < s_now s.
Definition done_inv (s : st) : Prop := settled s /\ s_pending s = false.

Definition sinv (c : cfg) (s : st) : Prop :=
  0 < c_S c /\
  ((s_id s = 0 /\ 0 <= s_esc s) \/ prevote_inv c s \/ funded_inv c s \/ failed_inv s \/ done_inv s).

(* ---- ExecuteVote ---- *)
Lemma execute_vote_cases fx s : (exists s', execute_vote fx s = (s', OK)) \/ (exists e, execute_vote fx s = (s, e)).
Proof.
  unfold_ev. cbv zeta.
  destruct ((s_status s =? Prevote) || (s_status s =? Failed)); [right; eexists; reflexivity|].
  destruct (negb _); [right; eexists; reflexivity|]. destruct (s_executed s); [right; eexists; reflexivity|].
  destruct (s_result s =? 0); [right; eexists; reflexivity|]. destruct (s_esc s <? _); [right; eexists; reflexivity|].
  destruct (is_invalid (s_result s)).
  { destruct (return_slashed _ _) as [s2 [|e|e]]; [left | right | right]; eexists; reflexivity. }
  destruct (is_support (s_result s)); [left; eexists; reflexivity|].
  destruct (is_against (s_result s)); [|right; eexists; reflexivity].
  destruct (return_slashed _ _) as [s2 [|e|e]]; [left | right | right]; eexists; reflexivity.
Qed.

Lemma return_slashed_succeeds x amt :
  0 <= amt -> amt <= s_esc x -> s_slashtr x <> None -> exists s2, return_slashed x amt = (s2, OK).
Proof.
  intros H0 H1 H2. unfold return_slashed.
  destruct (Z.ltb_spec amt 0); [lia|]. destruct (Z.ltb_spec (s_esc x) amt); [lia|].
  destruct (s_slashtr x) as [[os t]|]; [eexists; reflexivity | contradiction].
Qed.

Lemma execute_vote_succeeds c fx s :
  0 < c_S c -> funded_inv c s -> s_pending s = true -> (s_end s < s_now s \/ s_status s = Resolved) ->
  exists s', execute_vote fx s = (s', OK).
Proof.
  intros HS (Hid & Hex & Hsl & Hb & Hft & Hst & Hesc & Htr & Hp) Hpe Hg. destruct (Hp Hpe) as [Hr Hnv].
  assert (HB : s_burn s = c_S c / 20) by (rewrite Hb; apply five_percent_eq; lia).
  assert (HB0 : 0 <= s_burn s <= c_S c).
  { rewrite HB. split; [apply Z.div_pos; lia|]. apply Z.div_le_upper_bound; lia. }
  assert (Hhb : half_burn (s_burn s) = s_burn s / 2) by (apply half_burn_eq; lia).
  assert (Hhb0 : 0 <= s_burn s / 2 <= s_burn s).
  { split; [apply Z.div_pos; lia|]. apply Z.div_le_upper_bound; lia. }
  unfold_ev. cbv zeta.
  assert (E1 : (s_status s =? Prevote) || (s_status s =? Failed) = false).
  { destruct Hst as [H|[H|H]]; rewrite H; reflexivity. }
  rewrite E1.
  assert (E4 : (s_result s =? 0) = false) by (apply Z.eqb_neq; lia).
  rewrite E4. cbn [negb andb].
  assert (E2 : negb ((if s_end s <? s_now s then Resolved else s_status s) =? Resolved) = false).
  { destruct (Z.ltb_spec (s_end s) (s_now s)) as [Hlt|Hge]; [reflexivity|].
    destruct Hg as [Hg|Hg]; [lia | rewrite Hg; reflexivity]. }
  rewrite E2, Hex.
  set (nov := total_voter_power (s_rounds s) (s_id s) (s_prev s) =? 0).
  assert (Hbn : 0 <= (if nov then s_burn s else half_burn (s_burn s)) <= s_burn s).
  { destruct nov; [lia | rewrite Hhb; lia]. }
  set (bn := if nov then s_burn s else half_burn (s_burn s)) in *.
  destruct (Z.ltb_spec (s_esc s) bn) as [Hlt|Hge]; [lia|].
  destruct (is_invalid (s_result s)) eqn:Ei.
  { destruct (return_slashed_succeeds (set_money s (s_esc s - bn) (s_burned s + bn) (s_liq s) (s_stk s)) (s_slash s)) as [s2 E].
    - lia. - proj. lia. - proj. exact Htr.
    - rewrite E. eexists. reflexivity. }
  destruct (is_support (s_result s)) eqn:Es; [eexists; reflexivity|].
  destruct (is_against (s_result s)) eqn:Ea.
  { destruct (return_slashed_succeeds (set_money s (s_esc s - bn) (s_burned s + bn) (s_liq s) (s_stk s))
                (s_slash s + (s_feetotal s - s_burn s))) as [s2 E].
    - lia. - proj. lia. - proj. exact Htr.
    - rewrite E. eexists. reflexivity. }
  exfalso. unfold is_invalid, is_support, is_against in *.
  apply orb_false_iff in Ei, Es, Ea. destruct Ei as [A1 A2], Es as [A3 A4], Ea as [A5 A6].
  apply Z.eqb_neq in A1, A2, A3, A4, A5, A6. lia.
Qed.

(* ---- operations that cannot touch an unexecuted dispute ---- *)
Lemma withdraw_noop s who id : s_status s <> Failed -> s_executed s = false -> fst (withdraw s who id) = s.
Proof.
  intros Hf He. unfold withdraw.
  destruct ((s_id s =? 0) || negb (existsb (Z.eqb id) (s_prev s))); [reflexivity|].
  destruct (find_payer (s_payers s) id who) as [p|]; [|reflexivity].
  destruct (negb (id =? s_id s)); [reflexivity|].
  destruct (Z.eqb_spec (s_status s) Failed) as [E|_]; [contradiction|].
  destruct (s_status s =? Prevote); [reflexivity|]. rewrite He. reflexivity.
Qed.

Lemma claim_noop fx s who id : s_executed s = false -> fst (claim fx s who id) = s.
Proof.
  intros He. unfold claim.
  destruct ((s_id s =? 0) || negb (existsb (Z.eqb id) (s_prev s))); [reflexivity|].
  destruct (negb (id =? s_id s)); [reflexivity|]. destruct (negb (s_status s =? Resolved)); [reflexivity|].
  destruct (match find_voter (s_rounds s) id who with Some v0 => v_claimed v0 | None => false end); [reflexivity|].
  rewrite He. reflexivity.
Qed.

(* the dispute record proper: untouched by refunds and reward claims *)
Definition core (s : st) := (s_now s, s_id s, s_slash s, s_feetotal s, s_status s, s_pending s, s_executed s, s_end s).

Lemma refund_fee_core s who p t f : core (fst (fst (refund_fee s who p t f))) = core s.
Proof.
  unfold refund_fee. destruct (refund6 (p_amt p) f t <? 0); [reflexivity|].
  destruct (negb (p_bond p)); [destruct (s_esc s <? _); reflexivity|].
  destruct (s_feetr s) as [[os tot]|]; [|reflexivity].
  destruct ((tot =? 0) && _); [reflexivity|]. destruct (s_esc s <? _); reflexivity.
Qed.
Lemma reward_bond_core s who p t b : core (fst (fst (reward_bond s who p t b))) = core s.
Proof.
  unfold reward_bond. destruct (bond6 (p_amt p) b t <? 0); [reflexivity|]. destruct (s_esc s <? _); reflexivity.
Qed.
Lemma finish_withdraw_core s who id d : core (fst (finish_withdraw s who id d)) = core s.
Proof. unfold finish_withdraw. destruct (negb _ && _); reflexivity. Qed.

Lemma withdraw_core s who id : core (fst (withdraw s who id)) = core s.
Proof.
  unfold withdraw.
  destruct ((s_id s =? 0) || negb (existsb (Z.eqb id) (s_prev s))); [reflexivity|].
  destruct (find_payer (s_payers s) id who) as [p|]; [|reflexivity].
  destruct (negb (id =? s_id s)); [reflexivity|].
  assert (Two : forall t f d, core (fst (match refund_fee s who p t f with
                  | (s1, 0, f0) => match finish_withdraw s1 who id (d f0) with (s3, 0) => (s3, OK) | (_, e) => (s, e) end
                  | (_, e, _) => (s, e) end)) = core s).
  { intros t f d. pose proof (refund_fee_core s who p t f) as C1.
    destruct (refund_fee s who p t f) as [[s1 [|e|e]] f0]; try reflexivity. cbn [fst] in C1.
    pose proof (finish_withdraw_core s1 who id (d f0)) as C3.
    destruct (finish_withdraw s1 who id (d f0)) as [s3 [|e|e]]; try reflexivity. cbn [fst] in *. congruence. }
  destruct (s_status s =? Failed); [exact (Two _ _ (fun f0 => s_dust s + f0))|].
  destruct (s_status s =? Prevote); [reflexivity|]. destruct (negb (s_executed s)); [reflexivity|].
  destruct (is_invalid (s_result s)); [exact (Two _ _ (fun f0 => s_dust s + f0))|].
  destruct (is_support (s_result s)); [|reflexivity].
  pose proof (refund_fee_core s who p (s_feetotal s) (s_slash s - s_burn s)) as C1.
  destruct (refund_fee s who p (s_feetotal s) (s_slash s - s_burn s)) as [[s1 [|e|e]] f1]; try reflexivity. cbn [fst] in C1.
  pose proof (reward_bond_core s1 who p (s_feetotal s) (s_slash s)) as C2.
  destruct (reward_bond s1 who p (s_feetotal s) (s_slash s)) as [[s2 [|e|e]] f2]; try reflexivity. cbn [fst] in C2.
  pose proof (finish_withdraw_core s2 who id (s_dust s + f1 + f2)) as C3.
  destruct (finish_withdraw s2 who id (s_dust s + f1 + f2)) as [s3 [|e|e]]; try reflexivity. cbn [fst] in *. congruence.
Qed.

Lemma claim_core fx s who id : core (fst (claim fx s who id)) = core s.
Proof.
  unfold claim.
  destruct ((s_id s =? 0) || negb (existsb (Z.eqb id) (s_prev s))); [reflexivity|].
  destruct (negb (id =? s_id s)); [reflexivity|]. destruct (negb (s_status s =? Resolved)); [reflexivity|].
  destruct (match find_voter (s_rounds s) id who with Some v0 => v_claimed v0 | None => false end); [reflexivity|].
  destruct (negb (s_executed s)); [reflexivity|].
  destruct (acc_powers fx (s_rounds s) who (s_prev s)) as [pw|]; [|reflexivity].
  destruct (groups pw =? 0); [reflexivity|]. destruct (reward_of pw (s_reward s) =? 0); [reflexivity|].
  destruct (reward_of pw (s_reward s) <? 0); [reflexivity|]. destruct (s_esc s <? _); reflexivity.
Qed.

Definition phases (c : cfg) (s : st) : Prop :=
  (s_id s = 0 /\ 0 <= s_esc s) \/ prevote_inv c s \/ funded_inv c s \/ failed_inv s \/ done_inv s.

(* a payment from an account that completes (or not) the fee of a dispute in prevote *)
Lemma funded_phase c s1 ft payers sl s2 :
  0 < c_S c -> snapshot_full c sl ->
  s_id s1 <> 0 -> s_executed s1 = false -> s_slash s1 = c_S c -> s_burn s1 = five_percent (c_S c) ->
  s_status s1 = Prevote -> s_pending s1 = false -> 0 <= ft <= c_S c -> ft + s_feetotal s1 <= s_esc s1 + s_feetotal s1 ->
  ft <= s_esc s1 ->
  funded s1 ft payers sl = Some s2 -> phases c s2.
Proof.
  intros HS (os & t & -> & Hsum) Hid Hex Hsl Hb Hst Hpe Hft _ Hesc. unfold funded.
  destruct (Z.eqb_spec ft (s_slash s1)) as [E|E].
  - intros H. injection H as <-. right. right. left. unfold funded_inv. proj.
    repeat split; try assumption; try lia; try discriminate; congruence.
  - intros H. injection H as <-. right. left. unfold prevote_inv. proj. repeat split; try assumption; lia.
Qed.

Lemma step_P0 v c s o : 0 < c_S c -> s_id s = 0 -> 0 <= s_esc s -> op_ok c s o -> phases c (fst (step v c s o)).
Proof.
  intros HS Hid Hesc Hop. assert (Hph : phases c s) by (left; split; assumption).
  destruct o as [who fee bond ft sl|who id fee bond ft sl|now|st' op' pe' r'|rs| |id|who id|who id|]; cbn [step fst].
  - destruct Hop as (-> & _ & Hsl). unfold propose.
    destruct (Z.ltb_spec fee MIN_FEE) as [Hf|Hf]; [exact Hph|]. rewrite Hid. cbn [Z.eqb]. unfold MIN_FEE in Hf.
    set (amt := if c_S c <? fee then c_S c else fee).
    assert (Ha : 0 < amt <= c_S c) by (unfold amt; destruct (Z.ltb_spec (c_S c) fee); lia).
    unfold pay. proj. destruct (getz (s_liq s) who <? amt); [exact Hph|].
    match goal with |- context [funded ?a ?b ?p ?q] => destruct (funded a b p q) as [s2|] eqn:Ef end; [|exact Hph].
    cbn [fst]. eapply funded_phase; [exact HS | exact Hsl | .. | exact Ef]; proj; try reflexivity; try discriminate; lia.
  - unfold add_fee. destruct (fee <=? 0); [exact Hph|]. rewrite Hid. cbn [Z.eqb]. rewrite orb_true_r. exact Hph.
  - left. proj. split; assumption.
  - unfold tally. rewrite Hid. exact Hph.
  - unfold set_votes. destruct (s_executed s); [exact Hph|]. left. proj. split; assumption.
  - unfold_eb. rewrite Hid. exact Hph.
  - rewrite Hid. exact Hph.
  - unfold withdraw. rewrite Hid. exact Hph.
  - unfold claim. rewrite Hid. exact Hph.
  - exact Hph.
Qed.

Lemma tally_allowed_spec from to :
  tally_allowed from to = true ->
  from = to \/ (from = Voting /\ (to = Voting \/ to = Resolved \/ to = Unresolved)) \/ (from = Prevote /\ (to = Prevote \/ to = Failed)).
Proof. unfold tally_allowed. rewrite !orb_true_iff, !andb_true_iff, !orb_true_iff, !Z.eqb_eq. tauto. Qed.

Lemma step_P1 v c s o : 0 < c_S c -> prevote_inv c s -> op_ok c s o -> phases c (fst (step v c s o)).
Proof.
  intros HS Hinv Hop. assert (Hph : phases c s) by (right; left; exact Hinv).
  destruct Hinv as (Hid & Hex & Hsl & Hb & Hst & Hpe & Hft & Hesc).
  destruct o as [who fee bond ft sl|who id fee bond ft sl|now|st' op' pe' r'|rs| |id|who id|who id|]; cbn [step fst].
  - destruct Hop as (_ & H0 & _). contradiction.
  - destruct Hop as (-> & Hfull). unfold add_fee.
    destruct (Z.leb_spec fee 0) as [Hf|Hf]; [exact Hph|].
    destruct (negb (id =? s_id s) || (s_id s =? 0)); [exact Hph|].
    destruct ((who =? c_reporter c) && false); [exact Hph|]. destruct (s_end s <? s_now s); [exact Hph|].
    destruct (s_slash s <=? s_feetotal s); [exact Hph|].
    set (amt := if s_slash s <? s_feetotal s + fee then s_slash s - s_feetotal s else fee).
    assert (Ha : 0 < amt /\ s_feetotal s + amt <= c_S c).
    { unfold amt. destruct (Z.ltb_spec (s_slash s) (s_feetotal s + fee)); lia. }
    unfold pay. destruct (getz (s_liq s) who <? amt); [exact Hph|]. proj.
    match goal with |- context [funded ?a ?b ?p ?q] => destruct (funded a b p q) as [s2|] eqn:Ef end; [|exact Hph].
    cbn [fst]. eapply funded_phase; [exact HS | exact Hfull | .. | exact Ef]; proj; try assumption; lia.
  - right. left. unfold prevote_inv. proj. repeat split; try assumption; lia.
  - destruct Hop as [Hop1 Hop2]. unfold tally.
    destruct ((s_id s =? 0) || s_executed s || negb (tally_allowed (s_status s) st')) eqn:Eg; [exact Hph|].
    apply orb_false_iff in Eg. destruct Eg as [_ Eg]. apply negb_false_iff in Eg.
    assert (Hst' : st' = Prevote \/ st' = Failed).
    { apply tally_allowed_spec in Eg. unfold Prevote, Voting, Resolved, Unresolved, Failed in *. lia. }
    assert (Hpe' : pe' = false).
    { destruct pe'; [|reflexivity]. destruct (Hop1 eq_refl) as [_ [H|H]]; destruct Hst' as [H'|H']; rewrite H' in H; discriminate H. }
    subst pe'. destruct Hst' as [->| ->].
    + right. left. unfold prevote_inv. proj. repeat split; try assumption; lia.
    + right. right. right. left. unfold failed_inv. proj. repeat split; try assumption. apply Hop2. reflexivity.
  - unfold set_votes. rewrite Hex. right. left. unfold prevote_inv. proj. repeat split; try assumption; lia.
  - unfold_eb. rewrite Hpe, andb_false_r. exact Hph.
  - destruct ((s_id s =? 0) || negb (id =? s_id s)); [exact Hph|].
    unfold_ev. cbv zeta. rewrite Hst. exact Hph.
  - rewrite withdraw_noop; [exact Hph | rewrite Hst; discriminate | exact Hex].
  - rewrite claim_noop; [exact Hph | exact Hex].
  - exact Hph.
Qed.

(* ExecuteVote on a funded dispute: either it goes through and the dispute is settled for good, or nothing changes *)
Lemma execute_vote_phase c s :
  0 < c_S c -> funded_inv c s -> phases c (fst (execute_vote true s)).
Proof.
  intros HS Hinv. pose proof Hinv as (Hid & Hex & Hsl & Hb & Hft & Hst & Hesc & Htr & Hp).
  destruct (execute_vote_cases true s) as [[s' E]|[e E]]; rewrite E; cbn [fst].
  - right. right. right. right. split.
    + apply (execute_makes_settled s s'); [rewrite Hb, five_percent_eq by lia; apply Z.div_pos; lia | exact Hid | lia | exact E].
    + assert (H0 : 0 <= s_burn s) by (rewrite Hb, five_percent_eq by lia; apply Z.div_pos; lia).
      pose proof (execute_vote_amounts true s s' H0 E) as H. cbv zeta in H. destruct H as (_ & _ & H & _). exact H.
  - right. right. left. exact Hinv.
Qed.

Lemma step_P2 v c s o : fixc v = true -> 0 < c_S c -> funded_inv c s -> op_ok c s o -> phases c (fst (step v c s o)).
Proof.
  intros Hfx HS Hinv Hop. assert (Hph : phases c s) by (right; right; left; exact Hinv).
  pose proof Hinv as (Hid & Hex & Hsl & Hb & Hft & Hst & Hesc & Htr & Hp).
  destruct o as [who fee bond ft sl|who id fee bond ft sl|now|st' op' pe' r'|rs| |id|who id|who id|]; cbn [step fst].
  - destruct Hop as (_ & H0 & _). contradiction.
  - unfold add_fee. destruct (fee <=? 0); [exact Hph|].
    destruct (negb (id =? s_id s) || (s_id s =? 0)); [exact Hph|].
    destruct ((who =? c_reporter c) && bond); [exact Hph|]. destruct (s_end s <? s_now s); [exact Hph|].
    destruct (Z.leb_spec (s_slash s) (s_feetotal s)); [exact Hph | lia].
  - right. right. left. unfold funded_inv. proj. repeat split; try assumption; apply Hp; assumption.
  - destruct Hop as [Hop1 Hop2]. unfold tally.
    destruct ((s_id s =? 0) || s_executed s || negb (tally_allowed (s_status s) st')) eqn:Eg; [exact Hph|].
    apply orb_false_iff in Eg. destruct Eg as [_ Eg]. apply negb_false_iff in Eg. apply tally_allowed_spec in Eg.
    right. right. left. unfold funded_inv. proj. repeat split; try assumption;
      try (match goal with H : pe' = true |- _ => apply Hop1 in H end);
      unfold Prevote, Voting, Resolved, Unresolved, Failed in *; lia.
  - unfold set_votes. rewrite Hex. right. right. left. unfold funded_inv. proj. repeat split; try assumption; apply Hp; assumption.
  - unfold_eb. rewrite Hfx. destruct (negb (s_id s =? 0) && s_pending s && _); [|exact Hph].
    apply execute_vote_phase; assumption.
  - rewrite Hfx. destruct ((s_id s =? 0) || negb (id =? s_id s)); [exact Hph|]. apply execute_vote_phase; assumption.
  - rewrite withdraw_noop; [exact Hph | unfold Prevote, Voting, Resolved, Unresolved, Failed in *; lia | exact Hex].
  - rewrite claim_noop; [exact Hph | exact Hex].
  - exact Hph.
Qed.

Lemma step_PF v c s o : failed_inv s -> op_ok c s o -> phases c (fst (step v c s o)).
Proof.
  intros Hinv Hop. assert (Hph : phases c s) by (right; right; right; left; exact Hinv).
  pose proof Hinv as (Hid & Hex & Hst & Hpe & Hend).
  destruct o as [who fee bond ft sl|who id fee bond ft sl|now|st' op' pe' r'|rs| |id|who id|who id|]; cbn [step fst].
  - destruct Hop as (_ & H0 & _). contradiction.
  - unfold add_fee. destruct (fee <=? 0); [exact Hph|].
    destruct (negb (id =? s_id s) || (s_id s =? 0)); [exact Hph|].
    destruct ((who =? c_reporter c) && bond); [exact Hph|].
    destruct (Z.ltb_spec (s_end s) (s_now s)); [exact Hph | lia].
  - cbn [op_ok] in Hop. right. right. right. left. unfold failed_inv. proj. repeat split; try assumption; lia.
  - destruct Hop as [Hop1 Hop2]. unfold tally.
    destruct ((s_id s =? 0) || s_executed s || negb (tally_allowed (s_status s) st')) eqn:Eg; [exact Hph|].
    apply orb_false_iff in Eg. destruct Eg as [_ Eg]. apply negb_false_iff in Eg. apply tally_allowed_spec in Eg.
    assert (Hst' : st' = Failed) by (unfold Prevote, Voting, Resolved, Unresolved, Failed in *; lia).
    assert (Hpe' : pe' = false).
    { destruct pe'; [|reflexivity]. destruct (Hop1 eq_refl) as [_ H]. unfold Prevote, Voting, Resolved, Unresolved, Failed in *. lia. }
    subst. right. right. right. left. unfold failed_inv. proj. repeat split; assumption.
  - unfold set_votes. rewrite Hex. right. right. right. left. unfold failed_inv. proj. repeat split; assumption.
  - unfold_eb. rewrite Hpe, andb_false_r. exact Hph.
  - destruct ((s_id s =? 0) || negb (id =? s_id s)); [exact Hph|].
    unfold_ev. cbv zeta. rewrite Hst. exact Hph.
  - pose proof (withdraw_core s who id) as C. unfold core in C. injection C as C1 C2 C3 C4 C5 C6 C7 C8.
    right. right. right. left. unfold failed_inv. rewrite C2, C5, C6, C7, C8, C1. repeat split; assumption.
  - rewrite claim_noop; [exact Hph | exact Hex].
  - exact Hph.
Qed.

Lemma step_PX v c s o : fixc v = true -> done_inv s -> done_inv (fst (step v c s o)).
Proof.
  intros Hfx [Hs Hpe]. split; [apply settled_step; assumption|].
  pose proof Hs as (He & Hst & Hid & Hsl).
  assert (Hid0 : (s_id s =? 0) = false) by (apply Z.eqb_neq; exact Hid).
  destruct o as [who fee bond ft sl|who id fee bond ft sl|now|st' op' pe' r'|rs| |id|who id|who id|]; cbn [step fst].
  - unfold propose. destruct (fee <? MIN_FEE); [exact Hpe|]. rewrite Hid0, Hst. exact Hpe.
  - unfold add_fee. destruct (fee <=? 0); [exact Hpe|].
    destruct (negb (id =? s_id s) || (s_id s =? 0)); [exact Hpe|].
    destruct ((who =? c_reporter c) && bond); [exact Hpe|]. destruct (s_end s <? s_now s); [exact Hpe|].
    destruct (Z.leb_spec (s_slash s) (s_feetotal s)); [exact Hpe | lia].
  - exact Hpe.
  - unfold tally. rewrite He, orb_true_r. exact Hpe.
  - unfold set_votes. rewrite He. exact Hpe.
  - unfold_eb. rewrite Hpe, andb_false_r. exact Hpe.
  - destruct ((s_id s =? 0) || negb (id =? s_id s)); [exact Hpe|]. rewrite settled_execute by exact Hs. exact Hpe.
  - pose proof (withdraw_core s who id) as C. unfold core in C. injection C as C1 C2 C3 C4 C5 C6 C7 C8. rewrite C6. exact Hpe.
  - pose proof (claim_core (fix35 v) s who id) as C. unfold core in C. injection C as C1 C2 C3 C4 C5 C6 C7 C8. rewrite C6. exact Hpe.
  - exact Hpe.
Qed.

Lemma step_sinv v c s o : fixc v = true -> sinv c s -> op_ok c s o -> sinv c (fst (step v c s o)).
Proof.
  intros Hfx [HS Hinv] Hop. split; [exact HS|]. fold (phases c (fst (step v c s o))).
  destruct Hinv as [[P0 P0']|[P1|[P2|[PF|PX]]]].
  - apply step_P0; assumption.
  - apply step_P1; assumption.
  - apply step_P2; assumption.
  - eapply step_PF; eassumption.
  - right. right. right. right. apply step_PX; assumption.
Qed.

(* the begin blocker's execution step succeeds in every state of the invariant *)
Theorem exec_block_never_fails v c s : fixc v = true -> sinv c s -> snd (step v c s OExecBlock) = OK.
Proof.
  intros Hfx [HS Hinv]. cbn [step]. unfold_eb.
  destruct (negb (s_id s =? 0) && s_pending s && ((s_end s <? s_now s) || (s_status s =? Resolved))) eqn:G; [|reflexivity].
  apply andb_prop in G. destruct G as [G G3]. apply andb_prop in G. destruct G as [G1 G2].
  destruct Hinv as [[P0 _]|[P1|[P2|[PF|PX]]]].
  - rewrite P0 in G1. discriminate G1.
  - destruct P1 as (_ & _ & _ & _ & _ & Hpe & _). congruence.
  - assert (Hg : s_end s < s_now s \/ s_status s = Resolved).
    { apply orb_prop in G3. destruct G3 as [G3|G3]; [left; apply Z.ltb_lt; exact G3 | right; apply Z.eqb_eq; exact G3]. }
    destruct (execute_vote_succeeds c (fixc v) s HS P2 G2 Hg) as [s' E]. rewrite E. reflexivity.
  - destruct PF as (_ & _ & _ & Hpe & _). congruence.
  - destruct PX as [_ Hpe]. congruence.
Qed.

Theorem every_exec_block_succeeds v c : fixc v = true -> forall ops s,
  sinv c s -> env_ok v c s ops -> exec_blocks_succeed v c s ops.
Proof.
  intros Hfx. induction ops as [|o r IH]; intros s Hi He; cbn [exec_blocks_succeed]; [exact I|].
  destruct He as [Ho He]. split.
  - destruct o; try exact I. apply exec_block_never_fails; assumption.
  - apply IH; [apply step_sinv; assumption | exact He].
Qed.

Lemma init_sinv c now liq stk : 0 < c_S c -> sinv c (init_st now liq stk).
Proof. intros HS. split; [exact HS|]. left. split; [reflexivity | cbn; lia]. Qed.

(* non-vacuity: two payers from their accounts, begin blocks before and after the vote, AGAINST with a voter,
   execution inside the begin blocker, a reward claim *)
Definition ex_ops : list op :=
  [OPropose 1 50000 false None snap; OExecBlock; OAddFee 2 1 100000 false None snap; OExecBlock;
   OTime (THREE_DAYS + 1); OTally Resolved false true 2; OVotes (votes1 500 0); OExecBlock; OClaim 1 1; OExecBlock].

Example ex_hypotheses : sinv cfg0 st0 /\ env_ok repo_variant cfg0 st0 ex_ops.
Proof.
  split; [apply init_sinv; reflexivity|].
  cbn [env_ok ex_ops]. repeat match goal with |- _ /\ _ => split end; try exact I.
  - cbn [op_ok]. split; [reflexivity|]. split; [reflexivity|]. exists [(0, 150000)], 150000. split; reflexivity.
  - cbn [op_ok]. split; [reflexivity|]. exists [(0, 150000)], 150000. split; reflexivity.
  - cbn [op_ok]. vm_compute. intros H; discriminate H.
  - cbn [op_ok]. split; [intros _; split; [lia | left; reflexivity] | intros H; discriminate H].
Qed.

Example ex_nontrivial :
  codes repo_variant cfg0 st0 ex_ops = [OK; OK; OK; OK; OK; OK; OK; OK; OK; OK]
  /\ (let s := run repo_variant cfg0 st0 (firstn 7 ex_ops) in
      (s_status s, s_pending s, s_executed s, s_esc s) = (Resolved, true, false, 300000))
  /\ (let s := run repo_variant cfg0 st0 ex_ops in
      (s_executed s, s_pending s, s_esc s, s_burned s, getz (s_stk s) 0) = (true, false, 0, 3750, 10000000 + 142500)).
Proof. vm_compute. repeat split; reflexivity. Qed.
End Settle.
