From Coq Require Import ZArith List Bool Lia String Ascii Permutation Sorted.
From Verif Require Import Base.Harness Model.OracleAgg.
Import ListNotations.
Open Scope Z_scope.

(* ====================================================================================== *)
(* weighted median                                                                          *)
(* ====================================================================================== *)
Definition pow_lt (l : list rep) (v : Z) := sumpw (filter (fun r => val r <? v) l).
Definition pow_le (l : list rep) (v : Z) := sumpw (filter (fun r => val r <=? v) l).

Lemma sumpw_app a b : sumpw (a ++ b) = sumpw a + sumpw b.
Proof. induction a; cbn [app sumpw] in *; lia. Qed.

Lemma sumpw_perm a b : Permutation a b -> sumpw a = sumpw b.
Proof. induction 1; cbn [sumpw] in *; lia. Qed.

Lemma insert_perm r l : Permutation (r :: l) (insert r l).
Proof.
  induction l as [|x t IH]; cbn [insert]; [reflexivity|].
  destruct (val r <=? val x); [reflexivity|].
  rewrite perm_swap. constructor. exact IH.
Qed.

Lemma ssort_perm l : Permutation l (ssort l).
Proof.
  induction l as [|x t IH]; cbn [ssort fold_right]; [constructor|].
  rewrite <- insert_perm. constructor. exact IH.
Qed.

Definition sorted (l : list rep) := StronglySorted (fun a b => val a <= val b) l.

Lemma insert_sorted r l : sorted l -> sorted (insert r l).
Proof.
  unfold sorted. induction 1 as [|x t Hs IH Hx]; cbn [insert].
  - constructor; constructor.
  - destruct (val r <=? val x) eqn:E.
    + apply Z.leb_le in E. constructor; [constructor; assumption|].
      constructor; [exact E|]. eapply Forall_impl; [|exact Hx]. cbn; intros; lia.
    + apply Z.leb_gt in E. constructor; [exact IH|].
      eapply Permutation_Forall; [apply insert_perm|]. constructor; [lia|exact Hx].
Qed.

Lemma ssort_sorted l : sorted (ssort l).
Proof. induction l; cbn [ssort fold_right]; [constructor | apply insert_sorted; assumption]. Qed.

Lemma filter_perm {A} (f : A -> bool) a b : Permutation a b -> Permutation (filter f a) (filter f b).
Proof.
  induction 1; cbn [filter].
  - constructor.
  - destruct (f x); [constructor|]; assumption.
  - destruct (f x), (f y); try reflexivity; try constructor; reflexivity.
  - etransitivity; eassumption.
Qed.

Lemma sumpw_filter_le f l : Forall (fun r => 0 <= pw r) l -> 0 <= sumpw (filter f l) <= sumpw l.
Proof.
  induction 1 as [|x t Hx _ IH]; cbn [filter sumpw]; [lia|].
  destruct (f x); cbn [sumpw] in *; lia.
Qed.

Lemma sorted_mid pre x t : sorted (pre ++ x :: t) ->
  Forall (fun a => val a <= val x) pre /\ Forall (fun b => val x <= val b) t.
Proof.
  unfold sorted. induction pre as [|a p IH]; cbn [app]; intros H.
  - inversion H; subst. split; [constructor | assumption].
  - inversion H as [|? ? Hs Hall]; subst. destruct (IH Hs) as [H1 H2]. split; [|exact H2].
    constructor; [|exact H1]. rewrite Forall_app in Hall. destruct Hall as [_ Hx].
    inversion Hx; subst; assumption.
Qed.

(* key lemma: on a sorted list, pick returns (index, x) with the two half-power bounds *)
Lemma pick_spec T : forall l pre,
  sorted (pre ++ l) -> Forall (fun r => 0 <= pw r) (pre ++ l) ->
  2 * sumpw pre < T -> T <= 2 * sumpw (pre ++ l) ->
  exists i x, pick T (sumpw pre) (Z.of_nat (List.length pre)) l = Some (i, x) /\ In x l /\
            nth_error (pre ++ l) (Z.to_nat i) = Some x /\ 0 <= i /\
            2 * pow_lt (pre ++ l) (val x) < T /\ T <= 2 * pow_le (pre ++ l) (val x).
Proof.
  induction l as [|x t IH]; intros pre Hs Hp Hlo Hhi.
  - rewrite app_nil_r in Hhi. lia.
  - cbn [pick]. destruct (T <=? 2 * (sumpw pre + pw x)) eqn:E.
    + apply Z.leb_le in E. exists (Z.of_nat (List.length pre)), x. split; [reflexivity|]. split; [left; reflexivity|].
      split; [rewrite Nat2Z.id, nth_error_app2, Nat.sub_diag by lia; reflexivity|]. split; [lia|].
      unfold pow_lt, pow_le. rewrite !filter_app, !sumpw_app. cbn [filter].
      rewrite Z.ltb_irrefl, Z.leb_refl. cbn [sumpw].
      destruct (sorted_mid pre x t Hs) as [Hprex Hall].
      rewrite Forall_app in Hp. destruct Hp as [Hp1 Hp2]. inversion Hp2 as [|? ? Hpx Hpt]; subst.
      assert (F1 : sumpw (filter (fun r => val r <? val x) t) = 0).
      { clear - Hall. induction Hall as [|a t' Ha _ IHt]; [reflexivity|]. cbn [filter].
        destruct (val a <? val x) eqn:E1; [apply Z.ltb_lt in E1; lia | exact IHt]. }
      assert (F2 : sumpw (filter (fun r => val r <=? val x) pre) = sumpw pre).
      { clear - Hprex. induction Hprex as [|a p Ha _ IHp]; [reflexivity|]. cbn [filter].
        destruct (val a <=? val x) eqn:E1; [cbn [sumpw] in *; lia | apply Z.leb_gt in E1; lia]. }
      pose proof (sumpw_filter_le (fun r => val r <? val x) pre Hp1).
      pose proof (sumpw_filter_le (fun r => val r <=? val x) t Hpt).
      rewrite F1, F2. lia.
    + apply Z.leb_gt in E.
      specialize (IH (pre ++ [x])). rewrite <- app_assoc in IH. cbn [app] in IH.
      rewrite sumpw_app in IH. cbn [sumpw] in IH. rewrite Z.add_0_r in IH.
      rewrite app_length in IH. cbn [List.length] in IH.
      replace (Z.of_nat (List.length pre + 1)) with (Z.of_nat (List.length pre) + 1) in IH by lia.
      destruct (IH Hs Hp ltac:(lia) Hhi) as (i & y & Hy & Hin & Hn & Hi & B1 & B2).
      exists i, y. split; [exact Hy|]. split; [right; exact Hin|]. repeat split; assumption.
Qed.

Lemma sumpw_pos l : l <> [] -> Forall (fun r => 1 <= pw r) l -> 0 < sumpw l.
Proof.
  intros Hne Hpw. destruct l as [|a t]; [congruence|]. inversion Hpw as [|? ? Ha Ht]; subst. cbn [sumpw].
  assert (0 <= sumpw t). { clear - Ht. induction Ht; cbn [sumpw]; lia. } lia.
Qed.

Theorem wmedian_correct l :
  l <> [] -> Forall (fun r => 1 <= pw r) l ->
  exists i x, pick (sumpw l) 0 0 (ssort l) = Some (i, x) /\ In x l /\
            nth_error (ssort l) (Z.to_nat i) = Some x /\ 0 <= i /\
            2 * pow_lt l (val x) < sumpw l /\ sumpw l <= 2 * pow_le l (val x).
Proof.
  intros Hne Hpw.
  assert (Hperm := ssort_perm l).
  assert (Hpos := sumpw_pos l Hne Hpw).
  assert (Hp0 : Forall (fun r => 0 <= pw r) (ssort l)).
  { eapply Permutation_Forall; [exact Hperm|]. eapply Forall_impl; [|exact Hpw]. cbn; intros; lia. }
  destruct (pick_spec (sumpw l) (ssort l) [] (ssort_sorted l) Hp0 ltac:(cbn; lia)
              ltac:(cbn [app]; rewrite <- (sumpw_perm _ _ Hperm); lia)) as (i & x & Hx & Hin & Hn & Hi & B1 & B2).
  exists i, x. cbn [sumpw app List.length] in *. split; [exact Hx|]. split.
  - eapply Permutation_in; [symmetry; exact Hperm | exact Hin].
  - split; [exact Hn|]. split; [exact Hi|]. unfold pow_lt, pow_le in *.
    rewrite (sumpw_perm _ _ (filter_perm (fun r => val r <? val x) _ _ Hperm)).
    rewrite (sumpw_perm _ _ (filter_perm (fun r => val r <=? val x) _ _ Hperm)). split; assumption.
Qed.

Lemma pow_lt_le_mono l v v' : Forall (fun r => 0 <= pw r) l -> v < v' -> pow_le l v <= pow_lt l v'.
Proof.
  unfold pow_le, pow_lt. induction 1 as [|x t Hx _ IH]; intros Hv; cbn [filter sumpw]; [lia|].
  specialize (IH Hv).
  destruct (val x <=? v) eqn:E1; destruct (val x <? v') eqn:E2; cbn [sumpw];
    try apply Z.leb_le in E1; try apply Z.leb_gt in E1; try apply Z.ltb_lt in E2; try apply Z.ltb_ge in E2; lia.
Qed.

Lemma median_value_unique l T v v' : Forall (fun r => 0 <= pw r) l ->
  2 * pow_lt l v < T -> T <= 2 * pow_le l v -> 2 * pow_lt l v' < T -> T <= 2 * pow_le l v' -> v = v'.
Proof.
  intros Hp A1 A2 B1 B2. destruct (Z.lt_trichotomy v v') as [H|[H|H]]; [|exact H|].
  - pose proof (pow_lt_le_mono l v v' Hp H). lia.
  - pose proof (pow_lt_le_mono l v' v Hp H). lia.
Qed.

(* ---- from parsed reps to reports ------------------------------------------------------- *)
Definition rep_of (r : mreport) (x : rep) : Prop :=
  who x = r_who r /\ pw x = r_pw r /\ sval x = r_value r /\ blk x = r_blk r /\ parse16 (r_value r) = Some (val x).

Lemma to_reps_forall2 rs l : to_reps rs = Some l -> Forall2 rep_of rs l.
Proof.
  revert l. induction rs as [|r t IH]; cbn [to_reps]; intros l H.
  - injection H as <-. constructor.
  - destruct (parse16 (r_value r)) as [v|] eqn:Ev; [|discriminate].
    destruct (to_reps t) as [l'|]; [|discriminate]. injection H as <-.
    constructor; [|apply IH; reflexivity]. unfold rep_of. cbn. auto.
Qed.

Lemma forall2_sum rs l : Forall2 rep_of rs l -> sum_power rs = sumpw l.
Proof. induction 1 as [|r x rs l H _ IH]; cbn [sum_power sumpw]; [reflexivity|]. destruct H as (_ & -> & _). lia. Qed.

Lemma forall2_pow_lt rs l v : Forall2 rep_of rs l -> pow_lt_s rs v = pow_lt l v.
Proof.
  unfold pow_lt. induction 1 as [|r x rs l H _ IH]; cbn [pow_lt_s filter sumpw]; [reflexivity|].
  destruct H as (_ & Hp & _ & _ & ->). rewrite IH. destruct (val x <? v); cbn [sumpw]; lia.
Qed.
Lemma forall2_pow_le rs l v : Forall2 rep_of rs l -> pow_le_s rs v = pow_le l v.
Proof.
  unfold pow_le. induction 1 as [|r x rs l H _ IH]; cbn [pow_le_s filter sumpw]; [reflexivity|].
  destruct H as (_ & Hp & _ & _ & ->). rewrite IH. destruct (val x <=? v); cbn [sumpw]; lia.
Qed.

Lemma forall2_in_r rs l x : Forall2 rep_of rs l -> In x l -> exists r, In r rs /\ rep_of r x.
Proof.
  induction 1 as [|r y rs l H _ IH]; cbn [In]; [tauto|]. intros [<-|Hin].
  - exists r. auto.
  - destruct (IH Hin) as (r' & ? & ?). exists r'. auto.
Qed.

Lemma forall2_proj rs l : Forall2 rep_of rs l -> map mproj rs = map proj l.
Proof.
  induction 1 as [|r x rs l H _ IH]; cbn [map]; [reflexivity|]. rewrite IH. unfold mproj, proj.
  destruct H as (-> & -> & _ & -> & _). reflexivity.
Qed.

Lemma forall2_pw rs l : Forall2 rep_of rs l -> Forall (fun r => 1 <= r_pw r) rs -> Forall (fun x => 1 <= pw x) l.
Proof.
  induction 1 as [|r x rs l H _ IH]; intros HF; [constructor|]. inversion HF; subst.
  constructor; [destruct H as (_ & -> & _); assumption | apply IH; assumption].
Qed.

Definition is_wmedian (rs : list mreport) (v : Z) : Prop :=
  2 * pow_lt_s rs v < sum_power rs /\ sum_power rs <= 2 * pow_le_s rs v.

Theorem weighted_median_correct rs a :
  rs <> [] -> Forall (fun r => 1 <= r_pw r) rs -> weighted_median rs = Some a ->
  (exists v, parse16 (a_value a) = Some v /\ is_wmedian rs v) /\
  a_power a = sum_power rs /\
  Permutation (map mproj rs) (a_reporters a) /\
  (exists r, In r rs /\ r_who r = a_reporter a /\ r_value r = a_value a /\ r_blk r = a_micro a) /\
  (exists p b, 0 <= a_index a /\ nth_error (a_reporters a) (Z.to_nat (a_index a)) = Some (a_reporter a, p, b)).
Proof.
  intros Hne Hpw H. unfold weighted_median in H.
  destruct (to_reps rs) as [l|] eqn:El; [|discriminate]. cbn [option_map] in H. injection H as <-.
  pose proof (to_reps_forall2 _ _ El) as F2.
  assert (Hl : l <> []) by (destruct F2; [congruence | discriminate]).
  destruct (wmedian_correct l Hl (forall2_pw _ _ F2 Hpw)) as (i & x & Hpick & Hin & Hn & Hi & B1 & B2).
  unfold wmedian_reps. rewrite Hpick. cbn [a_value a_power a_reporters a_reporter a_micro a_index].
  destruct (forall2_in_r _ _ _ F2 Hin) as (r & Hr & Hw & Hp & Hs & Hb & Hv).
  split; [|split; [|split; [|split]]].
  - exists (val x). rewrite Hs. split; [exact Hv|]. unfold is_wmedian.
    rewrite (forall2_pow_lt _ _ _ F2), (forall2_pow_le _ _ _ F2), (forall2_sum _ _ F2). auto.
  - symmetry. apply forall2_sum. exact F2.
  - rewrite (forall2_proj _ _ F2). apply Permutation_map. apply ssort_perm.
  - exists r. rewrite Hw, Hs, Hb. auto.
  - exists (pw x), (blk x). split; [exact Hi|]. rewrite nth_error_map, Hn. reflexivity.
Qed.

(* parse failure and the reps are stable under permutation *)
Lemma to_reps_perm rs rs' : Permutation rs rs' ->
  match to_reps rs, to_reps rs' with
  | Some l, Some l' => Permutation l l'
  | None, None => True
  | _, _ => False
  end.
Proof.
  induction 1 as [|r t t' _ IH|r1 r2 t|a b c _ IH1 _ IH2]; cbn [to_reps].
  - constructor.
  - destruct (parse16 (r_value r)); destruct (to_reps t), (to_reps t'); try tauto. constructor. exact IH.
  - destruct (parse16 (r_value r1)), (parse16 (r_value r2)), (to_reps t); try tauto. constructor.
  - destruct (to_reps a), (to_reps b), (to_reps c); try tauto. etransitivity; eassumption.
Qed.

Theorem weighted_median_order_independent rs rs' a a' :
  Permutation rs rs' -> rs <> [] -> Forall (fun r => 1 <= r_pw r) rs ->
  weighted_median rs = Some a -> weighted_median rs' = Some a' ->
  parse16 (a_value a) = parse16 (a_value a').
Proof.
  intros Hperm Hne Hpw Ha Ha'.
  assert (Hne' : rs' <> []) by (intro E; subst; apply Permutation_sym, Permutation_nil in Hperm; congruence).
  assert (Hpw' : Forall (fun r => 1 <= r_pw r) rs') by (eapply Permutation_Forall; eassumption).
  destruct (weighted_median_correct rs a Hne Hpw Ha) as ((v & Hv & A1 & A2) & _).
  destruct (weighted_median_correct rs' a' Hne' Hpw' Ha') as ((v' & Hv' & B1 & B2) & _).
  rewrite Hv, Hv'. f_equal.
  unfold weighted_median in Ha, Ha'. pose proof (to_reps_perm _ _ Hperm) as HP.
  destruct (to_reps rs) as [l|] eqn:El; [|discriminate]. destruct (to_reps rs') as [l'|] eqn:El'; [|discriminate].
  pose proof (to_reps_forall2 _ _ El) as F. pose proof (to_reps_forall2 _ _ El') as F'.
  rewrite (forall2_pow_lt _ _ _ F), (forall2_sum _ _ F) in A1. rewrite (forall2_pow_le _ _ _ F), (forall2_sum _ _ F) in A2.
  rewrite (forall2_pow_lt _ _ _ F'), (forall2_sum _ _ F') in B1. rewrite (forall2_pow_le _ _ _ F'), (forall2_sum _ _ F') in B2.
  unfold pow_lt, pow_le in B1, B2.
  rewrite <- (sumpw_perm _ _ (filter_perm (fun r => val r <? v') _ _ HP)) in B1.
  rewrite <- (sumpw_perm _ _ (filter_perm (fun r => val r <=? v') _ _ HP)) in B2.
  rewrite <- (sumpw_perm _ _ HP) in B1, B2.
  assert (Hp0 : Forall (fun r => 0 <= pw r) l).
  { eapply Forall_impl; [|exact (forall2_pw _ _ F Hpw)]. cbn; intros; lia. }
  eapply median_value_unique; eassumption.
Qed.

Theorem weighted_median_error_order_independent rs rs' :
  Permutation rs rs' -> (weighted_median rs = None <-> weighted_median rs' = None).
Proof.
  intros Hperm. unfold weighted_median. pose proof (to_reps_perm _ _ Hperm) as HP.
  destruct (to_reps rs), (to_reps rs'); cbn; try tauto; split; discriminate.
Qed.

(* the executable spec is sound for the statement *)
Lemma median_spec_sound rs a :
  median_spec rs a = [] ->
  exists v, parse16 (a_value a) = Some v /\ 2 * pow_lt_s rs v <= sum_power rs /\ sum_power rs <= 2 * pow_le_s rs v.
Proof.
  unfold median_spec. destruct (parse16 (a_value a)) as [v|]; [|discriminate]. intros H.
  apply app_nil_both in H. destruct H as [H _]. apply app_nil_both in H. destruct H as [H1 H2].
  apply spec_if_nil in H1, H2. exists v. split; [reflexivity|]. split; lia.
Qed.

(* ====================================================================================== *)
(* strings: String.ltb is a strict total order                                             *)
(* ====================================================================================== *)
Lemma ascii_compare_trans a b c : Ascii.compare a b = Lt -> Ascii.compare b c = Lt -> Ascii.compare a c = Lt.
Proof. unfold Ascii.compare. rewrite !N.compare_lt_iff. lia. Qed.

Lemma ascii_compare_refl a : Ascii.compare a a = Eq.
Proof. unfold Ascii.compare. apply N.compare_refl. Qed.

Lemma string_compare_trans : forall a b c, String.compare a b = Lt -> String.compare b c = Lt -> String.compare a c = Lt.
Proof.
  induction a as [|x a IH]; intros [|y b] [|z c]; cbn [String.compare]; try congruence.
  destruct (Ascii.compare x y) eqn:E1; destruct (Ascii.compare y z) eqn:E2; try congruence; intros H1 H2.
  - apply Ascii.compare_eq_iff in E1, E2. subst. rewrite ascii_compare_refl. eapply IH; eassumption.
  - apply Ascii.compare_eq_iff in E1. subst. rewrite E2. reflexivity.
  - apply Ascii.compare_eq_iff in E2. subst. rewrite E1. reflexivity.
  - rewrite (ascii_compare_trans _ _ _ E1 E2). reflexivity.
Qed.

Lemma sltb_trans a b c : String.ltb a b = true -> String.ltb b c = true -> String.ltb a c = true.
Proof.
  unfold String.ltb. destruct (String.compare a b) eqn:E1; try discriminate.
  destruct (String.compare b c) eqn:E2; try discriminate. intros _ _.
  rewrite (string_compare_trans _ _ _ E1 E2). reflexivity.
Qed.

Lemma sltb_irrefl a : String.ltb a a = false.
Proof.
  unfold String.ltb. assert (String.compare a a = Eq) as ->; [|reflexivity].
  induction a as [|x a IH]; cbn [String.compare]; [reflexivity|]. rewrite ascii_compare_refl. exact IH.
Qed.

Lemma sltb_tricho a b : String.ltb a b = false -> String.ltb b a = false -> a = b.
Proof.
  unfold String.ltb. rewrite (String.compare_antisym b a).
  destruct (String.compare a b) eqn:E; cbn; try discriminate.
  intros _ _. apply String.compare_eq_iff. exact E.
Qed.

(* ====================================================================================== *)
(* "keep the best" folds are permutation invariant                                          *)
(* ====================================================================================== *)
Section Best.
Variable K : Type.
Variable better : K -> K -> bool.          (* strict *)
Hypothesis better_trans : forall a b c, better a b = true -> better b c = true -> better a c = true.
Hypothesis better_irrefl : forall a, better a a = false.
Hypothesis better_tricho : forall a b, better a b = false -> better b a = false -> a = b.

Definition keep (acc k : K) : K := if better k acc then k else acc.

Lemma better_asym a b : better a b = true -> better b a = false.
Proof.
  intros H. destruct (better b a) eqn:E; [|reflexivity].
  pose proof (better_trans _ _ _ H E) as X. rewrite better_irrefl in X. discriminate.
Qed.

Lemma keep_comm acc a b : keep (keep acc a) b = keep (keep acc b) a.
Proof.
  unfold keep.
  destruct (better a acc) eqn:Ea; destruct (better b acc) eqn:Eb.
  - destruct (better b a) eqn:Eba.
    + rewrite (better_asym _ _ Eba). reflexivity.
    + destruct (better a b) eqn:Eab; [reflexivity|]. apply better_tricho; assumption.
  - rewrite ?Ea, ?Eb. destruct (better b a) eqn:Eba; [|reflexivity].
    pose proof (better_trans _ _ _ Eba Ea). congruence.
  - rewrite ?Ea, ?Eb. destruct (better a b) eqn:Eab; [|reflexivity].
    pose proof (better_trans _ _ _ Eab Eb). congruence.
  - rewrite ?Ea, ?Eb. reflexivity.
Qed.

Lemma fold_keep_perm l l' : Permutation l l' -> forall acc, fold_left keep l acc = fold_left keep l' acc.
Proof.
  induction 1 as [|x t t' _ IH|x y t|a b c _ IH1 _ IH2]; intros acc; cbn [fold_left].
  - reflexivity.
  - apply IH.
  - rewrite keep_comm. reflexivity.
  - rewrite IH1. apply IH2.
Qed.

(* the result is the accumulator or a list element, and nothing in the list beats it *)
Lemma fold_keep_best l : forall acc,
  let m := fold_left keep l acc in
  (m = acc \/ In m l) /\ better acc m = false /\ forall k, In k l -> better k m = false.
Proof.
  induction l as [|x t IH]; intros acc; cbn [fold_left In].
  - split; [left; reflexivity|]. split; [apply better_irrefl | tauto].
  - destruct (IH (keep acc x)) as (H1 & H2 & H3). cbv zeta in *.
    set (m := fold_left keep t (keep acc x)) in *.
    assert (Hx : better x m = false /\ better acc m = false).
    { unfold keep in H2. destruct (better x acc) eqn:E.
      - split; [exact H2|]. destruct (better acc m) eqn:E2; [|reflexivity].
        (* x better acc, acc better m -> x better m, contradiction *)
        pose proof (better_trans _ _ _ E E2). congruence.
      - split; [|exact H2]. destruct (better x m) eqn:E2; [|reflexivity].
        (* m not better than ... : acc is not beaten by x; m not beaten by acc *)
        destruct (better m acc) eqn:E3.
        + pose proof (better_trans _ _ _ E2 E3). congruence.
        + assert (Hm : acc = m) by (apply better_tricho; assumption). rewrite <- Hm in E2. congruence. }
    destruct Hx as [Hx1 Hx2]. split; [|split; [exact Hx2|]].
    + destruct H1 as [H1|H1]; [|right; right; exact H1].
      unfold keep in H1. destruct (better x acc); [right; left; symmetry; exact H1 | left; exact H1].
    + intros k [<-|Hk]; [exact Hx1 | apply H3; exact Hk].
Qed.
End Best.

(* ====================================================================================== *)
(* weighted mode                                                                            *)
(* ====================================================================================== *)
Definition kbetter (a b : Z * string) : bool :=
  (fst b <? fst a) || ((fst a =? fst b) && String.ltb (snd a) (snd b)).

Lemma kbetter_trans a b c : kbetter a b = true -> kbetter b c = true -> kbetter a c = true.
Proof.
  unfold kbetter. destruct a as [fa sa], b as [fb sb], c as [fc sc]. cbn [fst snd].
  rewrite !orb_true_iff, !andb_true_iff, !Z.ltb_lt, !Z.eqb_eq.
  intros [H1|[H1 S1]] [H2|[H2 S2]]; try (left; lia).
  right. split; [lia|]. eapply sltb_trans; eassumption.
Qed.
Lemma kbetter_irrefl a : kbetter a a = false.
Proof. unfold kbetter. rewrite Z.ltb_irrefl, sltb_irrefl, andb_false_r. reflexivity. Qed.
Lemma kbetter_tricho a b : kbetter a b = false -> kbetter b a = false -> a = b.
Proof.
  unfold kbetter. destruct a as [fa sa], b as [fb sb]. cbn [fst snd].
  rewrite !orb_false_iff, !andb_false_iff, !Z.ltb_ge, !Z.eqb_neq.
  intros [H1 H2] [H3 H4]. assert (fa = fb) by lia. subst.
  f_equal. apply sltb_tricho; [destruct H2 | destruct H4]; congruence.
Qed.

Lemma mode_step_keep rs acc v : mode_step true rs acc v = keep _ kbetter acc (weight_of v rs, v).
Proof. unfold mode_step, keep, kbetter. cbn [fst snd andb]. reflexivity. Qed.

Lemma fold_mode_keep rs order acc :
  fold_left (mode_step true rs) order acc = fold_left (keep _ kbetter) (map (fun v => (weight_of v rs, v)) order) acc.
Proof.
  revert acc. induction order as [|v t IH]; intros acc; cbn [fold_left map]; [reflexivity|].
  rewrite mode_step_keep. apply IH.
Qed.

(* C01: the result does not depend on the iteration order of the frequency map *)
Theorem mode_value_map_order_independent rs o1 o2 :
  Permutation o1 o2 -> mode_value true o1 rs = mode_value true o2 rs.
Proof.
  intros H. unfold mode_value. rewrite !fold_mode_keep. f_equal.
  apply fold_keep_perm.
  - exact kbetter_trans. - exact kbetter_irrefl. - exact kbetter_tricho.
  - apply Permutation_map. exact H.
Qed.

(* with the strict comparison of the code as found the order matters: finding F01 *)
Theorem mode_value_map_order_refuted :
  exists rs o1 o2, Permutation o1 o2 /\ mode_value false o1 rs <> mode_value false o2 rs.
Proof.
  exists [ {| r_who := 1; r_pw := 5; r_value := "aa"; r_blk := 1 |};
           {| r_who := 2; r_pw := 5; r_value := "bb"; r_blk := 1 |} ],
         ["aa"%string; "bb"%string], ["bb"%string; "aa"%string].
  split; [apply perm_swap | vm_compute; discriminate].
Qed.

Lemma weight_of_perm v rs rs' : Permutation rs rs' -> weight_of v rs = weight_of v rs'.
Proof. induction 1; cbn [weight_of]; lia. Qed.

Lemma weight_of_nonneg v rs : Forall (fun r => 1 <= r_pw r) rs -> 0 <= weight_of v rs.
Proof. induction 1 as [|r t H _ IH]; cbn [weight_of]; [lia|]. destruct (String.eqb (r_value r) v); lia. Qed.

Lemma weight_of_in r rs : Forall (fun r => 1 <= r_pw r) rs -> In r rs -> 1 <= weight_of (r_value r) rs.
Proof.
  induction 1 as [|x t H HF IH]; cbn [weight_of In]; [tauto|]. intros [->|Hin].
  - rewrite String.eqb_refl. pose proof (weight_of_nonneg (r_value r) t HF). lia.
  - specialize (IH Hin). destruct (String.eqb (r_value x) (r_value r)); lia.
Qed.

Lemma weight_pos_in v rs : 0 < weight_of v rs -> exists r, In r rs /\ r_value r = v.
Proof.
  induction rs as [|x l IH]; cbn [weight_of]; [lia|]. intros H.
  destruct (String.eqb (r_value x) v) eqn:E.
  - apply String.eqb_eq in E. exists x. split; [left; reflexivity | exact E].
  - destruct IH as (r & ? & ?); [lia|]. exists r. split; [right|]; assumption.
Qed.

(* the mode holds maximal total power, for every key order that lists every reported value *)
Theorem mode_value_maximal rs order :
  rs <> [] -> Forall (fun r => 1 <= r_pw r) rs ->
  (forall r, In r rs -> In (r_value r) order) ->
  let m := mode_value true order rs in
  In m order /\ forall v, weight_of v rs <= weight_of m rs.
Proof.
  intros Hne Hpw Hcov m.
  unfold mode_value in m. pose proof (fold_mode_keep rs order (0, ""%string)) as Hf.
  pose proof (fold_keep_best _ kbetter kbetter_trans kbetter_irrefl kbetter_tricho
                (map (fun v => (weight_of v rs, v)) order) (0, ""%string)) as HB.
  cbv zeta in HB. rewrite <- Hf in HB. destruct HB as (H1 & H2 & H3).
  set (res := fold_left (mode_step true rs) order (0, ""%string)) in *.
  (* some element has weight >= 1, so the accumulator (0,"") cannot survive *)
  assert (Hr0 : exists r0, In r0 rs) by (destruct rs as [|r0 t]; [congruence | exists r0; left; reflexivity]).
  destruct Hr0 as (r0 & Hr0).
  assert (Hin0 : In (weight_of (r_value r0) rs, r_value r0) (map (fun v => (weight_of v rs, v)) order)).
  { apply in_map_iff. exists (r_value r0). split; [reflexivity|]. apply Hcov. exact Hr0. }
  pose proof (weight_of_in r0 rs Hpw Hr0) as Hw0.
  assert (Hres : In res (map (fun v => (weight_of v rs, v)) order)).
  { destruct H1 as [H1|H1]; [|exact H1]. exfalso.
    specialize (H3 _ Hin0). rewrite H1 in H3. unfold kbetter in H3. cbn [fst snd] in H3.
    apply orb_false_iff in H3. destruct H3 as [H3 _]. apply Z.ltb_ge in H3. lia. }
  apply in_map_iff in Hres. destruct Hres as (mv & Hmv & Hmin).
  assert (Hm : m = mv) by (unfold m; rewrite <- Hmv; reflexivity).
  split; [rewrite Hm; exact Hmin|].
  intros v. rewrite Hm.
  destruct (Z.le_gt_cases (weight_of v rs) (weight_of mv rs)) as [Hle|Hgt]; [exact Hle|exfalso].
  (* v has positive weight, so some report carries it and v is in the order *)
  assert (Hv : In v order).
  { pose proof (weight_of_nonneg mv rs Hpw).
    destruct (weight_pos_in v rs ltac:(lia)) as (r & Hr & <-). apply Hcov. exact Hr. }
  assert (Hk : In (weight_of v rs, v) (map (fun v => (weight_of v rs, v)) order)).
  { apply in_map_iff. exists v. auto. }
  specialize (H3 _ Hk). rewrite <- Hmv in H3. unfold kbetter in H3. cbn [fst snd] in H3.
  apply orb_false_iff in H3. destruct H3 as [H3 _]. apply Z.ltb_ge in H3. lia.
Qed.

(* the model's key order lists every reported value *)
Lemma distinct_values_cover rs : forall seen r, Forall (fun r => 1 <= r_pw r) rs -> In r rs ->
  In (r_value r) (distinct_values rs seen) \/ In (r_value r) seen.
Proof.
  induction rs as [|x t IH]; intros seen r HF Hin; [destruct Hin|].
  inversion HF as [|? ? Hx Ht]; subst. cbn [distinct_values].
  destruct (existsb (String.eqb (r_value x)) seen) eqn:Ex.
  - cbn [orb]. destruct Hin as [->|Hin]; [|apply IH; assumption].
    right. apply existsb_exists in Ex. destruct Ex as (s & Hs & E). apply String.eqb_eq in E. subst. exact Hs.
  - cbn [orb]. destruct (r_pw x <=? 0) eqn:Ep; [apply Z.leb_le in Ep; lia|].
    destruct Hin as [->|Hin]; [left; left; reflexivity|].
    destruct (IH (r_value x :: seen) r Ht Hin) as [H|[H|H]].
    + left. right. exact H.
    + left. left. exact H.
    + right. exact H.
Qed.

Theorem weighted_mode_exec_maximal rs a :
  Forall (fun r => 1 <= r_pw r) rs -> weighted_mode_exec rs = Some a ->
  a_power a = sum_power rs /\ a_reporters a = map mproj rs.
Proof.
  intros _. unfold weighted_mode_exec, weighted_mode. destruct rs as [|r0 t]; [discriminate|].
  destruct (mode_reporter _ _ _ _) as [[mw br] bi]. intros H. injection H as <-.
  destruct br; cbn; auto.
Qed.

(* mode_reporter returns a report of the list carrying the mode value, at its index *)
Lemma mode_reporter_spec mode : forall rs i best,
  let '(w, br, bi) := mode_reporter mode rs i best in
  (w, br, bi) = best \/
  exists r, br = Some r /\ In r rs /\ r_value r = mode /\ w = r_pw r /\
            i <= bi /\ nth_error rs (Z.to_nat (bi - i)) = Some r.
Proof.
  induction rs as [|x t IH]; intros i best; cbn [mode_reporter].
  - destruct best as [[w br] bi]. left. reflexivity.
  - destruct best as [[maxw br0] bi0].
    destruct (String.eqb mode (r_value x) && (maxw <? r_pw x)) eqn:E.
    + specialize (IH (i + 1) (r_pw x, Some x, i)). destruct (mode_reporter mode t (i + 1) (r_pw x, Some x, i)) as [[w br] bi].
      destruct IH as [IH|(r & -> & Hin & Hv & Hw & Hi & Hn)].
      * injection IH as -> -> ->. right. exists x. apply andb_prop in E. destruct E as [E _].
        apply String.eqb_eq in E. rewrite Z.sub_diag. cbn. repeat split; auto; lia.
      * right. exists r. repeat split; auto; [right; exact Hin | lia |].
        replace (Z.to_nat (bi - i)) with (S (Z.to_nat (bi - (i + 1)))) by lia. exact Hn.
    + specialize (IH (i + 1) (maxw, br0, bi0)). destruct (mode_reporter mode t (i + 1) (maxw, br0, bi0)) as [[w br] bi].
      destruct IH as [IH|(r & -> & Hin & Hv & Hw & Hi & Hn)]; [left; exact IH|].
      right. exists r. repeat split; auto; [right; exact Hin | lia |].
      replace (Z.to_nat (bi - i)) with (S (Z.to_nat (bi - (i + 1)))) by lia. exact Hn.
Qed.

(* the weight kept is at least every mode reporter's power *)
Lemma mode_reporter_max mode : forall rs i best,
  fst (fst best) <= fst (fst (mode_reporter mode rs i best)) /\
  forall r, In r rs -> r_value r = mode -> r_pw r <= fst (fst (mode_reporter mode rs i best)).
Proof.
  induction rs as [|x t IH]; intros i best; cbn [mode_reporter].
  - split; [lia | intros r []].
  - destruct best as [[maxw br0] bi0]. cbn [fst snd].
    destruct (String.eqb mode (r_value x) && (maxw <? r_pw x)) eqn:E.
    + apply andb_prop in E. destruct E as [_ E]. apply Z.ltb_lt in E.
      destruct (IH (i + 1) (r_pw x, Some x, i)) as [H1 H2]. cbn [fst snd] in H1.
      split; [lia|]. intros r [<-|Hin] Hv; [exact H1 | apply H2; assumption].
    + destruct (IH (i + 1) (maxw, br0, bi0)) as [H1 H2]. cbn [fst snd] in H1.
      split; [exact H1|]. intros r [<-|Hin] Hv; [|apply H2; assumption].
      apply andb_false_iff in E. destruct E as [E|E].
      * rewrite Hv, String.eqb_refl in E. discriminate.
      * apply Z.ltb_ge in E. lia.
Qed.

Theorem weighted_mode_correct rs a :
  Forall (fun r => 1 <= r_pw r) rs -> weighted_mode_exec rs = Some a ->
  a_value a = mode_value true (distinct_values rs []) rs /\
  (forall v, weight_of v rs <= weight_of (a_value a) rs) /\
  a_power a = sum_power rs /\
  a_reporters a = map mproj rs /\
  (exists r, In r rs /\ r_who r = a_reporter a /\ r_value r = a_value a /\ r_blk r = a_micro a) /\
  (exists p b, 0 <= a_index a /\ nth_error (a_reporters a) (Z.to_nat (a_index a)) = Some (a_reporter a, p, b)).
Proof.
  intros Hpw. unfold weighted_mode_exec, weighted_mode. destruct rs as [|r0 t] eqn:Ers; [discriminate|]. rewrite <- Ers in *.
  assert (Hne : rs <> []) by (subst; discriminate).
  assert (Hcov : forall r, In r rs -> In (r_value r) (distinct_values rs [])).
  { intros r Hr. destruct (distinct_values_cover rs [] r Hpw Hr) as [H|[]]. exact H. }
  destruct (mode_value_maximal rs (distinct_values rs []) Hne Hpw Hcov) as [Hmin Hmax]. cbv zeta in *.
  set (mode := mode_value true (distinct_values rs []) rs) in *.
  (* some report carries the mode value *)
  assert (Hex : exists r, In r rs /\ r_value r = mode).
  { specialize (Hmax (r_value r0)). assert (In r0 rs) by (subst; left; reflexivity).
    pose proof (weight_of_in r0 rs Hpw H) as Hw. apply weight_pos_in. lia. }
  destruct Hex as (rm & Hrm & Hvm).
  pose proof (mode_reporter_spec mode rs 0 (0, None, 0)) as S.
  pose proof (mode_reporter_max mode rs 0 (0, None, 0)) as [_ M]. specialize (M rm Hrm Hvm).
  destruct (mode_reporter mode rs 0 (0, None, 0)) as [[w br] bi]. cbn [fst snd] in M.
  assert (Hrm1 : 1 <= r_pw rm) by (rewrite Forall_forall in Hpw; apply Hpw; exact Hrm).
  destruct S as [S|(r & -> & Hin & Hv & Hw & Hi & Hn)]; [injection S as -> _ _; lia|].
  intros H. injection H as <-. cbn [a_value a_power a_reporters a_reporter a_micro a_index].
  rewrite Hv. split; [reflexivity|]. split; [exact Hmax|]. split; [reflexivity|]. split; [reflexivity|]. split.
  - exists r. auto.
  - exists (r_pw r), (r_blk r). split; [lia|]. rewrite Z.sub_0_r in Hn. rewrite nth_error_map, Hn. reflexivity.
Qed.

(* arrival order does not change the mode value (the reporter named may change on equal power) *)
Lemma distinct_values_in rs : forall seen v, In v (distinct_values rs seen) ->
  (exists r, In r rs /\ r_value r = v) /\ ~ In v seen.
Proof.
  induction rs as [|x t IH]; intros seen v; cbn [distinct_values]; [intros []|].
  destruct (existsb (String.eqb (r_value x)) seen || (r_pw x <=? 0)) eqn:E.
  - intros H. destruct (IH _ _ H) as [(r & ? & ?) Hn]. split; [exists r; split; [right|]; assumption | exact Hn].
  - intros [<-|H].
    + split; [exists x; split; [left|]; reflexivity|].
      apply orb_false_iff in E. destruct E as [E _]. intros Hin.
      assert (existsb (String.eqb (r_value x)) seen = true); [|congruence].
      apply existsb_exists. exists (r_value x). split; [exact Hin | apply String.eqb_refl].
    + destruct (IH _ _ H) as [(r & ? & ?) Hn]. split; [exists r; split; [right|]; assumption|].
      intros Hs. apply Hn. right. exact Hs.
Qed.

Lemma distinct_values_nodup rs : forall seen, NoDup (distinct_values rs seen).
Proof.
  induction rs as [|x t IH]; intros seen; cbn [distinct_values]; [constructor|].
  destruct (existsb (String.eqb (r_value x)) seen || (r_pw x <=? 0)); [apply IH|].
  constructor; [|apply IH]. intros H. destruct (distinct_values_in _ _ _ H) as [_ Hn]. apply Hn. left. reflexivity.
Qed.

Theorem weighted_mode_order_independent rs rs' a a' :
  Permutation rs rs' -> Forall (fun r => 1 <= r_pw r) rs ->
  weighted_mode_exec rs = Some a -> weighted_mode_exec rs' = Some a' -> a_value a = a_value a'.
Proof.
  intros Hperm Hpw Ha Ha'.
  assert (Hpw' : Forall (fun r => 1 <= r_pw r) rs') by (eapply Permutation_Forall; eassumption).
  destruct (weighted_mode_correct rs a Hpw Ha) as (Va & _).
  destruct (weighted_mode_correct rs' a' Hpw' Ha') as (Va' & _).
  rewrite Va, Va'.
  assert (Hstep : forall acc v, mode_step true rs acc v = mode_step true rs' acc v).
  { intros acc v. unfold mode_step. rewrite (weight_of_perm v _ _ Hperm). reflexivity. }
  assert (Hfold : forall o acc, fold_left (mode_step true rs) o acc = fold_left (mode_step true rs') o acc).
  { induction o as [|v t IH]; intros acc; cbn [fold_left]; [reflexivity|]. rewrite Hstep. apply IH. }
  transitivity (mode_value true (distinct_values rs []) rs'); [unfold mode_value; rewrite Hfold; reflexivity|].
  apply mode_value_map_order_independent.
  apply NoDup_Permutation; [apply distinct_values_nodup | apply distinct_values_nodup |].
  intros v. split; intros H.
  - destruct (distinct_values_in _ _ _ H) as [(r & Hr & Hv) _]. subst v.
    assert (Hr' : In r rs') by (eapply Permutation_in; eassumption).
    destruct (distinct_values_cover rs' [] r Hpw' Hr') as [X|[]]. exact X.
  - destruct (distinct_values_in _ _ _ H) as [(r & Hr & Hv) _]. subst v.
    assert (Hr' : In r rs) by (eapply Permutation_in; [symmetry|]; eassumption).
    destruct (distinct_values_cover rs [] r Hpw Hr') as [X|[]]. exact X.
Qed.

(* soundness of the executable mode spec *)
Lemma max_weight_ge rs : forall l v, (exists r, In r l /\ r_value r = v) ->
  weight_of v rs <= fold_right (fun r m => Z.max (weight_of (r_value r) rs) m) 0 l.
Proof.
  induction l as [|x t IH]; intros v (r & Hin & Hv); [destruct Hin|]. cbn [fold_right].
  destruct Hin as [->|Hin]; [rewrite Hv; lia|]. specialize (IH v (ex_intro _ r (conj Hin Hv))). lia.
Qed.

Lemma mode_spec_sound rs a : Forall (fun r => 1 <= r_pw r) rs ->
  mode_spec rs a = [] -> forall v, weight_of v rs <= weight_of (a_value a) rs.
Proof.
  intros Hpw H v. unfold mode_spec in H. apply app_nil_both in H. destruct H as [H _].
  apply spec_if_nil in H. apply Z.eqb_eq in H. rewrite H. unfold max_weight.
  destruct (Z.le_gt_cases (weight_of v rs) 0) as [Hz|Hz].
  - assert (0 <= fold_right (fun r m => Z.max (weight_of (r_value r) rs) m) 0 rs); [|lia].
    clear. induction rs as [|x t IH] at 2; cbn [fold_right]; lia.
  - apply max_weight_ge. apply weight_pos_in. lia.
Qed.

Example c06_nonvacuous :
  let rs := [ {| r_who := 1; r_pw := 2; r_value := "0a"; r_blk := 1 |};
              {| r_who := 2; r_pw := 1; r_value := "ff"; r_blk := 2 |};
              {| r_who := 3; r_pw := 1; r_value := "10"; r_blk := 3 |};
              {| r_who := 4; r_pw := 2; r_value := "0b"; r_blk := 3 |};
              {| r_who := 5; r_pw := 2; r_value := "0B"; r_blk := 4 |} ] in
  option_map a_value (weighted_median rs) = Some "0b"%string /\
  option_map a_value (weighted_mode_exec rs) = Some "0B"%string /\
  has_mode_tie rs = true.
Proof. vm_compute. auto. Qed.
