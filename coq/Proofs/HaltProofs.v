From Coq Require Import ZArith List Bool String Ascii Lia.
From Verif Require Import Base.Harness Model.OracleAgg Model.Halt.
Import ListNotations.
Open Scope Z_scope.

Lemma parse_digits_all_hex s : forall acc, all_hex s = true -> parse_digits s acc <> None.
Proof.
  induction s as [|c r IH]; intros acc H; cbn [parse_digits]; [discriminate|].
  cbn [all_hex] in H. destruct (hexdigit c); [|discriminate]. apply IH. exact H.
Qed.

Lemma hexdigit_not_sign c d : hexdigit c = Some d -> Ascii.eqb c "+"%char = false /\ Ascii.eqb c "-"%char = false.
Proof.
  intros H. split.
  - destruct (Ascii.eqb c "+"%char) eqn:E; [apply Ascii.eqb_eq in E; subst c; vm_compute in H; discriminate | reflexivity].
  - destruct (Ascii.eqb c "-"%char) eqn:E; [apply Ascii.eqb_eq in E; subst c; vm_compute in H; discriminate | reflexivity].
Qed.

(* a decodable value (non-empty, hex digits only) is parsed by SetString(.,16) *)
Theorem decodable_parses s : decodable s = true -> parse16 s <> None.
Proof.
  unfold decodable. intros H. apply andb_prop in H. destruct H as [H Hne]. apply andb_prop in H. destruct H as [Hh _].
  destruct s as [|c r]; [cbn in Hne; discriminate|]. unfold parse16.
  cbn [all_hex] in Hh. destruct (hexdigit c) as [d|] eqn:Ed; [|discriminate].
  destruct (hexdigit_not_sign c d Ed) as [-> ->]. apply parse_digits_all_hex. cbn [all_hex]. rewrite Ed. exact Hh.
Qed.

(* every value the (repaired) message handler stores parses: aggregation cannot fail on it *)
Theorem stored_values_parse v s : submit_value_stored true v = Some s -> parse16 s <> None.
Proof.
  unfold submit_value_stored. destruct (decodable (remove_0x v)) eqn:E; [|discriminate].
  intros H. injection H as <-. apply decodable_parses. exact E.
Qed.

Theorem median_total_on_stored rs :
  Forall (fun r => exists v, submit_value_stored true v = Some (r_value r)) rs -> weighted_median rs <> None.
Proof.
  intros H. unfold weighted_median. assert (to_reps rs <> None) as Hn; [|destruct (to_reps rs); [discriminate | congruence]].
  induction H as [|r t (v & Hv) _ IH]; cbn [to_reps]; [discriminate|].
  pose proof (stored_values_parse v _ Hv). destruct (parse16 (r_value r)); [|congruence].
  destruct (to_reps t); [discriminate | congruence].
Qed.

(* the code as found stored the prefix: an accepted value that the end blocker cannot parse (F02) *)
Theorem stored_prefix_refuted : exists v s, submit_value_stored false v = Some s /\ parse16 s = None.
Proof. exists "0x0a"%string, "0x0a"%string. vm_compute. auto. Qed.

(* ---- cycle list ------------------------------------------------------------------------------ *)
Theorem cycle_index_in_range ops : forall c, current_query_ok c = true ->
  current_query_ok (fold_left (cystep true) ops c) = true.
Proof.
  induction ops as [|o t IH]; intros c H; cbn [fold_left]; [exact H|]. apply IH.
  unfold current_query_ok in *. apply andb_prop in H. destruct H as [H1 H2]. apply Z.leb_le in H1. apply Z.ltb_lt in H2.
  destruct o as [|n]; cbn [cystep rotate update_cyclelist cy_idx cy_len].
  - destruct (cy_len c - 1 <=? cy_idx c) eqn:E; [apply Z.leb_le in E | apply Z.leb_gt in E];
      apply andb_true_intro; split; try apply Z.leb_le; try apply Z.ltb_lt; lia.
  - destruct (0 <? n) eqn:E; cbn [cy_idx cy_len].
    + apply Z.ltb_lt in E. apply andb_true_intro; split; [apply Z.leb_le | apply Z.ltb_lt]; lia.
    + apply andb_true_intro; split; [apply Z.leb_le | apply Z.ltb_lt]; lia.
Qed.

Theorem cycle_rotation_order c : current_query_ok c = true ->
  cy_idx (rotate c) = (cy_idx c + 1) mod cy_len c.
Proof.
  unfold current_query_ok. intros H. apply andb_prop in H. destruct H as [H1 H2]. apply Z.leb_le in H1. apply Z.ltb_lt in H2.
  cbn [rotate cy_idx]. destruct (cy_len c - 1 <=? cy_idx c) eqn:E; [apply Z.leb_le in E | apply Z.leb_gt in E].
  - assert (cy_idx c + 1 = cy_len c) as -> by lia. rewrite Z.mod_same by lia. reflexivity.
  - rewrite Z.mod_small by lia. reflexivity.
Qed.

Theorem cycle_shrink_refuted : exists c ops, current_query_ok c = true /\
  current_query_ok (fold_left (cystep false) ops c) = false.
Proof. exists {| cy_len := 3; cy_idx := 2 |}, [CyUpdate 1]. vm_compute. auto. Qed.

(* ---- mint ------------------------------------------------------------------------------------- *)
Theorem mint_outputs_valid p : 0 < p -> outputs_valid (mint_outputs true p) = true.
Proof.
  intros Hp. unfold mint_outputs, outputs_valid. cbn [andb forallb].
  assert (Hq : 0 <= Z.quot p 4 /\ 4 * Z.quot p 4 <= p).
  { split; [apply Z.quot_pos; lia|]. pose proof (Z.quot_rem' p 4). pose proof (Z.rem_bound_pos p 4 ltac:(lia) ltac:(lia)). lia. }
  destruct (0 <? Z.quot p 4) eqn:E; cbn [negb forallb andb].
  - rewrite E. cbn. rewrite andb_true_r. apply Z.ltb_lt. lia.
  - rewrite andb_true_r. apply Z.ltb_lt. apply Z.ltb_ge in E. lia.
Qed.

Theorem mint_small_provision_refuted : exists p, 0 < p /\ outputs_valid (mint_outputs false p) = false.
Proof. exists 1. vm_compute. auto. Qed.
