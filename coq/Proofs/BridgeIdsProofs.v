(* C14 — proofs about Model/BridgeIds.v (query data / query ids of the token bridge, deposit report value) *)
From Coq Require Import ZArith List Bool String Ascii Lia.
From Verif Require Import Base.Harness Model.BridgeEnc Proofs.BridgeEncProofs Model.BridgeIds.
From Verif Require Model.BridgeTokens Proofs.BridgeTokensProofs.
Import ListNotations.
Open Scope Z_scope.

(* ---- the query data, written out ------------------------------------------------------------------ *)
Lemma inner_args b id : abi_encode [Static (word b); Static (word id)] = word b ++ word id.
Proof.
  unfold abi_encode. cbn [spec_heads spec_tails]. rewrite !app_nil_r. reflexivity.
Qed.

Lemma pad32_64 (b : bytes) : List.length b = 64%nat -> pad32 b = b.
Proof. intros H. unfold pad32. rewrite H. cbn. apply app_nil_r. Qed.

Lemma sol_query_data_layout to_layer id : sol_query_data to_layer id = query_data_layout to_layer id.
Proof.
  unfold sol_query_data, query_data_layout, query_data_prefix. rewrite inner_args.
  set (inner := word (sol_bool to_layer) ++ word id).
  assert (Hlen : List.length inner = 64%nat) by (unfold inner; rewrite app_length, !word_length; reflexivity).
  unfold abi_encode. cbn [spec_heads spec_tails heads_len fold_right head_len].
  replace (blen (enc_dyn_bytes TRBBridge)) with 64 by (vm_compute; reflexivity).
  change (32 + (32 + 0)) with 64. change (64 + 64) with 128.
  assert (Hi : enc_dyn_bytes inner = word 64 ++ inner).
  { unfold enc_dyn_bytes. rewrite (pad32_64 inner Hlen). unfold blen. rewrite Hlen. reflexivity. }
  rewrite Hi. unfold enc_dyn_bytes. replace (blen TRBBridge) with 9 by (vm_compute; reflexivity).
  rewrite !app_nil_r. rewrite <- !app_assoc. reflexivity.
Qed.

Theorem query_data_layout_eq to_layer id : go_query_data to_layer id = query_data_layout to_layer id.
Proof. rewrite query_data_eq. apply sol_query_data_layout. Qed.

Theorem deposit_query_data_layout id : deposit_query_data id = query_data_layout true id.
Proof. apply query_data_layout_eq. Qed.

Theorem withdraw_query_data_layout id : withdraw_query_data id = query_data_layout false id.
Proof. apply query_data_layout_eq. Qed.

(* abi.encode("TRBBridge", abi.encode(toLayer, id)) by the ABI specification's formula *)
Theorem deposit_query_data_sol id : deposit_query_data id = sol_query_data true id.
Proof. apply query_data_eq. Qed.

Lemma prefix_length : List.length query_data_prefix = 160%nat.
Proof. vm_compute. reflexivity. Qed.

Theorem query_data_length to_layer id : blen (query_data_layout to_layer id) = 224.
Proof.
  unfold query_data_layout, blen. rewrite !app_length, prefix_length, !word_length. reflexivity.
Qed.

Theorem deposit_query_data_length id : blen (deposit_query_data id) = 224.
Proof. rewrite deposit_query_data_layout. apply query_data_length. Qed.

Theorem withdraw_query_data_length id : blen (withdraw_query_data id) = 224.
Proof. rewrite withdraw_query_data_layout. apply query_data_length. Qed.

(* ---- injectivity -------------------------------------------------------------------------------------- *)
Lemma word_inj x y : 0 <= x < 2 ^ 256 -> 0 <= y < 2 ^ 256 -> word x = word y -> x = y.
Proof.
  intros Hx Hy E. rewrite <- (of_be_word x Hx), <- (of_be_word y Hy), E. reflexivity.
Qed.

Lemma app_eq_len {A} (a b x y : list A) : List.length a = List.length b -> a ++ x = b ++ y -> a = b /\ x = y.
Proof.
  revert b. induction a as [|h a IH]; intros [|k b] Hl E; cbn in Hl; try discriminate Hl.
  - split; [reflexivity | exact E].
  - cbn in E. injection E as -> E. injection Hl as Hl. destruct (IH b Hl E) as [-> ->]. split; reflexivity.
Qed.

Lemma app_word_inj a x b y : word a ++ x = word b ++ y -> word a = word b /\ x = y.
Proof. apply app_eq_len. rewrite !word_length. reflexivity. Qed.

(* the layout is injective in (direction, id): equal bytes force the same direction and the same id *)
Theorem query_data_layout_inj t1 id1 t2 id2 :
  0 <= id1 < 2 ^ 256 -> 0 <= id2 < 2 ^ 256 ->
  query_data_layout t1 id1 = query_data_layout t2 id2 -> t1 = t2 /\ id1 = id2.
Proof.
  intros H1 H2 E. unfold query_data_layout in E. apply app_inv_head in E.
  apply app_word_inj in E. destruct E as [Eb Ei]. split.
  - apply word_inj in Eb; [|destruct t1; cbn; lia|destruct t2; cbn; lia].
    destruct t1, t2; cbn in Eb; try reflexivity; lia.
  - apply word_inj; assumption.
Qed.

(* different deposit ids have different query data: two deposits can share a query id only through a
   collision of keccak-256 on two distinct 224-byte strings *)
Theorem deposit_query_data_inj id1 id2 :
  0 <= id1 < 2 ^ 256 -> 0 <= id2 < 2 ^ 256 -> deposit_query_data id1 = deposit_query_data id2 -> id1 = id2.
Proof.
  intros H1 H2 E. rewrite !deposit_query_data_layout in E.
  apply (query_data_layout_inj true id1 true id2 H1 H2 E).
Qed.

Theorem withdraw_query_data_inj id1 id2 :
  0 <= id1 < 2 ^ 256 -> 0 <= id2 < 2 ^ 256 -> withdraw_query_data id1 = withdraw_query_data id2 -> id1 = id2.
Proof.
  intros H1 H2 E. rewrite !withdraw_query_data_layout in E.
  apply (query_data_layout_inj false id1 false id2 H1 H2 E).
Qed.

(* the query data of a deposit is never the query data of a withdrawal, whatever the two ids are
   (any integers: a word is taken modulo 2^256) *)
Theorem deposit_withdraw_query_data_differ id1 id2 : deposit_query_data id1 <> withdraw_query_data id2.
Proof.
  rewrite deposit_query_data_layout, withdraw_query_data_layout. unfold query_data_layout. intros E.
  apply app_inv_head in E. apply app_word_inj in E. destruct E as [Eb _]. vm_compute in Eb. discriminate Eb.
Qed.

(* ---- the model of Model/BridgeTokens.v speaks about the same bytes ------------------------------------ *)
Lemma tokens_be n : forall x, BridgeTokens.be n x = be n x.
Proof. induction n as [|k IH]; intros x; [reflexivity|]. cbn [BridgeTokens.be be]. rewrite IH. reflexivity. Qed.

Lemma tokens_word x : BridgeTokens.word x = word x.
Proof. apply tokens_be. Qed.

Theorem tokens_bridge_qdata to_layer id : BridgeTokens.bridge_qdata to_layer id = query_data_layout to_layer id.
Proof.
  unfold BridgeTokens.bridge_qdata, query_data_layout, query_data_prefix. rewrite !tokens_word.
  rewrite <- !app_assoc. destruct to_layer; reflexivity.
Qed.

Theorem tokens_bridge_qdata_deposit id : BridgeTokens.bridge_qdata true id = deposit_query_data id.
Proof. rewrite deposit_query_data_layout. apply tokens_bridge_qdata. Qed.

Theorem tokens_bridge_qdata_withdraw id : BridgeTokens.bridge_qdata false id = withdraw_query_data id.
Proof. rewrite withdraw_query_data_layout. apply tokens_bridge_qdata. Qed.

(* the blocker of the oracle's SubmitValue on exactly the bytes whose keccak-256 is the query id: a report
   under a withdrawal's query id needs query data hashing to it, i.e. (collision resistance) these bytes,
   and these are rejected; the deposit's bytes pass *)
Theorem blocker_on_query_data id :
  BridgeTokensProofs.submit_passes_blocker (withdraw_query_data id) = false /\
  BridgeTokensProofs.submit_passes_blocker (deposit_query_data id) = true.
Proof.
  rewrite <- tokens_bridge_qdata_withdraw, <- tokens_bridge_qdata_deposit.
  exact (conj (BridgeTokensProofs.no_report_for_withdrawal_query id) (BridgeTokensProofs.deposit_query_passes id)).
Qed.

(* ---- the deposit report value: encode, then decode --------------------------------------------------- *)
(* for every address word (clean or not), every recipient text and all uint256 amounts and tips *)
Theorem deposit_value_decodes a s amt tip :
  0 <= amt < 2 ^ 256 -> 0 <= tip < 2 ^ 256 -> blen s < 2 ^ 256 ->
  decode_deposit_value (deposit_value a s amt tip) = Some (DF s amt tip).
Proof.
  intros Hamt Htip Hs. unfold deposit_value, abi_encode.
  cbn [heads_len fold_right head_len spec_heads spec_tails]. rewrite !blen_word. rewrite !app_nil_r.
  change (32 + (32 + (32 + (32 + 0)))) with 128.
  set (tl := enc_dyn_bytes s).
  set (v := (word a ++ word 128 ++ word amt ++ word tip) ++ tl).
  assert (Hlen_tl : blen tl = 32 + blen (pad32 s)).
  { unfold tl, enc_dyn_bytes. rewrite blen_app, blen_word. reflexivity. }
  assert (Hpad : blen s <= blen (pad32 s)).
  { unfold pad32. rewrite blen_app. pose proof (blen_nonneg (zeros ((32 - List.length s mod 32) mod 32))). lia. }
  assert (Hlen_v : blen v = 128 + blen tl).
  { unfold v. rewrite !blen_app, !blen_word. lia. }
  assert (H32 : word_at v 32 = 128).
  { unfold v. rewrite <- !app_assoc. rewrite (word_at_skip (word a)) by (rewrite word_length; reflexivity).
    rewrite word_at_head by apply word_length. apply of_be_word. lia. }
  assert (H64 : word_at v 64 = amt).
  { unfold v. rewrite <- !app_assoc. rewrite (app_assoc (word a)).
    rewrite (word_at_skip (word a ++ word 128)) by (rewrite app_length, !word_length; reflexivity).
    rewrite word_at_head by apply word_length. apply of_be_word. exact Hamt. }
  assert (H96 : word_at v 96 = tip).
  { unfold v. rewrite <- !app_assoc. rewrite (app_assoc (word a)), (app_assoc (word a ++ word 128)).
    rewrite (word_at_skip ((word a ++ word 128) ++ word amt)) by (rewrite !app_length, !word_length; reflexivity).
    rewrite word_at_head by apply word_length. apply of_be_word. exact Htip. }
  assert (H128 : word_at v 128 = blen s).
  { unfold v. rewrite (word_at_skip (word a ++ word 128 ++ word amt ++ word tip)) by (rewrite !app_length, !word_length; reflexivity).
    unfold tl, enc_dyn_bytes. rewrite word_at_head by apply word_length. apply of_be_word.
    pose proof (blen_nonneg s). lia. }
  assert (Htext : firstn (Z.to_nat (blen s)) (skipn (Z.to_nat (128 + 32)) v) = s).
  { unfold v, tl, enc_dyn_bytes. rewrite (app_assoc _ (word (blen s))).
    rewrite skipn_app_exact by (rewrite !app_length, !word_length; reflexivity).
    unfold pad32. apply firstn_app_exact. unfold blen. lia. }
  unfold decode_deposit_value. fold v.
  pose proof (blen_nonneg s) as Hs0. pose proof (blen_nonneg (pad32 s)) as Hp0.
  destruct (blen v <? 128) eqn:E1; [apply Z.ltb_lt in E1; lia|].
  rewrite H32. destruct (blen v <? 128 + 32) eqn:E3; [apply Z.ltb_lt in E3; lia|].
  rewrite H128. destruct (blen v <? 128 + 32 + blen s) eqn:E4; [apply Z.ltb_lt in E4; lia|].
  rewrite H64, H96, Htext. reflexivity.
Qed.

Lemma bytes_ok_pad32 s : bytes_ok s = true -> bytes_ok (pad32 s) = true.
Proof. intros H. unfold pad32. rewrite bytes_ok_app, H, bytes_ok_zeros. reflexivity. Qed.

Lemma deposit_value_bytes_ok a s amt tip : bytes_ok s = true -> bytes_ok (deposit_value a s amt tip) = true.
Proof.
  intros Hs. unfold deposit_value, abi_encode, enc_dyn_bytes, word.
  cbn [spec_heads spec_tails heads_len fold_right head_len].
  rewrite !bytes_ok_app, !bytes_ok_be, (bytes_ok_pad32 s Hs). reflexivity.
Qed.

(* DecodeDepositReportValue on the hex text of a report value gives back the recipient text and
   amount / 10^12, tip / 10^12 — in particular beyond 2^64 loya *)
Theorem deposit_report_decodes a s amt tip :
  bytes_ok s = true -> 0 <= amt < 2 ^ 256 -> 0 <= tip < 2 ^ 256 -> blen s < 2 ^ 256 ->
  decode_deposit_report (hex_encode (deposit_value a s amt tip)) = Some (DF s (amt / E12) (tip / E12)).
Proof.
  intros Hs Hamt Htip Hl. unfold decode_deposit_report.
  rewrite (hex_roundtrip _ (deposit_value_bytes_ok a s amt tip Hs)).
  rewrite (deposit_value_decodes a s amt tip Hamt Htip Hl). reflexivity.
Qed.

(* the decoder of Model/BridgeTokens.v (which the claim theorems are stated with) and this one read
   the same fields out of every byte string *)
Lemma tokens_of_be l : BridgeTokens.of_be l = of_be l.
Proof. reflexivity. Qed.

Lemma tokens_word_at i d : BridgeTokens.word_at i d = word_at d i.
Proof. reflexivity. Qed.

Lemma tokens_blen d : BridgeTokens.blen d = blen d.
Proof. reflexivity. Qed.

Theorem tokens_abi_decode4 d :
  decode_deposit_value d =
  match BridgeTokens.abi_decode4 d with Some (_, s, x, y) => Some (DF s x y) | None => None end.
Proof.
  unfold decode_deposit_value, BridgeTokens.abi_decode4, BridgeTokens.abi_word_at, BridgeTokens.abi_dyn_at.
  cbv zeta. change (BridgeTokens.blen d) with (blen d).
  change (BridgeTokens.word_at 0 d) with (word_at d 0). change (BridgeTokens.word_at 32 d) with (word_at d 32).
  change (BridgeTokens.word_at 64 d) with (word_at d 64). change (BridgeTokens.word_at 96 d) with (word_at d 96).
  change (BridgeTokens.word_at (word_at d 32 + 32 - 32) d) with (word_at d (word_at d 32 + 32 - 32)).
  unfold BridgeTokens.slice.
  replace (word_at d 32 + 32 - 32) with (word_at d 32) by lia.
  destruct (blen d <? 128) eqn:E128.
  - apply Z.ltb_lt in E128.
    destruct (blen d <? 0 + 32) eqn:E0; [reflexivity|].
    destruct (blen d <? 32 + 32) eqn:E1; [reflexivity|].
    destruct (blen d <? word_at d 32 + 32) eqn:E2; [reflexivity|].
    destruct (blen d <? word_at d 32 + 32 + word_at d (word_at d 32)) eqn:E3; [reflexivity|].
    destruct (blen d <? 64 + 32) eqn:E4; [reflexivity|].
    destruct (blen d <? 96 + 32) eqn:E5; [reflexivity|]. apply Z.ltb_ge in E5. lia.
  - apply Z.ltb_ge in E128.
    destruct (blen d <? 0 + 32) eqn:E0; [apply Z.ltb_lt in E0; lia|].
    destruct (blen d <? 32 + 32) eqn:E1; [apply Z.ltb_lt in E1; lia|].
    destruct (blen d <? word_at d 32 + 32) eqn:E2; [reflexivity|].
    destruct (blen d <? word_at d 32 + 32 + word_at d (word_at d 32)) eqn:E3; [reflexivity|].
    destruct (blen d <? 64 + 32) eqn:E4; [apply Z.ltb_lt in E4; lia|].
    destruct (blen d <? 96 + 32) eqn:E5; [apply Z.ltb_lt in E5; lia|].
    reflexivity.
Qed.

(* ---- closed instances --------------------------------------------------------------------------------- *)
(* the query ids of deposit 1 and withdrawal 1 as the real keeper returns them (TestC14QueryId) *)
Example deposit_query_id_1 :
  hex_encode (deposit_query_id 1) = "abd24ad7de0468ea1a78db7451aa889e4bf61cc9b69500be227cadf0c00e43e9"%string.
Proof. vm_compute. reflexivity. Qed.
Example withdraw_query_id_1 :
  hex_encode (withdraw_query_id 1) = "a51d3b4fa2d5d1983c3ab121cb1a8ce691c336ab4eafb858ac5e70386cb3ad9f"%string.
Proof. vm_compute. reflexivity. Qed.

(* a deposit of (2^64 + 5) * 10^12 + 7 wei with a tip of 10^12 to a 3-character text decodes to 2^64 + 5 and 1 loya *)
Example deposit_report_example :
  decode_deposit_report (hex_encode (deposit_value (2 ^ 255 + 0xe1) (str_bytes "abc") ((2 ^ 64 + 5) * E12 + 7) E12))
  = Some (DF (str_bytes "abc") (2 ^ 64 + 5) 1).
Proof. vm_compute. reflexivity. Qed.

(* ---- soundness of the check ------------------------------------------------------------------------------ *)
Lemma z_mem_in x l : z_mem x l = false -> ~ In x l.
Proof.
  induction l as [|y r IH]; cbn [z_mem In]; intros H; [tauto|].
  apply orb_false_elim in H. destruct H as [H1 H2]. apply Z.eqb_neq in H1. intros [E|E]; [congruence | exact (IH H2 E)].
Qed.

Lemma z_nodup_NoDup l : z_nodup l = true -> NoDup l.
Proof.
  induction l as [|x r IH]; cbn [z_nodup]; intros H; [constructor|].
  apply andb_prop in H. destruct H as [H1 H2]. apply negb_true_iff in H1.
  constructor; [apply z_mem_in; exact H1 | apply IH; exact H2].
Qed.

Lemma str_mem_in x l : str_mem x l = false -> ~ In x l.
Proof.
  induction l as [|y r IH]; cbn [str_mem In]; intros H; [tauto|].
  apply orb_false_elim in H. destruct H as [H1 H2]. apply String.eqb_neq in H1. intros [E|E]; [congruence | exact (IH H2 E)].
Qed.

Lemma str_nodup_NoDup l : str_nodup l = true -> NoDup l.
Proof.
  induction l as [|x r IH]; cbn [str_nodup]; intros H; [constructor|].
  apply andb_prop in H. destruct H as [H1 H2]. apply negb_true_iff in H1.
  constructor; [apply str_mem_in; exact H1 | apply IH; exact H2].
Qed.

Theorem check_sound_id o :
  c14i_check (IdCase o) = [] ->
  unhex (io_deposit_qid o) = deposit_query_id (io_id o) /\
  unhex (io_withdraw_qid o) = withdraw_query_id (io_id o) /\
  unhex (io_reg_qdata o) = deposit_query_data (io_id o) /\
  io_oracle_qid o = io_deposit_qid o /\ io_deposit_qid o <> io_withdraw_qid o /\ io_blocker o = 1.
Proof.
  intros Hc. unfold c14i_check in Hc. cbv zeta in Hc. split_nil Hc.
  apply spec_if_nil in Hi0, Hi1, Hi2. apply diff_if_nil in Hi3, Hi4, Hc.
  apply bytes_eqb_eq in Hi3, Hi4, Hc. apply String.eqb_eq in Hi0. apply negb_true_iff in Hi1.
  apply String.eqb_neq in Hi1. apply Z.eqb_eq in Hi2.
  split; [exact (eq_sym Hi4)|]. split; [exact (eq_sym Hc)|]. split; [exact (eq_sym Hi3)|].
  split; [exact Hi0|]. split; [exact Hi1 | exact Hi2].
Qed.

(* all ids of a run are distinct and so are all their deposit and withdrawal query ids *)
Theorem check_sound_ids l : c14i_check (IdsCase l) = [] -> NoDup (ids_of l) /\ NoDup (qids_of l).
Proof.
  intros Hc. unfold c14i_check in Hc. split_nil Hc.
  apply diff_if_nil in Hi. apply spec_if_nil in Hc.
  split; [apply z_nodup_NoDup; exact Hi | apply str_nodup_NoDup; exact Hc].
Qed.

(* a packed value that the keeper decoded: the value is abi.encode of the packed fields, the keeper's
   amounts are the packed ones divided by 10^12, the account it returned prints as the (lower-cased) text *)
Theorem check_sound_value value a r x y lib bech_ok rt am tp :
  c14i_check (ValueCase value (Some (a, r, x, y)) lib bech_ok (Some (rt, am, tp))) = [] ->
  unhex value = deposit_value a (unhex r) x y /\ am = x / E12 /\ tp = y / E12 /\
  str_bytes rt = map lower_byte (unhex r).
Proof.
  intros Hc. unfold c14i_check in Hc. cbv zeta in Hc.
  destruct (match hex_decode value with Some v => decode_deposit_value v | None => None end) as [f|].
  - split_nil Hc. split_nil Hi. apply diff_if_nil in Hi4, Hi. apply spec_if_nil in Hi1, Hi2.
    apply andb_prop in Hi4. destruct Hi4 as [_ Hv]. apply bytes_eqb_eq in Hv.
    unfold fields_eqb in Hi. apply andb_prop in Hi. destruct Hi as [Hi _]. apply andb_prop in Hi. destruct Hi as [Hr _].
    apply bytes_eqb_eq in Hr.
    apply andb_prop in Hi1. destruct Hi1 as [Ha Ht]. apply Z.eqb_eq in Ha, Ht.
    apply bytes_eqb_eq in Hi2. rewrite Hr in Hi2.
    split; [exact Hv|]. split; [exact Ha|]. split; [exact Ht | exact (eq_sym Hi2)].
  - split_nil Hc. split_nil Hi. discriminate Hi.
Qed.
