From Coq Require Import ZArith List Bool Lia String.
From Verif Require Import Base.Harness Base.Dec Model.Escrow Model.EscrowTrace Proofs.EscrowProofs.
Import ListNotations.
Open Scope Z_scope.

(* ---- comparison of canonical maps ------------------------------------------------------------------- *)
Lemma kv_eqb_eq a b : kv_eqb a b = true -> a = b.
Proof.
  unfold kv_eqb. apply list_eqb_eq. intros [x1 x2] [y1 y2] H. cbn [fst snd] in H.
  apply andb_prop in H. destruct H as [H1 H2]. apply Z.eqb_eq in H1. apply Z.eqb_eq in H2. subst. reflexivity.
Qed.

Lemma owed_sum_insert x l : owed_sum (kv_insert x l) = snd x + owed_sum l.
Proof.
  induction l as [|y t IH]; cbn [kv_insert owed_sum]; [reflexivity|].
  destruct (fst x <=? fst y); cbn [owed_sum]; lia.
Qed.

Lemma owed_sum_canon l : owed_sum (canon l) = owed_sum l.
Proof.
  unfold canon. induction l as [|x t IH]; cbn [filter fold_right owed_sum]; [reflexivity|].
  unfold kv_nonzero at 1. destruct (snd x =? 0) eqn:E; cbn [negb fold_right].
  - apply Z.eqb_eq in E. lia.
  - rewrite owed_sum_insert. lia.
Qed.

Lemma floor_sum_insert x l : floor_sum (kv_insert x l) = snd x / P + floor_sum l.
Proof.
  induction l as [|y t IH]; cbn [kv_insert floor_sum]; [reflexivity|].
  destruct (fst x <=? fst y); cbn [floor_sum]; lia.
Qed.

Lemma floor_sum_canon l : floor_sum (canon l) = floor_sum l.
Proof.
  unfold canon. induction l as [|x t IH]; cbn [filter fold_right floor_sum]; [reflexivity|].
  unfold kv_nonzero at 1. destruct (snd x =? 0) eqn:E; cbn [negb fold_right].
  - apply Z.eqb_eq in E. rewrite E. cbn. lia.
  - rewrite floor_sum_insert. lia.
Qed.

Lemma forall_nonneg_insert x l :
  0 <= snd x -> Forall (fun c => 0 <= snd c) l -> Forall (fun c => 0 <= snd c) (kv_insert x l).
Proof.
  intros Hx. induction 1 as [|y t Hy Ht IH]; cbn [kv_insert].
  - constructor; [exact Hx | constructor].
  - destruct (fst x <=? fst y); constructor; auto.
Qed.

Lemma forall_nonneg_canon l : Forall (fun c => 0 <= snd c) l -> Forall (fun c => 0 <= snd c) (canon l).
Proof.
  unfold canon. induction 1 as [|x t Hx Ht IH]; cbn [filter fold_right]; [constructor|].
  destruct (kv_nonzero x); cbn [fold_right]; [apply forall_nonneg_insert; assumption | exact IH].
Qed.

(* ---- strict runs are runs ------------------------------------------------------------------------------ *)
Lemma erun_strict_total ops : forall s s', erun_strict ops s = Some s' -> fold_left estep_total ops s = s'.
Proof.
  induction ops as [|o t IH]; intros s s' H; cbn [erun_strict fold_left] in *.
  - injection H as <-. reflexivity.
  - unfold estep_total at 2. destruct (estep s o) as [s1|] eqn:E; [|discriminate]. apply IH, H.
Qed.

Lemma erun_strict_inv ops : forall s s', einv s -> erun_strict ops s = Some s' -> einv s'.
Proof.
  induction ops as [|o t IH]; intros s s' Hi H; cbn [erun_strict] in H.
  - injection H as <-. exact Hi.
  - destruct (estep s o) as [s1|] eqn:E; [|discriminate]. eapply IH; [|exact H]. eapply estep_inv; eassumption.
Qed.

Lemma block_ops_payouts s : forall ts cs n, Forall is_payout (block_ops s ts cs n).
Proof.
  induction ts as [|t ts' IH]; intros cs n; cbn [block_ops]; [constructor|].
  destruct ts' as [|t2 ts2].
  - constructor; [destruct t; exact I | constructor].
  - constructor; [destruct t; exact I | apply IH].
Qed.

Theorem epay_block_steps qs tbr delta n s s' :
  epay_block qs tbr delta n s = Some s' ->
  exists ops, Forall is_payout ops /\ erun_strict ops s = Some s' /\ fold_left estep_total ops s = s'.
Proof.
  unfold epay_block. intros H. eexists. split; [apply block_ops_payouts|]. split; [exact H|].
  apply erun_strict_total, H.
Qed.

Theorem epay_block_inv qs tbr delta n s s' : einv s -> epay_block qs tbr delta n s = Some s' -> einv s'.
Proof. unfold epay_block. intros Hi H. eapply erun_strict_inv; eassumption. Qed.

(* ---- every trace operation is a (possibly empty) sequence of machine operations ---------------------------- *)
Lemma tstep_total_flat s o : tstep_total s o = fold_left estep_total (tflat s o) s.
Proof.
  unfold tstep_total. destruct o as [e|qs tbr delta n|]; cbn [tstep_fn tflat fold_left].
  - reflexivity.
  - destruct (epay_block qs tbr delta n s) as [s'|] eqn:E; cbn [fold_left]; [|reflexivity].
    symmetry. apply erun_strict_total. exact E.
  - reflexivity.
Qed.

Theorem tstep_fn_inv s o s' : einv s -> tstep_fn s o = Some s' -> einv s'.
Proof.
  intros Hi H. destruct o as [e|qs tbr delta n|]; cbn [tstep_fn] in H.
  - eapply estep_inv; eassumption.
  - eapply epay_block_inv; eassumption.
  - injection H as <-. exact Hi.
Qed.

Lemma tstep_total_inv s o : einv s -> einv (tstep_total s o).
Proof. intros Hi. rewrite tstep_total_flat. apply erun_inv, Hi. Qed.

Lemma tfold_flat ops : forall s, fold_left tstep_total ops s = fold_left estep_total (tflat_all s ops) s.
Proof.
  induction ops as [|o t IH]; intros s; [reflexivity|].
  cbn [fold_left tflat_all]. rewrite fold_left_app, <- tstep_total_flat. apply IH.
Qed.

(* every state a trace runs through is reached by steps of the machine of Model/Escrow.v *)
Lemma trun_reachable ops : forall s,
  Forall (fun s' => exists eops, s' = fold_left estep_total eops s) (trun s ops).
Proof.
  induction ops as [|o t IH]; intros s; cbn [trun]; constructor.
  - exists (tflat s o). apply tstep_total_flat.
  - specialize (IH (tstep_total s o)). rewrite Forall_forall in IH |- *. intros s' Hs'.
    destruct (IH s' Hs') as [eops He]. exists (tflat s o ++ eops).
    rewrite fold_left_app, <- tstep_total_flat. exact He.
Qed.

Lemma trun_inv ops : forall s, einv s -> Forall einv (trun s ops).
Proof.
  induction ops as [|o t IH]; intros s Hi; cbn [trun]; constructor.
  - apply tstep_total_inv, Hi.
  - apply IH, tstep_total_inv, Hi.
Qed.

(* ---- soundness of the check ----------------------------------------------------------------------------------- *)
Lemma tcmp_nil name s o : tcmp name s o = [] -> tproj s = ob_canon o.
Proof.
  unfold tcmp. intros H.
  repeat match type of H with _ ++ _ = [] => apply app_nil_both in H; let H1 := fresh "D" in destruct H as [H1 H] end.
  apply diff_if_nil in D, D0, D1, D2, D3, D4, D5, H.
  apply Z.eqb_eq in D, D0, D2, D4, D5, H. apply kv_eqb_eq in D1, D3.
  unfold tproj, ob_canon. destruct o as [a1 a2 a3 a4 a5 a6 a7 a8]; cbn [ob_supply ob_oracle ob_owed ob_tips ob_credits ob_tbr ob_feecoll ob_pools] in *.
  congruence.
Qed.

Lemma forallb_nonneg l : forallb (fun c : Z * Z => 0 <=? snd c) l = true -> Forall (fun c => 0 <= snd c) l.
Proof.
  intros H. rewrite Forall_forall. rewrite forallb_forall in H. intros c Hc. apply Z.leb_le, H, Hc.
Qed.

Lemma einv_b_sound s : einv_b s = true -> einv s.
Proof.
  unfold einv_b, einv. intros H.
  apply andb_prop in H. destruct H as [H B8]. apply andb_prop in H. destruct H as [H B7].
  apply andb_prop in H. destruct H as [H B6]. apply andb_prop in H. destruct H as [H B5].
  apply andb_prop in H. destruct H as [H B4]. apply andb_prop in H. destruct H as [H B3].
  apply andb_prop in H. destruct H as [B1 B2].
  apply Z.eqb_eq in B1, B8. apply Z.leb_le in B2, B3, B6, B7.
  apply forallb_nonneg in B4, B5. repeat split; assumption.
Qed.

Lemma c04t_walk_sound steps : forall s prev,
  c04t_walk s prev steps = [] ->
  map ob_canon (tobserved prev steps) = map tproj (trun s (map ts_op steps))
  /\ verdicts_agree s steps.
Proof.
  induction steps as [|[o acc changed] t IH]; intros s prev H; [split; [reflexivity | exact I]|].
  cbn [c04t_walk] in H.
  apply app_nil_both in H. destruct H as [Hv H].
  apply app_nil_both in H. destruct H as [Hc H].
  apply app_nil_both in H. destruct H as [_ H].
  destruct (IH _ _ H) as [IH1 IH2]. cbn [map trun tobserved ts_op ts_changed verdicts_agree ts_accepted]. split.
  - f_equal; [symmetry; eapply tcmp_nil; exact Hc | exact IH1].
  - split; [|exact IH2]. intros Hs.
    destruct o as [e|qs tbr delta n|]; [| |congruence]; cbn [has_verdict negb] in Hv.
    + destruct acc; apply diff_if_nil in Hv; [symmetry; exact Hv|].
      destruct (is_some (tstep_fn s (TOp e))); [discriminate | reflexivity].
    + destruct acc; apply diff_if_nil in Hv; [symmetry; exact Hv|].
      destruct (is_some (tstep_fn s (TPayBlock qs tbr delta n))); [discriminate | reflexivity].
Qed.

(* (i) a trace that passes the check is a run of the machine: the observations after the steps are exactly the
   states the machine runs through from the initial state, projected to the compared fields; the initial state
   satisfies the invariant; the machine steps exactly on the operations the chain accepted *)
Theorem c04t_check_sound init ops0 steps :
  c04t_check (C04T init ops0 steps) = [] ->
  einv (tinit init ops0)
  /\ map ob_canon (tobserved init steps) = map tproj (trun (tinit init ops0) (map ts_op steps))
  /\ verdicts_agree (tinit init ops0) steps.
Proof.
  cbn [c04t_check]. intros H. apply app_nil_both in H. destruct H as [Hi H].
  apply spec_if_nil in Hi. split; [apply einv_b_sound, Hi|]. apply c04t_walk_sound, H.
Qed.

(* ... and that run is a run of the machine of Model/Escrow.v itself (ETip / EMint / EWithdrawTip / EPayTip /
   EPayTbr steps only) *)
Theorem c04t_run_is_machine_run s ops :
  fold_left tstep_total ops s = fold_left estep_total (tflat_all s ops) s
  /\ Forall (fun s' => exists eops, s' = fold_left estep_total eops s) (trun s ops).
Proof. split; [apply tfold_flat | apply trun_reachable]. Qed.

Lemma map_eq_forall {A B C} (f : A -> C) (g : B -> C) (Q : B -> Prop) xs : forall ys,
  map f xs = map g ys -> Forall Q ys -> Forall (fun x => exists y, Q y /\ g y = f x) xs.
Proof.
  induction xs as [|x t IH]; intros ys Hm Hf; [constructor|].
  destruct ys as [|y ys]; [discriminate|]. cbn [map] in Hm. injection Hm as Hm1 Hm2.
  inversion Hf; subst. constructor; [exists y; split; [assumption | symmetry; exact Hm1] | apply (IH ys); assumption].
Qed.

(* hence every observed state is the projection of a machine state that satisfies the invariant *)
Theorem c04t_check_observed_inv init ops0 steps :
  c04t_check (C04T init ops0 steps) = [] ->
  Forall (fun o => exists s, einv s /\ tproj s = ob_canon o) (tobserved init steps).
Proof.
  intros H. destruct (c04t_check_sound _ _ _ H) as (Hi & Hm & _).
  pose proof (trun_inv (map ts_op steps) _ Hi) as Hf.
  exact (map_eq_forall ob_canon tproj einv _ _ Hm Hf).
Qed.

(* what this means for the observed numbers: the oracle account equals the unpaid tips, no credit is negative,
   and the tips pool covers the whole-unit credits as long as fewer than 10^18 credit entries were written *)
Theorem c04t_observed_meaning o s : einv s -> tproj s = ob_canon o ->
  ob_oracle o = owed_sum (ob_owed o)
  /\ Forall (fun c => 0 <= snd c) (canon (ob_credits o))
  /\ (e_credit_ops s < P -> floor_sum (ob_credits o) <= ob_tips o).
Proof.
  intros Hi Hp. unfold tproj, ob_canon in Hp. injection Hp as H1 H2 H3 H4 H5 H6 H7 H8.
  pose proof Hi as (I1 & _ & _ & I4 & _). split; [|split].
  - rewrite <- H2, I1, <- (owed_sum_canon (ob_owed o)), <- H3, owed_sum_canon. reflexivity.
  - rewrite <- H5. apply forall_nonneg_canon, I4.
  - intros Hk. pose proof (tips_pool_covers_withdrawals s Hi Hk) as Hc.
    rewrite <- (floor_sum_canon (ob_credits o)), <- H5, floor_sum_canon, <- H4. exact Hc.
Qed.

(* ---- what the block operation does: its payouts credit exactly the observed delta -------------------------------- *)
Lemma credit_add_twice k x y l : credit_add k y (credit_add k x l) = credit_add k (x + y) l.
Proof.
  induction l as [|a t IH]; cbn [credit_add].
  - cbn [fst snd]. rewrite Z.eqb_refl. reflexivity.
  - destruct (fst a =? k) eqn:E; cbn [credit_add fst snd].
    + rewrite Z.eqb_refl. f_equal. f_equal. lia.
    + rewrite E. f_equal. exact IH.
Qed.

Lemma credits_add_app a b l : credits_add (a ++ b) l = credits_add b (credits_add a l).
Proof. unfold credits_add. apply fold_left_app. Qed.

Lemma take_amount_credits cs : forall need l,
  credits_add (snd (take_amount need cs)) (credits_add (fst (take_amount need cs)) l) = credits_add cs l.
Proof.
  induction cs as [|x t IH]; intros need l; cbn [take_amount]; [reflexivity|].
  destruct (need <=? 0); [reflexivity|].
  destruct (snd x <=? need); cbn [fst snd].
  - unfold credits_add at 2 3. cbn [fold_left]. apply IH.
  - unfold credits_add. cbn [fold_left fst snd]. rewrite credit_add_twice.
    replace (need + (snd x - need)) with (snd x) by lia. reflexivity.
Qed.

Definition has_key (k : Z) (l : list (Z * Z)) : bool := existsb (fun y => fst y =? k) l.

Lemma has_key_credit_add_same k v l : has_key k (credit_add k v l) = true.
Proof.
  induction l as [|a t IH]; cbn [credit_add has_key existsb fst]; [rewrite Z.eqb_refl; reflexivity|].
  destruct (fst a =? k) eqn:E; cbn [existsb fst]; [rewrite Z.eqb_refl; reflexivity|].
  rewrite E. exact IH.
Qed.

Lemma has_key_credit_add k k' v l : has_key k l = true -> has_key k (credit_add k' v l) = true.
Proof.
  unfold has_key.
  induction l as [|a t IH]; cbn [credit_add existsb]; [discriminate|]. intros H.
  destruct (fst a =? k') eqn:E; cbn [existsb fst].
  - apply Z.eqb_eq in E. rewrite <- E. exact H.
  - apply orb_prop in H. destruct H as [H|H]; [rewrite H; reflexivity|]. rewrite (IH H). apply orb_true_r.
Qed.

Lemma has_key_credits_add k cs : forall l, has_key k l = true -> has_key k (credits_add cs l) = true.
Proof.
  unfold credits_add. induction cs as [|c t IH]; intros l H; cbn [fold_left]; [exact H|].
  apply IH, has_key_credit_add, H.
Qed.

Lemma credit_add_zero k l : has_key k l = true -> credit_add k 0 l = l.
Proof.
  induction l as [|a t IH]; cbn [credit_add has_key existsb]; [discriminate|]. intros H.
  destruct (fst a =? k) eqn:E.
  - apply Z.eqb_eq in E. destruct a as [a1 a2]. cbn [fst snd] in *. subst. f_equal. f_equal. lia.
  - cbn [orb] in H. f_equal. apply IH, H.
Qed.

Lemma credits_add_repeat_zero k j l : has_key k l = true -> credits_add (repeat (k, 0) j) l = l.
Proof.
  intros H. induction j as [|j IH]; cbn [repeat]; [reflexivity|].
  unfold credits_add in *. cbn [fold_left fst snd]. rewrite (credit_add_zero k l H). exact IH.
Qed.

Lemma pad_credits j cs l : credits_add (pad j cs) l = credits_add cs l.
Proof.
  unfold pad. destruct cs as [|x t]; [reflexivity|]. rewrite credits_add_app.
  apply credits_add_repeat_zero. unfold credits_add. cbn [fold_left].
  apply has_key_credits_add, has_key_credit_add_same.
Qed.

Definition op_credits (o : eop) : list (Z * Z) :=
  match o with EPayTip _ cs => cs | EPayTbr cs => cs | _ => [] end.
Definition ops_credits (ops : list eop) : list (Z * Z) := List.concat (map op_credits ops).

Lemma block_ops_credits s : forall ts cs n l, ts <> [] ->
  credits_add (ops_credits (block_ops s ts cs n)) l = credits_add cs l.
Proof.
  unfold ops_credits. induction ts as [|t ts' IH]; intros cs n l Hne; [congruence|].
  cbn [block_ops]. destruct ts' as [|t2 ts2].
  - cbn [map List.concat]. rewrite app_nil_r. destruct t; cbn [pay_op op_credits]; apply pad_credits.
  - cbn [map List.concat]. rewrite credits_add_app.
    replace (op_credits (pay_op t (fst (take_amount (pay_amount s t * P) cs)))) with (fst (take_amount (pay_amount s t * P) cs))
      by (destruct t; reflexivity).
    rewrite IH by discriminate. apply take_amount_credits.
Qed.

(* a strict run of payouts: coins only move from the oracle account and the reward pool into the tips pool, the
   ledger grows by the payouts' credits, the entry counter by their number *)
Lemma payouts_frame ops : forall s s', Forall is_payout ops -> erun_strict ops s = Some s' ->
  e_supply s' = e_supply s /\ e_users s' = e_users s /\ e_feecoll s' = e_feecoll s /\ e_bonded s' = e_bonded s
  /\ e_oracle s' + e_tips s' + e_tbr s' = e_oracle s + e_tips s + e_tbr s
  /\ e_oracle s' <= e_oracle s /\ e_tbr s' <= e_tbr s
  /\ e_credits s' = credits_add (ops_credits ops) (e_credits s)
  /\ e_credit_ops s' = e_credit_ops s + Z.of_nat (List.length (ops_credits ops)).
Proof.
  unfold ops_credits.
  induction ops as [|o t IH]; intros s s' Hp H; cbn [erun_strict] in H.
  - injection H as <-. cbn. repeat split; lia.
  - inversion Hp as [|o' t' Ho Ht]; subst. destruct (estep s o) as [s1|] eqn:E; [|discriminate].
    destruct (IH _ _ Ht H) as (A1 & A2 & A3 & A4 & A5 & A6 & A7 & A8 & A9).
    cbn [map List.concat]. rewrite credits_add_app, app_length, Nat2Z.inj_add.
    destruct o as [q a | q cs | cs | sel | p]; try (exfalso; exact Ho); cbn [estep] in E.
    + destruct ((0 <? owed_get q (e_owed s)) && payout_ok (owed_get q (e_owed s)) cs) eqn:C; [|discriminate].
      apply andb_prop in C. destruct C as [C _]. apply Z.ltb_lt in C.
      injection E as <-. cbn [op_credits] in *.
      cbn [e_supply e_users e_feecoll e_bonded e_oracle e_tips e_tbr e_credits e_credit_ops] in *.
      repeat split; try lia; assumption.
    + destruct ((0 <? e_tbr s) && payout_ok (e_tbr s) cs) eqn:C; [|discriminate].
      apply andb_prop in C. destruct C as [C _]. apply Z.ltb_lt in C.
      injection E as <-. cbn [op_credits] in *.
      cbn [e_supply e_users e_feecoll e_bonded e_oracle e_tips e_tbr e_credits e_credit_ops] in *.
      repeat split; try lia; assumption.
Qed.

(* the number of entries the cut needs: those of delta, one more per boundary between two payouts, or n *)
Lemma take_amount_length cs : forall need,
  (List.length (fst (take_amount need cs)) + List.length (snd (take_amount need cs)) <= S (List.length cs))%nat.
Proof.
  induction cs as [|x t IH]; intros need; cbn [take_amount]; [cbn; lia|].
  destruct (need <=? 0); [cbn; lia|].
  destruct (snd x <=? need); cbn [fst snd List.length]; [specialize (IH (need - snd x)); lia | lia].
Qed.

Lemma pad_length j cs : (List.length (pad j cs) <= List.length cs + j)%nat.
Proof. unfold pad. destruct cs; [cbn; lia|]. rewrite app_length, repeat_length. lia. Qed.

Lemma block_ops_length s : forall ts cs n,
  (List.length (ops_credits (block_ops s ts cs n)) <= Nat.max n (List.length cs + List.length ts))%nat.
Proof.
  unfold ops_credits. induction ts as [|t ts' IH]; intros cs n; cbn [block_ops]; [cbn; lia|].
  destruct ts' as [|t2 ts2].
  - cbn [map List.concat]. rewrite app_nil_r.
    replace (op_credits (pay_op t (pad (n - List.length cs) cs))) with (pad (n - List.length cs) cs) by (destruct t; reflexivity).
    pose proof (pad_length (n - List.length cs) cs). cbn [List.length]. lia.
  - cbn [map List.concat]. rewrite app_length.
    replace (op_credits (pay_op t (fst (take_amount (pay_amount s t * P) cs)))) with (fst (take_amount (pay_amount s t * P) cs))
      by (destruct t; reflexivity).
    specialize (IH (snd (take_amount (pay_amount s t * P) cs)) (n - List.length (fst (take_amount (pay_amount s t * P) cs)))%nat).
    pose proof (take_amount_length cs (pay_amount s t * P)). cbn [List.length] in *. lia.
Qed.

(* (ii') the effect of the block operation in closed form *)
Theorem epay_block_effect qs tbr delta n s s' :
  pay_targets qs tbr <> [] -> epay_block qs tbr delta n s = Some s' ->
  e_credits s' = credits_add delta (e_credits s)
  /\ e_supply s' = e_supply s /\ e_users s' = e_users s /\ e_feecoll s' = e_feecoll s /\ e_bonded s' = e_bonded s
  /\ e_oracle s' + e_tips s' + e_tbr s' = e_oracle s + e_tips s + e_tbr s
  /\ e_oracle s' <= e_oracle s /\ e_tbr s' <= e_tbr s
  /\ e_credit_ops s <= e_credit_ops s' <= e_credit_ops s + Z.max n (Z.of_nat (List.length delta + List.length (pay_targets qs tbr))).
Proof.
  unfold epay_block. intros Hne H.
  destruct (payouts_frame _ _ _ (block_ops_payouts s _ _ _) H) as (A1 & A2 & A3 & A4 & A5 & A6 & A7 & A8 & A9).
  rewrite block_ops_credits in A8 by exact Hne.
  pose proof (block_ops_length s (pay_targets qs tbr) delta (Z.to_nat n)) as Hl.
  repeat split; try assumption; try lia.
Qed.

Example trace_nonvacuous :
  c04t_check (C04T (TObs 5000 0 [] 0 [] 0 0 700) 0
    [TStep (TOp (ETip 1 1000)) true [USupply 4980; UOracle 980; UOwed [(1, 980)]];
     TStep (TOp (ETip 2 51)) true [USupply 4979; UOracle 1030; UOwed [(2, 50); (1, 980)]];
     TStep (TOp (ETip 2 0)) false [];
     TStep (TOp (EMint 1000)) true [USupply 5979; UTbr 750; UFeecoll 250];
     TStep TSkip true [];
     TStep TSkip false [];
     TStep (TPayBlock [1] true [(7, 1240 * P - 1); (8, 490 * P)] 3) true
           [UOracle 50; UOwed [(2, 50)]; UTips 1730; UCredits [(8, 490 * P); (7, 1240 * P - 1)]; UTbr 0];
     TStep (TOp (EWithdrawTip 7)) true [UTips 491; UCredits [(7, P - 1); (8, 490 * P)]; UPools 1939];
     TStep (TOp (EWithdrawTip 7)) false []]) = []
  /\ c04t_check (C04T (TObs 5000 0 [] 0 [] 0 0 700) 0
    [TStep (TOp (ETip 1 1000)) true [USupply 4980; UOracle 981; UOwed [(1, 980)]]])
     = [Diff "e_oracle after Tip"; Spec "oracle account differs from the sum of unpaid tips on open queries"].
Proof. split; vm_compute; reflexivity. Qed.
