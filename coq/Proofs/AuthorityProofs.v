From Coq Require Import ZArith List Bool String Lia.
From Verif Require Import Base.Harness Model.Authority Model.Ledger.
Import ListNotations.
Open Scope Z_scope.

Theorem gated_needs_authority {S P} authority (apply : S -> P -> option S) st req payload :
  req <> authority -> gated authority apply st req payload = None.
Proof. intros H. unfold gated. destruct (String.eqb_spec authority req); [congruence | reflexivity]. Qed.

Theorem gated_by_authority {S P} authority (apply : S -> P -> option S) st payload :
  gated authority apply st authority payload = apply st payload.
Proof. unfold gated. rewrite String.eqb_refl. reflexivity. Qed.

Theorem team_by_team_only team current new : current <> team -> update_team team current new = None.
Proof. intros H. unfold update_team. destruct (Z.eqb_spec team current); [congruence | reflexivity]. Qed.

Theorem no_reregistration specs qtype spec spec' specs' :
  register_spec specs qtype spec = Some specs' -> register_spec specs' qtype spec' = None.
Proof.
  unfold register_spec. destruct (existsb _ specs); [discriminate|]. intros H. injection H as <-.
  cbn [existsb fst]. rewrite String.eqb_refl. reflexivity.
Qed.

Theorem no_reregistration_any_case specs q1 q2 spec spec' specs' :
  lower_str q1 = lower_str q2 ->
  register_spec specs q1 spec = Some specs' -> register_spec specs' q2 spec' = None.
Proof.
  intros E. unfold register_spec. destruct (existsb _ specs); [discriminate|]. intros H. injection H as <-.
  cbn [existsb fst]. rewrite E, String.eqb_refl. reflexivity.
Qed.

(* soundness of the executable frame condition evaluated on the real histories: if the check
   passes for a step of an accepted message with a real signer, every account whose holdings
   went down is the signer or falls under one of the three stated exceptions *)
Theorem c19_step_sound before op signer params after decs :
  c19_step before (Step op signer 0 params after decs) = [] -> 0 <= signer ->
  ~ In op privileged_ops ->
  forall acct comp role, In (acct, comp, role) decs ->
    role = "signer"%string \/ exception_ok op params role comp = true.
Proof.
  intros H Hs Hnp acct comp role Hin. unfold c19_step in H. cbn [st_op st_params st_result st_signer st_decreased] in H.
  assert (Hp : str_in op privileged_ops = false).
  { unfold str_in. destruct (existsb (String.eqb op) privileged_ops) eqn:E; [|reflexivity].
    apply existsb_exists in E. destruct E as (x & Hx & Ex). apply String.eqb_eq in Ex. subst x. contradiction. }
  rewrite Hp in H. cbn [app] in H.
  replace (0 =? 0) with true in H by reflexivity. cbn [andb] in H.
  assert (Hlt : (signer <? 0) = false) by (apply Z.ltb_ge; exact Hs). rewrite Hlt in H. cbn [negb] in H.
  induction decs as [|d t IH]; [destruct Hin|].
  cbn [flat_map] in H. apply app_nil_both in H. destruct H as [H1 H2].
  destruct Hin as [->|Hin]; [|apply IH; assumption].
  apply spec_if_nil in H1. apply orb_prop in H1. destruct H1 as [H1|H1]; [left; apply String.eqb_eq; exact H1 | right; exact H1].
Qed.

(* a third party's MsgRemoveSelector changes a selection only for a selector below its reporter's minimum
   whose reporter is over the cap; every other selection is kept *)
Lemma remove_selector_only_if sels sel stake mn nsel cap sels' :
  remove_selector sels sel stake mn nsel cap = Some sels' ->
  stake < mn /\ cap < nsel /\ (forall e, In e sels -> fst e <> sel -> In e sels') /\ (forall e, In e sels' -> In e sels /\ fst e <> sel).
Proof.
  unfold remove_selector. destruct ((stake <? mn) && (cap <? nsel)) eqn:E; [|discriminate]. intros H. injection H as <-.
  apply andb_prop in E. destruct E as [E1 E2]. apply Z.ltb_lt in E1, E2. split; [exact E1|]. split; [exact E2|]. split.
  - intros e He Hn. apply filter_In. split; [exact He|]. apply negb_true_iff. apply Z.eqb_neq. exact Hn.
  - intros e He. apply filter_In in He. destruct He as [H1 H2]. split; [exact H1|]. apply negb_true_iff in H2. apply Z.eqb_neq in H2. exact H2.
Qed.

Lemma remove_selector_rejected sels sel stake mn nsel cap :
  mn <= stake \/ nsel <= cap -> remove_selector sels sel stake mn nsel cap = None.
Proof.
  intros H. unfold remove_selector. destruct ((stake <? mn) && (cap <? nsel)) eqn:E; [|reflexivity].
  apply andb_prop in E. destruct E as [E1 E2]. apply Z.ltb_lt in E1, E2. lia.
Qed.

(* the first exception applies to funded disputes only: when a dispute message reduced the stake of the disputed
   reporter or of one of its backers, the dispute was fully funded after that message *)
Lemma dispute_exception_needs_funding op params role comp :
  exception_ok op params role comp = true ->
  str_in role ["disputed_reporter"; "backer_of_disputed"]%string = true -> funded_after params = true.
Proof.
  unfold exception_ok. intros H Hr.
  apply orb_prop in H. destruct H as [H|H].
  - apply orb_prop in H. destruct H as [H|H].
    + apply andb_prop in H. destruct H as [H _]. apply andb_prop in H. destruct H as [H _]. apply andb_prop in H. destruct H as [_ H]. exact H.
    + exfalso. apply andb_prop in H. destruct H as [H _]. apply andb_prop in H. destruct H as [_ H]. apply String.eqb_eq in H. subst role.
      cbn in Hr. discriminate.
  - exfalso. apply andb_prop in H. destruct H as [H _]. apply andb_prop in H. destruct H as [_ H]. apply String.eqb_eq in H. subst role.
    cbn in Hr. discriminate.
Qed.
